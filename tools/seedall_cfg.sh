#!/bin/bash
# seed regression for the two properties whose refined-graph comparison changed last (C05, C20)
cd "$(dirname "$0")/.."
for f in C05 C20; do SEEDALL_FILTER=$f bash tools/seedall.sh; done
