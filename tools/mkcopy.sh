#!/bin/bash
# usage: mkcopy.sh NAME  -- private working copy of the framework for one builder (outside /repo and /verif)
set -e
d=/tmp/w_$1
rm -rf $d; mkdir -p $d
rsync -a --exclude .cache --exclude .git --exclude 'coq/**/*.vo' --exclude 'coq/**/*.glob' --exclude 'coq/**/.*.aux' --exclude 'coq/**/*.vok' --exclude 'coq/**/*.vos' --exclude replay --exclude __pycache__ /verif/ $d/verif/
cd $d/verif/coq && coq_makefile -f _CoqProject -o Makefile >/dev/null 2>&1 && timeout 900 make -j8 >/dev/null 2>&1
# share the already built non-analyze harness artefacts to save time
mkdir -p $d/verif/.cache && cp -r /verif/.cache/target $d/verif/.cache/target 2>/dev/null || true
echo $d/verif
