#!/bin/bash
# usage: multiseed.sh <seed> [<seed>...]  -- every check's quick tier under other seeds (false-alarm hunt); one line per check and seed
cd "$(dirname "$0")/.."
if [ -n "${VP_RUN_REPO:-}" ]; then export VERIF_REPO=$VP_RUN_REPO; echo "using repo snapshot $VERIF_REPO"; python3 check.py --setup 2>&1 | tail -1; fi
for sd in "$@"; do
  for p in C01 C02 C03 C04 C05 C06 C07 C08 C09 C10 C11 C12 C13 C14 C15 C16 C17 C18 C19 C20; do
    out=$(VERIF_SEED=$sd python3 check.py $p 2>&1)
    echo "seed=$sd $(echo "$out" | grep -E "done in" | tail -1) $(echo "$out" | grep -c '^VIOLATION') violation lines"
    echo "$out" | grep "^VIOLATION\|DISAGREE" | head -3
  done
done
