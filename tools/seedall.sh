#!/bin/bash
# regression over all stored seeds: each patch against the check of its own property; prints one line per seed
cd "$(dirname "$0")/.."
if [ -n "${VP_RUN_REPO:-}" ]; then export VERIF_REPO=$VP_RUN_REPO; echo "using repo snapshot $VERIF_REPO"; python3 check.py --setup 2>&1 | tail -1; fi
for d in seeded/${SEEDALL_FILTER:-}*/; do
  name=$(basename $d)
  prop=$(python3 -c "import json;print(json.load(open('$d/meta.json')).get('property','?').split(',')[0])")
  [ -f $d/patch.diff ] || continue
  out=$(tools/seedtest.sh $PWD/$d/patch.diff $prop 2>&1)
  v=$(echo "$out" | grep -c "^VIOLATION")
  nf=$(echo "$out" | grep "^VIOLATION" | grep -c "no-failing-input-found")
  t=$(echo "$out" | grep -o "done in [0-9.]*s" | head -1)
  echo "$name $prop violations=$v unproved_only=$([ $v -gt 0 ] && [ $v -eq $nf ] && echo yes || echo no) $t"
done
git -C ${VERIF_REPO:-/repo} status --short 2>/dev/null | head -3
