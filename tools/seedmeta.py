#!/usr/bin/env python3
"""usage: seedmeta.py <seed dir> <property> <detected-by> <notes...>  -- record what was confirmed and what detected it"""
import json, sys, os
d, prop, detected = sys.argv[1], sys.argv[2], sys.argv[3]
notes = " ".join(sys.argv[4:])
p = os.path.join(d, "meta.json")
m = json.load(open(p)) if os.path.exists(p) else {}
m["property"] = prop
m["confirmed_by_me"] = "applied in the sub-agent's scratch worktree: existing tests of the touched crates pass with the change; the demonstration fails with it and passes without it"
m["detected_by"] = detected
m["detection_notes"] = notes
json.dump(m, open(p, "w"), indent=1)
print("ok", p)
