#!/bin/bash
# seed regression for the properties whose checks changed after the last full tools/seedall.sh run
cd "$(dirname "$0")/.."
for f in C02 C12 C13 C18 C10 C01 C07 C09; do SEEDALL_FILTER=$f bash tools/seedall.sh; done
