#!/bin/bash
# runs every check's thorough command in turn (used with `vp run`); prints one summary line per property
if [ -n "${VP_RUN_REPO:-}" ]; then export VERIF_REPO=$VP_RUN_REPO; echo "using repo snapshot $VERIF_REPO"; fi
python3 check.py --setup 2>&1 | tail -2
for p in C17 C04 C16 C19 C02 C03 C07 C08 C09 C10 C11 C13 C14 C01 C12 C18 C06 C20 C15 C05; do
  echo "=== $p $(date +%H:%M:%S)"
  python3 check.py $p --tier thorough 2>&1 | grep -v "^KNOWN-FINDING" | tail -4
  echo "exit=${PIPESTATUS[0]}"
done
