#!/bin/bash
# usage: seedtest.sh <patch.diff> <Cxx> [more Cxx...]   -- apply a seeded change to /repo, run the checks, undo it
# (evidence files and generated Coq files of the clean tree are put back afterwards)
set -u
patch=$1; shift
cd /verif
bak=$(mktemp -d /verif/.cache/evbak.XXXXXX)
cp -a evidence/. "$bak"/
git -C /repo apply "$patch" || { echo "patch does not apply"; rm -rf "$bak"; exit 2; }
for p in "$@"; do
  echo "=== $p with $(basename $(dirname $patch))"
  python3 check.py $p 2>&1 | grep -v "^\[$p\] proofs ok" | tail -6
  echo "exit=${PIPESTATUS[0]}"
done
git -C /repo checkout -- .
git -C /repo status --short | head -3
cp -a "$bak"/. evidence/
rm -rf "$bak"
python3 -c "
import sys; sys.path.insert(0,'/verif')
from lib import common
print('regen after revert:', common.regen()[0])
print('harness rebuilt on the clean tree:', common.build_harness(False)[0], common.build_harness(True)[0])"
