#!/bin/bash
# usage: seedtest.sh <patch.diff> <Cxx> [more Cxx...]   -- apply a seeded change to /repo, run the checks, undo it
# (evidence files and generated Coq files of the clean tree are put back afterwards)
set -u
patch=$1; shift
R=${VERIF_REPO:-/repo}          # the checkout the checks look at (a snapshot under `vp run --with-repo`)
cd "$(dirname "$0")/.."
mkdir -p .cache; bak=$(mktemp -d $PWD/.cache/evbak.XXXXXX)
cp -a evidence/. "$bak"/
git -C "$R" apply "$patch" || { echo "patch does not apply"; rm -rf "$bak"; exit 2; }
for p in "$@"; do
  echo "=== $p with $(basename $(dirname $patch))"
  python3 check.py $p 2>&1 | grep -v "^\[$p\] proofs ok" | tail -6
  echo "exit=${PIPESTATUS[0]}"
done
git -C "$R" apply -R "$patch" || echo "REVERT FAILED in $R"
git -C "$R" status --short 2>/dev/null | head -3
cp -a "$bak"/. evidence/
rm -rf "$bak"
python3 -c "
import sys; sys.path.insert(0,'.')
from lib import common
print('regen after revert:', common.regen()[0])
print('harness rebuilt on the clean tree:', common.build_harness(False)[0], common.build_harness(True)[0])"
