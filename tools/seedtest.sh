#!/bin/bash
# usage: seedtest.sh <patch.diff> <Cxx> [more Cxx...]   -- apply a seeded change to /repo, run the checks, undo it
set -u
patch=$1; shift
cd /verif
git -C /repo apply "$patch" || { echo "patch does not apply"; exit 2; }
for p in "$@"; do
  echo "=== $p with $(basename $(dirname $patch))"
  python3 check.py $p 2>&1 | grep -v "^\[$p\] proofs ok" | tail -6
  echo "exit=$?"
done
git -C /repo checkout -- .
git -C /repo status --short | head -3
