#!/bin/bash
# usage: seedconfirm.sh <Cxx> <demo crate> [extra cargo test args]  -- in the sub-agent's worktree /tmp/seed_<Cxx>:
# existing tests with the change, demo with the change (must fail), demo without it (must pass); leaves the change applied
p=$1; crate=$2; shift 2
cd /tmp/seed_$p || exit 2
export CARGO_TARGET_DIR=/tmp/seed_$p/target CARGO_NET_OFFLINE=true
echo "--- status"; git status --short | head
echo "--- existing tests + demo WITH the change"
cargo test "$@" --offline --no-fail-fast 2>&1 | grep -E "^test result|FAILED|panicked|Running|error\[" | head -40
echo "--- demo WITHOUT the change"
git apply -R seed_out/patch.diff || exit 3
cargo test -p $crate --offline --test seed_demo 2>&1 | grep -E "^test result|FAILED" | head
git apply seed_out/patch.diff
