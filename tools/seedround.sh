#!/bin/bash
# usage: seedround.sh <worktree> <name under seeded/> <demo crate> "<cargo test args>" <Cxx...>
wt=$1; name=$2; crate=$3; targs=$4; shift 4
cd $wt || exit 2
export CARGO_TARGET_DIR=$wt/target CARGO_NET_OFFLINE=true
echo "##### $name"
echo "--- existing tests + demo WITH the change"
cargo test $targs --offline --no-fail-fast 2>&1 | grep -E "^test result|FAILED" | head -12
echo "--- demo WITHOUT the change"
git apply -R seed_out/patch.diff || exit 3
cargo test -p $crate --offline --test seed_demo 2>&1 | grep -E "^test result" | head -3
git apply seed_out/patch.diff
mkdir -p /verif/seeded/$name
cp seed_out/patch.diff seed_out/meta.json /verif/seeded/$name/ 2>/dev/null
cp seed_out/seed_demo.rs /verif/seeded/$name/ 2>/dev/null
cd /verif && tools/seedtest.sh /verif/seeded/$name/patch.diff "$@" 2>&1 | grep -v "^KNOWN" | grep "===\|VIOLATION\|done in\|exit=\|DISAGREE" 
