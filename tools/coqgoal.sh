#!/bin/bash
# usage: coqgoal.sh File.v LINE  -- show the goals after line LINE of File.v (relative to /verif/coq)
f=$1; n=$2
tmp=$(dirname $f)/zz_goal_tmp.v
head -n $n $f > $tmp
echo 'Show. Abort All.' >> $tmp
cd /verif/coq && timeout 300 coqc -Q . Verif -w -notation-overridden $tmp 2>&1 | grep -v 'auto_activate\|^conda' | tail -${3:-40}
rm -f $tmp $(dirname $f)/zz_goal_tmp.vo $(dirname $f)/zz_goal_tmp.glob $(dirname $f)/.zz_goal_tmp.aux $(dirname $f)/zz_goal_tmp.vos $(dirname $f)/zz_goal_tmp.vok
