#!/usr/bin/env python3
"""Driver: one entry point for every check.

  python3 check.py C17 [--tier quick|thorough]     run one property's check
  python3 check.py --setup                         build the Coq development and the harness
  python3 check.py --replay replay/C17-....json    re-run a recorded input

Exit 0: the property held on everything explored.  Exit 1: a line
`VIOLATION property=<id> replay=<path>` was printed.
"""
import argparse
import importlib
import json
import os
import sys

HERE = os.path.dirname(os.path.abspath(__file__))
sys.path.insert(0, HERE)
from lib import common  # noqa: E402


def setup():
    ok, out = common.regen()
    print(out)
    if not ok:
        return 1
    common.ensure_makefile()
    ok, out, dt = common.coq_make([], timeout=3000)
    print(out[-3000:])
    print(f"coq build: {'ok' if ok else 'FAILED'} in {dt:.0f}s")
    rc = 0 if ok else 1
    ok, out, dt = common.build_harness(False)
    print(out[-1500:])
    print(f"harness build: {'ok' if ok else 'FAILED'} in {dt:.0f}s")
    rc |= 0 if ok else 1
    ok, out, dt = common.build_harness(True)
    print(out[-1500:])
    print(f"harness (analyze) build: {'ok' if ok else 'FAILED'} in {dt:.0f}s")
    rc |= 0 if ok else 1
    return rc


def main():
    ap = argparse.ArgumentParser()
    ap.add_argument("pid", nargs="?")
    ap.add_argument("--tier", default=os.environ.get("VERIF_TIER", "quick"))
    ap.add_argument("--setup", action="store_true")
    ap.add_argument("--replay")
    a = ap.parse_args()
    if a.setup:
        sys.exit(setup())
    seed = int(os.environ.get("VERIF_SEED", "1"))
    if a.replay:
        obj = json.load(open(os.path.join(HERE, a.replay) if not os.path.isabs(a.replay) else a.replay))
        pid = obj.get("property")
        mod = importlib.import_module(f"checks.{pid.lower()}")
        sys.exit(mod.replay(obj))
    pid = a.pid.upper()
    tier = a.tier if a.tier in ("quick", "thorough") else "quick"
    mod = importlib.import_module(f"checks.{pid.lower()}")
    run = common.Run(pid, tier, seed)
    try:
        rc = mod.check(run)
    except Exception as e:  # machinery failure is a failure of the check, never silence
        import traceback
        traceback.print_exc()
        run.violation_unproved("check-machinery", repr(e))
        rc = run.finish(level="proof", trusted=["machinery crashed"])
    sys.exit(rc)


if __name__ == "__main__":
    main()
