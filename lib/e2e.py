"""End-to-end runs of the user-facing binaries of /repo (`eas`, `disease`, `ecfg`), built from the
current working tree into /verif/.cache/target.  They cover the glue around the modelled cores
(clap option parsing, InputSource, HexRead/HexWrite wiring, the `disease` listing printer DisplayOp,
`ecfg`'s main) that the harness bypasses.  Scratch files live in a temporary directory that is
removed before returning."""
import os
import re
import shutil
import tempfile

from lib import common

BIN = {"eas": ("etk-asm", "cli"), "disease": ("etk-dasm", "cli"), "ecfg": ("etk-analyze", "cli")}


def build_bins(names, timeout=3000):
    cmd = ["cargo", "build", "--offline", "--manifest-path", os.path.join(common.REPO, "Cargo.toml")]
    feats = set()
    for n in names:
        pkg, feat = BIN[n]
        cmd += ["-p", pkg, "--bin", n]
        feats.add(f"{pkg}/{feat}")
    cmd += ["--features", ",".join(sorted(feats))]
    env = dict(common.OFFLINE_ENV)
    env["CARGO_TARGET_DIR"] = os.path.join(common.CACHE, "target")
    rc, out = common.sh(cmd, cwd=common.VERIF, env=env, timeout=timeout)
    return rc == 0, out


def bin_path(name):
    return os.path.join(common.CACHE, "target", "debug", name)


class Scratch:
    def __init__(self):
        self.dir = tempfile.mkdtemp(prefix="vh_e2e_")
        self.n = 0

    def file(self, data, ext):
        self.n += 1
        p = os.path.join(self.dir, f"f{self.n}.{ext}")
        with open(p, "wb") as f:
            f.write(data if isinstance(data, bytes) else data.encode())
        return p

    def cleanup(self):
        shutil.rmtree(self.dir, ignore_errors=True)


def run_bin(name, args, timeout=120):
    rc, out = common.sh([bin_path(name)] + args, timeout=timeout, env={"RUST_BACKTRACE": "0"})
    return rc, out


LINE = re.compile(r"^\s*([0-9a-f]+):   (\S+)(?: (0x[0-9a-f]*))?(?: #.*)?$")


def parse_listing(text):
    """disease output -> list of (offset, mnemonic, imm hex or None); blank lines separate blocks"""
    items = []
    for line in text.splitlines():
        if not line.strip():
            continue
        m = LINE.match(line)
        if not m:
            return None
        items.append((int(m.group(1), 16), m.group(2), m.group(3)))
    return items


def disease(scratch, code, mode):
    if mode == "code":
        args = ["-c", "0x" + code.hex()]
    elif mode == "hex":
        args = ["--hex-file", scratch.file(("0x" if len(code) % 3 == 0 else "") + code.hex() + ("\n" if len(code) % 2 else ""), "hex")]
    else:
        args = ["--bin-file", scratch.file(bytes(code), "bin")]
    return run_bin("disease", args)


def eas(scratch, text, to_file=False):
    src = scratch.file(text, "etk")
    if to_file:
        out = src + ".out"
        rc, o = run_bin("eas", [src, out])
        data = open(out).read() if os.path.exists(out) else ""
        return rc, data if rc == 0 else o
    return run_bin("eas", [src])
