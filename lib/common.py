"""Shared machinery for every check: regenerate Gen/, build proofs, audit, build and
run the harness, evaluate the Coq model on cases, write evidence, report verdicts."""
import hashlib
import json
import os
import random
import re
import subprocess
import sys
import time

VERIF = os.path.dirname(os.path.dirname(os.path.abspath(__file__)))
REPO = os.environ.get("VERIF_REPO", "/repo")
COQ = os.path.join(VERIF, "coq")
CACHE = os.path.join(VERIF, ".cache")
TARGET = os.path.join(CACHE, "target")
HARNESS = os.path.join(VERIF, "harness")
NPROC = os.cpu_count() or 4

OFFLINE_ENV = {"CARGO_NET_OFFLINE": "true", "CARGO_TARGET_DIR": TARGET}

FORBIDDEN = r"Admitted|admit\b|\bAxiom\b|\bParameter\b|\bConjecture\b|Unset Guard|bypass_check|type-in-type|impredicative-set|Admit Obligations|\bVariable\b.*\(\*TOP\*\)"


def sh(cmd, timeout=600, cwd=None, env=None, stdin=None):
    e = dict(os.environ)
    if env:
        e.update(env)
    try:
        p = subprocess.run(cmd, shell=isinstance(cmd, str), cwd=cwd, env=e, input=stdin,
                           stdout=subprocess.PIPE, stderr=subprocess.STDOUT, timeout=timeout, text=True)
        out = "\n".join(l for l in p.stdout.splitlines() if "auto_activate" not in l and not l.startswith("conda"))
        return p.returncode, out
    except subprocess.TimeoutExpired as ex:
        out = ex.stdout or ""
        if isinstance(out, bytes):
            out = out.decode("utf-8", "replace")
        return 124, out + "\nTIMEOUT"


# ------------------------------------------------------------------ translator
def regen():
    rc, out = sh([sys.executable, os.path.join(VERIF, "tools", "gen_tables.py")], timeout=60)
    return rc == 0, out


# ------------------------------------------------------------------ coq
def ensure_makefile():
    mk = os.path.join(COQ, "Makefile")
    proj = os.path.join(COQ, "_CoqProject")
    if not os.path.exists(mk) or os.path.getmtime(mk) < os.path.getmtime(proj):
        sh("coq_makefile -f _CoqProject -o Makefile", cwd=COQ, timeout=60)


def coq_make(targets, timeout=1500):
    """Full .vo build of the given targets (never -vos/-vok)."""
    ensure_makefile()
    t0 = time.time()
    rc, out = sh(["make", f"-j{NPROC}"] + targets, cwd=COQ, timeout=timeout)
    return rc == 0, out, time.time() - t0


def coq_prop(pid, timeout=1500):
    """Build everything Props/<pid>.v depends on, then force a re-check of the property file
    itself so that its Print Assumptions output is captured on every run."""
    ensure_makefile()
    vo = os.path.join(COQ, "Props", f"{pid}.vo")
    if os.path.exists(vo):
        os.remove(vo)
    ok, out, dt = coq_make([f"Props/{pid}.vo"], timeout=timeout)
    compiled = re.findall(r"^COQC (\S+)", out, flags=re.M)
    if ok and [c for c in compiled if c != f"Props/{pid}.v"]:
        # dependencies were rebuilt in the same make: their own output (some proof files print
        # assumptions too) is mixed into the log -- check the property file once more on its own
        if os.path.exists(vo):
            os.remove(vo)
        ok, out, dt2 = coq_make([f"Props/{pid}.vo"], timeout=timeout)
        dt += dt2
    return ok, out, dt


def parse_assumptions(log):
    """Return list of (theorem, 'closed' | [axiom names]) from a coqc log that contains the
    output of `Print Assumptions`.  The theorem names are not printed by Coq, so they are
    matched positionally with the Print Assumptions commands of the source file."""
    blocks = []
    lines = log.splitlines()
    i = 0
    while i < len(lines):
        l = lines[i]
        if l.startswith("Closed under the global context"):
            blocks.append("closed")
        elif l.startswith("Axioms:"):
            names = []
            i += 1
            while i < len(lines) and (lines[i].startswith(" ") or re.match(r"^[A-Za-z_][\w.']* *:", lines[i])):
                m = re.match(r"^([A-Za-z_][\w.']*) *:", lines[i])
                if m:
                    names.append(m.group(1))
                i += 1
            blocks.append(names)
            continue
        i += 1
    return blocks


def prop_source_info(pid):
    src = open(os.path.join(COQ, "Props", f"{pid}.v")).read()
    printed = re.findall(r"Print Assumptions (\w+)\.", src)
    theorems = re.findall(r"^(?:Theorem|Lemma|Corollary)\s+(\w+)", src, flags=re.M)
    checks = re.findall(r"^Check (\w+) :", src, flags=re.M)
    return theorems, printed, checks


def dep_files(pid):
    """.v files of the development that Props/<pid>.v transitively depends on."""
    ensure_makefile()
    rc, out = sh("coqdep -Q . Verif $(grep '\\.v$' _CoqProject)", cwd=COQ, timeout=120)
    deps = {}
    for line in out.splitlines():
        if ":" not in line:
            continue
        lhs, rhs = line.split(":", 1)
        tgt = lhs.split()[0]
        if not tgt.endswith(".vo"):
            continue
        deps[tgt[:-1]] = [d[:-1] for d in rhs.split() if d.endswith(".vo")]
    seen = []
    todo = [f"Props/{pid}.v"]
    while todo:
        f = todo.pop()
        if f in seen:
            continue
        seen.append(f)
        todo.extend(deps.get(f, []))
    return sorted(seen)


def count_obligations(files):
    n = 0
    for f in files:
        src = open(os.path.join(COQ, f)).read()
        n += len(re.findall(r"^\s*(?:Theorem|Lemma|Corollary|Example|Fact|Proposition)\s+\w+", src, flags=re.M))
    return n


def audit(files=None):
    """No Admitted/admit/Axiom/Parameter/Conjecture/guard switches anywhere in the development."""
    bad = []
    for root, _, names in os.walk(COQ):
        for n in names:
            if not n.endswith(".v") or n.startswith("zz_") or n.startswith("cases_"):
                continue
            p = os.path.join(root, n)
            src = open(p).read()
            # strip comments (non nested is enough for our sources; nested handled by loop)
            prev = None
            while prev != src:
                prev = src
                src = re.sub(r"\(\*[^()]*?\*\)", "", src, flags=re.S)
            for ln, line in enumerate(src.splitlines(), 1):
                if re.search(r"\bAdmitted\b|\badmit\b|\bAxiom\b|\bAxioms\b|\bParameter\b|\bParameters\b|\bConjecture\b|Unset Guard|bypass_check|type-in-type|impredicative-set|Admit Obligations|Unset Positivity|Unset Universe", line):
                    bad.append(f"{os.path.relpath(p, COQ)}:{ln}: {line.strip()}")
                if re.match(r"^\s*(Variable|Variables|Hypothesis|Hypotheses)\b", line):
                    # allowed only inside a Section: checked coarsely by requiring an enclosing Section
                    before = "\n".join(src.splitlines()[:ln])
                    opened = len(re.findall(r"^\s*Section\s+\w+", before, flags=re.M))
                    closed = len(re.findall(r"^\s*End\s+\w+", before, flags=re.M))
                    if opened - closed <= 0:
                        bad.append(f"{os.path.relpath(p, COQ)}:{ln}: {line.strip()} (outside a section)")
    rc, out = sh("grep -n 'type-in-type\\|impredicative' _CoqProject", cwd=COQ)
    if rc == 0 and out.strip():
        bad.append("_CoqProject: " + out.strip())
    return bad


def coq_eval(imports, exprs, timeout=600, shard=None, tag="x"):
    """Evaluate; cases left without an answer (an error aborts the rest of a shard) are retried
    one per file so that one bad case cannot hide the others."""
    results, errors = _coq_eval_once(imports, exprs, timeout, shard, tag)
    missing = [i for i, r in enumerate(results) if r is None]
    if missing and len(missing) < len(exprs):
        sub, errs2 = _coq_eval_once(imports, [exprs[i] for i in missing], timeout, len(missing) if len(missing) <= 64 else None, tag + "r")
        for i, r in zip(missing, sub):
            results[i] = r
        errors = errs2 if all(r is not None for r in results) else errors + errs2
    return results, errors


def _coq_eval_once(imports, exprs, timeout=600, shard=None, tag="x"):
    """Evaluate Gallina expressions of type string with vm_compute, sharded over coqc processes.
    Returns the list of resulting strings (None where evaluation failed)."""
    if not exprs:
        return []
    os.makedirs(os.path.join(COQ, "Cases"), exist_ok=True)
    nsh = shard or min(NPROC, max(1, len(exprs) // 20))
    chunks = [[] for _ in range(nsh)]
    for i, e in enumerate(exprs):
        chunks[i % nsh].append((i, e))
    procs = []
    for k, ch in enumerate(chunks):
        if not ch:
            continue
        path = os.path.join(COQ, "Cases", f"cases_{tag}_{os.getpid()}_{k}.v")
        with open(path, "w") as f:
            f.write(imports + "\nSet Printing Width 10000000.\nSet Printing Depth 10000000.\nOpen Scope string_scope.\n")
            for i, e in ch:
                f.write(f'Eval vm_compute in ("#{i}#" ++ ({e}))%string.\n')
        outf = open(path[:-2] + ".out", "w")
        p = subprocess.Popen(["bash", "-c", f"ulimit -s unlimited 2>/dev/null; exec coqc -noglob -Q {COQ} Verif -w -all {path}"],
                             stdout=outf, stderr=subprocess.STDOUT, text=True, cwd=COQ)
        procs.append((p, path))
    results = [None] * len(exprs)
    errors = []
    deadline = time.time() + timeout
    for p, path in procs:
        try:
            p.wait(timeout=max(1, deadline - time.time()))
        except subprocess.TimeoutExpired:
            p.kill()
            p.wait()
            errors.append(f"timeout in {path}")
        out = open(path[:-2] + ".out", errors="replace").read()
        for m in re.finditer(r'^\s*= "#(\d+)#((?:[^"]|"")*)"\s*$', out, flags=re.M):
            results[int(m.group(1))] = m.group(2).replace('""', '"')
        if p.returncode not in (0, None) or "Error" in out:
            errors.append(out[-2000:])
        for ext in (".v", ".vo", ".vok", ".vos", ".glob", ".out"):
            q = path[:-2] + ext
            if os.path.exists(q):
                os.remove(q)
        aux = os.path.join(os.path.dirname(path), "." + os.path.basename(path)[:-2] + ".aux")
        if os.path.exists(aux):
            os.remove(aux)
    return results, errors


# ------------------------------------------------------------------ coq term helpers
def coq_str(s):
    out = []
    for ch in s:
        if ch == '"':
            out.append('""')
        elif 32 <= ord(ch) < 127:
            out.append(ch)
        else:
            raise ValueError("non printable in coq string")
    return '"' + "".join(out) + '"'


def coq_N(n):
    return f"{n}%N"


def coq_Z(n):
    return f"({n})%Z"


def coq_list(items):
    return "[" + "; ".join(items) + "]"


def coq_bytes(bs):
    return "[" + "; ".join(f"{b}" for b in bs) + "]%N"


# ------------------------------------------------------------------ harness
def harness_bin(analyze=False):
    return os.path.join(TARGET, "debug", "etk-vh-analyze" if analyze else "etk-vh")


def harness_dir():
    """The harness crate names /repo by absolute path; for a run against another checkout
    (VERIF_REPO) a copy with rewritten paths is built instead."""
    if REPO == "/repo":
        return HARNESS
    import shutil
    dst = os.path.join(CACHE, "harness_alt")
    if os.path.exists(dst):
        shutil.rmtree(dst)
    shutil.copytree(HARNESS, dst, ignore=shutil.ignore_patterns("target", "Cargo.lock"))
    ct = os.path.join(dst, "Cargo.toml")
    text = open(ct).read().replace('"/repo/', '"' + REPO.rstrip("/") + "/")
    with open(ct, "w") as f:
        f.write(text)
    return dst


def build_harness(analyze=False, timeout=3000):
    os.makedirs(CACHE, exist_ok=True)
    HARNESS = harness_dir()
    lock_src = os.path.join(REPO, "Cargo.lock")
    lock_dst = os.path.join(HARNESS, "Cargo.lock")
    if not os.path.exists(lock_dst) and os.path.exists(lock_src):
        import shutil
        shutil.copy(lock_src, lock_dst)
    cmd = ["cargo", "build", "--offline", "--bin", "etk-vh-analyze" if analyze else "etk-vh"]
    if analyze:
        cmd += ["--features", "analyze"]
    t0 = time.time()
    rc, out = sh(cmd, cwd=HARNESS, env=OFFLINE_ENV, timeout=timeout)
    return rc == 0, out, time.time() - t0


def run_harness(lines, analyze=False, timeout=600, args=None):
    """Feed request lines to the harness, get one response line per request."""
    data = "\n".join(lines) + "\n"
    rc, out = sh([harness_bin(analyze)] + (args or []), stdin=data, timeout=timeout, env={"RUST_BACKTRACE": "0"})
    res = [l for l in out.splitlines() if l.startswith("R ")]
    return [l[2:] for l in res], rc, out


# ------------------------------------------------------------------ findings
def load_known_findings():
    path = os.path.join(VERIF, "KNOWN_FINDINGS.txt")
    findings = []
    if os.path.exists(path):
        for line in open(path):
            line = line.strip()
            if line.startswith("finding:"):
                m = re.match(r"finding:\s+property=(\w+)\s+class=(\S+)\s+(.*)", line)
                if m:
                    findings.append(dict(pid=m.group(1), cls=m.group(2), text=m.group(3)))
    return findings


# ------------------------------------------------------------------ run context
class Run:
    def __init__(self, pid, tier, seed):
        self.pid = pid
        self.tier = tier
        self.seed = seed
        self.rng = random.Random(seed * 1000003 + int(pid[1:]))
        self.t0 = time.time()
        self.violations = []        # (replay_path, suffix)
        self.known = []             # strings
        self.notes = []
        self.coverage = {}
        self.assumptions = []
        self.samples = []
        self.proof = dict(obligations=0, discharged=0, ok=False, log="", axioms=[])
        self.corr = dict(cases=0, disagreements=0, distribution={})

    def log(self, msg):
        print(f"[{self.pid}] {msg}", flush=True)

    # ---- proof step
    def prove(self, allow_axioms=()):
        ok, out = regen()
        if not ok:
            self.log("translator failed: " + out)
            self.violation_unproved("translator", out)
            return False
        bad = audit()
        ok, log, dt = coq_prop(self.pid)
        files = dep_files(self.pid)
        nobl = count_obligations(files)
        theorems, printed, checks = prop_source_info(self.pid)
        blocks = parse_assumptions(log)
        self.proof.update(obligations=nobl, files=files, theorems=theorems, seconds=round(dt, 1))
        problems = []
        if bad:
            problems.append("audit: " + "; ".join(bad))
        if not ok:
            problems.append("coq build failed:\n" + log[-3000:])
            # the models must keep evaluating when a proof breaks: build every model/spec file that still compiles
            models = [f for f in open(os.path.join(COQ, "_CoqProject")).read().split() if f.startswith(("Model/", "Spec/", "Gen/")) and f.endswith(".v")]
            sh(["make", "-k", f"-j{NPROC}"] + [m + "o" for m in models], cwd=COQ, timeout=900)
        else:
            if len(blocks) != len(printed):
                problems.append(f"Print Assumptions output count {len(blocks)} != {len(printed)}")
            axioms = set()
            for name, b in zip(printed, blocks):
                if b != "closed":
                    for a in b:
                        axioms.add(a)
                        if a not in allow_axioms:
                            problems.append(f"theorem {name} depends on non-allowed axiom {a}")
            self.proof["axioms"] = sorted(axioms)
            missing = [t for t in theorems if t not in printed or t not in checks]
            if missing:
                problems.append(f"theorems without Print Assumptions/Check pin: {missing}")
        if not problems and self.tier == "thorough":
            # independent re-check of the compiled property file and everything it depends on
            rc, out = sh(["coqchk", "-o", "-silent", "-Q", ".", "Verif", f"Verif.Props.{self.pid}"], cwd=COQ, timeout=6000)
            summary = out[out.find("CONTEXT SUMMARY"):] if "CONTEXT SUMMARY" in out else out[-1500:]
            wanted = ["* Axioms: <none>", "relying on type-in-type: <none>", "relying on unsafe (co)fixpoints: <none>",
                      "whose positivity is assumed: <none>"]
            self.proof["coqchk"] = " ".join(summary.split())[:600]
            if rc != 0 or not all(w in summary for w in wanted):
                problems.append("coqchk: " + summary[-1500:])
            else:
                self.notes.append("coqchk -o: Axioms <none>; no type-in-type, unsafe fixpoints or assumed positivity")
        if problems:
            self.proof["ok"] = False
            self.proof["log"] = "\n".join(problems)
            self.log("PROOF BROKEN: " + self.proof["log"][:1500])
            return False
        self.proof["ok"] = True
        self.proof["discharged"] = nobl
        self.log(f"proofs ok: {nobl} obligations in {len(files)} files, {len(theorems)} property theorems, {dt:.1f}s")
        return True

    # ---- verdict helpers
    def replay_path(self, tag, obj):
        os.makedirs(os.path.join(VERIF, "replay"), exist_ok=True)
        h = hashlib.sha1(json.dumps(obj, sort_keys=True).encode()).hexdigest()[:10]
        rel = f"replay/{self.pid}-{tag}-{h}.json"
        with open(os.path.join(VERIF, rel), "w") as f:
            json.dump(obj, f, indent=1, sort_keys=True)
        return rel

    def violation(self, obj):
        """A concrete failing input was found."""
        rel = self.replay_path("fail", obj)
        self.violations.append((rel, ""))

    def violation_unproved(self, what, detail):
        obj = dict(property=self.pid, no_longer_checks=what, detail=str(detail)[-4000:])
        rel = self.replay_path("unproved", obj)
        self.violations.append((rel, " no-failing-input-found"))

    def known_finding(self, text):
        if text not in self.known:
            self.known.append(text)

    # ---- evidence + exit
    def finish(self, level="proof", trusted=None, checker_cmd=None, extra_cov=None):
        cov = dict(
            obligations=self.proof["obligations"],
            discharged=self.proof["discharged"] if self.proof["ok"] else 0,
            checker_cmd=checker_cmd or f"make -C coq Props/{self.pid}.vo  (coqc 8.16.1, full .vo build) + audit grep + Print Assumptions allow-list",
            trusted_base=trusted or [],
            property_theorems=self.proof.get("theorems", []),
            axioms=self.proof.get("axioms", []),
            proof_files=self.proof.get("files", []),
            proof_seconds=self.proof.get("seconds", 0),
            coqchk=self.proof.get("coqchk", "not run in the quick tier"),
            evaluations=self.corr["cases"],
            distinct_nontrivial=self.corr.get("distinct", 0),
            rule=self.corr.get("rule", ""),
            disagreements=self.corr["disagreements"],
            input_distribution=self.corr["distribution"],
            samples=self.samples[:8] if self.samples else [dict(note="no correspondence cases")],
        )
        if extra_cov:
            cov.update(extra_cov)
        ev = dict(
            property_id=self.pid, tier=self.tier, seed=self.seed, level=level, coverage=cov,
            assumptions=self.assumptions, wall_s=round(time.time() - self.t0, 2),
            violations=len(self.violations), known_findings=self.known, notes=self.notes,
        )
        os.makedirs(os.path.join(VERIF, "evidence"), exist_ok=True)
        with open(os.path.join(VERIF, "evidence", f"{self.pid}.json"), "w") as f:
            json.dump(ev, f, indent=1, sort_keys=True)
        for k in self.known:
            print(f"KNOWN-FINDING: property={self.pid} {k}")
        for rel, suffix in self.violations:
            print(f"VIOLATION property={self.pid} replay={rel}{suffix}")
        self.log(f"done in {ev['wall_s']}s: violations={len(self.violations)} known={len(self.known)}")
        return 1 if self.violations else 0


# ------------------------------------------------------------------ correspondence
def canon_default(s):
    if s is None:
        return "<no-answer>"
    s = s.strip()
    if s.startswith("panic:"):
        return "panic"
    return s


def correspond(run, cases, imports, analyze=False, canon=canon_default, timeout=900, tag="c"):
    """cases: list of dict(req=<harness request line>, coq=<Gallina string expr>, cat=<category>).
    Runs the implementation and the model on the same cases and returns the list of
    disagreeing cases (dicts with impl/model answers added)."""
    if not cases:
        return []
    reqs = [c["req"] for c in cases]
    impl, rc, raw = run_harness(reqs, analyze=analyze, timeout=timeout)
    if len(impl) != len(reqs):
        # the harness died (abort/stack overflow): find the culprit one by one
        impl = []
        for r in reqs:
            one, rc1, raw1 = run_harness([r], analyze=analyze, timeout=60)
            impl.append(one[0] if one else f"crash:rc={rc1}")
    model, errors = coq_eval(imports, [c["coq"] for c in cases], timeout=timeout, tag=tag + run.pid)
    dis = []
    dist = run.corr["distribution"]
    seen = set()
    for c, a, b in zip(cases, impl, model):
        dist[c.get("cat", "case")] = dist.get(c.get("cat", "case"), 0) + 1
        seen.add(c["req"])
        ca, cb = canon(a), canon(b)
        c["impl"] = a
        c["model"] = b
        if ca != cb:
            dis.append(c)
    run.corr["cases"] += len(cases)
    run.corr["distinct"] = run.corr.get("distinct", 0) + len(seen)
    run.corr["disagreements"] += len(dis)
    if errors and any(m is None for m in model):
        run.notes.append("coq evaluation errors: " + " | ".join(e[-300:] for e in errors[:3]))
    for c in cases[:3]:
        run.samples.append(dict(request=c["req"][:300], impl=(c["impl"] or "")[:300], model=(c["model"] or "")[:300]))
    return dis


def run_harness_parallel(lines, analyze=False, timeout=900, nproc=None):
    """Same contract as run_harness (answers in request order), the requests being split over
    several harness processes.  Returns (answers, complete?)."""
    from concurrent.futures import ThreadPoolExecutor
    nproc = nproc or min(NPROC, max(1, len(lines) // 50))
    chunks = [lines[i::nproc] for i in range(nproc)]
    with ThreadPoolExecutor(max_workers=nproc) as ex:
        res = list(ex.map(lambda ch: run_harness(ch, analyze=analyze, timeout=timeout), chunks))
    out = [None] * len(lines)
    complete = True
    for k, (ans, rc, raw) in enumerate(res):
        idx = list(range(k, len(lines), nproc))
        if len(ans) != len(idx):
            complete = False
            # the process died on some request: find it one by one
            ans = []
            for i in idx:
                one, rc1, raw1 = run_harness([lines[i]], analyze=analyze, timeout=60)
                ans.append(one[0] if one else f"crash:rc={rc1}")
        for i, a in zip(idx, ans):
            out[i] = a
    return out, complete
