"""Directory trees on disk for C12 / C18 and their translation into the Coq term of
Model/Path.v + Model/Ingest.v (`fs_t`).  The tree lives under a per-run temporary directory
(tempfile.mkdtemp(prefix="vh_")), removed by `Tree.cleanup()` / the context manager."""
import os
import shutil
import tempfile

from lib import asmgen as G

PREAMBLE = ("From Verif Require Import Model.Base Model.Ops Model.Expr Model.Asm Model.Hex Model.Path Model.Ingest.\n"
            "Definition CH (n : nat) : string := String (Ascii.ascii_of_nat n) EmptyString.")

PARSE_ERR = 'Err (mkErr "Parse.Lexer" [])'


class Tree:
    """One temp directory holding any number of case sub-trees."""

    def __init__(self):
        self.base = os.path.realpath(tempfile.mkdtemp(prefix="vh_"))
        self.files = {}          # absolute (non-resolved) path of a regular file -> (prog | None, text)

    def __enter__(self):
        return self

    def __exit__(self, *a):
        self.cleanup()

    def cleanup(self):
        shutil.rmtree(self.base, ignore_errors=True)

    # ---- building
    def p(self, *rel):
        return os.path.join(self.base, *rel)

    def mkdir(self, path):
        os.makedirs(path, exist_ok=True)

    def write_src(self, path, prog):
        """A source file printed from the python AST `prog`."""
        self.mkdir(os.path.dirname(path))
        text = G.prog_src(prog)
        with open(path, "w") as f:
            f.write(text)
        self.files[path] = (prog, text)

    def write_text(self, path, text, parses_as=None):
        """Any other file (hex blobs, garbage).  parses_as: None = parse_asm fails (Lexer),
        or a python AST the text is known to parse to (e.g. [] for blank text)."""
        self.mkdir(os.path.dirname(path))
        with open(path, "w") as f:
            f.write(text)
        self.files[path] = (parses_as, text)

    def symlink(self, path, target):
        self.mkdir(os.path.dirname(path))
        os.symlink(target, path)

    # ---- translation
    def file_coq(self, path):
        prog, text = self.files[path]
        src = PARSE_ERR if prog is None else "Ok " + G.nodes_coq(prog)
        return f"File (mkfile ({src}) {G.coq_text(text)})"

    def fs_coq(self, top, cwd=None):
        """The Coq `fs_t` for everything under directory `top` (a path below self.base), plus the
        ancestors of `top` as directories.  cwd: the process's current directory (realpath'ed)."""
        top = os.path.realpath(top)
        entries = []
        comps = [c for c in top.split("/") if c]
        for i in range(1, len(comps) + 1):
            entries.append((comps[:i], "Dir"))
        for d, dirs, names in os.walk(top, followlinks=False):
            for n in sorted(dirs + names):
                q = os.path.join(d, n)
                loc = [c for c in q.split("/") if c]
                if os.path.islink(q):
                    entries.append((loc, f"Link {G.cs(os.readlink(q))}"))
                elif os.path.isdir(q):
                    entries.append((loc, "Dir"))
                else:
                    entries.append((loc, self.file_coq(q)))
        cwd = os.path.realpath(cwd or os.getcwd())
        cw = [c for c in cwd.split("/") if c]
        def loc_coq(l):
            return "[" + "; ".join(G.cs(c) for c in l) + "]"
        body = "; ".join(f"({loc_coq(l)}, {n})" for l, n in entries)
        return f"(mkfs [{body}] {loc_coq(cw)})"
