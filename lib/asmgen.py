"""Assembler programs as python data: printing to etk source text and to Coq terms
(Model/Asm.v syntax), a reference parser for operand token lists, and reference
(python big-int) evaluation / decoding used by the property oracles.

Expressions:  ("num", z) ("lbl", s) ("var", s) ("paren", e) ("macro", name, [args])
              ("+", a, b) ("-", a, b) ("*", a, b) ("/", a, b)
Ops:          ("op", mnemonic, expr|None) ("label", l) ("push", e)
              ("defi", name, [params], [ops]) ("defe", name, [params], expr)
              ("macro", name, [args])
Directives (ingest.rs nodes; only at the top level of a file):
              ("import", path) ("include", path) ("include_hex", path)
Raw ops (asm.rs RawOp), for printing the result of preprocessing:
              ("scope", [rawops]) ("raw", bytes)   -- every other op is wrapped in ROp
"""
import os
import tomllib

REPO = os.environ.get("VERIF_REPO", "/repo")


def load_table(fork="cancun"):
    d = tomllib.load(open(os.path.join(REPO, "etk-ops", "src", f"{fork}.toml"), "rb"))
    return {v["mnemonic"]: (v["code"], v.get("extra_len", 0)) for v in d.values()}


_TABLE = None


def table():
    global _TABLE
    if _TABLE is None:
        _TABLE = load_table()
    return _TABLE


# ---------------------------------------------------------------- printing: source
BIN = {"+": 1, "-": 1, "*": 2, "/": 2}


def num_src(z, radix=10, lead=0):
    """`lead` leading zeros (after the radix prefix): they never change the value"""
    if z < 0:
        return "-" + "0" * lead + str(-z)
    if radix == 16:
        h = "%x" % z
        if len(h) < 2:
            h = "0" + h
        return "0x" + "0" * lead + h
    if radix == 2:
        return "0b" + "0" * lead + bin(z)[2:]
    if radix == 8:
        return "0o" + "0" * lead + oct(z)[2:]
    return "0" * lead + str(z)


def expr_src(e, sp=""):
    k = e[0]
    if k == "num":
        return num_src(e[1], e[2] if len(e) > 2 else 10, e[3] if len(e) > 3 else 0)
    if k == "lbl":
        return e[1]
    if k == "var":
        return "$" + e[1]
    if k == "paren":
        return "(" + expr_src(e[1], sp) + ")"
    if k == "macro":
        return e[1] + "(" + ",".join(expr_src(a, sp) for a in e[2]) + ")"
    return expr_src(e[1], sp) + sp + k + sp + expr_src(e[2], sp)


def op_src(o, indent=""):
    k = o[0]
    if k == "op":
        if o[2] is None:
            return indent + o[1]
        return indent + o[1] + " " + expr_src(o[2])
    if k == "label":
        return indent + o[1] + ":"
    if k == "push":
        return indent + "%push(" + expr_src(o[1]) + ")"
    if k == "macro":
        return indent + "%" + o[1] + "(" + ", ".join(expr_src(a) for a in o[2]) + ")"
    if k in ("import", "include", "include_hex"):
        return indent + "%" + k + '("' + o[1] + '")'
    if k == "defe":
        return indent + "%def " + o[1] + "(" + ", ".join(o[2]) + ")\n" + indent + "    " + expr_src(o[3]) + "\n" + indent + "%end"
    if k == "defi":
        body = "\n".join(op_src(b, indent + "    ") for b in o[3])
        return indent + "%macro " + o[1] + "(" + ", ".join(o[2]) + ")\n" + body + ("\n" if body else "") + indent + "%end"
    raise ValueError(k)


def prog_src(prog):
    return "\n".join(op_src(o) for o in prog) + "\n"


# ---------------------------------------------------------------- printing: Coq
def cs(s):
    return '"' + s.replace('"', '""') + '"'


def expr_coq(e):
    k = e[0]
    if k == "num":
        return f"(ENum ({e[1]}))"
    if k == "lbl":
        return f"(ELabel {cs(e[1])})"
    if k == "var":
        return f"(EVar {cs(e[1])})"
    if k == "paren":
        return f"(EParen {expr_coq(e[1])})"
    if k == "macro":
        return f"(EMacro {cs(e[1])} [" + "; ".join(expr_coq(a) for a in e[2]) + "])"
    name = {"+": "EPlus", "-": "EMinus", "*": "ETimes", "/": "EDivide"}[k]
    return f"({name} {expr_coq(e[1])} {expr_coq(e[2])})"


def op_coq(o):
    k = o[0]
    if k == "op":
        code = table()[o[1]][0]
        imm = "None" if o[2] is None else f"(Some {expr_coq(o[2])})"
        return f"(AOp {code}%N {imm})"
    if k == "label":
        return f"(ALabel {cs(o[1])})"
    if k == "push":
        return f"(APush {expr_coq(o[1])})"
    if k == "macro":
        return f"(AMacro {cs(o[1])} [" + "; ".join(expr_coq(a) for a in o[2]) + "])"
    if k == "defe":
        return f"(AMacroDefE {cs(o[1])} [" + "; ".join(cs(p) for p in o[2]) + f"] {expr_coq(o[3])})"
    if k == "defi":
        return f"(AMacroDefI {cs(o[1])} [" + "; ".join(cs(p) for p in o[2]) + "] [" + "; ".join(op_coq(b) for b in o[3]) + "])"
    raise ValueError(k)


def prog_coq(prog):
    return "[" + "; ".join("ROp " + op_coq(o) for o in prog) + "]"


DIRECTIVES = {"import": "NImport", "include": "NInclude", "include_hex": "NIncludeHex"}


def node_coq(o):
    """Model/Ingest.v `node`."""
    if o[0] in DIRECTIVES:
        return f"{DIRECTIVES[o[0]]} {cs(o[1])}"
    return "NOp " + op_coq(o)


def nodes_coq(prog):
    return "[" + "; ".join(node_coq(o) for o in prog) + "]"


def rawop_coq(o):
    """Model/Asm.v `rawop` (the output of preprocessing)."""
    if o[0] == "scope":
        return "RScope " + rawops_coq(o[1])
    if o[0] == "raw":
        return "RRaw [" + "; ".join(str(b) for b in o[1]) + "]%N"
    return "ROp " + op_coq(o)


def rawops_coq(prog):
    return "[" + "; ".join(rawop_coq(o) for o in prog) + "]"


def coq_text(s):
    """Any ASCII text as a Coq term of type string (control characters via `CH n`,
    defined in the case-file preamble as String (ascii_of_nat n) EmptyString)."""
    parts, cur = [], []
    for ch in s:
        if 32 <= ord(ch) < 127:
            cur.append('""' if ch == '"' else ch)
        else:
            if ord(ch) > 127:
                raise ValueError("non-ASCII text is outside the model")
            if cur:
                parts.append('"' + "".join(cur) + '"')
                cur = []
            parts.append(f"CH {ord(ch)}")
    if cur:
        parts.append('"' + "".join(cur) + '"')
    if not parts:
        return "EmptyString"
    if len(parts) == 1:
        return parts[0] if parts[0].startswith('"') else f"({parts[0]})"
    return "(String.concat EmptyString [" + "; ".join(parts) + "])"


# ---------------------------------------------------------------- reference parser of token lists
def climb(tokens):
    """tokens: [term, op, term, op, ...] -> tree, by the textbook two-level left fold
    (products first, then sums), which is what precedence climbing must produce."""
    # split into products
    sums = []
    cur = tokens[0]
    i = 1
    ops = []
    while i < len(tokens):
        op, t = tokens[i], tokens[i + 1]
        if op in "*/":
            cur = (op, cur, t)
        else:
            sums.append(cur)
            ops.append(op)
            cur = t
        i += 2
    sums.append(cur)
    tree = sums[0]
    for op, t in zip(ops, sums[1:]):
        tree = (op, tree, t)
    return tree


# ---------------------------------------------------------------- reference evaluation
class EvalError(Exception):
    def __init__(self, kind, arg=None):
        self.kind, self.arg = kind, arg


def tquot(a, b):
    q = abs(a) // abs(b)
    return q if (a >= 0) == (b >= 0) else -q


def ref_eval(e, labels, emacros, vars_=None, depth=0):
    """Substitution semantics of the property: a macro invocation denotes its body with each
    parameter standing for the VALUE of the argument at the call site."""
    k = e[0]
    if k == "num":
        return e[1]
    if k == "lbl":
        if e[1] not in labels or labels[e[1]] is None:
            raise EvalError("UnknownLabel", e[1])
        return labels[e[1]]
    if k == "var":
        if vars_ is None or e[1] not in vars_:
            raise EvalError("UndefinedVariable", e[1])
        return vars_[e[1]]
    if k == "paren":
        return ref_eval(e[1], labels, emacros, vars_, depth)
    if k == "macro":
        if e[1] not in emacros:
            raise EvalError("UnknownMacro", e[1])
        if depth >= 255:
            raise EvalError("RecursionLimit")
        params, body = emacros[e[1]]
        new = {}
        for p, a in zip(params, e[2]):
            new[p] = ref_eval(a, labels, emacros, vars_, depth)
        if len(e[2]) < len(params):          # every parameter needs an argument, read by the body or not
            raise EvalError("UndefinedVariable", params[len(e[2])])
        return ref_eval(body, labels, emacros, new, depth + 1)
    a = ref_eval(e[1], labels, emacros, vars_, depth)
    b = ref_eval(e[2], labels, emacros, vars_, depth)
    if k == "+":
        return a + b
    if k == "-":
        return a - b
    if k == "*":
        return a * b
    if b == 0:
        raise EvalError("DivisionByZero")
    return tquot(a, b)


# ---------------------------------------------------------------- decoding output bytes
def imm_len(b):
    return b - 0x5F if 0x60 <= b <= 0x7F else 0


def decode(bs):
    items, off = [], 0
    while off < len(bs):
        n = 1 + imm_len(bs[off])
        items.append((off, bs[off], bytes(bs[off + 1:off + n])))
        off += n
    return items


def width_of(v):
    return max(1, (v.bit_length() + 7) // 8)


# ---------------------------------------------------------------- the parser's Debug rendering
_NAMES = None


def variant_names():
    """mnemonic -> Rust variant name (the TOML table key)"""
    global _NAMES
    if _NAMES is None:
        d = tomllib.load(open(os.path.join(REPO, "etk-ops", "src", "cancun.toml"), "rb"))
        _NAMES = {v["mnemonic"]: k for k, v in d.items()}
    return _NAMES


def expr_debug(e):
    k = e[0]
    if k == "num":
        return f"Expression::Terminal(Terminal::Number({e[1]}))"
    if k == "lbl":
        return f"Expression::Terminal(Terminal::Label({e[1]}))"
    if k == "var":
        return f"Expression::Terminal(Terminal::Variable({e[1]}))"
    if k == "paren":
        return expr_debug(e[1])          # the parser builds no node for parentheses
    if k == "macro":
        return f'Expression::Macro("{e[1]}")'
    name = {"+": "Plus", "-": "Minus", "*": "Times", "/": "Divide"}[k]
    return f"Expression::{name}({expr_debug(e[1])}, {expr_debug(e[2])})"


def aop_debug(o):
    k = o[0]
    if k == "op":
        v = variant_names()[o[1]]
        if o[2] is None:
            return f"Op({v}({v}))"
        return f"Op({v}({v}(Imm {{ tree: {expr_debug(o[2])} }})))"
    if k == "label":
        return f'Label("{o[1]}")'
    if k == "push":
        return f"Push(Imm {{ tree: {expr_debug(o[1])} }})"
    if k == "macro":
        return f'Macro(InstructionMacroInvocation {{ name: "{o[1]}", parameters: [{", ".join(expr_debug(a) for a in o[2])}] }})'
    params = "[" + ", ".join(f'"{p}"' for p in o[2]) + "]"
    if k == "defe":
        return f'MacroDefinition(Expression(ExpressionMacroDefinition {{ name: "{o[1]}", parameters: {params}, content: Imm {{ tree: {expr_debug(o[3])} }} }}))'
    if k == "defi":
        return f'MacroDefinition(Instruction(InstructionMacroDefinition {{ name: "{o[1]}", parameters: {params}, contents: [{", ".join(aop_debug(b) for b in o[3])}] }}))'
    raise ValueError(k)


def prog_debug(prog):
    return "\n".join(f"Op({aop_debug(o)})" for o in prog)
