(* Model/Ingest.v -- executable model of etk-asm/src/ingest.rs: Program::{new,root,push_path,
   pop_path,resolve_path}, Ingest::{ingest_file,ingest,preprocess,resolve_and_ingest} over the
   modelled file system of Model/Path.v.

   NOT modelled: parsing (parse_asm).  A file carries the result of parsing its text (`f_src`,
   supplied with the tree: the node list, or the parse error) next to the text itself (`f_text`,
   which only %include_hex looks at).  The correspondence check prints every source file from a
   python AST, so `f_src` is that AST.

   Every file that a directive reads is LOGGED with the canonical location the read resolved to
   (a ghost log, kept also when the run fails later), so that C18 can be stated.
   The `sources` stack of Program is represented by its top (`cur`, the file being preprocessed),
   its length (`depth`) and its bottom (the top-level path, inside `root`): the only parts read.
   No proofs in this file. *)
From Verif Require Import Model.Base Model.Ops Model.Expr Model.Asm Model.Hex Model.Path.

(* etk-asm/src/ast.rs Node *)
Inductive node :=
| NOp (a : aop)
| NImport (p : string)
| NInclude (p : string)
| NIncludeHex (p : string).

Record file := mkfile {
  f_src : res (list node);       (* parse_asm(text): not modelled, given *)
  f_text : string }.

Definition fs_t := fsys file.

(* ---------- results with the ghost log of reads ---------- *)
Definition logged (A : Type) : Type := list loc * res A.

Definition lret {A} (a : A) : logged A := ([], Ok a).
Definition lfail {A} (e : err) : logged A := ([], Err e).
Definition llift {A} (r : res A) : logged A := ([], r).
Definition lbind {A B} (m : logged A) (k : A -> logged B) : logged B :=
  match snd m with
  | Ok a => let r := k a in (fst m ++ fst r, snd r)
  | Err e => (fst m, Err e)
  | Panic s => (fst m, Panic s)
  end.
Notation "'ldo' x <- r ; k" := (lbind r (fun x => k))
  (at level 200, x pattern, r at level 100, k at level 200).

(* ---------- str::trim (ASCII part) and hex::decode ---------- *)
Fixpoint bytes_of_string (s : string) : list N :=
  match s with
  | EmptyString => []
  | String c r => N_of_ascii c :: bytes_of_string r
  end.

(* White_Space below U+0080: U+0009..U+000D and U+0020 *)
Definition is_ascii_ws (c : N) : bool := (((9 <=? c) && (c <=? 13)) || (c =? 32))%N.

Fixpoint trim_start (cs : list N) : list N :=
  match cs with
  | c :: r => if is_ascii_ws c then trim_start r else cs
  | [] => []
  end.
(* trailing white space, in one pass (no list reversal: blobs are tens of thousands of characters) *)
Fixpoint trim_end (cs : list N) : list N :=
  match cs with
  | [] => []
  | c :: r =>
      match trim_end r with
      | [] => if is_ascii_ws c then [] else [c]
      | r' => c :: r'
      end
  end.
Definition trim (cs : list N) : list N := trim_end (trim_start cs).

(* hex::decode(file.trim()) -> Error::InvalidHex *)
Definition hex_decode_text (s : string) : res (list N) :=
  match decode_to_slice (trim (bytes_of_string s)) with
  | Ok bs => Ok bs
  | Err _ => err0 "InvalidHex"
  | Panic p => Panic p
  end.

Definition RECURSION_LIMIT : nat := 255.

Section Ingest.
  Variable fs : fs_t.
  Variable root : res loc.        (* Program.root: Root::new(first source), established lazily;
                                     the tree does not change, so it is one value per run *)

  (* `last.parent()...join(path)` *)
  Definition candidate (cur : lpath) (p : string) : lpath := join_path (dir_of cur) (parse_path p).

  (* self.root()?.check(&candidate)? *)
  Definition checked (cand : lpath) : res unit :=
    do r <- root ; root_check fs r cand.

  (* read_to_string(candidate), logging where the read went *)
  Definition read_logged (message : string) (cand : lpath) : logged file :=
    match read_at fs cand with
    | Ok (l, f) => ([l], Ok f)
    | Err _ => ([], io_err message)
    | Panic s => ([], Panic s)
    end.

  (* Program::push_path + read_to_string: depth = sources.len() *)
  Definition open_source (depth : nat) (cur : lpath) (p : string) : logged (lpath * file) :=
    if negb (Nat.leb depth RECURSION_LIMIT) then lfail (mkErr "RecursionLimit" [])
    else
      let cand := candidate cur p in
      ldo _ <- llift (checked cand) ;
      ldo f <- read_logged "reading_file_before_parsing" cand ;
      lret (cand, f).

  (* Program::resolve_path + read_to_string + hex::decode *)
  Definition include_hex (cur : lpath) (p : string) : logged (list N) :=
    let cand := candidate cur p in
    ldo _ <- llift (checked cand) ;
    ldo f <- read_logged "reading_hex_include" cand ;
    llift (hex_decode_text (f_text f)).

  (* Ingest::resolve_and_ingest, given how to preprocess the file it opens (None: no fuel left) *)
  Definition resolve_and_ingest_with
      (rec : option (nat -> lpath -> list node -> logged (list rawop)))
      (depth : nat) (cur : lpath) (p : string) : logged (list rawop) :=
    ldo cf <- open_source depth cur p ;
    let '(cand, f) := cf in
    match rec with
    | None => ([], Panic "preprocess: recursion beyond the limit of push_path")
    | Some k =>
        ldo nodes <- llift (f_src f) ;                     (* parse_asm: Error::Parse *)
        k (S depth) cand nodes                             (* then program.pop_path() *)
    end.

  (* the loop of Ingest::preprocess over the parsed nodes of the file `cur` *)
  Definition preprocess_with (rai : string -> logged (list rawop)) (cur : lpath)
    : list node -> logged (list rawop) :=
    fix go (nodes : list node) : logged (list rawop) :=
      match nodes with
      | [] => lret []
      | NOp a :: r => ldo rs <- go r ; lret (ROp a :: rs)
      | NImport p :: r =>
          ldo new_raws <- rai p ;
          ldo rs <- go r ; lret (new_raws ++ rs)
      | NInclude p :: r =>
          ldo inc_raws <- rai p ;
          ldo rs <- go r ; lret (RScope inc_raws :: rs)
      | NIncludeHex p :: r =>
          ldo raw <- include_hex cur p ;
          ldo rs <- go r ; lret (RRaw raw :: rs)
      end.

  (* Ingest::preprocess on the nodes of `cur` = sources[depth-1].
     The recursion through resolve_and_ingest is bounded by the check in push_path:
     with fuel = 256 - depth, fuel runs out exactly where the code answers RecursionLimit
     (the Panic above is unreachable: IngestProofs.preprocess_never_out_of_fuel). *)
  Fixpoint preprocess (fuel : nat) (depth : nat) (cur : lpath) (nodes : list node) {struct fuel}
    : logged (list rawop) :=
    preprocess_with
      (resolve_and_ingest_with (match fuel with O => None | S fuel' => Some (preprocess fuel') end) depth cur)
      cur nodes.

  Definition resolve_and_ingest (fuel : nat) (depth : nat) (cur : lpath) (p : string)
    : logged (list rawop) :=
    resolve_and_ingest_with (match fuel with O => None | S fuel' => Some (preprocess fuel') end) depth cur p.

  (* Ingest::ingest(path, src) where src parses to `nodes` *)
  Definition ingest_nodes (main : lpath) (nodes : list node) : logged (list N) :=
    ldo raws <- preprocess RECURSION_LIMIT 1 main nodes ;
    llift (assemble raws).
End Ingest.

(* Program::new(path): root = Root::new(path).ok(), retried (same answer) on first use *)
Definition ingest (fs : fs_t) (main : string) (src : res (list node)) : logged (list N) :=
  let mp := parse_path main in
  ldo nodes <- llift src ;
  ingest_nodes fs (root_new fs mp) mp nodes.

(* Ingest::ingest_file(path).  The top-level file is named by the user, not by a directive:
   its own read is not part of the log. *)
Definition ingest_file (fs : fs_t) (main : string) : logged (list N) :=
  match canon fs (parse_path main) with
  | Err _ => ([], io_err "opening_source")
  | Panic s => ([], Panic s)
  | Ok l =>
      match lookup fs l with
      | Some (File f) => ingest fs main (f_src f)
      | _ => ([], io_err "reading_source")
      end
  end.

Definition reads {A} (r : logged A) : list loc := fst r.
(* what reaches the output writer: bytes only on success *)
Definition output (r : logged (list N)) : option (list N) :=
  match snd r with Ok bs => Some bs | _ => None end.

(* ---------- runners: exactly the harness answers of `asm_file` / `asm_file_cwd` ---------- *)
Definition run_ingest (fs : fs_t) (main : string) : string :=
  show_asm_result (snd (ingest_file fs main)).

(* `asm_at <path> <src>`: Ingest::ingest(path, src) on a source text that parses to `nodes` *)
Definition run_ingest_src (fs : fs_t) (main : string) (nodes : list node) : string :=
  show_asm_result (snd (ingest fs main (Ok nodes))).

(* the same plus the ghost log (for inspection; the harness cannot observe it) *)
Definition show_loc (l : loc) : string := "/" +++ join "/" l.
Definition run_ingest_log (fs : fs_t) (main : string) : string :=
  let r := ingest_file fs main in
  show_asm_result (snd r) +++ " reads=" +++ join "," (map show_loc (fst r)).
