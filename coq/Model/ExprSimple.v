(* Model/ExprSimple.v -- operand expressions without macros (C08): the four infix operators, the evaluator of
   Model/Expr.v specialised to an empty macro table and no variable bindings (`eval_simple`, proved equal to
   `Expr.eval` on that context in Proofs/ExprProofs.v), labels of the tree, and `impl Debug for Expression`. *)
From Verif Require Import Model.Base Model.Expr.
Local Open Scope Z_scope.

(* the four infix operators (parse/asm.pest: plus minus times divide) *)
Inductive binop := OpPlus | OpMinus | OpTimes | OpDivide.

(* the `infix` closure of parse/expression.rs *)
Definition mk_binop (o : binop) (a b : expr) : expr :=
  match o with
  | OpPlus => EPlus a b
  | OpMinus => EMinus a b
  | OpTimes => ETimes a b
  | OpDivide => EDivide a b
  end.

(* ---------- evaluation (Expression::eval_with_context, Terminal::eval_with_context) ----------
   BigInt arithmetic is exact: `+ - *` on Z, `/` truncates toward zero = Z.quot.
   Errors are `ops::expression::Error` values; the left operand is evaluated first. *)
Definition eval_binop (o : binop) (x y : Z) : res Z :=
  match o with
  | OpPlus => Ok (x + y)%Z
  | OpMinus => Ok (x - y)%Z
  | OpTimes => Ok (x * y)%Z
  | OpDivide => if (y =? 0)%Z then err0 "DivisionByZero" else Ok (Z.quot x y)
  end.

(* `env l = Some p`: label l is declared and its position is known.  A label that is unknown to the
   context or declared without a position gives UnknownLabel.
   Macro invocations and macro variables: this evaluator has no macro table and no variable bindings
   (Context with `macros: None, variables: None`), so they give the corresponding errors. *)
Fixpoint eval_simple (env : string -> option Z) (e : expr) : res Z :=
  match e with
  | EParen e1 => eval_simple env e1
  | EMacro name _ => err1 "UnknownMacro" name
  | ENum z => Ok z
  | ELabel l => match env l with Some p => Ok p | None => err1 "UnknownLabel" l end
  | EVar v => err1 "UndefinedVariable" v
  | EPlus a b => do x <- eval_simple env a ; do y <- eval_simple env b ; eval_binop OpPlus x y
  | EMinus a b => do x <- eval_simple env a ; do y <- eval_simple env b ; eval_binop OpMinus x y
  | ETimes a b => do x <- eval_simple env a ; do y <- eval_simple env b ; eval_binop OpTimes x y
  | EDivide a b => do x <- eval_simple env a ; do y <- eval_simple env b ; eval_binop OpDivide x y
  end.

Definition no_labels : string -> option Z := fun _ => None.

(* Expression::labels for macro-free expressions (depth first, left to right) *)
Fixpoint expr_labels (e : expr) : list string :=
  match e with
  | EParen e1 => expr_labels e1
  | EMacro _ _ => []
  | ENum _ => []
  | ELabel l => [l]
  | EVar _ => []
  | EPlus a b | EMinus a b | ETimes a b | EDivide a b => expr_labels a ++ expr_labels b
  end.

(* ---------- `impl Debug for Expression` / `impl Debug for Terminal` ---------- *)
Fixpoint show_expr (e : expr) : string :=
  match e with
  | EParen e1 => "(" +++ show_expr e1 +++ ")"
  | EMacro name _ => "Expression::Macro(""" +++ name +++ """)"
  | ENum z => "Expression::Terminal(Terminal::Number(" +++ dec_of_Z z +++ "))"
  | ELabel l => "Expression::Terminal(Terminal::Label(" +++ l +++ "))"
  | EVar v => "Expression::Terminal(Terminal::Variable(" +++ v +++ "))"
  | EPlus a b => "Expression::Plus(" +++ show_expr a +++ ", " +++ show_expr b +++ ")"
  | EMinus a b => "Expression::Minus(" +++ show_expr a +++ ", " +++ show_expr b +++ ")"
  | ETimes a b => "Expression::Times(" +++ show_expr a +++ ", " +++ show_expr b +++ ")"
  | EDivide a b => "Expression::Divide(" +++ show_expr a +++ ", " +++ show_expr b +++ ")"
  end.
