(* Model/Path.v -- the file system as etk-asm/src/ingest.rs sees it (C12, C18).

   THE OPERATING SYSTEM IS MODELLED, NOT VERIFIED.  A file system is a finite map from absolute
   canonical locations (lists of component names below "/") to nodes Dir | File c | Link target.
   `walk` is the POSIX path walk shared by realpath(3) / open(2) / stat(2): component by component,
   `.` stays, `..` goes to the physical parent, symbolic links are followed (at most 40 per walk,
   then ELOOP), a missing component is ENOENT, a non-directory in the middle is ENOTDIR.
   Trusted assumptions (recorded in the checks' trusted base):
     * std::fs::canonicalize, File::open / read_to_string and Path::metadata resolve a path in
       the same way (one `walk` serves all three);
     * the tree and the current directory do not change during a run;
     * permissions, non-UTF-8 contents and other I/O failures are not modelled.
   The lexical operations of std::path used by ingest.rs (parent, pop, join, is_absolute,
   starts_with) are modelled on a path split into its "/"-separated segments.
   No proofs in this file. *)
From Verif Require Import Model.Base.

(* ---------- lexical paths (std::path::Path / PathBuf on Unix) ---------- *)
(* p_abs: the string starts with "/".  p_segs: the non-empty segments between slashes, in order,
   "." and ".." included; a trailing slash is recorded as a final "." (POSIX: "a/" resolves as "a/."). *)
Record lpath := mkp { p_abs : bool; p_segs : list string }.

Definition slash : ascii := "/"%char.

(* split on '/', dropping empty segments; `cur` is the segment being read, reversed *)
Fixpoint split_slash (s : string) (cur : string) : list string :=
  match s with
  | EmptyString => match cur with EmptyString => [] | _ => [cur] end
  | String c r =>
      if Ascii.eqb c slash
      then match cur with EmptyString => split_slash r EmptyString | _ => cur :: split_slash r EmptyString end
      else split_slash r (cur +++ String c EmptyString)
  end.

Fixpoint last_char (s : string) : option ascii :=
  match s with
  | EmptyString => None
  | String c EmptyString => Some c
  | String _ r => last_char r
  end.

Definition ends_with_slash (s : string) : bool :=
  match last_char s with Some c => Ascii.eqb c slash | None => false end.

Definition parse_path (s : string) : lpath :=
  let segs := split_slash s EmptyString in
  mkp (match s with String c _ => Ascii.eqb c slash | EmptyString => false end)
      (match segs with
       | [] => []
       | _ => if ends_with_slash s then segs ++ ["."] else segs
       end).

Definition not_dot (s : string) : bool := negb (String.eqb s ".").

(* Path::components(): "." is dropped everywhere except at the start of a relative path *)
Definition comps (p : lpath) : list string :=
  if p_abs p then filter not_dot (p_segs p)
  else match p_segs p with
       | s :: r => if String.eqb s "." then "." :: filter not_dot r else filter not_dot (p_segs p)
       | [] => []
       end.

(* Path::parent(): the path without its last component; None for "", "/" *)
Definition parent (p : lpath) : option lpath :=
  match comps p with
  | [] => None
  | c => Some (mkp (p_abs p) (removelast c))
  end.

(* PathBuf::pop(): truncate to the parent if there is one *)
Definition pop (p : lpath) : bool * lpath :=
  match parent p with
  | Some q => (true, q)
  | None => (false, p)
  end.

(* Path::join(): an absolute argument replaces the base *)
Definition join_path (base q : lpath) : lpath :=
  if p_abs q then q else mkp (p_abs base) (p_segs base ++ p_segs q).

(* `match last.parent() { Some(s) => s, None => Path::new("./") }` *)
Definition dir_of (p : lpath) : lpath :=
  match parent p with
  | Some q => q
  | None => mkp false ["."]
  end.

(* ---------- canonical locations ---------- *)
Definition loc := list string.          (* absolute, symlink free: the names below "/" *)

Fixpoint loc_eqb (a b : loc) : bool :=
  match a, b with
  | [], [] => true
  | x :: a', y :: b' => String.eqb x y && loc_eqb a' b'
  | _, _ => false
  end.

(* Path::starts_with on canonical paths: COMPONENT-wise prefix ("/root2" is not under "/root") *)
Fixpoint under (root p : loc) : bool :=
  match root, p with
  | [], _ => true
  | r :: root', x :: p' => String.eqb r x && under root' p'
  | _ :: _, [] => false
  end.

(* ---------- the tree ---------- *)
Inductive fnode (C : Type) :=
| Dir
| File (c : C)
| Link (target : string).
Arguments Dir {C}.
Arguments File {C} c.
Arguments Link {C} target.

Record fsys (C : Type) := mkfs {
  fs_nodes : list (loc * fnode C);      (* "/" itself is always a directory *)
  fs_cwd : loc }.                       (* std::env::current_dir(): canonical *)
Arguments mkfs {C} fs_nodes fs_cwd.
Arguments fs_nodes {C} f.
Arguments fs_cwd {C} f.

Section FS.
  Context {C : Type}.
  Variable fs : fsys C.

  Fixpoint lookup_in (t : list (loc * fnode C)) (l : loc) : option (fnode C) :=
    match t with
    | [] => None
    | (k, n) :: r => if loc_eqb k l then Some n else lookup_in r l
    end.
  Definition lookup (l : loc) : option (fnode C) :=
    match l with
    | [] => Some Dir
    | _ => lookup_in (fs_nodes fs) l
    end.

  Definition is_dir (l : loc) : bool :=
    match lookup l with Some Dir => true | _ => false end.

  Definition MAXSYMLINKS : nat := 40.

  (* errno values as error kinds *)
  Definition ENOENT {A} : res A := err0 "ENOENT".
  Definition ENOTDIR {A} : res A := err0 "ENOTDIR".
  Definition ELOOP {A} : res A := err0 "ELOOP".

  (* the path walk: `cur` is the (canonical) directory reached so far, `segs` what is left.
     `links` = how many more symbolic links may be followed. *)
  Fixpoint walk (links : nat) (cur : loc) (segs : list string) {struct links} : res loc :=
    (fix go (cur : loc) (segs : list string) {struct segs} : res loc :=
       match segs with
       | [] => Ok cur
       | s :: rest =>
           if negb (is_dir cur) then ENOTDIR
           else if String.eqb s "." then go cur rest
           else if String.eqb s ".." then go (removelast cur) rest
           else
             match lookup (cur ++ [s]) with
             | None => ENOENT
             | Some (Link t) =>
                 match links with
                 | O => ELOOP
                 | S l' =>
                     let tp := parse_path t in
                     match p_segs tp, p_abs tp with
                     | [], false => ENOENT                      (* empty target *)
                     | _, true => walk l' [] (p_segs tp ++ rest)
                     | _, false => walk l' cur (p_segs tp ++ rest)
                     end
                 end
             | Some _ => go (cur ++ [s]) rest
             end
       end) cur segs.

  (* std::fs::canonicalize = realpath(3).  The empty path is ENOENT. *)
  Definition canon (p : lpath) : res loc :=
    match p_abs p, p_segs p with
    | false, [] => ENOENT
    | true, segs => walk MAXSYMLINKS [] segs
    | false, segs => walk MAXSYMLINKS (fs_cwd fs) segs
    end.

  (* open + read: where the path leads and what is there *)
  Definition read_at (p : lpath) : res (loc * C) :=
    do l <- canon p ;
    match lookup l with
    | Some (File c) => Ok (l, c)
    | Some Dir => err0 "EISDIR"
    | _ => ENOENT                                  (* unreachable: walk ends on an existing non-link *)
    end.

  (* ---------- ingest.rs: Root ---------- *)
  Definition io_err {A} (message : string) : res A := err1 "Io" message.
  Definition with_io {A} (message : string) (r : res A) : res A :=
    match r with
    | Err _ => io_err message
    | x => x
    end.

  (* Root::new(file): the canonical location of the directory holding the top-level file.
     (Root.original is only used in error messages and is not kept.) *)
  Definition root_new (file : lpath) : res loc :=
    let '(popped, dir) := pop file in
    if negb popped then io_err "no_parent"
    else
      let full := join_path (mkp true (fs_cwd fs)) dir in      (* current_dir().join(file) *)
      do l <- with_io "getting_metadata" (canon full) ;        (* file.metadata() follows links *)
      if negb (is_dir l) then io_err "root_is_not_directory"
      else with_io "canonicalizing_root" (canon full).

  (* Root::check(path) *)
  Definition root_check (root : loc) (p : lpath) : res unit :=
    do c <- with_io "canonicalizing_include/import" (canon p) ;
    if under root c then Ok tt else err0 "DirectoryTraversal".
End FS.
