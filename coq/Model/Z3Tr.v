(* Model/Z3Tr.v -- model of etk-analyze/src/sym.rs: ExprExt::to_z3 and Z3Visit::exit, i.e. the
   translation of a symbolic expression (prefix encoding, Model/Sym.v) into a z3 bit-vector
   term (Spec/SmtBv.v).  No proofs here. *)
From Verif Require Import Model.Base Model.Sym Model.SymTree Spec.EvmSem Spec.SmtBv Spec.SymEval.
Open Scope Z_scope.

(* BV::from_u64(ctx, v, 256) *)
Definition c256 (v : Z) : bvterm := BVal v 256.
(* cond.ite(&BV::from_u64(1,256), &BV::from_u64(0,256)) *)
Definition ite01 (c : bvform) : bvterm := BIte c (c256 1) (c256 0).

(* Z3Visit::make_const: four big-endian u64 chunks, bv0.concat(bv1).concat(bv2).concat(bv3),
   then .simplify().  z3's simplifier evaluates a concat of numerals to the numeral, so what
   Z3Visit::exit pushes is a LITERAL (BV::as_u64 sees a numeral; the hook prints `#x...`);
   the model therefore builds that literal: the value of the concatenation of the chunks. *)
Definition const_chunk (v i : Z) : Z := (v / 2 ^ (64 * i)) mod 2 ^ 64.
Definition make_const (v : Z) : bvterm :=
  BVal (((const_chunk v 3 * 2 ^ 64 + const_chunk v 2) * 2 ^ 64 + const_chunk v 1) * 2 ^ 64
        + const_chunk v 0) 256.

(* Z3Visit::make_var: format!("etk_{}", var) with Var's Display "var<n>" *)
Definition var_name (n : Z) : string := "etk_var" +++ dec_of_Z n.

(* ---- the term built for each operation; lhs = first child, rhs = second child ---- *)
Definition t_add (lhs rhs : bvterm) := BBin Badd lhs rhs.
Definition t_sub (lhs rhs : bvterm) := BBin Bsub lhs rhs.
Definition t_mul (lhs rhs : bvterm) := BBin Bmul lhs rhs.
(* rhs._eq(&zero).ite(&zero, &lhs.bvudiv(&rhs)) *)
Definition guard0 (op : binop) (lhs rhs : bvterm) :=
  BIte (FCmp Ceq rhs (c256 0)) (c256 0) (BBin op lhs rhs).
Definition t_div := guard0 Budiv.
Definition t_sdiv := guard0 Bsdiv.
Definition t_mod := guard0 Burem.
Definition t_smod := guard0 Bsrem.
(* BV::as_u64 (Z3_get_numeral_uint64): Some only for a numeral whose value fits 64 bits.
   The numerals among the model's terms are exactly the BVal nodes: constants (see make_const),
   BV::from_u64 (GetPc, and the `result = 1` that Exp returns for the literal exponent 0);
   z3's term constructors do not simplify, so no compound term is a numeral. *)
Definition as_u64 (t : bvterm) : option Z :=
  match t with
  | BVal v w => let x := v mod 2 ^ w in if x <? 2 ^ 64 then Some x else None
  | _ => None
  end.
(* Exp with a literal exponent: square-and-multiply, `while exponent > 0 { if exponent & 1 == 1
   { result = result * base.clone() } base = base.clone() * base; exponent >>= 1 }`.
   A u64 is exhausted after 64 iterations (fuel).  The term is a tree here (z3 shares the
   squares): its size is about 2 * exponent. *)
Fixpoint exp_loop (fuel : nat) (exponent : Z) (result base : bvterm) : bvterm :=
  match fuel with
  | O => result
  | S f =>
      if 0 <? exponent then
        let result' := if Z.odd exponent then BBin Bmul result base else result in
        exp_loop f (exponent / 2) result' (BBin Bmul base base)
      else result
  end.
Definition t_exp_lit (lhs : bvterm) (exponent : Z) : bvterm := exp_loop 64 exponent (c256 1) lhs.
Definition t_lt (lhs rhs : bvterm) := ite01 (FCmp Cult lhs rhs).
Definition t_gt (lhs rhs : bvterm) := ite01 (FCmp Cugt lhs rhs).
Definition t_slt (lhs rhs : bvterm) := ite01 (FCmp Cslt lhs rhs).
Definition t_sgt (lhs rhs : bvterm) := ite01 (FCmp Csgt lhs rhs).
Definition t_eq (lhs rhs : bvterm) := ite01 (FCmp Ceq lhs rhs).
Definition t_and (lhs rhs : bvterm) := BBin Band lhs rhs.
Definition t_or (lhs rhs : bvterm) := BBin Bor lhs rhs.
Definition t_xor (lhs rhs : bvterm) := BBin Bxor lhs rhs.
(* rhs.bvshl(&lhs): the second child shifted by the first *)
Definition t_shl (lhs rhs : bvterm) := BBin Bshl rhs lhs.
Definition t_shr (lhs rhs : bvterm) := BBin Blshr rhs lhs.
Definition t_sar (lhs rhs : bvterm) := BBin Bashr rhs lhs.
Definition t_not (arg : bvterm) := BNot arg.
Definition t_iszero (arg : bvterm) := ite01 (FCmp Ceq arg (c256 0)).
(* size = first child, value = second child *)
Definition t_signextend (size value : bvterm) :=
  let c31 := c256 31 in
  let c8 := c256 8 in
  let shift := BBin Bmul (BBin Bsub c31 size) c8 in
  let extended := BBin Bashr (BBin Bshl value shift) shift in
  BIte (FCmp Cult size c31) extended value.
(* position = first child, value = second child *)
Definition t_byte (position value : bvterm) :=
  let shift := BBin Bsub (c256 248) (BBin Bmul position (c256 8)) in
  let shifted := BBin Blshr value shift in
  BIte (FCmp Cult position (c256 32)) (BBin Band shifted (c256 255)) (c256 0).
Definition t_addmod (lhs rhs modulus : bvterm) :=
  let sum := BBin Badd (BZext 1 rhs) (BZext 1 lhs) in
  let addmod := BExtract 255 0 (BBin Burem sum (BZext 1 modulus)) in
  BIte (FCmp Ceq modulus (c256 0)) (c256 0) addmod.
Definition t_mulmod (lhs rhs modulus : bvterm) :=
  let product := BBin Bmul (BZext 256 rhs) (BZext 256 lhs) in
  let mulmod := BExtract 255 0 (BBin Burem product (BZext 256 modulus)) in
  BIte (FCmp Ceq modulus (c256 0)) (c256 0) mulmod.
Definition t_calldataload (offset : bvterm) := BApp "calldataload" offset.
Definition t_blockhash (num : bvterm) := BApp "blockhash" num.

(* ---- Z3Visit::exit ---- *)
(* arguments: Vec<BV>, the head of the list is the last element of the Vec;
   the nat is z3's counter of fresh constants of the context *)
Definition vstate : Type := list bvterm * nat.

(* self.arguments.pop().unwrap() *)
Definition pop (a : list bvterm) : res (bvterm * list bvterm) :=
  match a with
  | x :: r => Ok (x, r)
  | [] => Panic "Z3Visit::exit: unwrap on an empty argument stack"
  end.
(* self.arguments.pop() with the result ignored *)
Definition pop_ (a : list bvterm) : list bvterm := tl a.
Fixpoint pops_ (k : nat) (a : list bvterm) : list bvterm :=
  match k with O => a | S k' => pops_ k' (pop_ a) end.

Definition push (t : bvterm) (a : list bvterm) (n : nat) : res vstate := Ok (t :: a, n).
(* BV::fresh_const(ctx, prefix, 256) *)
Definition push_fresh (p : string) (a : list bvterm) (n : nat) : res vstate :=
  Ok (BFresh p n :: a, S n).

(* rhs = pop; lhs = pop; push (f lhs rhs) *)
Definition exit2 (f : bvterm -> bvterm -> bvterm) (a : list bvterm) (n : nat) : res vstate :=
  do (rhs, a1) <- pop a; do (lhs, a2) <- pop a1; push (f lhs rhs) a2 n.
Definition exit1 (f : bvterm -> bvterm) (a : list bvterm) (n : nat) : res vstate :=
  do (arg, a1) <- pop a; push (f arg) a1 n.
(* modulus = pop; rhs = pop; lhs = pop *)
Definition exit3 (f : bvterm -> bvterm -> bvterm -> bvterm) (a : list bvterm) (n : nat) : res vstate :=
  do (modulus, a1) <- pop a; do (rhs, a2) <- pop a1; do (lhs, a3) <- pop a2;
  push (f lhs rhs modulus) a3 n.
(* one unwrapped pop, result ignored, fresh constant *)
Definition exit1_fresh (p : string) (a : list bvterm) (n : nat) : res vstate :=
  do (_, a1) <- pop a; push_fresh p a1 n.

Definition tr_exit (s : sym) (st : vstate) : res vstate :=
  let '(a, n) := st in
  match s with
  | SConst v => push (make_const v) a n
  | SVar v => push (BNamed (var_name v)) a n
  | SAddress => push (BNamed "address") a n
  | SOrigin => push (BNamed "origin") a n
  | SCaller => push (BNamed "caller") a n
  | SCallValue => push (BNamed "callvalue") a n
  | SCallDataSize => push (BNamed "calldatasize") a n
  | SCodeSize => push (BNamed "codesize") a n
  | SGasPrice => push (BNamed "gasprice") a n
  | SReturnDataSize => push_fresh "returndatasize" a n
  | SCoinbase => push (BNamed "coinbase") a n
  | STimestamp => push (BNamed "timestamp") a n
  | SNumber => push (BNamed "number") a n
  | SDifficulty => push (BNamed "difficulty") a n
  | SGasLimit => push (BNamed "gaslimit") a n
  | SChainId => push (BNamed "chainid") a n
  | SSelfBalance => push_fresh "selfbalance" a n
  | SBaseFee => push (BNamed "basefee") a n
  | SGetPc pc => push (c256 pc) a n
  | SMSize => push_fresh "msize" a n
  | SGas => push_fresh "gas" a n
  | SAdd => exit2 t_add a n
  | SSub => exit2 t_sub a n
  | SMul => exit2 t_mul a n
  | SDiv => exit2 t_div a n
  | SSDiv => exit2 t_sdiv a n
  | SMod => exit2 t_mod a n
  | SSMod => exit2 t_smod a n
  | SExp =>
      do (rhs, a1) <- pop a; do (lhs, a2) <- pop a1;
      match as_u64 rhs with
      | Some exponent => push (t_exp_lit lhs exponent) a2 n
      | None => push_fresh "exp" a2 n
      end
  | SLt => exit2 t_lt a n
  | SGt => exit2 t_gt a n
  | SSLt => exit2 t_slt a n
  | SSGt => exit2 t_sgt a n
  | SEq => exit2 t_eq a n
  | SAnd => exit2 t_and a n
  | SOr => exit2 t_or a n
  | SXor => exit2 t_xor a n
  | SShl => exit2 t_shl a n
  | SShr => exit2 t_shr a n
  | SSar => exit2 t_sar a n
  | SNot => exit1 t_not a n
  | SIsZero => exit1 t_iszero a n
  | SKeccak256 =>
      (* _offset = pop.unwrap(); _len = pop.unwrap() *)
      do (_, a1) <- pop a; do (_, a2) <- pop a1; push_fresh "keccak256" a2 n
  | SSignExtend =>
      (* value = pop.unwrap(); size = pop.unwrap() *)
      do (value, a1) <- pop a; do (size, a2) <- pop a1; push (t_signextend size value) a2 n
  | SCallDataLoad => exit1 t_calldataload a n
  | SExtCodeSize => exit1_fresh "extcodesize" a n
  | SExtCodeHash => exit1_fresh "extcodehash" a n
  | SMLoad => exit1_fresh "mload" a n
  | SSLoad => exit1_fresh "sload" a n
  | SBalance => exit1_fresh "balance" a n
  | SBlockHash => exit1 t_blockhash a n
  | SAddMod => exit3 t_addmod a n
  | SMulMod => exit3 t_mulmod a n
  (* these use pop() without unwrap *)
  | SCreate => push_fresh "create" (pops_ 3 a) n
  | SCreate2 => push_fresh "create2" (pops_ 4 a) n
  | SCallCode => push_fresh "callcode" (pops_ 7 a) n
  | SCall => push_fresh "call" (pops_ 7 a) n
  | SStaticCall => push_fresh "staticcall" (pops_ 6 a) n
  | SDelegateCall => push_fresh "delegatecall" (pops_ 6 a) n
  | SByte =>
      (* value = pop.unwrap(); position = pop.unwrap() *)
      do (value, a1) <- pop a; do (position, a2) <- pop a1; push (t_byte position value) a2 n
  end.

(* ---- Expr::inner_walk with the Z3Visit visitor (enter and between do nothing) ----
   Returns the symbols that follow the sub-expression just walked.  An exhausted slice where
   a child is expected is the Rust's unreachable!(). *)
Fixpoint walk (fuel : nat) (e : sexpr) (st : vstate) : res (sexpr * vstate) :=
  match fuel with
  | O => Panic "diverges"
  | S f =>
      match e with
      | [] => Panic "Expr::inner_walk: unreachable"
      | s :: rest =>
          let fix kids (k : nat) (r : sexpr) (st : vstate) : res (sexpr * vstate) :=
            match k with
            | O => Ok (r, st)
            | S k' => do (r', st') <- walk f r st; kids k' r' st'
            end in
          do (r, st1) <- kids (children s) rest st;
          do st2 <- tr_exit s st1;
          Ok (r, st2)
      end
  end.

(* ExprExt::to_z3: walk (an empty Expr only calls Visit::empty), then
   assert_eq!(arguments.len(), 1); arguments.remove(0).  Leftover symbols are ignored. *)
Definition tr_sexpr_from (n : nat) (e : sexpr) : res (bvterm * nat) :=
  do (a, n') <-
    match e with
    | [] => Ok ([], n)
    | _ => do (_, st) <- walk (S (length e)) e ([], n); Ok st
    end;
  match a with
  | [t] => Ok (t, n')
  | _ => Panic "ExprExt::to_z3: assert_eq!(arguments.len(), 1)"
  end.
Definition tr_sexpr (e : sexpr) : res bvterm :=
  do (t, _) <- tr_sexpr_from 0 e; Ok t.

(* ---- the same translation by structural recursion on trees ---- *)
(* the node built from the terms of the children (in child order) *)
Definition tr_node (s : sym) (args : list bvterm) (n : nat) : bvterm * nat :=
  let x := nth 0 args (c256 0) in
  let y := nth 1 args (c256 0) in
  let z := nth 2 args (c256 0) in
  match s with
  | SConst v => (make_const v, n)
  | SVar v => (BNamed (var_name v), n)
  | SAddress => (BNamed "address", n)
  | SOrigin => (BNamed "origin", n)
  | SCaller => (BNamed "caller", n)
  | SCallValue => (BNamed "callvalue", n)
  | SCallDataSize => (BNamed "calldatasize", n)
  | SCodeSize => (BNamed "codesize", n)
  | SGasPrice => (BNamed "gasprice", n)
  | SReturnDataSize => (BFresh "returndatasize" n, S n)
  | SCoinbase => (BNamed "coinbase", n)
  | STimestamp => (BNamed "timestamp", n)
  | SNumber => (BNamed "number", n)
  | SDifficulty => (BNamed "difficulty", n)
  | SGasLimit => (BNamed "gaslimit", n)
  | SChainId => (BNamed "chainid", n)
  | SSelfBalance => (BFresh "selfbalance" n, S n)
  | SBaseFee => (BNamed "basefee", n)
  | SGetPc pc => (c256 pc, n)
  | SMSize => (BFresh "msize" n, S n)
  | SGas => (BFresh "gas" n, S n)
  | SAdd => (t_add x y, n)
  | SSub => (t_sub x y, n)
  | SMul => (t_mul x y, n)
  | SDiv => (t_div x y, n)
  | SSDiv => (t_sdiv x y, n)
  | SMod => (t_mod x y, n)
  | SSMod => (t_smod x y, n)
  | SExp =>
      match as_u64 y with
      | Some exponent => (t_exp_lit x exponent, n)
      | None => (BFresh "exp" n, S n)
      end
  | SLt => (t_lt x y, n)
  | SGt => (t_gt x y, n)
  | SSLt => (t_slt x y, n)
  | SSGt => (t_sgt x y, n)
  | SEq => (t_eq x y, n)
  | SAnd => (t_and x y, n)
  | SOr => (t_or x y, n)
  | SXor => (t_xor x y, n)
  | SShl => (t_shl x y, n)
  | SShr => (t_shr x y, n)
  | SSar => (t_sar x y, n)
  | SNot => (t_not x, n)
  | SIsZero => (t_iszero x, n)
  | SSignExtend => (t_signextend x y, n)
  | SByte => (t_byte x y, n)
  | SAddMod => (t_addmod x y z, n)
  | SMulMod => (t_mulmod x y z, n)
  | SCallDataLoad => (t_calldataload x, n)
  | SBlockHash => (t_blockhash x, n)
  | SKeccak256 => (BFresh "keccak256" n, S n)
  | SExtCodeSize => (BFresh "extcodesize" n, S n)
  | SExtCodeHash => (BFresh "extcodehash" n, S n)
  | SMLoad => (BFresh "mload" n, S n)
  | SSLoad => (BFresh "sload" n, S n)
  | SBalance => (BFresh "balance" n, S n)
  | SCreate => (BFresh "create" n, S n)
  | SCreate2 => (BFresh "create2" n, S n)
  | SCallCode => (BFresh "callcode" n, S n)
  | SCall => (BFresh "call" n, S n)
  | SStaticCall => (BFresh "staticcall" n, S n)
  | SDelegateCall => (BFresh "delegatecall" n, S n)
  end.

(* children first (left to right, threading the fresh counter), then the node *)
Fixpoint tr_tree (t : stree) (n : nat) : bvterm * nat :=
  match t with
  | SNode s args =>
      let fix go (l : list stree) (n : nat) : list bvterm * nat :=
        match l with
        | [] => ([], n)
        | x :: r =>
            let '(tx, n1) := tr_tree x n in
            let '(tr, n2) := go r n1 in
            (tx :: tr, n2)
        end in
      let '(targs, n') := go args n in
      tr_node s targs n'
  end.
Definition tr_trees : list stree -> nat -> list bvterm * nat :=
  fix go (l : list stree) (n : nat) : list bvterm * nat :=
    match l with
    | [] => ([], n)
    | x :: r =>
        let '(tx, n1) := tr_tree x n in
        let '(tr, n2) := go r n1 in
        (tx :: tr, n2)
    end.

(* ---- the interpretation of the z3 symbols that a concrete execution (Spec/SymEval.v) induces ---- *)
(* the z3 constant that Z3Visit::exit uses for an environment symbol *)
Definition env_name (s : sym) : option string :=
  match s with
  | SAddress => Some "address" | SOrigin => Some "origin" | SCaller => Some "caller"
  | SCallValue => Some "callvalue" | SCallDataSize => Some "calldatasize" | SCodeSize => Some "codesize"
  | SGasPrice => Some "gasprice" | SCoinbase => Some "coinbase" | STimestamp => Some "timestamp"
  | SNumber => Some "number" | SDifficulty => Some "difficulty" | SGasLimit => Some "gaslimit"
  | SChainId => Some "chainid" | SBaseFee => Some "basefee"
  | _ => None
  end.
Definition env_syms : list sym :=
  [SAddress; SOrigin; SCaller; SCallValue; SCallDataSize; SCodeSize; SGasPrice; SCoinbase;
   STimestamp; SNumber; SDifficulty; SGasLimit; SChainId; SBaseFee].

Fixpoint strip_prefix (p s : string) : option string :=
  match p, s with
  | EmptyString, _ => Some s
  | String a p', String b s' => if Ascii.eqb a b then strip_prefix p' s' else None
  | _, _ => None
  end.
Fixpoint parse_dec (s : string) (acc : Z) : option Z :=
  match s with
  | EmptyString => Some acc
  | String c r =>
      let d := Z.of_nat (nat_of_ascii c) - 48 in
      if (0 <=? d) && (d <=? 9) then parse_dec r (acc * 10 + d) else None
  end.
(* "etk_var<n>" -> n *)
Definition parse_var (s : string) : option Z :=
  match strip_prefix "etk_var" s with
  | Some EmptyString | None => None
  | Some r => parse_dec r 0
  end.

Definition concrete_interp (E : senv) : interp :=
  {| i_named := fun name =>
       match parse_var name with
       | Some n => se_var E n
       | None =>
           match find (fun s => match env_name s with Some x => String.eqb x name | None => false end) env_syms with
           | Some s => se_env E s
           | None => 0
           end
       end;
     i_fresh := se_read E;
     i_uf := fun f x =>
       if String.eqb f "calldataload" then se_calldataload E x
       else if String.eqb f "blockhash" then se_blockhash E x else 0 |}.

(* M gives the z3 symbols the values of the execution E (values are read modulo 2^256) *)
Definition agrees (M : interp) (E : senv) : Prop :=
  (forall n, 1 <= n <= 65535 -> i_named M (var_name n) mod 2 ^ 256 = wrap (se_var E n)) /\
  (forall s name, env_name s = Some name -> i_named M name mod 2 ^ 256 = wrap (se_env E s)) /\
  (forall k, i_fresh M k mod 2 ^ 256 = wrap (se_read E k)) /\
  (forall x, i_uf M "calldataload" x mod 2 ^ 256 = wrap (se_calldataload E x)) /\
  (forall x, i_uf M "blockhash" x mod 2 ^ 256 = wrap (se_blockhash E x)).

(* ---- rendering for the cross-check (checks/c05ops.py) ---- *)
Definition run_z3term (e : sexpr) : string := show_res smt_of_term (tr_sexpr e).
Definition run_z3term_tree (t : stree) : string :=
  if wf_tree t then smt_of_term (fst (tr_tree t 0)) else "ill-formed".
