(* Model/SymTree.v -- well-formedness and size of expression trees (Model/Sym.v).  No proofs. *)
From Verif Require Import Model.Base Model.Sym.
Open Scope Z_scope.

(* every node has as many children as Sym::children says: exactly the trees that
   Expr::concat can build and that Expr::walk traverses *)
Fixpoint arity_tree (t : stree) : bool :=
  match t with
  | SNode s args => Nat.eqb (length args) (children s) && forallb arity_tree args
  end.

Fixpoint tree_depth (t : stree) : nat :=
  match t with
  | SNode _ args => S (fold_right (fun x m => Nat.max (tree_depth x) m) O args)
  end.

(* payloads in the range of their Rust type: [u8;32], NonZeroU16, u16 *)
Definition wf_sym (s : sym) : bool :=
  match s with
  | SConst v => (0 <=? v) && (v <? 2 ^ 256)
  | SVar n => (1 <=? n) && (n <=? 65535)
  | SGetPc pc => (0 <=? pc) && (pc <=? 65535)
  | _ => true
  end.
Fixpoint wf_tree (t : stree) : bool :=
  match t with
  | SNode s args => wf_sym s && Nat.eqb (length args) (children s) && forallb wf_tree args
  end.
