(* Model/Listing.v -- executable model of "print a disassembly listing and assemble it again" (C03).

   Rendering: harness/src/dis.rs `dis_listing` (Display of Op<()> from etk-ops/build.rs, hex::encode of
   the immediate).  Re-assembly: the part of etk-asm a listing exercises --
     parse/asm.pest     rules program/inner/stmt, push, op (+ swap/dup/log), word_size, hex
     parse/mod.rs       parse_abstract_op, parse_push (usize parse, Op::push, ImmediateTooLarge check)
     parse/expression.rs parse_radix_str (base 16)
     ops.rs             Concretize for Op<Abstract> (BigInt::to_bytes_be, left padding, `with`)
     asm.rs             Assembler::push / emit_bytecode for concrete ops (concatenation)
   The alternatives of `op`, `word_size`, `half_word_size` are taken from Gen/Grammar.v, which is
   regenerated from asm.pest on every run; the translator also pins the shapes of `stmt`, `push`, `hex`.

   FRAGMENT.  The model claims to be faithful only for lines over the alphabet [A-Za-z0-9_ \t]
   (`in_fragment`), and inside it only for push operands that are hex literals.  Everything else is
   answered with the explicit error `Unmodelled` (never `Ok`), so no theorem can be satisfied by it.
   Inside the alphabet:
     - `label_definition = { label ~ ":" }` needs a ':'              -> cannot match
     - `builtin = ${ "%" ~ ... }`, every alternative of `local_macro`
       ("%macro", "%" ~ function_invocation, "%def") needs a '%'     -> cannot match
     - COMMENT needs '#', the statement separator ';' and NEWLINE are not in the alphabet
   so `stmt` reduces to the ordered choice  push | op.  No proofs in this file. *)
From Verif Require Import Model.Base Model.Ops Model.Disasm.
From Verif Require Export Gen.Grammar.
Open Scope N_scope.

(* ---------- rendering one disassembled instruction ---------- *)
Definition mnemonic (c : N) : string := display (from_u8 cancun c).

(* `code().to_string()`, then ` 0x<hex>` when `immediate()` is Some, i.e. for the push variants *)
Definition render_item (it : item) : string :=
  if 0 <? r_extra (from_u8 cancun (i_code it))
  then mnemonic (i_code it) +++ " 0x" +++ hex_bytes (i_imm it)
  else mnemonic (i_code it).

(* ---------- character classes ---------- *)
Definition in_range (lo hi : N) (c : ascii) : bool :=
  let n := N_of_ascii c in (lo <=? n) && (n <=? hi).
Definition is_digit (c : ascii) : bool := in_range 48 57 c.
Definition is_alpha (c : ascii) : bool := in_range 97 122 c || in_range 65 90 c.
(* WHITESPACE = _{ " " | "\t" } *)
Definition is_ws (c : ascii) : bool := (N_of_ascii c =? 32) || (N_of_ascii c =? 9).
Definition listing_char (c : ascii) : bool :=
  is_alpha c || is_digit c || (N_of_ascii c =? 95) || is_ws c.

Fixpoint str_forall (p : ascii -> bool) (s : string) : bool :=
  match s with
  | EmptyString => true
  | String c r => p c && str_forall p r
  end.
Definition in_fragment (s : string) : bool := str_forall listing_char s.

(* the two characters without which label_definition / builtin / local_macro cannot match *)
Fixpoint contains_char (x : ascii) (s : string) : bool :=
  match s with
  | EmptyString => false
  | String c r => Ascii.eqb c x || contains_char x r
  end.

(* char::to_digit(16) *)
Definition hex_val (c : ascii) : option N :=
  let n := N_of_ascii c in
  if in_range 48 57 c then Some (n - 48)
  else if in_range 97 102 c then Some (n - 87)
  else if in_range 65 70 c then Some (n - 55)
  else None.
Definition is_hex_digit (c : ascii) : bool :=
  match hex_val c with Some _ => true | None => false end.

(* ---------- PEG primitives: every matcher returns (matched text, remaining input) ---------- *)
Fixpoint strip_prefix (p s : string) : option string :=
  match p with
  | EmptyString => Some s
  | String a p' =>
      match s with
      | String b s' => if Ascii.eqb a b then strip_prefix p' s' else None
      | EmptyString => None
      end
  end.

(* 'a'..'b' over decimal digits *)
Definition match_class (r : N * N) (s : string) : option (ascii * string) :=
  match s with
  | String c rest => if in_range (48 + fst r) (48 + snd r) c then Some (c, rest) else None
  | EmptyString => None
  end.

(* a ~ b ~ ... (atomic: nothing is skipped in between) *)
Fixpoint match_seq (q : digit_seq) (s : string) : option (string * string) :=
  match q with
  | [] => Some (EmptyString, s)
  | r :: q' =>
      match match_class r s with
      | Some (c, rest) =>
          match match_seq q' rest with
          | Some (m, rest') => Some (String c m, rest')
          | None => None
          end
      | None => None
      end
  end.

(* ordered choice: the first alternative that matches wins; nothing later is ever retried *)
Fixpoint match_first (qs : list digit_seq) (s : string) : option (string * string) :=
  match qs with
  | [] => None
  | q :: r => match match_seq q s with
              | Some x => Some x
              | None => match_first r s
              end
  end.

Definition match_alt (a : op_alt) (s : string) : option (string * string) :=
  match a with
  | AltLit l => match strip_prefix l s with Some rest => Some (l, rest) | None => None end
  | AltFamily p qs =>
      match strip_prefix p s with
      | Some s1 => match match_first qs s1 with
                   | Some (m, rest) => Some (p +++ m, rest)
                   | None => None
                   end
      | None => None
      end
  end.

(* rule `op` : ordered choice over the alternatives in file order *)
Fixpoint match_op (alts : list op_alt) (s : string) : option (string * string) :=
  match alts with
  | [] => None
  | a :: r => match match_alt a s with
              | Some x => Some x
              | None => match_op r s
              end
  end.

Definition match_word_size (s : string) : option (string * string) := match_first g_word_size s.

(* longest prefix of ASCII_HEX_DIGITs *)
Fixpoint take_hex (s : string) : string * string :=
  match s with
  | String c r => if is_hex_digit c then let (d, rest) := take_hex r in (String c d, rest)
                  else (EmptyString, s)
  | EmptyString => (EmptyString, EmptyString)
  end.

(* rule `hex` = @{ "0x" ~ ASCII_HEX_DIGIT ~ ASCII_HEX_DIGIT+ } : returns the digits *)
Definition match_hex (s : string) : option (string * string) :=
  match strip_prefix "0x" s with
  | Some s1 => let (d, rest) := take_hex s1 in
               if g_hex_min_digits <=? N.of_nat (String.length d) then Some (d, rest) else None
  | None => None
  end.

Fixpoint skip_ws (s : string) : string :=
  match s with
  | String c r => if is_ws c then skip_ws r else s
  | EmptyString => EmptyString
  end.

(* ---------- one statement ---------- *)
Inductive lexed :=
| LOp (text : string)                        (* pair of rule `op`: the matched text *)
| LPush (size_text : string) (digits : string).   (* rule `push`: word_size text, hex digits *)

Inductive lexres :=
| LexFail
| LexUnmodelled
| LexOk (l : lexed) (rest : string).

(* operand of push: `expression`; term = ... | label | number | ...; only `hex` is modelled.
   In the fragment a term can only start with a letter (label) or a digit (number). *)
Definition lex_expression (sz : string) (s : string) : lexres :=
  match match_hex s with
  | Some (d, rest) => LexOk (LPush sz d) rest
  | None =>
      match s with
      | String c _ => if is_alpha c || is_digit c then LexUnmodelled else LexFail
      | EmptyString => LexFail
      end
  end.

(* push = ${ "push" ~ word_size ~ WHITESPACE ~ expression } *)
Definition lex_push (s : string) : lexres :=
  match strip_prefix g_push_prefix s with
  | None => LexFail
  | Some s1 =>
      match match_word_size s1 with
      | None => LexFail
      | Some (sz, s2) =>
          match s2 with
          | String c s3 => if is_ws c then lex_expression sz s3 else LexFail
          | EmptyString => LexFail
          end
      end
  end.

Definition lex_op (s : string) : lexres :=
  match match_op g_op_alts s with
  | Some (m, rest) => LexOk (LOp m) rest
  | None => LexFail
  end.

(* stmt = _{ label_definition | builtin | local_macro | push | op } restricted to the fragment *)
Definition lex_stmt (s : string) : lexres :=
  match lex_push s with
  | LexFail => lex_op s
  | r => r
  end.

(* one line of `inner`: implicit WHITESPACE, an optional statement, implicit WHITESPACE, then
   NEWLINE / EOI must follow.  A statement that matched only a prefix of the line is NOT
   re-parsed with another alternative: the line (hence the whole program) fails. *)
Inductive line :=
| LnFail
| LnUnmodelled
| LnBlank
| LnStmt (l : lexed).

Definition lex_line (s : string) : line :=
  if negb (in_fragment s) then LnUnmodelled
  else
    match skip_ws s with
    | EmptyString => LnBlank
    | s0 =>
        match lex_stmt s0 with
        | LexFail => LnFail
        | LexUnmodelled => LnUnmodelled
        | LexOk l rest =>
            match skip_ws rest with
            | EmptyString => LnStmt l
            | _ => LnFail
            end
        end
    end.

(* ---------- parse_abstract_op / parse_push ---------- *)
Fixpoint dec_value_acc (acc : N) (s : string) : N :=
  match s with
  | EmptyString => acc
  | String c r => dec_value_acc (acc * 10 + (N_of_ascii c - 48)) r
  end.
(* str::parse::<usize> of a string of decimal digits *)
Definition dec_value (s : string) : N := dec_value_acc 0 s.

Fixpoint hex_value_acc (acc : N) (s : string) : N :=
  match s with
  | EmptyString => acc
  | String c r => hex_value_acc (acc * 16 + match hex_val c with Some d => d | None => 0 end) r
  end.
(* parse_radix_str(digits, 16): BigInt::from_radix_be(Sign::Plus, ..) -- never negative *)
Definition value_of_hex (s : string) : N := hex_value_acc 0 s.

Inductive stmt :=
| SOp (r : oprow)
| SPush (r : oprow) (v : N).

Definition parse_lexed (l : lexed) : res stmt :=
  match l with
  | LOp text =>
      match from_str cancun text with                 (* pair.as_str().parse().unwrap() *)
      | None => Panic "parse_abstract_op: FromStr unwrap"
      | Some r =>
          match op_new r with                  (* Op::new(spec).unwrap() *)
          | Some r' => Ok (SOp r')
          | None => Panic "parse_abstract_op: Op::new unwrap"
          end
      end
  | LPush sz digits =>
      let size := dec_value sz in
      match push cancun size with                     (* Op::<()>::push(size).unwrap() *)
      | None => Panic "parse_push: Op::push unwrap"
      | Some r =>
          let v := value_of_hex digits in
          if 2 ^ (8 * size) <=? v then err0 "Parse.ImmediateTooLarge"
          else Ok (SPush r v)                         (* spec.with(expr).unwrap(): a push variant *)
      end
  end.

(* ---------- concretize ---------- *)
(* BigInt::to_bytes_be: minimal big-endian magnitude, a single 0 byte for zero *)
Definition bigint_bytes_be (v : N) : list N := if v =? 0 then [0] else be_bytes v.

Definition concretize (s : stmt) : res (list N) :=
  match s with
  | SOp r => Ok [r_code r]
  | SPush r v =>
      let n := N.to_nat (r_extra r) in
      let bytes := pad_left n (bigint_bytes_be v) in          (* pads only when shorter *)
      if Nat.eqb (length bytes) n then Ok (r_code r :: bytes)   (* `with`: slice -> [u8; N] *)
      else Err (mkErr "ExpressionTooLarge" [dec_of_N v; r_mnem r])
  end.

(* ---------- the whole listing ---------- *)
Fixpoint mapM {A B} (f : A -> res B) (l : list A) : res (list B) :=
  match l with
  | [] => Ok []
  | a :: r => do b <- f a; do bs <- mapM f r; Ok (b :: bs)
  end.

Definition lex_one (s : string) : res (option lexed) :=
  match lex_line s with
  | LnFail => err0 "Parse.Lexer"
  | LnUnmodelled => err0 "Unmodelled"
  | LnBlank => Ok None
  | LnStmt l => Ok (Some l)
  end.

Definition parse_opt (o : option lexed) : res (option stmt) :=
  match o with
  | None => Ok None
  | Some l => do s <- parse_lexed l; Ok (Some s)
  end.

Definition conc_opt (o : option stmt) : res (list N) :=
  match o with
  | None => Ok []
  | Some s => concretize s
  end.

(* one listing line through lexer and parse_abstract_op: None for a blank line *)
Definition parse_line (s : string) : res (option stmt) :=
  do o <- lex_one s; parse_opt o.

(* AsmParser::parse of the whole text first (one failing line fails the program), then
   parse_abstract_op for every pair in order, then Assembler::push (concretize) in order, then emit *)
Definition assemble_listing (lines : list string) : res (list N) :=
  do lx <- mapM lex_one lines;
  do st <- mapM parse_opt lx;
  do bs <- mapM conc_opt st;
  Ok (concat bs).

(* the text handed to Ingest: every line followed by '\n' *)
Definition nl : string := String (ascii_of_N 10) EmptyString.
Definition listing_text (lines : list string) : string :=
  fold_right (fun l acc => l +++ nl +++ acc) EmptyString lines.

(* ---------- runners: exactly the strings the harness prints ---------- *)
Definition disassemble (code : list N) : list item * dstate :=
  ddrain (S (length code)) ([], dwrite dinit code).

Definition show_lines (lines : list string) : string :=
  match lines with [] => "-" | _ => join "|" lines end.

(* the answer line of `dis_listing <hex>` *)
Definition listing_answer (fin : bool) (items : list item) (r : res (list N)) : string :=
  "fin=" +++ show_bool fin
  +++ " offs=" +++ match items with
                   | [] => "-"
                   | _ => join "," (map (fun it => dec_of_N (i_off it)) items)
                   end
  +++ " " +++ show_res hex_or_dash r
  +++ " text=" +++ show_lines (map render_item items).

Definition run_listing (code : list N) : string :=
  let d := disassemble code in
  listing_answer (is_ok (dfinish (snd d))) (fst d) (assemble_listing (map render_item (fst d))).

(* `listing_asm <hex of text>` : assemble the given lines (each followed by '\n') *)
Definition run_listing_asm (lines : list string) : string :=
  show_res hex_or_dash (assemble_listing lines).
