(* Model/Annot.v -- executable model of etk-dasm/src/blocks/annotated.rs
   (AnnotatedBlock::annotate, StackWindow, Annotator) over the Cancun table, and the meaning
   of the expressions it produces (used by the statement of C06).

   GHOST TAGS.  The Rust expression (Vec<Sym>) does not record which instruction created a
   node, but C06 says that a node reading memory/storage/environment/call results "stands for
   the value that instruction actually returned".  To be able to state this, every symbol of
   the model carries a ghost tag: [Some idx] on a node created by a state-reading instruction
   (idx = position of that instruction in the block), [None] on every other node.  The tags
   are never inspected by the annotator (only [mk_tag] writes them and only [erase] / the
   evaluation below read them), so the untagged result -- the one compared with the Rust
   code by the differential check -- is by construction the erasure [map fst] of the tagged
   run: [run_annot_block] prints the erased expressions.  Proofs/AnnotProofs.v shows that
   the tagged constructor erases to Model/Sym.v's [sconcat] ([erase_tconcat]). *)
From Verif Require Import Model.Base Model.Ops Model.Disasm Model.Sym Spec.EvmSem Spec.EvmExec.

(* ---------- tagged expressions ---------- *)
Definition tsym : Type := sym * option nat.
Definition texpr : Type := list tsym.              (* prefix encoding, as Expr { ops } *)
Definition erase (e : texpr) : sexpr := map fst e.

(* Expr::concat: assert_eq!(op.children(), args.len()) *)
Definition tconcat (op : tsym) (args : list texpr) : res texpr :=
  if Nat.eqb (children (fst op)) (length args) then Ok (op :: concat args)
  else Panic "Expr::concat: arity".

(* symbols created by instructions whose result is not a function of their operands *)
Definition is_read_sym (s : sym) : bool :=
  match s with
  | SKeccak256 | SCallDataLoad | SExtCodeSize | SExtCodeHash | SMLoad | SSLoad | SBalance
  | SBlockHash | SAddress | SOrigin | SCaller | SCallValue | SCallDataSize | SCodeSize
  | SGasPrice | SReturnDataSize | SCoinbase | STimestamp | SNumber | SDifficulty | SGasLimit
  | SChainId | SSelfBalance | SBaseFee | SMSize | SGas
  | SCreate | SCreate2 | SCallCode | SCall | SStaticCall | SDelegateCall => true
  | _ => false
  end.
Definition mk_tag (s : sym) (idx : nat) : option nat := if is_read_sym s then Some idx else None.

Definition tvar (n : Z) : texpr := [(SVar n, None)].

(* ---------- StackWindow ---------- *)
(* Of the Vec<VecDeque<Expr>> only the first deque (the inputs: it receives every new
   variable and nothing else) and the last one (the current stack) influence the result;
   expand_stack also appends the variable to the intermediate copies, which are dropped. *)
Record win := mkwin {
  w_cur : list texpr;      (* stacks.last(): front = top of the stack *)
  w_vars : Z;              (* *self.vars : u16 *)
  w_inputs : list Z;       (* stacks[0]: only ever holds variables; kept as their ids *)
  w_pops : nat;
  w_pushes : nat }.

Definition set_cur (w : win) (c : list texpr) : win :=
  mkwin c (w_vars w) (w_inputs w) (w_pops w) (w_pushes w).

Definition count_pops (k : nat) (w : win) : res win :=
  if Nat.leb k (w_pops w)
  then Ok (mkwin (w_cur w) (w_vars w) (w_inputs w) (w_pops w - k) (w_pushes w))
  else Panic "assertion failed: self.pops >= count".

Definition count_pushes (k : nat) (w : win) : res win :=
  if negb (Nat.eqb (w_pops w) 0) then Panic "assertion failed: self.pops == 0"
  else if Nat.leb k (w_pushes w)
  then Ok (mkwin (w_cur w) (w_vars w) (w_inputs w) (w_pops w) (w_pushes w - k))
  else Panic "assertion failed: self.pushes >= count".

(* `*self.vars += 1` on a u16: overflow past 65535 panics (overflow checks; without them the
   counter would wrap to 0 and Var::with_id(0) would unwrap a failed NonZeroU16 conversion).
   Out of reach for any execution: it needs a block touching 65536 entry-stack slots, while the
   EVM stack holds 1024 (the C06 theorem assumes an entry stack of at most 65535 words).
   Statically it IS reachable within the 24576-byte code-size limit: 10923 consecutive log4
   instructions form one block that pops 65538 words. *)
Fixpoint expand_stack (by_ : nat) (w : win) : res win :=
  match by_ with
  | O => Ok w
  | S b =>
      if (65535 <=? w_vars w)%Z then Panic "attempt to add with overflow"
      else
        let v := (w_vars w + 1)%Z in
        expand_stack b (mkwin (w_cur w ++ [tvar v]) v (w_inputs w ++ [v]) (w_pops w) (w_pushes w))
  end.

Definition wpop (w : win) : res (texpr * win) :=
  do w1 <- count_pops 1 w ;
  do w2 <- match w_cur w1 with [] => expand_stack 1 w1 | _ => Ok w1 end ;
  match w_cur w2 with
  | e :: c => Ok (e, set_cur w2 c)
  | [] => Panic "pop_front on an empty deque"
  end.

Fixpoint wpop_n (k : nat) (w : win) : res (list texpr * win) :=
  match k with
  | O => Ok ([], w)
  | S k' => do (e, w1) <- wpop w ; do (es, w2) <- wpop_n k' w1 ; Ok (e :: es, w2)
  end.

(* the common prefix of peek and swap *)
Definition window (depth : nat) (w : win) : res win :=
  do w1 <- count_pops (depth + 1) w ;
  do w2 <- count_pushes (depth + 1) w1 ;
  let len := length (w_cur w2) in
  if Nat.ltb len (depth + 1) then expand_stack (1 + depth - len) w2 else Ok w2.

Definition wpeek (depth : nat) (w : win) : res (texpr * win) :=
  do w1 <- window depth w ;
  match nth_error (w_cur w1) depth with
  | Some e => Ok (e, w1)
  | None => Panic "peek: get(depth) is None"
  end.

(* VecDeque::swap_remove_front(depth) (exchange with the front, pop the front) followed by
   push_front(deep) *)
Definition wswap (depth : nat) (w : win) : res win :=
  do w1 <- window depth w ;
  match w_cur w1, nth_error (w_cur w1) depth with
  | front :: _, Some deep =>
      let c := match depth with O => w_cur w1 | _ => set_nth depth front (w_cur w1) end in
      Ok (set_cur w1 (deep :: tl c))
  | _, _ => Panic "swap_remove_front is None"
  end.

Definition wpush (e : texpr) (w : win) : res win :=
  do w1 <- count_pushes 1 w ; Ok (set_cur w1 (e :: w_cur w1)).

(* impl Drop for StackWindow *)
Definition wdrop (w : win) : res unit :=
  if negb (Nat.eqb (w_pops w) 0) then Panic "drop: assertion failed: self.pops == 0"
  else if negb (Nat.eqb (w_pushes w) 0) then Panic "drop: assertion failed: self.pushes == 0"
  else Ok tt.

(* ---------- Annotator::annotate_one: one arm per opcode, grouped by shape ---------- *)
Inductive shape :=
| ShOp (s : sym) (k : nat)   (* k pops (first popped = first argument), push concat(s, args) *)
| ShEnv (s : sym)            (* push the one-symbol expression s (no concat) *)
| ShDrop (k : nat)           (* k pops *)
| ShPc                       (* push Expr::pc(pc as u16) *)
| ShPush0                    (* push_const(&[0; 1]) *)
| ShPush                     (* push_const(imm) *)
| ShDup (n : nat)            (* peek(n-1).clone(), push *)
| ShSwap (n : nat)           (* swap(n) *)
| ShTerm (k : nat)           (* k pops, Exit::Terminate *)
| ShJump
| ShJumpI
| ShNoArm.                   (* a variant the match does not list: would not compile *)

(* the arms of the match, keyed by the variant name of the generated Op enum *)
Definition fixed_arms : list (string * shape) := [
  ("Stop", ShTerm 0);
  ("Add", ShOp SAdd 2); ("Mul", ShOp SMul 2); ("Sub", ShOp SSub 2); ("Div", ShOp SDiv 2);
  ("SDiv", ShOp SSDiv 2); ("Mod", ShOp SMod 2); ("SMod", ShOp SSMod 2);
  ("AddMod", ShOp SAddMod 3); ("MulMod", ShOp SMulMod 3); ("Exp", ShOp SExp 2);
  ("SignExtend", ShOp SSignExtend 2);
  ("Lt", ShOp SLt 2); ("Gt", ShOp SGt 2); ("SLt", ShOp SSLt 2); ("SGt", ShOp SSGt 2);
  ("Eq", ShOp SEq 2); ("IsZero", ShOp SIsZero 1); ("And", ShOp SAnd 2); ("Or", ShOp SOr 2);
  ("Xor", ShOp SXor 2); ("Not", ShOp SNot 1); ("Byte", ShOp SByte 2); ("Shl", ShOp SShl 2);
  ("Shr", ShOp SShr 2); ("Sar", ShOp SSar 2); ("Keccak256", ShOp SKeccak256 2);
  ("Address", ShEnv SAddress); ("Balance", ShOp SBalance 1); ("Origin", ShEnv SOrigin);
  ("Caller", ShEnv SCaller); ("CallValue", ShEnv SCallValue);
  ("CallDataLoad", ShOp SCallDataLoad 1); ("CodeSize", ShEnv SCodeSize);
  ("GasPrice", ShEnv SGasPrice); ("ExtCodeSize", ShOp SExtCodeSize 1);
  ("BlockHash", ShOp SBlockHash 1); ("Coinbase", ShEnv SCoinbase);
  ("Timestamp", ShEnv STimestamp); ("Number", ShEnv SNumber); ("Difficulty", ShEnv SDifficulty);
  ("GasLimit", ShEnv SGasLimit); ("ChainId", ShEnv SChainId); ("SelfBalance", ShEnv SSelfBalance);
  ("BaseFee", ShEnv SBaseFee); ("MSize", ShEnv SMSize); ("Gas", ShEnv SGas);
  ("Pop", ShDrop 1);
  ("CallDataSize", ShEnv SCallDataSize); ("CallDataCopy", ShDrop 3); ("CodeCopy", ShDrop 3);
  ("ExtCodeCopy", ShDrop 4); ("ReturnDataSize", ShEnv SReturnDataSize);
  ("ReturnDataCopy", ShDrop 3); ("ExtCodeHash", ShOp SExtCodeHash 1);
  ("MLoad", ShOp SMLoad 1); ("MStore", ShDrop 2); ("MStore8", ShDrop 2);
  ("SLoad", ShOp SSLoad 1); ("SStore", ShDrop 2);
  ("GetPc", ShPc); ("JumpDest", ShDrop 0); ("MCopy", ShDrop 3);
  ("Push0", ShPush0);
  ("Log0", ShDrop 2); ("Log1", ShDrop 3); ("Log2", ShDrop 4); ("Log3", ShDrop 5); ("Log4", ShDrop 6);
  ("Revert", ShTerm 2); ("Return", ShTerm 2); ("SelfDestruct", ShTerm 1);
  ("Jump", ShJump); ("JumpI", ShJumpI);
  ("Create", ShOp SCreate 3); ("Call", ShOp SCall 7); ("CallCode", ShOp SCallCode 7);
  ("DelegateCall", ShOp SDelegateCall 6); ("Create2", ShOp SCreate2 4);
  ("StaticCall", ShOp SStaticCall 6);
  ("Invalid", ShTerm 0) ].

Definition numbered_arms : list (string * shape) :=
  map (fun k => ("Push" +++ dec_of_N k, ShPush)) (N_range 1 32)
  ++ map (fun k => ("Dup" +++ dec_of_N k, ShDup (N.to_nat k))) (N_range 1 16)
  ++ map (fun k => ("Swap" +++ dec_of_N k, ShSwap (N.to_nat k))) (N_range 1 16).

(* Op::Invalid0c(_) | ... | Op::InvalidFc(_): the variants build.rs generates for the bytes
   the TOML does not define, all in one arm returning Exit::Terminate *)
Definition is_invalid_variant (name : string) : bool :=
  existsb (fun c => String.eqb name (r_name (invalid_row c))) (N_range 0 256).

Definition shape_of_name (name : string) : shape :=
  match find (fun p => String.eqb (fst p) name) (fixed_arms ++ numbered_arms) with
  | Some p => snd p
  | None => if is_invalid_variant name then ShTerm 0 else ShNoArm
  end.

Definition shape_of (c : N) : shape := shape_of_name (r_name (from_u8 cancun c)).

Inductive texit :=
| XTerm
| XFall (pc : N)
| XJump (dest : texpr)
| XBranch (cond when_true : texpr) (when_false : N).

Definition usize_max : N := 18446744073709551615.

Definition push_none (e : texpr) (w : win) : res (option texit * win) :=
  do w1 <- wpush e w ; Ok (None, w1).

(* idx is ghost (the position of op in the block); pc : usize *)
Definition annotate_one (idx : nat) (pc : N) (w : win) (op : item) : res (option texit * win) :=
  match shape_of (i_code op) with
  | ShOp s k =>
      do (args, w1) <- wpop_n k w ;
      do e <- tconcat (s, mk_tag s idx) args ;
      push_none e w1
  | ShEnv s => push_none [(s, mk_tag s idx)] w
  | ShDrop k => do (_, w1) <- wpop_n k w ; Ok (None, w1)
  | ShPc => push_none [(SGetPc (Z.of_N (pc mod 65536)), None)] w          (* pc as u16 *)
  | ShPush0 => push_none [(SConst 0, None)] w
  | ShPush =>
      (* Expr::constant: `buf.len() - arr.len()` *)
      if Nat.ltb 32 (length (i_imm op)) then Panic "attempt to subtract with overflow"
      else push_none [(SConst (Z.of_N (N_of_be (i_imm op))), None)] w
  | ShDup n => do (e, w1) <- wpeek (n - 1) w ; push_none e w1
  | ShSwap n => do w1 <- wswap n w ; Ok (None, w1)
  | ShTerm k => do (_, w1) <- wpop_n k w ; Ok (Some XTerm, w1)
  | ShJump => do (dest, w1) <- wpop w ; Ok (Some (XJump dest), w1)
  | ShJumpI =>
      if (usize_max <? pc + 1)%N then Panic "attempt to add with overflow"
      else
        do (when_true, w1) <- wpop w ;
        do (condition, w2) <- wpop w1 ;
        Ok (Some (XBranch condition when_true (pc + 1)%N), w2)
  | ShNoArm => Panic "no match arm for this variant"
  end.

(* ---------- Annotator::annotate ---------- *)
Record astate := mkast { a_cur : list texpr; a_vars : Z; a_inputs : list Z }.
Definition state_of (w : win) : astate := mkast (w_cur w) (w_vars w) (w_inputs w).

Definition row_of (op : item) : oprow := from_u8 cancun (i_code op).

Fixpoint annotate_loop (idx : nat) (pc : N) (ops : list item) (st : astate)
  : res (texit * astate) :=
  match ops with
  | [] => Ok (XFall pc, st)
  | op :: rest =>
      let row := row_of op in
      (* advance() clones the current stack; StackWindow::new reads the table *)
      let w := mkwin (a_cur st) (a_vars st) (a_inputs st)
                     (N.to_nat (r_pops row)) (N.to_nat (r_pushes row)) in
      do (ox, w') <- annotate_one idx pc w op ;
      match ox with
      | Some x =>
          match rest with
          | _ :: _ => Panic "assertion failed: is_last"
          | [] =>
              let exit_matches :=
                match x with
                | XTerm => r_exits row
                | XJump _ | XBranch _ _ _ => r_jump row
                | XFall _ => false
                end in
              if negb exit_matches then Panic "bug: exit type doesn't match metadata"
              else do _ <- wdrop w' ; Ok (x, state_of w')
          end
      | None =>
          if r_exits row then Panic "assertion failed: !op.is_exit()"
          else if (usize_max <? pc + size row)%N then Panic "attempt to add with overflow"
          else do _ <- wdrop w' ; annotate_loop (S idx) (pc + size row)%N rest (state_of w')
      end
  end.

Record annotated := mkann {
  an_offset : N; an_size : N; an_jt : bool;
  an_inputs : list Z; an_outputs : list texpr; an_exit : texit }.

(* AnnotatedBlock::annotate *)
Definition annotate (offset : N) (ops : list item) : res annotated :=
  let jt := match ops with op :: _ => r_jt (row_of op) | [] => false end in
  do (x, st) <- annotate_loop 0 offset ops (mkast [] 0%Z []) ;
  match ops with
  | [] => Panic "called `Option::unwrap()` on a `None` value"    (* stacks.last() after next() *)
  | _ => Ok (mkann offset (sumN (map (fun op => size (row_of op)) ops)) jt
                   (a_inputs st) (a_cur st) x)
  end.

(* ---------- the meaning of expressions (part of the statement of C06) ---------- *)
Inductive ttree := TNode (s : tsym) (args : list ttree).

Fixpoint tencode (t : ttree) : texpr :=
  match t with TNode s args => s :: concat (map tencode args) end.

(* decoding of the prefix encoding, as Model/Sym.v's decode_tree (Expr::inner_walk) *)
Fixpoint tdecode (fuel : nat) (e : texpr) : option (ttree * texpr) :=
  match fuel with
  | O => None
  | S f =>
      match e with
      | [] => None
      | s :: rest =>
          let fix args (k : nat) (r : texpr) : option (list ttree * texpr) :=
            match k with
            | O => Some ([], r)
            | S k' =>
                match tdecode f r with
                | Some (t, r') =>
                    match args k' r' with
                    | Some (ts, r'') => Some (t :: ts, r'')
                    | None => None
                    end
                | None => None
                end
            end in
          match args (children (fst s)) rest with
          | Some (ts, r) => Some (TNode s ts, r)
          | None => None
          end
      end
  end.

Definition ttree_of (e : texpr) : option ttree :=
  match tdecode (S (length e)) e with
  | Some (t, _) => Some t
  | None => None
  end.

(* the pure symbols and the operation of Spec/EvmExec.v they denote *)
Definition sym_pure (s : sym) : option pure_op :=
  match s with
  | SAdd => Some PAdd | SMul => Some PMul | SSub => Some PSub | SDiv => Some PDiv
  | SSDiv => Some PSDiv | SMod => Some PMod | SSMod => Some PSMod | SAddMod => Some PAddMod
  | SMulMod => Some PMulMod | SExp => Some PExp | SSignExtend => Some PSignExtend
  | SLt => Some PLt | SGt => Some PGt | SSLt => Some PSLt | SSGt => Some PSGt | SEq => Some PEq
  | SIsZero => Some PIsZero | SAnd => Some PAnd | SOr => Some POr | SXor => Some PXor
  | SNot => Some PNot | SByte => Some PByte | SShl => Some PShl | SShr => Some PShr
  | SSar => Some PSar
  | _ => None
  end.

(* the opcode byte of the instruction a read symbol stands for *)
Definition read_code (s : sym) : option N :=
  match s with
  | SKeccak256 => Some 0x20 | SAddress => Some 0x30 | SBalance => Some 0x31
  | SOrigin => Some 0x32 | SCaller => Some 0x33 | SCallValue => Some 0x34
  | SCallDataLoad => Some 0x35 | SCallDataSize => Some 0x36 | SCodeSize => Some 0x38
  | SGasPrice => Some 0x3a | SExtCodeSize => Some 0x3b | SReturnDataSize => Some 0x3d
  | SExtCodeHash => Some 0x3f | SBlockHash => Some 0x40 | SCoinbase => Some 0x41
  | STimestamp => Some 0x42 | SNumber => Some 0x43 | SDifficulty => Some 0x44
  | SGasLimit => Some 0x45 | SChainId => Some 0x46 | SSelfBalance => Some 0x47
  | SBaseFee => Some 0x48 | SMLoad => Some 0x51 | SSLoad => Some 0x54 | SMSize => Some 0x59
  | SGas => Some 0x5a | SCreate => Some 0xf0 | SCall => Some 0xf1 | SCallCode => Some 0xf2
  | SDelegateCall => Some 0xf4 | SCreate2 => Some 0xf5 | SStaticCall => Some 0xfa
  | _ => None
  end%N.

Section Eval.
  Variable stack : list Z.    (* the entry stack, top first: var_i is its i-th word *)
  Variable rho : nat -> Z.    (* rho k: the value instruction k of the block returned *)

  Definition eval_sym (s : sym) (args : list Z) : Z :=
    match s with
    | SConst v => v
    | SVar n => nth (Z.to_nat (n - 1)) stack 0%Z
    | SGetPc p => p
    | _ => match sym_pure s with Some p => pure_apply p args | None => 0%Z end
    end.

  (* a node tagged [Some k] is the result of instruction k; every other node is computed *)
  Fixpoint eval_tree (t : ttree) : Z :=
    match t with
    | TNode (s, Some k) _ => rho k
    | TNode (s, None) args => eval_sym s (map eval_tree args)
    end.

  Definition eval_texpr (e : texpr) : Z :=
    match ttree_of e with Some t => eval_tree t | None => 0%Z end.
End Eval.

(* "Reads stand for the values those instructions actually received and returned": every node of
   t respects the arity of its symbol; a node tagged [Some k] carries a read symbol, and the
   trace of the execution says that instruction k -- an instruction with that symbol's
   opcode -- received exactly the values of the node's arguments (its own value is rho k by
   eval_tree); an untagged node is not a read symbol. *)
Fixpoint reads_ok (stack : list Z) (rho : nat -> Z) (tr : trace) (t : ttree) : Prop :=
  match t with
  | TNode (sy, tag) args =>
      children sy = length args /\
      (fix all (l : list ttree) : Prop :=
         match l with [] => True | x :: r => reads_ok stack rho tr x /\ all r end) args /\
      match tag with
      | Some k => exists c, read_code sy = Some c /\ In (k, c, map (eval_tree stack rho) args) tr
      | None => is_read_sym sy = false
      end
  end.
Definition expr_reads_ok (stack : list Z) (rho : nat -> Z) (tr : trace) (e : texpr) : Prop :=
  match ttree_of e with Some t => e = tencode t /\ reads_ok stack rho tr t | None => False end.

Definition exit_exprs (x : texit) : list texpr :=
  match x with XJump d => [d] | XBranch c t _ => [c; t] | _ => [] end.

(* the control transfer an exit denotes *)
Definition exit_transfer (stack : list Z) (rho : nat -> Z) (x : texit) : transfer :=
  match x with
  | XTerm => Halt
  | XFall n => FallThrough (Z.of_N n)
  | XJump dest => Goto (eval_texpr stack rho dest)
  | XBranch c t f => CondJump (eval_texpr stack rho c) (eval_texpr stack rho t) (Z.of_N f)
  end.

(* ---------- runner: exactly harness/src/annot.rs::show_annotated ---------- *)
Definition show_texpr (e : texpr) : string := show_sexpr (erase e).

Definition show_texit (x : texit) : string :=
  match x with
  | XTerm => "term"
  | XFall n => "fall(" +++ dec_of_N n +++ ")"
  | XJump e => "jump(" +++ show_texpr e +++ ")"
  | XBranch c t f => "branch(" +++ show_texpr c +++ ";" +++ show_texpr t +++ ";" +++ dec_of_N f +++ ")"
  end.

Definition show_annotated (a : annotated) : string :=
  "blk(off=" +++ dec_of_N (an_offset a) +++ ",size=" +++ dec_of_N (an_size a)
  +++ ",jt=" +++ show_bool (an_jt a)
  +++ ",in=[" +++ join ";" (map (fun v => "var" +++ dec_of_Z v) (an_inputs a))
  +++ "],out=[" +++ join ";" (map show_texpr (an_outputs a))
  +++ "],exit=" +++ show_texit (an_exit a) +++ ")".

Definition run_annot_block (offset : N) (ops : list item) : string :=
  match annotate offset ops with
  | Ok a => show_annotated a
  | Err e => "err:" +++ e_kind e
  | Panic s => "panic:" +++ s
  end.

(* instruction list from "code byte :: immediate" byte strings (offsets are not used by annotate) *)
Definition item_of_bytes (bs : list N) : item :=
  match bs with
  | [] => mkitem 0 0 []
  | c :: r => mkitem 0 c r
  end.
Definition run_annot_bytes (offset : N) (ins : list (list N)) : string :=
  run_annot_block offset (map item_of_bytes ins).

Definition instr_of (op : item) : instr := mkinstr (i_code op) (i_imm op).

(* ---------- runners for Spec/EvmExec.v (tie the trusted spec to the python interpreter) ---------- *)
Definition show_transfer (t : transfer) : string :=
  match t with
  | Halt => "halt"
  | Goto x => "goto(" +++ hex_of_Z x +++ ")"
  | FallThrough o => "fall(" +++ hex_of_Z o +++ ")"
  | CondJump c x f => "cond(" +++ hex_of_Z c +++ ";" +++ hex_of_Z x +++ ";" +++ hex_of_Z f +++ ")"
  end.
Definition show_trace_entry (e : nat * N * list Z) : string :=
  dec_of_N (N.of_nat (fst (fst e))) +++ ":" +++ hex_byte (snd (fst e)) +++ ":" +++ join "," (map hex_of_Z (snd e)).
Definition show_outcome (o : outcome) : string :=
  match o with
  | Underflow => "underflow"
  | Done s t tr => "done([" +++ join ";" (map hex_of_Z s) +++ "]," +++ show_transfer t
                   +++ ",[" +++ join ";" (map show_trace_entry tr) +++ "])"
  end.
Definition test_rho (k : nat) : Z := (1000003 * (Z.of_nat k + 1))%Z.
Definition run_exec (offset : N) (ins : list (list N)) (s : list Z) : string :=
  show_outcome (exec_block test_rho (Z.of_N offset) (map instr_of (map item_of_bytes ins)) s).

(* the statement of C06 evaluated on one concrete case (a test of the theorem, not a proof) *)
Definition Zlist_eqb (a b : list Z) : bool :=
  Nat.eqb (length a) (length b) && forallb (fun p => Z.eqb (fst p) (snd p)) (combine a b).
Definition exit_agrees_b (s : list Z) (rho : nat -> Z) (x : texit) (t : transfer) : bool :=
  match x, t with
  | XTerm, Halt => true
  | XFall n, FallThrough o => Z.eqb (Z.of_N n) o
  | XJump e, Goto v => Z.eqb (eval_texpr s rho e) v
  | XBranch c e f, CondJump cv v fv =>
      Z.eqb (eval_texpr s rho c) cv && Z.eqb (eval_texpr s rho e) v && Z.eqb (Z.of_N f) fv
  | _, _ => false
  end.
Definition run_c06_case (offset : N) (ins : list (list N)) (s : list Z) : string :=
  let ops := map item_of_bytes ins in
  match exec_block test_rho (Z.of_N offset) (map instr_of ops) s, annotate offset ops with
  | Underflow, _ => "underflow"
  | Done st t _, Ok a =>
      let n := length (an_inputs a) in
      if Nat.leb n (length s)
         && Zlist_eqb (map (eval_texpr s test_rho) (an_outputs a) ++ skipn n s) st
         && exit_agrees_b s test_rho (an_exit a) t
      then "ok" else "FAIL"
  | Done _ _ _, _ => "annotator-failed"
  end.
