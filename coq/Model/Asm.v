(* Model/Asm.v -- executable model of etk-asm/src/asm.rs (Assembler) and of the concretize /
   assemble steps of etk-asm/src/ops.rs, after the `fix:` commits (relaxation layout).
   Three phases: (1) push: labels, macro expansion, scopes, early operand checks -> a flat
   list of items; (2) layout: widths of %push and label positions by relaxation;
   (3) emission. *)
From Verif Require Import Model.Base Model.Ops Model.Expr.
Open Scope Z_scope.

(* ---------- syntax (etk-asm/src/ops.rs AbstractOp, asm.rs RawOp) ---------- *)
Inductive aop :=
| AOp (code : N) (imm : option expr)        (* AbstractOp::Op(Op<Abstract>) *)
| ALabel (l : string)
| APush (e : expr)                          (* %push(e) *)
| AMacroDefI (name : string) (params : list string) (body : list aop)
| AMacroDefE (name : string) (params : list string) (body : expr)
| AMacro (name : string) (args : list expr).

Inductive rawop :=
| ROp (a : aop)
| RScope (l : list rawop)
| RRaw (bs : list N).

(* declared macros of one scope *)
Inductive mdef :=
| MI (params : list string) (body : list aop)
| ME (d : emacro).
Definition mtable := list (string * mdef).

Fixpoint mlookup (t : mtable) (n : string) : option mdef :=
  match t with
  | [] => None
  | (k, d) :: r => if String.eqb k n then Some d else mlookup r n
  end.

Definition menv_of (t : mtable) : macro_env :=
  fun n => match mlookup t n with
           | Some (ME d) => Some (Some d)
           | Some (MI _ _) => Some None
           | None => None
           end.

(* the flat item list the layout works on (Assembler::ready) *)
Inductive ritem :=
| ILabel (l : string)
| IOp (code : N) (imm : option expr)
| IPush (e : expr)
| IRaw (bs : list N).

(* ---------- operands ---------- *)
Definition no_labels : label_env := fun _ => None.

(* bytes needed for |v| (BigInt::bits of the magnitude), at least one *)
Definition push_width (v : Z) : nat :=
  let bits := if v =? 0 then 0 else Z.log2 (Z.abs v) + 1 in
  let bits := Z.max bits 1 in
  Z.to_nat (1 + (bits - 1) / 8).

Definition mnemonic_of (code : N) : string := r_mnem (from_u8 cancun code).
Definition extra_of (code : N) : nat := N.to_nat (r_extra (from_u8 cancun code)).

(* asm.rs operand_error / concretize_error *)
Definition map_eval_err (e : err) : err :=
  match e_kind e with
  | "UnknownLabel" => mkErr "UndeclaredLabels" (e_args e)
  | "UnknownMacro" => mkErr "UndeclaredExpressionMacro" (e_args e)
  | "UndefinedVariable" => mkErr "UndeclaredVariableMacro" (e_args e)
  | k => mkErr k []                       (* DivisionByZero, RecursionLimit *)
  end.

(* Concretize for Op<Abstract> with an immediate of n bytes: value -> exactly n bytes *)
Definition concretize_imm (n : nat) (spec : string) (v : Z) : res (list N) :=
  if v <? 0 then Err (mkErr "ExpressionNegative" [dec_of_Z v])
  else
    let bs := be_bytes (Z.to_N v) in
    if Nat.leb (length bs) n then Ok (pad_left n bs)
    else Err (mkErr "ExpressionTooLarge" [dec_of_Z v; spec]).

(* AbstractOp::Push concretize (used when the %push is read): only success/failure matters *)
Definition check_unsized (v : Z) : res unit :=
  if v <? 0 then Err (mkErr "ExpressionNegative" [dec_of_Z v])
  else if Nat.ltb 32 (length (be_bytes (Z.to_N v))) then
    Err (mkErr "ExpressionTooLarge" [dec_of_Z v; "push32"])
  else Ok tt.

Section Scope.
  Variable macros : mtable.
  Let menv := menv_of macros.

  Definition eval_op (labels : label_env) (e : expr) : res Z :=
    eval labels menv MACRO_DEPTH_LIMIT None e.

  (* the check made when an op is read: operands that do not depend on labels *)
  Definition early_check (it : ritem) : res unit :=
    match it with
    | IOp code (Some e) =>
        match eval_op no_labels e with
        | Ok v => do _ <- concretize_imm (extra_of code) (mnemonic_of code) v ; Ok tt
        | Err er => if String.eqb (e_kind er) "UnknownLabel" then Ok tt else Err (map_eval_err er)
        | Panic s => Panic s
        end
    | IPush e =>
        match eval_op no_labels e with
        | Ok v => check_unsized v
        | Err er => if String.eqb (e_kind er) "UnknownLabel" then Ok tt else Err (map_eval_err er)
        | Panic s => Panic s
        end
    | _ => Ok tt
    end.

  (* ---------- phase 1: Assembler::push / expand_macro ---------- *)
  Record astate := mkast {
    a_ready : list ritem;            (* in program order *)
    a_declared : list string;        (* declared_labels, insertion order *)
    a_undeclared : list string;      (* undeclared_labels (a set) *)
    a_ctr : N }.                     (* stands for the rng: one fresh suffix per mangled label *)

  Definition ainit : astate := mkast [] [] [] 0.

  Definition mem (x : string) (l : list string) : bool := existsb (String.eqb x) l.
  Definition remove_str (x : string) (l : list string) : list string :=
    filter (fun y => negb (String.eqb x y)) l.

  (* a mangled label: "{macro}_{label}_{suffix}"; '#' keeps it apart from every user label *)
  Definition mangle (m l : string) (k : N) : string := m +++ "_" +++ l +++ "_#" +++ dec_of_N k.

  (* push of an op that carries an operand (or none) *)
  Definition push_item (st : astate) (it : ritem) (operand : option expr) : res astate :=
    match operand with
    | None => Ok (mkast (a_ready st ++ [it]) (a_declared st) (a_undeclared st) (a_ctr st))
    | Some e =>
        match elabels menv MACRO_DEPTH_LIMIT e with
        | Ok ls =>
            let und := fold_left (fun u l => if mem l (a_declared st) || mem l u then u else u ++ [l])
                                 ls (a_undeclared st) in
            do _ <- early_check it ;
            Ok (mkast (a_ready st ++ [it]) (a_declared st) und (a_ctr st))
        | Err er => Err (map_eval_err er)
        | Panic s => Panic s
        end
    end.

  (* first pass of expand_macro: rename locally defined labels *)
  Fixpoint rename_pass (mname : string) (body : list aop) (ctr : N) (ren : list (string * string))
    : res (list aop * N * list (string * string)) :=
    match body with
    | [] => Ok ([], ctr, ren)
    | ALabel l :: r =>
        if existsb (fun p => String.eqb (fst p) l) ren then err1 "DuplicateLabel" l
        else
          let l' := mangle mname l ctr in
          do x <- rename_pass mname r (ctr + 1)%N (ren ++ [(l, l')]) ;
          let '(r', c', ren') := x in Ok (ALabel l' :: r', c', ren')
    | a :: r =>
        do x <- rename_pass mname r ctr ren ;
        let '(r', c', ren') := x in Ok (a :: r', c', ren')
    end.

  Definition rewrite_expr (ren : list (string * string)) (params : list (string * expr)) (e : expr) : expr :=
    fill_variables params (fold_left (fun e p => replace_label (fst p) (snd p) e) ren e).

  (* second pass: operands and the arguments of nested invocations *)
  Definition rewrite_op (ren : list (string * string)) (params : list (string * expr)) (a : aop) : aop :=
    match a with
    | AOp c (Some e) => AOp c (Some (rewrite_expr ren params e))
    | APush e => APush (rewrite_expr ren params e)
    | AMacro n args => AMacro n (map (rewrite_expr ren params) args)
    | _ => a
    end.

  (* fuel = 256 - expansion_depth *)
  Fixpoint push_op (fuel : nat) (st : astate) (a : aop) {struct fuel} : res astate :=
    match a with
    | ALabel l =>
        if mem l (a_declared st) then err1 "DuplicateLabel" l
        else Ok (mkast (a_ready st ++ [ILabel l]) (a_declared st ++ [l])
                       (remove_str l (a_undeclared st)) (a_ctr st))
    | AMacroDefI _ _ _ | AMacroDefE _ _ _ => Ok st
    | AOp code imm => push_item st (IOp code imm) imm
    | APush e => push_item st (IPush e) (Some e)
    | AMacro name args =>
        match mlookup macros name with
        | Some (MI params body) =>
            if negb (Nat.eqb (length params) (length args)) then err1 "MacroArgumentCount" name
            else
              match fuel with
              | O => err0 "RecursionLimit"
              | S fuel' =>
                  do x <- rename_pass name body (a_ctr st) [] ;
                  let '(body1, ctr', ren) := x in
                  let body2 := map (rewrite_op ren (combine params args)) body1 in
                  let st1 := mkast (a_ready st) (a_declared st) (a_undeclared st) ctr' in
                  (fix go (l : list aop) (s : astate) : res astate :=
                     match l with
                     | [] => Ok s
                     | b :: r => do s' <- push_op fuel' s b ; go r s'
                     end) body2 st1
              end
        | _ => err1 "UndeclaredInstructionMacro" name
        end
    end.

  (* ---------- phase 2: Assembler::layout ---------- *)
  Definition item_size (it : ritem) (w : nat) : Z :=
    match it with
    | ILabel _ => 0
    | IOp code (Some _) => 1 + Z.of_nat (extra_of code)
    | IOp code None => 1     (* an Op<Abstract> without immediate has extra_len = 0 by construction *)
    | IPush _ => 1 + Z.of_nat w
    | IRaw bs => Z.of_nat (length bs)
    end.

  (* positions of the labels under widths [ws] (one width per IPush, in order) *)
  Fixpoint positions (items : list ritem) (ws : list nat) (pos : Z) : list (string * Z) :=
    match items with
    | [] => []
    | ILabel l :: r => (l, pos) :: positions r ws pos
    | IPush e :: r =>
        match ws with
        | w :: ws' => positions r ws' (pos + item_size (IPush e) w)
        | [] => positions r [] (pos + item_size (IPush e) 1)       (* unreachable: |ws| = #IPush *)
        end
    | it :: r => positions r ws (pos + item_size it 0)
    end.

  Fixpoint assoc (t : list (string * Z)) (l : string) : option Z :=
    match t with
    | [] => None
    | (k, v) :: r => if String.eqb k l then Some v else assoc r l
    end.
  Definition lenv (t : list (string * Z)) : label_env := assoc t.

  (* one widening sweep *)
  Fixpoint widen (items : list ritem) (labels : label_env) (ws : list nat) : list nat :=
    match items with
    | [] => []
    | IPush e :: r =>
        match ws with
        | w :: ws' =>
            let w' := match eval_op labels e with
                      | Ok v => Nat.max w (Nat.min (push_width v) 32)
                      | _ => w
                      end in
            w' :: widen r labels ws'
        | [] => []
        end
    | _ :: r => widen r labels ws
    end.

  Fixpoint list_nat_eqb (a b : list nat) : bool :=
    match a, b with
    | [], [] => true
    | x :: a', y :: b' => Nat.eqb x y && list_nat_eqb a' b'
    | _, _ => false
    end.

  Definition count_push (items : list ritem) : nat :=
    length (filter (fun it => match it with IPush _ => true | _ => false end) items).

  (* the relaxation loop; in the Rust it is an unbounded `loop`, here fuelled.
     31 * #push + 1 iterations always suffice (widths only grow, capped at 32). *)
  Fixpoint layout_loop (fuel : nat) (items : list ritem) (ws : list nat)
    : res (list nat * list (string * Z)) :=
    match fuel with
    | O => Panic "layout diverges"
    | S f =>
        let pos := positions items ws 0 in
        let ws' := widen items (lenv pos) ws in
        if list_nat_eqb ws ws' then Ok (ws, pos) else layout_loop f items ws'
    end.

  Definition layout (items : list ritem) : res (list nat * list (string * Z)) :=
    let n := count_push items in
    layout_loop (31 * n + 1) items (repeat 1%nat n).

  (* ---------- phase 3: emit_bytecode ---------- *)
  Definition emit_item (labels : label_env) (it : ritem) (w : nat) : res (list N) :=
    match it with
    | ILabel _ => Ok []
    | IRaw bs => Ok bs
    | IOp code None => Ok [code]
    | IOp code (Some e) =>
        match eval_op labels e with
        | Ok v => do bs <- concretize_imm (extra_of code) (mnemonic_of code) v ; Ok (code :: bs)
        | Err er => Err (map_eval_err er)
        | Panic s => Panic s
        end
    | IPush e =>
        match eval_op labels e with
        | Ok v =>
            do bs <- concretize_imm w ("push" +++ dec_of_N (N.of_nat w)) v ;
            Ok ((0x5f + N.of_nat w)%N :: bs)
        | Err er => Err (map_eval_err er)
        | Panic s => Panic s
        end
    end.

  Fixpoint emit (labels : label_env) (items : list ritem) (ws : list nat) : res (list N) :=
    match items with
    | [] => Ok []
    | IPush e :: r =>
        match ws with
        | w :: ws' => do a <- emit_item labels (IPush e) w ; do b <- emit labels r ws' ; Ok (a ++ b)
        | [] => Panic "emit: widths exhausted"
        end
    | it :: r => do a <- emit_item labels it 0 ; do b <- emit labels r ws ; Ok (a ++ b)
    end.

  (* backpatch_and_emit *)
  Definition finish_scope (st : astate) : res (list N) :=
    match a_undeclared st with
    | _ :: _ => Err (mkErr "UndeclaredLabels" (a_undeclared st))
    | [] =>
        do lw <- layout (a_ready st) ;
        emit (lenv (snd lw)) (a_ready st) (fst lw)
    end.
End Scope.

(* ---------- Assembler::assemble (declare_macros, push each, backpatch_and_emit) ---------- *)
Fixpoint declare_macros (ops : list rawop) (t : mtable) : res mtable :=
  match ops with
  | [] => Ok t
  | ROp (AMacroDefI n ps body) :: r =>
      match mlookup t n with
      | Some _ => err1 "DuplicateMacro" n
      | None => declare_macros r (t ++ [(n, MI ps body)])
      end
  | ROp (AMacroDefE n ps body) :: r =>
      match mlookup t n with
      | Some _ => err1 "DuplicateMacro" n
      | None => declare_macros r (t ++ [(n, ME (mkemacro ps body))])
      end
  | _ :: r => declare_macros r t
  end.

Definition EXPANSION_FUEL : nat := 256.

(* one scope, given how to assemble a nested scope *)
Definition assemble_with (rec : rawop -> res (list N)) (ops : list rawop) : res (list N) :=
  do macros <- declare_macros ops [] ;
  do st <-
    (fix go (l : list rawop) (st : astate) : res astate :=
       match l with
       | [] => Ok st
       | ROp a :: r => do st' <- push_op macros EXPANSION_FUEL st a ; go r st'
       | RRaw bs :: r => go r (mkast (a_ready st ++ [IRaw bs]) (a_declared st) (a_undeclared st) (a_ctr st))
       | (RScope _ as sc) :: r =>
           do bs <- rec sc ;
           go r (mkast (a_ready st ++ [IRaw bs]) (a_declared st) (a_undeclared st) (a_ctr st))
       end) ops ainit ;
  finish_scope macros st.

(* RawOp::Scope: a fresh assembler for the nested op list *)
Fixpoint assemble_scope (r : rawop) : res (list N) :=
  match r with
  | RScope l => assemble_with assemble_scope l
  | RRaw bs => Ok bs
  | ROp _ => Panic "assemble_scope: not a scope"
  end.

Definition assemble (ops : list rawop) : res (list N) := assemble_with assemble_scope ops.

(* ---------- runner ---------- *)
Fixpoint insert_sorted (x : string) (l : list string) : list string :=
  match l with
  | [] => [x]
  | y :: r => match String.compare x y with
              | Gt => y :: insert_sorted x r
              | _ => x :: l
              end
  end.
Definition sort_strings (l : list string) : list string := fold_right insert_sorted [] l.

Definition show_asm_result (r : res (list N)) : string :=
  match r with
  | Ok bs => "ok:" +++ hex_or_dash bs
  | Err e =>
      if String.eqb (e_kind e) "UndeclaredLabels"
      then "err:UndeclaredLabels(" +++ join "+" (sort_strings (e_args e)) +++ ") out=-"
      else "err:" +++ e_kind e +++ "(" +++ join "," (e_args e) +++ ") out=-"
  | Panic s => "panic:" +++ s
  end.
(* ---------- the parser's own range check (parse/mod.rs parse_push) ----------
   While the source is parsed, every `pushN <expr>` whose operand evaluates WITHOUT any context
   (no labels, no macros, no variables) to a value >= 2^(8N) is rejected with
   ParseError::ImmediateTooLarge -- also inside macro bodies, before anything is assembled. *)
Definition parse_push_check (code : N) (e : expr) : res unit :=
  match eval no_labels (fun _ => None) 0 None e with
  | Ok v => if 256 ^ Z.of_nat (extra_of code) <=? v then err0 "Parse.ImmediateTooLarge" else Ok tt
  | _ => Ok tt
  end.

Fixpoint parse_check_aop (a : aop) : res unit :=
  match a with
  | AOp code (Some e) => parse_push_check code e
  | AMacroDefI _ _ body =>
      (fix go (l : list aop) : res unit :=
         match l with
         | [] => Ok tt
         | b :: r => do _ <- parse_check_aop b ; go r
         end) body
  | _ => Ok tt
  end.

Fixpoint parse_check (ops : list rawop) : res unit :=
  match ops with
  | [] => Ok tt
  | ROp a :: r => do _ <- parse_check_aop a ; parse_check r
  | _ :: r => parse_check r
  end.

(* Ingest::ingest of a single source text: parse (with its check), then assemble *)
Definition ingest_ast (ops : list rawop) : res (list N) :=
  do _ <- parse_check ops ; assemble ops.

Definition run_asm (ops : list rawop) : string := show_asm_result (ingest_ast ops).
