(* Model/Base.v -- shared result type and small executable helpers.
   No proofs in Model/ files: they must keep evaluating when a proof breaks. *)
From Coq Require Export String Ascii NArith ZArith Bool.
From Coq Require Export List.
Export ListNotations.
Open Scope string_scope.
Open Scope list_scope.
(* `++` is list append everywhere in this development; strings are appended with `+++` *)
Infix "+++" := String.append (right associativity, at level 60).

(* Error values returned by the implementation: a kind and the names it carries. *)
Record err := mkErr { e_kind : string; e_args : list string }.

(* Ok: normal result.  Err: an error *value* the implementation returns.
   Panic: every place where the Rust code would panic!/unwrap a None/hit
   unreachable!/todo!/a failed assert!, or recurse without bound. *)
Inductive res (A : Type) : Type :=
| Ok (a : A)
| Err (e : err)
| Panic (site : string).
Arguments Ok {A} a.
Arguments Err {A} e.
Arguments Panic {A} site.

Definition bind {A B} (r : res A) (f : A -> res B) : res B :=
  match r with
  | Ok a => f a
  | Err e => Err e
  | Panic s => Panic s
  end.
Notation "'do' x <- r ; k" := (bind r (fun x => k))
  (at level 200, x pattern, r at level 100, k at level 200).

Definition err0 {A} (k : string) : res A := Err (mkErr k []).
Definition err1 {A} (k : string) (a : string) : res A := Err (mkErr k [a]).

Definition is_ok {A} (r : res A) : bool := match r with Ok _ => true | _ => false end.
Definition is_panic {A} (r : res A) : bool := match r with Panic _ => true | _ => false end.

(* ---------- digits / rendering ---------- *)

Definition hex_lower_digit (n : N) : ascii :=
  match n with
  | 0 => "0" | 1 => "1" | 2 => "2" | 3 => "3" | 4 => "4" | 5 => "5" | 6 => "6" | 7 => "7"
  | 8 => "8" | 9 => "9" | 10 => "a" | 11 => "b" | 12 => "c" | 13 => "d" | 14 => "e" | _ => "f"
  end%N%char.

Definition hex_upper_digit (n : N) : ascii :=
  match n with
  | 0 => "0" | 1 => "1" | 2 => "2" | 3 => "3" | 4 => "4" | 5 => "5" | 6 => "6" | 7 => "7"
  | 8 => "8" | 9 => "9" | 10 => "A" | 11 => "B" | 12 => "C" | 13 => "D" | 14 => "E" | _ => "F"
  end%N%char.

(* two lower-case hex digits of a byte *)
Definition hex_byte (b : N) : string :=
  String (hex_lower_digit (b / 16)) (String (hex_lower_digit (b mod 16)) EmptyString).

Fixpoint hex_bytes (bs : list N) : string :=
  match bs with
  | [] => EmptyString
  | b :: r => hex_byte b +++ hex_bytes r
  end.

(* decimal rendering of an N, by fuel on the number of digits *)
Fixpoint dec_digits (fuel : nat) (n : N) (acc : string) : string :=
  match fuel with
  | O => acc
  | S f =>
      let acc' := String (hex_lower_digit (n mod 10)) acc in
      if (n / 10 =? 0)%N then acc' else dec_digits f (n / 10) acc'
  end.
Definition dec_of_N (n : N) : string := dec_digits (S (N.to_nat (N.size n))) n EmptyString.

Definition dec_of_Z (z : Z) : string :=
  match z with
  | Z0 => "0"
  | Zpos p => dec_of_N (Npos p)
  | Zneg p => "-" +++ dec_of_N (Npos p)
  end.

Definition show_bool (b : bool) : string := if b then "1" else "0".

Fixpoint join (sep : string) (l : list string) : string :=
  match l with
  | [] => EmptyString
  | [x] => x
  | x :: r => x +++ sep +++ join sep r
  end.

(* canonical rendering of results for the correspondence check *)
Definition show_res {A} (show : A -> string) (r : res A) : string :=
  match r with
  | Ok a => "ok:" +++ show a
  | Err e => "err:" +++ e_kind e +++ "(" +++ join "," (e_args e) +++ ")"
  | Panic s => "panic:" +++ s
  end.

(* ---------- list helpers ---------- *)

Fixpoint set_nth {A} (n : nat) (x : A) (l : list A) : list A :=
  match l, n with
  | [], _ => []
  | _ :: r, O => x :: r
  | a :: r, S k => a :: set_nth k x r
  end.

Fixpoint N_range (start : N) (count : nat) : list N :=
  match count with
  | O => []
  | S c => start :: N_range (N.succ start) c
  end.

Definition sumN (l : list N) : N := fold_right N.add 0%N l.

(* big-endian bytes <-> N *)
Fixpoint be_value (bs : list N) (acc : N) : N :=
  match bs with
  | [] => acc
  | b :: r => be_value r (acc * 256 + b)%N
  end.
Definition N_of_be (bs : list N) : N := be_value bs 0%N.

(* minimal big-endian byte list of n ([] for 0), by fuel *)
Fixpoint be_bytes_fuel (fuel : nat) (n : N) (acc : list N) : list N :=
  match fuel with
  | O => acc
  | S f => if (n =? 0)%N then acc else be_bytes_fuel f (n / 256)%N ((n mod 256)%N :: acc)
  end.
Definition be_bytes (n : N) : list N := be_bytes_fuel (S (N.to_nat (N.size n))) n [].

Definition pad_left (len : nat) (bs : list N) : list N :=
  (repeat 0%N (len - length bs) ++ bs).
