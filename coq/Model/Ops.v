(* Model/Ops.v -- executable model of etk-ops/build.rs (TOML rows -> Op<T> API).
   The rows themselves come from Gen/OpTables.v, regenerated from the TOML on every run. *)
From Verif Require Import Model.Base.
From Verif Require Export Gen.OpTables.
Open Scope N_scope.

(* build.rs read_fork: default row for every byte *)
Definition invalid_row (c : N) : oprow :=
  mkrow c
    ("Invalid" +++ String (hex_upper_digit (c / 16)) (String (hex_lower_digit (c mod 16)) EmptyString))
    ("invalid_" +++ hex_byte c)
    0 0 0 true false false.

(* read_fork: `if idx < len-1 && op.code >= input[idx+1].code` -> OutOfOrder(next name) *)
Fixpoint check_order (rows : list oprow) : option string :=
  match rows with
  | a :: ((b :: _) as tl) =>
      if r_code b <=? r_code a then Some (r_name b) else check_order tl
  | _ => None
  end.

Definition default_table : list oprow := map invalid_row (N_range 0 256).

Definition full_table (rows : list oprow) : res (list oprow) :=
  match check_order rows with
  | Some n => err1 "OutOfOrder" n
  | None =>
      Ok (fold_left (fun t r => set_nth (N.to_nat (r_code r)) r t) rows default_table)
  end.

(* the table used when read_fork succeeds; [] stands for "build.rs failed" *)
Definition table_of (rows : list oprow) : list oprow :=
  match full_table rows with Ok t => t | _ => [] end.

Definition london : list oprow := table_of london_rows.
Definition shanghai : list oprow := table_of shanghai_rows.
Definition cancun : list oprow := table_of cancun_rows.

Section WithTable.
  Variable t : list oprow.

  (* impl From<u8> for Op<()> *)
  Definition from_u8 (c : N) : oprow := nth (N.to_nat c) t (invalid_row c).
  (* impl From<Op<()>> for u8 *)
  Definition to_u8 (r : oprow) : N := r_code r.
  (* Display *)
  Definition display (r : oprow) : string := r_mnem r.
  (* FromStr: a Rust `match` on string literals, first matching arm wins *)
  Definition from_str (s : string) : option oprow :=
    find (fun r => String.eqb (r_mnem r) s) t.
  Definition find_name (s : string) : option oprow :=
    find (fun r => String.eqb (r_name r) s) t.

  Definition size (r : oprow) : N := 1 + r_extra r.

  (* Op::<T>::new : None when the opcode takes an immediate *)
  Definition op_new (r : oprow) : option oprow :=
    if r_extra r =? 0 then Some r else None.

  (* Op::<[u8]>::from_slice *)
  Definition from_slice (bs : list N) : res (oprow * list N) :=
    match bs with
    | [] => Panic "from_slice: index out of bounds"
    | c :: rest =>
        let r := from_u8 c in
        if 0 <? r_extra r then
          if N.of_nat (length rest) =? r_extra r then Ok (r, rest)
          else err0 "TryInto"
        else
          match rest with
          | [] => Ok (r, [])
          | _ => err0 "NoImmediate"
          end
    end.

  (* Op::<()>::push(sz): the hand written match 1..=32 on variants Push1..Push32 *)
  Definition push (sz : N) : option oprow :=
    if (1 <=? sz) && (sz <=? 32) then find_name ("Push" +++ dec_of_N sz) else None.

  (* Op::<()>::push_for(n : u128) *)
  Definition push_for (n : N) : res oprow :=
    let bits := N.size n in
    let bytes := N.max 1 ((bits + 8 - 1) / 8) in
    match push bytes with
    | Some r => Ok r
    | None => Panic "push_for: unwrap on None"   (* cannot happen for u128: 1..16 *)
    end.
  (* note: the Rust returns Option and uses try_into().unwrap() on the byte count,
     which cannot fail (u32 -> usize); push() itself yields None only for sz > 32. *)

  Definition upsize (r : oprow) : res (option oprow) :=
    if r_extra r =? 0 then Panic "only push ops can be upsized"
    else Ok (push (r_extra r + 1)).

  (* Op::<()>::with(immediate): only Push1..Push32 (matched by variant name) *)
  Definition is_push_variant (r : oprow) : bool :=
    existsb (fun k => String.eqb (r_name r) ("Push" +++ dec_of_N k)) (N_range 1 32).
End WithTable.

(* ---------- canonical renderings used by the correspondence check ---------- *)
Definition show_row (r : oprow) : string :=
  join " " [dec_of_N (r_code r); r_name r; r_mnem r; dec_of_N (r_pushes r); dec_of_N (r_pops r);
            dec_of_N (r_extra r); show_bool (r_exits r); show_bool (r_jump r); show_bool (r_jt r)].

Definition show_opt_row (o : option oprow) : string :=
  match o with Some r => r_name r | None => "none" end.

Definition show_table (t : list oprow) : string := join ";" (map show_row t).

(* ---------- runners: exactly the strings the harness prints ---------- *)
Definition hex_or_dash (bs : list N) : string :=
  match bs with [] => "-" | _ => hex_bytes bs end.

Definition run_row (t : list oprow) (c : N) : string :=
  let r := from_u8 t c in
  show_row r +++ "|size=" +++ dec_of_N (size r) +++ " mnem2=" +++ r_mnem r
  +++ " fromstr=" +++ match from_str t (display r) with Some x => dec_of_N (to_u8 x) | None => "none" end
  +++ " new=" +++ show_bool (match op_new r with Some _ => true | None => false end).

Definition run_rows (t : list oprow) : string := join ";" (map (run_row t) (N_range 0 256)).

Definition run_from_slice (t : list oprow) (bs : list N) : string :=
  show_res (fun p : oprow * list N => r_name (fst p) +++ " " +++ hex_or_dash (snd p)
                                      +++ " size=" +++ dec_of_N (size (fst p)))
           (from_slice t bs).

Definition run_push (t : list oprow) (sz : N) : string := show_opt_row (push t sz).
Definition run_push_for (t : list oprow) (n : N) : string := show_res r_name (push_for t n).
Definition run_upsize (t : list oprow) (c : N) : string :=
  show_res show_opt_row (upsize t (from_u8 t c)).
Definition run_from_str (t : list oprow) (s : string) : string := show_opt_row (from_str t s).
