(* Model/ParseTree.v -- executable model of the step from pest's pairs to the syntax tree:
     etk-asm/src/parse/mod.rs         parse_asm, parse_abstract_op, parse_push
     etk-asm/src/parse/macros.rs      parse, parse_builtin, parse_push_macro, parse_instruction_macro_defn,
                                      parse_instruction_macro, parse_expression_macro_defn, parse_expression_macro
     etk-asm/src/parse/expression.rs  parse / consume (pest PrecClimber), parse_radix_str, parse_selector
     etk-asm/src/parse/args.rs        Signature for (PathBuf,), FromPair for PathBuf
   The pairs are those of Model/Peg.v (`pair` is already a tree: rule, span, children), the tree is
   the one Model/Asm.v assembles (`aop`), file directives are the `node`s of Model/Ingest.v.
   With it the model runs from SOURCE TEXT: parse_text, ingest_text, run_parse_debug, run_asm_text.

   Every `unwrap()`, `expect`, `unreachable!()`, `assert!` and slice index of the Rust is a `Panic`
   here, whether or not the grammar can produce the pairs that reach it (Proofs/ParseTreeProofs.v is
   about that); every `ParseError` is an `Err` with the kind the harness prints (`Parse.<Variant>`,
   arguments of MissingArgument = expected, got; of ExtraArgument = expected).

   Deviations, all on pair lists that asm.pest cannot produce (the model panics MORE often there):
   * the operands of an `expression` pair are all converted before precedence climbing starts (the
     Rust converts them on demand, so it never looks at a primary that directly follows a primary);
   * `parse_radix_str` trims white space before reading digits; the model (Model/Parse.v) reads the
     digits of the untrimmed text;
   * `usize::from_str` (the N of `pushN`) accepts a leading `+`; the model reads digits only.
   No proofs in this file. *)
From Verif Require Import Model.Base Model.Ops Model.Expr Model.ExprSimple Model.Parse Model.Asm
  Model.PegAst Gen.AsmGrammar Model.Peg Model.Ingest Spec.Keccak.
Local Open Scope N_scope.

(* ---------- pairs: rule, text, children ---------- *)
Definition pname (p : pair) : string := match p with Pair n _ _ _ => n end.
Definition pkids (p : pair) : list pair := match p with Pair _ _ _ ch => ch end.

Definition str_of (bs : list N) : string :=
  fold_right (fun b s => String (ascii_of_N b) s) EmptyString bs.

(* pair.as_str(): &input[start..end] *)
Definition slice (input : list N) (s e : N) : list N :=
  firstn (N.to_nat (e - s)) (skipn (N.to_nat s) input).
Definition ptext (input : list N) (p : pair) : list N :=
  match p with Pair _ s e _ => slice input s e end.
Definition pstr (input : list N) (p : pair) : string := str_of (ptext input p).

(* ---------- parse/expression.rs ---------- *)
Definition binop_of_rule (n : string) : option binop :=
  if String.eqb n "plus" then Some OpPlus
  else if String.eqb n "minus" then Some OpMinus
  else if String.eqb n "times" then Some OpTimes
  else if String.eqb n "divide" then Some OpDivide
  else None.

(* parse_radix_str(&txt[2..], radix) *)
Definition radix_lit (txt : list N) (radix : N) : res expr :=
  match txt with
  | _ :: _ :: d => do z <- Parse.parse_radix_str (str_of d) radix ; Ok (ENum z)
  | _ => Panic "&txt[2..]"
  end.

(* parse_selector: the first `size` bytes of Keccak-256 of the text of the first inner pair *)
Definition selector_of (size : nat) (raw : list N) : Z :=
  Z.of_N (N_of_be (firstn size (keccak256 raw))).

(* fn consume(pair, climber).  expression::parse never returns Err: Ok or a panic. *)
Fixpoint conv_expr (input : list N) (p : pair) {struct p} : res expr :=
  match p with
  | Pair n s e ch =>
      let txt := slice input s e in
      if String.eqb n "expression" then
        (* climber.climb(pair.into_inner(), primary, infix): a pair whose rule is one of the four
           operators is an operator, every other pair goes through `primary` = consume *)
        do its <- sequence (map (fun c =>
                     match binop_of_rule (pname c) with
                     | Some o => Ok (Parse.IOp o)
                     | None => do x <- conv_expr input c ; Ok (Parse.IPrim x)
                     end) ch) ;
        Parse.climb its
      else if String.eqb n "binary" then radix_lit txt 2
      else if String.eqb n "octal" then radix_lit txt 8
      else if String.eqb n "hex" then radix_lit txt 16
      else if String.eqb n "decimal" then
        do z <- Parse.parse_radix_str (str_of txt) 10 ; Ok (ENum z)
      else if String.eqb n "negative_decimal" then
        do z <- Parse.parse_negative_decimal (str_of txt) ; Ok (ENum z)
      else if String.eqb n "label" then Ok (ELabel (str_of txt))
      else if String.eqb n "selector" then
        match ch with
        | c :: _ => Ok (ENum (selector_of 4 (ptext input c)))
        | [] => Panic "parse_selector: next().unwrap()"
        end
      else if String.eqb n "topic" then
        match ch with
        | c :: _ => Ok (ENum (selector_of 32 (ptext input c)))
        | [] => Panic "parse_selector: next().unwrap()"
        end
      else if String.eqb n "expression_macro" then
        (* macros::parse_expression_macro(pair).unwrap() *)
        match ch with
        | nm :: args =>
            do az <- sequence (map (conv_expr input) args) ;
            Ok (EMacro (pstr input nm) az)
        | [] => Panic "parse_expression_macro: next().unwrap()"
        end
      else if String.eqb n "instruction_macro_variable" then
        match txt with
        | 36 :: v => Ok (EVar (str_of v))
        | _ => Panic "strip_prefix('$').unwrap()"
        end
      else Panic "consume: unreachable!()"
  end.

(* ---------- parse/macros.rs, parse/args.rs ---------- *)
Definition missing_argument {A} : res A := Err (mkErr "Parse.MissingArgument" ["1"; "0"]).
Definition extra_argument {A} : res A := Err (mkErr "Parse.ExtraArgument" ["1"]).
Definition argument_type {A} : res A := err0 "Parse.ArgumentType".

(* fn parse_push_macro: first the count of arguments, then the kind, then the expression *)
Definition conv_push_macro (input : list N) (p : pair) : res aop :=
  match pkids p with
  | [] => missing_argument
  | a :: rest =>
      match rest with
      | _ :: _ => extra_argument
      | [] =>
          if String.eqb (pname a) "expression" then do e <- conv_expr input a ; Ok (APush e)
          else argument_type
      end
  end.

(* <(PathBuf,)>::parse_arguments: the first argument is converted BEFORE a surplus one is noticed.
   PathBuf::from_pair: rule string, no backslash anywhere in the text, then txt[1..txt.len()-1] *)
Definition conv_path_args (input : list N) (p : pair) : res string :=
  match pkids p with
  | [] => missing_argument
  | a :: rest =>
      if negb (String.eqb (pname a) "string") then argument_type
      else
        let txt := ptext input a in
        if existsb (N.eqb 92) txt then argument_type
        else
          match txt with
          | _ :: ((_ :: _) as r) =>
              match rest with
              | _ :: _ => extra_argument
              | [] => Ok (str_of (removelast r))
              end
          | _ => Panic "txt[1..txt.len() - 1]"
          end
  end.

(* fn parse_builtin *)
Definition conv_builtin (input : list N) (p : pair) : res node :=
  match pkids p with
  | [] => Panic "parse_builtin: next().unwrap()"
  | c :: rest =>
      match rest with
      | _ :: _ => Panic "parse_builtin: assert!(pairs.next().is_none())"
      | [] =>
          let n := pname c in
          if String.eqb n "import" then do x <- conv_path_args input c ; Ok (NImport x)
          else if String.eqb n "include" then do x <- conv_path_args input c ; Ok (NInclude x)
          else if String.eqb n "include_hex" then do x <- conv_path_args input c ; Ok (NIncludeHex x)
          else if String.eqb n "push_macro" then do a <- conv_push_macro input c ; Ok (NOp a)
          else Panic "parse_builtin: unreachable!()"
      end
  end.

(* `size.as_str().parse::<usize>().unwrap()` *)
Definition parse_usize (txt : list N) : res N :=
  match txt with
  | [] => Panic "parse::<usize>().unwrap()"
  | _ =>
      match Parse.digits_of 10 (str_of txt) with
      | Ok ds => Ok (fold_left (fun acc d => acc * 10 + d) ds 0)
      | _ => Panic "parse::<usize>().unwrap()"
      end
  end.

(* fn parse_push *)
Definition conv_push (input : list N) (p : pair) : res aop :=
  match pkids p with
  | [] => Panic "parse_push: size unwrap()"
  | sz :: rest =>
      do size <- parse_usize (ptext input sz) ;
      match rest with
      | [] => Panic "parse_push: operand unwrap()"
      | operand :: _ =>
          match Ops.push cancun size with
          | None => Panic "Op::push(size).unwrap()"
          | Some row =>
              do e <- conv_expr input operand ;
              do _ <- parse_push_check (r_code row) e ;        (* ParseError::ImmediateTooLarge *)
              if is_push_variant row then Ok (AOp (r_code row) (Some e))
              else Panic "spec.with(expr).unwrap()"
          end
      end
  end.

(* the `Rule::op` arm: FromStr for Op<()>, then Op::new *)
Definition conv_plain_op (txt : list N) : res aop :=
  match from_str cancun (str_of txt) with
  | None => Panic "pair.as_str().parse().unwrap()"
  | Some row =>
      match op_new row with
      | Some r => Ok (AOp (r_code r) None)
      | None => Panic "Op::new(spec).unwrap()"
      end
  end.

(* name and parameters of a function_declaration pair *)
Definition conv_decl (input : list N) (decl : pair) : res (string * list string) :=
  match pkids decl with
  | [] => Panic "macro_defn.next().unwrap()"
  | nm :: ps => Ok (pstr input nm, map (pstr input) ps)
  end.

(* fn parse_abstract_op, with macros::parse and the three functions it dispatches to *)
Fixpoint conv_aop (input : list N) (p : pair) {struct p} : res aop :=
  match p with
  | Pair n s e ch =>
      if String.eqb n "local_macro" then
        match ch with
        | [] => Panic "macros::parse: next().unwrap()"
        | Pair n0 s0 e0 ch0 :: _ =>
            if String.eqb n0 "instruction_macro_definition" then
              match ch0 with
              | [] => Panic "parse_instruction_macro_defn: next().unwrap()"
              | decl :: body =>
                  do np <- conv_decl input decl ;
                  do contents <-
                    (fix go (l : list pair) : res (list aop) :=
                       match l with
                       | [] => Ok []
                       | b :: r =>
                           do a <- (if String.eqb (pname b) "push_macro" then conv_push_macro input b
                                    else conv_aop input b) ;
                           do ar <- go r ; Ok (a :: ar)
                       end) body ;
                  Ok (AMacroDefI (fst np) (snd np) contents)
              end
            else if String.eqb n0 "instruction_macro" then
              match ch0 with
              | [] => Panic "parse_instruction_macro: next().unwrap()"
              | nm :: args =>
                  do az <- sequence (map (conv_expr input) args) ;
                  Ok (AMacro (pstr input nm) az)
              end
            else if String.eqb n0 "expression_macro_definition" then
              match ch0 with
              | [] => Panic "parse_expression_macro_defn: next().unwrap()"
              | decl :: rest =>
                  do np <- conv_decl input decl ;
                  match rest with
                  | [] => Panic "parse_expression_macro_defn: content unwrap()"
                  | c :: _ => do b <- conv_expr input c ; Ok (AMacroDefE (fst np) (snd np) b)
                  end
              end
            else Panic "macros::parse: unreachable!()"
        end
      else if String.eqb n "label_definition" then
        match ch with
        | l :: _ => Ok (ALabel (pstr input l))
        | [] => Panic "label_definition: next().unwrap()"
        end
      else if String.eqb n "push" then conv_push input p
      else if String.eqb n "op" then conv_plain_op (slice input s e)
      else Panic "parse_abstract_op: unreachable!()"
  end.

(* fn parse_asm, after AsmParser::parse *)
Fixpoint conv_nodes (input : list N) (ps : list pair) : res (list node) :=
  match ps with
  | [] => Ok []
  | p :: r =>
      if String.eqb (pname p) "EOI" then conv_nodes input r
      else
        do nd <- (if String.eqb (pname p) "builtin" then conv_builtin input p
                  else do a <- conv_aop input p ; Ok (NOp a)) ;
        do rest <- conv_nodes input r ;
        Ok (nd :: rest)
  end.

(* parse_asm: impl From<pest::error::Error<Rule>> for ParseError = Lexer *)
Definition parse_nodes (input : list N) : res (list node) :=
  match parse_program input with
  | Ok (Some ps) => conv_nodes input ps
  | Ok None => err0 "Parse.Lexer"
  | Err e => Err e
  | Panic s => Panic s
  end.

(* ---------- single-file programs: the ops of a text without file directives ---------- *)
Fixpoint ops_of_nodes (nodes : list node) : res (list rawop) :=
  match nodes with
  | [] => Ok []
  | NOp a :: r => do l <- ops_of_nodes r ; Ok (ROp a :: l)
  | _ :: _ => err0 "Unsupported.FileDirective"      (* %import / %include / %include_hex: Model/Ingest.v *)
  end.

Definition conv_program (input : list N) (ps : list pair) : res (list rawop) :=
  do nodes <- conv_nodes input ps ; ops_of_nodes nodes.

Definition parse_text (input : list N) : res (list rawop) :=
  do nodes <- parse_nodes input ; ops_of_nodes nodes.

(* Ingest::ingest of one source text without file directives *)
Definition ingest_text (input : list N) : res (list N) :=
  do ops <- parse_text input ; ingest_ast ops.

(* ---------- `impl Debug` of the nodes (derived, except Expression / Terminal / Imm) ---------- *)
Definition dq (s : string) : string := """" +++ s +++ """".
Definition show_strs (l : list string) : string := "[" +++ join ", " (map dq l) +++ "]".
Definition show_imm (e : expr) : string := "Imm { tree: " +++ show_expr e +++ " }".

Fixpoint show_aop (a : aop) : string :=
  match a with
  | AOp c None => let v := r_name (from_u8 cancun c) in "Op(" +++ v +++ "(" +++ v +++ "))"
  | AOp c (Some e) =>
      let v := r_name (from_u8 cancun c) in "Op(" +++ v +++ "(" +++ v +++ "(" +++ show_imm e +++ ")))"
  | ALabel l => "Label(" +++ dq l +++ ")"
  | APush e => "Push(" +++ show_imm e +++ ")"
  | AMacro n args =>
      "Macro(InstructionMacroInvocation { name: " +++ dq n +++ ", parameters: ["
      +++ join ", " (map show_expr args) +++ "] })"
  | AMacroDefE n ps b =>
      "MacroDefinition(Expression(ExpressionMacroDefinition { name: " +++ dq n +++ ", parameters: "
      +++ show_strs ps +++ ", content: " +++ show_imm b +++ " }))"
  | AMacroDefI n ps body =>
      "MacroDefinition(Instruction(InstructionMacroDefinition { name: " +++ dq n +++ ", parameters: "
      +++ show_strs ps +++ ", contents: [" +++ join ", " (map show_aop body) +++ "] }))"
  end.

(* <str as Debug>: the ASCII part (a path holds neither a double quote nor a backslash, both are escaped all the same);
   bytes above 127 are copied: the escapes `\u{..}` that Rust prints for unprintable non-ASCII
   characters are undone by the correspondence check *)
Definition esc_char (c : ascii) : string :=
  let n := N_of_ascii c in
  if n =? 9 then "\t" else if n =? 10 then "\n" else if n =? 13 then "\r" else if n =? 0 then "\0"
  else if n =? 34 then "\""" else if n =? 92 then "\\"
  else if (n <? 32) || (n =? 127) then
    "\u{" +++ (if n <? 16 then String (hex_lower_digit n) EmptyString else hex_byte n) +++ "}"
  else String c EmptyString.
Fixpoint esc_str (s : string) : string :=
  match s with
  | EmptyString => EmptyString
  | String c r => esc_char c +++ esc_str r
  end.

Definition show_node (nd : node) : string :=
  match nd with
  | NOp a => "Op(" +++ show_aop a +++ ")"
  | NImport p => "Import(""" +++ esc_str p +++ """)"
  | NInclude p => "Include(""" +++ esc_str p +++ """)"
  | NIncludeHex p => "IncludeHex(""" +++ esc_str p +++ """)"
  end.

Definition nl : string := String (ascii_of_nat 10) EmptyString.

(* "Parse.Lexer" -> "Lexer": the first word of the Debug rendering of the ParseError *)
Definition strip_parse (k : string) : string :=
  if String.prefix "Parse." k then String.substring 6 (String.length k - 6) k else k.

(* ---------- runners: exactly what the harness prints ---------- *)
Definition show_parse_debug (r : res (list node)) : string :=
  match r with
  | Ok nodes => "ok:" +++ hex_bytes (Ingest.bytes_of_string (join nl (map show_node nodes)))
  | Err e => "err:" +++ strip_parse (e_kind e)
  | Panic s => "panic:" +++ s
  end.

(* harness command `parse_debug <src hex>` *)
Definition run_parse_debug (input : list N) : string := show_parse_debug (parse_nodes input).

Definition show_asm_text (r : res (list node)) : string :=
  match r with
  | Ok nodes =>
      match ops_of_nodes nodes with
      | Ok ops => run_asm ops
      | _ => "directive"            (* needs a file system: Model/Ingest.v; not compared *)
      end
  | Err e => show_asm_result (Err e)
  | Panic s => "panic:" +++ s
  end.

(* harness command `asm <src hex>` for a text without file directives (`directive` otherwise) *)
Definition run_asm_text (input : list N) : string := show_asm_text (parse_nodes input).

(* the three renderings of one text, parsed once: `peg` | `parse_debug` | `asm` *)
Definition run_text_all (input : list N) : string :=
  let r := parse_program input in
  let nodes := match r with
               | Ok (Some ps) => conv_nodes input ps
               | Ok None => err0 "Parse.Lexer"
               | Err e => Err e
               | Panic s => Panic s
               end in
  show_parse r +++ "|" +++ show_parse_debug nodes +++ "|" +++ show_asm_text nodes.
