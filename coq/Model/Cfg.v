(* Model/Cfg.v -- executable model of etk-analyze/src/cfg.rs: ControlFlowGraph::new,
   shallow_block / shallow_bad_jump / shallow_terminate, refine_shallow, and the node/edge
   content of render().  The SMT solver is a parameter: it maps the list of asserted formulas
   to `true` when it answers Unsat. *)
From Verif Require Import Model.Base Model.Sym Spec.SmtBv Model.Z3Tr.
Open Scope Z_scope.

(* what the graph needs from an AnnotatedBlock *)
Inductive aexit :=
| ATerminate
| AFallThrough (next : Z)
| AUnconditional (target : sexpr)
| ABranch (condition when_true : sexpr) (when_false : Z).

Record ablock := mkab { ab_off : Z; ab_jt : bool; ab_exit : aexit }.

Inductive node := NTerm | NBad | NBlock (off : Z).

Definition node_eqb (a b : node) : bool :=
  match a, b with
  | NTerm, NTerm | NBad, NBad => true
  | NBlock x, NBlock y => x =? y
  | _, _ => false
  end.

Record cfg := mkcfg { g_blocks : list ablock;            (* sorted by offset: by_offset *)
                      g_edges : list (node * node) }.    (* in insertion order *)

Definition fall_through (x : aexit) : option Z :=
  match x with AFallThrough f => Some f | ABranch _ _ f => Some f | _ => None end.

Fixpoint find_block (bs : list ablock) (off : Z) : option ablock :=
  match bs with
  | [] => None
  | b :: r => if ab_off b =? off then Some b else find_block r off
  end.

(* BTreeMap insertion; `assert_eq!(replaced, None)` on a duplicate offset *)
Fixpoint insert_sorted_block (b : ablock) (sorted : list ablock) : list ablock :=
  match sorted with
  | [] => [b]
  | x :: r => if ab_off b <? ab_off x then b :: sorted else x :: insert_sorted_block b r
  end.

Definition insert_block (b : ablock) (sorted : list ablock) : res (list ablock) :=
  if existsb (fun x => ab_off x =? ab_off b) sorted
  then Panic "ControlFlowGraph::new: duplicate block offset"
  else Ok (insert_sorted_block b sorted).

Fixpoint by_offset (blocks : list ablock) (acc : list ablock) : res (list ablock) :=
  match blocks with
  | [] => Ok acc
  | b :: r => do acc' <- insert_block b acc ; by_offset r acc'
  end.

(* edges leaving one block, in the order they are added *)
Definition block_edges (sorted : list ablock) (jump_targets : list Z) (b : ablock) : list (node * node) :=
  let from := NBlock (ab_off b) in
  let ft := fall_through (ab_exit b) in
  let ft_idx := match ft with
                | Some f => match find_block sorted f with Some _ => Some f | None => None end
                | None => None
                end in
  let ft_edges := match ft with
                  | Some f => match ft_idx with
                              | Some f' => [(from, NBlock f')]
                              | None => [(from, NTerm)]
                              end
                  | None => []
                  end in
  match ab_exit b with
  | ATerminate => ft_edges ++ [(from, NTerm)]
  | AFallThrough _ => ft_edges
  | AUnconditional _ | ABranch _ _ _ =>
      ft_edges ++ [(from, NBad)] ++
      map (fun t => (from, NBlock t))
          (filter (fun t => match ft_idx with Some f => negb (t =? f) | None => true end) jump_targets)
  end.

(* ControlFlowGraph::new *)
Definition cfg_new (blocks : list ablock) : res cfg :=
  do sorted <- by_offset blocks [] ;
  let jts := map ab_off (filter ab_jt blocks) in     (* in insertion order *)
  Ok (mkcfg sorted (concat (map (block_edges sorted jts) sorted))).

(* ---------- the queries of refine_shallow ---------- *)
Inductive query :=
| QConst (keep : bool)                (* decided without the solver *)
| QSolve (assertions : list bvform).  (* keep iff the solver does not answer Unsat *)

Definition offset_const (off : Z) : bvterm := BVal off 256.    (* BV::from_u64(offset, 256) *)
Definition zero256 : bvterm := BVal 0 256.

(* Exit::to_z3: when_true is translated before condition, sharing the fresh-constant counter *)
Inductive zexit := ZTerminate | ZFallThrough (f : Z) | ZUnconditional (u : bvterm)
                 | ZBranch (condition when_true : bvterm) (when_false : Z).

Definition exit_to_z3 (x : aexit) : res zexit :=
  match x with
  | ATerminate => Ok ZTerminate
  | AFallThrough f => Ok (ZFallThrough f)
  | AUnconditional e => do tn <- tr_sexpr_from 0 e ; Ok (ZUnconditional (fst tn))
  | ABranch c t f =>
      do tn <- tr_sexpr_from 0 t ;
      do cn <- tr_sexpr_from (snd tn) c ;
      Ok (ZBranch (fst cn) (fst tn) f)
  end.

Definition shallow_block (from to : ablock) : res query :=
  do z <- exit_to_z3 (ab_exit from) ;
  match z with
  | ZTerminate => Panic "shallow_block: unreachable!()"
  | ZFallThrough f => Ok (QConst (f =? ab_off to))
  | ZUnconditional u => Ok (QSolve [FCmp Ceq u (offset_const (ab_off to))])
  | ZBranch c t f =>
      let ast := BIte (FCmp Ceq c zero256) (offset_const f) t in
      Ok (QSolve [FCmp Ceq ast (offset_const (ab_off to))])
  end.

Definition jt_offsets (sorted : list ablock) : list Z := map ab_off (filter ab_jt sorted).

Definition shallow_bad_jump (sorted : list ablock) (from : ablock) : res query :=
  do z <- exit_to_z3 (ab_exit from) ;
  match z with
  | ZFallThrough _ => Ok (QConst false)
  | ZTerminate => Panic "shallow_bad_jump: unreachable!()"
  | ZUnconditional u =>
      Ok (QSolve (map (fun off => FNot (FCmp Ceq (offset_const off) u)) (jt_offsets sorted)))
  | ZBranch c t _ =>
      Ok (QSolve (FNot (FCmp Ceq zero256 c) ::
                  map (fun off => FNot (FCmp Ceq (offset_const off) t)) (jt_offsets sorted)))
  end.

Definition shallow_terminate (from : ablock) : res query :=
  do z <- exit_to_z3 (ab_exit from) ;
  match z with
  | ZFallThrough _ | ZTerminate => Ok (QConst true)
  | ZUnconditional _ => Panic "shallow_terminate: unreachable!()"
  | ZBranch c _ _ => Ok (QSolve [FCmp Ceq zero256 c])
  end.

Definition edge_query (sorted : list ablock) (e : node * node) : res query :=
  match fst e with
  | NBlock f =>
      match find_block sorted f with
      | Some from =>
          match snd e with
          | NBlock t => match find_block sorted t with
                        | Some to => shallow_block from to
                        | None => Panic "unwrap_block: not a block"
                        end
          | NBad => shallow_bad_jump sorted from
          | NTerm => shallow_terminate from
          end
      | None => Panic "unwrap_block: not a block"
      end
  | _ => Panic "refine: edge from a special node"
  end.

Section Refine.
  Variable solver_unsat : list bvform -> bool.      (* true = the solver answered Unsat *)

  Definition keep_of (q : query) : bool :=
    match q with QConst b => b | QSolve fs => negb (solver_unsat fs) end.

  (* refine_shallow: every edge is decided independently; an edge is dropped only on Unsat *)
  Fixpoint refine_edges (sorted : list ablock) (es : list (node * node)) : res (list (node * node)) :=
    match es with
    | [] => Ok []
    | e :: r =>
        do q <- edge_query sorted e ;
        do r' <- refine_edges sorted r ;
        Ok (if keep_of q then e :: r' else r')
    end.

  Definition refine (g : cfg) : res cfg :=
    do es <- refine_edges (g_blocks g) (g_edges g) ; Ok (mkcfg (g_blocks g) es).
End Refine.

(* ---------- rendering: node labels and edges of render() ---------- *)
Definition hex_of (z : Z) : string := hex_of_Z z.
Definition node_label (n : node) : string :=
  match n with
  | NTerm => "<terminate>"
  | NBad => "<bad-jump>"
  | NBlock off => "Offset: 0x" +++ hex_of off
  end.
Definition show_edge (e : node * node) : string := node_label (fst e) +++ " -> " +++ node_label (snd e).

(* ---------- runners ---------- *)
Definition show_cfg (r : res cfg) : string :=
  match r with
  | Ok g => "ok:" +++ join ";" (map (fun b => node_label (NBlock (ab_off b))) (g_blocks g))
            +++ "|" +++ join ";" (map show_edge (g_edges g))
  | Err e => "err:" +++ e_kind e
  | Panic s => "panic:" +++ s
  end.
Definition run_cfg_new (blocks : list ablock) : string := show_cfg (cfg_new blocks).

Definition show_query (q : res query) : string :=
  match q with
  | Ok (QConst b) => "const:" +++ show_bool b
  | Ok (QSolve fs) => "solve:" +++ join " " (map (fun f => "(assert " +++ smt_of_form f +++ ")") fs)
  | Err e => "err:" +++ e_kind e
  | Panic s => "panic:" +++ s
  end.

(* one line per edge of the initial graph: "<edge> @@ <query>" *)
Definition run_cfg_queries (blocks : list ablock) : string :=
  match cfg_new blocks with
  | Ok g => join " ;; " (map (fun e => show_edge e +++ " @@ " +++ show_query (edge_query (g_blocks g) e)) (g_edges g))
  | Err e => "err:" +++ e_kind e
  | Panic s => "panic:" +++ s
  end.
