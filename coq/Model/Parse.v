(* Model/Parse.v -- token-level model of operand-expression parsing in etk-asm:
     parse/asm.pest        rules number, binary, octal, decimal, hex, negative_decimal, label,
                           selector, topic, expression, term, operation
     parse/expression.rs   parse (pest PrecClimber), parse_radix_str, the negative_decimal arm, parse_selector
     pest-2.1.3 prec_climber.rs   climb / climb_rec
     parse/mod.rs          parse_push (range check of constant operands)
     ops.rs                Concretize for Op<Abstract> (push32)
     asm.rs                Assembler::push / backpatch_and_emit / layout / emit_bytecode (the version that decides
                           label positions by relaxation, /repo commit 8aae339 and later), restricted to programs
                           `(pc | label:)*  push32 <expr>  (pc | label:)*` where every width is fixed.
   Whitespace removal and the cutting of the text into tokens are not modelled here (the grammar is
   `expression = !{ term ~ (operation ~ term)* }` with implicit WHITESPACE = " " | "\t"); a literal token carries
   its text and is converted by this model. *)
From Verif Require Import Model.Base Model.Expr Model.ExprSimple Spec.Keccak.

(* ====================== literals ====================== *)

(* char::to_digit(radix), radix <= 36, on ASCII *)
Definition to_digit (radix : N) (c : ascii) : option N :=
  let n := N_of_ascii c in
  let d := if ((48 <=? n) && (n <=? 57))%N then Some (n - 48)%N
           else if ((97 <=? n) && (n <=? 122))%N then Some (n - 97 + 10)%N
           else if ((65 <=? n) && (n <=? 90))%N then Some (n - 65 + 10)%N
           else None in
  match d with
  | Some v => if (v <? radix)%N then Some v else None
  | None => None
  end.

(* `.chars().map(|c| c.to_digit(radix).unwrap() as u8).collect()` *)
Fixpoint digits_of (radix : N) (s : string) : res (list N) :=
  match s with
  | EmptyString => Ok []
  | String c r =>
      match to_digit radix c with
      | Some d => do ds <- digits_of radix r ; Ok (d :: ds)
      | None => Panic "to_digit(radix).unwrap()"
      end
  end.

(* num_bigint BigUint::from_radix_be(buf, radix) for 2 <= radix < 256: None when a digit is >= radix,
   otherwise the number whose big-endian base-radix digits are buf *)
Definition from_radix_be (radix : N) (ds : list N) : option N :=
  if forallb (fun d => (d <? radix)%N) ds
  then Some (fold_left (fun acc d => (acc * radix + d)%N) ds 0%N)
  else None.

(* fn parse_radix_str(s, radix): the text has no surrounding blanks (atomic rules), `.trim()` is the identity *)
Definition parse_radix_str (s : string) (radix : N) : res Z :=
  do ds <- digits_of radix s ;
  match from_radix_be radix ds with
  | Some v => Ok (Z.of_N v)
  | None => Panic "from_radix_be(..).unwrap()"
  end.

(* the Rule::negative_decimal arm: txt[1..] read as decimal digits, BigInt::from_radix_be(Sign::Minus, digits, 10);
   BigInt::from_biguint(Minus, 0) is 0 *)
Definition parse_negative_decimal (txt : string) : res Z :=
  match txt with
  | EmptyString => Panic "txt[1..]"
  | String _ digits =>
      do ds <- digits_of 10 digits ;
      match from_radix_be 10 ds with
      | Some v => Ok (- Z.of_N v)%Z
      | None => Panic "from_radix_be(..).unwrap()"
      end
  end.

(* ---------- lexing a number from the head of a text (PEG: ordered choice, greedy repetition) ---------- *)
Definition in_range (lo hi : N) (c : ascii) : bool := let n := N_of_ascii c in ((lo <=? n) && (n <=? hi))%N.
Definition is_bin_digit (c : ascii) : bool := in_range 48 49 c.
Definition is_oct_digit (c : ascii) : bool := in_range 48 55 c.
Definition is_dec_digit (c : ascii) : bool := in_range 48 57 c.
Definition is_hex_digit (c : ascii) : bool := in_range 48 57 c || in_range 97 102 c || in_range 65 70 c.
Definition is_alpha (c : ascii) : bool := in_range 97 122 c || in_range 65 90 c.
Definition is_alnum (c : ascii) : bool := is_alpha c || is_dec_digit c.

(* longest prefix of characters satisfying p, and the rest *)
Fixpoint span (p : ascii -> bool) (s : string) : string * string :=
  match s with
  | EmptyString => (EmptyString, EmptyString)
  | String c r => if p c then let (a, b) := span p r in (String c a, b) else (EmptyString, s)
  end.

Inductive numkind := KBin | KOct | KHex | KDec.
Definition radix_of (k : numkind) : N :=
  match k with KBin => 2 | KOct => 8 | KHex => 16 | KDec => 10 end%N.

(* "0b" ~ D+ / "0o" ~ D+ / "0x" ~ D ~ D+ : the digits and the unread rest *)
Definition lex_prefixed (marker : ascii) (p : ascii -> bool) (mindigits : nat) (s : string) : option (string * string) :=
  match s with
  | String "0"%char (String m r) =>
      if Ascii.eqb m marker
      then let (d, rest) := span p r in
           if Nat.leb mindigits (String.length d) then Some (d, rest) else None
      else None
  | _ => None
  end.

(* number = _{ binary | octal | hex | decimal } at the head of s: kind, digit text, unread rest *)
Definition lex_number (s : string) : option (numkind * string * string) :=
  match lex_prefixed "b" is_bin_digit 1 s with
  | Some (d, rest) => Some (KBin, d, rest)
  | None =>
  match lex_prefixed "o" is_oct_digit 1 s with
  | Some (d, rest) => Some (KOct, d, rest)
  | None =>
  match lex_prefixed "x" is_hex_digit 2 s with
  | Some (d, rest) => Some (KHex, d, rest)
  | None =>
      let (d, rest) := span is_dec_digit s in
      if Nat.leb 1 (String.length d) then Some (KDec, d, rest) else None
  end end end.

Definition lexer_error {A} : res A := err0 "Parse.Lexer".

(* A literal token is a maximal run of letters and digits that starts with a digit.  When `number`
   stops before its end (e.g. "0x1": hex needs two digits, decimal reads "0", "x1" is left), what
   follows is neither an operator, a closing parenthesis nor the end of the statement: pest rejects the
   source (ParseError::Lexer). *)
Definition lit_value (text : string) : res Z :=
  match lex_number text with
  | Some (k, d, EmptyString) => parse_radix_str d (radix_of k)
  | _ => lexer_error
  end.

(* negative_decimal = @{ "-" ~ ASCII_DIGIT+ }, the token text includes the sign *)
Definition neg_value (text : string) : res Z :=
  match text with
  | String "-"%char r =>
      match span is_dec_digit r with
      | (String _ _, EmptyString) => parse_negative_decimal text
      | _ => lexer_error
      end
  | _ => lexer_error
  end.

(* label = @{ ASCII_ALPHA ~ (ASCII_ALPHANUMERIC | "_")* } *)
Definition is_label_char (c : ascii) : bool := is_alnum c || Ascii.eqb c "_".
Definition label_ok (s : string) : bool :=
  match s with
  | String c r => is_alpha c && match span is_label_char r with (_, EmptyString) => true | _ => false end
  | EmptyString => false
  end.

(* selector_function_declaration = @{ function_name ~ "(" ~ function_parameter* ~ ("," ~ function_parameter)* ~ ")" }
   function_name = (ALPHA | "_") (ALNUM | "_")*      function_parameter = ALPHA ALNUM*
   (greedy: `function_parameter*` reads at most one parameter) *)
Fixpoint sig_params (fuel : nat) (s : string) : bool :=      (* ("," ~ function_parameter)* ~ ")" ~ end *)
  match fuel with
  | O => false
  | S f =>
      match s with
      | String ")"%char EmptyString => true
      | String ","%char (String c r) =>
          is_alpha c && sig_params f (snd (span is_alnum r))
      | _ => false
      end
  end.
Definition sig_ok (s : string) : bool :=
  match s with
  | String c r =>
      (is_alpha c || Ascii.eqb c "_") &&
      match snd (span is_label_char r) with
      | String "("%char (String c1 r1) =>
          if is_alpha c1 then sig_params (String.length r1 + 1) (snd (span is_alnum r1))
          else sig_params (String.length r1 + 2) (String c1 r1)
      | _ => false
      end
  | EmptyString => false
  end.

(* fn parse_selector(pair, size): the first `size` bytes of Keccak-256 of the signature text, big endian *)
Definition selector_value (size : nat) (sig : string) : Z :=
  Z.of_N (N_of_be (firstn size (keccak256 (bytes_of_string sig)))).
Definition selector (sig : string) : Z := selector_value 4 sig.
Definition topic (sig : string) : Z := selector_value 32 sig.

(* ====================== tokens ====================== *)

(* tokens as written: literals still carry their text *)
Inductive stok :=
| SLit (text : string)            (* binary / octal / hex / decimal *)
| SNeg (text : string)            (* negative_decimal, text starts with "-" *)
| SLabel (name : string)
| SSelector (sig : string)        (* selector("sig") *)
| STopic (sig : string)           (* topic("sig") *)
| SParen (ts : list stok)         (* "(" ~ expression ~ ")" *)
| SOp (o : binop).

(* the inner pairs of an `expression` pair, terminals already converted *)
Inductive tok :=
| TNum (z : Z)
| TLabel (name : string)
| TParen (ts : list tok)
| TOp (o : binop).

Fixpoint sequence {A} (l : list (res A)) : res (list A) :=
  match l with
  | [] => Ok []
  | x :: r => do a <- x ; do ar <- sequence r ; Ok (a :: ar)
  end.

Fixpoint lex_tok (t : stok) : res tok :=
  match t with
  | SLit text => do z <- lit_value text ; Ok (TNum z)
  | SNeg text => do z <- neg_value text ; Ok (TNum z)
  | SLabel name => if label_ok name then Ok (TLabel name) else lexer_error
  | SSelector sig => if sig_ok sig then Ok (TNum (selector sig)) else lexer_error
  | STopic sig => if sig_ok sig then Ok (TNum (topic sig)) else lexer_error
  | SParen ts => do l <- sequence (map lex_tok ts) ; Ok (TParen l)
  | SOp o => Ok (TOp o)
  end.
Definition lex_toks (ts : list stok) : res (list tok) := sequence (map lex_tok ts).

(* the grammar `term ~ (operation ~ term)*`, also inside parentheses; anything else is a ParseError::Lexer *)
Definition is_op (t : tok) : bool := match t with TOp _ => true | _ => false end.
Fixpoint shape_ok (l : list bool) : bool :=        (* l = is_op of each token *)
  match l with
  | false :: r =>
      match r with
      | [] => true
      | true :: r' => shape_ok r'
      | false :: _ => false
      end
  | _ => false
  end.
Fixpoint tok_ok (t : tok) : bool :=
  match t with
  | TParen ts => shape_ok (map is_op ts) && forallb tok_ok ts
  | _ => true
  end.
Definition grammar_ok (ts : list tok) : bool := shape_ok (map is_op ts) && forallb tok_ok ts.

(* ====================== pest::prec_climber ====================== *)

(* PrecClimber::new(vec![plus | minus (Left), times | divide (Left)]): precedence = index + 1 *)
Inductive assoc := AssocLeft | AssocRight.
Definition op_prec (o : binop) : N :=
  match o with OpPlus | OpMinus => 1 | OpTimes | OpDivide => 2 end%N.
Definition op_assoc (o : binop) : assoc := AssocLeft.
Definition is_right (a : assoc) : bool := match a with AssocRight => true | AssocLeft => false end.

(* the pairs handed to `climb`, with the primaries already mapped through `primary` (= consume):
   consume is a pure function of the pair, so mapping first and climbing afterwards gives the same
   result as mapping on demand *)
Inductive item (A : Type) := IPrim (a : A) | IOp (o : binop).
Arguments IPrim {A} a.
Arguments IOp {A} o.

(* `primary` applied to an operator pair reaches `_ => unreachable!()` in consume *)
Definition primary (it : item expr) : res expr :=
  match it with
  | IPrim e => Ok e
  | IOp _ => Panic "unreachable (consume on an operator pair)"
  end.

(* fn climb_rec(lhs, min_prec, pairs: &mut Peekable): returns the tree and the unread pairs.
   climb_rec is the outer `while`, climb_inner the inner `while`; one unit of fuel per loop iteration or call. *)
Fixpoint climb_rec (fuel : nat) (lhs : expr) (min_prec : N) (its : list (item expr)) : res (expr * list (item expr)) :=
  match fuel with
  | O => Panic "diverges"
  | S f =>
      match its with
      | [] => Ok (lhs, [])                                  (* pairs.peek().is_some() fails *)
      | IPrim _ :: _ => Ok (lhs, its)                       (* self.ops.get(&rule) = None: break *)
      | IOp o :: rest =>
          let prec := op_prec o in
          if (min_prec <=? prec)%N then
            match rest with                                 (* let op = pairs.next().unwrap() *)
            | [] => Panic "infix operator must be followed by a primary expression"
            | p :: rest' =>
                do rhs <- primary p ;
                do rr <- climb_inner f rhs prec rest' ;
                climb_rec f (mk_binop o lhs (fst rr)) min_prec (snd rr)     (* lhs = infix(lhs, op, rhs) *)
            end
          else Ok (lhs, its)
      end
  end
with climb_inner (fuel : nat) (rhs : expr) (prec : N) (its : list (item expr)) : res (expr * list (item expr)) :=
  match fuel with
  | O => Panic "diverges"
  | S f =>
      match its with
      | IOp o :: _ =>
          let new_prec := op_prec o in
          if ((prec <? new_prec)%N || (is_right (op_assoc o) && (new_prec =? prec)%N))%bool then
            do rr <- climb_rec f rhs new_prec its ;
            climb_inner f (fst rr) prec (snd rr)
          else Ok (rhs, its)
      | _ => Ok (rhs, its)
      end
  end.

(* fn climb(pairs, primary, infix); fuel = number of pairs *)
Definition climb (its : list (item expr)) : res expr :=
  match its with
  | [] => Panic "precedence climbing requires a non-empty Pairs"
  | p :: rest =>
      do lhs <- primary p ;
      do r <- climb_rec (length its) lhs 0%N rest ;
      Ok (fst r)
  end.

(* fn consume(pair, climber): Rule::expression => climber.climb(pair.into_inner(), ..).
   Note: the parser never builds `Expression::Expression` (EParen); a parenthesised sub-expression
   becomes the sub-tree itself. *)
Fixpoint consume (t : tok) : res (item expr) :=
  match t with
  | TNum z => Ok (IPrim (ENum z))
  | TLabel l => Ok (IPrim (ELabel l))
  | TOp o => Ok (IOp o)
  | TParen ts => do its <- sequence (map consume ts) ; do e <- climb its ; Ok (IPrim e)
  end.
Definition parse_toks (ts : list tok) : res expr :=
  do its <- sequence (map consume ts) ; climb its.

(* AsmParser::parse (grammar) followed by expression::parse *)
Definition parse_expression (ts : list tok) : res expr :=
  if grammar_ok ts then parse_toks ts else lexer_error.

(* ====================== push32 <expr> ====================== *)

Definition two256 : Z := (2 ^ 256)%Z.

(* fn parse_push for size 32: a constant operand that does not fit is a parse error; an operand that
   cannot be evaluated yet (labels, division by zero) or is negative passes *)
Definition parse_push32 (ts : list stok) : res expr :=
  do l <- lex_toks ts ;
  do e <- parse_expression l ;
  match eval_simple no_labels e with
  | Ok v => if (two256 <=? v)%Z then err0 "Parse.ImmediateTooLarge" else Ok e
  | _ => Ok e
  end.

(* Concretize for push32: value -> 32 bytes *)
Definition concretize32 (env : string -> option Z) (e : expr) : res (list N) :=
  do v <- eval_simple env e ;
  if (v <? 0)%Z then Err (mkErr "ExpressionNegative" [dec_of_Z v])
  else
    let bytes := be_bytes (Z.to_N v) in
    if Nat.ltb 32 (length bytes) then Err (mkErr "ExpressionTooLarge" [dec_of_Z v; "push32"])
    else Ok (pad_left 32 bytes).

(* what may surround the push in the modelled programs *)
Inductive pitem := PPc | PLabel (name : string).

Definition labels_env := list (string * Z).
Definition lookup (env : labels_env) (l : string) : option Z :=
  match find (fun kv => String.eqb (fst kv) l) env with
  | Some kv => Some (snd kv)
  | None => None
  end.

(* Assembler::push on `pc` and label definitions: positions, DuplicateLabel *)
Fixpoint declare_items (its : list pitem) (pos : Z) (env : labels_env) : res (Z * labels_env) :=
  match its with
  | [] => Ok (pos, env)
  | PPc :: r => declare_items r (pos + 1)%Z env
  | PLabel l :: r =>
      match lookup env l with
      | Some _ => err1 "DuplicateLabel" l
      | None => declare_items r pos ((l, pos) :: env)
      end
  end.

Definition pc_bytes (its : list pitem) : list N :=
  flat_map (fun i => match i with PPc => [0x58%N] | PLabel _ => [] end) its.

(* insertion sort of distinct names (the harness prints the HashSet sorted) *)
Fixpoint insert_sorted (s : string) (l : list string) : list string :=
  match l with
  | [] => [s]
  | x :: r => match String.compare s x with
              | Eq => l
              | Lt => s :: l
              | Gt => x :: insert_sorted s r
              end
  end.
Definition sort_dedup (l : list string) : list string := fold_right insert_sorted [] l.

(* Assembler::assemble of  before ; push32 e ; after   (asm.rs: push, backpatch_and_emit, layout, emit_bytecode) *)
Definition declared_in (its : list pitem) (l : string) : bool :=
  existsb (fun i => match i with PLabel n => String.eqb n l | PPc => false end) its.

Definition assemble_push32 (before : list pitem) (e : expr) (after : list pitem) : res (list N) :=
  (* Assembler::push on the items before the push: DuplicateLabel *)
  do st1 <- declare_items before 0%Z [] ;
  (* Assembler::push on the push: labels of the operand that are not declared yet are remembered ... *)
  let undeclared := filter (fun l => negb (declared_in before l)) (expr_labels e) in
  (* ... and an operand that does not depend on labels is checked right away (empty label context) *)
  do _ <- match concretize32 no_labels e with
          | Ok _ => Ok tt
          | Err er => if String.eqb (e_kind er) "UnknownLabel" then Ok tt else Err er
          | Panic s => Panic s
          end ;
  (* the items after the push; layout: pc is one byte, push32 is 33 *)
  do st2 <- declare_items after (fst st1 + 33)%Z (snd st1) ;
  let env := snd st2 in
  (* backpatch_and_emit: labels never declared *)
  match filter (fun l => negb (declared_in after l)) undeclared with
  | (_ :: _) as remaining => Err (mkErr "UndeclaredLabels" [join "+" (sort_dedup remaining)])
  | [] =>
      (* emit_bytecode: concretize under the final label positions *)
      match concretize32 (lookup env) e with
      | Ok imm => Ok (pc_bytes before ++ [0x7f%N] ++ imm ++ pc_bytes after)
      | Err er =>
          if String.eqb (e_kind er) "UnknownLabel" then Err (mkErr "UndeclaredLabels" (e_args er)) else Err er
      | Panic s => Panic s
      end
  end.

(* ====================== runners (strings of the harness) ====================== *)

Definition show_asm (r : res (list N)) : string :=
  match r with
  | Ok bs => "ok:" +++ hex_bytes bs
  | Err e => "err:" +++ e_kind e +++ "(" +++ join "," (e_args e) +++ ") out=-"
  | Panic s => "panic:" +++ s
  end.

(* `asm <src>` on  before ; push32 <operand> ; after *)
Definition run_parse_eval (before : list pitem) (operand : list stok) (after : list pitem) : string :=
  show_asm (do e <- parse_push32 operand ; assemble_push32 before e after).

(* `expr_debug <src>`: Debug rendering of the operand's tree *)
Definition run_tree (operand : list stok) : string :=
  show_res show_expr (parse_push32 operand).
