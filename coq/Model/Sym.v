(* Model/Sym.v -- model of etk-dasm/src/sym.rs: symbols, prefix-encoded expressions
   (Expr { ops: Vec<Sym> }), Expr::concat and Expr::walk.  Words are Z in [0, 2^256). *)
From Verif Require Import Model.Base.
Open Scope Z_scope.

Inductive sym :=
| SConst (v : Z)            (* Sym::Const(Box<[u8;32]>) as its big-endian value *)
| SVar (n : Z)              (* Sym::Var(Var(NonZeroU16)) *)
| SAdd | SMul | SSub | SDiv | SSDiv | SMod | SSMod | SAddMod | SMulMod | SExp
| SLt | SGt | SSLt | SSGt | SEq | SAnd | SOr | SXor | SByte | SShl | SShr | SSar
| SKeccak256 | SSignExtend | SIsZero | SNot
| SCallDataLoad | SExtCodeSize | SExtCodeHash | SMLoad | SSLoad | SBalance | SBlockHash
| SAddress | SOrigin | SCaller | SCallValue | SCallDataSize | SCodeSize | SGasPrice
| SReturnDataSize | SCoinbase | STimestamp | SNumber | SDifficulty | SGasLimit | SChainId
| SSelfBalance | SBaseFee
| SGetPc (pc : Z)           (* Sym::GetPc(u16) *)
| SMSize | SGas
| SCreate | SCreate2 | SCallCode | SCall | SStaticCall | SDelegateCall.

(* Sym::children *)
Definition children (s : sym) : nat :=
  match s with
  | SAdd | SMul | SSub | SDiv | SSDiv | SMod | SSMod | SExp | SLt | SGt | SSLt | SSGt | SEq
  | SAnd | SOr | SXor | SByte | SShl | SShr | SSar | SSignExtend | SKeccak256 => 2
  | SIsZero | SNot | SCallDataLoad | SExtCodeSize | SExtCodeHash | SBlockHash | SBalance
  | SMLoad | SSLoad => 1
  | SAddress | SOrigin | SCaller | SCallValue | SCallDataSize | SCodeSize | SGasPrice
  | SReturnDataSize | SCoinbase | STimestamp | SNumber | SDifficulty | SGasLimit | SChainId
  | SSelfBalance | SBaseFee | SGetPc _ | SMSize | SGas | SConst _ | SVar _ => 0
  | SAddMod | SMulMod | SCreate => 3
  | SCreate2 => 4
  | SCall | SCallCode => 7
  | SDelegateCall | SStaticCall => 6
  end%nat.

(* Expr: the prefix (pre-order) encoding of a tree *)
Definition sexpr := list sym.

(* Expr::concat(op, args): asserts the arity, then op followed by the arguments' encodings *)
Definition sconcat (op : sym) (args : list sexpr) : res sexpr :=
  if Nat.eqb (children op) (length args) then Ok (op :: concat args)
  else Panic "Expr::concat: arity".

(* trees, for specifications and proofs *)
Inductive stree := SNode (s : sym) (args : list stree).

Fixpoint encode_tree (t : stree) : sexpr :=
  match t with
  | SNode s args => s :: concat (map encode_tree args)
  end.

(* decode one tree from the front of a prefix encoding (what Expr::inner_walk traverses).
   fuel: the length of the list suffices. *)
Fixpoint decode_tree (fuel : nat) (e : sexpr) : option (stree * sexpr) :=
  match fuel with
  | O => None
  | S f =>
      match e with
      | [] => None
      | s :: rest =>
          let fix args (k : nat) (r : sexpr) : option (list stree * sexpr) :=
            match k with
            | O => Some ([], r)
            | S k' =>
                match decode_tree f r with
                | Some (t, r') =>
                    match args k' r' with
                    | Some (ts, r'') => Some (t :: ts, r'')
                    | None => None
                    end
                | None => None
                end
            end in
          match args (children s) rest with
          | Some (ts, r) => Some (SNode s ts, r)
          | None => None
          end
      end
  end.

Definition tree_of (e : sexpr) : option stree :=
  match decode_tree (S (length e)) e with
  | Some (t, _) => Some t           (* leftovers are ignored, as Expr::walk does *)
  | None => None
  end.

(* ---------- rendering (exactly harness/src/annot.rs::show_expr) ---------- *)
Fixpoint hex_digits_fuel (fuel : nat) (n : N) (acc : string) : string :=
  match fuel with
  | O => acc
  | S f => let acc' := String (hex_lower_digit (n mod 16)) acc in
           if (n / 16 =? 0)%N then acc' else hex_digits_fuel f (n / 16)%N acc'
  end.
Definition hex_of_Z (z : Z) : string :=
  let n := Z.to_N z in hex_digits_fuel (S (N.to_nat (N.size n))) n EmptyString.

Definition sym_name (s : sym) : string :=
  match s with
  | SConst v => "c" +++ hex_of_Z v
  | SVar n => "var" +++ dec_of_Z n
  | SGetPc p => "pc" +++ dec_of_Z p
  | SAdd => "Add" | SMul => "Mul" | SSub => "Sub" | SDiv => "Div" | SSDiv => "SDiv"
  | SMod => "Mod" | SSMod => "SMod" | SAddMod => "AddMod" | SMulMod => "MulMod" | SExp => "Exp"
  | SLt => "Lt" | SGt => "Gt" | SSLt => "SLt" | SSGt => "SGt" | SEq => "Eq" | SAnd => "And"
  | SOr => "Or" | SXor => "Xor" | SByte => "Byte" | SShl => "Shl" | SShr => "Shr" | SSar => "Sar"
  | SKeccak256 => "Keccak256" | SSignExtend => "SignExtend" | SIsZero => "IsZero" | SNot => "Not"
  | SCallDataLoad => "CallDataLoad" | SExtCodeSize => "ExtCodeSize" | SExtCodeHash => "ExtCodeHash"
  | SMLoad => "MLoad" | SSLoad => "SLoad" | SBalance => "Balance" | SBlockHash => "BlockHash"
  | SAddress => "Address" | SOrigin => "Origin" | SCaller => "Caller" | SCallValue => "CallValue"
  | SCallDataSize => "CallDataSize" | SCodeSize => "CodeSize" | SGasPrice => "GasPrice"
  | SReturnDataSize => "ReturnDataSize" | SCoinbase => "Coinbase" | STimestamp => "Timestamp"
  | SNumber => "Number" | SDifficulty => "Difficulty" | SGasLimit => "GasLimit"
  | SChainId => "ChainId" | SSelfBalance => "SelfBalance" | SBaseFee => "BaseFee"
  | SMSize => "MSize" | SGas => "Gas" | SCreate => "Create" | SCreate2 => "Create2"
  | SCallCode => "CallCode" | SCall => "Call" | SStaticCall => "StaticCall"
  | SDelegateCall => "DelegateCall"
  end.

Definition is_leaf_sym (s : sym) : bool :=
  match s with SConst _ | SVar _ | SGetPc _ => true | _ => false end.

Fixpoint show_tree (t : stree) : string :=
  match t with
  | SNode s args =>
      if is_leaf_sym s then sym_name s
      else sym_name s +++ "(" +++ join "," (map show_tree args) +++ ")"
  end.

Definition show_sexpr (e : sexpr) : string :=
  match e with
  | [] => "EMPTY"
  | _ => match tree_of e with Some t => show_tree t | None => "panic:walk" end
  end.
