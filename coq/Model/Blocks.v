(* Model/Blocks.v -- executable model of etk-dasm/src/blocks/basic.rs (Separator). *)
From Verif Require Import Model.Base Model.Ops Model.Disasm.
Open Scope N_scope.

Record block := mkblock { b_off : N; b_ops : list item }.

Record sstate := mks { s_complete : list block; s_inprog : option block }.
Definition sinit : sstate := mks [] None.

Section Classify.
  (* classification of instructions; instantiated below with the Cancun table *)
  Variable is_jt : item -> bool.     (* Operation::is_jump_target *)
  Variable is_jmp : item -> bool.    (* is_jump() | is_exit() *)

  (* Separator::push *)
  Definition spush (st : sstate) (it : item) : sstate * bool :=
    if is_jt it then
      let st' := mks (match s_inprog st with
                      | Some b => s_complete st ++ [b]
                      | None => s_complete st end)
                     (Some (mkblock (i_off it) [it])) in
      (st', match s_inprog st with Some _ => true | None => false end)
    else
      let ip := match s_inprog st with
                | Some b => mkblock (b_off b) (b_ops b ++ [it])
                | None => mkblock (i_off it) [it]
                end in
      if is_jmp it then (mks (s_complete st ++ [ip]) None, true)
      else (mks (s_complete st) (Some ip), false).

  (* Separator::push_all *)
  Fixpoint spush_all (st : sstate) (its : list item) (avail : bool) : sstate * bool :=
    match its with
    | [] => (st, avail)
    | it :: r => let (st', a) := spush st it in spush_all st' r (avail || a)
    end.

  (* Separator::take *)
  Definition stake (st : sstate) : list block * sstate := (s_complete st, mks [] (s_inprog st)).

  (* Separator::finish *)
  Definition sfinish (st : sstate) : res (option block) * sstate :=
    match s_complete st with
    | [] => (Ok (s_inprog st), mks [] None)
    | _ => (Panic "not all basic blocks have been taken", st)
    end.

  Inductive sop := SPush (it : item) | SPushAll (its : list item) | STake.

  (* a history: state and the blocks delivered so far *)
  Definition sstep (acc : list block * sstate) (o : sop) : list block * sstate :=
    match o with
    | SPush it => (fst acc, fst (spush (snd acc) it))
    | SPushAll its => (fst acc, fst (spush_all (snd acc) its false))
    | STake => let (bl, st') := stake (snd acc) in (fst acc ++ bl, st')
    end.
  Definition srun (h : list sop) : list block * sstate := fold_left sstep h ([], sinit).

  (* collect everything: take, then finish *)
  Definition scollect (acc : list block * sstate) : list block :=
    let (bl, st') := stake (snd acc) in
    match fst (sfinish st') with
    | Ok (Some b) => fst acc ++ bl ++ [b]
    | _ => fst acc ++ bl
    end.

  Definition sinput (h : list sop) : list item :=
    concat (map (fun o => match o with SPush it => [it] | SPushAll its => its | STake => [] end) h).
End Classify.

(* instantiation with the generated Cancun table *)
Definition cancun_jt (it : item) : bool := r_jt (from_u8 cancun (i_code it)).
Definition cancun_jmp (it : item) : bool :=
  r_jump (from_u8 cancun (i_code it)) || r_exits (from_u8 cancun (i_code it)).

Definition block_size (b : block) : N := sumN (map (fun it => N.of_nat (length (encode_item it))) (b_ops b)).

(* ---------- runner ---------- *)
Definition show_block (b : block) : string :=
  "blk(" +++ dec_of_N (b_off b) +++ "," +++ dec_of_N (block_size b) +++ ",["
  +++ join "," (map (fun it => hex_bytes (encode_item it)) (b_ops b)) +++ "])".

Inductive stok := TP | TA (k : nat) | TT | TF.

Fixpoint run_sep (toks : list stok) (its : list item) (st : sstate) : list string :=
  match toks with
  | [] => []
  | TP :: r => match its with
               | it :: its' => let (st', a) := spush cancun_jt cancun_jmp st it in
                               ("p" +++ show_bool a) :: run_sep r its' st'
               | [] => ["bad-schedule"]
               end
  | TA k :: r => let (st', a) := spush_all cancun_jt cancun_jmp st (firstn k its) false in
                 ("a" +++ show_bool a) :: run_sep r (skipn k its) st'
  | TT :: r => let (bl, st') := stake st in
               ("t[" +++ join ";" (map show_block bl) +++ "]") :: run_sep r its st'
  | TF :: r => let (o, st') := sfinish st in
               match o with
               | Ok (Some b) => "f:" +++ show_block b
               | Ok None => "f:none"
               | Err _ => "f:err"
               | Panic s => "panic:" +++ s
               end :: run_sep r its st'
  end.
Definition run_sep_hist (its : list item) (toks : list stok) : string :=
  join " " (run_sep toks its sinit).
