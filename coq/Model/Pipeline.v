(* Model/Pipeline.v -- the analysis pipeline as ecfg runs it: Disassembler -> Separator ->
   AnnotatedBlock::annotate per block -> ControlFlowGraph::new -> refine_shallow -> render. *)
From Verif Require Import Model.Base Model.Ops Model.Disasm Model.Blocks Model.Sym Model.Annot
  Spec.SmtBv Model.Z3Tr Model.Cfg.
Open Scope Z_scope.

(* write_all(code); separator.push_all(disasm.ops()); take() ++ finish()
   (a truncated trailing push stays in the disassembler's buffer and is ignored) *)
Definition blocks_of (code : list N) : list block :=
  let its := fst (decode_all code) in
  scollect (srun cancun_jt cancun_jmp [SPushAll its]).

Definition aexit_of (x : texit) : aexit :=
  match x with
  | XTerm => ATerminate
  | XFall n => AFallThrough (Z.of_N n)
  | XJump d => AUnconditional (erase d)
  | XBranch c t f => ABranch (erase c) (erase t) (Z.of_N f)
  end.

Definition ablock_of (a : annotated) : ablock :=
  mkab (Z.of_N (an_offset a)) (an_jt a) (aexit_of (an_exit a)).

Fixpoint annotate_all (bs : list block) : res (list annotated) :=
  match bs with
  | [] => Ok []
  | b :: r => do a <- annotate (b_off b) (b_ops b) ; do rest <- annotate_all r ; Ok (a :: rest)
  end.

Section Pipeline.
  Variable solver_unsat : list bvform -> bool.

  Definition pipeline (code : list N) : res cfg :=
    do anns <- annotate_all (blocks_of code) ;
    do g <- cfg_new (map ablock_of anns) ;
    refine solver_unsat g.
End Pipeline.

(* the part that does not need the solver *)
Definition pipeline_initial (code : list N) : res cfg :=
  do anns <- annotate_all (blocks_of code) ; cfg_new (map ablock_of anns).

Definition run_pipeline_initial (code : list N) : string := show_cfg (pipeline_initial code).
Definition run_pipeline_queries (code : list N) : string :=
  match annotate_all (blocks_of code) with
  | Ok anns => run_cfg_queries (map ablock_of anns)
  | Err e => "err:" +++ e_kind e
  | Panic s => "panic:" +++ s
  end.
