(* Model/Expr.v -- operand expressions: etk-asm/src/ops/expression.rs and ops/macros.rs.
   AST, evaluation with labels / expression macros / macro variables, Expression::labels,
   replace_label, fill_variable.  Integers are unbounded (BigInt = Z). *)
From Verif Require Import Model.Base.
Open Scope Z_scope.

Inductive expr :=
| EParen (e : expr)                          (* Expression::Expression(Box<Self>) *)
| EMacro (name : string) (args : list expr)  (* Expression::Macro(invocation) *)
| ENum (z : Z)                               (* Terminal::Number *)
| ELabel (l : string)                        (* Terminal::Label *)
| EVar (v : string)                          (* Terminal::Variable *)
| EPlus (a b : expr)
| EMinus (a b : expr)
| ETimes (a b : expr)
| EDivide (a b : expr).

(* ExpressionMacroDefinition: parameters and body *)
Record emacro := mkemacro { em_params : list string; em_body : expr }.

(* what the evaluator sees of the declared macros: Some (Some d) = expression macro,
   Some None = an instruction macro of that name, None = not declared *)
Definition macro_env := string -> option (option emacro).
Definition label_env := string -> option Z.       (* None: unknown label / no position yet *)
Definition var_env := list (string * Z).          (* parameters bound to argument VALUES *)

Fixpoint lookup_var (vs : var_env) (x : string) : option Z :=
  match vs with
  | [] => None
  | (y, v) :: r => if String.eqb y x then Some v else lookup_var r x
  end.
(* HashMap::insert of successive (name, value) pairs: a later binding of the same name wins *)
Definition bind_var (vs : var_env) (x : string) (v : Z) : var_env := (x, v) :: vs.

Definition MACRO_DEPTH_LIMIT : nat := 255.

Section Eval.
  Variable labels : label_env.
  Variable macros : macro_env.

  (* One macro-nesting level of eval_with_context.  [deeper] evaluates a macro body one level
     further down; None when ctx.depth has reached the limit. *)
  Section Level.
    Variable deeper : option (option var_env -> expr -> res Z).

    Fixpoint ev (vars : option var_env) (e : expr) {struct e} : res Z :=
      match e with
      | EParen a => ev vars a
      | ENum z => Ok z
      | ELabel l =>
          match labels l with
          | Some p => Ok p
          | None => err1 "UnknownLabel" l
          end
      | EVar x =>
          match vars with
          | Some vs => match lookup_var vs x with
                       | Some v => Ok v
                       | None => err1 "UndefinedVariable" x
                       end
          | None => err1 "UndefinedVariable" x
          end
      | EPlus a b => do x <- ev vars a ; do y <- ev vars b ; Ok (x + y)
      | EMinus a b => do x <- ev vars a ; do y <- ev vars b ; Ok (x - y)
      | ETimes a b => do x <- ev vars a ; do y <- ev vars b ; Ok (x * y)
      | EDivide a b =>
          do x <- ev vars a ; do y <- ev vars b ;
          if y =? 0 then err0 "DivisionByZero" else Ok (Z.quot x y)
      | EMacro name args =>
          match macros name with
          | Some (Some d) =>
              match deeper with
              | None => err0 "RecursionLimit"
              | Some k =>
                  (* arguments are evaluated at the call site, zipped with the parameters; then a
                     parameter left without argument is an error, used by the body or not *)
                  let fix bind (ps : list string) (az : list expr) (acc : var_env) {struct az}
                      : res var_env :=
                    match ps, az with
                    | p :: ps', a :: az' =>
                        do v <- ev vars a ; bind ps' az' (bind_var acc p v)
                    | p :: _, [] => err1 "UndefinedVariable" p   (* every parameter needs an argument *)
                    | [], _ => Ok acc                            (* surplus arguments are ignored *)
                    end in
                  do vs <- bind (em_params d) args [] ;
                  k (Some vs) (em_body d)
              end
          | _ => err1 "UnknownMacro" name
          end
      end.
  End Level.

  (* eval_with_context.  [fuel] = MACRO_DEPTH_LIMIT - ctx.depth : how many more nested macro
     bodies may be entered.  [vars = None] models ctx.variables == None. *)
  Fixpoint eval (fuel : nat) : option var_env -> expr -> res Z :=
    ev (match fuel with O => None | S f => Some (eval f) end).

  (* Expression::labels(macros): labels of the tree, of macro bodies, and of arguments *)
  Section LLevel.
    Variable deeper : option (expr -> res (list string)).

    Fixpoint lb (e : expr) {struct e} : res (list string) :=
      match e with
      | EParen a => lb a
      | ENum _ | EVar _ => Ok []
      | ELabel l => Ok [l]
      | EPlus a b | EMinus a b | ETimes a b | EDivide a b =>
          do x <- lb a ; do y <- lb b ; Ok (x ++ y)
      | EMacro name args =>
          match macros name with
          | Some (Some d) =>
              match deeper with
              | None => err0 "RecursionLimit"
              | Some k =>
                  do body <- k (em_body d) ;
                  let fix largs (az : list expr) : res (list string) :=
                    match az with
                    | [] => Ok []
                    | a :: az' => do x <- lb a ; do r <- largs az' ; Ok (x ++ r)
                    end in
                  do r <- largs args ; Ok (body ++ r)
              end
          | _ => err1 "UnknownMacro" name
          end
      end.
  End LLevel.

  Fixpoint elabels (fuel : nat) : expr -> res (list string) :=
    lb (match fuel with O => None | S f => Some (elabels f) end).
End Eval.

(* Expression::replace_label(old, new) -- after the fix: every occurrence, also inside
   parentheses and invocation arguments *)
Fixpoint replace_label (old new : string) (e : expr) : expr :=
  match e with
  | EParen a => EParen (replace_label old new a)
  | ELabel l => if String.eqb l old then ELabel new else ELabel l
  | ENum _ | EVar _ => e
  | EPlus a b => EPlus (replace_label old new a) (replace_label old new b)
  | EMinus a b => EMinus (replace_label old new a) (replace_label old new b)
  | ETimes a b => ETimes (replace_label old new a) (replace_label old new b)
  | EDivide a b => EDivide (replace_label old new a) (replace_label old new b)
  | EMacro n args => EMacro n (map (replace_label old new) args)
  end.

(* Expression::fill_variable(var, expr) *)
Fixpoint fill_variable (x : string) (by_ : expr) (e : expr) : expr :=
  match e with
  | EVar y => if String.eqb x y then by_ else e
  | EParen a => EParen (fill_variable x by_ a)
  | ENum _ | ELabel _ => e
  | EPlus a b => EPlus (fill_variable x by_ a) (fill_variable x by_ b)
  | EMinus a b => EMinus (fill_variable x by_ a) (fill_variable x by_ b)
  | ETimes a b => ETimes (fill_variable x by_ a) (fill_variable x by_ b)
  | EDivide a b => EDivide (fill_variable x by_ a) (fill_variable x by_ b)
  | EMacro n args => EMacro n (map (fill_variable x by_) args)
  end.

(* does the expression mention any label syntactically (in the tree itself)? *)
Fixpoint tree_labels (e : expr) : list string :=
  match e with
  | EParen a => tree_labels a
  | ELabel l => [l]
  | ENum _ | EVar _ => []
  | EPlus a b | EMinus a b | ETimes a b | EDivide a b => tree_labels a ++ tree_labels b
  | EMacro _ args => concat (map tree_labels args)
  end.

(* Expression::fill_variables(map): simultaneous substitution; variables inside the inserted
   expressions are left alone.  The map is the HashMap built by zip(params, args).collect():
   for a repeated parameter name the LAST pair wins. *)
Fixpoint lookup_last (vs : list (string * expr)) (x : string) : option expr :=
  match vs with
  | [] => None
  | (y, e) :: r =>
      match lookup_last r x with
      | Some e' => Some e'
      | None => if String.eqb y x then Some e else None
      end
  end.

Fixpoint fill_variables (vs : list (string * expr)) (e : expr) : expr :=
  match e with
  | EVar y => match lookup_last vs y with Some by_ => by_ | None => e end
  | EParen a => EParen (fill_variables vs a)
  | ENum _ | ELabel _ => e
  | EPlus a b => EPlus (fill_variables vs a) (fill_variables vs b)
  | EMinus a b => EMinus (fill_variables vs a) (fill_variables vs b)
  | ETimes a b => ETimes (fill_variables vs a) (fill_variables vs b)
  | EDivide a b => EDivide (fill_variables vs a) (fill_variables vs b)
  | EMacro n args => EMacro n (map (fill_variables vs) args)
  end.
