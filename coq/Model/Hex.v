(* Model/Hex.v -- executable model of etk-cli/src/io.rs: `impl Read for HexRead`, `impl Write for HexWrite`
   (and of the two functions of the `hex` crate 0.4.3 they call: `encode`, `decode_to_slice`).
   Bytes and characters are N; sizes, indices and fuel are nat.  No proofs in this file. *)
From Verif Require Import Model.Base.

(* ====================================================================== *)
(* the `hex` crate                                                         *)
(* ====================================================================== *)

(* hex::val : 'A'..='F' | 'a'..='f' | '0'..='9' *)
Definition hexval (c : N) : option N :=
  if ((65 <=? c) && (c <=? 70))%N then Some (c - 55)%N
  else if ((97 <=? c) && (c <=? 102))%N then Some (c - 87)%N
  else if ((48 <=? c) && (c <=? 57))%N then Some (c - 48)%N
  else None.

(* one character of the table "0123456789abcdef" *)
Definition hexdigit (n : N) : N := if (n <? 10)%N then (48 + n)%N else (87 + n)%N.

(* hex::encode : two lowercase characters per byte *)
Fixpoint hex_encode (bs : list N) : list N :=
  match bs with
  | [] => []
  | b :: r => hexdigit (b / 16) :: hexdigit (b mod 16) :: hex_encode r
  end.

(* hex::decode_to_slice(data, out) with out.len() == data.len()/2 (always so in HexRead).
   `i` is the index of the first character of `cs` in `data` (reported by InvalidHexCharacter). *)
Fixpoint decode_at (i : nat) (cs : list N) : res (list N) :=
  match cs with
  | [] => Ok []
  | [_] => Err (mkErr "OddLength" [])           (* data.len() % 2 != 0, checked first in the crate *)
  | a :: b :: r =>
      match hexval a with
      | None => Err (mkErr "InvalidHexCharacter" [dec_of_N a; dec_of_N (N.of_nat i)])
      | Some x =>
          match hexval b with
          | None => Err (mkErr "InvalidHexCharacter" [dec_of_N b; dec_of_N (N.of_nat (S i))])
          | Some y =>
              match decode_at (S (S i)) r with
              | Ok o => Ok ((x * 16 + y)%N :: o)      (* val(a) << 4 | val(b) *)
              | Err e => Err e
              | Panic s => Panic s
              end
          end
      end
  end.
Definition decode_to_slice (cs : list N) : res (list N) :=
  if Nat.even (length cs) then decode_at 0 cs else Err (mkErr "OddLength" []).

(* char::from(b).is_whitespace() for a byte: U+0009..U+000D, U+0020, U+0085, U+00A0 *)
Definition is_ws (c : N) : bool :=
  (((9 <=? c) && (c <=? 13)) || (c =? 32) || (c =? 133) || (c =? 160))%N.

(* ====================================================================== *)
(* the underlying reader: a text and a fragment schedule                   *)
(* ====================================================================== *)

(* r_frags: the most the reader hands out on each successive `read` call (an entry is clamped to >= 1);
   once the schedule is exhausted it hands out as much as asked.  Ok(0) only at the end of the text
   (or into an empty slice). *)
Record reader := mkrd { r_text : list N; r_frags : list nat }.

Definition rd_read (r : reader) (cap : nat) : list N * reader :=
  let want := match r_frags r with [] => cap | f :: _ => Nat.max f 1 end in
  let n := Nat.min want (Nat.min cap (length (r_text r))) in
  (firstn n (r_text r), mkrd (skipn n (r_text r)) (tl (r_frags r))).

(* ====================================================================== *)
(* HexRead                                                                 *)
(* ====================================================================== *)

Record hexread := mkhr { first_read : bool; remainder : option N }.
Definition hr_new : hexread := mkhr true None.

(* file.read(&mut hexbuffer[at..]) having returned `data`: the buffer afterwards *)
Definition blit (hb : list N) (at_ : nat) (data : list N) : list N :=
  firstn at_ hb ++ data ++ skipn (at_ + length data) hb.

(* b"0x" == &hexbuffer[..2]   (only evaluated with 2 <= available <= hexbuffer.len()) *)
Definition is_0x (hb : list N) : bool :=
  match hb with
  | a :: b :: _ => ((a =? 48) && (b =? 120))%N
  | _ => false
  end.

(* the `if self.first_read && available >= 2 { ... }` block: new (hexbuffer, available, first_read) *)
Definition prefix_step (hb : list N) (avail : nat) (fr : bool) : list N * nat * bool :=
  if fr && (2 <=? avail)%nat then
    if is_0x hb then
      (if (2 <? length hb)%nat then skipn 2 hb else hb,      (* the slice is advanced ONLY IF len > 2 *)
       avail - 2, false)
    else (hb, avail, false)
  else (hb, avail, fr).

Record loopout := mklo { lo_hb : list N; lo_avail : nat; lo_fr : bool; lo_eof : bool; lo_rd : reader }.

(* the `loop { ... }` of HexRead::read.  Every iteration that does not leave the loop has read at least
   one character (eof = false), so `length (r_text r) + 2` units of fuel are never used up. *)
Fixpoint hr_loop (fuel : nat) (hb : list N) (avail : nat) (fr : bool) (r : reader) : res loopout :=
  match fuel with
  | O => Panic "diverges"
  | S f =>
      if (length hb <? avail)%nat then Panic "range start index out of range for slice"
      else
        let dr := rd_read r (length hb - avail) in          (* self.file.read(&mut hexbuffer[available..])? *)
        let data := fst dr in
        let eof := Nat.eqb (length data) 0 in
        let hb1 := blit hb avail data in
        let avail1 := avail + length data in
        let ps := prefix_step hb1 avail1 fr in
        let hb2 := fst (fst ps) in
        let avail2 := snd (fst ps) in
        let fr2 := snd ps in
        if eof || (1 <? avail2)%nat then Ok (mklo hb2 avail2 fr2 eof (snd dr))
        else hr_loop f hb2 avail2 fr2 (snd dr)
  end.

Definition err_invalid_data (inner : err) : err := mkErr "InvalidData" (e_kind inner :: e_args inner).

(* one call of HexRead::read with a caller buffer of n bytes: (result, new state, reader afterwards).
   Ok out stands for Ok(out.len()) with `out` stored at the start of the caller's buffer. *)
Definition hr_read (st : hexread) (r : reader) (n : nat) : res (list N) * hexread * reader :=
  if Nat.eqb n 0 then (Ok [], st, r)                               (* buffer.is_empty() *)
  else
    let hb0 := match remainder st with
               | Some c => c :: repeat 0%N (2 * n)                 (* vec![0; 1 + 2n]; hexbuffer[0] = remainder *)
               | None => repeat 0%N (2 * n)
               end in
    let avail0 := match remainder st with Some _ => 1 | None => 0 end in
    match hr_loop (length (r_text r) + 2) hb0 avail0 (first_read st) r with
    | Panic s => (Panic s, st, r)
    | Err e => (Err e, st, r)
    | Ok lo =>
        let hb := lo_hb lo in
        let avail := lo_avail lo in
        let st1 := mkhr (lo_fr lo) (remainder st) in
        if lo_eof lo && Nat.eqb avail 1 then
          if is_ws (nth 0 hb 0%N) then (Ok [], st1, lo_rd lo)      (* available = 0; then `0 == available` *)
          else (Err (err_invalid_data (mkErr "OddLength" [])), st1, lo_rd lo)
        else
          let rem' := if Nat.even avail then None else Some (nth (avail - 1) hb 0%N) in
          let avail' := if Nat.even avail then avail else avail - 1 in
          let st2 := mkhr (lo_fr lo) rem' in
          if Nat.eqb avail' 0 then (Ok [], st2, lo_rd lo)
          else if (n <? Nat.div2 avail')%nat                        (* &mut buffer[..out_sz] *)
          then (Panic "range end index out of range for slice", st2, lo_rd lo)
          else
            match decode_to_slice (firstn avail' hb) with
            | Ok out => (Ok out, st2, lo_rd lo)
            | Err e => (Err (err_invalid_data e), st2, lo_rd lo)
            | Panic s => (Panic s, st2, lo_rd lo)
            end
    end.

(* read until the first Ok(0) / Err, the i-th call (from 0) with a buffer of `bufsz i` bytes.
   A call that does not end the stream delivers at least one byte, i.e. uses up at least two characters,
   so `length text + 2` units of fuel are never used up (EndLivelock is unreachable). *)
Inductive hend := EndEof | EndErr (e : err) | EndPanic (s : string) | EndLivelock.

Fixpoint hr_drive (fuel : nat) (bufsz : nat -> nat) (calls : nat) (st : hexread) (r : reader)
                  (acc : list N) : list N * hend * nat :=
  match fuel with
  | O => (acc, EndLivelock, calls)
  | S f =>
      match hr_read st r (bufsz calls) with
      | (Ok [], _, _) => (acc, EndEof, S calls)
      | (Ok out, st', r') => hr_drive f bufsz (S calls) st' r' (acc ++ out)
      | (Err e, _, _) => (acc, EndErr e, S calls)
      | (Panic s, _, _) => (acc, EndPanic s, S calls)
      end
  end.

Definition read_to_end (text : list N) (frags : list nat) (bufsz : nat -> nat) : list N * hend * nat :=
  hr_drive (length text + 2) bufsz 0 hr_new (mkrd text frags) [].

(* ====================================================================== *)
(* HexWrite                                                                *)
(* ====================================================================== *)

(* the sink accepts at most s_accept[k] characters on its k-th write call, everything once the
   schedule is exhausted *)
Record sink := mksink { s_got : list N; s_accept : list nat }.

Definition sink_accepts (s : sink) (len : nat) : nat :=
  match s_accept s with [] => len | a :: _ => Nat.min a len end.

Definition sink_write (s : sink) (data : list N) : nat * sink :=
  let n := sink_accepts s (length data) in
  (n, mksink (s_got s ++ firstn n data) (tl (s_accept s))).

(* HexWrite::write *)
Definition hw_write (s : sink) (buf : list N) : res nat * sink :=
  let w := sink_write s (hex_encode buf) in
  (if Nat.even (fst w) then Ok (Nat.div2 (fst w)) else Err (mkErr "Other" []), snd w).

(* std::io::Write::write_all: `while !buf.is_empty() { match self.write(buf) { Ok(0) => WriteZero,
   Ok(n) => buf = &buf[n..], Err(Interrupted) => {}, Err(e) => return Err(e) } }`.
   HexWrite::write never returns Interrupted with this sink.  Each turn drops >= 1 byte of buf. *)
Fixpoint hw_write_all (fuel : nat) (s : sink) (buf : list N) : res unit * sink :=
  match buf with
  | [] => (Ok tt, s)
  | _ =>
      match fuel with
      | O => (Panic "diverges", s)
      | S f =>
          match hw_write s buf with
          | (Ok O, s') => (Err (mkErr "WriteZero" []), s')
          | (Ok n, s') => if (length buf <? n)%nat then (Panic "range start index out of range for slice", s')
                          else hw_write_all f s' (skipn n buf)
          | (Err e, s') => (Err e, s')
          | (Panic p, s') => (Panic p, s')
          end
      end
  end.
Definition write_all (s : sink) (buf : list N) : res unit * sink := hw_write_all (S (length buf)) s buf.

(* ====================================================================== *)
(* specification side: what a hex text denotes                             *)
(* ====================================================================== *)

(* d is a sequence of pairs of hex digits (either case) denoting the bytes bs *)
Inductive hexpairs : list N -> list N -> Prop :=
| hp_nil : hexpairs [] []
| hp_cons : forall a b x y d bs, hexval a = Some x -> hexval b = Some y -> hexpairs d bs ->
            hexpairs (a :: b :: d) ((x * 16 + y)%N :: bs).

(* optional "0x", digit pairs, optionally ONE trailing whitespace character *)
Definition wellformed (text bs : list N) : Prop :=
  exists pre d ws, text = pre ++ d ++ ws /\ (pre = [] \/ pre = [48; 120]%N) /\ hexpairs d bs /\
                   (ws = [] \/ exists w, ws = [w] /\ is_ws w = true).

(* the same as a total function: (bytes of the longest well-formed digit-pair prefix, whole text well formed?) *)
Fixpoint dec_stream (s : list N) : list N * bool :=
  match s with
  | [] => ([], true)
  | [c] => ([], is_ws c)
  | a :: b :: rest =>
      match hexval a, hexval b with
      | Some x, Some y => let r := dec_stream rest in ((x * 16 + y)%N :: fst r, snd r)
      | _, _ => ([], false)
      end
  end.
Definition strip_prefix (s : list N) : list N :=
  match s with
  | a :: b :: rest => if ((a =? 48) && (b =? 120))%N then rest else s
  | _ => s
  end.
Definition spec_text (s : list N) : list N * bool := dec_stream (strip_prefix s).

(* ====================================================================== *)
(* runners: exactly the strings the harness prints                         *)
(* ====================================================================== *)

Definition hex_dash (bs : list N) : string := match bs with [] => "-" | _ => hex_bytes bs end.

Definition show_ioerr (e : err) : string :=
  "err(" +++ e_kind e +++ ":" +++
  match e_args e with
  | [] => "-"
  | [k] => k
  | k :: args => k +++ "(" +++ join "," args +++ ")"
  end +++ ")".

(* the harness cycles through the given buffer sizes; 64 when none are given *)
Definition cyc_bufsz (bufs : list nat) (i : nat) : nat :=
  match bufs with [] => 64 | _ => nth (Nat.modulo i (length bufs)) bufs 0 end.

Definition show_nat (n : nat) : string := dec_of_N (N.of_nat n).

Definition run_hexread (text : list N) (frags : list nat) (bufs : list nat) : string :=
  match read_to_end text frags (cyc_bufsz bufs) with
  | (_, EndPanic s, _) => "panic:" +++ s
  | (out, e, calls) =>
      hex_dash out +++ " end=" +++
      match e with
      | EndEof => "eof"
      | EndErr er => show_ioerr er
      | EndPanic s => "panic:" +++ s
      | EndLivelock => "livelock"
      end +++ " calls=" +++ show_nat calls
  end.

Definition run_hexwrite (data : list N) (accept : list nat) (mode_all : bool) : string :=
  let s0 := mksink [] accept in
  if mode_all then
    match write_all s0 data with
    | (Ok _, s) => "ok(all) sink=" +++ hex_dash (s_got s)
    | (Err e, s) => show_ioerr e +++ " sink=" +++ hex_dash (s_got s)
    | (Panic p, s) => "panic:" +++ p
    end
  else
    match hw_write s0 data with
    | (Ok n, s) => "ok(" +++ show_nat n +++ ") sink=" +++ hex_dash (s_got s)
    | (Err e, s) => show_ioerr e +++ " sink=" +++ hex_dash (s_got s)
    | (Panic p, s) => "panic:" +++ p
    end.
