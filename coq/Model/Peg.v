(* Model/Peg.v -- executable model of the pest 2.1 parser generated from a grammar file.
   No proofs in this file.

   pest turns a grammar into Rust in two steps, and the model has the same two steps:

   1. pest_generator (generator.rs) compiles every rule body to calls of the ParserState
      combinators.  Rules that are not atomic are compiled by `generate_expr`, which writes a call
      of the hidden rule `skip` between the elements of every sequence and before every repetition
      after the first; `@`/`$` rules and WHITESPACE / COMMENT are compiled by
      `generate_expr_atomic`, which writes none.  `e+` has been unrolled to `e ~ e*` before
      (pest_meta optimizer/unroller.rs).  This is `elab` / `compile` below: pexpr -> rexpr, the
      implicit skips become the explicit node RSkip.
   2. the combinators (pest/src/parser_state.rs): sequence (restores the position and the token
      queue on failure), or_else, optional, repeat, lookahead (restores the position, produces no
      tokens), atomic (sets the dynamic atomicity), rule (produces a pair unless the dynamic
      atomicity is Atomic or a lookahead is running), match_string / match_range / skip(1) /
      start_of_input / end_of_input.  This is `reval`, a plain backtracking PEG interpreter over
      rexpr with a dynamic mode.  `skip` does something only when the dynamic atomicity is NonAtomic.

   The dynamic atomicity: a normal or silent rule inherits it, `@` sets Atomic, `$` CompoundAtomic,
   `!` NonAtomic; WHITESPACE and COMMENT always run their body in Atomic.  A pair is produced by:
   a normal or `@` rule unless the atomicity AT THE CALL is Atomic; a `$` or `!` rule always (pest
   sets the atomicity before it opens the pair); a silent rule and the builtins never, except EOI,
   which is a normal rule.  (So an `@` rule hides the pairs of the normal and `@` rules under it, but
   not those of `$` / `!` rules under it -- this is what the pest code does; asm.pest has no such case.)

   Not modelled, assumed semantics preserving (and exercised by the correspondence check): the other
   optimizer passes of pest_meta (rotater = associativity, concatenator = "a" ~ "b" -> "ab" in atomic
   rules, factorizer = a ~ b | a ~ c -> a ~ (b | c), skipper = (!("x"|"y") ~ ANY)* -> skip_until in
   atomic rules), and the error reporting (attempt tracking): a failed parse is just `None`.

   Input: the UTF-8 bytes of the source.  The real parser takes a &str, i.e. valid UTF-8, and ANY
   consumes one scalar value; here ANY consumes one byte plus the continuation bytes (10xxxxxx) that
   the lead byte announces, which is the same thing on valid UTF-8.  All other terminals of the
   supported grammars are ASCII, so byte offsets = pest's byte offsets.

   Non-termination: pest's `repeat` loops forever when its body succeeds without consuming input
   (pest_meta's validator refuses such grammars, and left-recursive ones, at compile time).  The
   model answers Panic "empty repetition" for the first, and Panic "out of fuel" when the recursion
   depth (rule calls + repetition rounds) exceeds the fuel.  Proofs/PegProofs.v shows that neither
   happens for a grammar that passes `wf_grammar` below, with the fuel `enough_fuel`. *)
From Verif Require Import Model.Base Model.PegAst Gen.AsmGrammar.
Local Open Scope N_scope.

(* ---------- compiled expressions ---------- *)
Inductive rexpr :=
| RStr (s : list N)
| RRange (lo hi : N)
| RAny                      (* state.skip(1) *)
| RSoi                      (* state.start_of_input() *)
| REoi                      (* state.end_of_input() *)
| RRef (n : string)
| RSkip                     (* super::hidden::skip(state) *)
| RSeq (a b : rexpr)        (* state.sequence(a.and_then(b)) *)
| RChoice (a b : rexpr)     (* a.or_else(b) *)
| ROpt (a : rexpr)          (* state.optional(a) *)
| RStar (a : rexpr)         (* state.repeat(a) *)
| RNot (a : rexpr)          (* state.lookahead(false, a) *)
| RAnd (a : rexpr).         (* state.lookahead(true, a) *)

Definition crule := (string * modifier * rexpr)%type.
Definition cgrammar := list crule.

Definition skip_name : string := "".          (* not an identifier: cannot clash with a rule *)
Definition is_ws_rule (n : string) : bool := String.eqb n "WHITESPACE" || String.eqb n "COMMENT".

(* does generate_rule use generate_expr (true) or generate_expr_atomic (false)? *)
Definition rule_sk (n : string) (md : modifier) : bool :=
  match md with
  | MAtomic | MCompound => false
  | _ => negb (is_ws_rule n)
  end.

Definition rstar (sk : bool) (a : rexpr) : rexpr :=
  if sk then ROpt (RSeq a (RStar (RSeq RSkip a))) else RStar a.

Fixpoint elab (sk : bool) (e : pexpr) : rexpr :=
  match e with
  | PStr s => RStr s
  | PRange lo hi => RRange lo hi
  | PRef n => RRef n
  | PSeq a b => if sk then RSeq (elab sk a) (RSeq RSkip (elab sk b)) else RSeq (elab sk a) (elab sk b)
  | PChoice a b => RChoice (elab sk a) (elab sk b)
  | PStar a => rstar sk (elab sk a)
  | PPlus a => let a' := elab sk a in
               if sk then RSeq a' (RSeq RSkip (rstar sk a')) else RSeq a' (rstar sk a')
  | POpt a => ROpt (elab sk a)
  | PNot a => RNot (elab sk a)
  | PAnd a => RAnd (elab sk a)
  end.

Definition has_rule (g : grammar) (n : string) : bool :=
  existsb (fun r => String.eqb (fst (fst r)) n) g.

(* generate_skip: repeat WHITESPACE, then repeat (COMMENT then repeat WHITESPACE), or what is left of it *)
Definition skip_body (g : grammar) : rexpr :=
  match has_rule g "WHITESPACE", has_rule g "COMMENT" with
  | true, true => RSeq (RStar (RRef "WHITESPACE")) (RStar (RSeq (RRef "COMMENT") (RStar (RRef "WHITESPACE"))))
  | true, false => RStar (RRef "WHITESPACE")
  | false, true => RStar (RRef "COMMENT")
  | false, false => RStr []
  end.

(* generate_builtin_rules *)
Definition builtin_rules : cgrammar := [
  ("ANY", MSilent, RAny);
  ("SOI", MSilent, RSoi);
  ("EOI", MNormal, REoi);
  ("NEWLINE", MSilent, RChoice (RStr [10]) (RChoice (RStr [13; 10]) (RStr [13])));
  ("ASCII_DIGIT", MSilent, RRange 48 57);
  ("ASCII_BIN_DIGIT", MSilent, RRange 48 49);
  ("ASCII_OCT_DIGIT", MSilent, RRange 48 55);
  ("ASCII_HEX_DIGIT", MSilent, RChoice (RRange 48 57) (RChoice (RRange 97 102) (RRange 65 70)));
  ("ASCII_ALPHA", MSilent, RChoice (RRange 97 122) (RRange 65 90));
  ("ASCII_ALPHANUMERIC", MSilent, RChoice (RRange 97 122) (RChoice (RRange 65 90) (RRange 48 57)))
].

Definition compile_rule (r : rule) : crule :=
  let '(n, md, e) := r in (n, md, elab (rule_sk n md) e).

Definition compile (g : grammar) : cgrammar :=
  map compile_rule g ++ builtin_rules ++ [(skip_name, MSilent, skip_body g)].

Fixpoint find_rule (cg : cgrammar) (n : string) : option (modifier * rexpr) :=
  match cg with
  | [] => None
  | (n', md, e) :: r => if String.eqb n' n then Some (md, e) else find_rule r n
  end.

(* ---------- the interpreter ---------- *)
Inductive mode := NonAtomic | Atomic | CompoundAtomic.

Inductive pair := Pair (rule : string) (s e : N) (children : list pair).

(* None = the expression does not match here; Some (position after, rest of the input, pairs) *)
Definition pres := res (option (N * list N * list pair)).

Fixpoint strip_prefix (s inp : list N) : option (list N) :=
  match s, inp with
  | [], _ => Some inp
  | c :: s', b :: r => if c =? b then strip_prefix s' r else None
  | _ :: _, [] => None
  end.

(* continuation bytes announced by a UTF-8 lead byte *)
Definition utf8_extra (b : N) : nat :=
  if b <? 192 then 0%nat else if b <? 224 then 1%nat else if b <? 240 then 2%nat else 3%nat.

Fixpoint drop_cont (k : nat) (l : list N) : N * list N :=
  match k, l with
  | S k', b :: r =>
      if (128 <=? b) && (b <? 192) then let '(c, r') := drop_cont k' r in (c + 1, r') else (0, l)
  | _, _ => (0, l)
  end.

Definition inner_mode (n : string) (md : modifier) (m : mode) : mode :=
  match md with
  | MAtomic => Atomic
  | MCompound => CompoundAtomic
  | MNonAtomic => if is_ws_rule n then Atomic else NonAtomic
  | MNormal | MSilent => if is_ws_rule n then Atomic else m
  end.

Definition is_atomic (m : mode) : bool := match m with Atomic => true | _ => false end.
Definition is_nonatomic (m : mode) : bool := match m with NonAtomic => true | _ => false end.

Definition emits (md : modifier) (m : mode) : bool :=
  match md with
  | MSilent => false
  | MNormal | MAtomic => negb (is_atomic m)
  | MCompound | MNonAtomic => true
  end.

Definition call_rule (cg : cgrammar) (ev : rexpr -> mode -> N -> list N -> pres)
           (n : string) (m : mode) (pos : N) (inp : list N) : pres :=
  match find_rule cg n with
  | None => Panic "undefined rule"
  | Some (md, body) =>
      do r <- ev body (inner_mode n md m) pos inp;
      match r with
      | None => Ok None
      | Some (p', i', ch) => Ok (Some (p', i', if emits md m then [Pair n pos p' ch] else ch))
      end
  end.

(* fuel = bound on the nesting of rule calls and repetition rounds; the expression itself is
   walked by structural recursion *)
Fixpoint reval (cg : cgrammar) (fuel : nat) {struct fuel} : rexpr -> mode -> N -> list N -> pres :=
  match fuel with
  | O => fun _ _ _ _ => Panic "out of fuel"
  | S f =>
    fix go (e : rexpr) (m : mode) (pos : N) (inp : list N) {struct e} : pres :=
      match e with
      | RStr s =>
          match strip_prefix s inp with
          | Some r => Ok (Some (pos + N.of_nat (length s), r, []))
          | None => Ok None
          end
      | RRange lo hi =>
          match inp with
          | b :: r => if (lo <=? b) && (b <=? hi) then Ok (Some (pos + 1, r, [])) else Ok None
          | [] => Ok None
          end
      | RAny =>
          match inp with
          | b :: r => let '(c, r') := drop_cont (utf8_extra b) r in Ok (Some (pos + 1 + c, r', []))
          | [] => Ok None
          end
      | RSoi => if pos =? 0 then Ok (Some (pos, inp, [])) else Ok None
      | REoi => match inp with [] => Ok (Some (pos, inp, [])) | _ :: _ => Ok None end
      | RRef n => call_rule cg (reval cg f) n m pos inp
      | RSkip => if is_nonatomic m then call_rule cg (reval cg f) skip_name m pos inp
                 else Ok (Some (pos, inp, []))
      | RSeq a b =>
          do ra <- go a m pos inp;
          match ra with
          | None => Ok None
          | Some (p1, i1, t1) =>
              do rb <- go b m p1 i1;
              match rb with
              | None => Ok None
              | Some (p2, i2, t2) => Ok (Some (p2, i2, t1 ++ t2))
              end
          end
      | RChoice a b =>
          do ra <- go a m pos inp;
          match ra with
          | Some x => Ok (Some x)
          | None => go b m pos inp
          end
      | ROpt a =>
          do ra <- go a m pos inp;
          match ra with
          | Some x => Ok (Some x)
          | None => Ok (Some (pos, inp, []))
          end
      | RStar a =>
          do ra <- go a m pos inp;
          match ra with
          | None => Ok (Some (pos, inp, []))
          | Some (p1, i1, t1) =>
              if p1 =? pos then Panic "empty repetition"
              else
                do rr <- reval cg f (RStar a) m p1 i1;
                match rr with
                | None => Ok None      (* does not happen: a repetition never fails *)
                | Some (p2, i2, t2) => Ok (Some (p2, i2, t1 ++ t2))
                end
          end
      | RNot a =>
          do ra <- go a m pos inp;
          match ra with
          | Some _ => Ok None
          | None => Ok (Some (pos, inp, []))
          end
      | RAnd a =>
          do ra <- go a m pos inp;
          match ra with
          | Some _ => Ok (Some (pos, inp, []))
          | None => Ok None
          end
      end
  end.

(* ---------- grammar analysis (pest_meta validator.rs refuses the same grammars) ---------- *)
Definition mem (n : string) (l : list string) : bool := existsb (String.eqb n) l.

(* may succeed without consuming input, given the set ns of such rules (over-approximation) *)
Fixpoint nullable (ns : list string) (e : rexpr) : bool :=
  match e with
  | RStr s => match s with [] => true | _ => false end
  | RRange _ _ | RAny => false
  | RSoi | REoi => true
  | RRef n => mem n ns
  | RSkip => true
  | RSeq a b => nullable ns a && nullable ns b
  | RChoice a b => nullable ns a || nullable ns b
  | ROpt _ | RStar _ | RNot _ | RAnd _ => true
  end.

Definition null_step (cg : cgrammar) (ns : list string) : list string :=
  ns ++ map (fun r => fst (fst r))
            (filter (fun r => negb (mem (fst (fst r)) ns) && nullable ns (snd r)) cg).

Fixpoint iter {A} (n : nat) (f : A -> A) (x : A) : A :=
  match n with O => x | S k => iter k f (f x) end.

Definition null_set (cg : cgrammar) : list string := iter (length cg) (null_step cg) [].

(* rules called before any input has been consumed ("head position") *)
Fixpoint heads (ns : list string) (e : rexpr) : list string :=
  match e with
  | RRef n => [n]
  | RSkip => [skip_name]
  | RSeq a b => heads ns a ++ (if nullable ns a then heads ns b else [])
  | RChoice a b => heads ns a ++ heads ns b
  | ROpt a | RStar a | RNot a | RAnd a => heads ns a
  | _ => []
  end.

(* length of the longest chain of head calls starting at n *)
Fixpoint rank_of (cg : cgrammar) (ns : list string) (fuel : nat) (n : string) : nat :=
  match fuel with
  | O => O
  | S f =>
      match find_rule cg n with
      | None => O
      | Some (_, body) => S (fold_right Nat.max O (map (rank_of cg ns f) (heads ns body)))
      end
  end.

Definition rank_table (cg : cgrammar) (ns : list string) : list (string * nat) :=
  map (fun r => (fst (fst r), rank_of cg ns (S (length cg)) (fst (fst r)))) cg.

Fixpoint rank (tbl : list (string * nat)) (n : string) : nat :=
  match tbl with
  | [] => O
  | (n', k) :: r => if String.eqb n' n then k else rank r n
  end.

(* every reference defined, no repetition of a body that may match the empty string *)
Fixpoint ok_expr (cg : cgrammar) (ns : list string) (e : rexpr) : bool :=
  match e with
  | RRef n => match find_rule cg n with Some _ => true | None => false end
  | RSkip => match find_rule cg skip_name with Some _ => true | None => false end
  | RSeq a b | RChoice a b => ok_expr cg ns a && ok_expr cg ns b
  | RStar a => negb (nullable ns a) && ok_expr cg ns a
  | ROpt a | RNot a | RAnd a => ok_expr cg ns a
  | _ => true
  end.

Definition wf_cgrammar (cg : cgrammar) : bool :=
  let ns := null_set cg in
  let tbl := rank_table cg ns in
  forallb (fun r : crule =>
             let '(n, _, body) := r in
             ok_expr cg ns body                                                 (* defined, no e* with nullable e *)
             && implb (nullable ns body) (mem n ns)                             (* ns is closed *)
             && forallb (fun c => Nat.ltb (rank tbl c) (rank tbl n)) (heads ns body)   (* no left recursion *)
             && Nat.leb (rank tbl n) (length cg)) cg.

Definition wf_grammar (g : grammar) : bool := wf_cgrammar (compile g).

(* ---------- entry points ---------- *)
Definition peg_parse_fuel (fuel : nat) (g : grammar) (start : string) (input : list N)
  : res (option (list pair)) :=
  do r <- reval (compile g) fuel (RRef start) NonAtomic 0 input;
  Ok (match r with None => None | Some (_, _, t) => Some t end).

(* (rules + 2) nested calls for every position of the input *)
Definition enough_fuel (g : grammar) (input : list N) : nat :=
  ((length input + 1) * (length (compile g) + 2))%nat.

Definition peg_parse (g : grammar) (start : string) (input : list N) : res (option (list pair)) :=
  peg_parse_fuel (enough_fuel g input) g start input.

(* pairs.flatten(): pre-order *)
Fixpoint flatten_pair (p : pair) : list (string * N * N) :=
  match p with
  | Pair n s e ch => (n, s, e) :: flat_map flatten_pair ch
  end.

Definition show_token (t : string * N * N) : string :=
  let '(n, s, e) := t in n +++ ":" +++ dec_of_N s +++ "-" +++ dec_of_N e.

Definition show_parse (r : res (option (list pair))) : string :=
  match r with
  | Ok None => "err"
  | Ok (Some ps) =>
      match flat_map flatten_pair ps with
      | [] => "-"
      | toks => join " " (map show_token toks)
      end
  | Err e => "err:" +++ e_kind e
  | Panic s => "panic:" +++ s
  end.

(* the assembler's statement parser: AsmParser::parse(Rule::program, src), printed like the
   harness command `peg` (etk_asm::verif_parse_pairs) *)
Definition parse_program (input : list N) : res (option (list pair)) :=
  peg_parse asm_grammar "program" input.

Definition run_peg (input : list N) : string := show_parse (parse_program input).
