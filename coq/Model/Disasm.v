(* Model/Disasm.v -- executable model of etk-asm/src/disasm.rs (Disassembler, Iter::next, finish). *)
From Verif Require Import Model.Base Model.Ops.
Open Scope N_scope.

Record item := mkitem { i_off : N; i_code : N; i_imm : list N }.

Record dstate := mkd { d_buf : list N; d_off : N }.
Definition dinit : dstate := mkd [] 0.

(* total length of the instruction starting with byte c, from the Cancun table *)
Definition ilen (c : N) : nat := N.to_nat (size (from_u8 cancun c)).

(* impl Write for Disassembler *)
Definition dwrite (st : dstate) (bs : list N) : dstate := mkd (d_buf st ++ bs) (d_off st).

(* Iter::next *)
Definition dnext (st : dstate) : option item * dstate :=
  match d_buf st with
  | [] => (None, st)
  | c :: _ =>
      let len := ilen c in
      if Nat.ltb (length (d_buf st)) len then (None, st)
      else
        let ins := firstn len (d_buf st) in
        let rest := skipn len (d_buf st) in
        match from_slice cancun ins with
        | Ok (r, imm) => (Some (mkitem (d_off st) (r_code r) imm), mkd rest (d_off st + N.of_nat len))
        | _ => (None, mkd rest (d_off st))   (* `.ok()?` after the buffer was already replaced *)
        end
  end.

(* Disassembler::finish *)
Definition dfinish (st : dstate) : res unit :=
  match d_buf st with
  | [] => Ok tt
  | _ => Err (mkErr "Truncated" [dec_of_N (d_off st); hex_bytes (d_buf st)])
  end.

(* histories: any interleaving of writes and polls *)
Inductive dop := DWrite (bs : list N) | DNext.

Definition dstep (acc : list item * dstate) (o : dop) : list item * dstate :=
  match o with
  | DWrite bs => (fst acc, dwrite (snd acc) bs)
  | DNext => match dnext (snd acc) with
             | (Some it, st') => (fst acc ++ [it], st')
             | (None, st') => (fst acc, st')
             end
  end.
Definition drun (h : list dop) : list item * dstate := fold_left dstep h ([], dinit).

(* poll until None: at most one item per buffered byte *)
Fixpoint ddrain (fuel : nat) (acc : list item * dstate) : list item * dstate :=
  match fuel with
  | O => acc
  | S f => match dnext (snd acc) with
           | (Some it, st') => ddrain f (fst acc ++ [it], st')
           | (None, st') => (fst acc, st')
           end
  end.

(* ---------- specification side: decoding a whole byte string ---------- *)
Definition encode_item (it : item) : list N := i_code it :: i_imm it.
Definition flatten (its : list item) : list N := concat (map encode_item its).

Fixpoint decode_all_fuel (fuel : nat) (off : N) (bs : list N) : list item * list N :=
  match fuel with
  | O => ([], bs)
  | S f =>
      match bs with
      | [] => ([], [])
      | c :: rest =>
          let len := ilen c in
          if Nat.ltb (length bs) len then ([], bs)
          else
            let r := decode_all_fuel f (off + N.of_nat len) (skipn len bs) in
            (mkitem off c (firstn (len - 1) rest) :: fst r, snd r)
      end
  end.
Definition decode_all (bs : list N) : list item * list N := decode_all_fuel (length bs) 0 bs.

(* ---------- runner for the correspondence check ---------- *)
Definition show_item (it : item) : string :=
  "op(" +++ dec_of_N (i_off it) +++ "," +++ dec_of_N (i_code it) +++ "," +++ hex_or_dash (i_imm it) +++ ")".

Inductive htok := HW (bs : list N) | HN | HA | HF.

Fixpoint run_hist (toks : list htok) (st : dstate) : list string :=
  match toks with
  | [] => []
  | HW bs :: r => ("w" +++ dec_of_N (N.of_nat (length bs))) :: run_hist r (dwrite st bs)
  | HN :: r => match dnext st with
               | (Some it, st') => show_item it :: run_hist r st'
               | (None, st') => "none" :: run_hist r st'
               end
  | HA :: r => let d := ddrain (S (length (d_buf st))) ([], st) in
               (map show_item (fst d) ++ ["none"]) ++ run_hist r (snd d)
  | HF :: r => match dfinish st with
               | Ok _ => "fin:ok"
               | Err e => "fin:trunc(" +++ join "," (e_args e) +++ ")"
               | Panic s => "panic:" +++ s
               end :: run_hist r st
  end.
Definition run_dis_hist (toks : list htok) : string := join " " (run_hist toks dinit).
