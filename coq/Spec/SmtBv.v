(* Spec/SmtBv.v -- deep embedding of the fragment of the SMT-LIB theory FixedSizeBitVectors
   (logic QF_BV, https://smt-lib.org/theories-FixedSizeBitVectors.shtml and
   https://smt-lib.org/logics-all.shtml#QF_BV) that etk-analyze/src/sym.rs uses.  TRUSTED: this is a reading of the standard, not derived
   from /repo.  A bit-vector of width w is denoted by its unsigned value bv2nat in [0, 2^w). *)
From Coq Require Import ZArith String List Bool.
From Verif Require Import Model.Base.
Open Scope Z_scope.

Inductive binop :=
| Badd | Bsub | Bmul | Budiv | Bsdiv | Burem | Bsrem | Bsmod
| Band | Bor | Bxor | Bshl | Blshr | Bashr.
Inductive cmpop := Ceq | Cult | Cugt | Cslt | Csgt.

Inductive bvterm :=
| BVal (v w : Z)                      (* (_ bv<v> <w>) *)
| BNamed (name : string)              (* declared constant of sort (_ BitVec 256) *)
| BFresh (prefix : string) (id : nat) (* z3 fresh constant `prefix!id`, sort (_ BitVec 256) *)
| BApp (f : string) (a : bvterm)      (* uninterpreted f : (_ BitVec 256) -> (_ BitVec 256) *)
| BBin (op : binop) (a b : bvterm)
| BNot (a : bvterm)                   (* bvnot *)
| BZext (k : Z) (a : bvterm)          (* ((_ zero_extend k) a) *)
| BExtract (hi lo : Z) (a : bvterm)   (* ((_ extract hi lo) a) *)
| BConcat (a b : bvterm)              (* (concat a b): a is the most significant part *)
| BIte (c : bvform) (a b : bvterm)
with bvform :=
| FCmp (op : cmpop) (a b : bvterm)    (* =, bvult, bvugt, bvslt, bvsgt *)
| FNot (f : bvform).

(* ---------- sorts ---------- *)
Fixpoint width (t : bvterm) : Z :=
  match t with
  | BVal _ w => w
  | BNamed _ | BFresh _ _ | BApp _ _ => 256
  | BBin _ a _ | BNot a | BIte _ a _ => width a
  | BZext k a => width a + k
  | BExtract hi lo _ => hi - lo + 1
  | BConcat a b => width a + width b
  end.

(* well-sortedness, as an SMT-LIB parser checks it *)
Fixpoint wf_term (t : bvterm) : bool :=
  match t with
  | BVal v w => (0 <? w) && (0 <=? v) && (v <? 2 ^ w)
  | BNamed _ | BFresh _ _ => true
  | BApp _ a => wf_term a && (width a =? 256)
  | BBin _ a b => wf_term a && wf_term b && (width a =? width b)
  | BNot a => wf_term a
  | BZext k a => wf_term a && (0 <=? k)
  | BExtract hi lo a => wf_term a && (0 <=? lo) && (lo <=? hi) && (hi <? width a)
  | BConcat a b => wf_term a && wf_term b
  | BIte c a b => wf_form c && wf_term a && wf_term b && (width a =? width b)
  end
with wf_form (f : bvform) : bool :=
  match f with
  | FCmp _ a b => wf_term a && wf_term b && (width a =? width b)
  | FNot g => wf_form g
  end.

(* ---------- semantics of the operators on unsigned values, at width w ---------- *)
(* bvneg s = nat2bv[w](2^w - bv2nat s) *)
Definition bvneg (w a : Z) : Z := (2 ^ w - a) mod 2 ^ w.
(* bvnot: bitwise complement *)
Definition bvnot (w a : Z) : Z := 2 ^ w - 1 - a.
(* ((_ extract |w-1| |w-1|) s) = #b1 *)
Definition msb (w a : Z) : bool := 2 ^ (w - 1) <=? a.
(* bvudiv s t = if bv2nat t = 0 then all ones else bv2nat s div bv2nat t *)
Definition bvudiv (w a b : Z) : Z := if b =? 0 then 2 ^ w - 1 else a / b.
(* bvurem s t = if bv2nat t = 0 then s else bv2nat s rem bv2nat t *)
Definition bvurem (a b : Z) : Z := if b =? 0 then a else a mod b.
(* (bvsdiv s t) abbreviates (QF_BV):
     (ite (and (= ?msb_s #b0) (= ?msb_t #b0)) (bvudiv s t)
     (ite (and (= ?msb_s #b1) (= ?msb_t #b0)) (bvneg (bvudiv (bvneg s) t))
     (ite (and (= ?msb_s #b0) (= ?msb_t #b1)) (bvneg (bvudiv s (bvneg t)))
          (bvudiv (bvneg s) (bvneg t))))) *)
Definition bvsdiv (w a b : Z) : Z :=
  match msb w a, msb w b with
  | false, false => bvudiv w a b
  | true, false => bvneg w (bvudiv w (bvneg w a) b)
  | false, true => bvneg w (bvudiv w a (bvneg w b))
  | true, true => bvudiv w (bvneg w a) (bvneg w b)
  end.
(* (bvsrem s t): same case split with bvurem; the result takes the sign of the dividend:
     bvurem s t | bvneg (bvurem (bvneg s) t) | bvurem s (bvneg t) | bvneg (bvurem (bvneg s) (bvneg t)) *)
Definition bvsrem (w a b : Z) : Z :=
  match msb w a, msb w b with
  | false, false => bvurem a b
  | true, false => bvneg w (bvurem (bvneg w a) b)
  | false, true => bvurem a (bvneg w b)
  | true, true => bvneg w (bvurem (bvneg w a) (bvneg w b))
  end.
(* (bvsmod s t): sign follows the divisor.  With abs_s, abs_t and u = (bvurem abs_s abs_t):
     (ite (= u 0) u (ite (and +s +t) u (ite (and -s +t) (bvadd (bvneg u) t)
     (ite (and +s -t) (bvadd u t) (bvneg u))))) *)
Definition bvsmod (w a b : Z) : Z :=
  let abs_a := if msb w a then bvneg w a else a in
  let abs_b := if msb w b then bvneg w b else b in
  let u := bvurem abs_a abs_b in
  if u =? 0 then u else
  match msb w a, msb w b with
  | false, false => u
  | true, false => (bvneg w u + b) mod 2 ^ w
  | false, true => (u + b) mod 2 ^ w
  | true, true => bvneg w u
  end.
(* bvshl s t = nat2bv[w](bv2nat s * 2^(bv2nat t)): this is 0 as soon as bv2nat t >= w.
   bvlshr s t = nat2bv[w](bv2nat s div 2^(bv2nat t)): likewise.  The guards only keep the
   definitions computable; Proofs/Z3TrProofs.v (bvshl_literal, bvlshr_literal) shows that they agree
   with the literal formulas. *)
Definition bvshl (w a b : Z) : Z := if b <? w then (a * 2 ^ b) mod 2 ^ w else 0.
Definition bvlshr (w a b : Z) : Z := if b <? w then a / 2 ^ b else 0.
(* (bvashr s t) abbreviates
     (ite (= ((_ extract |w-1| |w-1|) s) #b0) (bvlshr s t) (bvnot (bvlshr (bvnot s) t))) *)
Definition bvashr (w a b : Z) : Z :=
  if msb w a then bvnot w (bvlshr w (bvnot w a) b) else bvlshr w a b.
(* (bvslt s t) abbreviates
     (or (and (= msb_s #b1) (= msb_t #b0)) (and (= msb_s msb_t) (bvult s t))) *)
Definition bvslt (w a b : Z) : bool :=
  (msb w a && negb (msb w b)) || (Bool.eqb (msb w a) (msb w b) && (a <? b)).

Definition bin_sem (op : binop) (w a b : Z) : Z :=
  match op with
  | Badd => (a + b) mod 2 ^ w
  | Bsub => (a - b) mod 2 ^ w          (* bvsub s t = bvadd s (bvneg t) *)
  | Bmul => (a * b) mod 2 ^ w
  | Budiv => bvudiv w a b
  | Bsdiv => bvsdiv w a b
  | Burem => bvurem a b
  | Bsrem => bvsrem w a b
  | Bsmod => bvsmod w a b
  | Band => Z.land a b
  | Bor => Z.lor a b
  | Bxor => Z.lxor a b
  | Bshl => bvshl w a b
  | Blshr => bvlshr w a b
  | Bashr => bvashr w a b
  end.

Definition cmp_sem (op : cmpop) (w a b : Z) : bool :=
  match op with
  | Ceq => a =? b
  | Cult => a <? b
  | Cugt => b <? a                     (* bvugt s t = bvult t s *)
  | Cslt => bvslt w a b
  | Csgt => bvslt w b a                (* bvsgt s t = bvslt t s *)
  end.

(* ---------- interpretations ---------- *)
(* Values are reduced modulo 2^256 by bv_eval, so any functions will do. *)
Record interp := mkInterp {
  i_named : string -> Z;
  i_fresh : nat -> Z;
  i_uf : string -> Z -> Z
}.

Fixpoint bv_eval (M : interp) (t : bvterm) : Z :=
  match t with
  | BVal v w => v mod 2 ^ w
  | BNamed s => i_named M s mod 2 ^ 256
  | BFresh _ id => i_fresh M id mod 2 ^ 256
  | BApp f a => i_uf M f (bv_eval M a) mod 2 ^ 256
  | BBin op a b => bin_sem op (width a) (bv_eval M a) (bv_eval M b)
  | BNot a => bvnot (width a) (bv_eval M a)
  | BZext _ a => bv_eval M a
  | BExtract hi lo a => (bv_eval M a / 2 ^ lo) mod 2 ^ (hi - lo + 1)
  | BConcat a b => bv_eval M a * 2 ^ width b + bv_eval M b
  | BIte c a b => if form_eval M c then bv_eval M a else bv_eval M b
  end
with form_eval (M : interp) (f : bvform) : bool :=
  match f with
  | FCmp op a b => cmp_sem op (width a) (bv_eval M a) (bv_eval M b)
  | FNot g => negb (form_eval M g)
  end.

(* ---------- concrete syntax ---------- *)
Definition binop_name (op : binop) : string :=
  match op with
  | Badd => "bvadd" | Bsub => "bvsub" | Bmul => "bvmul" | Budiv => "bvudiv" | Bsdiv => "bvsdiv"
  | Burem => "bvurem" | Bsrem => "bvsrem" | Bsmod => "bvsmod" | Band => "bvand" | Bor => "bvor"
  | Bxor => "bvxor" | Bshl => "bvshl" | Blshr => "bvlshr" | Bashr => "bvashr"
  end.
Definition cmpop_name (op : cmpop) : string :=
  match op with
  | Ceq => "=" | Cult => "bvult" | Cugt => "bvugt" | Cslt => "bvslt" | Csgt => "bvsgt"
  end.

Fixpoint smt_of_term (t : bvterm) : string :=
  match t with
  | BVal v w => "(_ bv" +++ dec_of_Z v +++ " " +++ dec_of_Z w +++ ")"
  | BNamed s => s
  | BFresh p id => p +++ "!" +++ dec_of_N (N.of_nat id)
  | BApp f a => "(" +++ f +++ " " +++ smt_of_term a +++ ")"
  | BBin op a b => "(" +++ binop_name op +++ " " +++ smt_of_term a +++ " " +++ smt_of_term b +++ ")"
  | BNot a => "(bvnot " +++ smt_of_term a +++ ")"
  | BZext k a => "((_ zero_extend " +++ dec_of_Z k +++ ") " +++ smt_of_term a +++ ")"
  | BExtract hi lo a =>
      "((_ extract " +++ dec_of_Z hi +++ " " +++ dec_of_Z lo +++ ") " +++ smt_of_term a +++ ")"
  | BConcat a b => "(concat " +++ smt_of_term a +++ " " +++ smt_of_term b +++ ")"
  | BIte c a b => "(ite " +++ smt_of_form c +++ " " +++ smt_of_term a +++ " " +++ smt_of_term b +++ ")"
  end
with smt_of_form (f : bvform) : string :=
  match f with
  | FCmp op a b => "(" +++ cmpop_name op +++ " " +++ smt_of_term a +++ " " +++ smt_of_term b +++ ")"
  | FNot g => "(not " +++ smt_of_form g +++ ")"
  end.
