(* Spec/ExprSpec.v -- what operand expressions are supposed to mean (C08), stated independently of the
   parsing algorithm of the implementation: positional value of digit strings, the textbook two-level
   reading of `term (op term)*` (products inside sums, both left associated) as a tree and as a value. *)
From Verif Require Import Model.Base Model.Expr Model.ExprSimple Model.Parse.

(* ---------- literals ---------- *)

(* d_1 ... d_n in radix r denotes  sum d_i * r^(n-i) *)
Fixpoint positional (r : N) (ds : list N) : N :=
  match ds with
  | [] => 0
  | d :: rest => d * r ^ N.of_nat (length rest) + positional r rest
  end%N.

(* c is the character of digit d (either case for the letters) *)
Definition digit_char (d : N) (c : ascii) : Prop := c = hex_lower_digit d \/ c = hex_upper_digit d.
(* cs spells the digits ds in radix r *)
Definition spells (r : N) (cs : list ascii) (ds : list N) : Prop :=
  Forall2 (fun c d => (d < r)%N /\ digit_char d c) cs ds.

Definition prefix_of (k : numkind) : string :=
  match k with KBin => "0b" | KOct => "0o" | KHex => "0x" | KDec => "" end.
Definition min_digits (k : numkind) : nat := match k with KHex => 2 | _ => 1 end.

(* ---------- the textbook reading of  term (op term)*  ---------- *)

Definition is_mul (o : binop) : bool := match o with OpTimes | OpDivide => true | _ => false end.

Fixpoint sequence_opt {A} (l : list (option A)) : option (list A) :=
  match l with
  | [] => Some []
  | x :: r => match x, sequence_opt r with Some a, Some ar => Some (a :: ar) | _, _ => None end
  end.

Section TwoLevel.
  Context {A : Type}.

  (* (op term)* as a list of pairs *)
  Fixpoint pairs_of (l : list (item A)) : option (list (binop * A)) :=
    match l with
    | [] => Some []
    | IOp o :: IPrim a :: r => option_map (cons (o, a)) (pairs_of r)
    | _ => None
    end.
  (* term (op term)* *)
  Definition split_first (l : list (item A)) : option (A * list (binop * A)) :=
    match l with
    | IPrim a :: r => option_map (pair a) (pairs_of r)
    | _ => None
    end.

  (* cut at the additive operators: the factors that still belong to the product on the left, then
     one group (additive operator, first factor, further factors) per following product *)
  Fixpoint split_sum (ps : list (binop * A)) : list (binop * A) * list (binop * (A * list (binop * A))) :=
    match ps with
    | [] => ([], [])
    | (o, a) :: r =>
        let (m, groups) := split_sum r in
        if is_mul o then ((o, a) :: m, groups) else ([], (o, (a, m)) :: groups)
    end.

  Variable combine : binop -> A -> A -> A.
  (* a product: left-to-right fold of its factors;  a sum: left-to-right fold of its products *)
  Definition fold_product (first : A) (factors : list (binop * A)) : A :=
    fold_left (fun acc p => combine (fst p) acc (snd p)) factors first.
  Definition fold_sum (first : A) (groups : list (binop * (A * list (binop * A)))) : A :=
    fold_left (fun acc g => combine (fst g) acc (fold_product (fst (snd g)) (snd (snd g)))) groups first.
  Definition two_level (l : list (item A)) : option A :=
    match split_first l with
    | Some (a, ps) => let (m0, groups) := split_sum ps in Some (fold_sum (fold_product a m0) groups)
    | None => None
    end.
End TwoLevel.

(* as a tree: operators of one level nest to the left, * and / sit below + and - ;
   a parenthesised group is read recursively and stands for its tree *)
Fixpoint reference_tok (t : tok) : option (item expr) :=
  match t with
  | TNum z => Some (IPrim (ENum z))
  | TLabel l => Some (IPrim (ELabel l))
  | TOp o => Some (IOp o)
  | TParen ts =>
      match sequence_opt (map reference_tok ts) with
      | Some its => option_map IPrim (two_level mk_binop its)
      | None => None
      end
  end.
Definition reference_parse (ts : list tok) : option expr :=
  match sequence_opt (map reference_tok ts) with
  | Some its => two_level mk_binop its
  | None => None
  end.

(* as a value: exact integer arithmetic, `/` truncating toward zero, evaluated left to right,
   the first error wins *)
Definition combine_values (o : binop) (a b : res Z) : res Z :=
  do x <- a ; do y <- b ; eval_binop o x y.

Fixpoint value_tok (env : string -> option Z) (t : tok) : option (item (res Z)) :=
  match t with
  | TNum z => Some (IPrim (Ok z))
  | TLabel l => Some (IPrim (match env l with Some p => Ok p | None => err1 "UnknownLabel" l end))
  | TOp o => Some (IOp o)
  | TParen ts =>
      match sequence_opt (map (value_tok env) ts) with
      | Some its => option_map IPrim (two_level combine_values its)
      | None => None
      end
  end.
Definition reference_value (env : string -> option Z) (ts : list tok) : option (res Z) :=
  match sequence_opt (map (value_tok env) ts) with
  | Some its => two_level combine_values its
  | None => None
  end.
