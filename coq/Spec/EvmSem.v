(* Spec/EvmSem.v -- hand-written specification of the EVM's 256-bit word operations
   (Yellow Paper appendix H.2; EIP-145 for shl/shr/sar).  TRUSTED: not derived from /repo.
   A word is a Z in [0, 2^256).  Every operation returns a word when given words. *)
From Coq Require Import ZArith Bool List.
Import ListNotations.
Open Scope Z_scope.

Definition W : Z := 2 ^ 256.
Definition wrap (z : Z) : Z := z mod W.
Definition is_word (z : Z) : Prop := 0 <= z < W.

(* two's complement reading *)
Definition to_signed (a : Z) : Z := if a <? 2 ^ 255 then a else a - W.
Definition of_signed (z : Z) : Z := wrap z.
Definition b2w (b : bool) : Z := if b then 1 else 0.

Definition evm_add (a b : Z) : Z := wrap (a + b).
Definition evm_mul (a b : Z) : Z := wrap (a * b).
Definition evm_sub (a b : Z) : Z := wrap (a - b).
Definition evm_div (a b : Z) : Z := if b =? 0 then 0 else a / b.
(* SDIV: truncated signed division; -2^255 / -1 = -2^255 (wraps) *)
Definition evm_sdiv (a b : Z) : Z :=
  if b =? 0 then 0 else of_signed (Z.quot (to_signed a) (to_signed b)).
Definition evm_mod (a b : Z) : Z := if b =? 0 then 0 else a mod b.
(* SMOD: sign of the dividend *)
Definition evm_smod (a b : Z) : Z :=
  if b =? 0 then 0 else of_signed (Z.rem (to_signed a) (to_signed b)).
(* ADDMOD / MULMOD: intermediate result not reduced modulo 2^256 *)
Definition evm_addmod (a b n : Z) : Z := if n =? 0 then 0 else (a + b) mod n.
Definition evm_mulmod (a b n : Z) : Z := if n =? 0 then 0 else (a * b) mod n.
Definition evm_exp (a b : Z) : Z := wrap (a ^ b).
(* SIGNEXTEND(b, x): extend from bit t = 8*b+7 when b < 31 *)
Definition evm_signextend (b x : Z) : Z :=
  if b <? 31 then
    let t := 8 * b + 7 in
    let low := x mod 2 ^ (t + 1) in
    if Z.testbit x t then low + (W - 2 ^ (t + 1)) else low
  else x.
Definition evm_lt (a b : Z) : Z := b2w (a <? b).
Definition evm_gt (a b : Z) : Z := b2w (b <? a).
Definition evm_slt (a b : Z) : Z := b2w (to_signed a <? to_signed b).
Definition evm_sgt (a b : Z) : Z := b2w (to_signed b <? to_signed a).
Definition evm_eq (a b : Z) : Z := b2w (a =? b).
Definition evm_iszero (a : Z) : Z := b2w (a =? 0).
Definition evm_and (a b : Z) : Z := Z.land a b.
Definition evm_or (a b : Z) : Z := Z.lor a b.
Definition evm_xor (a b : Z) : Z := Z.lxor a b.
Definition evm_not (a : Z) : Z := W - 1 - a.
(* BYTE(i, x): i-th byte counting from the most significant; 0 for i >= 32 *)
Definition evm_byte (i x : Z) : Z := if i <? 32 then (x / 2 ^ (8 * (31 - i))) mod 256 else 0.
(* SHL(shift, value) etc. *)
Definition evm_shl (s x : Z) : Z := if s <? 256 then wrap (x * 2 ^ s) else 0.
Definition evm_shr (s x : Z) : Z := if s <? 256 then x / 2 ^ s else 0.
Definition evm_sar (s x : Z) : Z :=
  if s <? 256 then of_signed (to_signed x / 2 ^ s)
  else if to_signed x <? 0 then W - 1 else 0.
