(* Spec/EvmExec.v -- reference semantics of executing the instructions of a block one by one
   on a concrete stack (Yellow Paper section 9 and appendix H; Cancun instruction set as in
   Spec/EvmOpcodes.v).  TRUSTED: hand-written, not derived from /repo.

   The stack is a list of words, head = top.  Pure operations are those of Spec/EvmSem.v.
   Everything that depends on memory, storage, the environment, the block or on other
   contracts is NOT modelled: such an instruction takes its RESULT from an oracle
   [rho : nat -> Z] indexed by the position of the instruction in the block (so every real
   EVM run is an instance: take for rho the values the run produced), and the semantics
   RECORDS the operand values the instruction received in a trace.  Instructions without
   a stack result only remove their operands.  Gas, the 1024-slot stack limit and the
   other exceptional halts (static-call violations, out-of-bounds returndatacopy, ...)
   are not modelled. *)
From Coq Require Import ZArith NArith Bool List.
From Verif Require Import Spec.EvmSem.
Import ListNotations.
Open Scope Z_scope.

(* an instruction: opcode byte and immediate bytes (pushN carries N bytes, all others none) *)
Record instr := mkinstr { opcode : N; imm : list N }.
Definition instr_size (i : instr) : Z := 1 + Z.of_nat (length (imm i)).

(* big-endian value of an immediate; the empty immediate (push0) is 0 *)
Fixpoint be_val (bs : list N) (acc : Z) : Z :=
  match bs with
  | [] => acc
  | b :: r => be_val r (acc * 256 + Z.of_N b)
  end.

(* ---------- the pure operations ---------- *)
Inductive pure_op :=
| PAdd | PMul | PSub | PDiv | PSDiv | PMod | PSMod | PAddMod | PMulMod | PExp | PSignExtend
| PLt | PGt | PSLt | PSGt | PEq | PIsZero | PAnd | POr | PXor | PNot | PByte | PShl | PShr | PSar.

Definition pure_arity (p : pure_op) : nat :=
  match p with
  | PIsZero | PNot => 1
  | PAddMod | PMulMod => 3
  | _ => 2
  end%nat.

Definition op1 (f : Z -> Z) (args : list Z) : Z := match args with [a] => f a | _ => 0 end.
Definition op2 (f : Z -> Z -> Z) (args : list Z) : Z := match args with [a; b] => f a b | _ => 0 end.
Definition op3 (f : Z -> Z -> Z -> Z) (args : list Z) : Z :=
  match args with [a; b; c] => f a b c | _ => 0 end.

(* operands in stack order: the first argument is the word that was on top *)
Definition pure_apply (p : pure_op) : list Z -> Z :=
  match p with
  | PAdd => op2 evm_add | PMul => op2 evm_mul | PSub => op2 evm_sub | PDiv => op2 evm_div
  | PSDiv => op2 evm_sdiv | PMod => op2 evm_mod | PSMod => op2 evm_smod
  | PAddMod => op3 evm_addmod | PMulMod => op3 evm_mulmod | PExp => op2 evm_exp
  | PSignExtend => op2 evm_signextend
  | PLt => op2 evm_lt | PGt => op2 evm_gt | PSLt => op2 evm_slt | PSGt => op2 evm_sgt
  | PEq => op2 evm_eq | PIsZero => op1 evm_iszero
  | PAnd => op2 evm_and | POr => op2 evm_or | PXor => op2 evm_xor | PNot => op1 evm_not
  | PByte => op2 evm_byte | PShl => op2 evm_shl | PShr => op2 evm_shr | PSar => op2 evm_sar
  end.

(* ---------- what an opcode byte does to the stack ---------- *)
Inductive kind :=
| KPure (p : pure_op)   (* removes pure_arity p operands, adds pure_apply p operands *)
| KRead (k : nat)       (* removes k operands, adds the value the world returns (oracle) *)
| KDrop (k : nat)       (* removes k operands, no stack result *)
| KPush                 (* adds the value of the immediate *)
| KPc                   (* adds the offset of this instruction *)
| KDup (n : nat)        (* n = 1..16: adds a copy of the n-th word *)
| KSwap (n : nat)       (* n = 1..16: exchanges the top with the (n+1)-th word *)
| KHalt (k : nat)       (* removes k operands and halts *)
| KJump                 (* removes the target *)
| KJumpI.               (* removes target, then condition *)

Definition kind_of (c : N) : kind :=
  match c with
  | 0x00 => KHalt 0                                                   (* STOP *)
  | 0x01 => KPure PAdd | 0x02 => KPure PMul | 0x03 => KPure PSub | 0x04 => KPure PDiv
  | 0x05 => KPure PSDiv | 0x06 => KPure PMod | 0x07 => KPure PSMod
  | 0x08 => KPure PAddMod | 0x09 => KPure PMulMod | 0x0a => KPure PExp
  | 0x0b => KPure PSignExtend
  | 0x10 => KPure PLt | 0x11 => KPure PGt | 0x12 => KPure PSLt | 0x13 => KPure PSGt
  | 0x14 => KPure PEq | 0x15 => KPure PIsZero
  | 0x16 => KPure PAnd | 0x17 => KPure POr | 0x18 => KPure PXor | 0x19 => KPure PNot
  | 0x1a => KPure PByte | 0x1b => KPure PShl | 0x1c => KPure PShr | 0x1d => KPure PSar
  | 0x20 => KRead 2                                                   (* KECCAK256: reads memory *)
  | 0x30 => KRead 0 (* ADDRESS *)     | 0x31 => KRead 1 (* BALANCE *)
  | 0x32 => KRead 0 (* ORIGIN *)      | 0x33 => KRead 0 (* CALLER *)
  | 0x34 => KRead 0 (* CALLVALUE *)   | 0x35 => KRead 1 (* CALLDATALOAD *)
  | 0x36 => KRead 0 (* CALLDATASIZE *)| 0x37 => KDrop 3 (* CALLDATACOPY *)
  | 0x38 => KRead 0 (* CODESIZE *)    | 0x39 => KDrop 3 (* CODECOPY *)
  | 0x3a => KRead 0 (* GASPRICE *)    | 0x3b => KRead 1 (* EXTCODESIZE *)
  | 0x3c => KDrop 4 (* EXTCODECOPY *) | 0x3d => KRead 0 (* RETURNDATASIZE *)
  | 0x3e => KDrop 3 (* RETURNDATACOPY *) | 0x3f => KRead 1 (* EXTCODEHASH *)
  | 0x40 => KRead 1 (* BLOCKHASH *)
  | 0x41 | 0x42 | 0x43 | 0x44 | 0x45 | 0x46 | 0x47 | 0x48 => KRead 0
      (* COINBASE TIMESTAMP NUMBER DIFFICULTY/PREVRANDAO GASLIMIT CHAINID SELFBALANCE BASEFEE *)
  | 0x49 => KRead 1 (* BLOBHASH, EIP-4844 *) | 0x4a => KRead 0 (* BLOBBASEFEE, EIP-7516 *)
  | 0x50 => KDrop 1 (* POP *)         | 0x51 => KRead 1 (* MLOAD *)
  | 0x52 => KDrop 2 (* MSTORE *)      | 0x53 => KDrop 2 (* MSTORE8 *)
  | 0x54 => KRead 1 (* SLOAD *)       | 0x55 => KDrop 2 (* SSTORE *)
  | 0x56 => KJump | 0x57 => KJumpI | 0x58 => KPc
  | 0x59 => KRead 0 (* MSIZE *)       | 0x5a => KRead 0 (* GAS *)
  | 0x5b => KDrop 0 (* JUMPDEST *)
  | 0x5c => KRead 1 (* TLOAD, EIP-1153 *) | 0x5d => KDrop 2 (* TSTORE, EIP-1153 *)
  | 0x5e => KDrop 3 (* MCOPY, EIP-5656 *)
  | 0xa0 => KDrop 2 | 0xa1 => KDrop 3 | 0xa2 => KDrop 4 | 0xa3 => KDrop 5 | 0xa4 => KDrop 6  (* LOG0..4 *)
  | 0xf0 => KRead 3 (* CREATE *)      | 0xf1 => KRead 7 (* CALL *)
  | 0xf2 => KRead 7 (* CALLCODE *)    | 0xf3 => KHalt 2 (* RETURN *)
  | 0xf4 => KRead 6 (* DELEGATECALL *)| 0xf5 => KRead 4 (* CREATE2 *)
  | 0xfa => KRead 6 (* STATICCALL *)  | 0xfd => KHalt 2 (* REVERT *)
  | 0xfe => KHalt 0 (* INVALID *)     | 0xff => KHalt 1 (* SELFDESTRUCT *)
  | _ =>
      if (0x5f <=? c)%N && (c <=? 0x7f)%N then KPush                       (* PUSH0..PUSH32 *)
      else if (0x80 <=? c)%N && (c <=? 0x8f)%N then KDup (N.to_nat (c - 0x7f))   (* DUP1..16 *)
      else if (0x90 <=? c)%N && (c <=? 0x9f)%N then KSwap (N.to_nat (c - 0x8f))  (* SWAP1..16 *)
      else KHalt 0                                  (* not an instruction: exceptional halt *)
  end%N.

(* Instructions of the Cancun fork that etk-ops/src/cancun.toml does not define (BLOBHASH,
   BLOBBASEFEE, TLOAD, TSTORE).  etk treats these bytes as undefined, i.e. as halting; the real
   machine continues.  Blocks containing one of them form the known-finding class
   KnownClass_C06_cancun_gap (KNOWN_FINDINGS.txt) and are excluded from the C06 theorem. *)
Definition cancun_only (c : N) : bool := ((c =? 0x49) || (c =? 0x4a) || (c =? 0x5c) || (c =? 0x5d))%N.
Definition KnownClass_C06_cancun_gap (ins : list instr) : Prop :=
  existsb (fun i => cancun_only (opcode i)) ins = true.

(* ---------- execution ---------- *)
Inductive transfer :=
| Halt
| Goto (target : Z)
| FallThrough (offset : Z)
| CondJump (cond target fallthrough : Z).   (* jumps to target iff cond <> 0 *)

(* (position in the block, opcode byte, operands from the top down) of every oracle instruction *)
Definition trace := list (nat * N * list Z).

Inductive outcome :=
| Underflow                                        (* the stack was too shallow at some instruction *)
| Done (stack : list Z) (t : transfer) (tr : trace).

(* the k topmost words and the rest *)
Definition take (k : nat) (s : list Z) : option (list Z * list Z) :=
  if Nat.leb k (length s) then Some (firstn k s, skipn k s) else None.

(* exchange the top with the word at depth n (n >= 1) *)
Definition swap_top (n : nat) (s : list Z) : option (list Z) :=
  match s, nth_error s n with
  | top :: _, Some deep =>
      Some (deep :: firstn (n - 1) (tl s) ++ top :: skipn (n + 1) s)
  | _, _ => None
  end.

(* idx: position of the first instruction of [ins] in the block; pc: its offset *)
Fixpoint exec (rho : nat -> Z) (idx : nat) (pc : Z) (ins : list instr) (s : list Z) (tr : trace)
  : outcome :=
  match ins with
  | [] => Done s (FallThrough pc) tr
  | i :: rest =>
      let next := exec rho (S idx) (pc + instr_size i) rest in
      match kind_of (opcode i) with
      | KPure p =>
          match take (pure_arity p) s with
          | Some (args, s') => next (pure_apply p args :: s') tr
          | None => Underflow
          end
      | KRead k =>
          match take k s with
          | Some (args, s') => next (rho idx :: s') (tr ++ [(idx, opcode i, args)])
          | None => Underflow
          end
      | KDrop k =>
          match take k s with
          | Some (_, s') => next s' tr
          | None => Underflow
          end
      | KPush => next (be_val (imm i) 0 :: s) tr
      | KPc => next (pc :: s) tr
      | KDup n =>
          match nth_error s (n - 1) with
          | Some v => next (v :: s) tr
          | None => Underflow
          end
      | KSwap n =>
          match swap_top n s with
          | Some s' => next s' tr
          | None => Underflow
          end
      | KHalt k =>
          match take k s with
          | Some (_, s') => Done s' Halt tr
          | None => Underflow
          end
      | KJump =>
          match s with
          | target :: s' => Done s' (Goto target) tr
          | _ => Underflow
          end
      | KJumpI =>
          match s with
          | target :: cond :: s' => Done s' (CondJump cond target (pc + 1)) tr
          | _ => Underflow
          end
      end
  end.

(* a block starting at [offset], entered with stack s *)
Definition exec_block (rho : nat -> Z) (offset : Z) (ins : list instr) (s : list Z) : outcome :=
  exec rho 0 offset ins s [].
