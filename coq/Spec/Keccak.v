(* Spec/Keccak.v -- Keccak-256 as used by Ethereum (the ORIGINAL Keccak submission padding,
   domain byte 0x01, not SHA3-256's 0x06): Keccak-f[1600], rate 1088 bits = 136 bytes,
   capacity 512, multi-rate padding pad10*1, 32 output bytes.

   Hand-written, trusted specification, written after "The Keccak reference" (v3.0) section 1.2:
   the state is a 5x5 array of 64-bit lanes A[x][y], stored here as a list of 25 `N`,
   lane (x,y) at index x + 5*y; lanes are little-endian in the byte string.
   The file is executable (vm_compute) and is validated by the test vectors at its end and by
   the differential run against the `sha3` crate (checks/c08.py). *)
From Coq Require Import Arith NArith String Ascii List.
Import ListNotations.
Local Open Scope N_scope.

Definition mask64 : N := 0xFFFFFFFFFFFFFFFF.

(* rotation of a 64-bit lane to the left by n < 64 bits *)
Definition rotl64 (x : N) (n : N) : N :=
  N.lor (N.land (N.shiftl x n) mask64) (N.shiftr x (64 - n)).

Definition lane (st : list N) (x y : nat) : N := nth (x + 5 * y)%nat st 0.

Definition idx5 : list nat := [0; 1; 2; 3; 4]%nat.
(* all (x,y) in storage order: index x + 5*y *)
Definition coords : list (nat * nat) :=
  flat_map (fun y => map (fun x => (x, y)) idx5) idx5.

(* theta:  C[x] = A[x,0] xor ... xor A[x,4];  D[x] = C[x-1] xor rot(C[x+1],1);  A[x,y] ^= D[x] *)
Definition theta (st : list N) : list N :=
  let C := map (fun x : nat => N.lxor (lane st x 0) (N.lxor (lane st x 1) (N.lxor (lane st x 2)
                         (N.lxor (lane st x 3) (lane st x 4))))) idx5 in
  let D := map (fun x : nat => N.lxor (nth ((x + 4) mod 5)%nat C 0) (rotl64 (nth ((x + 1) mod 5)%nat C 0) 1)) idx5 in
  map (fun xy => N.lxor (lane st (fst xy) (snd xy)) (nth (fst xy) D 0)) coords.

(* rotation offsets r[x,y], index x + 5*y *)
Definition rho_offsets : list N :=
  [ 0;  1; 62; 28; 27;
   36; 44;  6; 55; 20;
    3; 10; 43; 25; 39;
   41; 45; 15; 21;  8;
   18;  2; 61; 56; 14].

(* rho and pi:  B[y, 2x+3y] = rot(A[x,y], r[x,y]).
   Read from the destination: B[X,Y] = rot(A[x,X], r[x,X]) with x = (X + 3Y) mod 5. *)
Definition rho_pi (st : list N) : list N :=
  map (fun XY => let X := fst XY in let Y := snd XY in
                 let x := ((X + 3 * Y) mod 5)%nat in
                 rotl64 (lane st x X) (nth (x + 5 * X)%nat rho_offsets 0)) coords.

(* chi:  A[x,y] = B[x,y] xor ((not B[x+1,y]) and B[x+2,y]) *)
Definition chi (st : list N) : list N :=
  map (fun xy => let x := fst xy in let y := snd xy in
                 N.lxor (lane st x y)
                        (N.land (N.lxor (lane st ((x + 1) mod 5)%nat y) mask64)
                                (lane st ((x + 2) mod 5)%nat y))) coords.

Definition round_constants : list N :=
  [0x0000000000000001; 0x0000000000008082; 0x800000000000808A; 0x8000000080008000;
   0x000000000000808B; 0x0000000080000001; 0x8000000080008081; 0x8000000000008009;
   0x000000000000008A; 0x0000000000000088; 0x0000000080008009; 0x000000008000000A;
   0x000000008000808B; 0x800000000000008B; 0x8000000000008089; 0x8000000000008003;
   0x8000000000008002; 0x8000000000000080; 0x000000000000800A; 0x800000008000000A;
   0x8000000080008081; 0x8000000000008080; 0x0000000080000001; 0x8000000080008008].

(* iota:  A[0,0] ^= RC *)
Definition iota (rc : N) (st : list N) : list N :=
  match st with
  | a :: r => N.lxor a rc :: r
  | [] => []
  end.

Definition keccak_round (st : list N) (rc : N) : list N := iota rc (chi (rho_pi (theta st))).

(* Keccak-f[1600]: 24 rounds *)
Definition keccak_f (st : list N) : list N := fold_left keccak_round round_constants st.

(* ---- sponge ---- *)
Definition rate_bytes : nat := 136.

(* pad10*1 on bytes with the Keccak domain: append 0x01, zeros, and set the top bit of the last
   byte of the block (0x81 when a single byte is appended) *)
Definition pad_block (tail : list N) : list N :=
  let q := (rate_bytes - length tail)%nat in     (* 1 <= q <= 136 *)
  match q with
  | 1%nat => tail ++ [0x81]
  | _ => tail ++ [0x01] ++ repeat 0 (q - 2) ++ [0x80]
  end.

(* little-endian 64-bit lane of (up to) 8 bytes *)
Fixpoint le_value (bs : list N) : N :=
  match bs with
  | [] => 0
  | b :: r => b + 256 * le_value r
  end.

Fixpoint lanes_of_bytes (n : nat) (bs : list N) : list N :=
  match n with
  | O => []
  | S k => le_value (firstn 8 bs) :: lanes_of_bytes k (skipn 8 bs)
  end.

Fixpoint xor_lanes (st blk : list N) : list N :=
  match st, blk with
  | s :: sr, b :: br => N.lxor s b :: xor_lanes sr br
  | _, [] => st
  | [], _ => []
  end.

(* absorb one full 136-byte block *)
Definition absorb_block (st : list N) (blk : list N) : list N :=
  keccak_f (xor_lanes st (lanes_of_bytes 17 blk)).

(* absorb the message: full blocks while at least 136 bytes remain, then the padded tail *)
Fixpoint absorb (fuel : nat) (st : list N) (msg : list N) : list N :=
  match fuel with
  | O => st
  | S f =>
      if Nat.ltb (length msg) rate_bytes
      then absorb_block st (pad_block msg)
      else absorb f (absorb_block st (firstn rate_bytes msg)) (skipn rate_bytes msg)
  end.

Fixpoint le_bytes (n : nat) (v : N) : list N :=
  match n with
  | O => []
  | S k => (v mod 256) :: le_bytes k (v / 256)
  end.

Definition keccak256 (msg : list N) : list N :=
  let st := absorb (S (length msg / rate_bytes)) (repeat 0 25) msg in
  flat_map (le_bytes 8) (firstn 4 st).

Definition bytes_of_string (s : string) : list N := map N_of_ascii (list_ascii_of_string s).

(* ---- validation: published test vectors (Keccak team's KAT / Ethereum usage) ---- *)
Example keccak256_empty :
  keccak256 [] =
  [0xc5;0xd2;0x46;0x01;0x86;0xf7;0x23;0x3c;0x92;0x7e;0x7d;0xb2;0xdc;0xc7;0x03;0xc0;
   0xe5;0x00;0xb6;0x53;0xca;0x82;0x27;0x3b;0x7b;0xfa;0xd8;0x04;0x5d;0x85;0xa4;0x70].
Proof. vm_compute. reflexivity. Qed.

Example keccak256_abc :
  keccak256 (bytes_of_string "abc") =
  [0x4e;0x03;0x65;0x7a;0xea;0x45;0xa9;0x4f;0xc7;0xd4;0x7b;0xa8;0x26;0xc8;0xd6;0x67;
   0xc0;0xd1;0xe6;0xe3;0x3a;0x64;0xa0;0x36;0xec;0x44;0xf5;0x8f;0xa1;0x2d;0x6c;0x45].
Proof. vm_compute. reflexivity. Qed.

Example keccak256_transfer_selector :
  firstn 4 (keccak256 (bytes_of_string "transfer(address,uint256)")) = [0xa9; 0x05; 0x9c; 0xbb].
Proof. vm_compute. reflexivity. Qed.

(* topic of the same signature, from the test-suite of etk (parse/mod.rs, parse_selector) *)
Example keccak256_transfer_topic :
  keccak256 (bytes_of_string "transfer(address,uint256)") =
  [0xa9;0x05;0x9c;0xbb;0x2a;0xb0;0x9e;0xb2;0x19;0x58;0x3f;0x4a;0x59;0xa5;0xd0;0x62;
   0x3a;0xde;0x34;0x6d;0x96;0x2b;0xcd;0x4e;0x46;0xb1;0x1d;0xa0;0x47;0xc9;0x04;0x9b].
Proof. vm_compute. reflexivity. Qed.

(* messages around and beyond one 136-byte block: "f(" ++ 'a' x (n-3) ++ ")", n bytes in all;
   expected digests obtained from the `sha3` crate (0.10.1) through the harness (asm of push32 topic(..)) *)
Definition long_msg (n : nat) : list N := [102; 40] ++ repeat 97 (n - 3) ++ [41].
Example keccak256_len135 : keccak256 (long_msg 135) =
  [0x35;0xee;0xd8;0x5a;0x44;0x1e;0x31;0x01;0x1c;0x24;0xdb;0x68;0x5a;0x64;0xed;0xfa;0x0d;0x12;0x37;0xc8;0xa7;0x71;0xa4;0x93;0xd5;0xc2;0x80;0x81;0x9b;0x33;0xcf;0x92].
Proof. vm_compute. reflexivity. Qed.
Example keccak256_len136 : keccak256 (long_msg 136) =
  [0xc0;0xac;0xcd;0xe9;0x81;0x4c;0xe8;0x94;0xb2;0x1f;0x94;0x71;0x71;0x47;0xc4;0x26;0x2c;0x48;0xc9;0xde;0x2b;0x6a;0x40;0xb6;0x21;0x70;0x67;0x68;0x68;0x77;0xae;0x8f].
Proof. vm_compute. reflexivity. Qed.
Example keccak256_len137 : keccak256 (long_msg 137) =
  [0x0c;0xe1;0x5b;0x3b;0xb5;0x55;0xc8;0x3b;0x24;0xfc;0x91;0xe7;0xfb;0xa5;0x19;0x93;0x79;0xbb;0x3d;0x34;0xaa;0xfe;0xe4;0xcd;0x73;0x73;0x28;0x48;0x58;0xeb;0x90;0x89].
Proof. vm_compute. reflexivity. Qed.
Example keccak256_len272 : keccak256 (long_msg 272) =
  [0xa6;0xed;0x60;0x8a;0x5c;0xdd;0x19;0x7b;0x40;0x73;0x4e;0x0d;0x4a;0x6c;0x51;0x16;0x9a;0x54;0xbc;0x2c;0xf8;0xd6;0x04;0xef;0xe7;0x97;0x78;0x2e;0x04;0x0a;0x3d;0x5e].
Proof. vm_compute. reflexivity. Qed.
Example keccak256_len300 : keccak256 (long_msg 300) =
  [0x1f;0x97;0xd2;0xa6;0x9e;0xb8;0xd9;0xc0;0xbb;0xca;0xc3;0x13;0xa2;0xe6;0x32;0x1c;0xbe;0x56;0xaf;0xd6;0x26;0x9e;0xe3;0x43;0x52;0xb5;0x89;0xc1;0x12;0xb3;0xf2;0x36].
Proof. vm_compute. reflexivity. Qed.
