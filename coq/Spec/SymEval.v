(* Spec/SymEval.v -- what a symbolic expression tree (Model/Sym.v) denotes in a concrete execution:
   pure symbols by the EVM word semantics (Spec/EvmSem.v); entry-stack variables, environment
   words, calldataload/blockhash from the execution's environment; every node that the analysis
   leaves unconstrained -- state reads (sload, mload, gas, call results, ...) and EXP with an
   exponent that is not a literal below 2^64 -- by the word that the execution observed at
   that occurrence.  TRUSTED (specification side; does not mention z3 terms). *)
From Verif Require Import Model.Base Model.Sym Spec.EvmSem.
Open Scope Z_scope.

(* symbols that the analysis always evaluates as a function of their children's values
   (Exp is one only when its exponent is a literal, see lit64 below) *)
Definition pure_sym (s : sym) : bool :=
  match s with
  | SAdd | SMul | SSub | SDiv | SSDiv | SMod | SSMod | SAddMod | SMulMod
  | SLt | SGt | SSLt | SSGt | SEq | SAnd | SOr | SXor | SByte | SShl | SShr | SSar
  | SSignExtend | SIsZero | SNot => true
  | _ => false
  end.

(* arguments in child order = EVM stack order (first child = top of the stack) *)
Definition evm_pure (s : sym) (args : list Z) : Z :=
  let a := nth 0 args 0 in
  let b := nth 1 args 0 in
  let c := nth 2 args 0 in
  match s with
  | SAdd => evm_add a b | SMul => evm_mul a b | SSub => evm_sub a b
  | SDiv => evm_div a b | SSDiv => evm_sdiv a b | SMod => evm_mod a b | SSMod => evm_smod a b
  | SAddMod => evm_addmod a b c | SMulMod => evm_mulmod a b c | SExp => evm_exp a b
  | SLt => evm_lt a b | SGt => evm_gt a b | SSLt => evm_slt a b | SSGt => evm_sgt a b
  | SEq => evm_eq a b | SAnd => evm_and a b | SOr => evm_or a b | SXor => evm_xor a b
  | SByte => evm_byte a b | SShl => evm_shl a b | SShr => evm_shr a b | SSar => evm_sar a b
  | SSignExtend => evm_signextend a b | SIsZero => evm_iszero a | SNot => evm_not a
  | _ => 0
  end.

(* words fixed for the whole execution of a block *)
Definition env_sym (s : sym) : bool :=
  match s with
  | SAddress | SOrigin | SCaller | SCallValue | SCallDataSize | SCodeSize | SGasPrice
  | SCoinbase | STimestamp | SNumber | SDifficulty | SGasLimit | SChainId | SBaseFee => true
  | _ => false
  end.

(* nodes that read mutable state / depend on the point of execution: one observed word per occurrence *)
Definition read_sym (s : sym) : bool :=
  match s with
  | SReturnDataSize | SSelfBalance | SMSize | SGas | SKeccak256 | SExtCodeSize | SExtCodeHash
  | SMLoad | SSLoad | SBalance | SCreate | SCreate2 | SCallCode | SCall | SStaticCall
  | SDelegateCall => true
  | _ => false
  end.

(* lit64 t = Some v: the expression t is a literal word v < 2^64 for the analysis: a constant,
   a program counter, or x ** 0 (which the analysis folds to the literal 1).  An EXP node is
   evaluated as a power only when its exponent (second child) is such a literal. *)
Fixpoint lit64 (t : stree) : option Z :=
  match t with
  | SNode (SConst v) _ => if v <? 2 ^ 64 then Some v else None
  | SNode (SGetPc p) _ => if p <? 2 ^ 64 then Some p else None
  | SNode SExp [_; e] => match lit64 e with Some 0 => Some 1 | _ => None end
  | _ => None
  end.
Definition exp_is_literal (args : list stree) : bool :=
  match args with
  | [_; e] => match lit64 e with Some _ => true | None => false end
  | _ => false
  end.

Record senv := mkSenv {
  se_var : Z -> Z;            (* entry stack: Var n *)
  se_env : sym -> Z;          (* environment words, for env_sym symbols *)
  se_calldataload : Z -> Z;
  se_blockhash : Z -> Z;
  se_read : nat -> Z          (* the word observed at the k-th unconstrained node (state read, or
                                 EXP with a non-literal exponent: then a ** b), in post-order *)
}.

(* value of a node from the values of its children; the nat counts unconstrained nodes;
   lit: the node is an EXP whose exponent is a literal *)
Definition eval_node (E : senv) (s : sym) (lit : bool) (vs : list Z) (n : nat) : Z * nat :=
  match s with
  | SExp => if lit then (evm_exp (nth 0 vs 0) (nth 1 vs 0), n) else (wrap (se_read E n), S n)
  | SConst v => (wrap v, n)
  | SVar k => (wrap (se_var E k), n)
  | SGetPc p => (wrap p, n)
  | SCallDataLoad => (wrap (se_calldataload E (nth 0 vs 0)), n)
  | SBlockHash => (wrap (se_blockhash E (nth 0 vs 0)), n)
  | _ =>
      if read_sym s then (wrap (se_read E n), S n)
      else if env_sym s then (wrap (se_env E s), n)
      else (evm_pure s vs, n)
  end.

Fixpoint eval_tree (E : senv) (t : stree) (n : nat) : Z * nat :=
  match t with
  | SNode s args =>
      let fix go (l : list stree) (n : nat) : list Z * nat :=
        match l with
        | [] => ([], n)
        | x :: r =>
            let '(vx, n1) := eval_tree E x n in
            let '(vr, n2) := go r n1 in
            (vx :: vr, n2)
        end in
      let '(vs, n') := go args n in
      eval_node E s (exp_is_literal args) vs n'
  end.
Definition eval_trees (E : senv) : list stree -> nat -> list Z * nat :=
  fix go (l : list stree) (n : nat) : list Z * nat :=
    match l with
    | [] => ([], n)
    | x :: r =>
        let '(vx, n1) := eval_tree E x n in
        let '(vr, n2) := go r n1 in
        (vx :: vr, n2)
    end.
