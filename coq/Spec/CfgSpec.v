(* Spec/CfgSpec.v -- what C05 means.  TRUSTED (hand-written; mentions neither z3 nor etk's
   expressions): executions of a block under a fixed environment, and the graph node a
   control transfer leads to.

   Spec/EvmExec.v lets every state-dependent instruction take its result from an oracle rho.
   A real execution runs under ONE calldata and ONE environment, so within a block
     - ADDRESS, ORIGIN, CALLER, CALLVALUE, CALLDATASIZE, CODESIZE, GASPRICE, COINBASE,
       TIMESTAMP, NUMBER, PREVRANDAO, GASLIMIT, CHAINID, BASEFEE return the same word at
       every occurrence,
     - CALLDATALOAD and BLOCKHASH are functions of their operand,
   while everything else (memory, storage, balances, gas, return data, call results, keccak of
   memory) is unconstrained.  [consistent] says that of an oracle and the trace of the run. *)
From Coq Require Import ZArith NArith Bool List.
From Verif Require Import Spec.EvmSem Spec.EvmExec.
Import ListNotations.
Open Scope Z_scope.

Record world := mkWorld {
  wd_env : N -> Z;              (* by opcode byte *)
  wd_calldataload : Z -> Z;
  wd_blockhash : Z -> Z }.

Definition env_opcode (c : N) : bool :=
  existsb (N.eqb c) [0x30; 0x32; 0x33; 0x34; 0x36; 0x38; 0x3a; 0x41; 0x42; 0x43; 0x44; 0x45; 0x46; 0x48]%N.

Definition consistent (Wd : world) (rho : nat -> Z) (tr : trace) : Prop :=
  forall k c args, In (k, c, args) tr ->
    (env_opcode c = true -> rho k = wd_env Wd c) /\
    (c = 0x35%N -> rho k = wd_calldataload Wd (nth 0 args 0)) /\
    (c = 0x40%N -> rho k = wd_blockhash Wd (nth 0 args 0)).

(* every word on the entry stack and every word the world returns is a 256-bit word *)
Definition words (s : list Z) (rho : nat -> Z) : Prop :=
  Forall is_word s /\ forall k, is_word (rho k).

(* ---------- where a transfer leads ---------- *)
(* the graph's nodes, named as the rendering names them *)
Inductive target := TgTerminate | TgBadJump | TgBlock (offset : Z).

(* heads : offsets of all basic blocks; jumpdests : offsets of the blocks that start with JUMPDEST
   (= the valid jump destinations of the code: Separator starts a block at every JUMPDEST) *)
Definition in_list (x : Z) (l : list Z) : bool := existsb (Z.eqb x) l.

Definition fall_target (heads : list Z) (f : Z) : target :=
  if in_list f heads then TgBlock f else TgTerminate.      (* running off the end halts *)
Definition jump_target (jumpdests : list Z) (d : Z) : target :=
  if in_list d jumpdests then TgBlock d else TgBadJump.

Definition successor (heads jumpdests : list Z) (t : transfer) : target :=
  match t with
  | Halt => TgTerminate
  | FallThrough f => fall_target heads f
  | Goto d => jump_target jumpdests d
  | CondJump c d f => if c =? 0 then fall_target heads f else jump_target jumpdests d
  end.
