(* Spec/EvmOpcodes.v -- hand-written specification of the EVM instruction set per fork:
   which bytes are instructions, their stack arity (delta = items removed, alpha = items
   added, Yellow Paper appendix H; dupN / swapN counted over their whole window), which
   halt, which jump, which is the jump destination marker.
   Sources: Yellow Paper app. H; EIP-145 (shl/shr/sar), EIP-1014 (create2), EIP-1052
   (extcodehash), EIP-1344 (chainid), EIP-1884 (selfbalance), EIP-3198 (basefee),
   EIP-3855 (push0), EIP-5656 (mcopy), EIP-1153 (tload/tstore), EIP-4844 (blobhash),
   EIP-7516 (blobbasefee).  This file is TRUSTED: it is not derived from /repo. *)
From Coq Require Import List NArith Bool.
Import ListNotations.
Open Scope N_scope.

Inductive fork := London | Shanghai | Cancun.

Record evm_op := mkevm {
  s_pops : N;       (* delta *)
  s_pushes : N;     (* alpha *)
  s_halts : bool;   (* stop, return, revert, invalid, selfdestruct *)
  s_jump : bool;    (* jump, jumpi *)
  s_jumpdest : bool }.

Definition plain (d a : N) : option evm_op := Some (mkevm d a false false false).
Definition halt (d a : N) : option evm_op := Some (mkevm d a true false false).

(* The London instruction set. *)
Definition evm_london (c : N) : option evm_op :=
  if c =? 0x00 then halt 0 0                          (* STOP *)
  else if (0x01 <=? c) && (c <=? 0x07) then plain 2 1 (* ADD MUL SUB DIV SDIV MOD SMOD *)
  else if (0x08 <=? c) && (c <=? 0x09) then plain 3 1 (* ADDMOD MULMOD *)
  else if (0x0a <=? c) && (c <=? 0x0b) then plain 2 1 (* EXP SIGNEXTEND *)
  else if (0x10 <=? c) && (c <=? 0x14) then plain 2 1 (* LT GT SLT SGT EQ *)
  else if c =? 0x15 then plain 1 1                    (* ISZERO *)
  else if (0x16 <=? c) && (c <=? 0x18) then plain 2 1 (* AND OR XOR *)
  else if c =? 0x19 then plain 1 1                    (* NOT *)
  else if (0x1a <=? c) && (c <=? 0x1d) then plain 2 1 (* BYTE SHL SHR SAR *)
  else if c =? 0x20 then plain 2 1                    (* KECCAK256 *)
  else if c =? 0x30 then plain 0 1                    (* ADDRESS *)
  else if c =? 0x31 then plain 1 1                    (* BALANCE *)
  else if (0x32 <=? c) && (c <=? 0x34) then plain 0 1 (* ORIGIN CALLER CALLVALUE *)
  else if c =? 0x35 then plain 1 1                    (* CALLDATALOAD *)
  else if c =? 0x36 then plain 0 1                    (* CALLDATASIZE *)
  else if c =? 0x37 then plain 3 0                    (* CALLDATACOPY *)
  else if c =? 0x38 then plain 0 1                    (* CODESIZE *)
  else if c =? 0x39 then plain 3 0                    (* CODECOPY *)
  else if c =? 0x3a then plain 0 1                    (* GASPRICE *)
  else if c =? 0x3b then plain 1 1                    (* EXTCODESIZE *)
  else if c =? 0x3c then plain 4 0                    (* EXTCODECOPY *)
  else if c =? 0x3d then plain 0 1                    (* RETURNDATASIZE *)
  else if c =? 0x3e then plain 3 0                    (* RETURNDATACOPY *)
  else if c =? 0x3f then plain 1 1                    (* EXTCODEHASH *)
  else if c =? 0x40 then plain 1 1                    (* BLOCKHASH *)
  else if (0x41 <=? c) && (c <=? 0x48) then plain 0 1 (* COINBASE TIMESTAMP NUMBER DIFFICULTY GASLIMIT CHAINID SELFBALANCE BASEFEE *)
  else if c =? 0x50 then plain 1 0                    (* POP *)
  else if c =? 0x51 then plain 1 1                    (* MLOAD *)
  else if c =? 0x52 then plain 2 0                    (* MSTORE *)
  else if c =? 0x53 then plain 2 0                    (* MSTORE8 *)
  else if c =? 0x54 then plain 1 1                    (* SLOAD *)
  else if c =? 0x55 then plain 2 0                    (* SSTORE *)
  else if c =? 0x56 then Some (mkevm 1 0 false true false)  (* JUMP *)
  else if c =? 0x57 then Some (mkevm 2 0 false true false)  (* JUMPI *)
  else if (0x58 <=? c) && (c <=? 0x5a) then plain 0 1 (* PC MSIZE GAS *)
  else if c =? 0x5b then Some (mkevm 0 0 false false true)  (* JUMPDEST *)
  else if (0x60 <=? c) && (c <=? 0x7f) then plain 0 1 (* PUSH1..PUSH32 *)
  else if (0x80 <=? c) && (c <=? 0x8f) then plain (c - 0x7f) (c - 0x7f + 1)  (* DUPn: n, n+1 *)
  else if (0x90 <=? c) && (c <=? 0x9f) then plain (c - 0x8f + 1) (c - 0x8f + 1) (* SWAPn: n+1, n+1 *)
  else if (0xa0 <=? c) && (c <=? 0xa4) then plain (c - 0xa0 + 2) 0  (* LOGn *)
  else if c =? 0xf0 then plain 3 1                    (* CREATE *)
  else if c =? 0xf1 then plain 7 1                    (* CALL *)
  else if c =? 0xf2 then plain 7 1                    (* CALLCODE *)
  else if c =? 0xf3 then halt 2 0                     (* RETURN *)
  else if c =? 0xf4 then plain 6 1                    (* DELEGATECALL *)
  else if c =? 0xf5 then plain 4 1                    (* CREATE2 *)
  else if c =? 0xfa then plain 6 1                    (* STATICCALL *)
  else if c =? 0xfd then halt 2 0                     (* REVERT *)
  else if c =? 0xfe then halt 0 0                     (* INVALID *)
  else if c =? 0xff then halt 1 0                     (* SELFDESTRUCT *)
  else None.

Definition evm_spec (f : fork) (c : N) : option evm_op :=
  match f with
  | London => evm_london c
  | Shanghai =>
      if c =? 0x5f then plain 0 1 (* PUSH0 *) else evm_london c
  | Cancun =>
      if c =? 0x5f then plain 0 1        (* PUSH0 *)
      else if c =? 0x49 then plain 1 1   (* BLOBHASH *)
      else if c =? 0x4a then plain 0 1   (* BLOBBASEFEE *)
      else if c =? 0x5c then plain 1 1   (* TLOAD *)
      else if c =? 0x5d then plain 2 0   (* TSTORE *)
      else if c =? 0x5e then plain 3 0   (* MCOPY *)
      else evm_london c
  end.

(* immediate length: N for PUSHN, 0 otherwise *)
Definition evm_imm_len (c : N) : N :=
  if (0x60 <=? c) && (c <=? 0x7f) then c - 0x5f else 0.
