Gen/OpTables.vo Gen/OpTables.glob Gen/OpTables.v.beautified Gen/OpTables.required_vo: Gen/OpTables.v 
Gen/OpTables.vio: Gen/OpTables.v 
Gen/OpTables.vos Gen/OpTables.vok Gen/OpTables.required_vos: Gen/OpTables.v 
Gen/Grammar.vo Gen/Grammar.glob Gen/Grammar.v.beautified Gen/Grammar.required_vo: Gen/Grammar.v 
Gen/Grammar.vio: Gen/Grammar.v 
Gen/Grammar.vos Gen/Grammar.vok Gen/Grammar.required_vos: Gen/Grammar.v 
Spec/EvmOpcodes.vo Spec/EvmOpcodes.glob Spec/EvmOpcodes.v.beautified Spec/EvmOpcodes.required_vo: Spec/EvmOpcodes.v 
Spec/EvmOpcodes.vio: Spec/EvmOpcodes.v 
Spec/EvmOpcodes.vos Spec/EvmOpcodes.vok Spec/EvmOpcodes.required_vos: Spec/EvmOpcodes.v 
Model/Base.vo Model/Base.glob Model/Base.v.beautified Model/Base.required_vo: Model/Base.v 
Model/Base.vio: Model/Base.v 
Model/Base.vos Model/Base.vok Model/Base.required_vos: Model/Base.v 
Model/Ops.vo Model/Ops.glob Model/Ops.v.beautified Model/Ops.required_vo: Model/Ops.v Model/Base.vo Gen/OpTables.vo
Model/Ops.vio: Model/Ops.v Model/Base.vio Gen/OpTables.vio
Model/Ops.vos Model/Ops.vok Model/Ops.required_vos: Model/Ops.v Model/Base.vos Gen/OpTables.vos
Proofs/OpsProofs.vo Proofs/OpsProofs.glob Proofs/OpsProofs.v.beautified Proofs/OpsProofs.required_vo: Proofs/OpsProofs.v Model/Base.vo Model/Ops.vo Spec/EvmOpcodes.vo
Proofs/OpsProofs.vio: Proofs/OpsProofs.v Model/Base.vio Model/Ops.vio Spec/EvmOpcodes.vio
Proofs/OpsProofs.vos Proofs/OpsProofs.vok Proofs/OpsProofs.required_vos: Proofs/OpsProofs.v Model/Base.vos Model/Ops.vos Spec/EvmOpcodes.vos
Props/C17.vo Props/C17.glob Props/C17.v.beautified Props/C17.required_vo: Props/C17.v Model/Base.vo Model/Ops.vo Spec/EvmOpcodes.vo Proofs/OpsProofs.vo
Props/C17.vio: Props/C17.v Model/Base.vio Model/Ops.vio Spec/EvmOpcodes.vio Proofs/OpsProofs.vio
Props/C17.vos Props/C17.vok Props/C17.required_vos: Props/C17.v Model/Base.vos Model/Ops.vos Spec/EvmOpcodes.vos Proofs/OpsProofs.vos
