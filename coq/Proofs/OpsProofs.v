(* Proofs/OpsProofs.v -- lemmas about the opcode-table model (C17, used by C03 C04 C15). *)
From Coq Require Import Lia ZifyBool ZifyNat ZifyN.
From Verif Require Import Model.Base Model.Ops Spec.EvmOpcodes.
Open Scope N_scope.
Ltac Zify.zify_post_hook ::= Z.div_mod_to_equations.

(* ---------- ranges ---------- *)
Lemma N_range_In : forall count start x,
  In x (N_range start count) <-> (start <= x < start + N.of_nat count).
Proof.
  induction count as [|c IH]; intros start x; cbn [N_range].
  - split; [intros []| lia].
  - cbn [In]. rewrite IH. lia.
Qed.

Lemma N_range_length : forall count start, length (N_range start count) = count.
Proof. induction count as [|c IH]; intros; cbn [N_range length]; [reflexivity|now rewrite IH]. Qed.

Lemma forallb_range : forall (p : N -> bool) n,
  forallb p (N_range 0 n) = true -> forall c, c < N.of_nat n -> p c = true.
Proof.
  intros p n H c Hc. rewrite forallb_forall in H. apply H. apply N_range_In. lia.
Qed.

Definition bytes_all (p : N -> bool) : bool := forallb p (N_range 0 256).
Lemma bytes_all_spec : forall p, bytes_all p = true -> forall c, c < 256 -> p c = true.
Proof. intros p H c Hc. apply (forallb_range p 256 H). exact Hc. Qed.

(* ---------- row equality ---------- *)
Definition row_eqb (a b : oprow) : bool :=
  (r_code a =? r_code b) && String.eqb (r_name a) (r_name b) && String.eqb (r_mnem a) (r_mnem b)
  && (r_pushes a =? r_pushes b) && (r_pops a =? r_pops b) && (r_extra a =? r_extra b)
  && Bool.eqb (r_exits a) (r_exits b) && Bool.eqb (r_jump a) (r_jump b) && Bool.eqb (r_jt a) (r_jt b).

Lemma row_eqb_eq : forall a b, row_eqb a b = true -> a = b.
Proof.
  intros [c1 n1 m1 pu1 po1 e1 x1 j1 t1] [c2 n2 m2 pu2 po2 e2 x2 j2 t2]; unfold row_eqb; cbn.
  rewrite !andb_true_iff. intros [[[[[[[[H1 H2] H3] H4] H5] H6] H7] H8] H9].
  apply N.eqb_eq in H1, H4, H5, H6. apply String.eqb_eq in H2, H3.
  apply Bool.eqb_prop in H7, H8, H9. subst. reflexivity.
Qed.

Definition opt_row_eqb (a b : option oprow) : bool :=
  match a, b with
  | Some x, Some y => row_eqb x y
  | None, None => true
  | _, _ => false
  end.
Lemma opt_row_eqb_eq : forall a b, opt_row_eqb a b = true -> a = b.
Proof. intros [a|] [b|]; cbn; try discriminate; auto. intros H; f_equal; now apply row_eqb_eq. Qed.

(* ---------- the boolean checkers (finite: 256 bytes) ---------- *)
Section Checks.
  Variable t : list oprow.

  Definition chk_len : bool := Nat.eqb (length t) 256.
  Definition chk_u8_roundtrip : bool := bytes_all (fun c => to_u8 (from_u8 t c) =? c).
  Definition chk_str_roundtrip : bool :=
    bytes_all (fun c => opt_row_eqb (from_str t (display (from_u8 t c))) (Some (from_u8 t c))).
  Definition chk_extra : bool := bytes_all (fun c => r_extra (from_u8 t c) =? evm_imm_len c).
  Definition chk_push : bool :=
    forallb (fun k => match push t k with
                      | Some r => (r_extra r =? k) && (r_code r =? 0x5f + k)
                      | None => false end) (N_range 1 32).

  (* distinctness of mnemonics, as a boolean *)
  Fixpoint nodup_str (l : list string) : bool :=
    match l with
    | [] => true
    | x :: r => negb (existsb (String.eqb x) r) && nodup_str r
    end.
  Definition chk_mnemonics_distinct : bool := nodup_str (map r_mnem t).
End Checks.

Lemma nodup_str_NoDup : forall l, nodup_str l = true -> NoDup l.
Proof.
  induction l as [|x r IH]; cbn; intros H; constructor.
  - apply andb_true_iff in H as [H _]. apply negb_true_iff in H.
    intros Hin. assert (existsb (String.eqb x) r = true) as E.
    { apply existsb_exists. exists x; split; [exact Hin|apply String.eqb_refl]. }
    congruence.
  - apply IH. now apply andb_true_iff in H as [_ H].
Qed.

(* ---------- generic consequences ---------- *)
Section Generic.
  Variable t : list oprow.
  Hypothesis Hlen : chk_len t = true.
  Hypothesis Hu8 : chk_u8_roundtrip t = true.

  Lemma table_length : length t = 256%nat.
  Proof. unfold chk_len in Hlen. now apply PeanoNat.Nat.eqb_eq in Hlen. Qed.

  Lemma from_u8_In : forall c, c < 256 -> In (from_u8 t c) t.
  Proof.
    intros c Hc. unfold from_u8. apply nth_In. rewrite table_length. lia.
  Qed.

  Lemma to_from_u8 : forall c, c < 256 -> to_u8 (from_u8 t c) = c.
  Proof.
    intros c Hc. apply N.eqb_eq. exact (bytes_all_spec _ Hu8 c Hc).
  Qed.

  (* every row of the table sits at the index given by its code *)
  Lemma In_table_from_u8 : forall r, In r t -> r_code r < 256 /\ from_u8 t (r_code r) = r.
  Proof.
    intros r Hin. destruct (In_nth t r (invalid_row 0) Hin) as [i [Hi Hnth]].
    rewrite table_length in Hi.
    assert (Hc : N.of_nat i < 256) by lia.
    pose proof (to_from_u8 (N.of_nat i) Hc) as H.
    unfold from_u8, to_u8 in H. rewrite Nnat.Nat2N.id in H.
    rewrite (nth_indep t (invalid_row (N.of_nat i)) (invalid_row 0)) in H by (rewrite table_length; lia).
    rewrite Hnth in H. split; [lia|].
    unfold from_u8. rewrite H, Nnat.Nat2N.id.
    rewrite (nth_indep t _ (invalid_row 0)) by (rewrite table_length; lia). exact Hnth.
  Qed.
End Generic.

(* from_str is sound for any table: a hit is a row of the table with that mnemonic *)
Lemma from_str_sound : forall t s r, from_str t s = Some r -> In r t /\ display r = s.
Proof.
  intros t s r H. unfold from_str in H. apply find_some in H as [Hin He].
  split; [exact Hin|]. now apply String.eqb_eq in He.
Qed.

(* with distinct mnemonics, from_str inverts display on every row of the table *)
Lemma from_str_display : forall t, NoDup (map r_mnem t) ->
  forall r, In r t -> from_str t (display r) = Some r.
Proof.
  intros t. unfold from_str, display.
  induction t as [|a t IH]; intros Hnd r Hin; [destruct Hin|].
  cbn [map] in Hnd. inversion Hnd as [|x l Hnotin Hnd']; subst.
  cbn [find]. destruct Hin as [->|Hin].
  - now rewrite String.eqb_refl.
  - destruct (String.eqb (r_mnem a) (r_mnem r)) eqn:E.
    + apply String.eqb_eq in E. exfalso. apply Hnotin. rewrite E. now apply in_map.
    + now apply IH.
Qed.

(* ---------- from_slice: structural, all lengths ---------- *)
Lemma from_slice_spec : forall t c rest,
  from_slice t (c :: rest) =
    if N.of_nat (length rest) =? r_extra (from_u8 t c)
    then Ok (from_u8 t c, rest)
    else if 0 <? r_extra (from_u8 t c) then err0 "TryInto" else err0 "NoImmediate".
Proof.
  intros t c rest. cbn [from_slice].
  destruct (0 <? r_extra (from_u8 t c)) eqn:E0.
  - destruct (N.of_nat (length rest) =? r_extra (from_u8 t c)); reflexivity.
  - apply N.ltb_ge in E0. assert (r_extra (from_u8 t c) = 0) as -> by lia.
    destruct rest as [|x rest]; cbn [length]; [reflexivity|].
    destruct (N.of_nat (S (length rest)) =? 0) eqn:E; [apply N.eqb_eq in E; lia|reflexivity].
Qed.

Lemma from_slice_ok_iff : forall t bs, bs <> [] ->
  (is_ok (from_slice t bs) = true <->
   N.of_nat (length bs) = 1 + r_extra (from_u8 t (hd 0 bs))).
Proof.
  intros t [|c rest] Hne; [congruence|]. rewrite from_slice_spec. cbn [hd length].
  destruct (N.of_nat (length rest) =? r_extra (from_u8 t c)) eqn:E.
  - apply N.eqb_eq in E. cbn [is_ok]. rewrite Nnat.Nat2N.inj_succ. split; [intros _; lia|reflexivity].
  - apply N.eqb_neq in E. rewrite Nnat.Nat2N.inj_succ.
    destruct (0 <? r_extra (from_u8 t c)); cbn [is_ok err0]; (split; [discriminate|intros; lia]).
Qed.

(* ---------- push_for: arithmetic, every n < 2^128 ---------- *)
Definition push_width (n : N) : N := N.max 1 ((N.size n + 8 - 1) / 8).

Lemma size_le_of_lt_pow : forall n k, n < 2 ^ k -> N.size n <= k.
Proof.
  intros n k H. destruct n as [|p]; [cbn; lia|].
  destruct (N.le_gt_cases (N.size (N.pos p)) k) as [Hle|Hgt]; [exact Hle|exfalso].
  pose proof (N.size_le (N.pos p)) as Hs.
  (* 2^size <= 2*n+1 ... use log2 instead *)
  rewrite N.size_log2 in Hgt by discriminate.
  assert (N.log2 (N.pos p) < k) by (apply N.log2_lt_pow2; [lia|exact H]).
  lia.
Qed.

Lemma push_width_bounds : forall n, n < 2 ^ 128 ->
  1 <= push_width n <= 16 /\
  (n = 0 \/ 256 ^ (push_width n - 1) <= n) /\ n < 256 ^ push_width n.
Proof.
  intros n Hn. unfold push_width.
  pose proof (size_le_of_lt_pow n 128 Hn) as Hs.
  assert (Hdiv : (N.size n + 8 - 1) / 8 <= 16).
  { clear Hn. lia. }
  split; [lia|].
  destruct n as [|p].
  - cbn. split; [now left|reflexivity].
  - set (s := N.size (N.pos p)) in *.
    assert (Hs1 : 1 <= s) by (unfold s; rewrite N.size_log2 by discriminate; lia).
    set (k := (s + 8 - 1) / 8) in *.
    assert (Hk : 8 * k <= s + 7 < 8 * k + 8).
    { unfold k. pose proof (N.div_mod (s + 8 - 1) 8 ltac:(lia)) as Hdm.
      pose proof (N.mod_lt (s + 8 - 1) 8 ltac:(lia)). lia. }
    assert (Hk1 : 1 <= k) by lia.
    rewrite N.max_r by lia.
    assert (H256 : forall m, 256 ^ m = 2 ^ (8 * m)).
    { intros m. change 256 with (2 ^ 8). now rewrite <- N.pow_mul_r. }
    rewrite !H256. split.
    + right. (* 2^(8(k-1)) <= 2^(s-1) <= n *)
      apply N.le_trans with (2 ^ (s - 1)).
      * apply N.pow_le_mono_r; lia.
      * unfold s. rewrite N.size_log2 by discriminate.
        replace (N.succ (N.log2 (N.pos p)) - 1) with (N.log2 (N.pos p)) by lia.
        apply N.log2_spec. reflexivity.
    + apply N.lt_le_trans with (2 ^ s).
      * unfold s. apply N.size_gt.
      * apply N.pow_le_mono_r; lia.
Qed.

Lemma chk_push_spec : forall t, chk_push t = true ->
  forall k, 1 <= k <= 32 -> exists r, push t k = Some r /\ r_extra r = k /\ r_code r = 0x5f + k.
Proof.
  intros t H k Hk. unfold chk_push in H. rewrite forallb_forall in H.
  specialize (H k). destruct (push t k) as [r|].
  - exists r. assert (Hin : In k (N_range 1 32)) by (apply N_range_In; lia).
    apply H in Hin. apply andb_true_iff in Hin as [A B].
    apply N.eqb_eq in A, B. auto.
  - assert (Hin : In k (N_range 1 32)) by (apply N_range_In; lia).
    apply H in Hin. discriminate.
Qed.

Lemma push_for_spec : forall t, chk_push t = true ->
  forall n, n < 2 ^ 128 ->
  exists r, push_for t n = Ok r /\ r_extra r = push_width n /\ r_code r = 0x5f + push_width n.
Proof.
  intros t H n Hn. destruct (push_width_bounds n Hn) as [Hw _].
  destruct (chk_push_spec t H (push_width n) ltac:(lia)) as [r [Hp [He Hc]]].
  exists r. unfold push_for. fold (push_width n). rewrite Hp. auto.
Qed.

(* ---------- agreement with the EVM specification (finite: 256 bytes) ---------- *)
Definition defined_in (rows : list oprow) (c : N) : bool :=
  existsb (fun r => r_code r =? c) rows.

(* an opcode is defined in the table only if the fork has it *)
Definition chk_defined_only_if (f : fork) (rows : list oprow) : bool :=
  forallb (fun r => match evm_spec f (r_code r) with Some _ => true | None => false end) rows.

(* metadata of byte c in fork f: a byte the table defines must be an instruction of
   the fork with the specification's arity and flags; a byte the table does not define
   is the default "invalid_xx" row (halts, no stack effect). *)
Definition meta_ok (f : fork) (rows t : list oprow) (c : N) : bool :=
  let r := from_u8 t c in
  if defined_in rows c then
    match evm_spec f c with
    | Some s =>
        (r_pops r =? s_pops s) && (r_pushes r =? s_pushes s)
        && Bool.eqb (r_exits r) (s_halts s) && Bool.eqb (r_jump r) (s_jump s)
        && Bool.eqb (r_jt r) (s_jumpdest s)
    | None => false
    end
  else row_eqb r (invalid_row c).

Definition chk_metadata (f : fork) (rows t : list oprow) : bool := bytes_all (meta_ok f rows t).

(* the list of mismatching bytes: printed by the driver when chk_metadata fails *)
Definition metadata_mismatches (f : fork) (rows t : list oprow) : list N :=
  filter (fun c => negb (meta_ok f rows t c)) (N_range 0 256).

Lemma chk_metadata_spec : forall f rows t, chk_metadata f rows t = true ->
  forall c, c < 256 ->
  if defined_in rows c then
    exists s, evm_spec f c = Some s /\
      r_pops (from_u8 t c) = s_pops s /\ r_pushes (from_u8 t c) = s_pushes s /\
      r_exits (from_u8 t c) = s_halts s /\ r_jump (from_u8 t c) = s_jump s /\
      r_jt (from_u8 t c) = s_jumpdest s
  else from_u8 t c = invalid_row c.
Proof.
  intros f rows t H c Hc. pose proof (bytes_all_spec _ H c Hc) as P. unfold meta_ok in P.
  destruct (defined_in rows c).
  - destruct (evm_spec f c) as [s|]; [|discriminate]. exists s.
    rewrite !andb_true_iff in P. destruct P as [[[[A B] C] D] E].
    apply N.eqb_eq in A, B. apply Bool.eqb_prop in C, D, E. repeat split; assumption.
  - now apply row_eqb_eq.
Qed.

(* ---------- the finite facts, re-checked against the regenerated tables ---------- *)
Definition chk_fork (f : fork) (rows t : list oprow) : bool :=
  chk_len t && chk_u8_roundtrip t && chk_str_roundtrip t && chk_extra t && chk_push t
  && chk_mnemonics_distinct t && chk_defined_only_if f rows.

Lemma london_ok : chk_fork London london_rows london = true.
Proof. vm_compute. reflexivity. Qed.
Lemma shanghai_ok : chk_fork Shanghai shanghai_rows shanghai = true.
Proof. vm_compute. reflexivity. Qed.
Lemma cancun_ok : chk_fork Cancun cancun_rows cancun = true.
Proof. vm_compute. reflexivity. Qed.

Lemma london_meta : chk_metadata London london_rows london = true.
Proof. vm_compute. reflexivity. Qed.
Lemma shanghai_meta : chk_metadata Shanghai shanghai_rows shanghai = true.
Proof. vm_compute. reflexivity. Qed.
Lemma cancun_meta : chk_metadata Cancun cancun_rows cancun = true.
Proof. vm_compute. reflexivity. Qed.

Definition fork_rows (f : fork) := match f with London => london_rows | Shanghai => shanghai_rows | Cancun => cancun_rows end.
Definition fork_table (f : fork) := match f with London => london | Shanghai => shanghai | Cancun => cancun end.

Lemma fork_ok : forall f, chk_fork f (fork_rows f) (fork_table f) = true.
Proof. intros []; [exact london_ok|exact shanghai_ok|exact cancun_ok]. Qed.
Lemma fork_meta : forall f, chk_metadata f (fork_rows f) (fork_table f) = true.
Proof. intros []; [exact london_meta|exact shanghai_meta|exact cancun_meta]. Qed.

Lemma chk_fork_parts : forall f rows t, chk_fork f rows t = true ->
  chk_len t = true /\ chk_u8_roundtrip t = true /\ chk_str_roundtrip t = true /\
  chk_extra t = true /\ chk_push t = true /\ chk_mnemonics_distinct t = true /\
  chk_defined_only_if f rows = true.
Proof.
  intros f rows t H. unfold chk_fork in H. rewrite !andb_true_iff in H. tauto.
Qed.
