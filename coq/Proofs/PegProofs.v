(* Proofs/PegProofs.v -- the PEG interpreter of Model/Peg.v terminates, without panic, on every
   input, for every grammar that passes the boolean check wf_grammar (no left recursion, no
   repetition of a body that can match the empty string, every reference defined), within the fuel
   enough_fuel = (|input| + 1) * (number of compiled rules + 2).  This is the termination theorem of
   well-formed PEGs (Ford 2004; Koprowski and Binsztok, TRX) for pest's dialect (implicit skips,
   atomicity modes, pairs).  asm.pest passes the check (vm_compute). *)
From Coq Require Import Lia ZifyBool ZifyNat ZifyN.
From Verif Require Import Model.Base Model.PegAst Gen.AsmGrammar Model.Peg.
Local Open Scope nat_scope.

(* ---------- unfolding equations of the nested fixpoint ---------- *)
Section Equations.
Variable cg : cgrammar.
Variable f : nat.
Let ev := reval cg (S f).

Lemma reval_0 : forall e m pos inp, reval cg 0 e m pos inp = Panic "out of fuel".
Proof. reflexivity. Qed.

Lemma reval_str : forall s m pos inp, ev (RStr s) m pos inp =
  match strip_prefix s inp with
  | Some r => Ok (Some ((pos + N.of_nat (length s))%N, r, []))
  | None => Ok None
  end.
Proof. reflexivity. Qed.

Lemma reval_range : forall lo hi m pos inp, ev (RRange lo hi) m pos inp =
  match inp with
  | b :: r => if ((lo <=? b) && (b <=? hi))%N then Ok (Some ((pos + 1)%N, r, [])) else Ok None
  | [] => Ok None
  end.
Proof. reflexivity. Qed.

Lemma reval_any : forall m pos inp, ev RAny m pos inp =
  match inp with
  | b :: r => let '(c, r') := drop_cont (utf8_extra b) r in Ok (Some ((pos + 1 + c)%N, r', []))
  | [] => Ok None
  end.
Proof. reflexivity. Qed.

Lemma reval_soi : forall m pos inp, ev RSoi m pos inp =
  if (pos =? 0)%N then Ok (Some (pos, inp, [])) else Ok None.
Proof. reflexivity. Qed.

Lemma reval_eoi : forall m pos inp, ev REoi m pos inp =
  match inp with [] => Ok (Some (pos, inp, [])) | _ :: _ => Ok None end.
Proof. reflexivity. Qed.

Lemma reval_ref : forall n m pos inp, ev (RRef n) m pos inp = call_rule cg (reval cg f) n m pos inp.
Proof. reflexivity. Qed.

Lemma reval_skip : forall m pos inp, ev RSkip m pos inp =
  if is_nonatomic m then call_rule cg (reval cg f) skip_name m pos inp else Ok (Some (pos, inp, [])).
Proof. reflexivity. Qed.

Lemma reval_seq : forall a b m pos inp, ev (RSeq a b) m pos inp =
  do ra <- ev a m pos inp;
  match ra with
  | None => Ok None
  | Some (p1, i1, t1) =>
      do rb <- ev b m p1 i1;
      match rb with
      | None => Ok None
      | Some (p2, i2, t2) => Ok (Some (p2, i2, t1 ++ t2))
      end
  end.
Proof. reflexivity. Qed.

Lemma reval_choice : forall a b m pos inp, ev (RChoice a b) m pos inp =
  do ra <- ev a m pos inp;
  match ra with
  | Some x => Ok (Some x)
  | None => ev b m pos inp
  end.
Proof. reflexivity. Qed.

Lemma reval_opt : forall a m pos inp, ev (ROpt a) m pos inp =
  do ra <- ev a m pos inp;
  match ra with
  | Some x => Ok (Some x)
  | None => Ok (Some (pos, inp, []))
  end.
Proof. reflexivity. Qed.

Lemma reval_star : forall a m pos inp, ev (RStar a) m pos inp =
  do ra <- ev a m pos inp;
  match ra with
  | None => Ok (Some (pos, inp, []))
  | Some (p1, i1, t1) =>
      if (p1 =? pos)%N then Panic "empty repetition"
      else
        do rr <- reval cg f (RStar a) m p1 i1;
        match rr with
        | None => Ok None
        | Some (p2, i2, t2) => Ok (Some (p2, i2, t1 ++ t2))
        end
  end.
Proof. reflexivity. Qed.

Lemma reval_not : forall a m pos inp, ev (RNot a) m pos inp =
  do ra <- ev a m pos inp;
  match ra with
  | Some _ => Ok None
  | None => Ok (Some (pos, inp, []))
  end.
Proof. reflexivity. Qed.

Lemma reval_and : forall a m pos inp, ev (RAnd a) m pos inp =
  do ra <- ev a m pos inp;
  match ra with
  | Some _ => Ok (Some (pos, inp, []))
  | None => Ok None
  end.
Proof. reflexivity. Qed.
End Equations.

(* ---------- terminals ---------- *)
Lemma strip_prefix_len : forall s inp r, strip_prefix s inp = Some r -> length r + length s = length inp.
Proof.
  induction s as [|c s IH]; intros inp r H; cbn [strip_prefix] in H.
  - inversion H; subst; cbn [length]; lia.
  - destruct inp as [|b inp]; [discriminate|].
    destruct (c =? b)%N; [|discriminate].
    apply IH in H. cbn [length]. lia.
Qed.

Lemma drop_cont_len : forall k l c r, drop_cont k l = (c, r) -> N.to_nat c + length r = length l.
Proof.
  induction k as [|k IH]; intros l c r H; cbn [drop_cont] in H.
  - inversion H; subst; cbn; lia.
  - destruct l as [|b l]; [inversion H; subst; cbn; lia|].
    destruct ((128 <=? b)%N && (b <? 192)%N).
    + destruct (drop_cont k l) as [c' r'] eqn:E. inversion H; subst.
      apply IH in E. cbn [length]. lia.
    + inversion H; subst. cbn; lia.
Qed.

Lemma find_rule_In : forall cg n md body, find_rule cg n = Some (md, body) -> In (n, md, body) cg.
Proof.
  induction cg as [|[[n' md'] e'] cg IH]; intros n md body H; cbn [find_rule] in H; [discriminate|].
  destruct (String.eqb n' n) eqn:E.
  - apply String.eqb_eq in E. inversion H; subst. left; reflexivity.
  - right. apply IH; exact H.
Qed.

(* ---------- progress, and soundness of `nullable` ---------- *)
Section Progress.
Variable cg : cgrammar.
Variable ns : list string.
Hypothesis ns_closed : forall n md body,
  find_rule cg n = Some (md, body) -> nullable ns body = true -> mem n ns = true.

(* a success never moves backwards, offsets and the rest of the input stay in step, and a success
   that consumes nothing is predicted by `nullable` *)
Definition good (e : rexpr) (pos : N) (inp : list N) (r : pres) : Prop :=
  match r with
  | Ok (Some (p', i', _)) =>
      N.to_nat p' + length i' = N.to_nat pos + length inp /\ (pos <= p')%N /\
      (p' = pos -> nullable ns e = true)
  | _ => True
  end.

Lemma call_rule_good : forall ev n m pos inp,
  (forall body m', good body pos inp (ev body m' pos inp)) ->
  good (RRef n) pos inp (call_rule cg ev n m pos inp).
Proof.
  intros ev n m pos inp Hev. unfold call_rule.
  destruct (find_rule cg n) as [[md body]|] eqn:F; [|exact I].
  specialize (Hev body (inner_mode n md m)).
  destruct (ev body (inner_mode n md m) pos inp) as [[[[p' i'] ch]|]|e|s]; cbn [bind good] in *; try exact I.
  destruct Hev as (H1 & H2 & H3). repeat split; try assumption.
  intro Hp. cbn [nullable]. eapply ns_closed; [exact F|]. apply H3; exact Hp.
Qed.

Lemma reval_good : forall fuel e m pos inp, good e pos inp (reval cg fuel e m pos inp).
Proof.
  induction fuel as [|f IHf]; [intros; exact I|].
  induction e as [s|lo hi| | | |n| |a IHa b IHb|a IHa b IHb|a IHa|a IHa|a IHa|a IHa]; intros m pos inp.
  - rewrite reval_str. destruct (strip_prefix s inp) as [r|] eqn:E; [|exact I].
    apply strip_prefix_len in E. cbn [good]. repeat split; try lia.
    intro Hp. destruct s; [reflexivity|]. cbn [length] in Hp. lia.
  - rewrite reval_range. destruct inp as [|b r]; [exact I|].
    destruct ((lo <=? b)%N && (b <=? hi)%N); [|exact I].
    cbn [good length]. repeat split; lia.
  - rewrite reval_any. destruct inp as [|b r]; [exact I|].
    destruct (drop_cont (utf8_extra b) r) as [c r'] eqn:E. apply drop_cont_len in E.
    cbn [good length]. repeat split; lia.
  - rewrite reval_soi. destruct (pos =? 0)%N; [|exact I]. cbn [good nullable]. repeat split; lia.
  - rewrite reval_eoi. destruct inp; [|exact I]. cbn [good nullable]. repeat split; lia.
  - rewrite reval_ref. apply call_rule_good. intros body m'. apply IHf.
  - rewrite reval_skip. destruct (is_nonatomic m).
    + pose proof (call_rule_good (reval cg f) skip_name m pos inp (fun body m' => IHf body m' pos inp)) as H.
      destruct (call_rule cg (reval cg f) skip_name m pos inp) as [[[[p' i'] ch]|]|e|s]; cbn [good] in *; try exact I.
      destruct H as (H1 & H2 & _). repeat split; try assumption.
    + cbn [good nullable]. repeat split; lia.
  - rewrite reval_seq. specialize (IHa m pos inp).
    destruct (reval cg (S f) a m pos inp) as [[[[p1 i1] t1]|]|e|s]; cbn [bind good] in *; try exact I.
    specialize (IHb m p1 i1).
    destruct (reval cg (S f) b m p1 i1) as [[[[p2 i2] t2]|]|e|s]; cbn [bind good] in *; try exact I.
    destruct IHa as (A1 & A2 & A3). destruct IHb as (B1 & B2 & B3).
    repeat split; try lia.
    intro Hp. cbn [nullable]. assert (p1 = pos) by lia. assert (p2 = p1) by lia.
    rewrite A3, B3 by assumption. reflexivity.
  - rewrite reval_choice. specialize (IHa m pos inp).
    destruct (reval cg (S f) a m pos inp) as [[[[p1 i1] t1]|]|e|s]; cbn [bind good] in *; try exact I.
    + destruct IHa as (A1 & A2 & A3). repeat split; try assumption.
      intro Hp. cbn [nullable]. rewrite A3 by assumption. reflexivity.
    + specialize (IHb m pos inp).
      destruct (reval cg (S f) b m pos inp) as [[[[p2 i2] t2]|]|e|s]; cbn [good] in *; try exact I.
      destruct IHb as (B1 & B2 & B3). repeat split; try assumption.
      intro Hp. cbn [nullable]. rewrite B3 by assumption. apply orb_true_r.
  - rewrite reval_opt. specialize (IHa m pos inp).
    destruct (reval cg (S f) a m pos inp) as [[[[p1 i1] t1]|]|e|s]; cbn [bind good] in *; try exact I.
    + destruct IHa as (A1 & A2 & A3). repeat split; try assumption; try reflexivity.
    + repeat split; try lia.
  - rewrite reval_star. specialize (IHa m pos inp).
    destruct (reval cg (S f) a m pos inp) as [[[[p1 i1] t1]|]|e|s]; cbn [bind good] in *; try exact I.
    + destruct (p1 =? pos)%N; [exact I|].
      pose proof (IHf (RStar a) m p1 i1) as H.
      destruct (reval cg f (RStar a) m p1 i1) as [[[[p2 i2] t2]|]|e|s]; cbn [bind good] in *; try exact I.
      destruct IHa as (A1 & A2 & A3). destruct H as (B1 & B2 & B3).
      repeat split; try lia.
    + repeat split; try lia.
  - rewrite reval_not. specialize (IHa m pos inp).
    destruct (reval cg (S f) a m pos inp) as [[[[p1 i1] t1]|]|e|s]; cbn [bind good] in *; try exact I.
    repeat split; try lia.
  - rewrite reval_and. specialize (IHa m pos inp).
    destruct (reval cg (S f) a m pos inp) as [[[[p1 i1] t1]|]|e|s]; cbn [bind good] in *; try exact I.
    repeat split; try lia.
Qed.
End Progress.

(* ---------- termination ---------- *)
Section Termination.
Variable cg : cgrammar.
Variable ns : list string.
Variable tbl : list (string * nat).
Variable R : nat.
Hypothesis ns_closed : forall n md body,
  find_rule cg n = Some (md, body) -> nullable ns body = true -> mem n ns = true.
Hypothesis rank_lt : forall n, rank tbl n < R.
Hypothesis rule_ok : forall n md body, find_rule cg n = Some (md, body) ->
  ok_expr cg ns body = true /\ (forall c, In c (heads ns body) -> rank tbl c < rank tbl n).

(* every rule called in head position of e has rank below r *)
Definition hb (e : rexpr) (r : nat) : Prop := forall c, In c (heads ns e) -> rank tbl c < r.

Lemma hb_R : forall e, hb e R.
Proof. intros e c _. apply rank_lt. Qed.

Lemma call_rule_total : forall f n r m pos inp,
  (forall e r m pos inp, ok_expr cg ns e = true -> hb e r -> r <= R ->
     length inp * S R + r < f -> exists o, reval cg f e m pos inp = Ok o) ->
  find_rule cg n <> None -> rank tbl n < r -> r <= R -> length inp * S R + r < S f ->
  exists o, call_rule cg (reval cg f) n m pos inp = Ok o.
Proof.
  intros f n r m pos inp IH Hdef Hrk HrR Hfuel. unfold call_rule.
  destruct (find_rule cg n) as [[md body]|] eqn:F; [|congruence].
  destruct (rule_ok _ _ _ F) as (Hok & Hheads).
  destruct (IH body (rank tbl n) (inner_mode n md m) pos inp Hok Hheads) as [o Ho]; [lia|lia|].
  rewrite Ho. cbn [bind]. destruct o as [[[p' i'] ch]|]; eauto.
Qed.

Lemma reval_total : forall fuel e r m pos inp,
  ok_expr cg ns e = true -> hb e r -> r <= R -> length inp * S R + r < fuel ->
  exists o, reval cg fuel e m pos inp = Ok o.
Proof.
  induction fuel as [|f IHf]; [intros; lia|].
  induction e as [s|lo hi| | | |n| |a IHa b IHb|a IHa b IHb|a IHa|a IHa|a IHa|a IHa];
    intros r m pos inp Hok Hhb HrR Hfuel.
  - rewrite reval_str. destruct (strip_prefix s inp); eauto.
  - rewrite reval_range. destruct inp as [|b i]; eauto. destruct ((lo <=? b)%N && (b <=? hi)%N); eauto.
  - rewrite reval_any. destruct inp as [|b i]; eauto. destruct (drop_cont (utf8_extra b) i); eauto.
  - rewrite reval_soi. destruct (pos =? 0)%N; eauto.
  - rewrite reval_eoi. destruct inp; eauto.
  - rewrite reval_ref. cbn [ok_expr] in Hok.
    apply (call_rule_total f n r m pos inp IHf); try assumption.
    + destruct (find_rule cg n); [discriminate|discriminate].
    + apply Hhb. cbn [heads]. left; reflexivity.
  - rewrite reval_skip. destruct (is_nonatomic m); eauto. cbn [ok_expr] in Hok.
    apply (call_rule_total f skip_name r m pos inp IHf); try assumption.
    + destruct (find_rule cg skip_name); [discriminate|discriminate].
    + apply Hhb. cbn [heads]. left; reflexivity.
  - rewrite reval_seq. cbn [ok_expr] in Hok. apply andb_prop in Hok. destruct Hok as [Hoa Hob].
    assert (Hha : hb a r) by (intros c Hc; apply Hhb; cbn [heads]; apply in_or_app; left; exact Hc).
    destruct (IHa r m pos inp Hoa Hha HrR Hfuel) as [oa Ha]. rewrite Ha. cbn [bind].
    destruct oa as [[[p1 i1] t1]|]; eauto.
    pose proof (reval_good cg ns ns_closed (S f) a m pos inp) as G. rewrite Ha in G. cbn [good] in G.
    destruct G as (G1 & G2 & G3).
    assert (Hb : exists ob, reval cg (S f) b m p1 i1 = Ok ob).
    { destruct (N.eq_dec p1 pos) as [E|E].
      - assert (Hhbb : hb b r).
        { intros c Hc. apply Hhb. cbn [heads]. apply in_or_app. right. rewrite (G3 E). exact Hc. }
        apply (IHb r m p1 i1 Hob Hhbb HrR). assert (length i1 = length inp) by lia. lia.
      - apply (IHb R m p1 i1 Hob (hb_R b)); [lia|].
        assert (S (length i1) <= length inp) by lia.
        pose proof (Nat.mul_le_mono_r _ _ (S R) H). lia. }
    destruct Hb as [ob Hb]. rewrite Hb. cbn [bind]. destruct ob as [[[p2 i2] t2]|]; eauto.
  - rewrite reval_choice. cbn [ok_expr] in Hok. apply andb_prop in Hok. destruct Hok as [Hoa Hob].
    assert (Hha : hb a r) by (intros c Hc; apply Hhb; cbn [heads]; apply in_or_app; left; exact Hc).
    assert (Hhbb : hb b r) by (intros c Hc; apply Hhb; cbn [heads]; apply in_or_app; right; exact Hc).
    destruct (IHa r m pos inp Hoa Hha HrR Hfuel) as [oa Ha]. rewrite Ha. cbn [bind].
    destruct oa as [x|]; eauto.
  - rewrite reval_opt. cbn [ok_expr] in Hok.
    destruct (IHa r m pos inp Hok Hhb HrR Hfuel) as [oa Ha]. rewrite Ha. cbn [bind].
    destruct oa as [x|]; eauto.
  - rewrite reval_star. cbn [ok_expr] in Hok. apply andb_prop in Hok. destruct Hok as [Hnn Hoa].
    destruct (IHa r m pos inp Hoa Hhb HrR Hfuel) as [oa Ha]. rewrite Ha. cbn [bind].
    destruct oa as [[[p1 i1] t1]|]; eauto.
    pose proof (reval_good cg ns ns_closed (S f) a m pos inp) as G. rewrite Ha in G. cbn [good] in G.
    destruct G as (G1 & G2 & G3).
    destruct (N.eqb_spec p1 pos) as [E|E].
    + rewrite (G3 E) in Hnn. discriminate.
    + assert (Hs : exists o, reval cg f (RStar a) m p1 i1 = Ok o).
      { apply (IHf (RStar a) R m p1 i1); [cbn [ok_expr]; rewrite Hnn, Hoa; reflexivity|apply hb_R|lia|].
        assert (S (length i1) <= length inp) by lia.
        pose proof (Nat.mul_le_mono_r _ _ (S R) H). lia. }
      destruct Hs as [o Hs]. rewrite Hs. cbn [bind]. destruct o as [[[p2 i2] t2]|]; eauto.
  - rewrite reval_not. cbn [ok_expr] in Hok.
    destruct (IHa r m pos inp Hok Hhb HrR Hfuel) as [oa Ha]. rewrite Ha. cbn [bind].
    destruct oa as [x|]; eauto.
  - rewrite reval_and. cbn [ok_expr] in Hok.
    destruct (IHa r m pos inp Hok Hhb HrR Hfuel) as [oa Ha]. rewrite Ha. cbn [bind].
    destruct oa as [x|]; eauto.
Qed.
End Termination.

(* ---------- from the boolean check to the hypotheses ---------- *)
Lemma rank_In : forall tbl n, rank tbl n = 0 \/ In (n, rank tbl n) tbl.
Proof.
  induction tbl as [|[n' k] tbl IH]; intro n; cbn [rank]; [left; reflexivity|].
  destruct (String.eqb n' n) eqn:E.
  - apply String.eqb_eq in E. subst. right. left. reflexivity.
  - destruct (IH n) as [H|H]; [left; exact H|right; right; exact H].
Qed.

Section FromCheck.
Variable cg : cgrammar.
Hypothesis Hwf : wf_cgrammar cg = true.
Let ns := null_set cg.
Let tbl := rank_table cg ns.

Lemma wf_rule : forall n md body, In (n, md, body) cg ->
  ok_expr cg ns body = true /\
  (nullable ns body = true -> mem n ns = true) /\
  (forall c, In c (heads ns body) -> rank tbl c < rank tbl n) /\
  rank tbl n <= length cg.
Proof.
  intros n md body Hin. unfold wf_cgrammar in Hwf. fold ns in Hwf. fold tbl in Hwf.
  rewrite forallb_forall in Hwf. specialize (Hwf _ Hin). cbn beta iota in Hwf.
  apply andb_prop in Hwf. destruct Hwf as [H123 H4].
  apply andb_prop in H123. destruct H123 as [H12 H3].
  apply andb_prop in H12. destruct H12 as [H1 H2].
  repeat split.
  - exact H1.
  - intro Hn. rewrite Hn in H2. exact H2.
  - intros c Hc. rewrite forallb_forall in H3. specialize (H3 _ Hc). apply Nat.ltb_lt in H3. exact H3.
  - apply Nat.leb_le in H4. exact H4.
Qed.

Lemma wf_ns_closed : forall n md body,
  find_rule cg n = Some (md, body) -> nullable ns body = true -> mem n ns = true.
Proof. intros n md body F. apply find_rule_In in F. apply (wf_rule _ _ _ F). Qed.

Lemma wf_rule_ok : forall n md body, find_rule cg n = Some (md, body) ->
  ok_expr cg ns body = true /\ (forall c, In c (heads ns body) -> rank tbl c < rank tbl n).
Proof.
  intros n md body F. apply find_rule_In in F. destruct (wf_rule _ _ _ F) as (H1 & _ & H3 & _).
  split; assumption.
Qed.

Lemma wf_rank_lt : forall n, rank tbl n < length cg + 1.
Proof.
  intro n. destruct (rank_In tbl n) as [H|H]; [lia|].
  unfold tbl at 2 in H. unfold rank_table in H. apply in_map_iff in H.
  destruct H as [[[n' md] body] [E Hin]]. cbn [fst] in E. inversion E; subst n'.
  destruct (wf_rule _ _ _ Hin) as (_ & _ & _ & H4). fold tbl in H4. lia.
Qed.

Theorem reval_wf_total : forall start m input,
  find_rule cg start <> None ->
  exists o, reval cg ((length input + 1) * (length cg + 2)) (RRef start) m 0%N input = Ok o.
Proof.
  intros start m input Hdef.
  apply (reval_total cg ns tbl (length cg + 1) wf_ns_closed wf_rank_lt wf_rule_ok) with (r := length cg + 1).
  - cbn [ok_expr]. destruct (find_rule cg start); [reflexivity|congruence].
  - apply hb_R. exact wf_rank_lt.
  - lia.
  - replace (S (length cg + 1)) with (length cg + 2) by lia.
    rewrite Nat.mul_add_distr_r. lia.
Qed.
End FromCheck.

(* ---------- the theorems ---------- *)
Theorem peg_parse_total : forall g start input,
  wf_grammar g = true -> find_rule (compile g) start <> None ->
  exists o, peg_parse g start input = Ok o.
Proof.
  intros g start input Hwf Hdef. unfold peg_parse, peg_parse_fuel, enough_fuel.
  destruct (reval_wf_total (compile g) Hwf start NonAtomic input Hdef) as [o Ho].
  rewrite Ho. cbn [bind]. eauto.
Qed.

(* without the side condition: the only panic left is the undefined start rule; in particular the
   fuel never runs out and no repetition spins on the empty string *)
Theorem peg_parse_wf_panic : forall g start input s,
  wf_grammar g = true -> peg_parse g start input = Panic s -> s = "undefined rule"%string.
Proof.
  intros g start input s Hwf H.
  destruct (find_rule (compile g) start) as [x|] eqn:F.
  - destruct (peg_parse_total g start input Hwf) as [o Ho]; [congruence|]. congruence.
  - unfold peg_parse, peg_parse_fuel, enough_fuel in H.
    destruct ((length input + 1) * (length (compile g) + 2)) as [|f] eqn:E.
    + apply Nat.eq_mul_0 in E. lia.
    + rewrite reval_ref in H. unfold call_rule in H. rewrite F in H. cbn [bind] in H. congruence.
Qed.

Theorem peg_parse_fuel_suffices : forall g start input,
  wf_grammar g = true ->
  exists r, peg_parse_fuel (enough_fuel g input) g start input = r /\
            r <> Panic "out of fuel" /\ r <> Panic "empty repetition".
Proof.
  intros g start input Hwf. eexists. split; [reflexivity|].
  fold (peg_parse g start input).
  split; intro H; apply (peg_parse_wf_panic _ _ _ _ Hwf) in H; discriminate.
Qed.

Lemma asm_grammar_wf : wf_grammar asm_grammar = true.
Proof. vm_compute. reflexivity. Qed.

Theorem parse_program_total : forall input, exists o, parse_program input = Ok o.
Proof.
  intro input. apply peg_parse_total; [exact asm_grammar_wf|].
  vm_compute. discriminate.
Qed.
