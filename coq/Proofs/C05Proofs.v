(* Proofs/C05Proofs.v -- from an execution of a block (Spec/EvmExec.v, under a fixed world) to
   an interpretation of the solver's symbols under which the translated exit of the annotated
   block denotes exactly the executed transfer; then the whole pipeline. *)
From Coq Require Import Lia ZifyBool ZifyNat ZifyN Permutation.
From Verif Require Import Model.Base Model.Ops Model.Disasm Model.Blocks Model.Sym Model.SymTree
  Model.Annot Spec.EvmSem Spec.EvmExec Spec.SmtBv Spec.SymEval Spec.CfgSpec Model.Z3Tr Model.Cfg
  Model.Pipeline
  Proofs.OpsProofs Proofs.DisasmProofs Proofs.BlocksProofs Proofs.SymProofs Proofs.Z3TrProofs Proofs.AnnotProofs
  Proofs.AnnotTotalProofs Proofs.CfgProofs Proofs.BridgeProofs Proofs.PipelineProofs
  Proofs.CfgSoundProofs.
Open Scope Z_scope.

(* ---------- well-formed payloads: from the symbols of the encoding to the tree ---------- *)
Lemma wf_tree_of_syms : forall t, arity_ok t ->
  Forall (fun ts => wf_sym (fst ts) = true) (tencode t) -> wf_tree (erase_tree t) = true.
Proof.
  induction t as [s args IH] using ttree_ind'. intros Ha Hw.
  apply arity_ok_node in Ha as [Hc Hargs]. cbn [tencode] in Hw. inversion Hw as [|? ? Hs Hrest]; subst.
  cbn [erase_tree wf_tree]. rewrite Hs, map_length, <- Hc, Nat.eqb_refl. cbn [andb].
  apply forallb_forall. intros x Hx. apply in_map_iff in Hx as (y & <- & Hy).
  rewrite Forall_forall in IH, Hargs. apply IH; [exact Hy|apply Hargs; exact Hy|].
  apply Forall_forall. intros ts Hts. rewrite Forall_forall in Hrest. apply Hrest.
  apply in_concat. exists (tencode y). split; [now apply in_map|exact Hts].
Qed.

Lemma senv_of_matches : forall Wd s reads, senv_matches Wd s (senv_of Wd s reads).
Proof. intros. unfold senv_matches, senv_of. cbn. auto. Qed.

(* one expression: its term, under the interpretation built from the reads, denotes its value *)
Lemma expr_denotes : forall Wd s rho tr, consistent Wd rho tr -> words s rho ->
  forall e, expr_reads_ok s rho tr e -> Forall (fun ts => wf_sym (fst ts) = true) e ->
  exists td, e = tencode td /\ reads_ok s rho tr td /\ arity_tree (erase_tree td) = true /\
    wf_tree (erase_tree td) = true /\ erase e = encode_tree (erase_tree td) /\
    eval_texpr s rho e = Annot.eval_tree s rho td /\
    forall pre post n, n = length pre ->
      let E := senv_of Wd s (pre ++ read_vals s rho td ++ post) in
      bv_eval (concrete_interp E) (fst (tr_tree (erase_tree td) n)) = Annot.eval_tree s rho td /\
      snd (tr_tree (erase_tree td) n) = (n + length (read_vals s rho td))%nat.
Proof.
  intros Wd s rho tr Hc Hw e Hr Hsy. unfold expr_reads_ok in Hr.
  destruct (ttree_of e) as [td|] eqn:Et; [|destruct Hr]. destruct Hr as [-> Hr].
  pose proof (reads_ok_arity _ _ _ _ Hr) as Ha.
  pose proof (wf_tree_of_syms td Ha Hsy) as Hwf.
  exists td. split; [reflexivity|]. split; [exact Hr|]. split; [now apply arity_erase|]. split; [exact Hwf|].
  split; [apply erase_tencode|]. split; [now apply eval_texpr_tencode|].
  intros pre post n Hn E.
  destruct (tr_sound E (erase_tree td) n Hwf) as [S1 S2].
  assert (B : SymEval.eval_tree E (erase_tree td) n
              = (Annot.eval_tree s rho td, (n + length (read_vals s rho td))%nat)).
  { apply (bridge Wd s rho tr Hc Hw td Hr Hwf E n); [apply senv_of_matches|].
    intros i Hi. unfold E, senv_of. cbn [se_read]. subst n.
    rewrite app_nth2 by lia. replace (length pre + i - length pre)%nat with i by lia.
    now rewrite app_nth1. }
  rewrite S1, S2, B. split; reflexivity.
Qed.

(* ---------- the exit of an annotated block ---------- *)
Theorem exit_denotes : forall Wd s rho tr x t,
  consistent Wd rho tr -> words s rho ->
  Forall (expr_reads_ok s rho tr) (exit_exprs x) ->
  Forall (fun e => Forall (fun ts => wf_sym (fst ts) = true) e) (exit_exprs x) ->
  exit_transfer s rho x = t ->
  exists M z, exit_to_z3 (aexit_of x) = Ok z /\ ztransfer M z = t.
Proof.
  intros Wd s rho tr x t Hc Hw Hr Hsy Ht.
  destruct x as [|n|d|c tt f]; cbn [exit_exprs exit_transfer aexit_of exit_to_z3] in *.
  - exists M0, ZTerminate. subst t. split; reflexivity.
  - exists M0, (ZFallThrough (Z.of_N n)). subst t. split; reflexivity.
  - inversion Hr as [|? ? Hd _]; subst. inversion Hsy as [|? ? Sd _]; subst.
    destruct (expr_denotes Wd s rho tr Hc Hw d Hd Sd) as (td & _ & _ & Ha & _ & Ee & Ev & Hsem).
    destruct (Hsem [] [] 0%nat eq_refl) as [V _]. cbn [app] in V.
    eexists. exists (ZUnconditional (fst (tr_tree (erase_tree td) 0))).
    rewrite Ee, (tr_walk _ 0%nat Ha). cbn [bind]. split; [reflexivity|].
    cbn [ztransfer]. rewrite V, Ev. reflexivity.
  - inversion Hr as [|? ? Hcnd Hr']; subst. inversion Hr' as [|? ? Htt _]; subst.
    inversion Hsy as [|? ? Scnd Hs']; subst. inversion Hs' as [|? ? Stt _]; subst.
    destruct (expr_denotes Wd s rho tr Hc Hw tt Htt Stt) as (tdt & _ & _ & Hat & _ & Eet & Evt & Hsemt).
    destruct (expr_denotes Wd s rho tr Hc Hw c Hcnd Scnd) as (tdc & _ & _ & Hac & _ & Eec & Evc & Hsemc).
    (* when_true is translated first, the condition continues its fresh-constant numbering *)
    destruct (Hsemt [] (read_vals s rho tdc) 0%nat eq_refl) as [Vt Nt]. cbn [app] in Vt, Nt.
    destruct (Hsemc (read_vals s rho tdt) [] (length (read_vals s rho tdt)) eq_refl) as [Vc _].
    rewrite app_nil_r in Vc. cbn [Nat.add] in Nt.
    eexists. exists (ZBranch (fst (tr_tree (erase_tree tdc) (length (read_vals s rho tdt))))
                             (fst (tr_tree (erase_tree tdt) 0)) (Z.of_N f)).
    rewrite Eet, (tr_walk _ 0%nat Hat). cbn [bind fst snd]. rewrite Nt, Eec, (tr_walk _ _ Hac). cbn [bind fst snd].
    split; [reflexivity|]. cbn [ztransfer]. rewrite Vt, Vc, Evt, Evc. reflexivity.
Qed.

(* ---------- the annotated blocks of a code ---------- *)
Lemma jt_is_jumpdest : bytes_all (fun c => Bool.eqb (r_jt (from_u8 cancun c)) (c =? 0x5b)%N) = true.
Proof. vm_compute. reflexivity. Qed.

Definition jd_head (b : block) : bool :=
  match b_ops b with it :: _ => (i_code it =? 0x5b)%N | [] => false end.

Lemma annotate_fields : forall off ops a, annotate off ops = Ok a ->
  an_offset a = off /\ an_jt a = match ops with op :: _ => r_jt (row_of op) | [] => false end.
Proof.
  intros off ops a H. unfold annotate in H.
  destruct (annotate_loop 0 off ops _) as [[x st]| |]; cbn [bind] in H; try discriminate.
  destruct ops; [discriminate|]. inversion H; subst. cbn. auto.
Qed.

Lemma annotate_all_F2 : forall bs anns, annotate_all bs = Ok anns ->
  Forall2 (fun b a => annotate (b_off b) (b_ops b) = Ok a) bs anns.
Proof.
  induction bs as [|b r IH]; intros anns H; cbn [annotate_all] in H.
  - inversion H. constructor.
  - destruct (annotate (b_off b) (b_ops b)) as [a| |] eqn:Ea; cbn [bind] in H; try discriminate.
    destruct (annotate_all r) as [rest| |]; cbn [bind] in H; try discriminate.
    inversion H; subst. constructor; [exact Ea|now apply IH].
Qed.

Lemma F2_in_l : forall (A B : Type) (R : A -> B -> Prop) l1 l2 x, Forall2 R l1 l2 -> In x l1 ->
  exists y, In y l2 /\ R x y.
Proof.
  induction 1 as [|a b l1 l2 H H2 IH]; intros Hin; [destruct Hin|].
  destruct Hin as [<-|Hin]; [exists b; split; [now left|exact H]|].
  destruct (IH Hin) as (y & Hy & Hr). exists y. split; [now right|exact Hr].
Qed.
Lemma F2_in_r : forall (A B : Type) (R : A -> B -> Prop) l1 l2 y, Forall2 R l1 l2 -> In y l2 ->
  exists x, In x l1 /\ R x y.
Proof.
  induction 1 as [|a b l1 l2 H H2 IH]; intros Hin; [destruct Hin|].
  destruct Hin as [<-|Hin]; [exists a; split; [now left|exact H]|].
  destruct (IH Hin) as (x & Hx & Hr). exists x. split; [now right|exact Hr].
Qed.

(* the fall-through offset of a branch lies within the block *)
Lemma branch_offset_bound : forall off ops a c t n, annotate off ops = Ok a ->
  an_exit a = XBranch c t n -> (n <= off + sizes ops)%N.
Proof.
  intros off ops a c t n H Hx. unfold annotate in H.
  destruct (annotate_loop 0 off ops _) as [[x st]| |] eqn:E; cbn [bind] in H; try discriminate.
  destruct ops as [|o r]; [discriminate|]. inversion H; subst. cbn [an_exit] in Hx. subst x.
  apply loop_exit in E. destruct E as (pre & op & Eo & _ & _ & ->). rewrite Eo, sizes_app.
  assert (1 <= sizes [op])%N.
  { unfold sizes. cbn [map sumN fold_right]. unfold row_of.
    pose proof (ilen_pos (i_code op)). unfold ilen in H0. lia. }
  lia.
Qed.

Definition block_heads (code : list N) : list Z := map (fun b => Z.of_N (b_off b)) (blocks_of code).
Definition jumpdest_heads (code : list N) : list Z :=
  map (fun b => Z.of_N (b_off b)) (filter jd_head (blocks_of code)).

Section Sound.
  Variable solver : list bvform -> bool.
  Hypothesis Hsound : sound solver.
  Variable code : list N.
  Hypothesis Hbytes : Forall (fun b => (b < 256)%N) code.
  Hypothesis Hlen : (N.of_nat (length code) <= 65536)%N.
  Variable g : cfg.
  Hypothesis Hpipe : pipeline solver code = Ok g.

  Theorem executed_transfer_is_an_edge : forall blk, In blk (blocks_of code) ->
    ~ KnownClass_C06_cancun_gap (map instr_of (b_ops blk)) ->
    forall Wd s rho st t tr,
      words s rho -> Z.of_nat (length s) <= 65535 ->
      exec_block rho (Z.of_N (b_off blk)) (map instr_of (b_ops blk)) s = Done st t tr ->
      consistent Wd rho tr ->
      let e := (NBlock (Z.of_N (b_off blk)),
                node_of (successor (block_heads code) (jumpdest_heads code) t)) in
      (exists g0, pipeline_initial code = Ok g0 /\ In e (g_edges g0)) /\ In e (g_edges g).
  Proof.
    intros blk Hblk Hgap Wd s rho st t tr Hw Hs Hex Hcons e.
    unfold pipeline in Hpipe.
    destruct (annotate_all (blocks_of code)) as [anns| |] eqn:Ea; cbn [bind] in Hpipe; try discriminate.
    destruct (cfg_new (map ablock_of anns)) as [g0| |] eqn:Eg; cbn [bind] in Hpipe; try discriminate.
    pose proof (annotate_all_F2 _ _ Ea) as F2.
    pose proof (blocks_basic code Hbytes Hlen) as Basic. rewrite Forall_forall in Basic.
    (* the block that runs *)
    destruct (Basic blk Hblk) as (B1 & B2 & B3 & B4 & B5).
    assert (Hcodes : Forall (fun it => (i_code it < 256)%N) (b_ops blk))
      by (eapply Forall_impl; [|exact B3]; intros it Hi; exact (proj1 Hi)).
    assert (Himm : Forall (fun it => Forall (fun b => (b < 256)%N) (i_imm it)) (b_ops blk))
      by (eapply Forall_impl; [|exact B3]; intros it Hi; exact (proj2 Hi)).
    assert (Hh : block_hyps (b_off blk) (b_ops blk)) by (unfold block_hyps; auto 10).
    destruct (annotate_agrees _ _ s rho st t tr Hh Hs Hex) as (a & Ann & _ & _ & _ & Ht & Hreads & Eoff & _ & _).
    apply Forall_app in Hreads as [_ Hreads].
    pose proof (annotate_wf_syms _ _ a B2 Hcodes Himm Ann) as Hsy. apply Forall_app in Hsy as [_ Hsy].
    destruct (exit_denotes Wd s rho tr (an_exit a) t Hcons Hw Hreads Hsy Ht) as (M & z & Hz & Hzt).
    destruct (F2_in_l _ _ _ _ _ blk F2 Hblk) as (a' & Ha' & Ann'). rewrite Ann in Ann'. inversion Ann'; subst a'.
    (* the graph *)
    destruct (cfg_new_wf _ _ Eg) as (P & _).
    assert (InG : forall b, In b (g_blocks g0) -> exists a0 b0, In a0 anns /\ b = ablock_of a0 /\
              In b0 (blocks_of code) /\ annotate (b_off b0) (b_ops b0) = Ok a0).
    { intros b Hb. eapply Permutation_in in Hb; [|apply Permutation_sym; exact P].
      apply in_rev in Hb. apply in_map_iff in Hb as (a0 & <- & Ha0).
      destruct (F2_in_r _ _ _ _ _ a0 F2 Ha0) as (b0 & Hb0 & Hann0). eauto 6. }
    assert (Hoff : forall b, In b (g_blocks g0) -> 0 <= ab_off b < 2 ^ 256).
    { intros b Hb. destruct (InG b Hb) as (a0 & b0 & _ & -> & Hb0 & Hann0).
      destruct (annotate_fields _ _ _ Hann0) as [Eo _]. unfold ablock_of. cbn [ab_off]. rewrite Eo.
      destruct (Basic b0 Hb0) as (_ & _ & _ & _ & Bd).
      assert (2 ^ 256 > 65536) by (vm_compute; reflexivity). lia. }
    assert (Hft : forall b c0 t0 f, In b (g_blocks g0) -> ab_exit b = ABranch c0 t0 f -> 0 <= f < 2 ^ 256).
    { intros b c0 t0 f Hb Hx. destruct (InG b Hb) as (a0 & b0 & _ & -> & Hb0 & Hann0).
      unfold ablock_of in Hx. cbn [ab_exit] in Hx. destruct (an_exit a0) as [| | |cc tt n] eqn:Ex; try discriminate.
      cbn [aexit_of] in Hx. inversion Hx; subst.
      pose proof (branch_offset_bound _ _ _ _ _ _ Hann0 Ex) as Bn.
      destruct (Basic b0 Hb0) as (_ & W0 & _ & _ & Bd). rewrite (sizes_block_size (b_off b0) _ W0) in Bn.
      assert (2 ^ 256 > 65536) by (vm_compute; reflexivity). lia. }
    assert (Hb : In (ablock_of a) (g_blocks g0)).
    { eapply Permutation_in; [exact P|]. apply -> in_rev. apply in_map. exact Ha'. }
    destruct (taken_edge_kept solver Hsound _ g0 g Eg Hpipe Hoff Hft (ablock_of a) z M Hb Hz) as [I0 I1].
    rewrite Hzt in I0, I1.
    assert (Enode : (NBlock (ab_off (ablock_of a)),
                     node_of (successor (offsets (g_blocks g0)) (jt_offsets (g_blocks g0)) t)) = e).
    { unfold e. unfold ablock_of at 1. cbn [ab_off]. rewrite Eoff. f_equal. f_equal.
      apply successor_ext.
      - (* block offsets *)
        intros y. unfold offsets, block_heads. rewrite !in_map_iff. split.
        + intros (b & <- & Hbin). destruct (InG b Hbin) as (a0 & b0 & _ & -> & Hb0 & Hann0).
          destruct (annotate_fields _ _ _ Hann0) as [Eo _]. exists b0. unfold ablock_of. cbn [ab_off]. rewrite Eo. auto.
        + intros (b0 & <- & Hb0). destruct (F2_in_l _ _ _ _ _ b0 F2 Hb0) as (a0 & Ha0 & Hann0).
          destruct (annotate_fields _ _ _ Hann0) as [Eo _]. exists (ablock_of a0). split.
          * unfold ablock_of. cbn [ab_off]. now rewrite Eo.
          * eapply Permutation_in; [exact P|]. apply -> in_rev. now apply in_map.
      - (* jumpdest-headed blocks *)
        assert (Jd : forall b0 a0, In b0 (blocks_of code) -> annotate (b_off b0) (b_ops b0) = Ok a0 ->
                  an_jt a0 = jd_head b0).
        { intros b0 a0 Hb0 Hann0. destruct (annotate_fields _ _ _ Hann0) as [_ Ej]. rewrite Ej. unfold jd_head.
          destruct (b_ops b0) as [|it r] eqn:Eops; [reflexivity|].
          destruct (Basic b0 Hb0) as (_ & _ & By & _). rewrite Eops in By. inversion By as [|? ? [Hc _] _]; subst.
          pose proof (bytes_all_spec _ jt_is_jumpdest _ Hc) as Hjt. cbv beta in Hjt.
          unfold row_of. apply Bool.eqb_prop in Hjt. exact Hjt. }
        intros y. unfold jt_offsets, jumpdest_heads. rewrite !in_map_iff. split.
        + intros (b & <- & Hbin). apply filter_In in Hbin as [Hbin Hj].
          destruct (InG b Hbin) as (a0 & b0 & _ & -> & Hb0 & Hann0).
          destruct (annotate_fields _ _ _ Hann0) as [Eo _]. exists b0. unfold ablock_of in *. cbn [ab_off ab_jt] in *.
          rewrite Eo. split; [reflexivity|]. apply filter_In. split; [exact Hb0|]. now rewrite <- (Jd b0 a0 Hb0 Hann0).
        + intros (b0 & <- & Hb0). apply filter_In in Hb0 as [Hb0 Hj].
          destruct (F2_in_l _ _ _ _ _ b0 F2 Hb0) as (a0 & Ha0 & Hann0).
          destruct (annotate_fields _ _ _ Hann0) as [Eo _]. exists (ablock_of a0). split.
          * unfold ablock_of. cbn [ab_off]. now rewrite Eo.
          * apply filter_In. split.
            -- eapply Permutation_in; [exact P|]. apply -> in_rev. now apply in_map.
            -- unfold ablock_of. cbn [ab_jt]. now rewrite (Jd b0 a0 Hb0 Hann0). }
    rewrite Enode in I0, I1. split; [|exact I1].
    exists g0. split; [|exact I0]. unfold pipeline_initial. rewrite Ea. cbn [bind]. exact Eg.
  Qed.
End Sound.

(* ---------- the jumpdest-headed blocks are exactly the JUMPDEST instructions of the code ---------- *)
Theorem jumpdest_heads_spec : forall code d, Forall (fun b => (b < 256)%N) code ->
  In d (jumpdest_heads code) <->
  exists it, In it (items_of code) /\ i_code it = 0x5b%N /\ Z.of_N (i_off it) = d.
Proof.
  intros code d Hb. destruct (blocks_facts code) as (A & B & _). rewrite Forall_forall in B.
  pose proof (items_bytes code Hb) as By. rewrite Forall_forall in By.
  unfold jumpdest_heads. rewrite in_map_iff. split.
  - intros (b & <- & Hf). apply filter_In in Hf as [Hin Hj]. destruct (B b Hin) as (Hh & _ & _).
    unfold jd_head in Hj. unfold head_off in Hh. destruct (b_ops b) as [|it r] eqn:Eo; [discriminate|].
    exists it. split; [|split].
    + rewrite <- A. eapply all_ops_in; [exact Hin|]. rewrite Eo. now left.
    + now apply N.eqb_eq.
    + now rewrite Hh.
  - intros (it & Hit & Hc & <-). rewrite <- A in Hit. unfold all_ops in Hit.
    apply in_concat in Hit as (ops & Hops & Hin). apply in_map_iff in Hops as (b & <- & Hbin).
    destruct (B b Hbin) as (Hh & Hjt & _). exists b.
    assert (Hjtit : cancun_jt it = true).
    { unfold cancun_jt. rewrite Hc. vm_compute. reflexivity. }
    unfold head_off in Hh. unfold jt_only_head in Hjt.
    destruct (b_ops b) as [|hd r] eqn:Eo; [destruct Hin|]. cbn [tl] in Hjt.
    destruct Hin as [->|Hin].
    + split; [now rewrite Hh|]. apply filter_In. split; [exact Hbin|]. unfold jd_head. rewrite Eo. now apply N.eqb_eq.
    + rewrite Forall_forall in Hjt. rewrite (Hjt it Hin) in Hjtit. discriminate.
Qed.
