(* Proofs/AsmEncodeProofs.v -- the output is exactly the concatenation of the instruction
   encodings, and it decodes back to exactly those instructions (C02). *)
From Coq Require Import Lia ZifyBool ZifyNat ZifyN.
From Verif Require Import Model.Base Model.Ops Model.Expr Model.Asm Model.Disasm
  Proofs.OpsProofs Proofs.DisasmProofs Proofs.AsmLayoutProofs Proofs.AsmRangeProofs.
Open Scope Z_scope.

Section Encode.
  Variable macros : mtable.

  (* the output is the concatenation, in order, of what each item emits *)
  Lemma emit_concat : forall labels items ws bs,
    emit macros labels items ws = Ok bs ->
    exists parts,
      Forall2 (fun p part => emit_item macros labels (fst p) (snd p) = Ok part) (with_widths items ws) parts /\
      bs = concat parts.
  Proof.
    intros labels. induction items as [|it r IH]; intros ws bs H; cbn [emit with_widths] in *.
    - inversion H; subst. exists []. split; [constructor|reflexivity].
    - destruct it as [l|c imm|e|raw].
      + destruct (emit_item macros labels (ILabel l) 0) as [a|er|s] eqn:Ea; cbn [bind] in H; try discriminate.
        destruct (emit macros labels r ws) as [b|er|s] eqn:Eb; cbn [bind] in H; try discriminate.
        inversion H; subst. destruct (IH _ _ Eb) as (parts & F & ->).
        exists (a :: parts). split; [constructor; assumption|reflexivity].
      + destruct (emit_item macros labels (IOp c imm) 0) as [a|er|s] eqn:Ea; cbn [bind] in H; try discriminate.
        destruct (emit macros labels r ws) as [b|er|s] eqn:Eb; cbn [bind] in H; try discriminate.
        inversion H; subst. destruct (IH _ _ Eb) as (parts & F & ->).
        exists (a :: parts). split; [constructor; assumption|reflexivity].
      + destruct ws as [|w ws']; [discriminate|].
        destruct (emit_item macros labels (IPush e) w) as [a|er|s] eqn:Ea; cbn [bind] in H; try discriminate.
        destruct (emit macros labels r ws') as [b|er|s] eqn:Eb; cbn [bind] in H; try discriminate.
        inversion H; subst. destruct (IH _ _ Eb) as (parts & F & ->).
        exists (a :: parts). split; [constructor; assumption|reflexivity].
      + destruct (emit_item macros labels (IRaw raw) 0) as [a|er|s] eqn:Ea; cbn [bind] in H; try discriminate.
        destruct (emit macros labels r ws) as [b|er|s] eqn:Eb; cbn [bind] in H; try discriminate.
        inversion H; subst. destruct (IH _ _ Eb) as (parts & F & ->).
        exists (a :: parts). split; [constructor; assumption|reflexivity].
  Qed.

  (* labels, (macro) definitions contribute no bytes; an instruction contributes its opcode byte
     followed, for pushN, by exactly N bytes *)
  Lemma emit_item_shape : forall labels it w part,
    emit_item macros labels it w = Ok part ->
    match it with
    | ILabel _ => part = []
    | IRaw raw => part = raw
    | IOp c None => part = [c]
    | IOp c (Some _) => exists imm, part = c :: imm /\ length imm = extra_of c
    | IPush _ => exists imm, part = (0x5f + N.of_nat w)%N :: imm /\ length imm = w
    end.
  Proof.
    intros labels it w part H. destruct it as [l|c [e|]|e|raw]; cbn [emit_item] in H.
    - now inversion H.
    - destruct (emit_item_op_spec macros labels c e part) as (v & _ & _ & Hl & ->); [exact H|].
      eexists. split; [reflexivity|]. now apply pad_left_length.
    - now inversion H.
    - destruct (emit_item_push_spec macros labels e w part H) as (v & _ & _ & Hl & ->).
      eexists. split; [reflexivity|]. now apply pad_left_length.
    - now inversion H.
  Qed.
End Encode.

(* ---------- decoding a concatenation of well-formed instruction encodings ---------- *)
Lemma decode_flatten : forall its,
  Forall wf_item its -> offsets_from 0 its ->
  decode_all (flatten its) = (its, []).
Proof.
  intros its Hwf Hoff.
  destruct (decode_all_fuel_spec (length (flatten its)) 0 (flatten its) (le_n _)) as (A & B & C & D).
  fold (decode_all (flatten its)) in *.
  assert (E : (flatten (fst (decode_all (flatten its))) ++ snd (decode_all (flatten its)) = flatten its ++ [])%list)
    by (now rewrite app_nil_r).
  assert (Inil : incomplete []) by exact I.
  destruct (decomposition_unique _ _ _ _ B Hwf D Inil E) as [E1 E2].
  pose proof (items_eq _ _ 0 C Hoff E1) as E3.
  destruct (decode_all (flatten its)) as [a b]. cbn [fst snd] in *. now subst.
Qed.

(* an encoded push of width w is a well-formed instruction of the Cancun table *)
Lemma push_item_wf : forall w imm off, (1 <= w <= 32)%nat -> length imm = w ->
  wf_item (mkitem off (0x5f + N.of_nat w)%N imm).
Proof.
  intros w imm off Hw Hl. unfold wf_item, ilen, size. cbn [i_imm i_code].
  destruct (chk_fork_parts _ _ _ cancun_ok) as (_ & _ & _ & He & _).
  pose proof (bytes_all_spec _ He (0x5f + N.of_nat w)%N ltac:(lia)) as P. cbv beta in P.
  apply N.eqb_eq in P. rewrite P. unfold Spec.EvmOpcodes.evm_imm_len.
  destruct ((96 <=? 95 + N.of_nat w) && (95 + N.of_nat w <=? 127))%N eqn:E; lia.
Qed.
