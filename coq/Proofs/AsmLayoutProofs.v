(* Proofs/AsmLayoutProofs.v -- the relaxation layout is consistent with the emitted bytes (C01),
   auto-sized pushes hold their value at the decided width (C07), operands are range-checked (C09). *)
From Coq Require Import Lia ZifyBool ZifyNat ZifyN.
From Verif Require Import Model.Base Model.Ops Model.Expr Model.Asm.
Open Scope Z_scope.

(* ---------- byte helpers ---------- *)
Lemma pad_left_length : forall n bs, (length bs <= n)%nat -> length (pad_left n bs) = n.
Proof. intros n bs H. unfold pad_left. rewrite app_length, repeat_length. lia. Qed.

Lemma concretize_imm_length : forall n spec v bs,
  concretize_imm n spec v = Ok bs -> length bs = n.
Proof.
  intros n spec v bs. unfold concretize_imm.
  destruct (v <? 0); [discriminate|].
  destruct (Nat.leb_spec (length (be_bytes (Z.to_N v))) n) as [H|H]; [|discriminate].
  intros E. inversion E; subst. now apply pad_left_length.
Qed.

Section Layout.
  Variable macros : mtable.

  (* total size of a prefix of the item list under the widths ws *)
  Fixpoint total_size (items : list ritem) (ws : list nat) : Z :=
    match items with
    | [] => 0
    | IPush e :: r =>
        match ws with
        | w :: ws' => item_size (IPush e) w + total_size r ws'
        | [] => item_size (IPush e) 1 + total_size r []
        end
    | it :: r => item_size it 0 + total_size r ws
    end.

  Definition labels_of (items : list ritem) : list string :=
    concat (map (fun it => match it with ILabel l => [l] | _ => [] end) items).

  Lemma count_push_app : forall a b, count_push (a ++ b) = (count_push a + count_push b)%nat.
  Proof. intros. unfold count_push. now rewrite filter_app, app_length. Qed.

  (* ---------- positions are prefix sums ---------- *)
  Lemma assoc_positions_notin : forall items ws p l,
    ~ In l (labels_of items) -> assoc (positions items ws p) l = None.
  Proof.
    induction items as [|it r IH]; intros ws p l Hn; cbn [positions]; [reflexivity|].
    destruct it as [l'|c imm|e|bs]; cbn [labels_of map concat app] in Hn.
    - cbn [assoc]. destruct (String.eqb_spec l' l) as [->|Hne].
      + exfalso. apply Hn. now left.
      + apply IH. intros Hin. apply Hn. now right.
    - apply IH. exact Hn.
    - destruct ws as [|w ws']; apply IH; exact Hn.
    - apply IH. exact Hn.
  Qed.

  Lemma positions_label : forall pre ws p l post,
    ~ In l (labels_of pre) ->
    assoc (positions (pre ++ ILabel l :: post) ws p) l = Some (p + total_size pre ws).
  Proof.
    induction pre as [|it r IH]; intros ws p l post Hn; cbn [app positions total_size].
    - cbn [assoc]. rewrite String.eqb_refl. f_equal; lia.
    - destruct it as [l'|c imm|e|bs]; cbn [labels_of map concat app] in Hn.
      + cbn [assoc]. destruct (String.eqb_spec l' l) as [->|Hne].
        * exfalso. apply Hn. now left.
        * rewrite IH by (intros Hin; apply Hn; now right). cbn [item_size]. f_equal; lia.
      + rewrite IH by exact Hn. f_equal; lia.
      + destruct ws as [|w ws']; rewrite IH by exact Hn; f_equal; lia.
      + rewrite IH by exact Hn. f_equal; lia.
  Qed.

  (* ---------- the loop stops at a fixed point of the widening sweep ---------- *)
  Lemma list_nat_eqb_eq : forall a b, list_nat_eqb a b = true -> a = b.
  Proof.
    induction a as [|x a IH]; intros [|y b] H; cbn in H; try discriminate; auto.
    apply andb_true_iff in H as [H1 H2]. apply PeanoNat.Nat.eqb_eq in H1. f_equal; auto.
  Qed.

  Lemma layout_loop_spec : forall fuel items ws w pos,
    layout_loop macros fuel items ws = Ok (w, pos) ->
    pos = positions items w 0 /\ widen macros items (lenv pos) w = w.
  Proof.
    induction fuel as [|f IH]; intros items ws w pos H; cbn [layout_loop] in H; [discriminate|].
    destruct (list_nat_eqb ws (widen macros items (lenv (positions items ws 0)) ws)) eqn:E.
    - inversion H; subst. apply list_nat_eqb_eq in E. split; [reflexivity|]. now rewrite <- E.
    - now apply IH in H.
  Qed.

  (* ---------- emission: length and splitting ---------- *)
  Lemma emit_item_length : forall labels it w bs,
    emit_item macros labels it w = Ok bs -> Z.of_nat (length bs) = item_size it w.
  Proof.
    intros labels it w bs H. destruct it as [l|c [e|]|e|raw]; cbn [emit_item item_size] in *.
    - inversion H; subst. reflexivity.
    - destruct (eval_op macros labels e) as [v|er|s]; try discriminate.
      destruct (concretize_imm (extra_of c) (mnemonic_of c) v) as [b|er|s] eqn:E; cbn [bind] in H; try discriminate.
      inversion H; subst. apply concretize_imm_length in E. cbn [length]. lia.
    - inversion H; subst. reflexivity.
    - destruct (eval_op macros labels e) as [v|er|s]; try discriminate.
      destruct (concretize_imm w _ v) as [b|er|s] eqn:E; cbn [bind] in H; try discriminate.
      inversion H; subst. apply concretize_imm_length in E. cbn [length]. lia.
    - inversion H; subst. reflexivity.
  Qed.

  Lemma emit_length : forall labels items ws bs,
    emit macros labels items ws = Ok bs -> Z.of_nat (length bs) = total_size items ws.
  Proof.
    intros labels. induction items as [|it r IH]; intros ws bs H; cbn [emit total_size] in *.
    - inversion H; subst. reflexivity.
    -       destruct it as [l|c imm|e|raw].
      + destruct (emit_item macros labels (ILabel l) 0) as [a|er|s] eqn:Ea; cbn [bind] in H; try discriminate.
        destruct (emit macros labels r ws) as [b|er|s] eqn:Eb; cbn [bind] in H; try discriminate.
        inversion H; subst. rewrite app_length, Nat2Z.inj_add.
        rewrite (IH _ _ Eb). apply emit_item_length in Ea. lia.
      + destruct (emit_item macros labels (IOp c imm) 0) as [a|er|s] eqn:Ea; cbn [bind] in H; try discriminate.
        destruct (emit macros labels r ws) as [b|er|s] eqn:Eb; cbn [bind] in H; try discriminate.
        inversion H; subst. rewrite app_length, Nat2Z.inj_add.
        rewrite (IH _ _ Eb). apply emit_item_length in Ea. lia.
      + destruct ws as [|w ws']; [discriminate|].
        destruct (emit_item macros labels (IPush e) w) as [a|er|s] eqn:Ea; cbn [bind] in H; try discriminate.
        destruct (emit macros labels r ws') as [b|er|s] eqn:Eb; cbn [bind] in H; try discriminate.
        inversion H; subst. rewrite app_length, Nat2Z.inj_add.
        rewrite (IH _ _ Eb). apply emit_item_length in Ea. lia.
      + destruct (emit_item macros labels (IRaw raw) 0) as [a|er|s] eqn:Ea; cbn [bind] in H; try discriminate.
        destruct (emit macros labels r ws) as [b|er|s] eqn:Eb; cbn [bind] in H; try discriminate.
        inversion H; subst. rewrite app_length, Nat2Z.inj_add.
        rewrite (IH _ _ Eb). apply emit_item_length in Ea. lia.
  Qed.

  Lemma emit_split : forall labels pre post ws bs,
    emit macros labels (pre ++ post) ws = Ok bs ->
    exists b1 b2, bs = b1 ++ b2 /\ emit macros labels pre ws = Ok b1 /\
                  emit macros labels post (skipn (count_push pre) ws) = Ok b2.
  Proof.
    intros labels. induction pre as [|it r IH]; intros post ws bs H; cbn [app] in H.
    - exists [], bs. cbn. auto.
    - cbn [emit] in H. destruct it as [l|c imm|e|raw].
      + destruct (emit_item macros labels (ILabel l) 0) as [a|er|s] eqn:Ea; cbn [bind] in H; try discriminate.
        destruct (emit macros labels (r ++ post) ws) as [b|er|s] eqn:Eb; cbn [bind] in H; try discriminate.
        inversion H; subst. destruct (IH _ _ _ Eb) as (b1 & b2 & E1 & E2 & E3).
        exists (a ++ b1), b2. cbn [emit]. rewrite Ea, E2. cbn [bind].
        unfold count_push in *. cbn [filter]. rewrite E1, app_assoc. auto.
      + destruct (emit_item macros labels (IOp c imm) 0) as [a|er|s] eqn:Ea; cbn [bind] in H; try discriminate.
        destruct (emit macros labels (r ++ post) ws) as [b|er|s] eqn:Eb; cbn [bind] in H; try discriminate.
        inversion H; subst. destruct (IH _ _ _ Eb) as (b1 & b2 & E1 & E2 & E3).
        exists (a ++ b1), b2. cbn [emit]. rewrite Ea, E2. cbn [bind].
        unfold count_push in *. cbn [filter]. rewrite E1, app_assoc. auto.
      + destruct ws as [|w ws']; [discriminate|].
        destruct (emit_item macros labels (IPush e) w) as [a|er|s] eqn:Ea; cbn [bind] in H; try discriminate.
        destruct (emit macros labels (r ++ post) ws') as [b|er|s] eqn:Eb; cbn [bind] in H; try discriminate.
        inversion H; subst. destruct (IH _ _ _ Eb) as (b1 & b2 & E1 & E2 & E3).
        exists (a ++ b1), b2. cbn [emit]. rewrite Ea, E2. cbn [bind].
        unfold count_push in *. cbn [filter length skipn]. rewrite E1, app_assoc. auto.
      + destruct (emit_item macros labels (IRaw raw) 0) as [a|er|s] eqn:Ea; cbn [bind] in H; try discriminate.
        destruct (emit macros labels (r ++ post) ws) as [b|er|s] eqn:Eb; cbn [bind] in H; try discriminate.
        inversion H; subst. destruct (IH _ _ _ Eb) as (b1 & b2 & E1 & E2 & E3).
        exists (a ++ b1), b2. cbn [emit]. rewrite Ea, E2. cbn [bind].
        unfold count_push in *. cbn [filter]. rewrite E1, app_assoc. auto.
  Qed.

  (* ---------- C01: label value = number of bytes emitted before the label ---------- *)
  Theorem layout_consistent : forall items w pos bytes,
    layout macros items = Ok (w, pos) ->
    emit macros (lenv pos) items w = Ok bytes ->
    NoDup (labels_of items) ->
    forall pre l post, items = pre ++ ILabel l :: post ->
    exists b1 b2,
      bytes = b1 ++ b2 /\
      emit macros (lenv pos) pre w = Ok b1 /\
      emit macros (lenv pos) post (skipn (count_push pre) w) = Ok b2 /\
      lenv pos l = Some (Z.of_nat (length b1)).
  Proof.
    intros items w pos bytes HL HE Hnd pre l post Hit.
    unfold layout in HL. apply layout_loop_spec in HL as [Hpos _].
    subst items. destruct (emit_split _ _ _ _ _ HE) as (b1 & b2 & E1 & E2 & E3).
    exists b1, b2. split; [exact E1|]. split; [exact E2|]. split.
    - cbn [emit] in E3.
      destruct (emit_item macros (lenv pos) (ILabel l) 0) as [a|er|s] eqn:Ea; cbn [bind] in E3; try discriminate.
      cbn [emit_item] in Ea. inversion Ea; subst a.
      destruct (emit macros (lenv pos) post _) as [b|er|s]; cbn [bind] in E3; try discriminate.
      inversion E3; subst. reflexivity.
    - unfold lenv. rewrite Hpos.
      assert (Hn : ~ In l (labels_of pre)).
      { unfold labels_of in Hnd. rewrite map_app, concat_app in Hnd. cbn [map concat] in Hnd.
        apply NoDup_remove_2 in Hnd. intros Hin. apply Hnd. apply in_or_app. now left. }
      rewrite positions_label by exact Hn.
      rewrite <- (emit_length _ _ _ _ E2). f_equal; lia.
  Qed.

  (* ---------- C07 / C09: every operand is evaluated under the final labels and range checked ---------- *)
  Lemma emit_item_push_spec : forall labels e w bs,
    emit_item macros labels (IPush e) w = Ok bs ->
    exists v, eval_op macros labels e = Ok v /\ 0 <= v /\
      (length (be_bytes (Z.to_N v)) <= w)%nat /\
      bs = (0x5f + N.of_nat w)%N :: pad_left w (be_bytes (Z.to_N v)).
  Proof.
    intros labels e w bs H. cbn [emit_item] in H.
    destruct (eval_op macros labels e) as [v|er|s]; try discriminate.
    unfold concretize_imm in H. destruct (Z.ltb_spec v 0) as [Hneg|Hpos]; [discriminate|].
    destruct (Nat.leb_spec (length (be_bytes (Z.to_N v))) w) as [Hle|Hgt]; [|discriminate].
    cbn [bind] in H. inversion H; subst. exists v. auto.
  Qed.

  Lemma emit_item_op_spec : forall labels c e bs,
    emit_item macros labels (IOp c (Some e)) 0 = Ok bs ->
    exists v, eval_op macros labels e = Ok v /\ 0 <= v /\
      (length (be_bytes (Z.to_N v)) <= extra_of c)%nat /\
      bs = c :: pad_left (extra_of c) (be_bytes (Z.to_N v)).
  Proof.
    intros labels c e bs H. cbn [emit_item] in H.
    destruct (eval_op macros labels e) as [v|er|s]; try discriminate.
    unfold concretize_imm in H. destruct (Z.ltb_spec v 0) as [Hneg|Hpos]; [discriminate|].
    destruct (Nat.leb_spec (length (be_bytes (Z.to_N v))) (extra_of c)) as [Hle|Hgt]; [|discriminate].
    cbn [bind] in H. inversion H; subst. exists v. auto.
  Qed.
End Layout.

(* ---------- phase 1 keeps the label bookkeeping exact ---------- *)
Section PushInv.
  Variable macros : mtable.

  Definition push_inv (st : astate) : Prop :=
    labels_of (a_ready st) = a_declared st /\ NoDup (a_declared st).

  Lemma labels_of_app : forall a b, labels_of (a ++ b) = labels_of a ++ labels_of b.
  Proof. intros. unfold labels_of. now rewrite map_app, concat_app. Qed.

  Lemma mem_In : forall x l, mem x l = true <-> In x l.
  Proof.
    intros x l. unfold mem. rewrite existsb_exists. split.
    - intros [y [Hy E]]. apply String.eqb_eq in E. now subst.
    - intros H. exists x. split; [exact H|apply String.eqb_refl].
  Qed.

  Lemma NoDup_app_snoc : forall (l : list string) x, NoDup l -> ~ In x l -> NoDup (l ++ [x]).
  Proof.
    induction l as [|y l IH]; intros x Hnd Hn; cbn.
    - constructor; [intros []|constructor].
    - inversion Hnd; subst. constructor.
      + intros Hin. apply in_app_or in Hin as [Hin|[->|[]]]; [contradiction|]. apply Hn. now left.
      + apply IH; [assumption|]. intros Hin. apply Hn. now right.
  Qed.

  Lemma push_item_inv : forall st it operand st',
    (forall l, it <> ILabel l) ->
    push_inv st -> push_item macros st it operand = Ok st' -> push_inv st'.
  Proof.
    intros st it operand st' Hnl [H1 H2] H. unfold push_item in H.
    assert (Hl : labels_of [it] = []).
    { destruct it; cbn; try reflexivity. exfalso. now apply (Hnl l). }
    destruct operand as [e|].
    - destruct (elabels _ _ e) as [ls|er|s]; try discriminate.
      destruct (early_check macros it) as [[]|er|s]; cbn [bind] in H; try discriminate.
      inversion H; subst. unfold push_inv. cbn [a_ready a_declared].
      rewrite labels_of_app, Hl, app_nil_r. auto.
    - inversion H; subst. unfold push_inv. cbn [a_ready a_declared].
      rewrite labels_of_app, Hl, app_nil_r. auto.
  Qed.

  Lemma push_op_inv : forall fuel st a st',
    push_inv st -> push_op macros fuel st a = Ok st' -> push_inv st'.
  Proof.
    induction fuel as [|f IH]; intros st a st' Hi H.
    - destruct a as [c imm|l|e|n ps b|n ps b|n args]; cbn [push_op] in H.
      + eapply push_item_inv; [|exact Hi|exact H]. discriminate.
      + destruct (mem l (a_declared st)) eqn:Em; [discriminate|]. inversion H; subst.
        destruct Hi as [H1 H2]. unfold push_inv. cbn [a_ready a_declared]. split.
        * rewrite labels_of_app, H1. reflexivity.
        * apply NoDup_app_snoc; [exact H2|]. intros Hin. apply mem_In in Hin. congruence.
      + eapply push_item_inv; [|exact Hi|exact H]. discriminate.
      + inversion H; subst. exact Hi.
      + inversion H; subst. exact Hi.
      + destruct (mlookup macros n) as [[ps body|d]|]; try discriminate.
        destruct (negb _); discriminate.
    - destruct a as [c imm|l|e|n ps b|n ps b|n args]; cbn [push_op] in H.
      + eapply push_item_inv; [|exact Hi|exact H]. discriminate.
      + destruct (mem l (a_declared st)) eqn:Em; [discriminate|]. inversion H; subst.
        destruct Hi as [H1 H2]. unfold push_inv. cbn [a_ready a_declared]. split.
        * rewrite labels_of_app, H1. reflexivity.
        * apply NoDup_app_snoc; [exact H2|]. intros Hin. apply mem_In in Hin. congruence.
      + eapply push_item_inv; [|exact Hi|exact H]. discriminate.
      + inversion H; subst. exact Hi.
      + inversion H; subst. exact Hi.
      + destruct (mlookup macros n) as [[ps body|d]|]; try discriminate.
        destruct (negb _); [discriminate|].
        destruct (rename_pass n body (a_ctr st) []) as [[[body1 ctr'] ren]|er|s]; cbn [bind] in H; try discriminate.
        set (st1 := mkast (a_ready st) (a_declared st) (a_undeclared st) ctr') in H.
        assert (Hi1 : push_inv st1) by exact Hi.
        clearbody st1. revert st1 Hi1 H.
        generalize (map (rewrite_op ren (combine ps args)) body1) as l.
        induction l as [|b r IHl]; intros s Hs H.
        * inversion H; subst. exact Hs.
        * destruct (push_op macros f s b) as [s'|er|sx] eqn:Eb; cbn [bind] in H; try discriminate.
          apply (IHl s'); [|exact H]. eapply IH; [exact Hs|exact Eb].
  Qed.
End PushInv.

(* ---------- Assembler::assemble ends in finish_scope on a state satisfying the invariant ---------- *)
Lemma assemble_with_inv : forall rec ops bytes,
  assemble_with rec ops = Ok bytes ->
  exists macros st, declare_macros ops [] = Ok macros /\ push_inv st /\
                    finish_scope macros st = Ok bytes.
Proof.
  intros rec ops bytes H. unfold assemble_with in H.
  destruct (declare_macros ops []) as [macros|er|s]; cbn [bind] in H; try discriminate.
  match type of H with bind ?g _ = _ => destruct g as [st|er|s] eqn:Eg end; cbn [bind] in H; try discriminate.
  exists macros, st. split; [reflexivity|]. split; [|exact H].
  assert (Hinit : push_inv ainit) by (split; [reflexivity|constructor]).
  revert Eg Hinit. generalize ainit as s0. generalize ops as l.
  induction l as [|r l IH]; intros s0 Eg Hi.
  - inversion Eg; subst. exact Hi.
  - destruct r as [a|inner|bs].
    + destruct (push_op macros EXPANSION_FUEL s0 a) as [s1|er|sx] eqn:Ep; cbn [bind] in Eg; try discriminate.
      apply (IH s1 Eg). eapply push_op_inv; [exact Hi|exact Ep].
    + destruct (rec (RScope inner)) as [bs|er|sx]; cbn [bind] in Eg; try discriminate.
      apply (IH _ Eg). destruct Hi as [H1 H2]. split; cbn [a_ready a_declared]; [|exact H2].
      rewrite labels_of_app, H1. cbn. now rewrite app_nil_r.
    + apply (IH _ Eg). destruct Hi as [H1 H2]. split; cbn [a_ready a_declared]; [|exact H2].
      rewrite labels_of_app, H1. cbn. now rewrite app_nil_r.
Qed.

(* C01 at the level of Assembler::assemble *)
Theorem assemble_label_offsets : forall ops bytes,
  assemble ops = Ok bytes ->
  exists macros items w pos,
    declare_macros ops [] = Ok macros /\
    layout macros items = Ok (w, pos) /\
    emit macros (lenv pos) items w = Ok bytes /\
    NoDup (labels_of items) /\
    forall pre l post, items = pre ++ ILabel l :: post ->
      exists b1 b2,
        bytes = b1 ++ b2 /\
        emit macros (lenv pos) pre w = Ok b1 /\
        emit macros (lenv pos) post (skipn (count_push pre) w) = Ok b2 /\
        lenv pos l = Some (Z.of_nat (length b1)).
Proof.
  intros ops bytes H. unfold assemble in H.
  destruct (assemble_with_inv _ _ _ H) as (macros & st & Hm & [Hl Hnd] & Hf).
  unfold finish_scope in Hf. destruct (a_undeclared st); [|discriminate].
  destruct (layout macros (a_ready st)) as [[w pos]|er|s] eqn:El; cbn [bind fst snd] in Hf; try discriminate.
  exists macros, (a_ready st), w, pos. repeat split; auto.
  - now rewrite Hl.
  - intros pre l post Hit. eapply layout_consistent; eauto. now rewrite Hl.
Qed.

(* a jump to a labelled jumpdest lands on that jumpdest *)
Corollary label_jumpdest : forall macros labels post ws b2,
  emit macros labels (IOp 0x5b%N None :: post) ws = Ok b2 -> hd 0%N b2 = 0x5b%N.
Proof.
  intros macros labels post ws b2 H. cbn [emit emit_item bind] in H.
  destruct (emit macros labels post ws) as [b|er|s]; cbn [bind] in H; try discriminate.
  inversion H; subst. reflexivity.
Qed.
