(* Proofs/AnnotProofs.v -- the annotator simulates instruction-by-instruction execution (C06). *)
From Coq Require Import Lia ZifyBool ZifyNat ZifyN.
From Verif Require Import Model.Base Model.Ops Model.Disasm Model.Blocks Model.Sym Model.Annot
  Spec.EvmSem Spec.EvmExec Proofs.OpsProofs Proofs.DisasmProofs Proofs.BlocksProofs.

(* ====================================================================== *)
(* 1. erasure: the tagged constructor is Model/Sym.v's sconcat on the erased arguments *)

Lemma erase_concat : forall args, erase (concat args) = concat (map erase args).
Proof. intros. unfold erase. apply concat_map. Qed.

Lemma erase_tconcat : forall op args,
  match tconcat op args with
  | Ok e => sconcat (fst op) (map erase args) = Ok (erase e)
  | Panic s => sconcat (fst op) (map erase args) = Panic s
  | Err _ => False
  end.
Proof.
  intros op args. unfold tconcat, sconcat. rewrite map_length.
  destruct (Nat.eqb (children (fst op)) (length args)); [|reflexivity].
  cbn [erase map]. now rewrite <- erase_concat.
Qed.

(* ====================================================================== *)
(* 2. trees: induction principle, unique readability of the prefix encoding *)

Fixpoint ttree_ind' (P : ttree -> Prop)
  (H : forall s args, Forall P args -> P (TNode s args)) (t : ttree) : P t :=
  match t with
  | TNode s args =>
      H s args ((fix go (l : list ttree) : Forall P l :=
                   match l with
                   | [] => Forall_nil P
                   | x :: r => Forall_cons x (ttree_ind' P H x) (go r)
                   end) args)
  end.

(* arities respected everywhere *)
Fixpoint arity_ok (t : ttree) : Prop :=
  match t with
  | TNode s args =>
      children (fst s) = length args /\
      (fix all (l : list ttree) : Prop :=
         match l with [] => True | x :: r => arity_ok x /\ all r end) args
  end.

Lemma arity_ok_node : forall s args,
  arity_ok (TNode s args) <-> children (fst s) = length args /\ Forall arity_ok args.
Proof.
  intros s args. cbn [arity_ok].
  assert (E : (fix all (l : list ttree) : Prop :=
                 match l with [] => True | x :: r => arity_ok x /\ all r end) args
              <-> Forall arity_ok args).
  { induction args as [|a l IH]; [split; auto|].
    split; [intros [A B]; constructor; tauto|intros F; inversion F; subst; tauto]. }
  tauto.
Qed.

Fixpoint tdecode_args (dec : texpr -> option (ttree * texpr)) (k : nat) (r : texpr)
  : option (list ttree * texpr) :=
  match k with
  | O => Some ([], r)
  | S k' =>
      match dec r with
      | Some (t, r') =>
          match tdecode_args dec k' r' with
          | Some (ts, r'') => Some (t :: ts, r'')
          | None => None
          end
      | None => None
      end
  end.

Lemma tdecode_S : forall f s rest,
  tdecode (S f) (s :: rest) =
  match tdecode_args (tdecode f) (children (fst s)) rest with
  | Some (ts, r) => Some (TNode s ts, r)
  | None => None
  end.
Proof.
  intros f s rest. cbn [tdecode].
  match goal with |- match ?a _ _ with _ => _ end = _ =>
    assert (E : forall k r, a k r = tdecode_args (tdecode f) k r) end.
  { induction k as [|k IH]; intros r; cbn [tdecode_args]; [reflexivity|].
    destruct (tdecode f r) as [[t r']|]; [|reflexivity]. now rewrite IH. }
  now rewrite E.
Qed.

Lemma concat_length_ge : forall (l : list texpr) x, In x l -> (length x <= length (concat l))%nat.
Proof.
  induction l as [|a l IH]; intros x Hin; [destruct Hin|].
  destruct Hin as [->|Hin]; cbn [concat]; rewrite app_length; [lia|].
  specialize (IH x Hin). lia.
Qed.

Lemma tdecode_tencode : forall t, arity_ok t ->
  forall fuel r, (length (tencode t) <= fuel)%nat -> tdecode fuel (tencode t ++ r) = Some (t, r).
Proof.
  induction t as [s args IH] using ttree_ind'. intros Hok fuel r Hf.
  apply arity_ok_node in Hok as [Har Hargs].
  cbn [tencode] in *. cbn [length] in Hf. destruct fuel as [|f]; [lia|].
  change ((s :: concat (map tencode args)) ++ r) with (s :: (concat (map tencode args) ++ r)).
  rewrite tdecode_S, Har.
  assert (E : forall r0, (length (concat (map tencode args)) <= f)%nat ->
            tdecode_args (tdecode f) (length args) (concat (map tencode args) ++ r0) = Some (args, r0)).
  { clear Har Hf. induction args as [|a l IHl]; intros r0 Hl; cbn [length tdecode_args map concat app].
    - reflexivity.
    - inversion IH as [|? ? Ha Hl']; subst. inversion Hargs as [|? ? Oa Ol]; subst.
      cbn [map concat] in Hl. rewrite app_length in Hl.
      rewrite <- app_assoc, (Ha Oa f _ ltac:(lia)), (IHl Hl' Ol r0 ltac:(lia)). reflexivity. }
  rewrite E by lia. reflexivity.
Qed.

Lemma ttree_of_tencode : forall t, arity_ok t -> ttree_of (tencode t) = Some t.
Proof.
  intros t H. unfold ttree_of.
  rewrite <- (app_nil_r (tencode t)) at 2.
  rewrite (tdecode_tencode t H) by lia. reflexivity.
Qed.

Lemma eval_texpr_tencode : forall s rho t, arity_ok t ->
  eval_texpr s rho (tencode t) = eval_tree s rho t.
Proof. intros. unfold eval_texpr. now rewrite ttree_of_tencode. Qed.

(* ====================================================================== *)
(* 3. the stack window: what the primitives return when their assertions hold *)

(* ids of the variables nv+1 .. nv+m *)
Definition newvars (nv m : nat) : list Z := map Z.of_nat (seq (S nv) m).

Lemma newvars_S : forall nv m, newvars nv (S m) = Z.of_nat (S nv) :: newvars (S nv) m.
Proof. reflexivity. Qed.
Lemma newvars_length : forall nv m, length (newvars nv m) = m.
Proof. intros. unfold newvars. now rewrite map_length, seq_length. Qed.
Lemma newvars_app : forall nv a b, newvars nv (a + b) = newvars nv a ++ newvars (nv + a) b.
Proof.
  intros. unfold newvars. rewrite seq_app, map_app. repeat f_equal.
Qed.

Lemma count_pops_ok : forall k w, (k <= w_pops w)%nat ->
  count_pops k w = Ok (mkwin (w_cur w) (w_vars w) (w_inputs w) (w_pops w - k) (w_pushes w)).
Proof. intros k w H. unfold count_pops. destruct (Nat.leb_spec k (w_pops w)); [reflexivity|lia]. Qed.

Lemma count_pushes_ok : forall k w, w_pops w = 0%nat -> (k <= w_pushes w)%nat ->
  count_pushes k w = Ok (mkwin (w_cur w) (w_vars w) (w_inputs w) 0 (w_pushes w - k)).
Proof.
  intros k w H0 H. unfold count_pushes. rewrite H0. cbn [Nat.eqb negb].
  destruct (Nat.leb_spec k (w_pushes w)); [reflexivity|lia].
Qed.

Lemma expand_ok : forall m w nv,
  w_vars w = Z.of_nat nv -> (Z.of_nat (nv + m) <= 65535)%Z ->
  expand_stack m w = Ok (mkwin (w_cur w ++ map tvar (newvars nv m)) (Z.of_nat (nv + m))
                               (w_inputs w ++ newvars nv m) (w_pops w) (w_pushes w)).
Proof.
  induction m as [|m IH]; intros [cur vars inputs pops pushes] nv Hv Hb;
    cbn [w_cur w_vars w_inputs w_pops w_pushes] in *; subst vars.
  - cbn [expand_stack newvars seq map]. now rewrite !app_nil_r, Nat.add_0_r.
  - cbn [expand_stack w_cur w_vars w_inputs w_pops w_pushes].
    destruct (65535 <=? Z.of_nat nv)%Z eqn:E; [lia|].
    replace (Z.of_nat nv + 1)%Z with (Z.of_nat (S nv)) by lia.
    rewrite (IH _ (S nv)); cbn [w_cur w_vars w_inputs w_pops w_pushes]; [|reflexivity|lia].
    rewrite newvars_S, <- !app_assoc. cbn [app map].
    replace (S nv + m)%nat with (nv + S m)%nat by lia. reflexivity.
Qed.

Lemma wpop_cons : forall w e c, w_cur w = e :: c -> (1 <= w_pops w)%nat ->
  wpop w = Ok (e, mkwin c (w_vars w) (w_inputs w) (w_pops w - 1) (w_pushes w)).
Proof.
  intros w e c Hc Hp. unfold wpop. rewrite count_pops_ok by exact Hp.
  cbn [bind w_cur]. rewrite Hc. reflexivity.
Qed.

Lemma wpop_nil : forall w nv, w_cur w = [] -> (1 <= w_pops w)%nat ->
  w_vars w = Z.of_nat nv -> (Z.of_nat nv < 65535)%Z ->
  wpop w = Ok (tvar (Z.of_nat (S nv)),
               mkwin [] (Z.of_nat (S nv)) (w_inputs w ++ [Z.of_nat (S nv)]) (w_pops w - 1) (w_pushes w)).
Proof.
  intros w nv Hc Hp Hv Hb. unfold wpop. rewrite count_pops_ok by exact Hp.
  cbn [bind w_cur]. rewrite Hc.
  rewrite (expand_ok 1 _ nv); cbn [w_cur w_vars w_inputs w_pops w_pushes]; [|exact Hv|lia].
  cbn [bind w_cur newvars seq map app set_cur w_vars w_inputs w_pops w_pushes].
  replace (nv + 1)%nat with (S nv) by lia. reflexivity.
Qed.

Lemma wpop_n_ok : forall k w nv,
  w_vars w = Z.of_nat nv -> (k <= w_pops w)%nat ->
  (Z.of_nat (nv + (k - length (w_cur w))) <= 65535)%Z ->
  let e := w_cur w ++ map tvar (newvars nv (k - length (w_cur w))) in
  wpop_n k w = Ok (firstn k e,
                   mkwin (skipn k e) (Z.of_nat (nv + (k - length (w_cur w))))
                         (w_inputs w ++ newvars nv (k - length (w_cur w))) (w_pops w - k) (w_pushes w)).
Proof.
  induction k as [|k IH]; intros [cur vars inputs pops pushes] nv Hv Hp Hb;
    cbn [w_cur w_vars w_inputs w_pops w_pushes] in *; subst vars.
  - cbn [wpop_n firstn skipn Nat.sub newvars seq map].
    now rewrite !app_nil_r, Nat.add_0_r, Nat.sub_0_r.
  - cbn [wpop_n]. destruct cur as [|e c].
    + rewrite (wpop_nil _ nv); cbn [w_cur w_vars w_inputs w_pops w_pushes]; [|reflexivity|lia|reflexivity|cbn [length] in Hb; lia].
      cbn [bind]. cbn [length] in *.
      rewrite (IH _ (S nv)); cbn [w_cur w_vars w_inputs w_pops w_pushes length]; [|reflexivity|lia|lia].
      cbn [bind]. rewrite !Nat.sub_0_r. rewrite newvars_S. cbn [app map firstn skipn].
      rewrite <- app_assoc. cbn [app].
      replace (S nv + k)%nat with (nv + S k)%nat by lia.
      replace (pops - 1 - k)%nat with (pops - S k)%nat by lia. reflexivity.
    + rewrite (wpop_cons _ e c); cbn [w_cur w_vars w_inputs w_pops w_pushes]; [|reflexivity|lia].
      cbn [bind]. cbn [length] in *.
      rewrite (IH _ nv); cbn [w_cur w_vars w_inputs w_pops w_pushes length]; [|reflexivity|lia|].
      * cbn [bind]. replace (S k - S (length c))%nat with (k - length c)%nat by lia.
        cbn [app firstn skipn].
        replace (pops - 1 - k)%nat with (pops - S k)%nat by lia. reflexivity.
      * replace (S k - S (length c))%nat with (k - length c)%nat in Hb by lia. exact Hb.
Qed.

Lemma window_ok : forall d w nv,
  w_vars w = Z.of_nat nv -> w_pops w = (d + 1)%nat -> (d + 1 <= w_pushes w)%nat ->
  (Z.of_nat (nv + (d + 1 - length (w_cur w))) <= 65535)%Z ->
  window d w = Ok (mkwin (w_cur w ++ map tvar (newvars nv (d + 1 - length (w_cur w))))
                         (Z.of_nat (nv + (d + 1 - length (w_cur w))))
                         (w_inputs w ++ newvars nv (d + 1 - length (w_cur w)))
                         0 (w_pushes w - (d + 1))).
Proof.
  intros d [cur vars inputs pops pushes] nv Hv Hp Hq Hb;
    cbn [w_cur w_vars w_inputs w_pops w_pushes] in *; subst vars pops.
  unfold window. rewrite count_pops_ok by (cbn [w_pops]; lia). cbn [bind w_cur w_vars w_inputs w_pops w_pushes].
  rewrite count_pushes_ok; cbn [w_cur w_vars w_inputs w_pops w_pushes]; [|lia|lia].
  cbn [bind w_cur]. destruct (Nat.ltb_spec (length cur) (d + 1)) as [Hlt|Hge].
  - rewrite (expand_ok _ _ nv); cbn [w_cur w_vars w_inputs w_pops w_pushes]; [|reflexivity|lia].
    replace (1 + d - length cur)%nat with (d + 1 - length cur)%nat by lia. reflexivity.
  - replace (d + 1 - length cur)%nat with 0%nat by lia.
    cbn [newvars seq map]. now rewrite !app_nil_r, Nat.add_0_r.
Qed.

Lemma wpush_ok : forall e w, w_pops w = 0%nat -> (1 <= w_pushes w)%nat ->
  wpush e w = Ok (mkwin (e :: w_cur w) (w_vars w) (w_inputs w) 0 (w_pushes w - 1)).
Proof.
  intros e w H0 H1. unfold wpush. rewrite count_pushes_ok by assumption. reflexivity.
Qed.

Lemma wpop_n_1 : forall w e w', wpop_n 1 w = Ok ([e], w') -> wpop w = Ok (e, w').
Proof.
  intros w e w'. cbn [wpop_n]. destruct (wpop w) as [[e0 w0]| |]; cbn [bind]; intros H; inversion H.
  reflexivity.
Qed.

Lemma wpop_n_2 : forall w e0 e1 w', wpop_n 2 w = Ok ([e0; e1], w') ->
  exists w1, wpop w = Ok (e0, w1) /\ wpop w1 = Ok (e1, w').
Proof.
  intros w e0 e1 w'. cbn [wpop_n]. destruct (wpop w) as [[a w1]| |]; cbn [bind]; [|discriminate|discriminate].
  destruct (wpop w1) as [[b w2]| |] eqn:E2; cbn [bind]; intros H; inversion H; subst; eauto.
Qed.

(* ====================================================================== *)
(* 4. the annotator step on trees, and the model refines it *)

Definition varT (v : Z) : ttree := TNode (SVar v, None) [].
Definition dT : ttree := varT 0.
Definition leafT (s : sym) : ttree := TNode (s, None) [].

(* number of stack slots an arm touches = the pops its StackWindow must have been given *)
Definition need (sh : shape) : nat :=
  match sh with
  | ShOp _ k | ShDrop k | ShTerm k => k
  | ShDup n => n
  | ShSwap n => S n
  | ShJump => 1
  | ShJumpI => 2
  | _ => 0
  end.
Definition shape_pushes (sh : shape) : nat :=
  match sh with
  | ShOp _ _ | ShEnv _ | ShPc | ShPush0 | ShPush => 1
  | ShDup n | ShSwap n => S n
  | _ => 0
  end.

Inductive txit := TXTerm | TXJump (t : ttree) | TXBranch (c t : ttree) (f : N).
Definition xenc (x : txit) : texit :=
  match x with
  | TXTerm => XTerm
  | TXJump t => XJump (tencode t)
  | TXBranch c t f => XBranch (tencode c) (tencode t) f
  end.

Definition ext (ts : list ttree) (nv m : nat) : list ttree := ts ++ map varT (newvars nv m).

Definition tstep (sh : shape) (idx : nat) (pc : N) (imm : list N) (ts : list ttree) (nv : nat)
  : option txit * list ttree * nat :=
  let m := (need sh - length ts)%nat in
  let TS := ext ts nv m in
  let nv' := (nv + m)%nat in
  match sh with
  | ShOp s k => (None, TNode (s, mk_tag s idx) (firstn k TS) :: skipn k TS, nv')
  | ShEnv s => (None, TNode (s, mk_tag s idx) [] :: TS, nv')
  | ShDrop k => (None, skipn k TS, nv')
  | ShPc => (None, leafT (SGetPc (Z.of_N (pc mod 65536))) :: TS, nv')
  | ShPush0 => (None, leafT (SConst 0) :: TS, nv')
  | ShPush => (None, leafT (SConst (Z.of_N (N_of_be imm))) :: TS, nv')
  | ShDup n => (None, nth (n - 1) TS dT :: TS, nv')
  | ShSwap n => (None, nth n TS dT :: tl (set_nth n (hd dT TS) TS), nv')
  | ShTerm k => (Some TXTerm, skipn k TS, nv')
  | ShJump => (Some (TXJump (nth 0 TS dT)), skipn 1 TS, nv')
  | ShJumpI => (Some (TXBranch (nth 1 TS dT) (nth 0 TS dT) (pc + 1)%N), skipn 2 TS, nv')
  | ShNoArm => (None, ts, nv)
  end.

Definition wrep (w : win) (ts : list ttree) (nv : nat) : Prop :=
  w_cur w = map tencode ts /\ w_vars w = Z.of_nat nv /\ w_inputs w = newvars 0 nv.

(* side conditions of an arm (all follow from the table check, well-formed items and pc < 2^16) *)
Definition shape_guard (sh : shape) (op : item) (pc : N) : Prop :=
  match sh with
  | ShOp s k => children s = k
  | ShDup n | ShSwap n => (1 <= n)%nat
  | ShPush => (length (i_imm op) <= 32)%nat
  | ShJumpI => (pc + 1 <= usize_max)%N
  | ShNoArm => False
  | _ => True
  end.

Lemma ext_encode : forall ts nv m,
  map tencode ts ++ map tvar (newvars nv m) = map tencode (ext ts nv m).
Proof. intros. unfold ext. rewrite map_app, map_map. reflexivity. Qed.

Lemma ext_length : forall ts nv m, length (ext ts nv m) = (length ts + m)%nat.
Proof. intros. unfold ext. now rewrite app_length, map_length, newvars_length. Qed.

Lemma newvars_0_app : forall nv m, newvars 0 nv ++ newvars nv m = newvars 0 (nv + m).
Proof. intros. now rewrite newvars_app. Qed.

Lemma map_set_nth : forall (A B : Type) (f : A -> B) n x l,
  map f (set_nth n x l) = set_nth n (f x) (map f l).
Proof.
  intros A B f n x l. revert n. induction l as [|a l IH]; intros [|n]; cbn [set_nth map]; try reflexivity.
  now rewrite IH.
Qed.

Lemma map_tl : forall (A B : Type) (f : A -> B) l, map f (tl l) = tl (map f l).
Proof. intros A B f [|a l]; reflexivity. Qed.

Lemma nth_error_map_nth : forall (A B : Type) (f : A -> B) l n d, (n < length l)%nat ->
  nth_error (map f l) n = Some (f (nth n l d)).
Proof.
  intros A B f l n d H. rewrite nth_error_map, (nth_error_nth' l d H). reflexivity.
Qed.

Lemma firstn_1_nth : forall (A : Type) (l : list A) d, (1 <= length l)%nat -> firstn 1 l = [nth 0 l d].
Proof. intros A [|a l] d H; [cbn in H; lia|reflexivity]. Qed.
Lemma firstn_2_nth : forall (A : Type) (l : list A) d, (2 <= length l)%nat ->
  firstn 2 l = [nth 0 l d; nth 1 l d].
Proof. intros A [|a [|b l]] d H; cbn in H; try lia. reflexivity. Qed.

Lemma refine_step : forall idx pc w op ts nv,
  let sh := shape_of (i_code op) in
  wrep w ts nv -> w_pops w = need sh -> w_pushes w = shape_pushes sh ->
  shape_guard sh op pc ->
  (Z.of_nat (nv + (need sh - length ts)) <= 65535)%Z ->
  exists w',
    annotate_one idx pc w op =
      Ok (option_map xenc (fst (fst (tstep sh idx pc (i_imm op) ts nv))), w') /\
    wrep w' (snd (fst (tstep sh idx pc (i_imm op) ts nv))) (snd (tstep sh idx pc (i_imm op) ts nv)) /\
    w_pops w' = 0%nat /\ w_pushes w' = 0%nat.
Proof.
  intros idx pc [cur vars inputs pops pushes] op ts nv sh (Hc & Hv & Hi) Hp Hq Hg Hb.
  cbn [w_cur w_vars w_inputs w_pops w_pushes] in *. subst cur vars inputs pops pushes.
  unfold annotate_one. fold sh.
  assert (Hlen : (need sh <= length (ext ts nv (need sh - length ts)))%nat)
    by (rewrite ext_length; lia).
  destruct sh as [s k|s|k| | | |n|n|k| | |] eqn:Esh; cbn [need shape_pushes shape_guard] in *;
    cbn [tstep fst snd option_map xenc need].
  - (* ShOp *)
    rewrite (wpop_n_ok k _ nv); cbn [w_cur w_vars w_inputs w_pops w_pushes];
      [|reflexivity|lia|rewrite map_length; exact Hb].
    rewrite map_length, ext_encode. cbn [bind].
    unfold tconcat. cbn [fst]. rewrite firstn_length, map_length, Nat.min_l by (exact Hlen).
    rewrite Hg, Nat.eqb_refl. cbn [bind]. unfold push_none.
    rewrite wpush_ok; cbn [w_cur w_vars w_inputs w_pops w_pushes]; [|lia|lia].
    cbn [bind]. eexists; split; [reflexivity|]. unfold wrep; cbn [w_cur w_vars w_inputs w_pops w_pushes].
    repeat split; [|apply newvars_0_app].
    cbn [map tencode]. now rewrite firstn_map, skipn_map.
  - (* ShEnv *)
    unfold push_none. rewrite wpush_ok; cbn [w_cur w_vars w_inputs w_pops w_pushes]; [|lia|lia].
    cbn [bind]. eexists; split; [reflexivity|]. unfold wrep; cbn [w_cur w_vars w_inputs w_pops w_pushes].
    cbn [Nat.sub]. unfold ext. cbn [newvars seq map]. rewrite app_nil_r, Nat.add_0_r. repeat split.
  - (* ShDrop *)
    rewrite (wpop_n_ok k _ nv); cbn [w_cur w_vars w_inputs w_pops w_pushes];
      [|reflexivity|lia|rewrite map_length; exact Hb].
    rewrite map_length, ext_encode. cbn [bind].
    eexists; split; [reflexivity|]. unfold wrep; cbn [w_cur w_vars w_inputs w_pops w_pushes].
    repeat split; [now rewrite skipn_map|apply newvars_0_app|lia].
  - (* ShPc *)
    unfold push_none. rewrite wpush_ok; cbn [w_cur w_vars w_inputs w_pops w_pushes]; [|lia|lia].
    cbn [bind]. eexists; split; [reflexivity|]. unfold wrep; cbn [w_cur w_vars w_inputs w_pops w_pushes].
    cbn [Nat.sub]. unfold ext. cbn [newvars seq map]. rewrite app_nil_r, Nat.add_0_r. repeat split.
  - (* ShPush0 *)
    unfold push_none. rewrite wpush_ok; cbn [w_cur w_vars w_inputs w_pops w_pushes]; [|lia|lia].
    cbn [bind]. eexists; split; [reflexivity|]. unfold wrep; cbn [w_cur w_vars w_inputs w_pops w_pushes].
    cbn [Nat.sub]. unfold ext. cbn [newvars seq map]. rewrite app_nil_r, Nat.add_0_r. repeat split.
  - (* ShPush *)
    destruct (Nat.ltb_spec 32 (length (i_imm op))) as [Hlt|_]; [lia|].
    unfold push_none. rewrite wpush_ok; cbn [w_cur w_vars w_inputs w_pops w_pushes]; [|lia|lia].
    cbn [bind]. eexists; split; [reflexivity|]. unfold wrep; cbn [w_cur w_vars w_inputs w_pops w_pushes].
    cbn [Nat.sub]. unfold ext. cbn [newvars seq map]. rewrite app_nil_r, Nat.add_0_r. repeat split.
  - (* ShDup *)
    unfold wpeek.
    rewrite (window_ok (n - 1) _ nv); cbn [w_cur w_vars w_inputs w_pops w_pushes];
      [|reflexivity|lia|lia|rewrite map_length; replace (n - 1 + 1)%nat with n by lia; exact Hb].
    rewrite map_length. replace (n - 1 + 1)%nat with n by lia. rewrite ext_encode.
    cbn [bind w_cur].
    rewrite (nth_error_map_nth _ _ tencode _ (n - 1) dT) by lia.
    cbn [bind]. unfold push_none. rewrite wpush_ok; cbn [w_cur w_vars w_inputs w_pops w_pushes]; [|lia|lia].
    cbn [bind]. eexists; split; [reflexivity|]. unfold wrep; cbn [w_cur w_vars w_inputs w_pops w_pushes].
    repeat split; [apply newvars_0_app|lia].
  - (* ShSwap *)
    unfold wswap.
    rewrite (window_ok n _ nv); cbn [w_cur w_vars w_inputs w_pops w_pushes];
      [|reflexivity|lia|lia|rewrite map_length; replace (n + 1)%nat with (S n) by lia; exact Hb].
    rewrite map_length. replace (n + 1)%nat with (S n) by lia. rewrite ext_encode.
    cbn [bind w_cur].
    set (TS := ext ts nv (S n - length ts)) in *.
    rewrite (nth_error_map_nth _ _ tencode TS n dT) by lia.
    destruct TS as [|t0 TS'] eqn:ETS; [cbn [length] in Hlen; lia|].
    cbn [map]. destruct n as [|n']; [lia|].
    eexists; split; [reflexivity|]. unfold wrep; cbn [w_cur w_vars w_inputs w_pops w_pushes set_cur].
    repeat split; [|apply newvars_0_app|lia].
    cbn [hd]. change (tencode t0 :: map tencode TS') with (map tencode (t0 :: TS')).
    rewrite <- map_set_nth, <- map_tl. reflexivity.
  - (* ShTerm *)
    rewrite (wpop_n_ok k _ nv); cbn [w_cur w_vars w_inputs w_pops w_pushes];
      [|reflexivity|lia|rewrite map_length; exact Hb].
    rewrite map_length, ext_encode. cbn [bind].
    eexists; split; [reflexivity|]. unfold wrep; cbn [w_cur w_vars w_inputs w_pops w_pushes].
    repeat split; [now rewrite skipn_map|apply newvars_0_app|lia].
  - (* ShJump *)
    pose proof (wpop_n_ok 1 (mkwin (map tencode ts) (Z.of_nat nv) (newvars 0 nv) 1 0) nv) as P.
    cbn [w_cur w_vars w_inputs w_pops w_pushes] in P. rewrite map_length in P.
    specialize (P eq_refl ltac:(lia) Hb). rewrite ext_encode in P.
    rewrite firstn_map, (firstn_1_nth _ _ dT) in P by (exact Hlen).
    apply wpop_n_1 in P. rewrite P. cbn [bind].
    eexists; split; [reflexivity|]. unfold wrep; cbn [w_cur w_vars w_inputs w_pops w_pushes].
    repeat split; [now rewrite skipn_map|apply newvars_0_app].
  - (* ShJumpI *)
    destruct (N.ltb_spec usize_max (pc + 1)) as [Hlt|_]; [lia|].
    pose proof (wpop_n_ok 2 (mkwin (map tencode ts) (Z.of_nat nv) (newvars 0 nv) 2 0) nv) as P.
    cbn [w_cur w_vars w_inputs w_pops w_pushes] in P. rewrite map_length in P.
    specialize (P eq_refl ltac:(lia) Hb). rewrite ext_encode in P.
    rewrite firstn_map, (firstn_2_nth _ _ dT) in P by (exact Hlen).
    apply wpop_n_2 in P as (w1 & P1 & P2). rewrite P1. cbn [bind]. rewrite P2. cbn [bind].
    eexists; split; [reflexivity|]. unfold wrep; cbn [w_cur w_vars w_inputs w_pops w_pushes].
    repeat split; [now rewrite skipn_map|apply newvars_0_app].
  - (* ShNoArm *) destruct Hg.
Qed.

(* ====================================================================== *)
(* 5. the tree step simulates one instruction of Spec/EvmExec.v *)

Lemma reads_ok_node : forall s rho tr sy tag args,
  reads_ok s rho tr (TNode (sy, tag) args) <->
  children sy = length args /\ Forall (reads_ok s rho tr) args /\
  match tag with
  | Some k => exists c, read_code sy = Some c /\ In (k, c, map (eval_tree s rho) args) tr
  | None => is_read_sym sy = false
  end.
Proof.
  intros s rho tr sy tag args. cbn [reads_ok].
  assert (E : (fix all (l : list ttree) : Prop :=
                 match l with [] => True | x :: r => reads_ok s rho tr x /\ all r end) args
              <-> Forall (reads_ok s rho tr) args).
  { induction args as [|a l IH]; [split; auto|].
    split; [intros [A B]; constructor; tauto|intros F; inversion F; subst; tauto]. }
  tauto.
Qed.

Lemma reads_ok_arity : forall s rho tr t, reads_ok s rho tr t -> arity_ok t.
Proof.
  intros s rho tr. induction t as [[sy tag] args IH] using ttree_ind'. intros H.
  apply reads_ok_node in H as (A & B & _). apply arity_ok_node. split; [exact A|].
  rewrite Forall_forall in *. auto.
Qed.

Lemma reads_ok_mono : forall s rho tr tr' t, incl tr tr' -> reads_ok s rho tr t -> reads_ok s rho tr' t.
Proof.
  intros s rho tr tr' t Hi. induction t as [[sy tag] args IH] using ttree_ind'. intros H.
  apply reads_ok_node in H as (A & B & C). apply reads_ok_node. split; [exact A|]. split.
  - rewrite Forall_forall in *. auto.
  - destruct tag as [k|]; [|exact C]. destruct C as (c & C1 & C2). exists c. auto.
Qed.

Lemma reads_ok_var : forall s rho tr v, reads_ok s rho tr (varT v).
Proof. intros. apply reads_ok_node. cbn. auto. Qed.

Lemma reads_ok_leaf : forall s rho tr sy, children sy = 0%nat -> is_read_sym sy = false ->
  reads_ok s rho tr (leafT sy).
Proof. intros. apply reads_ok_node. cbn [length]. auto. Qed.

Definition conc (s : list Z) (rho : nat -> Z) (tr : trace) (ts : list ttree) (nv : nat) (sc : list Z) : Prop :=
  sc = map (eval_tree s rho) ts ++ skipn nv s /\ Forall (reads_ok s rho tr) ts.

Lemma conc_mono : forall s rho tr tr' ts nv sc, incl tr tr' ->
  conc s rho tr ts nv sc -> conc s rho tr' ts nv sc.
Proof.
  intros s rho tr tr' ts nv sc Hi [A B]. split; [exact A|].
  eapply Forall_impl; [|exact B]. intros t. now apply reads_ok_mono.
Qed.

Lemma skipn_nth_cons : forall (l : list Z) n, (n < length l)%nat -> skipn n l = nth n l 0%Z :: skipn (S n) l.
Proof.
  induction l as [|a l IH]; intros [|n] H; cbn [length] in H; try lia; [reflexivity|].
  cbn [skipn nth]. apply IH. lia.
Qed.

(* materialising m further input variables does not change what the symbolic stack denotes *)
Lemma eval_newvars : forall s rho m nv, (nv + m <= length s)%nat ->
  map (eval_tree s rho) (map varT (newvars nv m)) ++ skipn (nv + m) s = skipn nv s.
Proof.
  intros s rho. induction m as [|m IH]; intros nv H.
  - cbn [newvars seq map app]. now rewrite Nat.add_0_r.
  - rewrite newvars_S. cbn [map app].
    replace (nv + S m)%nat with (S nv + m)%nat by lia. rewrite IH by lia.
    rewrite (skipn_nth_cons s nv) by lia. f_equal.
    cbn [eval_tree varT eval_sym]. f_equal. lia.
Qed.

Lemma conc_ext : forall s rho tr ts nv sc m, (nv + m <= length s)%nat ->
  conc s rho tr ts nv sc -> conc s rho tr (ext ts nv m) (nv + m) sc.
Proof.
  intros s rho tr ts nv sc m H [A B]. split.
  - unfold ext. rewrite map_app, <- app_assoc, eval_newvars by exact H. exact A.
  - unfold ext. apply Forall_app. split; [exact B|].
    apply Forall_forall. intros t Ht. apply in_map_iff in Ht as (v & <- & _). apply reads_ok_var.
Qed.

Lemma take_app : forall k (l r : list Z), (k <= length l)%nat ->
  take k (l ++ r) = Some (firstn k l, skipn k l ++ r).
Proof.
  intros k l r H. unfold take. rewrite app_length.
  destruct (Nat.leb_spec k (length l + length r)); [|lia].
  rewrite firstn_app, skipn_app. replace (k - length l)%nat with 0%nat by lia.
  cbn [firstn skipn]. now rewrite app_nil_r.
Qed.

Lemma Forall_firstn' : forall (A : Type) (P : A -> Prop) k l, Forall P l -> Forall P (firstn k l).
Proof.
  intros A P k l H. rewrite <- (firstn_skipn k l) in H. now apply Forall_app in H.
Qed.
Lemma Forall_skipn' : forall (A : Type) (P : A -> Prop) k l, Forall P l -> Forall P (skipn k l).
Proof.
  intros A P k l H. rewrite <- (firstn_skipn k l) in H. now apply Forall_app in H.
Qed.
Lemma Forall_nth' : forall (A : Type) (P : A -> Prop) n l d, Forall P l -> (n < length l)%nat -> P (nth n l d).
Proof. intros A P n l d H Hn. rewrite Forall_forall in H. apply H. now apply nth_In. Qed.

Lemma set_nth_split : forall (A : Type) n (x : A) l, (n < length l)%nat ->
  set_nth n x l = firstn n l ++ x :: skipn (S n) l.
Proof.
  intros A n x l. revert n. induction l as [|a l IH]; intros [|n] H; cbn [length] in H; try lia.
  - reflexivity.
  - cbn [set_nth firstn skipn app]. f_equal. apply IH. lia.
Qed.

Lemma be_val_of_be : forall l a, be_val l (Z.of_N a) = Z.of_N (be_value l a).
Proof.
  induction l as [|b l IH]; intros a; cbn [be_val be_value]; [reflexivity|].
  rewrite <- IH. f_equal. lia.
Qed.

Definition pure_op_eq_dec : forall a b : pure_op, {a = b} + {a <> b}.
Proof. decide equality. Defined.

Lemma eval_sym_pure : forall s sy p args, sym_pure sy = Some p ->
  eval_sym s sy args = pure_apply p args.
Proof. intros s sy p args H. destruct sy; cbn in H; try discriminate; cbn; now inversion H. Qed.

(* the arm of annotate_one for byte c does what the EVM instruction c does *)
Definition sk_ok (c : N) (sh : shape) (kd : kind) : bool :=
  match sh, kd with
  | ShOp sy k, KPure p =>
      match sym_pure sy with Some q => if pure_op_eq_dec q p then true else false | None => false end
      && Nat.eqb k (pure_arity p) && Nat.eqb (children sy) k && negb (is_read_sym sy)
  | ShOp sy k, KRead k' =>
      Nat.eqb k k' && Nat.eqb (children sy) k && is_read_sym sy
      && match read_code sy with Some c' => N.eqb c' c | None => false end
  | ShEnv sy, KRead O =>
      Nat.eqb (children sy) 0 && is_read_sym sy
      && match read_code sy with Some c' => N.eqb c' c | None => false end
  | ShDrop k, KDrop k' => Nat.eqb k k'
  | ShPc, KPc => true
  | ShPush0, KPush => true
  | ShPush, KPush => true
  | ShDup n, KDup n' => Nat.eqb n n' && Nat.leb 1 n
  | ShSwap n, KSwap n' => Nat.eqb n n' && Nat.leb 1 n
  | ShTerm k, KHalt k' => Nat.eqb k k'
  | ShJump, KJump => true
  | ShJumpI, KJumpI => true
  | _, _ => false
  end.

Definition txit_transfer (s : list Z) (rho : nat -> Z) (x : txit) : transfer :=
  match x with
  | TXTerm => Halt
  | TXJump t => Goto (eval_tree s rho t)
  | TXBranch c t f => CondJump (eval_tree s rho c) (eval_tree s rho t) (Z.of_N f)
  end.

Definition is_exit_shape (sh : shape) : bool :=
  match sh with ShTerm _ | ShJump | ShJumpI => true | _ => false end.

Lemma tstep_exit : forall sh idx pc imm ts nv,
  (exists x, fst (fst (tstep sh idx pc imm ts nv)) = Some x) <-> is_exit_shape sh = true.
Proof.
  intros. destruct sh; cbn [tstep fst is_exit_shape]; split; intros H;
    try discriminate; try (destruct H; discriminate); eauto.
Qed.

Lemma tstep_nv : forall sh idx pc imm ts nv, sh <> ShNoArm ->
  snd (tstep sh idx pc imm ts nv) = (nv + (need sh - length ts))%nat.
Proof. intros. destruct sh; try reflexivity. congruence. Qed.

Lemma sim_step : forall i sh idx pc ts nv s rho sc tr rest,
  sk_ok (opcode i) sh (kind_of (opcode i)) = true ->
  (sh = ShPush0 -> imm i = []) -> (pc < 65536)%N ->
  (snd (tstep sh idx pc (imm i) ts nv) <= length s)%nat ->
  conc s rho tr ts nv sc ->
  let r := tstep sh idx pc (imm i) ts nv in
  match fst (fst r) with
  | None => exists sc' tr', incl tr tr' /\ conc s rho tr' (snd (fst r)) (snd r) sc' /\
      exec rho idx (Z.of_N pc) (i :: rest) sc tr =
      exec rho (S idx) (Z.of_N pc + instr_size i) rest sc' tr'
  | Some x => exists sc', conc s rho tr (snd (fst r)) (snd r) sc' /\
      exec rho idx (Z.of_N pc) (i :: rest) sc tr = Done sc' (txit_transfer s rho x) tr
  end.
Proof.
  intros i sh idx pc ts nv s rho sc tr rest Hsk Himm Hpc Hnv Hc.
  assert (Hna : sh <> ShNoArm) by (intros ->; discriminate).
  rewrite tstep_nv in Hnv by exact Hna.
  pose proof (conc_ext s rho tr ts nv sc _ Hnv Hc) as [Hsc HF].
  assert (Hlen : (need sh <= length (ext ts nv (need sh - length ts)))%nat)
    by (rewrite ext_length; lia).
  set (TS := ext ts nv (need sh - length ts)) in *.
  set (R := skipn (nv + (need sh - length ts)) s) in *.
  cbn [exec]. 
  destruct sh as [sy k|sy|k| | | |n|n|k| | |], (kind_of (opcode i)) as [p|k'|k'| | |n'|n'|k'| |] eqn:Ek;
    try discriminate Hsk; cbn [sk_ok] in Hsk; cbn [tstep fst snd need] in *; fold TS; fold R.
  - (* pure operation *)
    destruct (sym_pure sy) as [q|] eqn:Eq; [|discriminate]. destruct (pure_op_eq_dec q p) as [->|]; [|discriminate].
    rewrite !andb_true_iff in Hsk. destruct Hsk as [[[_ Hk] Hch] Hr].
    apply Nat.eqb_eq in Hk, Hch. apply negb_true_iff in Hr. subst k.
    rewrite Hsc, take_app by (rewrite map_length; exact Hlen).
    eexists _, tr. split; [apply incl_refl|]. split; [|reflexivity].
    unfold mk_tag. rewrite Hr. split.
    + cbn [map eval_tree]. rewrite (eval_sym_pure _ _ _ _ Eq), !firstn_map, !skipn_map. reflexivity.
    + constructor; [|now apply Forall_skipn'].
      apply reads_ok_node. rewrite firstn_length, Nat.min_l by exact Hlen.
      split; [exact Hch|]. split; [now apply Forall_firstn'|exact Hr].
  - (* state read with operands *)
    rewrite !andb_true_iff in Hsk. destruct Hsk as [[[Hk Hch] Hr] Hrc].
    apply Nat.eqb_eq in Hk, Hch. subst k'.
    destruct (read_code sy) as [c'|] eqn:Erc; [|discriminate]. apply N.eqb_eq in Hrc. subst c'.
    rewrite Hsc, take_app by (rewrite map_length; exact Hlen).
    eexists _, _. split; [apply incl_appl, incl_refl|]. split; [|reflexivity].
    unfold mk_tag. rewrite Hr. split.
    + cbn [map eval_tree]. now rewrite !skipn_map.
    + constructor.
      * apply reads_ok_node. rewrite firstn_length, Nat.min_l by exact Hlen.
        split; [exact Hch|]. split.
        -- apply Forall_firstn'. eapply Forall_impl; [|exact HF]. intros t. apply reads_ok_mono, incl_appl, incl_refl.
        -- exists (opcode i). split; [exact Erc|]. apply in_or_app. right. left. now rewrite firstn_map.
      * apply Forall_skipn'. eapply Forall_impl; [|exact HF]. intros t. apply reads_ok_mono, incl_appl, incl_refl.
  - (* nullary state read *)
    destruct k' as [|k']; [|discriminate].
    rewrite !andb_true_iff in Hsk. destruct Hsk as [[Hch Hr] Hrc]. apply Nat.eqb_eq in Hch.
    destruct (read_code sy) as [c'|] eqn:Erc; [|discriminate]. apply N.eqb_eq in Hrc. subst c'.
    cbn [take Nat.leb firstn skipn].
    eexists _, _. split; [apply incl_appl, incl_refl|]. split; [|reflexivity].
    unfold mk_tag. rewrite Hr. split.
    + cbn [map eval_tree]. now rewrite Hsc.
    + constructor.
      * apply reads_ok_node. cbn [length map]. split; [exact Hch|]. split; [constructor|].
        exists (opcode i). split; [exact Erc|]. apply in_or_app. right. now left.
      * eapply Forall_impl; [|exact HF]. intros t. apply reads_ok_mono, incl_appl, incl_refl.
  - (* drop *)
    apply Nat.eqb_eq in Hsk. subst k'. rewrite Hsc, take_app by (rewrite map_length; exact Hlen).
    eexists _, tr. split; [apply incl_refl|]. split; [|reflexivity].
    split; [now rewrite skipn_map|now apply Forall_skipn'].
  - (* pc *)
    eexists _, tr. split; [apply incl_refl|]. split; [|reflexivity]. split.
    + cbn [map eval_tree leafT eval_sym]. rewrite N.mod_small by exact Hpc. now rewrite Hsc.
    + constructor; [now apply reads_ok_leaf|exact HF].
  - (* push0 *)
    rewrite (Himm eq_refl). cbn [be_val].
    eexists _, tr. split; [apply incl_refl|]. split; [|reflexivity]. split.
    + cbn [map eval_tree leafT eval_sym]. now rewrite Hsc.
    + constructor; [now apply reads_ok_leaf|exact HF].
  - (* pushN *)
    eexists _, tr. split; [apply incl_refl|]. split; [|reflexivity]. split.
    + cbn [map eval_tree leafT eval_sym]. unfold N_of_be. rewrite <- be_val_of_be. now rewrite Hsc.
    + constructor; [now apply reads_ok_leaf|exact HF].
  - (* dup *)
    rewrite andb_true_iff in Hsk. destruct Hsk as [Hn H1]. apply Nat.eqb_eq in Hn. apply Nat.leb_le in H1. subst n'.
    rewrite Hsc, nth_error_app1 by (rewrite map_length; lia).
    rewrite (nth_error_map_nth _ _ _ TS (n - 1) dT) by lia.
    eexists _, tr. split; [apply incl_refl|]. split; [|reflexivity]. split.
    + reflexivity.
    + constructor; [apply Forall_nth'; [exact HF|lia]|exact HF].
  - (* swap *)
    rewrite andb_true_iff in Hsk. destruct Hsk as [Hn H1]. apply Nat.eqb_eq in Hn. apply Nat.leb_le in H1. subst n'.
    destruct TS as [|t0 TS'] eqn:ETS; [cbn [length] in Hlen; lia|]. cbn [length] in Hlen.
    destruct n as [|n1]; [lia|].
    rewrite Hsc. unfold swap_top. cbn [map app tl nth_error].
    rewrite nth_error_app1 by (rewrite map_length; lia).
    rewrite (nth_error_map_nth _ _ _ TS' n1 dT) by lia.
    eexists _, tr. split; [apply incl_refl|]. split; [|reflexivity]. split.
    + cbn [hd set_nth tl nth map]. rewrite (set_nth_split _ n1 t0 TS') by lia.
      rewrite map_app. cbn [map app]. rewrite <- firstn_map, <- skipn_map. fold R.
      replace (S n1 - 1)%nat with n1 by lia. replace (S n1 + 1)%nat with (S (S n1)) by lia.
      rewrite skipn_cons, firstn_app, skipn_app, map_length.
      replace (n1 - length TS')%nat with 0%nat by lia.
      replace (S n1 - length TS')%nat with 0%nat by lia.
      cbn [firstn skipn]. rewrite app_nil_r, <- !app_assoc. reflexivity.
    + inversion HF as [|? ? Ht0 HF']; subst.
      constructor; [cbn [nth]; apply Forall_nth'; [exact HF'|lia]|].
      cbn [hd set_nth tl]. rewrite (set_nth_split _ n1 t0 TS') by lia.
      apply Forall_app. split; [now apply Forall_firstn'|].
      constructor; [exact Ht0|now apply Forall_skipn'].
  - (* halting *)
    apply Nat.eqb_eq in Hsk. subst k'. rewrite Hsc, take_app by (rewrite map_length; exact Hlen).
    eexists. split; [|reflexivity]. split; [now rewrite skipn_map|now apply Forall_skipn'].
  - (* jump *)
    destruct TS as [|t0 TS'] eqn:ETS; [cbn [length] in Hlen; lia|].
    rewrite Hsc. cbn [map app nth skipn].
    eexists. split; [|reflexivity]. inversion HF; subst. split; [reflexivity|assumption].
  - (* jumpi *)
    destruct TS as [|t0 [|t1 TS']] eqn:ETS; cbn [length] in Hlen; try lia.
    rewrite Hsc. cbn [map app nth skipn txit_transfer].
    eexists. split; [|rewrite N2Z.inj_add; reflexivity].
    inversion HF as [|? ? ? HF']; subst. inversion HF'; subst. split; [reflexivity|assumption].
Qed.

Lemma conc_length : forall s rho tr ts nv sc, conc s rho tr ts nv sc ->
  length sc = (length ts + (length s - nv))%nat.
Proof. intros s rho tr ts nv sc [-> _]. now rewrite app_length, map_length, skipn_length. Qed.

Lemma take_short : forall k (l : list Z), (length l < k)%nat -> take k l = None.
Proof. intros k l H. unfold take. destruct (Nat.leb_spec k (length l)); [lia|reflexivity]. Qed.

(* too shallow a stack: the instruction underflows *)
Lemma exec_underflow : forall i sh rho idx pcz rest sc tr,
  sk_ok (opcode i) sh (kind_of (opcode i)) = true -> (length sc < need sh)%nat ->
  exec rho idx pcz (i :: rest) sc tr = Underflow.
Proof.
  intros i sh rho idx pcz rest sc tr Hsk Hl. cbn [exec].
  destruct sh as [sy k|sy|k| | | |n|n|k| | |], (kind_of (opcode i)) as [p|k'|k'| | |n'|n'|k'| |];
    try discriminate Hsk; cbn [sk_ok need] in *; try lia.
  - destruct (sym_pure sy); [|discriminate]. rewrite !andb_true_iff in Hsk.
    destruct Hsk as [[[_ Hk] _] _]. apply Nat.eqb_eq in Hk. subst k. now rewrite take_short.
  - rewrite !andb_true_iff in Hsk. destruct Hsk as [[[Hk _] _] _]. apply Nat.eqb_eq in Hk. subst k'.
    now rewrite take_short.
  - apply Nat.eqb_eq in Hsk. subst k'. now rewrite take_short.
  - rewrite andb_true_iff in Hsk. destruct Hsk as [Hn H1]. apply Nat.eqb_eq in Hn. apply Nat.leb_le in H1. subst n'.
    assert (E : nth_error sc (n - 1) = None) by (apply nth_error_None; lia). now rewrite E.
  - rewrite andb_true_iff in Hsk. destruct Hsk as [Hn H1]. apply Nat.eqb_eq in Hn. subst n'.
    unfold swap_top. destruct sc as [|x l]; [reflexivity|].
    assert (E : nth_error (x :: l) n = None) by (apply nth_error_None; lia). now rewrite E.
  - apply Nat.eqb_eq in Hsk. subst k'. now rewrite take_short.
  - destruct sc; [reflexivity|cbn [length] in Hl; lia].
  - destruct sc as [|x [|y l]]; try reflexivity. cbn [length] in Hl; lia.
Qed.

(* ====================================================================== *)
(* 6. the finite check of the table against the arms, byte by byte *)

(* counts_match: for every byte outside the known class, (1) the arm of annotate_one is the EVM
   instruction of Spec/EvmExec.v, (2,3) the pops / pushes the generated table declares are exactly
   those the arm performs, (4) the exit flags are those the arm's Exit needs, (5,6) the
   immediate fits Expr::constant, (7) the jump-target flag marks jumpdest.  Re-checked
   whenever the TOML changes.  (The predicate is written out: folding it into a constant
   would make the kernel unfold the whole table at every use.) *)
Lemma counts_match :
  bytes_all (fun c => cancun_only c ||
    (sk_ok c (shape_of c) (kind_of c)
     && Nat.eqb (N.to_nat (r_pops (from_u8 cancun c))) (need (shape_of c))
     && Nat.eqb (N.to_nat (r_pushes (from_u8 cancun c))) (shape_pushes (shape_of c))
     && match shape_of c with
        | ShTerm _ => r_exits (from_u8 cancun c)
        | ShJump | ShJumpI => r_jump (from_u8 cancun c)
        | _ => negb (r_exits (from_u8 cancun c))
        end
     && (r_extra (from_u8 cancun c) <=? 32)%N
     && match shape_of c with ShPush0 => (r_extra (from_u8 cancun c) =? 0)%N | _ => true end
     && Bool.eqb (r_jt (from_u8 cancun c)) (c =? 0x5b)%N)) = true.
Proof. vm_compute. reflexivity. Qed.

Lemma gap_or : forall (f : N -> bool), bytes_all (fun c => cancun_only c || f c) = true ->
  forall c, (c < 256)%N -> cancun_only c = false -> f c = true.
Proof.
  intros f H c Hc Hg. pose proof (bytes_all_spec _ H c Hc) as H'. cbv beta in H'.
  rewrite Hg in H'. exact H'.
Qed.

Lemma and7 : forall a b c d e f g : bool, a && b && c && d && e && f && g = true ->
  a = true /\ b = true /\ c = true /\ d = true /\ e = true /\ f = true /\ g = true.
Proof. intros [] [] [] [] [] [] []; cbn; intuition discriminate. Qed.

Lemma byte_facts : forall c, (c < 256)%N -> cancun_only c = false ->
  sk_ok c (shape_of c) (kind_of c) = true /\
  N.to_nat (r_pops (from_u8 cancun c)) = need (shape_of c) /\
  N.to_nat (r_pushes (from_u8 cancun c)) = shape_pushes (shape_of c) /\
  (match shape_of c with
   | ShTerm _ => r_exits (from_u8 cancun c)
   | ShJump | ShJumpI => r_jump (from_u8 cancun c)
   | _ => negb (r_exits (from_u8 cancun c))
   end = true) /\
  (r_extra (from_u8 cancun c) <= 32)%N /\
  (shape_of c = ShPush0 -> r_extra (from_u8 cancun c) = 0%N) /\
  r_jt (from_u8 cancun c) = (c =? 0x5b)%N.
Proof.
  intros c Hc Hg. pose proof (gap_or _ counts_match c Hc Hg) as H. cbv beta in H.
  apply and7 in H. destruct H as (A & B & C & D & E & F & G).
  apply Nat.eqb_eq in B, C. apply N.leb_le in E. apply Bool.eqb_prop in G.
  repeat split; auto.
  intros Hs. rewrite Hs in F. now apply N.eqb_eq in F.
Qed.

(* ====================================================================== *)
(* 7. the loop over the instructions of a block *)

(* an instruction as the disassembler delivers it, outside the known-finding class *)
Definition op_ok (op : item) : Prop :=
  wf_item op /\ (i_code op < 256)%N /\ cancun_only (i_code op) = false.

Definition sizes (ops : list item) : N := sumN (map (fun op => size (row_of op)) ops).

Inductive lxit := LFall (n : N) | LX (x : txit).
Definition lenc (x : lxit) : texit := match x with LFall n => XFall n | LX x => xenc x end.
Definition ltransfer (s : list Z) (rho : nat -> Z) (x : lxit) : transfer :=
  match x with LFall n => FallThrough (Z.of_N n) | LX x => txit_transfer s rho x end.
Definition lxit_trees (x : lxit) : list ttree :=
  match x with
  | LX (TXJump t) => [t]
  | LX (TXBranch c t _) => [c; t]
  | _ => []
  end.

Definition srep (st : astate) (ts : list ttree) (nv : nat) : Prop :=
  a_cur st = map tencode ts /\ a_vars st = Z.of_nat nv /\ a_inputs st = newvars 0 nv.

Lemma sk_ok_guard : forall c sh kd op pc, sk_ok c sh kd = true ->
  (length (i_imm op) <= 32)%nat -> (pc + 1 <= usize_max)%N -> shape_guard sh op pc.
Proof.
  intros c sh kd op pc H H32 Hpc.
  destruct sh, kd; try discriminate H; cbn [sk_ok shape_guard] in *; auto.
  - destruct (sym_pure s); [|discriminate]. rewrite !andb_true_iff in H. destruct H as [[_ H] _].
    now apply Nat.eqb_eq in H.
  - rewrite !andb_true_iff in H. destruct H as [[[_ H] _] _]. now apply Nat.eqb_eq in H.
  - rewrite andb_true_iff in H. destruct H as [_ H]. now apply Nat.leb_le in H.
  - rewrite andb_true_iff in H. destruct H as [_ H]. now apply Nat.leb_le in H.
Qed.

Lemma sizes_cons : forall op rest, sizes (op :: rest) = (size (row_of op) + sizes rest)%N.
Proof. reflexivity. Qed.

Lemma loop_sim : forall ops idx pc st ts nv s rho sc tr st_f t_f tr_f,
  srep st ts nv -> Forall op_ok ops -> jmp_only_last cancun_jmp ops ->
  (pc + sizes ops <= 65536)%N ->
  (Z.of_nat (length s) <= 65535)%Z -> (nv <= length s)%nat ->
  conc s rho tr ts nv sc ->
  exec rho idx (Z.of_N pc) (map instr_of ops) sc tr = Done st_f t_f tr_f ->
  exists x st' ts' nv',
    annotate_loop idx pc ops st = Ok (lenc x, st') /\ srep st' ts' nv' /\
    (nv <= nv' <= length s)%nat /\
    forall s2 rho2 sc2 tr2, (nv' <= length s2)%nat -> conc s2 rho2 tr2 ts nv sc2 ->
      exists sc2' tr2',
        exec rho2 idx (Z.of_N pc) (map instr_of ops) sc2 tr2 = Done sc2' (ltransfer s2 rho2 x) tr2' /\
        conc s2 rho2 tr2' ts' nv' sc2' /\ Forall (reads_ok s2 rho2 tr2') (lxit_trees x).
Proof.
  induction ops as [|op rest IH];
    intros idx pc st ts nv s rho sc tr st_f t_f tr_f Hrep Hok Hjl Hpc Hs Hnv Hc Hex.
  - exists (LFall pc), st, ts, nv. split; [reflexivity|]. split; [exact Hrep|]. split; [lia|].
    intros s2 rho2 sc2 tr2 _ Hc2. exists sc2, tr2. split; [reflexivity|]. split; [exact Hc2|constructor].
  - inversion Hok as [|? ? (Hwf & Hc256 & Hgap) Hoks]; subst.
    destruct (byte_facts _ Hc256 Hgap) as (Hsk & Hpops & Hpushes & Hflags & Hextra & Hp0 & Hjt).
    set (sh := shape_of (i_code op)) in *. set (row := from_u8 cancun (i_code op)) in *.
    assert (Hlenimm : length (i_imm op) = N.to_nat (r_extra row)).
    { unfold wf_item, ilen, size in Hwf. fold row in Hwf. lia. }
    assert (Hsz : Z.of_N (size row) = instr_size (instr_of op)).
    { unfold instr_size, instr_of, size. cbn [imm]. lia. }
    assert (Hsz1 : (1 <= size row)%N) by (unfold size; lia).
    rewrite sizes_cons in Hpc. fold row in Hpc. change (row_of op) with row in Hpc.
    cbn [map] in Hex.
    destruct (le_lt_dec (nv + (need sh - length ts)) (length s)) as [Hle|Hgt].
    2:{ exfalso. rewrite (exec_underflow _ sh) in Hex; [discriminate|exact Hsk|].
        rewrite (conc_length _ _ _ _ _ _ Hc). lia. }
    destruct Hrep as (Hcur & Hvars & Hins).
    destruct (refine_step idx pc
                (mkwin (a_cur st) (a_vars st) (a_inputs st) (N.to_nat (r_pops row)) (N.to_nat (r_pushes row)))
                op ts nv) as (w' & Hann & Hrep' & Hp' & Hq').
    { repeat split; assumption. }
    { exact Hpops. }
    { exact Hpushes. }
    { apply (sk_ok_guard _ _ _ _ _ Hsk); [lia|unfold usize_max; lia]. }
    { fold sh. lia. }
    fold sh in Hann, Hrep'.
    assert (Hdrop : wdrop w' = Ok tt) by (unfold wdrop; now rewrite Hp', Hq').
    assert (Hna : sh <> ShNoArm) by (intros E; rewrite E in Hsk; discriminate).
    pose proof (tstep_nv sh idx pc (i_imm op) ts nv Hna) as Hnv1.
    assert (Hsim : forall s2 rho2 sc2 tr2 rest2,
              (snd (tstep sh idx pc (i_imm op) ts nv) <= length s2)%nat -> conc s2 rho2 tr2 ts nv sc2 ->
              let r := tstep sh idx pc (i_imm op) ts nv in
              match fst (fst r) with
              | None => exists sc' tr', incl tr2 tr' /\ conc s2 rho2 tr' (snd (fst r)) (snd r) sc' /\
                  exec rho2 idx (Z.of_N pc) (instr_of op :: rest2) sc2 tr2 =
                  exec rho2 (S idx) (Z.of_N pc + instr_size (instr_of op)) rest2 sc' tr'
              | Some x => exists sc', conc s2 rho2 tr2 (snd (fst r)) (snd r) sc' /\
                  exec rho2 idx (Z.of_N pc) (instr_of op :: rest2) sc2 tr2 =
                  Done sc' (txit_transfer s2 rho2 x) tr2
              end).
    { intros s2 rho2 sc2 tr2 rest2 Hl2 Hc2.
      apply (sim_step (instr_of op) sh idx pc ts nv s2 rho2 sc2 tr2 rest2); auto.
      - intros E. cbn [instr_of imm]. specialize (Hp0 E).
        destruct (i_imm op); [reflexivity|cbn [length] in Hlenimm; lia].
      - lia. }
    cbn [instr_of imm opcode] in Hsim.
    set (r := tstep sh idx pc (i_imm op) ts nv) in *.
    cbn [annotate_loop]. change (row_of op) with row. rewrite Hann. cbn [bind].
    destruct (fst (fst r)) as [tx|] eqn:Eox; cbn [option_map].
    + (* the arm returns an exit *)
      assert (Hexit : is_exit_shape sh = true) by (apply (tstep_exit sh idx pc (i_imm op) ts nv); eauto).
      destruct rest as [|op2 rest2].
      2:{ exfalso. unfold jmp_only_last in Hjl. cbn [removelast] in Hjl. inversion Hjl as [|? ? Hj _]; subst.
          unfold cancun_jmp in Hj. fold row in Hj. apply orb_false_iff in Hj as [Hj1 Hj2].
          destruct sh; try discriminate Hexit; rewrite ?Hj1, ?Hj2 in Hflags; discriminate. }
      assert (Hm : match xenc tx with
                   | XTerm => r_exits row
                   | XJump _ | XBranch _ _ _ => r_jump row
                   | XFall _ => false
                   end = true).
      { unfold r in Eox. destruct sh; try discriminate Hexit; cbn [tstep fst] in Eox; inversion Eox; subst tx;
          cbn [xenc]; exact Hflags. }
      rewrite Hm. cbn [negb]. rewrite Hdrop. cbn [bind].
      exists (LX tx), (state_of w'), (snd (fst r)), (snd r).
      split; [reflexivity|]. split; [exact Hrep'|]. split; [lia|].
      intros s2 rho2 sc2 tr2 Hl2 Hc2.
      specialize (Hsim s2 rho2 sc2 tr2 [] Hl2 Hc2). cbv zeta in Hsim.
      destruct Hsim as (sc' & Hc' & He'). exists sc', tr2. cbn [map]. split; [exact He'|]. split; [exact Hc'|].
      (* the exit trees were on the stack *)
      unfold r in Eox. rewrite Hnv1 in Hl2.
      pose proof (conc_ext s2 rho2 tr2 ts nv sc2 (need sh - length ts) Hl2 Hc2) as [_ HFe].
      assert (Hlen : forall j, (j < need sh)%nat -> (j < length (ext ts nv (need sh - length ts)))%nat)
        by (intros j Hj; rewrite ext_length; lia).
      destruct sh; try discriminate Hexit; cbn [tstep fst] in Eox; inversion Eox; subst tx; cbn [lxit_trees].
      * constructor.
      * constructor; [|constructor]. apply Forall_nth'; [exact HFe|]. apply (Hlen 0%nat). cbn [need]. lia.
      * constructor; [|constructor; [|constructor]]; (apply Forall_nth'; [exact HFe|]).
        -- apply (Hlen 1%nat). cbn [need]. lia.
        -- apply (Hlen 0%nat). cbn [need]. lia.
    + (* the arm falls through to the next instruction *)
      assert (Hexit : is_exit_shape sh = false).
      { destruct (is_exit_shape sh) eqn:E; [|reflexivity].
        apply (tstep_exit sh idx pc (i_imm op) ts nv) in E as [x Hx]. fold r in Hx. congruence. }
      assert (Hre : r_exits row = false).
      { destruct sh; try discriminate Hexit; now apply negb_true_iff in Hflags. }
      rewrite Hre. destruct (N.ltb_spec usize_max (pc + size row)) as [Hov|_]; [unfold usize_max in Hov; lia|].
      rewrite Hdrop. cbn [bind].
      pose proof (Hsim s rho sc tr (map instr_of rest) ltac:(fold r; lia) Hc) as Hsim1.
      cbv zeta in Hsim1. destruct Hsim1 as (sc1 & tr1 & Hi1 & Hc1 & He1).
      rewrite He1 in Hex. rewrite <- Hsz, <- N2Z.inj_add in Hex.
      destruct (IH (S idx) (pc + size row)%N (state_of w') (snd (fst r)) (snd r) s rho sc1 tr1 st_f t_f tr_f)
        as (x & st' & ts' & nv' & Hloop & Hrep'' & Hnv' & Huniv); auto.
      { unfold jmp_only_last in *. destruct rest as [|op2 rest2]; [constructor|].
        cbn [removelast] in Hjl. inversion Hjl; subst. assumption. }
      { lia. }
      { lia. }
      exists x, st', ts', nv'. split; [exact Hloop|]. split; [exact Hrep''|]. split; [lia|].
      intros s2 rho2 sc2 tr2 Hl2 Hc2.
      pose proof (Hsim s2 rho2 sc2 tr2 (map instr_of rest) ltac:(fold r; lia) Hc2) as Hsim2.
      cbv zeta in Hsim2. destruct Hsim2 as (sc2a & tr2a & Hi2 & Hc2a & He2).
      destruct (Huniv s2 rho2 sc2a tr2a Hl2 Hc2a) as (sc2' & tr2' & He2' & Hc2' & Hx2').
      exists sc2', tr2'. cbn [map]. rewrite He2, <- Hsz, <- N2Z.inj_add. auto.
Qed.

(* ====================================================================== *)
(* 8. whole blocks *)

(* the hypotheses on a block: what the disassembler (C04) and the separator (C16) guarantee,
   outside the known-finding class, within the EVM code-size limit *)
Definition block_hyps (off : N) (ops : list item) : Prop :=
  ops <> [] /\ Forall wf_item ops /\ Forall (fun it => (i_code it < 256)%N) ops /\
  jmp_only_last cancun_jmp ops /\
  ~ KnownClass_C06_cancun_gap (map instr_of ops) /\
  (off + block_size (mkblock off ops) <= 65536)%N.

Lemma sizes_block_size : forall off ops, Forall wf_item ops -> sizes ops = block_size (mkblock off ops).
Proof.
  intros off ops H. unfold sizes, block_size. cbn [b_ops]. f_equal.
  induction H as [|it l Hw _ IH]; [reflexivity|]. cbn [map]. f_equal; [|exact IH].
  unfold wf_item, ilen in Hw. unfold encode_item, row_of. cbn [length]. lia.
Qed.

Lemma not_existsb : forall (A : Type) (f : A -> bool) l, existsb f l <> true -> Forall (fun x => f x = false) l.
Proof.
  intros A f l. induction l as [|a l IH]; intros H; [constructor|]. cbn [existsb] in H.
  destruct (f a) eqn:E; [exfalso; now apply H|]. constructor; [exact E|]. now apply IH.
Qed.

Lemma block_hyps_ok : forall off ops, block_hyps off ops -> Forall op_ok ops.
Proof.
  intros off ops (_ & Hw & Hc & _ & Hg & _). unfold KnownClass_C06_cancun_gap in Hg.
  apply not_existsb in Hg. rewrite Forall_forall in *. intros op Hin. repeat split; auto.
  apply (Hg (instr_of op)). now apply in_map.
Qed.

Lemma exit_transfer_lenc : forall s rho tr x, Forall (reads_ok s rho tr) (lxit_trees x) ->
  exit_transfer s rho (lenc x) = ltransfer s rho x.
Proof.
  intros s rho tr [n|[|t|c t f]] H; cbn [lenc xenc exit_transfer ltransfer txit_transfer lxit_trees] in *;
    try reflexivity.
  - inversion H; subst. rewrite eval_texpr_tencode by (eapply reads_ok_arity; eassumption). reflexivity.
  - inversion H as [|? ? Hc H']; subst. inversion H'; subst.
    rewrite !eval_texpr_tencode by (eapply reads_ok_arity; eassumption). reflexivity.
Qed.

Lemma exit_exprs_lenc : forall x, exit_exprs (lenc x) = map tencode (lxit_trees x).
Proof. intros [n|[|t|c t f]]; reflexivity. Qed.

Lemma expr_reads_ok_tencode : forall s rho tr t, reads_ok s rho tr t -> expr_reads_ok s rho tr (tencode t).
Proof.
  intros s rho tr t H. unfold expr_reads_ok. rewrite ttree_of_tencode by (eapply reads_ok_arity; exact H).
  auto.
Qed.

Lemma map_eval_texpr : forall s rho tr ts, Forall (reads_ok s rho tr) ts ->
  map (eval_texpr s rho) (map tencode ts) = map (eval_tree s rho) ts.
Proof.
  intros s rho tr ts H. rewrite map_map. apply map_ext_in. intros t Ht.
  rewrite Forall_forall in H. apply eval_texpr_tencode. eapply reads_ok_arity. now apply H.
Qed.

Theorem annotate_sim : forall off ops s rho st t tr,
  block_hyps off ops -> (Z.of_nat (length s) <= 65535)%Z ->
  exec_block rho (Z.of_N off) (map instr_of ops) s = Done st t tr ->
  exists a, annotate off ops = Ok a /\
    let n := length (an_inputs a) in
    an_inputs a = map Z.of_nat (seq 1 n) /\ (n <= length s)%nat /\
    an_offset a = off /\ an_size a = block_size (mkblock off ops) /\
    an_jt a = match ops with it :: _ => (i_code it =? 0x5b)%N | [] => false end /\
    forall s2 rho2, (n <= length s2)%nat -> exists tr2,
      exec_block rho2 (Z.of_N off) (map instr_of ops) s2 =
        Done (map (eval_texpr s2 rho2) (an_outputs a) ++ skipn n s2)
             (exit_transfer s2 rho2 (an_exit a)) tr2 /\
      Forall (expr_reads_ok s2 rho2 tr2) (an_outputs a ++ exit_exprs (an_exit a)).
Proof.
  intros off ops s rho st t tr Hh Hs Hex.
  pose proof (block_hyps_ok off ops Hh) as Hok.
  destruct Hh as (Hne & Hw & Hc & Hjl & Hg & Hsz).
  rewrite <- (sizes_block_size off ops Hw) in Hsz.
  destruct (loop_sim ops 0 off (mkast [] 0%Z []) [] 0 s rho s [] st t tr) as (x & st' & ts' & nv' & Hl & Hrep & Hnv & Huniv);
    auto.
  { repeat split. }
  { lia. }
  { split; [reflexivity|constructor]. }
  destruct Hrep as (Hcur & Hvars & Hins).
  unfold annotate. rewrite Hl. cbn [bind]. destruct ops as [|op0 rest]; [congruence|].
  eexists. split; [reflexivity|]. cbn [an_inputs an_offset an_size an_jt an_outputs an_exit].
  rewrite Hins, newvars_length. split; [reflexivity|]. split; [lia|]. split; [reflexivity|].
  split; [apply (sizes_block_size off _ Hw)|]. split.
  - inversion Hok as [|? ? (_ & H256 & Hgap) _]; subst.
    destruct (byte_facts _ H256 Hgap) as (_ & _ & _ & _ & _ & _ & Hjt). exact Hjt.
  - intros s2 rho2 Hl2.
    destruct (Huniv s2 rho2 s2 [] Hl2) as (sc2 & tr2 & He2 & [Hsc2 HF2] & Hx2).
    { split; [reflexivity|constructor]. }
    exists tr2. unfold exec_block. rewrite He2, Hcur, (map_eval_texpr _ _ _ _ HF2), <- Hsc2.
    rewrite (exit_transfer_lenc _ _ _ _ Hx2). split; [reflexivity|].
    rewrite exit_exprs_lenc. apply Forall_app. split.
    + apply Forall_forall. intros e He. apply in_map_iff in He as (t0 & <- & Hin).
      apply expr_reads_ok_tencode. rewrite Forall_forall in HF2. now apply HF2.
    + apply Forall_forall. intros e He. apply in_map_iff in He as (t0 & <- & Hin).
      apply expr_reads_ok_tencode. rewrite Forall_forall in Hx2. now apply Hx2.
Qed.

(* a stack shorter than the declared inputs underflows: the number of inputs is the deepest
   entry-stack slot the block touches *)
Theorem inputs_minimal : forall off ops a, block_hyps off ops -> annotate off ops = Ok a ->
  (Z.of_nat (length (an_inputs a)) <= 65536)%Z ->
  forall s2 rho2, (length s2 < length (an_inputs a))%nat ->
  exec_block rho2 (Z.of_N off) (map instr_of ops) s2 = Underflow.
Proof.
  intros off ops a Hh Ha Hn s2 rho2 Hlt.
  destruct (exec_block rho2 (Z.of_N off) (map instr_of ops) s2) as [|st t tr] eqn:E; [reflexivity|exfalso].
  destruct (annotate_sim off ops s2 rho2 st t tr Hh ltac:(lia) E) as (a' & Ha' & _ & Hle & _).
  rewrite Ha in Ha'. inversion Ha'; subst a'. lia.
Qed.

(* the statement of C06 for the run at hand *)
Theorem annotate_agrees : forall off ops s rho st t tr,
  block_hyps off ops -> (Z.of_nat (length s) <= 65535)%Z ->
  exec_block rho (Z.of_N off) (map instr_of ops) s = Done st t tr ->
  exists a, annotate off ops = Ok a /\
    let n := length (an_inputs a) in
    an_inputs a = map Z.of_nat (seq 1 n) /\ (n <= length s)%nat /\
    map (eval_texpr s rho) (an_outputs a) ++ skipn n s = st /\
    exit_transfer s rho (an_exit a) = t /\
    Forall (expr_reads_ok s rho tr) (an_outputs a ++ exit_exprs (an_exit a)) /\
    an_offset a = off /\ an_size a = block_size (mkblock off ops) /\
    an_jt a = match ops with it :: _ => (i_code it =? 0x5b)%N | [] => false end.
Proof.
  intros off ops s rho st t tr Hh Hs Hex.
  destruct (annotate_sim off ops s rho st t tr Hh Hs Hex) as (a & Ha & Hin & Hle & Ho & Hz & Hj & Hu).
  exists a. split; [exact Ha|]. cbv zeta. split; [exact Hin|]. split; [exact Hle|].
  destruct (Hu s rho Hle) as (tr2 & He2 & Hr2). rewrite Hex in He2. inversion He2; subst.
  repeat split; auto.
Qed.

(* the number of inputs is exactly the entry-stack depth the block needs *)
Theorem inputs_exact : forall off ops s rho st t tr,
  block_hyps off ops -> (Z.of_nat (length s) <= 65535)%Z ->
  exec_block rho (Z.of_N off) (map instr_of ops) s = Done st t tr ->
  exists a, annotate off ops = Ok a /\
    let n := length (an_inputs a) in
    forall s2 rho2,
      ((length s2 < n)%nat -> exec_block rho2 (Z.of_N off) (map instr_of ops) s2 = Underflow) /\
      ((n <= length s2)%nat -> exists tr2,
         exec_block rho2 (Z.of_N off) (map instr_of ops) s2 =
           Done (map (eval_texpr s2 rho2) (an_outputs a) ++ skipn n s2)
                (exit_transfer s2 rho2 (an_exit a)) tr2 /\
         Forall (expr_reads_ok s2 rho2 tr2) (an_outputs a ++ exit_exprs (an_exit a))).
Proof.
  intros off ops s rho st t tr Hh Hs Hex.
  destruct (annotate_sim off ops s rho st t tr Hh Hs Hex) as (a & Ha & Hin & Hle & Ho & Hz & Hj & Hu).
  exists a. split; [exact Ha|]. cbv zeta. intros s2 rho2. split.
  - intros Hlt. apply (inputs_minimal off ops a Hh Ha); [lia|exact Hlt].
  - intros Hge. exact (Hu s2 rho2 Hge).
Qed.
