(* Proofs/ListingProofs.v -- a disassembly listing re-assembles to the original bytes (C03). *)
From Coq Require Import Lia ZifyBool ZifyNat ZifyN.
From Verif Require Import Model.Base Model.Ops Model.Disasm Model.Listing
  Proofs.OpsProofs Proofs.DisasmProofs.
Open Scope N_scope.
Ltac Zify.zify_post_hook ::= Z.div_mod_to_equations.

(* ====================================================================================== *)
(* A. sequencing                                                                           *)
(* ====================================================================================== *)
Lemma mapM_ok : forall A B (f : A -> res B) (g : A -> B) l,
  (forall a, In a l -> f a = Ok (g a)) -> mapM f l = Ok (map g l).
Proof.
  intros A B f g l. induction l as [|a r IH]; intros H; cbn [mapM map]; [reflexivity|].
  rewrite (H a (or_introl eq_refl)). cbn [bind]. rewrite IH; [reflexivity|].
  intros x Hx. apply H. now right.
Qed.

(* every element either succeeds with g, or fails with the one error e: the first failure wins *)
Lemma mapM_dichotomy : forall A B (f : A -> res B) (g : A -> B) (p : A -> bool) e l,
  (forall a, In a l -> if p a then f a = Ok (g a) else f a = Err e) ->
  mapM f l = if forallb p l then Ok (map g l) else Err e.
Proof.
  intros A B f g p e l. induction l as [|a r IH]; intros H; cbn [mapM map forallb]; [reflexivity|].
  pose proof (H a (or_introl eq_refl)) as Ha.
  destruct (p a); rewrite Ha; cbn [bind andb]; [|reflexivity].
  rewrite IH by (intros x Hx; apply H; now right).
  destruct (forallb p r); reflexivity.
Qed.

(* ====================================================================================== *)
(* B. ordered choice: the result is that of the first alternative that matches            *)
(* ====================================================================================== *)
Lemma match_op_spec : forall alts s x,
  match_op alts s = Some x <->
  exists pre a post, alts = (pre ++ a :: post)%list /\
    Forall (fun b => match_alt b s = None) pre /\ match_alt a s = Some x.
Proof.
  induction alts as [|a r IH]; intros s x; cbn [match_op].
  - split; [discriminate|]. intros (pre & a & post & E & _). destruct pre; discriminate.
  - destruct (match_alt a s) as [y|] eqn:Ea.
    + split.
      * intros H. exists [], a, r. repeat split; [constructor|congruence].
      * intros (pre & b & post & E & Hpre & Hb). destruct pre as [|c pre]; cbn in E.
        -- injection E as -> _. congruence.
        -- injection E as -> _. inversion Hpre; congruence.
    + rewrite IH. split.
      * intros (pre & b & post & E & Hpre & Hb). exists (a :: pre), b, post.
        subst r. repeat split; [constructor; assumption|assumption].
      * intros (pre & b & post & E & Hpre & Hb). destruct pre as [|c pre]; cbn in E.
        -- injection E as -> _. congruence.
        -- injection E as -> ->. exists pre, b, post. inversion Hpre; auto.
Qed.

Lemma match_first_spec : forall qs s x,
  match_first qs s = Some x <->
  exists pre q post, qs = (pre ++ q :: post)%list /\
    Forall (fun b => match_seq b s = None) pre /\ match_seq q s = Some x.
Proof.
  induction qs as [|a r IH]; intros s x; cbn [match_first].
  - split; [discriminate|]. intros (pre & a & post & E & _). destruct pre; discriminate.
  - destruct (match_seq a s) as [y|] eqn:Ea.
    + split.
      * intros H. exists [], a, r. repeat split; [constructor|congruence].
      * intros (pre & b & post & E & Hpre & Hb). destruct pre as [|c pre]; cbn in E.
        -- injection E as -> _. congruence.
        -- injection E as -> _. inversion Hpre; congruence.
    + rewrite IH. split.
      * intros (pre & b & post & E & Hpre & Hb). exists (a :: pre), b, post.
        subst r. repeat split; [constructor; assumption|assumption].
      * intros (pre & b & post & E & Hpre & Hb). destruct pre as [|c pre]; cbn in E.
        -- injection E as -> _. congruence.
        -- injection E as -> ->. exists pre, b, post. inversion Hpre; auto.
Qed.

(* a literal or family alternative only ever matches a prefix of the input *)
Lemma strip_prefix_spec : forall p s r, strip_prefix p s = Some r <-> s = p +++ r.
Proof.
  induction p as [|a p IH]; intros s r; cbn [strip_prefix String.append].
  - split; congruence.
  - destruct s as [|b s]; [split; discriminate|].
    destruct (Ascii.eqb a b) eqn:E.
    + apply Ascii.eqb_eq in E. subst b. rewrite IH. split; [intros ->; reflexivity|congruence].
    + apply Ascii.eqb_neq in E. split; [discriminate|]. intros H. congruence.
Qed.

Lemma strip_prefix_app : forall p s, strip_prefix p (p +++ s) = Some s.
Proof. intros. now apply strip_prefix_spec. Qed.

Lemma append_assoc : forall a b c, (a +++ b) +++ c = a +++ (b +++ c).
Proof. induction a as [|x a IH]; intros; cbn [String.append]; [reflexivity|now rewrite IH]. Qed.

Lemma append_nil_r : forall a, a +++ EmptyString = a.
Proof. induction a as [|x a IH]; cbn [String.append]; [reflexivity|now rewrite IH]. Qed.

Lemma match_seq_prefix : forall q s m r, match_seq q s = Some (m, r) -> s = m +++ r.
Proof.
  induction q as [|c q IH]; intros s m r; cbn [match_seq].
  - intros H. injection H as <- <-. reflexivity.
  - unfold match_class. destruct s as [|a s]; [discriminate|].
    destruct (in_range _ _ a); [|discriminate].
    destruct (match_seq q s) as [[m' r']|] eqn:E; [|discriminate].
    intros H. injection H as <- <-. cbn [String.append]. f_equal. now apply IH.
Qed.

Lemma match_first_prefix : forall qs s m r, match_first qs s = Some (m, r) -> s = m +++ r.
Proof.
  intros qs s m r H. apply match_first_spec in H as (pre & q & post & _ & _ & H).
  now apply match_seq_prefix in H.
Qed.

Lemma match_alt_prefix : forall a s m r, match_alt a s = Some (m, r) -> s = m +++ r.
Proof.
  intros [l|p qs] s m r; cbn [match_alt].
  - destruct (strip_prefix l s) as [rest|] eqn:E; [|discriminate].
    intros H. injection H as <- <-. now apply strip_prefix_spec.
  - destruct (strip_prefix p s) as [s1|] eqn:E; [|discriminate].
    destruct (match_first qs s1) as [[m' r']|] eqn:E2; [|discriminate].
    intros H. injection H as <- <-. apply strip_prefix_spec in E. apply match_first_prefix in E2.
    subst. now rewrite append_assoc.
Qed.

Lemma match_op_prefix : forall alts s m r, match_op alts s = Some (m, r) -> s = m +++ r.
Proof.
  intros alts s m r H. apply match_op_spec in H as (pre & a & post & _ & _ & H).
  now apply match_alt_prefix in H.
Qed.

(* ====================================================================================== *)
(* C. hexadecimal text of a byte string                                                   *)
(* ====================================================================================== *)
Definition byte_list (bs : list N) : Prop := Forall (fun b => b < 256) bs.

Lemma nibble_all : forall (p : N -> bool),
  forallb p (N_range 0 16) = true -> forall d, d < 16 -> p d = true.
Proof. intros p H d Hd. apply (forallb_range p 16 H). exact Hd. Qed.

Lemma hex_val_digit : forall d, d < 16 -> hex_val (hex_lower_digit d) = Some d.
Proof.
  intros d Hd.
  pose proof (nibble_all (fun d => match hex_val (hex_lower_digit d) with Some x => x =? d | None => false end)
                ltac:(vm_compute; reflexivity) d Hd) as H.
  cbv beta in H. destruct (hex_val (hex_lower_digit d)); [|discriminate].
  apply N.eqb_eq in H. now subst.
Qed.

Lemma hex_digit_is_hex : forall d, d < 16 -> is_hex_digit (hex_lower_digit d) = true.
Proof. intros d Hd. unfold is_hex_digit. now rewrite hex_val_digit. Qed.

Lemma hex_digit_listing_char : forall d, d < 16 -> listing_char (hex_lower_digit d) = true.
Proof. intros d Hd. apply (nibble_all (fun d => listing_char (hex_lower_digit d))); [vm_compute; reflexivity|exact Hd]. Qed.

Lemma nibbles : forall b, b < 256 -> b / 16 < 16 /\ b mod 16 < 16 /\ (b / 16) * 16 + b mod 16 = b.
Proof. intros b Hb. lia. Qed.

Lemma hex_value_acc_byte : forall b acc s, b < 256 ->
  hex_value_acc acc (hex_byte b +++ s) = hex_value_acc (acc * 256 + b) s.
Proof.
  intros b acc s Hb. destruct (nibbles b Hb) as (H1 & H2 & H3).
  unfold hex_byte. cbn [String.append hex_value_acc].
  rewrite (hex_val_digit _ H1), (hex_val_digit _ H2). f_equal. lia.
Qed.

Lemma hex_value_acc_bytes : forall bs acc, byte_list bs ->
  hex_value_acc acc (hex_bytes bs) = be_value bs acc.
Proof.
  induction bs as [|b r IH]; intros acc H; cbn [hex_bytes be_value hex_value_acc]; [reflexivity|].
  inversion H as [|? ? Hb Hr]; subst. rewrite hex_value_acc_byte by exact Hb. now apply IH.
Qed.

(* the value of the printed immediate is the big-endian value of the bytes *)
Lemma value_of_hex_bytes : forall bs, byte_list bs -> value_of_hex (hex_bytes bs) = N_of_be bs.
Proof. intros bs H. unfold value_of_hex, N_of_be. now apply hex_value_acc_bytes. Qed.

Lemma take_hex_bytes : forall bs, byte_list bs -> take_hex (hex_bytes bs) = (hex_bytes bs, EmptyString).
Proof.
  induction bs as [|b r IH]; intros H; cbn [hex_bytes]; [reflexivity|].
  inversion H as [|? ? Hb Hr]; subst. destruct (nibbles b Hb) as (H1 & H2 & _).
  unfold hex_byte. cbn [String.append take_hex].
  rewrite (hex_digit_is_hex _ H1), (hex_digit_is_hex _ H2), (IH Hr). reflexivity.
Qed.

Lemma hex_bytes_length : forall bs, String.length (hex_bytes bs) = (2 * length bs)%nat.
Proof.
  induction bs as [|b r IH]; cbn [hex_bytes length]; [reflexivity|].
  unfold hex_byte. cbn [String.append String.length]. rewrite IH. lia.
Qed.

Lemma hex_bytes_in_fragment : forall bs, byte_list bs -> in_fragment (hex_bytes bs) = true.
Proof.
  unfold in_fragment. induction bs as [|b r IH]; intros H; cbn [hex_bytes str_forall]; [reflexivity|].
  inversion H as [|? ? Hb Hr]; subst. destruct (nibbles b Hb) as (H1 & H2 & _).
  unfold hex_byte. cbn [String.append str_forall].
  now rewrite (hex_digit_listing_char _ H1), (hex_digit_listing_char _ H2), (IH Hr).
Qed.

Lemma str_forall_app : forall p a b, str_forall p (a +++ b) = str_forall p a && str_forall p b.
Proof.
  induction a as [|c a IH]; intros b; cbn [String.append str_forall]; [reflexivity|].
  now rewrite IH, andb_assoc.
Qed.

(* ====================================================================================== *)
(* D. big-endian bytes: value, range, minimal form, padding                               *)
(* ====================================================================================== *)
Lemma be_value_snoc : forall l b acc, be_value (l ++ [b]) acc = be_value l acc * 256 + b.
Proof. induction l as [|a l IH]; intros b acc; cbn [app be_value]; [reflexivity|apply IH]. Qed.

Lemma be_value_bound : forall bs acc, byte_list bs ->
  be_value bs acc < (acc + 1) * 256 ^ N.of_nat (length bs).
Proof.
  induction bs as [|b r IH]; intros acc H; cbn [be_value length].
  - cbn. lia.
  - inversion H as [|? ? Hb Hr]; subst. specialize (IH (acc * 256 + b) Hr).
    rewrite Nnat.Nat2N.inj_succ, N.pow_succ_r'. nia.
Qed.

(* the parse-time range check `val >= 2^(8*size)` never fires on a printed immediate *)
Lemma N_of_be_range : forall bs, byte_list bs -> N_of_be bs < 2 ^ (8 * N.of_nat (length bs)).
Proof.
  intros bs H. pose proof (be_value_bound bs 0 H) as B. unfold N_of_be.
  rewrite N.pow_mul_r. change (2 ^ 8) with 256. lia.
Qed.

(* leading zero bytes removed *)
Fixpoint strip0 (bs : list N) : list N :=
  match bs with
  | [] => []
  | a :: l => if a =? 0 then strip0 l else bs
  end.

Lemma be_value_zero : forall bs acc, be_value bs acc = 0 -> acc = 0 /\ strip0 bs = [].
Proof.
  induction bs as [|a l IH]; intros acc H; cbn [be_value strip0] in *; [auto|].
  apply IH in H as [H1 H2]. assert (a = 0) as -> by lia. split; [lia|exact H2].
Qed.

Lemma strip0_nil_value : forall bs, strip0 bs = [] -> N_of_be bs = 0.
Proof.
  unfold N_of_be. induction bs as [|a l IH]; cbn [strip0 be_value]; [reflexivity|].
  destruct (a =? 0) eqn:E; [|discriminate]. apply N.eqb_eq in E. subst a. exact IH.
Qed.

Lemma strip0_snoc : forall l b, N_of_be (l ++ [b]) <> 0 -> strip0 (l ++ [b]) = (strip0 l ++ [b])%list.
Proof.
  unfold N_of_be. induction l as [|a l IH]; intros b H; cbn [app strip0 be_value] in *.
  - destruct (b =? 0) eqn:E; [apply N.eqb_eq in E; lia|reflexivity].
  - destruct (a =? 0) eqn:E; [|reflexivity]. apply N.eqb_eq in E. subst a. now apply IH.
Qed.

Lemma rev_case : forall (l : list N), l = [] \/ exists l' b, l = (l' ++ [b])%list.
Proof.
  intros l. destruct (rev l) as [|b r] eqn:E.
  - left. apply (f_equal (@rev N)) in E. now rewrite rev_involutive in E.
  - right. exists (rev r), b. apply (f_equal (@rev N)) in E. now rewrite rev_involutive in E.
Qed.

Lemma be_bytes_fuel_spec : forall f bs acc, byte_list bs -> N_of_be bs < 2 ^ N.of_nat f ->
  be_bytes_fuel f (N_of_be bs) acc = (strip0 bs ++ acc)%list.
Proof.
  induction f as [|f IH]; intros bs acc Hb Hlt.
  - cbn [be_bytes_fuel]. change (2 ^ N.of_nat 0) with 1 in Hlt.
    assert (E : N_of_be bs = 0) by lia. apply be_value_zero in E as [_ ->]. reflexivity.
  - cbn [be_bytes_fuel]. destruct (N_of_be bs =? 0) eqn:Ez.
    + apply N.eqb_eq in Ez. apply be_value_zero in Ez as [_ ->]. reflexivity.
    + apply N.eqb_neq in Ez. destruct (rev_case bs) as [->|(l & b & ->)]; [cbn in Ez; lia|].
      apply Forall_app in Hb as [Hl Hb1]. inversion Hb1 as [|? ? Hb2 _]; subst.
      rewrite strip0_snoc by exact Ez. unfold N_of_be in *. rewrite be_value_snoc in *.
      replace ((be_value l 0 * 256 + b) / 256) with (be_value l 0) by lia.
      replace ((be_value l 0 * 256 + b) mod 256) with b by lia.
      rewrite Nnat.Nat2N.inj_succ, N.pow_succ_r' in Hlt.
      rewrite (IH l (b :: acc) Hl) by lia. now rewrite <- app_assoc.
Qed.

(* BigInt::to_bytes_be of the value of a byte string: the bytes without leading zeros *)
Lemma be_bytes_N_of_be : forall bs, byte_list bs -> be_bytes (N_of_be bs) = strip0 bs.
Proof.
  intros bs H. unfold be_bytes. rewrite be_bytes_fuel_spec; [apply app_nil_r|exact H|].
  rewrite Nnat.Nat2N.inj_succ, Nnat.N2Nat.id, N.pow_succ_r'.
  pose proof (N.size_gt (N_of_be bs)). lia.
Qed.

Lemma strip0_length : forall bs, (length (strip0 bs) <= length bs)%nat.
Proof.
  induction bs as [|a l IH]; cbn [strip0 length]; [lia|]. destruct (a =? 0); cbn [length]; lia.
Qed.

Lemma strip0_pad : forall bs, (repeat 0 (length bs - length (strip0 bs)) ++ strip0 bs)%list = bs.
Proof.
  induction bs as [|a l IH]; cbn [strip0 length]; [reflexivity|].
  destruct (a =? 0) eqn:E.
  - apply N.eqb_eq in E. subst a. pose proof (strip0_length l).
    replace (S (length l) - length (strip0 l))%nat with (S (length l - length (strip0 l))) by lia.
    cbn [repeat app]. now rewrite IH.
  - cbn [length]. replace (S (length l) - S (length l))%nat with 0%nat by lia. reflexivity.
Qed.

Lemma repeat_snoc : forall (x : N) n, (repeat x n ++ [x])%list = repeat x (S n).
Proof. induction n as [|n IH]; cbn [repeat app]; [reflexivity|now rewrite IH]. Qed.

(* leading zero bytes are restored by the padding of concretize (for every width >= 1) *)
Lemma pad_restores : forall bs, byte_list bs -> (1 <= length bs)%nat ->
  pad_left (length bs) (bigint_bytes_be (N_of_be bs)) = bs.
Proof.
  intros bs H Hn. unfold bigint_bytes_be, pad_left.
  destruct (N_of_be bs =? 0) eqn:Ez.
  - apply N.eqb_eq in Ez. apply be_value_zero in Ez as [_ Es].
    pose proof (strip0_pad bs) as P. rewrite Es in P. cbn [length] in *. rewrite app_nil_r in P.
    rewrite repeat_snoc. replace (S (length bs - 1)) with (length bs - 0)%nat by lia. exact P.
  - rewrite be_bytes_N_of_be by exact H. apply strip0_pad.
Qed.

(* ====================================================================================== *)
(* E. finite facts, re-checked against the regenerated opcode table and grammar           *)
(* ====================================================================================== *)
Definition defined (c : N) : bool := defined_in cancun_rows c.
Definition extra (c : N) : N := r_extra (from_u8 cancun c).

(* E1: a defined opcode without immediate.  The line is its mnemonic:
   - rule `push` does not match it (this is what lets "push0" through to `op`),
   - `op` (ordered choice over g_op_alts) matches the WHOLE mnemonic,
   - hence the line lexes to the pair op(mnemonic), which FromStr/Op::new turn into opcode c. *)
Definition chk_plain (c : N) : bool :=
  if defined c && (extra c =? 0) then
    match lex_push (mnemonic c) with LexFail => true | _ => false end
    && match match_op g_op_alts (mnemonic c) with
       | Some (m, r) => String.eqb m (mnemonic c) && String.eqb r EmptyString
       | None => false
       end
    && match lex_line (mnemonic c) with
       | LnStmt (LOp m) => String.eqb m (mnemonic c)
       | _ => false
       end
    && match parse_lexed (LOp (mnemonic c)) with
       | Ok (SOp r) => row_eqb r (from_u8 cancun c)
       | _ => false
       end
  else true.

(* E2: an undefined byte prints as `invalid_xx` (no immediate), which no statement matches *)
Definition chk_undefined (c : N) : bool :=
  if defined c then true
  else (extra c =? 0) && match lex_line (mnemonic c) with LnFail => true | _ => false end.

(* E3: a defined opcode with an immediate is pushN, N = length of the immediate *)
Definition chk_pushbyte (c : N) : bool :=
  if defined c && (0 <? extra c) then
    let e := extra c in
    (1 <=? e) && (e <=? 32)
    && String.eqb (mnemonic c) (g_push_prefix +++ dec_of_N e)
    && opt_row_eqb (push cancun e) (Some (from_u8 cancun c))
    && (dec_value (dec_of_N e) =? e)
  else true.

Definition chk_fragment (c : N) : bool := in_fragment (mnemonic c).

Lemma plain_ok : bytes_all chk_plain = true.
Proof. vm_compute. reflexivity. Qed.
Lemma undefined_ok : bytes_all chk_undefined = true.
Proof. vm_compute. reflexivity. Qed.
Lemma pushbyte_ok : bytes_all chk_pushbyte = true.
Proof. vm_compute. reflexivity. Qed.
Lemma fragment_ok : bytes_all chk_fragment = true.
Proof. vm_compute. reflexivity. Qed.

Lemma defined_lt_256 : forall c, defined c = true -> c < 256.
Proof.
  intros c H. unfold defined, defined_in in H. apply existsb_exists in H as (r & Hin & E).
  apply N.eqb_eq in E. subst c.
  assert (F : forallb (fun r => r_code r <? 256) cancun_rows = true) by (vm_compute; reflexivity).
  rewrite forallb_forall in F. apply F in Hin. now apply N.ltb_lt in Hin.
Qed.

Lemma plain_spec : forall c, defined c = true -> extra c = 0 ->
  lex_push (mnemonic c) = LexFail /\
  match_op g_op_alts (mnemonic c) = Some (mnemonic c, EmptyString) /\
  lex_line (mnemonic c) = LnStmt (LOp (mnemonic c)) /\
  parse_lexed (LOp (mnemonic c)) = Ok (SOp (from_u8 cancun c)).
Proof.
  intros c Hd He. pose proof (bytes_all_spec _ plain_ok c (defined_lt_256 c Hd)) as P.
  unfold chk_plain in P. rewrite Hd, He in P. cbn [N.eqb andb] in P.
  rewrite !andb_true_iff in P. destruct P as [[[P1 P2] P3] P4].
  split; [destruct (lex_push (mnemonic c)); congruence|].
  split.
  { destruct (match_op g_op_alts (mnemonic c)) as [[m r]|]; [|discriminate].
    apply andb_true_iff in P2 as [A B]. apply String.eqb_eq in A, B. now subst. }
  split.
  { destruct (lex_line (mnemonic c)) as [| | |[m|? ?]]; try discriminate.
    apply String.eqb_eq in P3. now subst. }
  destruct (parse_lexed (LOp (mnemonic c))) as [[r|? ?]| |]; try discriminate.
  apply row_eqb_eq in P4. now subst.
Qed.

(* the robust form of E1: the alternative that matches is preceded only by alternatives that
   match NO prefix of the mnemonic -- moving e.g. "jump" before "jumpi", "mstore" before
   "mstore8", "or" before "origin" or "push0" into rule `push` breaks this check *)
Lemma op_choice : forall c, defined c = true -> extra c = 0 ->
  exists pre a post, g_op_alts = (pre ++ a :: post)%list /\
    Forall (fun b => match_alt b (mnemonic c) = None) pre /\
    match_alt a (mnemonic c) = Some (mnemonic c, EmptyString).
Proof.
  intros c Hd He. destruct (plain_spec c Hd He) as (_ & H & _).
  now apply match_op_spec in H.
Qed.

Lemma undefined_spec : forall c, c < 256 -> defined c = false ->
  extra c = 0 /\ lex_line (mnemonic c) = LnFail.
Proof.
  intros c Hc Hd. pose proof (bytes_all_spec _ undefined_ok c Hc) as P.
  unfold chk_undefined in P. rewrite Hd in P. apply andb_true_iff in P as [A B].
  apply N.eqb_eq in A. split; [exact A|]. destruct (lex_line (mnemonic c)); congruence.
Qed.

Lemma pushbyte_spec : forall c, defined c = true -> 0 < extra c ->
  1 <= extra c <= 32 /\ mnemonic c = g_push_prefix +++ dec_of_N (extra c) /\
  push cancun (extra c) = Some (from_u8 cancun c) /\ dec_value (dec_of_N (extra c)) = extra c.
Proof.
  intros c Hd He. pose proof (bytes_all_spec _ pushbyte_ok c (defined_lt_256 c Hd)) as P.
  unfold chk_pushbyte in P. rewrite Hd in P. apply N.ltb_lt in He. rewrite He in P.
  cbn [andb] in P. rewrite !andb_true_iff in P. destruct P as [[[[A B] C] D] E].
  apply String.eqb_eq in C. apply opt_row_eqb_eq in D. apply N.eqb_eq in E.
  repeat split; try assumption; lia.
Qed.

Lemma mnemonic_fragment : forall c, c < 256 -> in_fragment (mnemonic c) = true.
Proof. intros c Hc. exact (bytes_all_spec _ fragment_ok c Hc). Qed.

(* E4: word_size on "<N> ..." for every width, for EVERY continuation of the line.  The ordered
   alternatives '1'..'2' ~ '0'..'9' | "3" ~ '0'..'2' | '1'..'9' are tried in order, so e.g. "2 "
   fails the first (no second digit) and the second and is taken by the third. *)
Lemma word_size_widths : forall e, In e (N_range 1 32) -> forall rest,
  match_word_size (dec_of_N e +++ String " " rest) = Some (dec_of_N e, String " " rest).
Proof.
  intros e H. vm_compute in H.
  repeat (destruct H as [<-|H]; [intros rest; vm_compute; reflexivity|]).
  destruct H.
Qed.

(* ... and a width the grammar does not have is not silently accepted: "33" is word_size 3
   followed by "3", where rule `push` then needs WHITESPACE *)
Lemma word_size_33 : forall rest,
  match_word_size ("33" +++ rest) = Some ("3", "3" +++ rest) /\ lex_push ("push33" +++ rest) = LexFail.
Proof. intros rest. split; vm_compute; reflexivity. Qed.

(* ====================================================================================== *)
(* F. one rendered instruction                                                            *)
(* ====================================================================================== *)
Definition item_ok (it : item) : Prop :=
  i_code it < 256 /\ wf_item it /\ byte_list (i_imm it).

Definition item_defined (it : item) : bool := defined (i_code it).

(* what the lexer delivers for the line of a defined instruction *)
Definition lexed_of (it : item) : lexed :=
  if 0 <? extra (i_code it)
  then LPush (dec_of_N (extra (i_code it))) (hex_bytes (i_imm it))
  else LOp (mnemonic (i_code it)).

Definition stmt_of (it : item) : stmt :=
  if 0 <? extra (i_code it)
  then SPush (from_u8 cancun (i_code it)) (N_of_be (i_imm it))
  else SOp (from_u8 cancun (i_code it)).

Lemma wf_item_len : forall it, wf_item it -> N.of_nat (length (i_imm it)) = extra (i_code it).
Proof. intros it H. unfold wf_item, ilen, size in H. unfold extra. lia. Qed.

Lemma skip_ws_nows : forall c r, is_ws c = false -> skip_ws (String c r) = String c r.
Proof. intros c r H. cbn [skip_ws]. now rewrite H. Qed.

Lemma lex_expression_hex : forall sz bs, byte_list bs -> (1 <= length bs)%nat ->
  lex_expression sz ("0x" +++ hex_bytes bs) = LexOk (LPush sz (hex_bytes bs)) EmptyString.
Proof.
  intros sz bs Hb Hn. unfold lex_expression, match_hex.
  rewrite strip_prefix_app, take_hex_bytes by exact Hb.
  rewrite hex_bytes_length.
  destruct (g_hex_min_digits <=? N.of_nat (2 * length bs)) eqn:E; [reflexivity|].
  apply N.leb_gt in E. unfold g_hex_min_digits in E. lia.
Qed.

Lemma lex_push_line : forall e bs, 1 <= e <= 32 -> byte_list bs -> (1 <= length bs)%nat ->
  lex_push ((g_push_prefix +++ dec_of_N e) +++ " 0x" +++ hex_bytes bs)
  = LexOk (LPush (dec_of_N e) (hex_bytes bs)) EmptyString.
Proof.
  intros e bs He Hb Hn. unfold lex_push. rewrite append_assoc, strip_prefix_app.
  change (" 0x" +++ hex_bytes bs) with (String " " ("0x" +++ hex_bytes bs)).
  rewrite word_size_widths by (apply N_range_In; lia).
  change (is_ws " ") with true. cbv iota. now apply lex_expression_hex.
Qed.

Lemma lex_line_stmt : forall s l, in_fragment s = true -> skip_ws s = s -> s <> EmptyString ->
  lex_stmt s = LexOk l EmptyString -> lex_line s = LnStmt l.
Proof.
  intros s l F S0 NE H. unfold lex_line. rewrite F, S0. cbn [negb].
  destruct s as [|a r]; [congruence|]. rewrite H. reflexivity.
Qed.

Lemma lex_line_push : forall it, item_ok it -> item_defined it = true -> 0 < extra (i_code it) ->
  lex_line (render_item it) = LnStmt (lexed_of it).
Proof.
  intros it (Hc & Hw & Hb) Hd He. unfold item_defined in Hd.
  destruct (pushbyte_spec _ Hd He) as (Hr & Hm & _).
  pose proof (wf_item_len it Hw) as Hl.
  assert (Hn : (1 <= length (i_imm it))%nat) by lia.
  unfold render_item, lexed_of. fold (extra (i_code it)).
  apply N.ltb_lt in He. rewrite He. unfold lex_line.
  assert (F : in_fragment (mnemonic (i_code it) +++ " 0x" +++ hex_bytes (i_imm it)) = true).
  { unfold in_fragment. rewrite str_forall_app.
    fold (in_fragment (mnemonic (i_code it))). rewrite mnemonic_fragment by exact Hc.
    change (" 0x" +++ hex_bytes (i_imm it)) with (String " " (String "0" (String "x" (hex_bytes (i_imm it))))).
    cbn [str_forall andb]. fold (in_fragment (hex_bytes (i_imm it))).
    rewrite hex_bytes_in_fragment by exact Hb. vm_compute. reflexivity. }
  apply lex_line_stmt.
  - exact F.
  - rewrite Hm. unfold g_push_prefix. cbn [String.append]. apply skip_ws_nows. vm_compute. reflexivity.
  - rewrite Hm. unfold g_push_prefix. cbn [String.append]. discriminate.
  - rewrite Hm. unfold lex_stmt. rewrite lex_push_line by (try assumption; lia). reflexivity.
Qed.

Lemma lex_line_plain : forall it, item_defined it = true -> extra (i_code it) = 0 ->
  lex_line (render_item it) = LnStmt (lexed_of it).
Proof.
  intros it Hd He. unfold item_defined in Hd. destruct (plain_spec _ Hd He) as (_ & _ & H & _).
  unfold render_item, lexed_of. fold (extra (i_code it)). rewrite He. cbn [N.ltb N.compare]. exact H.
Qed.

Lemma lex_line_undefined : forall it, i_code it < 256 -> item_defined it = false ->
  lex_line (render_item it) = LnFail.
Proof.
  intros it Hc Hd. unfold item_defined in Hd. destruct (undefined_spec _ Hc Hd) as (He & H).
  unfold render_item. fold (extra (i_code it)). rewrite He. cbn [N.ltb N.compare]. exact H.
Qed.

Lemma lex_one_item : forall it, item_ok it ->
  if item_defined it then lex_one (render_item it) = Ok (Some (lexed_of it))
  else lex_one (render_item it) = err0 "Parse.Lexer".
Proof.
  intros it Hok. destruct (item_defined it) eqn:Hd; unfold lex_one.
  - destruct (N.eq_0_gt_0_cases (extra (i_code it))) as [He|He].
    + now rewrite lex_line_plain.
    + now rewrite lex_line_push.
  - destruct Hok as (Hc & _). now rewrite lex_line_undefined.
Qed.

Lemma parse_item : forall it, item_ok it -> item_defined it = true ->
  parse_lexed (lexed_of it) = Ok (stmt_of it).
Proof.
  intros it (Hc & Hw & Hb) Hd. unfold item_defined in Hd. unfold lexed_of, stmt_of.
  destruct (N.eq_0_gt_0_cases (extra (i_code it))) as [He|He].
  - rewrite He. cbn [N.ltb N.compare]. now destruct (plain_spec _ Hd He) as (_ & _ & _ & H).
  - destruct (pushbyte_spec _ Hd He) as (Hr & _ & Hp & Hv).
    pose proof (wf_item_len it Hw) as Hl.
    apply N.ltb_lt in He. rewrite He. cbn [parse_lexed]. rewrite Hv, Hp.
    rewrite value_of_hex_bytes by exact Hb.
    pose proof (N_of_be_range _ Hb) as R. rewrite Hl in R.
    destruct (2 ^ (8 * extra (i_code it)) <=? N_of_be (i_imm it)) eqn:E; [apply N.leb_le in E; lia|reflexivity].
Qed.

Lemma concretize_item : forall it, item_ok it -> item_defined it = true ->
  concretize (stmt_of it) = Ok (encode_item it).
Proof.
  intros it (Hc & Hw & Hb) Hd. unfold stmt_of, encode_item.
  pose proof (wf_item_len it Hw) as Hl.
  destruct (N.eq_0_gt_0_cases (extra (i_code it))) as [He|He].
  - rewrite He. cbn [N.ltb N.compare concretize]. rewrite cancun_code.
    destruct (i_imm it); [reflexivity|cbn [length] in Hl; lia].
  - unfold item_defined in Hd. destruct (pushbyte_spec _ Hd He) as (Hr & _).
    apply N.ltb_lt in He. rewrite He. cbn [concretize]. fold (extra (i_code it)).
    replace (N.to_nat (extra (i_code it))) with (length (i_imm it)) by lia.
    rewrite pad_restores by (try assumption; lia).
    rewrite PeanoNat.Nat.eqb_refl, cancun_code. reflexivity.
Qed.

(* ====================================================================================== *)
(* G. the whole listing                                                                   *)
(* ====================================================================================== *)
Lemma mapM_map : forall A B C (f : B -> res C) (h : A -> B) l,
  mapM f (map h l) = mapM (fun a => f (h a)) l.
Proof.
  intros A B C f h l. induction l as [|a r IH]; cbn [map mapM]; [reflexivity|now rewrite IH].
Qed.

Lemma forallb_true_In : forall A (p : A -> bool) l, forallb p l = true -> forall a, In a l -> p a = true.
Proof. intros A p l H. now apply forallb_forall. Qed.

(* complete characterisation: the listing of well-formed items assembles to exactly their bytes
   when every opcode is defined, and is rejected by the lexer otherwise *)
Theorem assemble_listing_items : forall its, Forall item_ok its ->
  assemble_listing (map render_item its) =
    if forallb item_defined its then Ok (flatten its) else err0 "Parse.Lexer".
Proof.
  intros its Hok. rewrite Forall_forall in Hok. unfold assemble_listing.
  rewrite mapM_map.
  rewrite (mapM_dichotomy _ _ (fun it => lex_one (render_item it)) (fun it => Some (lexed_of it))
             item_defined (mkErr "Parse.Lexer" []) its).
  2:{ intros it Hin. exact (lex_one_item it (Hok it Hin)). }
  destruct (forallb item_defined its) eqn:Hall; [|reflexivity].
  pose proof (forallb_true_In _ _ _ Hall) as Hdef.
  cbn [bind]. rewrite mapM_map.
  rewrite (mapM_ok _ _ _ (fun it => Some (stmt_of it))).
  2:{ intros it Hin. cbn [parse_opt]. rewrite parse_item by auto. reflexivity. }
  cbn [bind]. rewrite mapM_map.
  rewrite (mapM_ok _ _ _ encode_item).
  2:{ intros it Hin. cbn [conc_opt]. apply concretize_item; auto. }
  reflexivity.
Qed.

(* ---------- items produced by the disassembler ---------- *)
Lemma flatten_byte_list : forall its, byte_list (flatten its) ->
  Forall (fun it => i_code it < 256 /\ byte_list (i_imm it)) its.
Proof.
  induction its as [|it r IH]; intros H; [constructor|].
  rewrite flatten_cons in H. apply Forall_app in H as [H1 H2].
  unfold encode_item in H1. inversion H1; subst. constructor; [split; assumption|now apply IH].
Qed.

Lemma decode_all_spec : forall code,
  (flatten (fst (decode_all code)) ++ snd (decode_all code))%list = code /\
  Forall wf_item (fst (decode_all code)) /\ offsets_from 0 (fst (decode_all code)) /\
  incomplete (snd (decode_all code)).
Proof. intros code. exact (decode_all_fuel_spec (length code) 0 code (le_n _)). Qed.

Lemma decode_all_items_ok : forall code, byte_list code -> Forall item_ok (fst (decode_all code)).
Proof.
  intros code Hb. destruct (decode_all_spec code) as (A & B & _).
  rewrite <- A in Hb. apply Forall_app in Hb as [Hb _]. apply flatten_byte_list in Hb.
  rewrite Forall_forall in *. intros it Hin. destruct (Hb it Hin). unfold item_ok. auto.
Qed.

(* the model of `dis_listing` polls the disassembler to exhaustion after one write *)
Lemma disassemble_dfinal : forall code, disassemble code = dfinal [DWrite code].
Proof. intros code. reflexivity. Qed.

Lemma hinput_single : forall code, hinput [DWrite code] = code.
Proof. intros code. unfold hinput. cbn [map concat]. apply app_nil_r. Qed.

(* main theorem in terms of any history of writes/polls whose input is `code` *)
Theorem listing_roundtrip : forall h,
  let code := hinput h in
  let items := fst (dfinal h) in
  byte_list code ->
  snd (decode_all code) = [] ->
  forallb item_defined (fst (decode_all code)) = true ->
  assemble_listing (map render_item items) = Ok code /\
  offsets_from 0 items /\
  dfinish (snd (dfinal h)) = Ok tt.
Proof.
  intros h code items Hb Hleft Hdef.
  destruct (dfinal_decode_all h) as [E1 E2]. fold code in E1, E2. fold items in E1.
  destruct (decode_all_spec code) as (A & B & C & D).
  rewrite Hleft, app_nil_r in A.
  split; [|split].
  - rewrite E1, assemble_listing_items by (now apply decode_all_items_ok).
    rewrite Hdef. now rewrite A.
  - rewrite E1. exact C.
  - apply (proj1 (dfinish_spec _)). now rewrite E2.
Qed.

(* a listing that contains an undefined opcode is rejected, whatever else it contains *)
Theorem listing_undefined_rejected : forall code, byte_list code ->
  forallb item_defined (fst (decode_all code)) = false ->
  assemble_listing (map render_item (fst (disassemble code))) = err0 "Parse.Lexer".
Proof.
  intros code Hb Hdef. rewrite disassemble_dfinal.
  destruct (dfinal_decode_all [DWrite code]) as [E1 _]. rewrite hinput_single in E1.
  rewrite E1, assemble_listing_items by (now apply decode_all_items_ok). now rewrite Hdef.
Qed.

(* the answer of the harness command, for complete defined-only code *)
Theorem run_listing_ok : forall code, byte_list code ->
  snd (decode_all code) = [] -> forallb item_defined (fst (decode_all code)) = true ->
  run_listing code = listing_answer true (fst (decode_all code)) (Ok code).
Proof.
  intros code Hb Hleft Hdef.
  pose proof (listing_roundtrip [DWrite code]) as R. cbv zeta in R.
  rewrite hinput_single in R. destruct (R Hb Hleft Hdef) as (R1 & R2 & R3).
  destruct (dfinal_decode_all [DWrite code]) as [E1 _]. rewrite hinput_single in E1.
  unfold run_listing. cbv zeta. rewrite disassemble_dfinal, R1, R3, E1. reflexivity.
Qed.

(* ====================================================================================== *)
(* H. the alphabet of a listing; push widths as one table; the minimal-bytes form         *)
(* ====================================================================================== *)
Lemma fragment_excludes : forall x s, listing_char x = false -> in_fragment s = true ->
  contains_char x s = false.
Proof.
  intros x s Hx. unfold in_fragment. induction s as [|c r IH]; cbn [str_forall contains_char]; [reflexivity|].
  intros H. apply andb_true_iff in H as [Hc Hr]. rewrite (IH Hr), orb_false_r.
  destruct (Ascii.eqb c x) eqn:E; [|reflexivity]. apply Ascii.eqb_eq in E. congruence.
Qed.

(* every line a listing can contain is over [A-Za-z0-9_ \t]: it has no ':' (label_definition),
   no '%' (builtin, local_macro), no '#' (COMMENT), no ';' and no newline *)
Lemma render_in_fragment : forall it, i_code it < 256 -> byte_list (i_imm it) ->
  in_fragment (render_item it) = true.
Proof.
  intros it Hc Hb. unfold render_item. destruct (0 <? r_extra (from_u8 cancun (i_code it))).
  - unfold in_fragment. rewrite str_forall_app.
    fold (in_fragment (mnemonic (i_code it))). rewrite mnemonic_fragment by exact Hc.
    change (" 0x" +++ hex_bytes (i_imm it)) with (String " " (String "0" (String "x" (hex_bytes (i_imm it))))).
    cbn [str_forall andb]. fold (in_fragment (hex_bytes (i_imm it))).
    rewrite hex_bytes_in_fragment by exact Hb. vm_compute. reflexivity.
  - now apply mnemonic_fragment.
Qed.

Lemma render_no_special : forall it x, i_code it < 256 -> byte_list (i_imm it) ->
  In x [":"; "%"; "#"; ";"; "010"; "013"]%char -> contains_char x (render_item it) = false.
Proof.
  intros it x Hc Hb Hx. apply fragment_excludes; [|now apply render_in_fragment].
  cbn [In] in Hx. repeat (destruct Hx as [<-|Hx]; [vm_compute; reflexivity|]). destruct Hx.
Qed.

Definition chk_width (n : N) : bool :=
  (dec_value (dec_of_N n) =? n)
  && match push cancun n with
     | Some r => (r_extra r =? n) && (r_code r =? 0x5f + n)
                 && String.eqb (r_mnem r) (g_push_prefix +++ dec_of_N n)
                 && row_eqb r (from_u8 cancun (0x5f + n)) && defined (0x5f + n)
     | None => false
     end.

Lemma widths_ok : forallb chk_width (N_range 1 32) = true.
Proof. vm_compute. reflexivity. Qed.

Lemma width_spec : forall n, 1 <= n <= 32 ->
  dec_value (dec_of_N n) = n /\
  push cancun n = Some (from_u8 cancun (0x5f + n)) /\
  extra (0x5f + n) = n /\ defined (0x5f + n) = true /\
  mnemonic (0x5f + n) = g_push_prefix +++ dec_of_N n.
Proof.
  intros n Hn. pose proof widths_ok as H. rewrite forallb_forall in H.
  specialize (H n ltac:(apply N_range_In; lia)). unfold chk_width in H.
  apply andb_true_iff in H as [A B]. apply N.eqb_eq in A.
  destruct (push cancun n) as [r|]; [|discriminate].
  rewrite !andb_true_iff in B. destruct B as [[[[B1 B2] B3] B4] B5].
  apply N.eqb_eq in B1, B2. apply String.eqb_eq in B3. apply row_eqb_eq in B4. subst r.
  unfold extra, mnemonic, display. auto.
Qed.

(* also with the minimal form ([] for zero) the padding restores the bytes *)
Lemma pad_restores_min : forall bs, byte_list bs ->
  pad_left (length bs) (be_bytes (N_of_be bs)) = bs.
Proof. intros bs H. unfold pad_left. rewrite be_bytes_N_of_be by exact H. apply strip0_pad. Qed.

Lemma match_hex_bytes : forall bs, byte_list bs -> (1 <= length bs)%nat ->
  match_hex ("0x" +++ hex_bytes bs) = Some (hex_bytes bs, EmptyString).
Proof.
  intros bs Hb Hn. unfold match_hex. rewrite strip_prefix_app, take_hex_bytes by exact Hb.
  rewrite hex_bytes_length.
  destruct (g_hex_min_digits <=? N.of_nat (2 * length bs)) eqn:E; [reflexivity|].
  apply N.leb_gt in E. unfold g_hex_min_digits in E. lia.
Qed.

(* ====================================================================================== *)
(* I. locality: what follows the mnemonic does not matter, unless it continues the word   *)
(* ====================================================================================== *)
Definition ident_char (c : ascii) : bool :=
  in_range 97 122 c || in_range 48 57 c || (N_of_ascii c =? 95).

(* the rest of the line is empty or starts with a character that is not [a-z0-9_] *)
Definition boundary (rest : string) : bool :=
  match rest with
  | EmptyString => true
  | String c _ => negb (ident_char c)
  end.

Definition seq_wf (q : digit_seq) : bool := forallb (fun r : N * N => snd r <=? 9) q.
Definition alt_wf (a : op_alt) : bool :=
  match a with
  | AltLit l => str_forall ident_char l
  | AltFamily p qs => str_forall ident_char p && forallb seq_wf qs
  end.

Definition ext (rest : string) (o : option (string * string)) : option (string * string) :=
  match o with
  | Some (x, r) => Some (x, r +++ rest)
  | None => None
  end.

Lemma strip_prefix_local : forall l rest, str_forall ident_char l = true -> boundary rest = true ->
  forall m, strip_prefix l (m +++ rest) =
            match strip_prefix l m with Some r => Some (r +++ rest) | None => None end.
Proof.
  induction l as [|a l IH]; intros rest Hl Hb m; cbn [strip_prefix]; [reflexivity|].
  cbn [str_forall] in Hl. apply andb_true_iff in Hl as [Ha Hl].
  destruct m as [|b m]; cbn [String.append].
  - destruct rest as [|c r]; [reflexivity|]. cbn [boundary] in Hb.
    destruct (Ascii.eqb a c) eqn:E; [|reflexivity].
    apply Ascii.eqb_eq in E. subst c. rewrite Ha in Hb. discriminate.
  - destruct (Ascii.eqb a b); [now apply IH|reflexivity].
Qed.

Lemma digit_is_ident : forall lo hi c, hi <= 9 -> in_range (48 + lo) (48 + hi) c = true -> ident_char c = true.
Proof.
  intros lo hi c Hhi H. unfold ident_char, in_range in *.
  apply andb_true_iff in H as [H1 H2]. apply N.leb_le in H1, H2.
  assert (E : (48 <=? N_of_ascii c) && (N_of_ascii c <=? 57) = true).
  { apply andb_true_iff. split; apply N.leb_le; lia. }
  rewrite E. now rewrite orb_true_r.
Qed.

Lemma match_seq_local : forall q rest, seq_wf q = true -> boundary rest = true ->
  forall m, match_seq q (m +++ rest) = ext rest (match_seq q m).
Proof.
  induction q as [|r q IH]; intros rest Hq Hb m; cbn [match_seq ext]; [reflexivity|].
  cbn [seq_wf forallb] in Hq. apply andb_true_iff in Hq as [Hr Hq]. apply N.leb_le in Hr.
  unfold match_class. destruct m as [|b m]; cbn [String.append].
  - destruct rest as [|c rr]; [reflexivity|]. cbn [boundary] in Hb.
    destruct (in_range (48 + fst r) (48 + snd r) c) eqn:E; [|reflexivity].
    rewrite (digit_is_ident _ _ _ Hr E) in Hb. discriminate.
  - destruct (in_range (48 + fst r) (48 + snd r) b); [|reflexivity].
    rewrite (IH rest Hq Hb m). destruct (match_seq q m) as [[x r']|]; reflexivity.
Qed.

Lemma match_first_local : forall qs rest, forallb seq_wf qs = true -> boundary rest = true ->
  forall m, match_first qs (m +++ rest) = ext rest (match_first qs m).
Proof.
  induction qs as [|q qs IH]; intros rest Hq Hb m; cbn [match_first ext]; [reflexivity|].
  cbn [forallb] in Hq. apply andb_true_iff in Hq as [Hq1 Hq].
  rewrite (match_seq_local q rest Hq1 Hb m).
  destruct (match_seq q m) as [[x r']|]; [reflexivity|]. cbn [ext]. now apply IH.
Qed.

Lemma match_alt_local : forall a rest, alt_wf a = true -> boundary rest = true ->
  forall m, match_alt a (m +++ rest) = ext rest (match_alt a m).
Proof.
  intros [l|p qs] rest Ha Hb m; cbn [match_alt alt_wf] in *.
  - rewrite (strip_prefix_local l rest Ha Hb m). destruct (strip_prefix l m); reflexivity.
  - apply andb_true_iff in Ha as [Hp Hq]. rewrite (strip_prefix_local p rest Hp Hb m).
    destruct (strip_prefix p m) as [s1|]; [|reflexivity].
    rewrite (match_first_local qs rest Hq Hb s1).
    destruct (match_first qs s1) as [[x r']|]; reflexivity.
Qed.

Lemma match_op_local : forall alts rest, forallb alt_wf alts = true -> boundary rest = true ->
  forall m, match_op alts (m +++ rest) = ext rest (match_op alts m).
Proof.
  induction alts as [|a alts IH]; intros rest Ha Hb m; cbn [match_op ext]; [reflexivity|].
  cbn [forallb] in Ha. apply andb_true_iff in Ha as [Ha1 Ha].
  rewrite (match_alt_local a rest Ha1 Hb m).
  destruct (match_alt a m) as [[x r']|]; [reflexivity|]. cbn [ext]. now apply IH.
Qed.

Lemma op_alts_wf : forallb alt_wf g_op_alts = true.
Proof. vm_compute. reflexivity. Qed.

(* the mnemonic of a defined opcode is read as exactly that opcode whatever follows it, as long
   as what follows does not continue the word (blank, tab, '#', ';', newline, end of input) *)
Lemma op_any_rest : forall c rest, defined c = true -> extra c = 0 -> boundary rest = true ->
  match_op g_op_alts (mnemonic c +++ rest) = Some (mnemonic c, rest).
Proof.
  intros c rest Hd He Hb. rewrite (match_op_local _ _ op_alts_wf Hb).
  destruct (plain_spec c Hd He) as (_ & H & _). rewrite H. reflexivity.
Qed.
