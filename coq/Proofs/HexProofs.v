(* Proofs/HexProofs.v -- HexRead decodes exactly the denoted bytes for every fragmentation and every
   caller buffer size, errs on every malformed text; HexWrite is exact for even short writes (C19). *)
From Coq Require Import Lia ZifyBool ZifyNat ZifyN.
From Verif Require Import Model.Base Model.Hex.

(* ---------- induction two characters at a time ---------- *)
Lemma pair_ind (P : list N -> Prop) :
  P [] -> (forall c, P [c]) -> (forall a b r, P r -> P (a :: b :: r)) -> forall l, P l.
Proof. intros H0 H1 H2. fix IH 1. intros [|a [|b r]]; [exact H0|exact (H1 a)|exact (H2 a b r (IH r))]. Qed.

Lemma even_true_double : forall n, Nat.even n = true -> exists k, n = 2 * k.
Proof. intros n H. apply Nat.even_spec in H. destruct H as [k Hk]. exists k. lia. Qed.
Lemma even_false_double : forall n, Nat.even n = false -> exists k, n = 2 * k + 1.
Proof.
  intros n H. assert (Ho : Nat.odd n = true) by (unfold Nat.odd; now rewrite H).
  apply Nat.odd_spec in Ho. destruct Ho as [k Hk]. exists k. lia.
Qed.
Lemma even_double : forall k, Nat.even (2 * k) = true.
Proof. intros k. apply Nat.even_spec. exists k. lia. Qed.

Lemma div2_double : forall m, Nat.div2 (2 * m) = m.
Proof. intros m. rewrite Nat.div2_div, Nat.mul_comm. apply Nat.div_mul. lia. Qed.

(* ---------- characters ---------- *)
Lemma hexval_lt16 : forall c v, hexval c = Some v -> (v < 16)%N.
Proof.
  intros c v. unfold hexval.
  destruct ((65 <=? c) && (c <=? 70))%N eqn:E1; [intros [= <-]; lia|].
  destruct ((97 <=? c) && (c <=? 102))%N eqn:E2; [intros [= <-]; lia|].
  destruct ((48 <=? c) && (c <=? 57))%N eqn:E3; [intros [= <-]; lia|discriminate].
Qed.

Lemma hexval_not_ws : forall c v, hexval c = Some v -> is_ws c = false.
Proof.
  intros c v. unfold hexval, is_ws.
  destruct ((65 <=? c) && (c <=? 70))%N eqn:E1; [intros _; lia|].
  destruct ((97 <=? c) && (c <=? 102))%N eqn:E2; [intros _; lia|].
  destruct ((48 <=? c) && (c <=? 57))%N eqn:E3; [intros _; lia|discriminate].
Qed.

Lemma ws_not_hex : forall c, is_ws c = true -> hexval c = None.
Proof.
  intros c H. destruct (hexval c) eqn:E; [|reflexivity].
  apply hexval_not_ws in E. congruence.
Qed.

Lemma hexval_x : hexval 120 = None.
Proof. reflexivity. Qed.

(* exactly the ASCII digits and letters, with their values *)
Lemma hexval_iff : forall c v, hexval c = Some v <->
  ((48 <= c <= 57 /\ v = c - 48) \/ (97 <= c <= 102 /\ v = c - 87) \/ (65 <= c <= 70 /\ v = c - 55))%N.
Proof.
  intros c v. unfold hexval.
  destruct ((65 <=? c) && (c <=? 70))%N eqn:E1; [split; [intros [= <-]|intros H; f_equal]; lia|].
  destruct ((97 <=? c) && (c <=? 102))%N eqn:E2; [split; [intros [= <-]|intros H; f_equal]; lia|].
  destruct ((48 <=? c) && (c <=? 57))%N eqn:E3; [split; [intros [= <-]|intros H; f_equal]; lia|].
  split; [discriminate|lia].
Qed.

(* the independent renderers of Model/Base.v, lower and upper case, are inverted by hexval *)
Lemma hexval_lower_upper : forall v, (v < 16)%N ->
  hexval (N_of_ascii (hex_lower_digit v)) = Some v /\ hexval (N_of_ascii (hex_upper_digit v)) = Some v.
Proof.
  intros v Hv.
  assert (H : forallb (fun v => match hexval (N_of_ascii (hex_lower_digit v)), hexval (N_of_ascii (hex_upper_digit v)) with
                                | Some a, Some b => (a =? v)%N && (b =? v)%N | _, _ => false end) (N_range 0 16) = true)
    by (vm_compute; reflexivity).
  rewrite forallb_forall in H.
  assert (Hin : In v (N_range 0 16)).
  { clear H. assert (G : forall n s x, (s <= x < s + N.of_nat n)%N -> In x (N_range s n)).
    { induction n as [|n IH]; intros s x Hx; [lia|]. cbn [N_range].
      destruct (N.eq_dec s x) as [->|Hne]; [now left|right]. apply IH. lia. }
    apply G. lia. }
  specialize (H v Hin). cbv beta in H.
  destruct (hexval (N_of_ascii (hex_lower_digit v))) as [a|]; [|discriminate].
  destruct (hexval (N_of_ascii (hex_upper_digit v))) as [b|]; [|discriminate].
  apply andb_true_iff in H as [Ha Hb]. apply N.eqb_eq in Ha, Hb. now subst.
Qed.

Lemma hexval_hexdigit : forall v, (v < 16)%N -> hexval (hexdigit v) = Some v.
Proof.
  intros v Hv. apply hexval_iff. unfold hexdigit. destruct (v <? 10)%N eqn:E; lia.
Qed.

(* ---------- the spec function, two characters at a time ---------- *)
Lemma dec_stream_cons2 : forall a b rest,
  dec_stream (a :: b :: rest) =
  match hexval a, hexval b with
  | Some x, Some y => ((x * 16 + y)%N :: fst (dec_stream rest), snd (dec_stream rest))
  | _, _ => ([], false)
  end.
Proof. reflexivity. Qed.

Lemma hexpairs_length : forall d bs, hexpairs d bs -> length d = 2 * length bs.
Proof. induction 1; cbn [length]; lia. Qed.

Lemma dec_stream_hexpairs : forall d bs rest, hexpairs d bs ->
  dec_stream (d ++ rest) = (bs ++ fst (dec_stream rest), snd (dec_stream rest)).
Proof.
  induction 1 as [|a b x y d bs Ha Hb Hd IH].
  - cbn [app]. now destruct (dec_stream rest).
  - cbn [app]. rewrite dec_stream_cons2, Ha, Hb, IH. reflexivity.
Qed.

(* every prefix of the spec's bytes is the decoding of an initial segment of the stream *)
Lemma dec_stream_prefix : forall s k, exists d rest,
  s = d ++ rest /\ hexpairs d (firstn k (fst (dec_stream s))).
Proof.
  induction s as [| c | a b r IH] using pair_ind; intros k.
  - exists [], []. split; [reflexivity|]. rewrite firstn_nil. constructor.
  - exists [], [c]. split; [reflexivity|]. cbn. rewrite firstn_nil. constructor.
  - rewrite dec_stream_cons2.
    destruct (hexval a) as [x|] eqn:Ha; [destruct (hexval b) as [y|] eqn:Hb|].
    + destruct k as [|k].
      * exists [], (a :: b :: r). split; [reflexivity|constructor].
      * destruct (IH k) as (d & rest & -> & Hd).
        exists (a :: b :: d), rest. split; [reflexivity|]. cbn [fst firstn]. now constructor.
    + exists [], (a :: b :: r). split; [reflexivity|]. cbn [fst]. rewrite firstn_nil. constructor.
    + exists [], (a :: b :: r). split; [reflexivity|]. cbn [fst]. rewrite firstn_nil. constructor.
Qed.

(* hex::decode_to_slice on a chunk of even length against the spec of the stream it starts *)
Lemma decode_at_spec : forall cs i rest, Nat.even (length cs) = true ->
  match decode_at i cs with
  | Ok out => hexpairs cs out
  | Err e => snd (dec_stream (cs ++ rest)) = false
  | Panic _ => False
  end.
Proof.
  induction cs as [| c | a b r IH] using pair_ind; intros i rest Hev.
  - cbn. constructor.
  - discriminate.
  - cbn [decode_at]. cbn [app]. rewrite dec_stream_cons2.
    destruct (hexval a) as [x|] eqn:Ha; [|reflexivity].
    destruct (hexval b) as [y|] eqn:Hb; [|reflexivity].
    specialize (IH (S (S i)) rest Hev).
    destruct (decode_at (S (S i)) r) as [o|e|p]; [now constructor|exact IH|exact IH].
Qed.

Lemma decode_to_slice_spec : forall cs rest, Nat.even (length cs) = true ->
  match decode_to_slice cs with
  | Ok out => hexpairs cs out
  | Err e => snd (dec_stream (cs ++ rest)) = false
  | Panic _ => False
  end.
Proof. intros cs rest H. unfold decode_to_slice. rewrite H. now apply decode_at_spec. Qed.

(* ====================================================================== *)
(* the reader                                                              *)
(* ====================================================================== *)

(* what the text still to be delivered denotes: before the prefix check (first_read) the optional 0x
   is still to be stripped *)
Definition lspec (fr : bool) (s : list N) : list N * bool := if fr then spec_text s else dec_stream s.
Definition remchars (o : option N) : list N := match o with Some c => [c] | None => [] end.
(* reachable states: an unpaired digit is only ever kept after the prefix check has been made *)
Definition hr_inv (st : hexread) : Prop := first_read st = true -> remainder st = None.

Lemma lspec_short : forall fr s, length s <= 1 -> lspec fr s = dec_stream s.
Proof. intros [|] [|a [|b r]] H; cbn [length] in H; try lia; reflexivity. Qed.

(* the scripted reader: into a non-empty slice it returns 0 only at the end of the text *)
Lemma rd_read_spec : forall r cap, 1 <= cap ->
  fst (rd_read r cap) ++ r_text (snd (rd_read r cap)) = r_text r /\
  length (fst (rd_read r cap)) <= cap /\
  (length (fst (rd_read r cap)) = 0 -> r_text r = []).
Proof.
  intros r cap Hcap. unfold rd_read. cbn [fst snd r_text].
  set (want := match r_frags r with [] => cap | f :: _ => Nat.max f 1 end).
  assert (Hw : 1 <= want) by (unfold want; destruct (r_frags r); lia).
  split; [apply firstn_skipn|]. rewrite firstn_length. split; [lia|].
  intros H0. apply length_zero_iff_nil. lia.
Qed.

Lemma blit_length : forall hb a d, a + length d <= length hb -> length (blit hb a d) = length hb.
Proof. intros hb a d H. unfold blit. rewrite !app_length, firstn_length, skipn_length. lia. Qed.

Lemma blit_firstn : forall hb a d, a <= length hb ->
  firstn (a + length d) (blit hb a d) = firstn a hb ++ d.
Proof.
  intros hb a d H. unfold blit. rewrite app_assoc.
  rewrite firstn_app. rewrite app_length, firstn_length.
  replace (a + length d - (Nat.min a (length hb) + length d)) with 0 by lia.
  rewrite firstn_O, app_nil_r. apply firstn_all2. rewrite app_length, firstn_length. lia.
Qed.

(* the prefix check keeps what the buffered characters plus the unread text denote *)
Lemma prefix_step_spec : forall hb avail fr rest,
  avail <= length hb -> 2 <= length hb -> (fr = true -> length hb <> 3) ->
  let hb2 := fst (fst (prefix_step hb avail fr)) in
  let avail2 := snd (fst (prefix_step hb avail fr)) in
  let fr2 := snd (prefix_step hb avail fr) in
  avail2 <= length hb2 /\ 2 <= length hb2 /\ (fr2 = true -> length hb2 <> 3) /\
  lspec fr (firstn avail hb ++ rest) = lspec fr2 (firstn avail2 hb2 ++ rest) /\
  avail2 <= avail /\ length hb2 <= length hb /\
  (2 <= avail -> fr2 = false) /\ (fr = false -> fr2 = false) /\ (fr2 = true -> avail2 = avail).
Proof.
  intros hb avail fr rest Ha Hl H3. unfold prefix_step.
  destruct fr; cbn [andb].
  2:{ cbn [fst snd]. repeat split; auto; try lia; discriminate. }
  destruct (2 <=? avail)%nat eqn:E2.
  2:{ cbn [fst snd]. repeat split; auto; try lia; intros; lia. }
  apply Nat.leb_le in E2.
  destruct hb as [|a [|b hb']]; cbn [length] in *; try lia.
  destruct avail as [|[|k]]; try lia.
  cbn [is_0x]. destruct ((a =? 48) && (b =? 120))%N eqn:E0.
  - assert (a = 48%N /\ b = 120%N) as [-> ->] by lia.
    destruct (2 <? S (S (length hb')))%nat eqn:E3; cbn [fst snd].
    + apply Nat.ltb_lt in E3. cbn [skipn firstn app].
      replace (S (S k) - 2) with k by lia.
      specialize (H3 eq_refl). repeat split; try lia; try discriminate; auto.
    + apply Nat.ltb_ge in E3. assert (hb' = []) by (apply length_zero_iff_nil; lia). subst hb'.
      cbn [length] in *. assert (k = 0) by lia. subst k.
      cbn [firstn app Nat.sub]. repeat split; try lia; try discriminate; auto.
  - cbn [fst snd]. repeat split; try lia; try discriminate; auto.
    cbn [firstn app]. unfold lspec, spec_text, strip_prefix. now rewrite E0.
Qed.

(* the inner loop: it terminates within the fuel, never slices out of range, never sees a spurious
   end of file, and keeps the denotation of (buffered characters ++ unread text) *)
Lemma hr_loop_spec : forall fuel hb avail fr r,
  length (r_text r) < fuel -> avail <= 1 -> 2 <= length hb -> (fr = true -> length hb <> 3) ->
  exists lo, hr_loop fuel hb avail fr r = Ok lo /\
    lo_avail lo <= length (lo_hb lo) /\ length (lo_hb lo) <= length hb /\
    lspec fr (firstn avail hb ++ r_text r)
      = lspec (lo_fr lo) (firstn (lo_avail lo) (lo_hb lo) ++ r_text (lo_rd lo)) /\
    lo_avail lo + length (r_text (lo_rd lo)) <= avail + length (r_text r) /\
    (fr = false -> lo_fr lo = false) /\
    (lo_eof lo = true -> r_text (lo_rd lo) = [] /\ lo_avail lo <= 1) /\
    (lo_eof lo = false -> 2 <= lo_avail lo /\ lo_fr lo = false).
Proof.
  induction fuel as [|f IH]; intros hb avail fr r Hf Ha Hl H3; [lia|].
  cbn [hr_loop].
  destruct (length hb <? avail)%nat eqn:E; [apply Nat.ltb_lt in E; lia|]. clear E.
  destruct (rd_read_spec r (length hb - avail)) as (Hsplit & Hlen & Hzero); [lia|].
  set (data := fst (rd_read r (length hb - avail))) in *.
  set (r' := snd (rd_read r (length hb - avail))) in *.
  assert (Hbl : length (blit hb avail data) = length hb) by (apply blit_length; lia).
  assert (Hbf : firstn (avail + length data) (blit hb avail data) = firstn avail hb ++ data)
    by (apply blit_firstn; lia).
  set (hb1 := blit hb avail data) in *.
  destruct (prefix_step_spec hb1 (avail + length data) fr (r_text r'))
    as (P1 & P2 & P3 & P4 & P5 & P9 & P6 & P7 & P8); [lia|lia|intros; rewrite Hbl; auto|].
  set (ps := prefix_step hb1 (avail + length data) fr) in *.
  assert (Hsp : firstn avail hb ++ r_text r = firstn (avail + length data) hb1 ++ r_text r')
    by (rewrite Hbf, <- app_assoc, Hsplit; reflexivity).
  assert (Hlt : length (r_text r) = length data + length (r_text r'))
    by (rewrite <- Hsplit, app_length; reflexivity).
  destruct (Nat.eqb (length data) 0) eqn:Eeof; cbn [orb].
  - (* end of file *)
    apply Nat.eqb_eq in Eeof. eexists; split; [reflexivity|]. cbn [lo_hb lo_avail lo_fr lo_eof lo_rd].
    split; [exact P1|]. split; [lia|]. split; [rewrite Hsp; exact P4|]. split; [lia|]. split; [exact P7|].
    split; [|discriminate]. intros _. split; [|lia].
    apply length_zero_iff_nil. rewrite (Hzero Eeof) in Hlt. cbn [length] in Hlt. lia.
  - apply Nat.eqb_neq in Eeof.
    destruct (1 <? snd (fst ps))%nat eqn:E1.
    + apply Nat.ltb_lt in E1. eexists; split; [reflexivity|]. cbn [lo_hb lo_avail lo_fr lo_eof lo_rd].
      split; [exact P1|]. split; [lia|]. split; [rewrite Hsp; exact P4|]. split; [lia|]. split; [exact P7|].
      split; [discriminate|]. intros _. split; [lia|]. apply P6. lia.
    + apply Nat.ltb_ge in E1.
      destruct (IH (fst (fst ps)) (snd (fst ps)) (snd ps) r') as (lo & Hlo & L1 & L0 & L2 & L3 & L4 & L5 & L6);
        [lia|lia|exact P2|exact P3|].
      exists lo. split; [exact Hlo|]. split; [exact L1|]. split; [lia|].
      split; [rewrite Hsp, P4; exact L2|]. split; [lia|]. split; [auto|]. split; assumption.
Qed.

Lemma firstn_snoc_nth : forall (l : list N) m d, m < length l -> firstn (S m) l = firstn m l ++ [nth m l d].
Proof.
  induction l as [|x l IH]; intros m d H; cbn [length] in H; [lia|].
  destruct m as [|m]; [reflexivity|]. cbn [firstn nth app]. f_equal. apply IH. lia.
Qed.

(* one call of HexRead::read, caller buffer of n >= 1 bytes, in a reachable state *)
Lemma hr_read_spec : forall st r n, 1 <= n -> hr_inv st ->
  let T := remchars (remainder st) ++ r_text r in
  let res := hr_read st r n in
  match fst (fst res) with
  | Ok out =>
      (out = [] /\ lspec (first_read st) T = ([], true)) \/
      (out <> [] /\ length out <= n /\ first_read (snd (fst res)) = false /\
       let T' := remchars (remainder (snd (fst res))) ++ r_text (snd res) in
       lspec (first_read st) T = (out ++ fst (dec_stream T'), snd (dec_stream T')) /\
       length T' < length T)
  | Err e => snd (lspec (first_read st) T) = false /\ e_kind e = "InvalidData"
  | Panic _ => False
  end.
Proof.
  intros st r n Hn Hinv T res. subst res. unfold hr_read.
  destruct (Nat.eqb n 0) eqn:En; [apply Nat.eqb_eq in En; lia|]. clear En.
  set (hb0 := match remainder st with Some c => c :: repeat 0%N (2 * n) | None => repeat 0%N (2 * n) end).
  set (avail0 := match remainder st with Some _ => 1 | None => 0 end).
  assert (H0 : firstn avail0 hb0 = remchars (remainder st) /\ avail0 <= 1 /\ 2 <= length hb0 /\
               (first_read st = true -> length hb0 <> 3) /\ length T = avail0 + length (r_text r) /\
               length hb0 <= 2 * n + 1).
  { subst hb0 avail0 T. unfold hr_inv in Hinv. destruct (remainder st) as [c|].
    - cbn [firstn remchars length app]. rewrite repeat_length. repeat split; try lia.
      intros Hfr. specialize (Hinv Hfr). discriminate.
    - cbn [firstn remchars length app]. rewrite repeat_length. repeat split; try lia. }
  destruct H0 as (Hrem & Ha0 & Hl0 & H30 & HlenT & Hcap).
  destruct (hr_loop_spec (length (r_text r) + 2) hb0 avail0 (first_read st) r)
    as (lo & Hlo & L1 & L0 & L2 & L3 & L4 & L5 & L6); [lia|exact Ha0|exact Hl0|exact H30|].
  rewrite Hlo. rewrite Hrem in L2. fold T in L2.
  destruct lo as [hb avail fr' eof r']. cbn [lo_hb lo_avail lo_fr lo_eof lo_rd] in *.
  destruct (eof && Nat.eqb avail 1) eqn:E1.
  - (* end of file with one character left *)
    apply andb_true_iff in E1 as [-> E1]. apply Nat.eqb_eq in E1. subst avail.
    destruct (L5 eq_refl) as [Ht _]. rewrite Ht, app_nil_r in L2.
    destruct hb as [|h hb]; cbn [length] in L1; [lia|]. cbn [firstn nth] in *.
    rewrite (lspec_short fr' [h]) in L2 by (cbn; lia). cbn [dec_stream] in L2.
    destruct (is_ws h) eqn:Ews; cbn [fst snd].
    + left. split; [reflexivity|]. now rewrite L2.
    + split; [now rewrite L2|reflexivity].
  - destruct (Nat.even avail) eqn:Eev.
    + (* an even number of characters *)
      destruct (Nat.eqb avail 0) eqn:Ez; cbn [fst snd].
      * apply Nat.eqb_eq in Ez. subst avail.
        destruct eof; [|destruct (L6 eq_refl); lia].
        destruct (L5 eq_refl) as [Ht _]. rewrite Ht in L2. cbn [firstn app] in L2.
        rewrite (lspec_short fr' []) in L2 by (cbn; lia). left. split; [reflexivity|exact L2].
      * apply Nat.eqb_neq in Ez.
        destruct (even_true_double _ Eev) as [k Hk].
        destruct (n <? Nat.div2 avail)%nat eqn:Eo;
          [apply Nat.ltb_lt in Eo; rewrite Hk, div2_double in Eo; lia|clear Eo].
        destruct eof; [destruct (L5 eq_refl); lia|].
        destruct (L6 eq_refl) as [Hav ->]. unfold lspec in L2 at 2.
        assert (Hfl : length (firstn avail hb) = avail) by (rewrite firstn_length; lia).
        pose proof (decode_to_slice_spec (firstn avail hb) (r_text r')) as D.
        rewrite Hfl in D. specialize (D Eev).
        destruct (decode_to_slice (firstn avail hb)) as [out|e|p]; cbn [fst snd].
        -- right. pose proof (hexpairs_length _ _ D) as Hlen. rewrite Hfl in Hlen.
           split; [destruct out; cbn [length] in Hlen; [lia|discriminate]|].
           split; [lia|].
           split; [reflexivity|]. cbn [remchars app remainder first_read].
           split; [rewrite L2; now apply dec_stream_hexpairs|lia].
        -- split; [rewrite L2; exact D|reflexivity].
        -- exact D.
    + (* an odd number: the last character is kept for the next call *)
      destruct (even_false_double _ Eev) as [k Hk].
      assert (Eev' : Nat.even (avail - 1) = true) by (replace (avail - 1) with (2 * k) by lia; apply even_double).
      destruct (Nat.eqb (avail - 1) 0) eqn:Ez; cbn [fst snd].
      * apply Nat.eqb_eq in Ez. destruct eof; [|destruct (L6 eq_refl); lia].
        assert (Hav1 : Nat.eqb avail 1 = true) by (apply Nat.eqb_eq; lia).
        rewrite Hav1 in E1. discriminate.
      * apply Nat.eqb_neq in Ez.
        destruct (n <? Nat.div2 (avail - 1))%nat eqn:Eo;
          [apply Nat.ltb_lt in Eo; replace (avail - 1) with (2 * k) in Eo by lia; rewrite div2_double in Eo; lia|clear Eo].
        destruct eof; [destruct (L5 eq_refl); lia|].
        destruct (L6 eq_refl) as [Hav ->]. unfold lspec in L2 at 2.
        assert (Hfl : length (firstn (avail - 1) hb) = avail - 1) by (rewrite firstn_length; lia).
        set (c := nth (avail - 1) hb 0%N).
        assert (Hsn : firstn avail hb = firstn (avail - 1) hb ++ [c]).
        { replace avail with (S (avail - 1)) at 1 by lia. apply firstn_snoc_nth. lia. }
        rewrite Hsn, <- app_assoc in L2.
        pose proof (decode_to_slice_spec (firstn (avail - 1) hb) ([c] ++ r_text r')) as D.
        rewrite Hfl in D. specialize (D Eev').
        destruct (decode_to_slice (firstn (avail - 1) hb)) as [out|e|p]; cbn [fst snd].
        -- right. pose proof (hexpairs_length _ _ D) as Hlen. rewrite Hfl in Hlen.
           split; [destruct out; cbn [length] in Hlen; [lia|discriminate]|].
           split; [lia|].
           split; [reflexivity|]. cbn [remchars remainder first_read].
           split; [rewrite L2; now apply dec_stream_hexpairs|]. cbn [app length]. lia.
        -- split; [rewrite L2; exact D|reflexivity].
        -- exact D.
Qed.

(* read until the first Ok(0)/Err: the fuel is never used up; all the bytes when the rest of the stream
   is well formed; otherwise an error after a prefix of the bytes of its well-formed part *)
Lemma hr_drive_spec : forall fuel bufsz calls st r acc, (forall i, 1 <= bufsz i) -> hr_inv st ->
  length (remchars (remainder st) ++ r_text r) < fuel ->
  let T := remchars (remainder st) ++ r_text r in
  let res := hr_drive fuel bufsz calls st r acc in
  let bs := fst (lspec (first_read st) T) in
  if snd (lspec (first_read st) T)
  then fst (fst res) = acc ++ bs /\ snd (fst res) = EndEof
  else (exists k, fst (fst res) = acc ++ firstn k bs) /\
       exists e, snd (fst res) = EndErr e /\ e_kind e = "InvalidData".
Proof.
  induction fuel as [|f IH]; intros bufsz calls st r acc Hb Hinv Hf; [lia|].
  cbn zeta. cbn [hr_drive].
  pose proof (hr_read_spec st r (bufsz calls) (Hb calls) Hinv) as H. cbn zeta in H.
  destruct (hr_read st r (bufsz calls)) as [[res' st'] r']. cbn [fst snd] in H.
  destruct res' as [out|e|p]; [|destruct H as [H1 H2]|contradiction].
  - destruct H as [[-> Hs]|(Hne & Hsz & Hfr & Hs & Hlen)].
    + rewrite Hs. cbn [fst snd]. split; [now rewrite app_nil_r|reflexivity].
    + destruct out as [|o out]; [congruence|].
      assert (Hinv' : hr_inv st') by (unfold hr_inv; rewrite Hfr; discriminate).
      specialize (IH bufsz (S calls) st' r' (acc ++ o :: out) Hb Hinv' ltac:(lia)).
      cbn zeta in IH. rewrite Hfr in IH. unfold lspec in IH at 1 2 3.
      rewrite Hs. cbn [fst snd].
      destruct (snd (dec_stream (remchars (remainder st') ++ r_text r'))).
      * destruct IH as [I1 I2]. split; [rewrite I1, <- app_assoc; reflexivity|exact I2].
      * destruct IH as [[k I1] I2]. split; [|exact I2].
        exists (length (o :: out) + k). rewrite I1, <- app_assoc. f_equal.
        now rewrite firstn_app_2.
  - rewrite H1. cbn [fst snd]. split; [exists 0; now rewrite firstn_O, app_nil_r|].
    exists e. split; [reflexivity|exact H2].
Qed.

Theorem read_to_end_spec : forall text frags bufsz, (forall i, 1 <= bufsz i) ->
  let res := read_to_end text frags bufsz in
  if snd (spec_text text)
  then fst (fst res) = fst (spec_text text) /\ snd (fst res) = EndEof
  else (exists k, fst (fst res) = firstn k (fst (spec_text text))) /\
       exists e, snd (fst res) = EndErr e /\ e_kind e = "InvalidData".
Proof.
  intros text frags bufsz Hb. unfold read_to_end.
  pose proof (hr_drive_spec (length text + 2) bufsz 0 hr_new (mkrd text frags) [] Hb) as H.
  cbn [hr_new first_read remainder remchars app r_text lspec] in H.
  apply H; [unfold hr_inv; reflexivity|lia].
Qed.

(* ---------- well-formed texts are exactly those the spec function accepts ---------- *)
Lemma strip_prefix_split : forall s, exists pre, s = pre ++ strip_prefix s /\ (pre = [] \/ pre = [48; 120]%N).
Proof.
  intros [|a [|b r]]; try (exists []; split; [reflexivity|now left]).
  unfold strip_prefix. destruct ((a =? 48) && (b =? 120))%N eqn:E.
  - assert (a = 48%N /\ b = 120%N) as [-> ->] by lia. exists [48; 120]%N. split; [reflexivity|now right].
  - exists []. split; [reflexivity|now left].
Qed.

Lemma strip_prefix_id : forall s, match s with _ :: b :: _ => b <> 120%N | _ => True end -> strip_prefix s = s.
Proof.
  intros [|a [|b r]] H; try reflexivity. unfold strip_prefix.
  destruct ((a =? 48) && (b =? 120))%N eqn:E; [lia|reflexivity].
Qed.

Lemma dec_stream_true : forall s bs, dec_stream s = (bs, true) ->
  exists d ws, s = d ++ ws /\ hexpairs d bs /\ (ws = [] \/ exists w, ws = [w] /\ is_ws w = true).
Proof.
  induction s as [| c | a b r IH] using pair_ind; intros bs H.
  - injection H as <-. exists [], []. repeat split; [constructor|now left].
  - cbn in H. injection H as <- Hw. exists [], [c]. repeat split; [constructor|right; now exists c].
  - rewrite dec_stream_cons2 in H.
    destruct (hexval a) as [x|] eqn:Ha; [|discriminate].
    destruct (hexval b) as [y|] eqn:Hb; [|discriminate].
    injection H as <- Hs.
    destruct (IH (fst (dec_stream r))) as (d & ws & -> & Hd & Hws); [now destruct (dec_stream r); cbn in *; subst|].
    exists (a :: b :: d), ws. repeat split; [now constructor|exact Hws].
Qed.

Theorem wellformed_spec : forall text bs, wellformed text bs <-> spec_text text = (bs, true).
Proof.
  intros text bs. split.
  - intros (pre & d & ws & -> & Hpre & Hd & Hws). unfold spec_text.
    assert (Hds : dec_stream (d ++ ws) = (bs, true)).
    { rewrite (dec_stream_hexpairs d bs ws Hd).
      destruct Hws as [->|(w & -> & Hw)]; cbn [dec_stream fst snd]; [|rewrite Hw]; now rewrite app_nil_r. }
    destruct Hpre as [->| ->]; [|exact Hds].
    cbn [app]. rewrite strip_prefix_id; [exact Hds|].
    destruct Hd as [|a b x y d bs Ha Hb Hd].
    + cbn [app]. destruct Hws as [->|(w & -> & Hw)]; exact I.
    + cbn [app]. intros ->. rewrite hexval_x in Hb. discriminate.
  - intros H. unfold spec_text in H.
    destruct (dec_stream_true _ _ H) as (d & ws & Hs & Hd & Hws).
    destruct (strip_prefix_split text) as (pre & Ht & Hpre).
    exists pre, d, ws. rewrite Hs in Ht. auto.
Qed.

(* (a) every well-formed text, every fragmentation, every sequence of caller buffer sizes *)
Theorem reader_wellformed : forall text bs frags bufsz,
  wellformed text bs -> (forall i, 1 <= bufsz i) ->
  exists calls, read_to_end text frags bufsz = (bs, EndEof, calls).
Proof.
  intros text bs frags bufsz Hwf Hb. apply wellformed_spec in Hwf.
  pose proof (read_to_end_spec text frags bufsz Hb) as H. cbn zeta in H. rewrite Hwf in H. cbn [fst snd] in H.
  destruct (read_to_end text frags bufsz) as [[out e] calls]. cbn [fst snd] in H. destruct H as [-> ->].
  now exists calls.
Qed.

(* (b) every other text: an error, after bytes that decode an initial segment of the text *)
Theorem reader_malformed : forall text frags bufsz,
  (forall bs, ~ wellformed text bs) -> (forall i, 1 <= bufsz i) ->
  exists out e calls, read_to_end text frags bufsz = (out, EndErr e, calls) /\ e_kind e = "InvalidData" /\
    exists pre d rest, text = pre ++ d ++ rest /\ (pre = [] \/ pre = [48; 120]%N) /\ hexpairs d out.
Proof.
  intros text frags bufsz Hmal Hb.
  pose proof (read_to_end_spec text frags bufsz Hb) as H. cbn zeta in H.
  destruct (snd (spec_text text)) eqn:Es.
  - exfalso. apply (Hmal (fst (spec_text text))). apply wellformed_spec.
    destruct (spec_text text); cbn in *; now subst.
  - destruct (read_to_end text frags bufsz) as [[out e] calls]. cbn [fst snd] in H.
    destruct H as [[k ->] (er & -> & Hk)].
    exists (firstn k (fst (spec_text text))), er, calls. split; [reflexivity|]. split; [exact Hk|].
    destruct (strip_prefix_split text) as (pre & Ht & Hpre).
    destruct (dec_stream_prefix (strip_prefix text) k) as (d & rest & Hs & Hd).
    exists pre, d, rest. rewrite <- Hs. auto.
Qed.

(* the classes of malformed text named by the property are not well formed *)
Lemma dec_stream_nonhex : forall s1 c s2, hexval c = None -> (s2 <> [] \/ is_ws c = false) ->
  snd (dec_stream (s1 ++ c :: s2)) = false.
Proof.
  induction s1 as [| a | a b r IH] using pair_ind; intros c s2 Hc Hs.
  - cbn [app]. destruct s2 as [|b s2].
    + destruct Hs as [Hs|Hs]; [congruence|exact Hs].
    + rewrite dec_stream_cons2, Hc. reflexivity.
  - cbn [app]. rewrite dec_stream_cons2, Hc. now destruct (hexval a).
  - cbn [app]. rewrite dec_stream_cons2.
    destruct (hexval a); [|reflexivity]. destruct (hexval b); [|reflexivity]. cbn [snd]. now apply IH.
Qed.

Theorem nonhex_malformed : forall text s1 c s2,
  strip_prefix text = s1 ++ c :: s2 -> hexval c = None -> (s2 <> [] \/ is_ws c = false) ->
  forall bs, ~ wellformed text bs.
Proof.
  intros text s1 c s2 Ht Hc Hs bs Hwf. apply wellformed_spec in Hwf. unfold spec_text in Hwf.
  rewrite Ht in Hwf. pose proof (dec_stream_nonhex s1 c s2 Hc Hs) as H. rewrite Hwf in H. discriminate.
Qed.

Theorem odd_digits_malformed : forall pre d bs c v ws,
  (pre = [] \/ pre = [48; 120]%N) -> hexpairs d bs -> hexval c = Some v ->
  (ws = [] \/ exists w, ws = [w] /\ is_ws w = true) ->
  forall bs', ~ wellformed (pre ++ d ++ c :: ws) bs'.
Proof.
  intros pre d bs c v ws Hpre Hd Hc Hws bs' Hwf. apply wellformed_spec in Hwf. unfold spec_text in Hwf.
  assert (Hds : snd (dec_stream (d ++ c :: ws)) = false).
  { rewrite (dec_stream_hexpairs d bs _ Hd). cbn [snd].
    destruct Hws as [->|(w & -> & Hw)].
    - cbn. now apply hexval_not_ws in Hc.
    - rewrite dec_stream_cons2, Hc, (ws_not_hex w Hw). reflexivity. }
  assert (Hsp : strip_prefix (pre ++ d ++ c :: ws) = d ++ c :: ws).
  { destruct Hpre as [->| ->]; [|reflexivity]. cbn [app]. apply strip_prefix_id.
    destruct Hd as [|a b x y d bs Ha Hb Hd]; cbn [app].
    - destruct Hws as [->|(w & -> & Hw)]; [exact I|]. intros ->. now vm_compute in Hw.
    - intros ->. rewrite hexval_x in Hb. discriminate. }
  rewrite Hsp in Hwf. rewrite Hwf in Hds. discriminate.
Qed.

(* ====================================================================== *)
(* the writer                                                              *)
(* ====================================================================== *)

Lemma hex_encode_length : forall bs, length (hex_encode bs) = 2 * length bs.
Proof. induction bs as [|b r IH]; cbn [hex_encode length]; lia. Qed.

Lemma hex_encode_app : forall a b, hex_encode (a ++ b) = hex_encode a ++ hex_encode b.
Proof. induction a as [|x a IH]; intros b; cbn [hex_encode app]; [reflexivity|now rewrite IH]. Qed.

Lemma hex_encode_firstn : forall bs m, firstn (2 * m) (hex_encode bs) = hex_encode (firstn m bs).
Proof.
  induction bs as [|b r IH]; intros m.
  - cbn [hex_encode]. now rewrite !firstn_nil.
  - destruct m as [|m]; [reflexivity|]. replace (2 * S m) with (S (S (2 * m))) by lia.
    cbn [hex_encode firstn]. now rewrite IH.
Qed.

Lemma skipn_skipn_add : forall (l : list N) a b, skipn a (skipn b l) = skipn (b + a) l.
Proof.
  intros l a b. revert l. induction b as [|b IH]; intros l; [reflexivity|].
  destruct l as [|x l]; [now rewrite !skipn_nil|]. cbn [skipn Nat.add]. apply IH.
Qed.

(* the hexadecimal text is the lowercase rendering of Model/Base.v *)
Lemma hexdigit_lower : forall v, (v < 16)%N -> ascii_of_N (hexdigit v) = hex_lower_digit v.
Proof.
  intros v Hv.
  assert (H : forallb (fun v => Ascii.eqb (ascii_of_N (hexdigit v)) (hex_lower_digit v)) (N_range 0 16) = true)
    by (vm_compute; reflexivity).
  rewrite forallb_forall in H. apply Ascii.eqb_eq. apply H.
  assert (G : forall n s x, (s <= x < s + N.of_nat n)%N -> In x (N_range s n)).
  { induction n as [|n IH]; intros s x Hx; [lia|]. cbn [N_range].
    destruct (N.eq_dec s x) as [->|Hne]; [now left|right]. apply IH. lia. }
  apply G. lia.
Qed.

Lemma hex_encode_lowercase : forall bs, Forall (fun b => b < 256)%N bs ->
  string_of_list_ascii (map ascii_of_N (hex_encode bs)) = hex_bytes bs.
Proof.
  induction 1 as [|b r Hb Hr IH]; [reflexivity|].
  cbn [hex_encode map string_of_list_ascii hex_bytes]. rewrite IH.
  unfold hex_byte. cbn [String.append].
  rewrite !hexdigit_lower; [reflexivity| |].
  - apply N.mod_lt. lia.
  - apply N.div_lt_upper_bound; lia.
Qed.

(* (c) one write call against a sink that accepts k characters of the 2*len offered *)
Theorem hw_write_spec : forall s buf,
  let k := sink_accepts s (2 * length buf) in
  k <= 2 * length buf /\
  s_got (snd (hw_write s buf)) = s_got s ++ firstn k (hex_encode buf) /\
  s_accept (snd (hw_write s buf)) = tl (s_accept s) /\
  (forall m, k = 2 * m ->
     fst (hw_write s buf) = Ok m /\ firstn k (hex_encode buf) = hex_encode (firstn m buf)) /\
  (forall m, k = 2 * m + 1 -> fst (hw_write s buf) = Err (mkErr "Other" [])).
Proof.
  intros s buf k. unfold hw_write, sink_write. cbn [fst snd s_got s_accept].
  rewrite hex_encode_length. fold k.
  split; [unfold k, sink_accepts; destruct (s_accept s); lia|].
  split; [reflexivity|]. split; [reflexivity|]. split.
  - intros m ->. rewrite even_double, div2_double. split; [reflexivity|apply hex_encode_firstn].
  - intros m ->. destruct (Nat.even (2 * m + 1)) eqn:E; [|reflexivity].
    apply even_true_double in E as [j Hj]. lia.
Qed.

(* write_all against any sink: success means the sink holds exactly hex(buf); an error means an odd
   (misaligned) or empty short write happened, after whole bytes only *)
Lemma hw_write_all_spec : forall fuel s buf, length buf < fuel ->
  match hw_write_all fuel s buf with
  | (Ok _, s') => s_got s' = s_got s ++ hex_encode buf
  | (Err e, s') =>
      exists m j, m <= length buf /\ s_got s' = s_got s ++ hex_encode (firstn m buf) ++ firstn j (hex_encode (skipn m buf)) /\
        ((e = mkErr "Other" [] /\ Nat.even j = false) \/ (e = mkErr "WriteZero" [] /\ j = 0 /\ m < length buf))
  | (Panic _, _) => False
  end.
Proof.
  induction fuel as [|f IH]; intros s buf Hf; [lia|].
  destruct buf as [|b0 buf0]; [cbn; now rewrite app_nil_r|].
  cbn [hw_write_all]. assert (Hne : 1 <= length (b0 :: buf0)) by (cbn [length]; lia).
  remember (b0 :: buf0) as buf eqn:Hbuf. clear Hbuf b0 buf0.
  destruct (hw_write_spec s buf) as (Hk & Hgot & Hacc & Hev & Hodd). cbn zeta in *.
  set (k := sink_accepts s (2 * length buf)) in *.
  destruct (hw_write s buf) as [rw s1]. cbn [fst snd] in *.
  destruct (Nat.even k) eqn:E.
  - apply even_true_double in E as [m Hm]. destruct (Hev m Hm) as [-> Hfn].
    destruct m as [|m].
    + exists 0, 0. cbn [firstn skipn hex_encode app]. split; [lia|]. rewrite Hgot, Hm. cbn [firstn Nat.mul].
      split; [reflexivity|]. right. repeat split. lia.
    + destruct (length buf <? S m)%nat eqn:El; [apply Nat.ltb_lt in El; lia|]. apply Nat.ltb_ge in El.
      assert (Hlen : length (skipn (S m) buf) < f) by (rewrite skipn_length; lia).
      specialize (IH s1 (skipn (S m) buf) Hlen).
      assert (Hsplit : hex_encode buf = hex_encode (firstn (S m) buf) ++ hex_encode (skipn (S m) buf))
        by (rewrite <- hex_encode_app, firstn_skipn; reflexivity).
      destruct (hw_write_all f s1 (skipn (S m) buf)) as [[u|e|p] s2]; [| |exact IH].
      * rewrite IH, Hgot, Hfn, Hsplit, <- app_assoc. reflexivity.
      * destruct IH as (m' & j & Hm' & Hg & Hcase). rewrite skipn_length in Hm'.
        exists (S m + m'), j. split; [lia|].
        assert (Hf2 : firstn (S m + m') buf = firstn (S m) buf ++ firstn m' (skipn (S m) buf)).
        { rewrite <- (firstn_skipn (S m) buf) at 1. rewrite firstn_app, firstn_length.
          replace (Nat.min (S m) (length buf)) with (S m) by lia.
          replace (S m + m' - S m) with m' by lia.
          rewrite firstn_firstn. replace (Nat.min (S m + m') (S m)) with (S m) by lia. reflexivity. }
        assert (Hs2 : skipn (S m + m') buf = skipn m' (skipn (S m) buf)) by (now rewrite skipn_skipn_add).
        split.
        -- rewrite Hg, Hgot, Hfn, Hf2, Hs2, hex_encode_app, <- !app_assoc. reflexivity.
        -- destruct Hcase as [Hc|(Hc1 & Hc2 & Hc3)]; [now left|right]. repeat split; auto.
           rewrite skipn_length in Hc3. lia.
  - apply even_false_double in E as [m Hm]. rewrite (Hodd m Hm).
    exists 0, k. cbn [firstn skipn hex_encode app]. split; [lia|]. split; [exact Hgot|].
    left. split; [reflexivity|]. rewrite Hm. destruct (Nat.even (2 * m + 1)) eqn:E; [|reflexivity].
    apply even_true_double in E as [j Hj]. lia.
Qed.

(* a sink that accepts writes whole or in even-sized, non-empty pieces *)
Definition even_sink (accept : list nat) : Prop := Forall (fun a => Nat.even a = true /\ 1 <= a) accept.

Lemma hw_write_all_even : forall fuel s buf, length buf < fuel -> even_sink (s_accept s) ->
  exists s', hw_write_all fuel s buf = (Ok tt, s') /\ s_got s' = s_got s ++ hex_encode buf.
Proof.
  induction fuel as [|f IH]; intros s buf Hf Hs; [lia|].
  destruct buf as [|b0 buf0]; [exists s; cbn; now rewrite app_nil_r|].
  cbn [hw_write_all]. assert (Hne : 1 <= length (b0 :: buf0)) by (cbn [length]; lia).
  remember (b0 :: buf0) as buf eqn:Hbuf. clear Hbuf b0 buf0.
  destruct (hw_write_spec s buf) as (Hk & Hgot & Hacc & Hev & Hodd). cbn zeta in *.
  set (k := sink_accepts s (2 * length buf)) in *.
  assert (Hke : exists m, k = 2 * S m).
  { unfold k, sink_accepts. unfold even_sink in Hs.
    destruct (s_accept s) as [|a acc]; [exists (length buf - 1); lia|].
    inversion Hs as [|a' acc' [Ha1 Ha2] Hrest]; subst.
    apply even_true_double in Ha1 as [j Hj].
    destruct (Nat.min_spec a (2 * length buf)) as [[_ ->]|[_ ->]].
    - exists (j - 1). lia.
    - exists (length buf - 1). lia. }
  destruct Hke as [m Hm]. destruct (Hev (S m) Hm) as [Hret Hfn].
  destruct (hw_write s buf) as [rw s1]. cbn [fst snd] in *. subst rw.
  destruct (length buf <? S m)%nat eqn:El; [apply Nat.ltb_lt in El; lia|]. apply Nat.ltb_ge in El.
  assert (Hlen : length (skipn (S m) buf) < f) by (rewrite skipn_length; lia).
  assert (Hs1 : even_sink (s_accept s1)).
  { rewrite Hacc. unfold even_sink in *. destruct (s_accept s); [constructor|]. now inversion Hs. }
  destruct (IH s1 (skipn (S m) buf) Hlen Hs1) as (s' & Hrun & Hg).
  exists s'. split; [exact Hrun|].
  rewrite Hg, Hgot, Hfn, <- app_assoc, <- hex_encode_app, firstn_skipn. reflexivity.
Qed.

Theorem write_all_even_sink : forall s buf, even_sink (s_accept s) ->
  exists s', write_all s buf = (Ok tt, s') /\ s_got s' = s_got s ++ hex_encode buf.
Proof. intros s buf H. apply hw_write_all_even; [lia|exact H]. Qed.

Theorem write_all_any_sink : forall s buf,
  match write_all s buf with
  | (Ok _, s') => s_got s' = s_got s ++ hex_encode buf
  | (Err e, s') =>
      exists m j, m <= length buf /\ s_got s' = s_got s ++ hex_encode (firstn m buf) ++ firstn j (hex_encode (skipn m buf)) /\
        ((e = mkErr "Other" [] /\ Nat.even j = false) \/ (e = mkErr "WriteZero" [] /\ j = 0 /\ m < length buf))
  | (Panic _, _) => False
  end.
Proof. intros s buf. apply hw_write_all_spec. lia. Qed.

(* ====================================================================== *)
(* round trip                                                              *)
(* ====================================================================== *)

Lemma hexpairs_encode : forall bs, Forall (fun b => b < 256)%N bs -> hexpairs (hex_encode bs) bs.
Proof.
  induction 1 as [|b r Hb Hr IH]; [constructor|]. cbn [hex_encode].
  replace b with ((b / 16) * 16 + b mod 16)%N at 3 by (rewrite N.mul_comm; symmetry; apply N.div_mod'; lia).
  constructor; [| |exact IH]; apply hexval_hexdigit.
  - apply N.div_lt_upper_bound; lia.
  - apply N.mod_lt. lia.
Qed.

Theorem encode_wellformed : forall bs, Forall (fun b => b < 256)%N bs -> wellformed (hex_encode bs) bs.
Proof.
  intros bs H. exists [], (hex_encode bs), []. rewrite app_nil_r. cbn [app].
  repeat split; [now left|now apply hexpairs_encode|now left].
Qed.

(* (d) what write_all hands to an even sink, read back under any fragmentation and any buffer sizes *)
Theorem roundtrip : forall bs accept frags bufsz,
  Forall (fun b => b < 256)%N bs -> even_sink accept -> (forall i, 1 <= bufsz i) ->
  exists s' calls, write_all (mksink [] accept) bs = (Ok tt, s') /\
                   read_to_end (s_got s') frags bufsz = (bs, EndEof, calls).
Proof.
  intros bs accept frags bufsz Hbs Hacc Hb.
  destruct (write_all_even_sink (mksink [] accept) bs Hacc) as (s' & Hw & Hg). cbn [s_got app] in Hg.
  destruct (reader_wellformed (s_got s') bs frags bufsz) as [calls Hr]; [rewrite Hg; now apply encode_wellformed|exact Hb|].
  now exists s', calls.
Qed.
