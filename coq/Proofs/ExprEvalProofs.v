(* Proofs/ExprEvalProofs.v -- expression macros denote their body with the argument VALUES
   substituted for the parameters (C11); evaluation never panics (C14). *)
From Coq Require Import Lia.
From Verif Require Import Model.Base Model.Expr.
Open Scope Z_scope.

(* ---------- induction principle for the nested inductive ---------- *)
Section ExprInd.
  Variable P : expr -> Prop.
  Hypothesis Hparen : forall e, P e -> P (EParen e).
  Hypothesis Hmacro : forall n args, Forall P args -> P (EMacro n args).
  Hypothesis Hnum : forall z, P (ENum z).
  Hypothesis Hlabel : forall l, P (ELabel l).
  Hypothesis Hvar : forall v, P (EVar v).
  Hypothesis Hplus : forall a b, P a -> P b -> P (EPlus a b).
  Hypothesis Hminus : forall a b, P a -> P b -> P (EMinus a b).
  Hypothesis Htimes : forall a b, P a -> P b -> P (ETimes a b).
  Hypothesis Hdivide : forall a b, P a -> P b -> P (EDivide a b).

  Fixpoint expr_ind' (e : expr) : P e :=
    match e with
    | EParen a => Hparen a (expr_ind' a)
    | EMacro n args =>
        Hmacro n args
          ((fix go (l : list expr) : Forall P l :=
              match l with
              | [] => Forall_nil P
              | x :: r => Forall_cons x (expr_ind' x) (go r)
              end) args)
    | ENum z => Hnum z
    | ELabel l => Hlabel l
    | EVar v => Hvar v
    | EPlus a b => Hplus a b (expr_ind' a) (expr_ind' b)
    | EMinus a b => Hminus a b (expr_ind' a) (expr_ind' b)
    | ETimes a b => Htimes a b (expr_ind' a) (expr_ind' b)
    | EDivide a b => Hdivide a b (expr_ind' a) (expr_ind' b)
    end.
End ExprInd.

(* ---------- unfolding equations of eval ---------- *)
Section Eval.
  Variable labels : label_env.
  Variable macros : macro_env.
  Notation eval := (eval labels macros).

  (* binding of parameters to the values of the arguments at the call site *)
  Fixpoint bind_args (fuel : nat) (vars : option var_env) (ps : list string) (az : list expr)
           (acc : var_env) : res var_env :=
    match ps, az with
    | p :: ps', a :: az' =>
        do v <- eval fuel vars a ; bind_args fuel vars ps' az' (bind_var acc p v)
    | p :: _, [] => err1 "UndefinedVariable" p
    | [], _ => Ok acc
    end.

  Lemma eval_paren : forall f vs a, eval f vs (EParen a) = eval f vs a.
  Proof. intros [|f] vs a; reflexivity. Qed.
  Lemma eval_num : forall f vs z, eval f vs (ENum z) = Ok z.
  Proof. intros [|f] vs z; reflexivity. Qed.
  Lemma eval_label : forall f vs l,
    eval f vs (ELabel l) = match labels l with Some p => Ok p | None => err1 "UnknownLabel" l end.
  Proof. intros [|f] vs l; reflexivity. Qed.
  Lemma eval_var : forall f vs x,
    eval f vs (EVar x) =
      match vs with
      | Some v => match lookup_var v x with Some z => Ok z | None => err1 "UndefinedVariable" x end
      | None => err1 "UndefinedVariable" x
      end.
  Proof. intros [|f] vs x; reflexivity. Qed.
  Lemma eval_plus : forall f vs a b,
    eval f vs (EPlus a b) = (do x <- eval f vs a ; do y <- eval f vs b ; Ok (x + y)).
  Proof. intros [|f] vs a b; reflexivity. Qed.
  Lemma eval_minus : forall f vs a b,
    eval f vs (EMinus a b) = (do x <- eval f vs a ; do y <- eval f vs b ; Ok (x - y)).
  Proof. intros [|f] vs a b; reflexivity. Qed.
  Lemma eval_times : forall f vs a b,
    eval f vs (ETimes a b) = (do x <- eval f vs a ; do y <- eval f vs b ; Ok (x * y)).
  Proof. intros [|f] vs a b; reflexivity. Qed.
  Lemma eval_divide : forall f vs a b,
    eval f vs (EDivide a b) =
      (do x <- eval f vs a ; do y <- eval f vs b ;
       if y =? 0 then err0 "DivisionByZero" else Ok (Z.quot x y)).
  Proof. intros [|f] vs a b; reflexivity. Qed.

  (* the macro arm: the body is evaluated with ONLY the parameters bound, to the values the
     arguments have at the call site *)
  Lemma eval_macro : forall f vs n args,
    eval f vs (EMacro n args) =
      match macros n with
      | Some (Some d) =>
          match f with
          | O => err0 "RecursionLimit"
          | S f' =>
              do bound <- bind_args f vs (em_params d) args [] ;
              eval f' (Some bound) (em_body d)
          end
      | _ => err1 "UnknownMacro" n
      end.
  Proof.
    intros f vs n args. destruct f as [|f'].
    - cbn [Expr.eval ev]. destruct (macros n) as [[d|]|]; reflexivity.
    - cbn [Expr.eval ev]. destruct (macros n) as [[d|]|]; try reflexivity.
      f_equal.
      generalize (@nil (string * Z)) as acc. generalize (em_params d) as ps.
      induction args as [|a az IH]; intros ps acc; destruct ps as [|p ps']; cbn [bind_args]; try reflexivity.
      change (Expr.eval labels macros (S f') vs a) with (ev labels macros (Some (Expr.eval labels macros f')) vs a).
      destruct (ev labels macros (Some (Expr.eval labels macros f')) vs a); cbn [bind]; auto.
  Qed.

  (* every parameter needs an argument: with fewer arguments than parameters the binding fails
     (with the error of an argument, or naming the first parameter left over), whether or not
     the body reads that parameter; surplus arguments are ignored *)
  Lemma bind_args_short : forall f vs az ps acc bound,
    (length az < length ps)%nat -> bind_args f vs ps az acc <> Ok bound.
  Proof.
    intros f vs. induction az as [|a az IH]; intros ps acc bound Hl; destruct ps as [|p ps']; cbn [bind_args length] in *;
      try discriminate; try (exfalso; inversion Hl; fail).
    destruct (eval f vs a) as [v|er|sx]; cbn [bind]; try discriminate.
    apply IH. apply PeanoNat.Nat.succ_lt_mono. exact Hl.
  Qed.

  Lemma bind_args_missing : forall f vs az ps acc vals,
    Forall2 (fun a v => eval f vs a = Ok v) az vals -> (length az < length ps)%nat ->
    bind_args f vs ps az acc = err1 "UndefinedVariable" (nth (length az) ps "").
  Proof.
    intros f vs az ps acc vals H. revert ps acc.
    induction H as [|a v az vals Ha Haz IH]; intros ps acc Hl; destruct ps as [|p ps']; cbn [bind_args length nth] in *;
      try (exfalso; inversion Hl; fail); [reflexivity|].
    rewrite Ha. cbn [bind]. apply IH. apply PeanoNat.Nat.succ_lt_mono. exact Hl.
  Qed.

  Theorem macro_arity : forall f vs n args d v,
    macros n = Some (Some d) -> (length args < length (em_params d))%nat ->
    eval f vs (EMacro n args) <> Ok v.
  Proof.
    intros f vs n args d v Hd Hl. rewrite eval_macro, Hd. destruct f as [|f']; [discriminate|].
    destruct (bind_args (S f') vs (em_params d) args []) as [bound|er|sx] eqn:Eb; cbn [bind]; try discriminate.
    exfalso. exact (bind_args_short _ _ _ _ _ _ Hl Eb).
  Qed.

  (* ---------- evaluation never panics (the result is a value or an error value) ---------- *)
  Lemma bind_args_no_panic : forall f vs,
    (forall e s, eval f vs e <> Panic s) ->
    forall az ps acc s, bind_args f vs ps az acc <> Panic s.
  Proof.
    intros f vs He. induction az as [|a az IH]; intros ps acc s; destruct ps as [|p ps']; cbn [bind_args]; try discriminate.
    destruct (eval f vs a) as [v|er|sx] eqn:E; cbn [bind]; try discriminate; [apply IH|].
    exfalso. exact (He a sx E).
  Qed.

  Lemma binop_no_panic : forall f vs a b (g : Z -> Z -> res Z),
    (forall s, eval f vs a <> Panic s) -> (forall s, eval f vs b <> Panic s) ->
    (forall x y s, g x y <> Panic s) ->
    forall s, (do x <- eval f vs a ; do y <- eval f vs b ; g x y) <> Panic s.
  Proof.
    intros f vs a b g Ha Hb Hg s.
    destruct (eval f vs a) as [x|e1|s1] eqn:Ea; cbn [bind]; try discriminate.
    - destruct (eval f vs b) as [y|e2|s2] eqn:Eb; cbn [bind]; try discriminate.
      + apply Hg.
      + intros _. exact (Hb s2 eq_refl).
    - intros _. exact (Ha s1 eq_refl).
  Qed.

  Theorem eval_no_panic : forall f vs e s, eval f vs e <> Panic s.
  Proof.
    induction f as [|f IHf]; intros vs e; revert vs;
    induction e as [a IHa|n args IHargs|z|l|x|a b IHa IHb|a b IHa IHb|a b IHa IHb|a b IHa IHb] using expr_ind';
    intros vs s.
    (* fuel 0 *)
    - rewrite eval_paren. apply IHa.
    - rewrite eval_macro. destruct (macros n) as [[d|]|]; discriminate.
    - rewrite eval_num. discriminate.
    - rewrite eval_label. destruct (labels l); discriminate.
    - rewrite eval_var. destruct vs as [v|]; [destruct (lookup_var v x)|]; discriminate.
    - rewrite eval_plus. apply binop_no_panic; auto. discriminate.
    - rewrite eval_minus. apply binop_no_panic; auto. discriminate.
    - rewrite eval_times. apply binop_no_panic; auto. discriminate.
    - rewrite eval_divide. apply binop_no_panic; auto. intros x0 y0 s0. destruct (y0 =? 0); discriminate.
    (* fuel S f *)
    - rewrite eval_paren. apply IHa.
    - rewrite eval_macro. destruct (macros n) as [[d|]|]; try discriminate.
      destruct (bind_args (S f) vs (em_params d) args []) as [bound|er|sx] eqn:Eb; cbn [bind]; try discriminate.
      + apply IHf.
      + exfalso. revert Eb. generalize (em_params d) as ps. generalize (@nil (string * Z)) as acc.
        induction args as [|a az IHaz]; intros acc ps; destruct ps as [|p ps']; cbn [bind_args]; try discriminate.
        inversion IHargs as [|? ? Ha Haz]; subst.
        destruct (Expr.eval labels macros (S f) vs a) as [v|e1|s1] eqn:Ea; cbn [bind]; try discriminate.
        * apply IHaz. exact Haz.
        * exfalso. exact (Ha vs s1 Ea).
    - rewrite eval_num. discriminate.
    - rewrite eval_label. destruct (labels l); discriminate.
    - rewrite eval_var. destruct vs as [v|]; [destruct (lookup_var v x)|]; discriminate.
    - rewrite eval_plus. apply binop_no_panic; auto. discriminate.
    - rewrite eval_minus. apply binop_no_panic; auto. discriminate.
    - rewrite eval_times. apply binop_no_panic; auto. discriminate.
    - rewrite eval_divide. apply binop_no_panic; auto. intros x0 y0 s0. destruct (y0 =? 0); discriminate.
  Qed.

  (* ---------- substitution semantics ---------- *)
  (* the body with each bound parameter replaced by the VALUE bound to it *)
  Fixpoint subst (vs : var_env) (e : expr) : expr :=
    match e with
    | EVar x => match lookup_var vs x with Some v => ENum v | None => EVar x end
    | EParen a => EParen (subst vs a)
    | ENum _ | ELabel _ => e
    | EPlus a b => EPlus (subst vs a) (subst vs b)
    | EMinus a b => EMinus (subst vs a) (subst vs b)
    | ETimes a b => ETimes (subst vs a) (subst vs b)
    | EDivide a b => EDivide (subst vs a) (subst vs b)
    | EMacro n args => EMacro n (map (subst vs) args)
    end.

  Theorem eval_subst : forall f vs e, eval f (Some vs) e = eval f None (subst vs e).
  Proof.
    intros f vs e. revert f.
    induction e as [a IHa|n args IHargs|z|l|x|a b IHa IHb|a b IHa IHb|a b IHa IHb|a b IHa IHb] using expr_ind';
    intros f; cbn [subst].
    - rewrite !eval_paren. apply IHa.
    - rewrite !eval_macro. destruct (macros n) as [[d|]|]; try reflexivity.
      destruct f as [|f']; [reflexivity|].
      assert (Hb : forall ps acc,
                 bind_args (S f') (Some vs) ps args acc = bind_args (S f') None ps (map (subst vs) args) acc).
      { induction args as [|a az IHaz]; intros ps acc; destruct ps as [|p ps']; cbn [bind_args map]; try reflexivity.
        inversion IHargs as [|? ? Ha Haz]; subst. rewrite (Ha (S f')).
        destruct (Expr.eval labels macros (S f') None (subst vs a)); cbn [bind]; auto. }
      rewrite Hb. reflexivity.
    - rewrite !eval_num. reflexivity.
    - rewrite !eval_label. reflexivity.
    - rewrite eval_var. destruct (lookup_var vs x) as [v|]; [now rewrite eval_num|now rewrite eval_var].
    - rewrite !eval_plus, IHa, IHb. reflexivity.
    - rewrite !eval_minus, IHa, IHb. reflexivity.
    - rewrite !eval_times, IHa, IHb. reflexivity.
    - rewrite !eval_divide, IHa, IHb. reflexivity.
  Qed.

  (* C11: an invocation evaluates to the macro's body with each parameter standing for the value
     of the corresponding argument evaluated at the call site (in the CALLER's context [vs]) *)
  Theorem macro_denotes_substituted_body : forall f vs n args d,
    macros n = Some (Some d) ->
    eval (S f) vs (EMacro n args) =
      (do bound <- bind_args (S f) vs (em_params d) args [] ;
       eval f None (subst bound (em_body d))).
  Proof.
    intros f vs n args d Hd. rewrite eval_macro, Hd.
    destruct (bind_args (S f) vs (em_params d) args []) as [bound|er|s]; cbn [bind]; try reflexivity.
    apply eval_subst.
  Qed.
End Eval.

(* ---------- Expression::labels never panics ---------- *)
Section Labels.
  Variable macros : macro_env.

  Lemma largs_no_panic : forall deeper args,
    Forall (fun e => forall s, lb macros deeper e <> Panic s) args ->
    forall s,
      (fix largs (az : list expr) : res (list string) :=
         match az with
         | [] => Ok []
         | a :: az' => do x <- lb macros deeper a ; do r <- largs az' ; Ok (x ++ r)
         end) args <> Panic s.
  Proof.
    intros deeper args H. induction H as [|a az Ha Haz IH]; intros s; [discriminate|].
    destruct (lb macros deeper a) as [x1|e1|s1] eqn:Ea; cbn [bind]; try discriminate.
    - match goal with |- bind ?g _ <> _ => destruct g as [r|e2|s2] eqn:Eg end; cbn [bind]; try discriminate.
      intros _. exact (IH s2 eq_refl).
    - intros _. exact (Ha s1 eq_refl).
  Qed.

  Lemma lbin_no_panic : forall (r1 r2 : res (list string)) s,
    (forall s, r1 <> Panic s) -> (forall s, r2 <> Panic s) ->
    (do x <- r1 ; do y <- r2 ; Ok (x ++ y)) <> Panic s.
  Proof.
    intros r1 r2 s H1 H2. destruct r1 as [a|e|p]; cbn [bind]; try discriminate.
    - destruct r2 as [b|e|p]; cbn [bind]; try discriminate. apply H2.
    - apply H1.
  Qed.

  Lemma lb_no_panic : forall deeper,
    (forall k, deeper = Some k -> forall e s, k e <> Panic s) ->
    forall e s, lb macros deeper e <> Panic s.
  Proof.
    intros deeper Hd e.
    induction e as [a IHa|n args IHargs|z|l|x|a b IHa IHb|a b IHa IHb|a b IHa IHb|a b IHa IHb] using expr_ind';
      intros s; cbn [lb]; try discriminate; try apply IHa;
      try (destruct (lb macros deeper a) as [x1|e1|s1] eqn:Ea; cbn [bind]; try discriminate;
           [destruct (lb macros deeper b) as [x2|e2|s2] eqn:Eb; cbn [bind]; try discriminate;
            intros _; exact (IHb s2 Eb)
           |intros _; exact (IHa s1 Ea)]).
    destruct (macros n) as [[d|]|]; try discriminate.
    destruct deeper as [k|]; [|discriminate].
    destruct (k (em_body d)) as [body|e1|s1] eqn:Ek; cbn [bind]; try discriminate.
    - pose proof (largs_no_panic (Some k) args IHargs) as Hl.
      match goal with |- bind ?g _ <> _ => destruct g as [r|e2|s2] eqn:Eg end; cbn [bind]; try discriminate.
      intros _. exact (Hl s2 eq_refl).
    - intros _. exact (Hd k eq_refl _ _ Ek).
    - apply lbin_no_panic; assumption.
    - apply lbin_no_panic; assumption.
    - apply lbin_no_panic; assumption.
    - apply lbin_no_panic; assumption.
  Qed.

  Theorem elabels_no_panic : forall f e s, elabels macros f e <> Panic s.
  Proof.
    induction f as [|f IH]; intros e s; cbn [elabels]; apply lb_no_panic.
    - intros k Hk. discriminate.
    - intros k Hk. inversion Hk; subst. exact IH.
  Qed.
End Labels.
