(* Proofs/PegSemProofs.v -- what the pairs of a successful parse look like, for every grammar.
   `sem cg e m pos s ts` is the natural (over-approximating) semantics of pest's dialect: expression
   e, run in atomicity m at offset pos, may consume the text s and produce the pairs ts.  The
   interpreter of Model/Peg.v is SOUND for it (`reval_sound`): whenever it succeeds, the consumed
   prefix and the pairs are related by `sem`.  On top of it, four computable analyses of a compiled
   grammar, each with its soundness lemma, turn questions about "every pair list the parser can
   return" into `vm_compute`:
     names   the rule names that can label the produced pairs (top level of ts)
     single  exactly one pair is produced
     chars   every consumed byte satisfies a predicate
     strs    the finite set of texts the expression can consume
   Used by Proofs/ParseTreeProofs.v (the conversion of pairs to the syntax tree never panics). *)
From Coq Require Import Lia ZifyBool ZifyNat ZifyN.
From Verif Require Import Model.Base Model.PegAst Model.Peg Proofs.PegProofs.
Local Open Scope nat_scope.

Definition nlen (s : list N) : N := N.of_nat (length s).

Lemma nlen_app : forall a b, nlen (a ++ b) = (nlen a + nlen b)%N.
Proof. intros a b. unfold nlen. rewrite app_length. lia. Qed.

Section Sem.
Variable cg : cgrammar.

Inductive sem : rexpr -> mode -> N -> list N -> list pair -> Prop :=
| S_str : forall s m pos, sem (RStr s) m pos s []
| S_range : forall lo hi m pos b, ((lo <=? b) && (b <=? hi))%N = true -> sem (RRange lo hi) m pos [b] []
| S_any : forall m pos s, sem RAny m pos s []
| S_soi : forall m pos, sem RSoi m pos [] []
| S_eoi : forall m pos, sem REoi m pos [] []
| S_ref : forall n m pos s ts md body,
    find_rule cg n = Some (md, body) -> sem body (inner_mode n md m) pos s ts ->
    sem (RRef n) m pos s (if emits md m then [Pair n pos (pos + nlen s)%N ts] else ts)
| S_skip_on : forall m pos s ts, is_nonatomic m = true -> sem (RRef skip_name) m pos s ts -> sem RSkip m pos s ts
| S_skip_off : forall m pos, is_nonatomic m = false -> sem RSkip m pos [] []
| S_seq : forall a b m pos s1 t1 s2 t2,
    sem a m pos s1 t1 -> sem b m (pos + nlen s1)%N s2 t2 -> sem (RSeq a b) m pos (s1 ++ s2) (t1 ++ t2)
| S_choice_l : forall a b m pos s ts, sem a m pos s ts -> sem (RChoice a b) m pos s ts
| S_choice_r : forall a b m pos s ts, sem b m pos s ts -> sem (RChoice a b) m pos s ts
| S_opt_some : forall a m pos s ts, sem a m pos s ts -> sem (ROpt a) m pos s ts
| S_opt_none : forall a m pos, sem (ROpt a) m pos [] []
| S_star_nil : forall a m pos, sem (RStar a) m pos [] []
| S_star_cons : forall a m pos s1 t1 s2 t2,
    sem a m pos s1 t1 -> sem (RStar a) m (pos + nlen s1)%N s2 t2 -> sem (RStar a) m pos (s1 ++ s2) (t1 ++ t2)
| S_not : forall a m pos, sem (RNot a) m pos [] []
| S_and : forall a m pos, sem (RAnd a) m pos [] [].

(* ---------- the interpreter is sound ---------- *)
Lemma strip_prefix_app : forall s inp r, strip_prefix s inp = Some r -> inp = s ++ r.
Proof.
  induction s as [|c s IH]; intros inp r H; cbn [strip_prefix] in H.
  - inversion H; reflexivity.
  - destruct inp as [|b inp]; [discriminate|].
    destruct (c =? b)%N eqn:E; [|discriminate]. apply N.eqb_eq in E. subst b.
    rewrite (IH _ _ H). reflexivity.
Qed.

Lemma drop_cont_app : forall k l c r, drop_cont k l = (c, r) -> exists s, l = s ++ r /\ nlen s = c.
Proof.
  induction k as [|k IH]; intros l c r H; cbn [drop_cont] in H.
  - inversion H; subst. exists []. split; reflexivity.
  - destruct l as [|b l]; [inversion H; subst; exists []; split; reflexivity|].
    destruct ((128 <=? b)%N && (b <? 192)%N).
    + destruct (drop_cont k l) as [c' r'] eqn:E. inversion H; subst.
      destruct (IH _ _ _ E) as (s & -> & Hs). exists (b :: s). split; [reflexivity|].
      unfold nlen in *. cbn [length]. lia.
    + inversion H; subst. exists []. split; reflexivity.
Qed.

Definition sound (e : rexpr) (m : mode) (pos : N) (inp : list N) (r : pres) : Prop :=
  match r with
  | Ok (Some (p', i', ts)) => exists s, inp = s ++ i' /\ p' = (pos + nlen s)%N /\ sem e m pos s ts
  | _ => True
  end.

Lemma call_rule_sound : forall ev n m pos inp,
  (forall body m', sound body m' pos inp (ev body m' pos inp)) ->
  sound (RRef n) m pos inp (call_rule cg ev n m pos inp).
Proof.
  intros ev n m pos inp Hev. unfold call_rule.
  destruct (find_rule cg n) as [[md body]|] eqn:F; [|exact I].
  specialize (Hev body (inner_mode n md m)).
  destruct (ev body (inner_mode n md m) pos inp) as [[[[p' i'] ch]|]|e|s]; cbn [bind sound] in *; try exact I.
  destruct Hev as (s & H1 & H2 & H3). exists s. repeat split; try assumption.
  subst p'. exact (S_ref n m pos s ch md body F H3).
Qed.

Lemma reval_sound : forall fuel e m pos inp, sound e m pos inp (reval cg fuel e m pos inp).
Proof.
  induction fuel as [|f IHf]; [intros; exact I|].
  induction e as [s|lo hi| | | |n| |a IHa b IHb|a IHa b IHb|a IHa|a IHa|a IHa|a IHa]; intros m pos inp.
  - rewrite reval_str. destruct (strip_prefix s inp) as [r|] eqn:E; [|exact I].
    apply strip_prefix_app in E. cbn [sound]. exists s. repeat split; [assumption|constructor].
  - rewrite reval_range. destruct inp as [|b r]; [exact I|].
    destruct ((lo <=? b)%N && (b <=? hi)%N) eqn:E; [|exact I].
    cbn [sound]. exists [b]. repeat split. constructor. exact E.
  - rewrite reval_any. destruct inp as [|b r]; [exact I|].
    destruct (drop_cont (utf8_extra b) r) as [c r'] eqn:E. apply drop_cont_app in E.
    destruct E as (s & -> & Hs). cbn [sound]. exists (b :: s). repeat split.
    + unfold nlen in *. cbn [length]. lia.
    + constructor.
  - rewrite reval_soi. destruct (pos =? 0)%N; [|exact I]. cbn [sound]. exists []. split; [reflexivity|split; [unfold nlen; cbn [length]; lia|constructor]].
  - rewrite reval_eoi. destruct inp; [|exact I]. cbn [sound]. exists []. split; [reflexivity|split; [unfold nlen; cbn [length]; lia|constructor]].
  - rewrite reval_ref. apply call_rule_sound. intros body m'. apply IHf.
  - rewrite reval_skip. destruct (is_nonatomic m) eqn:Em.
    + pose proof (call_rule_sound (reval cg f) skip_name m pos inp (fun body m' => IHf body m' pos inp)) as H.
      destruct (call_rule cg (reval cg f) skip_name m pos inp) as [[[[p' i'] ch]|]|e|s]; cbn [sound] in *; try exact I.
      destruct H as (s & H1 & H2 & H3). exists s. repeat split; try assumption.
      apply S_skip_on; assumption.
    + cbn [sound]. exists []. split; [reflexivity|split; [unfold nlen; cbn [length]; lia|apply S_skip_off; assumption]].
  - rewrite reval_seq. specialize (IHa m pos inp).
    destruct (reval cg (S f) a m pos inp) as [[[[p1 i1] t1]|]|e|s]; cbn [bind sound] in *; try exact I.
    specialize (IHb m p1 i1).
    destruct (reval cg (S f) b m p1 i1) as [[[[p2 i2] t2]|]|e|s]; cbn [bind sound] in *; try exact I.
    destruct IHa as (s1 & A1 & A2 & A3). destruct IHb as (s2 & B1 & B2 & B3).
    exists (s1 ++ s2). subst. repeat split.
    + rewrite app_assoc. reflexivity.
    + rewrite nlen_app. lia.
    + constructor; assumption.
  - rewrite reval_choice. specialize (IHa m pos inp).
    destruct (reval cg (S f) a m pos inp) as [[[[p1 i1] t1]|]|e|s]; cbn [bind sound] in *; try exact I.
    + destruct IHa as (s1 & A1 & A2 & A3). exists s1. repeat split; try assumption. apply S_choice_l; assumption.
    + specialize (IHb m pos inp).
      destruct (reval cg (S f) b m pos inp) as [[[[p2 i2] t2]|]|e|s]; cbn [sound] in *; try exact I.
      destruct IHb as (s2 & B1 & B2 & B3). exists s2. repeat split; try assumption. apply S_choice_r; assumption.
  - rewrite reval_opt. specialize (IHa m pos inp).
    destruct (reval cg (S f) a m pos inp) as [[[[p1 i1] t1]|]|e|s]; cbn [bind sound] in *; try exact I.
    + destruct IHa as (s1 & A1 & A2 & A3). exists s1. repeat split; try assumption. apply S_opt_some; assumption.
    + exists []. split; [reflexivity|split; [unfold nlen; cbn [length]; lia|apply S_opt_none]].
  - rewrite reval_star. specialize (IHa m pos inp).
    destruct (reval cg (S f) a m pos inp) as [[[[p1 i1] t1]|]|e|s]; cbn [bind sound] in *; try exact I.
    + destruct (p1 =? pos)%N; [exact I|].
      pose proof (IHf (RStar a) m p1 i1) as H.
      destruct (reval cg f (RStar a) m p1 i1) as [[[[p2 i2] t2]|]|e|s]; cbn [bind sound] in *; try exact I.
      destruct IHa as (s1 & A1 & A2 & A3). destruct H as (s2 & B1 & B2 & B3).
      exists (s1 ++ s2). subst. repeat split.
      * rewrite app_assoc. reflexivity.
      * rewrite nlen_app. lia.
      * apply S_star_cons; assumption.
    + exists []. split; [reflexivity|split; [unfold nlen; cbn [length]; lia|apply S_star_nil]].
  - rewrite reval_not. specialize (IHa m pos inp).
    destruct (reval cg (S f) a m pos inp) as [[[[p1 i1] t1]|]|e|s]; cbn [bind sound] in *; try exact I.
    exists []. split; [reflexivity|split; [unfold nlen; cbn [length]; lia|apply S_not]].
  - rewrite reval_and. specialize (IHa m pos inp).
    destruct (reval cg (S f) a m pos inp) as [[[[p1 i1] t1]|]|e|s]; cbn [bind sound] in *; try exact I.
    exists []. split; [reflexivity|split; [unfold nlen; cbn [length]; lia|apply S_and]].
Qed.

(* ---------- inversion lemmas ---------- *)
Lemma sem_seq_inv : forall a b m pos s ts, sem (RSeq a b) m pos s ts ->
  exists s1 t1 s2 t2, s = s1 ++ s2 /\ ts = t1 ++ t2 /\ sem a m pos s1 t1 /\ sem b m (pos + nlen s1)%N s2 t2.
Proof. intros a b m pos s ts H. inversion H; subst. eauto 10. Qed.

Lemma sem_str_inv : forall x m pos s ts, sem (RStr x) m pos s ts -> s = x /\ ts = [].
Proof. intros x m pos s ts H. inversion H; subst. split; reflexivity. Qed.

Lemma sem_choice_inv : forall a b m pos s ts, sem (RChoice a b) m pos s ts ->
  sem a m pos s ts \/ sem b m pos s ts.
Proof. intros a b m pos s ts H. inversion H; subst; [left|right]; assumption. Qed.

Lemma sem_opt_inv : forall a m pos s ts, sem (ROpt a) m pos s ts ->
  sem a m pos s ts \/ (s = [] /\ ts = []).
Proof. intros a m pos s ts H. inversion H; subst; [left; assumption|right; split; reflexivity]. Qed.

Lemma sem_ref_inv : forall n m pos s ts, sem (RRef n) m pos s ts ->
  exists md body ch, find_rule cg n = Some (md, body) /\ sem body (inner_mode n md m) pos s ch /\
    ts = if emits md m then [Pair n pos (pos + nlen s)%N ch] else ch.
Proof. intros n m pos s ts H. inversion H; subst. eauto 10. Qed.

Lemma sem_not_inv : forall a m pos s ts, sem (RNot a) m pos s ts -> s = [] /\ ts = [].
Proof. intros a m pos s ts H. inversion H; subst. split; reflexivity. Qed.

(* a repetition is a list of rounds *)
Lemma sem_star_rounds : forall a m (R : list N -> list pair -> Prop),
  (forall pos s ts, sem a m pos s ts -> R s ts) ->
  forall e pos s ts, sem e m pos s ts -> e = RStar a ->
  exists rounds, s = concat (map fst rounds) /\ ts = concat (map snd rounds) /\
                 Forall (fun r => R (fst r) (snd r)) rounds.
Proof.
  intros a m R HR e pos s ts H. induction H; intro E; try discriminate.
  - exists []. repeat split. constructor.
  - inversion E; subst. destruct (IHsem2 HR eq_refl) as (rounds & -> & -> & HF).
    exists ((s1, t1) :: rounds). repeat split. constructor; [apply (HR _ _ _ H)|assumption].
Qed.

(* ---------- analysis 1: names of the produced pairs ---------- *)
(* all analyses recurse on the fuel only (one unit per node or rule call): plain unfolding equations *)
Definition opt_app {A} (x y : option (list A)) : option (list A) :=
  match x, y with Some a, Some b => Some (a ++ b) | _, _ => None end.

Fixpoint names (fuel : nat) (e : rexpr) (m : mode) {struct fuel} : option (list string) :=
  match fuel with
  | O => None
  | S f =>
      match e with
      | RStr _ | RRange _ _ | RAny | RSoi | REoi | RNot _ | RAnd _ => Some []
      | RRef n =>
          match find_rule cg n with
          | Some (md, body) => if emits md m then Some [n] else names f body (inner_mode n md m)
          | None => None
          end
      | RSkip => if is_nonatomic m then names f (RRef skip_name) m else Some []
      | RSeq a b | RChoice a b => opt_app (names f a m) (names f b m)
      | ROpt a => names f a m
      | RStar a => names f a m
      end
  end.

Definition pair_name (p : pair) : string := match p with Pair n _ _ _ => n end.

Lemma names_sound : forall e m pos s ts, sem e m pos s ts ->
  forall fuel L, names fuel e m = Some L -> Forall (fun p => In (pair_name p) L) ts.
Proof.
  intros e m pos s ts H. induction H; intros fuel L HL; destruct fuel as [|f]; try discriminate;
    cbn [names] in HL; try (constructor; fail).
  - rewrite H in HL. destruct (emits md m).
    + inversion HL; subst. constructor; [left; reflexivity|constructor].
    + eapply IHsem; exact HL.
  - rewrite H in HL. eapply IHsem; exact HL.
  - destruct (names f a m) as [x|] eqn:Ea; [|discriminate].
    destruct (names f b m) as [y|] eqn:Eb; [|discriminate]. inversion HL; subst.
    apply Forall_app. split.
    + eapply Forall_impl; [|eapply IHsem1; exact Ea]. intros p Hp. apply in_or_app. left; exact Hp.
    + eapply Forall_impl; [|eapply IHsem2; exact Eb]. intros p Hp. apply in_or_app. right; exact Hp.
  - destruct (names f a m) as [x|] eqn:Ea; [|discriminate].
    destruct (names f b m) as [y|] eqn:Eb; [|discriminate]. inversion HL; subst.
    eapply Forall_impl; [|eapply IHsem; exact Ea]. intros p Hp. apply in_or_app. left; exact Hp.
  - destruct (names f a m) as [x|] eqn:Ea; [|discriminate].
    destruct (names f b m) as [y|] eqn:Eb; [|discriminate]. inversion HL; subst.
    eapply Forall_impl; [|eapply IHsem; exact Eb]. intros p Hp. apply in_or_app. right; exact Hp.
  - eapply IHsem; exact HL.
  - apply Forall_app. split; [eapply IHsem1; exact HL|].
    apply (IHsem2 (S f)). cbn [names]. exact HL.
Qed.

Definition quiet (fuel : nat) (e : rexpr) (m : mode) : bool :=
  match names fuel e m with Some [] => true | _ => false end.

Lemma quiet_sound : forall e m pos s ts fuel, sem e m pos s ts -> quiet fuel e m = true -> ts = [].
Proof.
  intros e m pos s ts fuel H Q. unfold quiet in Q.
  destruct (names fuel e m) as [[|x l]|] eqn:E; try discriminate.
  pose proof (names_sound _ _ _ _ _ H _ _ E) as F.
  destruct ts as [|p r]; [reflexivity|]. inversion F; subst. contradiction.
Qed.

(* ---------- analysis 2: exactly one pair ---------- *)
Fixpoint single (fuel : nat) (e : rexpr) (m : mode) {struct fuel} : bool :=
  match fuel with
  | O => false
  | S f =>
      match e with
      | RRef n =>
          match find_rule cg n with
          | Some (md, body) => if emits md m then true else single f body (inner_mode n md m)
          | None => false
          end
      | RSeq a b => (single f a m && quiet f b m) || (quiet f a m && single f b m)
      | RChoice a b => single f a m && single f b m
      | _ => false
      end
  end.

Lemma single_sound : forall e m pos s ts, sem e m pos s ts ->
  forall fuel, single fuel e m = true -> exists p, ts = [p].
Proof.
  intros e m pos s ts H. induction H; intros fuel HS; destruct fuel as [|f]; try discriminate;
    cbn [single] in HS; try discriminate.
  - rewrite H in HS. destruct (emits md m); [eexists; reflexivity|]. eapply IHsem; exact HS.
  - apply orb_true_iff in HS. destruct HS as [HS|HS]; apply andb_true_iff in HS; destruct HS as [A B].
    + destruct (IHsem1 _ A) as (p & ->). rewrite (quiet_sound _ _ _ _ _ _ H0 B). exists p. reflexivity.
    + rewrite (quiet_sound _ _ _ _ _ _ H A). destruct (IHsem2 _ B) as (p & ->). exists p. reflexivity.
  - apply andb_true_iff in HS. destruct HS as [A B]. eapply IHsem; exact A.
  - apply andb_true_iff in HS. destruct HS as [A B]. eapply IHsem; exact B.
Qed.

(* ---------- analysis 3: every consumed byte satisfies ok ---------- *)
Lemma N_range_In : forall count lo b, (lo <= b)%N -> (b < lo + N.of_nat count)%N -> In b (N_range lo count).
Proof.
  induction count as [|c IH]; intros lo b H1 H2; [lia|].
  cbn [N_range]. destruct (N.eq_dec lo b) as [->|Hne]; [left; reflexivity|].
  right. apply IH; lia.
Qed.

Section Chars.
Variable ok : N -> bool.
Fixpoint chars (fuel : nat) (e : rexpr) {struct fuel} : bool :=
  match fuel with
  | O => false
  | S f =>
      match e with
      | RStr s => forallb ok s
      | RRange lo hi => forallb ok (N_range lo (N.to_nat (hi - lo + 1)))
      | RAny => false
      | RSoi | REoi | RNot _ | RAnd _ => true
      | RRef n => match find_rule cg n with Some (_, body) => chars f body | None => false end
      | RSkip => chars f (RRef skip_name)
      | RSeq a b | RChoice a b => chars f a && chars f b
      | ROpt a => chars f a
      | RStar a => chars f a
      end
  end.

Lemma chars_sound : forall e m pos s ts, sem e m pos s ts ->
  forall fuel, chars fuel e = true -> forallb ok s = true.
Proof.
  intros e m pos s ts H. induction H; intros fuel HC; destruct fuel as [|f]; try discriminate;
    cbn [chars] in HC; try discriminate; try reflexivity.
  - exact HC.
  - cbn [forallb]. rewrite andb_true_r. rewrite forallb_forall in HC. apply HC.
    apply andb_true_iff in H. destruct H as [A B]. apply N.leb_le in A. apply N.leb_le in B.
    apply N_range_In; lia.
  - rewrite H in HC. eapply IHsem; exact HC.
  - eapply IHsem; exact HC.
  - apply andb_true_iff in HC. destruct HC as [A B]. rewrite forallb_app.
    rewrite (IHsem1 _ A), (IHsem2 _ B). reflexivity.
  - apply andb_true_iff in HC. destruct HC as [A B]. eapply IHsem; exact A.
  - apply andb_true_iff in HC. destruct HC as [A B]. eapply IHsem; exact B.
  - eapply IHsem; exact HC.
  - rewrite forallb_app. rewrite (IHsem1 _ HC). apply (IHsem2 (S f)). cbn [chars]. exact HC.
Qed.
End Chars.

(* ---------- analysis 4: the finite set of consumed texts ---------- *)
Fixpoint strs (fuel : nat) (e : rexpr) {struct fuel} : option (list (list N)) :=
  match fuel with
  | O => None
  | S f =>
      match e with
      | RStr s => Some [s]
      | RRange lo hi => Some (map (fun b => [b]) (N_range lo (N.to_nat (hi - lo + 1))))
      | RSoi | REoi | RNot _ | RAnd _ => Some [[]]
      | RAny | RStar _ | RSkip => None
      | RRef n => match find_rule cg n with Some (_, body) => strs f body | None => None end
      | RSeq a b =>
          match strs f a, strs f b with
          | Some x, Some y => Some (flat_map (fun u => map (app u) y) x)
          | _, _ => None
          end
      | RChoice a b => opt_app (strs f a) (strs f b)
      | ROpt a => option_map (cons []) (strs f a)
      end
  end.

Lemma strs_sound : forall e m pos s ts, sem e m pos s ts ->
  forall fuel L, strs fuel e = Some L -> In s L.
Proof.
  intros e m pos s ts H. induction H; intros fuel L HL; destruct fuel as [|f]; try discriminate;
    cbn [strs] in HL; try discriminate; try (inversion HL; subst; left; reflexivity).
  - inversion HL; subst. apply in_map_iff. exists b. split; [reflexivity|].
    apply andb_true_iff in H. destruct H as [A B]. apply N.leb_le in A. apply N.leb_le in B.
    apply N_range_In; lia.
  - rewrite H in HL. eapply IHsem; exact HL.
  - destruct (strs f a) as [x|] eqn:Ea; [|discriminate].
    destruct (strs f b) as [y|] eqn:Eb; [|discriminate]. inversion HL; subst.
    apply in_flat_map. exists s1. split; [eapply IHsem1; exact Ea|].
    apply in_map. eapply IHsem2; exact Eb.
  - destruct (strs f a) as [x|] eqn:Ea; [|discriminate].
    destruct (strs f b) as [y|] eqn:Eb; [|discriminate]. inversion HL; subst.
    apply in_or_app. left. eapply IHsem; exact Ea.
  - destruct (strs f a) as [x|] eqn:Ea; [|discriminate].
    destruct (strs f b) as [y|] eqn:Eb; [|discriminate]. inversion HL; subst.
    apply in_or_app. right. eapply IHsem; exact Eb.
  - destruct (strs f a) as [x|] eqn:Ea; [|discriminate]. inversion HL; subst.
    right. eapply IHsem; exact Ea.
  - destruct (strs f a) as [x|] eqn:Ea; [|discriminate]. inversion HL; subst. left; reflexivity.
Qed.
End Sem.

(* ---------- from a successful parse to a derivation ---------- *)
Lemma peg_parse_sem : forall g start input ps,
  peg_parse g start input = Ok (Some ps) ->
  exists s rest, input = s ++ rest /\ sem (compile g) (RRef start) NonAtomic 0%N s ps.
Proof.
  intros g start input ps H. unfold peg_parse, peg_parse_fuel in H.
  pose proof (reval_sound (compile g) (enough_fuel g input) (RRef start) NonAtomic 0%N input) as S.
  destruct (reval (compile g) (enough_fuel g input) (RRef start) NonAtomic 0%N input) as [[[[p' i'] ts]|]|e|s];
    cbn [bind] in H; try discriminate.
  inversion H; subst. cbn [sound] in S. destruct S as (s & E & _ & D). exists s, i'. split; assumption.
Qed.
