(* Proofs/DisasmProofs.v -- the streaming disassembler is lossless and chunking-independent (C04). *)
From Coq Require Import Lia ZifyBool ZifyNat ZifyN.
From Verif Require Import Model.Base Model.Ops Model.Disasm Proofs.OpsProofs.
Open Scope N_scope.

(* ---------- facts about the table used by the disassembler ---------- *)
Lemma ilen_pos : forall c, (1 <= ilen c)%nat.
Proof. intros c. unfold ilen, size. lia. Qed.

Lemma ilen_extra : forall c, N.of_nat (ilen c - 1) = r_extra (from_u8 cancun c).
Proof. intros c. unfold ilen, size. lia. Qed.

Lemma cancun_code : forall c, r_code (from_u8 cancun c) = c.
Proof.
  intros c. destruct (N.lt_ge_cases c 256) as [H|H].
  - destruct (chk_fork_parts _ _ _ cancun_ok) as (Hl & Hu & _).
    exact (to_from_u8 cancun Hu c H).
  - unfold from_u8. rewrite nth_overflow; [reflexivity|].
    destruct (chk_fork_parts _ _ _ cancun_ok) as (Hl & _).
    rewrite (table_length cancun Hl). lia.
Qed.

(* ---------- one poll ---------- *)
Lemma dnext_short : forall c tl off,
  (length (c :: tl) < ilen c)%nat ->
  dnext (mkd (c :: tl) off) = (None, mkd (c :: tl) off).
Proof.
  intros c tl off H. unfold dnext. cbn [d_buf].
  destruct (Nat.ltb_spec (length (c :: tl)) (ilen c)); [reflexivity|lia].
Qed.

Lemma dnext_full : forall c tl off,
  (ilen c <= length (c :: tl))%nat ->
  dnext (mkd (c :: tl) off) =
    (Some (mkitem off c (firstn (ilen c - 1) tl)),
     mkd (skipn (ilen c) (c :: tl)) (off + N.of_nat (ilen c))).
Proof.
  intros c tl off H. unfold dnext. cbn [d_buf d_off].
  destruct (Nat.ltb_spec (length (c :: tl)) (ilen c)) as [Hlt|_]; [lia|].
  pose proof (ilen_pos c) as Hp.
  destruct (ilen c) as [|k] eqn:Ek; [lia|].
  cbn [firstn]. rewrite from_slice_spec.
  assert (Hlen : length (firstn k tl) = k) by (apply firstn_length_le; cbn [length] in H; lia).
  rewrite Hlen. pose proof (ilen_extra c) as Hx. rewrite Ek in Hx.
  replace (S k - 1)%nat with k in * by lia.
  rewrite Hx, N.eqb_refl, cancun_code. reflexivity.
Qed.

(* ---------- well-formed item lists ---------- *)
Definition wf_item (it : item) : Prop := (S (length (i_imm it)) = ilen (i_code it))%nat.

Fixpoint offsets_from (off : N) (its : list item) : Prop :=
  match its with
  | [] => True
  | it :: r => i_off it = off /\ offsets_from (off + N.of_nat (length (encode_item it))) r
  end.

Definition incomplete (l : list N) : Prop :=
  match l with [] => True | c :: _ => (length l < ilen c)%nat end.

Lemma flatten_app : forall a b, flatten (a ++ b) = (flatten a ++ flatten b)%list.
Proof. intros a b. unfold flatten. now rewrite map_app, concat_app. Qed.

Lemma offsets_from_app : forall a b off,
  offsets_from off (a ++ b) <->
  offsets_from off a /\ offsets_from (off + N.of_nat (length (flatten a))) b.
Proof.
  induction a as [|x a IH]; intros b off; cbn [app offsets_from].
  - cbn. rewrite N.add_0_r. tauto.
  - rewrite IH.
    assert (E : length (flatten (x :: a)) = (length (encode_item x) + length (flatten a))%nat).
    { unfold flatten. cbn [map concat]. now rewrite app_length. }
    rewrite E, Nnat.Nat2N.inj_add, N.add_assoc. tauto.
Qed.

Lemma flatten_one : forall it, flatten [it] = encode_item it.
Proof. intros. unfold flatten. cbn [map concat]. apply app_nil_r. Qed.

Lemma flatten_cons : forall it r, flatten (it :: r) = (encode_item it ++ flatten r)%list.
Proof. intros. reflexivity. Qed.

Lemma item_bytes : forall off c tl, (ilen c <= length (c :: tl))%nat ->
  (encode_item (mkitem off c (firstn (ilen c - 1) tl)) ++ skipn (ilen c) (c :: tl))%list = c :: tl.
Proof.
  intros off c tl H. pose proof (ilen_pos c) as Hp. unfold encode_item. cbn [i_code i_imm app].
  destruct (ilen c) as [|k]; [lia|]. cbn [skipn]. replace (S k - 1)%nat with k by lia.
  f_equal. apply firstn_skipn.
Qed.

Lemma item_len : forall off c tl, (ilen c <= length (c :: tl))%nat ->
  length (encode_item (mkitem off c (firstn (ilen c - 1) tl))) = ilen c.
Proof.
  intros off c tl H. pose proof (ilen_pos c) as Hp. unfold encode_item. cbn [i_code i_imm length].
  rewrite firstn_length_le; cbn [length] in H; lia.
Qed.

(* uniqueness of the decomposition "whole instructions ++ incomplete tail" *)
Lemma decomposition_unique : forall a1 l1 a2 l2,
  Forall wf_item a1 -> Forall wf_item a2 -> incomplete l1 -> incomplete l2 ->
  (flatten a1 ++ l1 = flatten a2 ++ l2)%list ->
  map encode_item a1 = map encode_item a2 /\ l1 = l2.
Proof.
  assert (Hhead : forall y a2 l2, wf_item y ->
            ~ incomplete (flatten (y :: a2) ++ l2)).
  { intros y a2 l2 Wy. unfold flatten, wf_item in *. cbn [map concat encode_item app incomplete].
    cbn [length]. rewrite <- !app_assoc, !app_length. lia. }
  induction a1 as [|x a1 IH]; intros l1 a2 l2 W1 W2 I1 I2 E.
  - destruct a2 as [|y a2]; [cbn in E; auto|].
    exfalso. inversion W2 as [|? ? Wy _]; subst.
    change (flatten [] ++ l1) with l1 in E. subst l1. now apply (Hhead y a2 l2).
  - inversion W1 as [|? ? Wx W1']; subst.
    destruct a2 as [|y a2].
    + exfalso. change (flatten [] ++ l2) with l2 in E. subst l2. now apply (Hhead x a1 l1).
    + inversion W2 as [|? ? Wy W2']; subst. unfold wf_item in Wx, Wy.
      unfold flatten in E. cbn [map concat] in E. unfold encode_item at 1 3 in E.
      cbn [app] in E. injection E as Ec E.
      rewrite <- !app_assoc in E.
      assert (Hl : length (i_imm x) = length (i_imm y)) by (rewrite Ec in Wx; lia).
      assert (Himm : i_imm x = i_imm y /\
               (concat (map encode_item a1) ++ l1 = concat (map encode_item a2) ++ l2)%list).
      { clear - E Hl. revert E Hl. generalize (i_imm x) (i_imm y).
        induction l as [|p l IHl]; intros [|q m] E Hl; cbn [length app] in *; try lia; auto.
        injection E as -> E. destruct (IHl m E ltac:(lia)) as [-> R]. auto. }
      destruct Himm as [Ei Er].
      destruct (IH l1 a2 l2 W1' W2' I1 I2 Er) as [Em El].
      split; [|exact El]. cbn [map]. unfold encode_item at 1 3. rewrite Ec, Ei, Em. reflexivity.
Qed.

(* ---------- the invariant of every history ---------- *)
Definition hinput (h : list dop) : list N :=
  concat (map (fun o => match o with DWrite bs => bs | DNext => [] end) h).

Record Inv (input : list N) (acc : list item * dstate) : Prop := {
  inv_bytes : (flatten (fst acc) ++ d_buf (snd acc))%list = input;
  inv_off : d_off (snd acc) = N.of_nat (length (flatten (fst acc)));
  inv_wf : Forall wf_item (fst acc);
  inv_offs : offsets_from 0 (fst acc) }.

Lemma inv_init : Inv [] ([], dinit).
Proof. constructor; cbn; auto. Qed.

Lemma inv_write : forall input acc bs,
  Inv input acc -> Inv (input ++ bs) (dstep acc (DWrite bs)).
Proof.
  intros input [em st] bs [Hb Ho Hw Hf]. cbn in *. constructor; cbn; auto.
  now rewrite app_assoc, Hb.
Qed.

Lemma inv_next : forall input acc, Inv input acc -> Inv input (dstep acc DNext).
Proof.
  intros input [em [buf off]] [Hb Ho Hw Hf]. cbn [fst snd d_buf d_off] in *.
  unfold dstep. cbn [fst snd].
  destruct buf as [|c tl].
  - cbn. constructor; cbn; auto.
  - destruct (Nat.ltb_spec (length (c :: tl)) (ilen c)) as [Hs|Hs].
    + rewrite dnext_short by exact Hs. constructor; cbn; auto.
    + rewrite dnext_full by exact Hs.
      pose proof (item_bytes off c tl Hs) as Hib. pose proof (item_len off c tl Hs) as Hil.
      constructor; cbn [fst snd d_buf d_off].
      * rewrite flatten_app, flatten_one, <- app_assoc, Hib. exact Hb.
      * rewrite flatten_app, flatten_one, app_length, Hil, Nnat.Nat2N.inj_add, <- Ho. reflexivity.
      * apply Forall_app. split; [exact Hw|]. constructor; [|constructor].
        unfold wf_item. cbn [i_imm i_code]. unfold encode_item in Hil. cbn [i_code i_imm length] in Hil. exact Hil.
      * apply offsets_from_app. split; [exact Hf|]. cbn [offsets_from i_off].
        rewrite <- Ho. split; [lia|exact I].
Qed.

Lemma drun_app : forall h1 h2, drun (h1 ++ h2) = fold_left dstep h2 (drun h1).
Proof. intros. unfold drun. now rewrite fold_left_app. Qed.

Lemma hinput_app : forall h1 h2, hinput (h1 ++ h2) = (hinput h1 ++ hinput h2)%list.
Proof. intros. unfold hinput. now rewrite map_app, concat_app. Qed.

Theorem history_invariant : forall h, Inv (hinput h) (drun h).
Proof.
  intros h. induction h as [|o h IH] using rev_ind.
  - exact inv_init.
  - rewrite drun_app, hinput_app. cbn [fold_left]. destruct o as [bs|].
    + unfold hinput at 2. cbn [map concat]. rewrite app_nil_r. now apply inv_write.
    + unfold hinput at 2. cbn [map concat]. rewrite app_nil_r. now apply inv_next.
Qed.

(* ---------- polling until None ---------- *)
Lemma ddrain_inv : forall fuel input acc,
  Inv input acc -> Inv input (ddrain fuel acc).
Proof.
  induction fuel as [|f IH]; intros input acc H; cbn [ddrain]; [exact H|].
  pose proof (inv_next input acc H) as Hn. unfold dstep in Hn.
  destruct (dnext (snd acc)) as [[it|] st'].
  - apply IH. exact Hn.
  - exact Hn.
Qed.

Lemma ddrain_incomplete : forall fuel acc,
  (length (d_buf (snd acc)) < fuel)%nat -> incomplete (d_buf (snd (ddrain fuel acc))).
Proof.
  induction fuel as [|f IH]; intros [em [buf off]] Hf; [lia|]. cbn [ddrain snd fst d_buf] in *.
  destruct buf as [|c tl].
  - cbn. exact I.
  - destruct (Nat.ltb_spec (length (c :: tl)) (ilen c)) as [Hs|Hs].
    + rewrite dnext_short by exact Hs. cbn. exact Hs.
    + rewrite dnext_full by exact Hs. apply IH. cbn [snd d_buf].
      rewrite skipn_length. pose proof (ilen_pos c). lia.
Qed.

(* the emitted list only ever grows (prefix-stability under more polls and writes) *)
Lemma dstep_prefix : forall acc o, exists ext, fst (dstep acc o) = (fst acc ++ ext)%list.
Proof.
  intros acc [bs|]; cbn.
  - exists []. now rewrite app_nil_r.
  - destruct (dnext (snd acc)) as [[it|] st']; cbn; [now exists [it]|exists []; now rewrite app_nil_r].
Qed.

Lemma fold_dstep_prefix : forall h acc, exists ext, fst (fold_left dstep h acc) = (fst acc ++ ext)%list.
Proof.
  induction h as [|o h IH]; intros acc; cbn [fold_left].
  - exists []. now rewrite app_nil_r.
  - destruct (IH (dstep acc o)) as [e1 H1]. destruct (dstep_prefix acc o) as [e2 H2].
    exists (e2 ++ e1)%list. rewrite H1, H2. now rewrite app_assoc.
Qed.

Lemma ddrain_prefix : forall fuel acc, exists ext, fst (ddrain fuel acc) = (fst acc ++ ext)%list.
Proof.
  induction fuel as [|f IH]; intros acc; cbn [ddrain].
  - exists []. now rewrite app_nil_r.
  - destruct (dnext (snd acc)) as [[it|] st'].
    + destruct (IH (fst acc ++ [it], st')%list) as [e H]. exists ([it] ++ e)%list.
      rewrite H. cbn [fst]. now rewrite <- app_assoc.
    + exists []. cbn. now rewrite app_nil_r.
Qed.

(* ---------- decode_all is the same decomposition ---------- *)
Lemma decode_all_fuel_spec : forall fuel off bs, (length bs <= fuel)%nat ->
  let r := decode_all_fuel fuel off bs in
  (flatten (fst r) ++ snd r = bs)%list /\ Forall wf_item (fst r) /\
  offsets_from off (fst r) /\ incomplete (snd r).
Proof.
  induction fuel as [|f IH]; intros off bs Hl.
  - destruct bs; [|cbn in Hl; lia]. cbn. auto.
  - cbn [decode_all_fuel]. destruct bs as [|c rest]; [cbn; auto|].
    destruct (Nat.ltb_spec (length (c :: rest)) (ilen c)) as [Hs|Hs].
    + cbn. auto.
    + pose proof (ilen_pos c) as Hp.
      assert (Hsk : (length (skipn (ilen c) (c :: rest)) <= f)%nat).
      { rewrite skipn_length. cbn [length] in *. lia. }
      destruct (IH (off + N.of_nat (ilen c)) _ Hsk) as (A & B & C & D).
      pose proof (item_bytes off c rest Hs) as Hib. pose proof (item_len off c rest Hs) as Hil.
      cbn [fst snd]. repeat split.
      * rewrite flatten_cons, <- app_assoc, A. exact Hib.
      * constructor; [|exact B]. unfold wf_item. unfold encode_item in Hil. cbn [i_code i_imm length] in *. exact Hil.
      * rewrite Hil. exact C.
      * exact D.
Qed.

(* items are determined by their encodings and the offset discipline *)
Lemma items_eq : forall a b off,
  offsets_from off a -> offsets_from off b -> map encode_item a = map encode_item b -> a = b.
Proof.
  induction a as [|x a IH]; intros [|y b] off Ha Hb E; cbn [map] in E; try discriminate; auto.
  cbn [offsets_from] in Ha, Hb. destruct Ha as [Hx Ha], Hb as [Hy Hb].
  assert (Ex : encode_item x = encode_item y) by (unfold encode_item in *; congruence).
  assert (E' : map encode_item a = map encode_item b) by (unfold encode_item in *; congruence).
  rewrite Ex in Ha. f_equal.
  - destruct x as [ox cx ix], y as [oy cy iy]. unfold encode_item in Ex. cbn in *.
    injection Ex as -> ->. subst. reflexivity.
  - exact (IH b _ Ha Hb E').
Qed.

(* the complete result of a history: everything written, polled to None *)
Definition dfinal (h : list dop) : list item * dstate :=
  let r := drun h in ddrain (S (length (d_buf (snd r)))) r.

Theorem dfinal_spec : forall h,
  let r := dfinal h in
  (flatten (fst r) ++ d_buf (snd r))%list = hinput h /\
  Forall wf_item (fst r) /\ offsets_from 0 (fst r) /\ incomplete (d_buf (snd r)) /\
  d_off (snd r) = N.of_nat (length (flatten (fst r))).
Proof.
  intros h r. unfold r, dfinal.
  pose proof (ddrain_inv (S (length (d_buf (snd (drun h))))) _ _ (history_invariant h)) as [A B C D].
  repeat split; auto. apply ddrain_incomplete. lia.
Qed.

Theorem dfinal_decode_all : forall h,
  fst (dfinal h) = fst (decode_all (hinput h)) /\ d_buf (snd (dfinal h)) = snd (decode_all (hinput h)).
Proof.
  intros h. destruct (dfinal_spec h) as (A & B & C & D & _).
  destruct (decode_all_fuel_spec (length (hinput h)) 0 (hinput h) (le_n _)) as (A' & B' & C' & D').
  fold (decode_all (hinput h)) in *.
  destruct (decomposition_unique _ _ _ _ B B' D D' (eq_trans A (eq_sym A'))) as [E1 E2].
  split; [|exact E2]. exact (items_eq _ _ 0 C C' E1).
Qed.

Theorem chunking_independent : forall h1 h2, hinput h1 = hinput h2 ->
  fst (dfinal h1) = fst (dfinal h2) /\ d_buf (snd (dfinal h1)) = d_buf (snd (dfinal h2)) /\
  d_off (snd (dfinal h1)) = d_off (snd (dfinal h2)).
Proof.
  intros h1 h2 E. destruct (dfinal_decode_all h1) as [A1 B1], (dfinal_decode_all h2) as [A2 B2].
  destruct (dfinal_spec h1) as (_ & _ & _ & _ & O1), (dfinal_spec h2) as (_ & _ & _ & _ & O2).
  rewrite E in A1, B1. split; [congruence|]. split; [congruence|]. rewrite O1, O2. congruence.
Qed.

(* what has been emitted at any point of any history is a prefix of the complete decoding
   of everything that is ever written afterwards *)
Theorem emitted_is_prefix : forall h1 h2, exists ext,
  fst (decode_all (hinput (h1 ++ h2))) = (fst (drun h1) ++ ext)%list.
Proof.
  intros h1 h2. destruct (dfinal_decode_all (h1 ++ h2)) as [A _]. rewrite <- A.
  unfold dfinal. rewrite drun_app.
  destruct (fold_dstep_prefix h2 (drun h1)) as [e1 H1].
  destruct (ddrain_prefix (S (length (d_buf (snd (fold_left dstep h2 (drun h1)))))) (fold_left dstep h2 (drun h1))) as [e2 H2].
  exists (e1 ++ e2)%list. rewrite H2, H1. now rewrite app_assoc.
Qed.

Lemma dfinish_spec : forall st,
  (dfinish st = Ok tt <-> d_buf st = []) /\
  (d_buf st <> [] -> dfinish st = Err (mkErr "Truncated" [dec_of_N (d_off st); hex_bytes (d_buf st)])).
Proof.
  intros [[|c tl] off]; cbn; split; try tauto; split; discriminate.
Qed.
