(* Proofs/CfgSoundProofs.v -- the edge an execution takes is in the graph as first built and
   survives refinement under a sound solver (graph level; the link to executions of the
   bytecode is Proofs/C05Proofs.v). *)
From Coq Require Import Lia Permutation.
From Verif Require Import Model.Base Model.Sym Spec.EvmSem Spec.EvmExec Spec.SmtBv Spec.CfgSpec
  Model.Z3Tr Model.Cfg Proofs.CfgProofs.
Open Scope Z_scope.

(* the transfer a translated exit denotes under an interpretation of the solver's symbols *)
Definition ztransfer (M : interp) (z : zexit) : transfer :=
  match z with
  | ZTerminate => Halt
  | ZFallThrough f => FallThrough f
  | ZUnconditional u => Goto (bv_eval M u)
  | ZBranch c t f => CondJump (bv_eval M c) (bv_eval M t) f
  end.

Definition node_of (t : target) : node :=
  match t with TgTerminate => NTerm | TgBadJump => NBad | TgBlock o => NBlock o end.

Lemma in_list_In : forall x l, in_list x l = true <-> In x l.
Proof.
  intros x l. unfold in_list. rewrite existsb_exists. split.
  - intros (y & Hy & E). apply Z.eqb_eq in E. now subst.
  - intros H. exists x. split; [exact H|apply Z.eqb_refl].
Qed.

Lemma in_list_ext : forall x l1 l2, (forall y, In y l1 <-> In y l2) -> in_list x l1 = in_list x l2.
Proof.
  intros x l1 l2 H. destruct (in_list x l1) eqn:E1, (in_list x l2) eqn:E2; try reflexivity.
  - apply in_list_In in E1. apply H in E1. apply in_list_In in E1. congruence.
  - apply in_list_In in E2. apply H in E2. apply in_list_In in E2. congruence.
Qed.

Lemma successor_ext : forall h1 h2 j1 j2 t,
  (forall y, In y h1 <-> In y h2) -> (forall y, In y j1 <-> In y j2) ->
  successor h1 j1 t = successor h2 j2 t.
Proof.
  intros h1 h2 j1 j2 t Hh Hj. unfold successor, fall_target, jump_target.
  destruct t as [|d|f|c d f]; try reflexivity;
    rewrite ?(in_list_ext _ h1 h2 Hh), ?(in_list_ext _ j1 j2 Hj); reflexivity.
Qed.

Lemma find_block_in_list : forall bs f,
  in_list f (offsets bs) = match find_block bs f with Some _ => true | None => false end.
Proof.
  induction bs as [|x r IH]; intros f; [reflexivity|].
  unfold offsets, in_list in *. cbn [map existsb find_block]. rewrite Z.eqb_sym.
  destruct (ab_off x =? f); [reflexivity|]. cbn [orb]. apply IH.
Qed.

Section Taken.
  Variable solver_unsat : list bvform -> bool.
  Hypothesis Hsound : sound solver_unsat.
  Variable blocks : list ablock.
  Variable g g' : cfg.
  Hypothesis Hnew : cfg_new blocks = Ok g.
  Hypothesis Href : refine solver_unsat g = Ok g'.
  Hypothesis Hoff : forall b, In b (g_blocks g) -> 0 <= ab_off b < 2 ^ 256.
  Hypothesis Hft : forall b c t f, In b (g_blocks g) -> ab_exit b = ABranch c t f -> 0 <= f < 2 ^ 256.

  Local Notation sorted := (g_blocks g).

  Lemma zero256_eval : forall M, bv_eval M zero256 = 0.
  Proof. intros M. cbn [zero256 bv_eval]. apply Z.mod_0_l. lia. Qed.

  Theorem taken_edge_kept : forall b z M, In b sorted -> exit_to_z3 (ab_exit b) = Ok z ->
    let e := (NBlock (ab_off b),
              node_of (successor (offsets sorted) (jt_offsets sorted) (ztransfer M z))) in
    In e (g_edges g) /\ In e (g_edges g').
  Proof.
    intros b z M Hb Hz e.
    destruct (cfg_new_wf _ _ Hnew) as (P & Nd & _ & _ & Hjt).
    pose proof (find_block_unique _ _ Nd Hb) as Hfb.
    pose proof (edges_of_block solver_unsat blocks g g' Hnew Href Hoff Hft b Hb) as Hedges. unfold block_edges in Hedges.
    pose proof (kept solver_unsat g g' Href) as Kept.
    pose proof (keep_if_satisfied solver_unsat Hsound) as Sat.
    assert (Heq : forall e, fst e = NBlock (ab_off b) -> edge_query sorted e =
              match snd e with
              | NBlock t => match find_block sorted t with
                            | Some to => shallow_block b to
                            | None => Panic "unwrap_block: not a block" end
              | NBad => shallow_bad_jump sorted b
              | NTerm => shallow_terminate b end).
    { intros e0 He. unfold edge_query. rewrite He, Hfb. reflexivity. }
    assert (Hjts : forall v, in_list v (jt_offsets sorted) = true ->
              exists to, In to sorted /\ ab_off to = v /\ In v (jts_of blocks)).
    { intros v Hv. apply in_list_In in Hv. pose proof (proj1 (jt_offsets_jts blocks g Hnew v) Hv) as Hj.
      destruct (Hjt v Hj) as (to & Hto & _ & Eo). eauto. }
    assert (Hnot : forall v zt, in_list v (jt_offsets sorted) = false -> v = bv_eval M zt ->
              forall f0, In f0 (map (fun off => FNot (FCmp Ceq (offset_const off) zt)) (jt_offsets sorted)) ->
              form_eval M f0 = true).
    { intros v zt Hv Ev f0 Hf0. apply in_map_iff in Hf0 as (off & <- & Ho). cbn [form_eval cmp_sem].
      assert (Hb' : exists to, In to sorted /\ ab_off to = off).
      { unfold jt_offsets in Ho. apply in_map_iff in Ho as (to & E & Hto). apply filter_In in Hto as [Hto _]. eauto. }
      destruct Hb' as (to & Hto & <-). rewrite offset_const_eval by (apply Hoff; exact Hto).
      apply Bool.negb_true_iff. apply Z.eqb_neq. intros E.
      assert (in_list v (jt_offsets sorted) = true) by (apply in_list_In; rewrite Ev, <- E; exact Ho). congruence. }
    unfold e. clear e.
    destruct (ab_exit b) as [|f|u|c t f] eqn:Ex; cbn [fall_through] in Hedges.
    - (* Terminate *)
      cbn [exit_to_z3] in Hz. inversion Hz; subst z. cbn [ztransfer successor node_of].
      assert (In (NBlock (ab_off b), NTerm) (g_edges g)) by (apply Hedges; cbn; auto).
      split; [assumption|]. eapply Kept; [eassumption| |].
      { rewrite Heq by reflexivity. cbn [snd]. unfold shallow_terminate. rewrite Ex. reflexivity. }
      { reflexivity. }
    - (* FallThrough *)
      cbn [exit_to_z3] in Hz. inversion Hz; subst z. cbn [ztransfer successor]. unfold fall_target.
      rewrite find_block_in_list. destruct (find_block sorted f) as [to|] eqn:Ef; cbn [node_of].
      + assert (In (NBlock (ab_off b), NBlock f) (g_edges g)) by (apply Hedges; cbn; auto).
        split; [assumption|]. eapply Kept; [eassumption| |].
        * rewrite Heq by reflexivity. cbn [snd]. rewrite Ef. unfold shallow_block. rewrite Ex. cbn. reflexivity.
        * apply find_block_In in Ef as [_ Eo]. cbn. rewrite Eo. apply Z.eqb_refl.
      + assert (In (NBlock (ab_off b), NTerm) (g_edges g)) by (apply Hedges; cbn; auto).
        split; [assumption|]. eapply Kept; [eassumption| |].
        { rewrite Heq by reflexivity. cbn [snd]. unfold shallow_terminate. rewrite Ex. reflexivity. }
        { reflexivity. }
    - (* Unconditional *)
      cbn [exit_to_z3] in Hz.
      destruct (tr_sexpr_from 0 u) as [[zt n]|er|p] eqn:Et; cbn [bind fst] in Hz; try discriminate.
      inversion Hz; subst z. cbn [ztransfer successor]. unfold jump_target.
      set (v := bv_eval M zt).
      destruct (in_list v (jt_offsets sorted)) eqn:Hin; cbn [node_of].
      + destruct (Hjts v Hin) as (to & Hto & Eo & Hj).
        assert (In (NBlock (ab_off b), NBlock v) (g_edges g)).
        { apply Hedges. cbn [app]. right. apply in_map_iff. exists v. split; [reflexivity|].
          apply filter_In. split; [exact Hj|reflexivity]. }
        split; [assumption|]. eapply Kept; [eassumption| |].
        * rewrite Heq by reflexivity. cbn [snd]. rewrite <- Eo, (find_block_unique _ _ Nd Hto).
          unfold shallow_block. rewrite Ex. cbn [exit_to_z3]. rewrite Et. cbn [bind fst]. reflexivity.
        * apply Sat with (M := M). intros f0 [<-|[]]. cbn [form_eval cmp_sem].
          rewrite offset_const_eval by (apply Hoff; exact Hto). fold v. rewrite Eo. apply Z.eqb_refl.
      + assert (In (NBlock (ab_off b), NBad) (g_edges g)) by (apply Hedges; cbn; auto).
        split; [assumption|]. eapply Kept; [eassumption| |].
        * rewrite Heq by reflexivity. cbn [snd]. unfold shallow_bad_jump. rewrite Ex. cbn [exit_to_z3].
          rewrite Et. cbn [bind fst]. reflexivity.
        * apply Sat with (M := M). intros f0 Hf0. eapply Hnot; [exact Hin|reflexivity|exact Hf0].
    - (* Branch *)
      cbn [exit_to_z3] in Hz.
      destruct (tr_sexpr_from 0 t) as [[zt n]|er|p] eqn:Et; cbn [bind fst snd] in Hz; try discriminate.
      destruct (tr_sexpr_from n c) as [[zc n']|er|p] eqn:Ec; cbn [bind fst snd] in Hz; try discriminate.
      inversion Hz; subst z.
      assert (Hzz : exit_to_z3 (ABranch c t f) = Ok (ZBranch zc zt f)).
      { cbn [exit_to_z3]. rewrite Et. cbn [bind fst snd]. rewrite Ec. reflexivity. }
      pose proof (Hft b c t f Hb Ex) as Hf.
      cbn [ztransfer successor]. set (vc := bv_eval M zc). set (vt := bv_eval M zt).
      destruct (Z.eqb_spec vc 0) as [Hc0|Hc0].
      + (* not taken *)
        unfold fall_target. rewrite find_block_in_list.
        destruct (find_block sorted f) as [to|] eqn:Ef; cbn [node_of].
        * assert (In (NBlock (ab_off b), NBlock f) (g_edges g)) by (apply Hedges; apply in_or_app; left; cbn; auto).
          split; [assumption|]. eapply Kept; [eassumption| |].
          -- rewrite Heq by reflexivity. cbn [snd]. rewrite Ef. unfold shallow_block. rewrite Ex, Hzz. cbn [bind]. reflexivity.
          -- apply Sat with (M := M). intros f0 [<-|[]].
             apply find_block_In in Ef as [Hto Eo].
             cbn [form_eval cmp_sem bv_eval]. fold vc. rewrite zero256_eval, Hc0. cbn [Z.eqb].
             rewrite offset_const_eval by lia. rewrite offset_const_eval by (apply Hoff; exact Hto).
             rewrite Eo. apply Z.eqb_refl.
        * assert (In (NBlock (ab_off b), NTerm) (g_edges g)) by (apply Hedges; apply in_or_app; left; cbn; auto).
          split; [assumption|]. eapply Kept; [eassumption| |].
          -- rewrite Heq by reflexivity. cbn [snd]. unfold shallow_terminate. rewrite Ex, Hzz. cbn [bind]. reflexivity.
          -- apply Sat with (M := M). intros f0 [<-|[]]. cbn [form_eval cmp_sem]. rewrite zero256_eval. fold vc.
             rewrite Hc0. reflexivity.
      + (* taken *)
        unfold jump_target. destruct (in_list vt (jt_offsets sorted)) eqn:Hin; cbn [node_of].
        * destruct (Hjts vt Hin) as (to & Hto & Eo & Hj).
          assert (Hedge : In (NBlock (ab_off b), NBlock vt) (g_edges g)).
          { apply Hedges. destruct (find_block sorted f) as [tf|] eqn:Ef.
            - destruct (Z.eq_dec vt f) as [->|Hne]; [apply in_or_app; left; now left|].
              apply in_or_app. right. cbn [app]. right. apply in_map_iff. exists vt. split; [reflexivity|].
              apply filter_In. split; [exact Hj|]. apply Bool.negb_true_iff. now apply Z.eqb_neq.
            - apply in_or_app. right. cbn [app]. right. apply in_map_iff. exists vt. split; [reflexivity|].
              apply filter_In. split; [exact Hj|reflexivity]. }
          split; [assumption|]. eapply Kept; [exact Hedge| |].
          -- rewrite Heq by reflexivity. cbn [snd]. rewrite <- Eo, (find_block_unique _ _ Nd Hto).
             unfold shallow_block. rewrite Ex, Hzz. cbn [bind]. reflexivity.
          -- apply Sat with (M := M). intros f0 [<-|[]].
             cbn [form_eval cmp_sem bv_eval]. fold vc vt. rewrite zero256_eval.
             destruct (Z.eqb_spec vc 0); [contradiction|].
             rewrite offset_const_eval by (apply Hoff; exact Hto). rewrite Eo. apply Z.eqb_refl.
        * assert (Hbad : In (NBlock (ab_off b), NBad) (g_edges g)).
          { apply Hedges. apply in_or_app. right. cbn; auto. }
          split; [assumption|]. eapply Kept; [exact Hbad| |].
          -- rewrite Heq by reflexivity. cbn [snd]. unfold shallow_bad_jump. rewrite Ex, Hzz. cbn [bind]. reflexivity.
          -- apply Sat with (M := M). intros f0 [<-|Hf0].
             ++ cbn [form_eval cmp_sem]. rewrite zero256_eval. fold vc.
                apply Bool.negb_true_iff. apply Z.eqb_neq. lia.
             ++ eapply Hnot; [exact Hin|reflexivity|exact Hf0].
  Qed.
End Taken.
