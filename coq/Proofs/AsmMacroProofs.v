(* Proofs/AsmMacroProofs.v -- instruction macros: pushing an invocation = pushing its textual
   expansion (C10). *)
From Coq Require Import Lia.
From Verif Require Import Model.Base Model.Ops Model.Expr Model.Asm.
Open Scope Z_scope.

Section Macros.
  Variable macros : mtable.

  (* ---------- the reference: expansion to a macro-free op list ---------- *)
  Fixpoint expand_op (fuel : nat) (ctr : N) (a : aop) {struct fuel} : res (list aop * N) :=
    match a with
    | AMacro name args =>
        match mlookup macros name with
        | Some (MI params body) =>
            if negb (Nat.eqb (length params) (length args)) then err1 "MacroArgumentCount" name
            else
              match fuel with
              | O => err0 "RecursionLimit"
              | S fuel' =>
                  do x <- rename_pass name body ctr [] ;
                  let '(body1, ctr', ren) := x in
                  let body2 := map (rewrite_op ren (combine params args)) body1 in
                  (fix go (l : list aop) (c : N) : res (list aop * N) :=
                     match l with
                     | [] => Ok ([], c)
                     | b :: r =>
                         do y <- expand_op fuel' c b ;
                         do z <- go r (snd y) ;
                         Ok (fst y ++ fst z, snd z)
                     end) body2 ctr'
              end
        | _ => err1 "UndeclaredInstructionMacro" name
        end
    | AMacroDefI _ _ _ | AMacroDefE _ _ _ => Ok ([], ctr)
    | _ => Ok ([a], ctr)
    end.

  Definition is_flat (a : aop) : bool :=
    match a with AMacro _ _ => false | _ => true end.

  Definition set_ctr (c : N) (st : astate) : astate :=
    mkast (a_ready st) (a_declared st) (a_undeclared st) c.

  Definition rmap {A B} (f : A -> B) (r : res A) : res B :=
    match r with Ok a => Ok (f a) | Err e => Err e | Panic s => Panic s end.

  (* pushing a macro-free op list *)
  Fixpoint push_flat (ops : list aop) (st : astate) : res astate :=
    match ops with
    | [] => Ok st
    | a :: r => do st' <- push_op macros 0 st a ; push_flat r st'
    end.

  Lemma push_flat_app : forall a b st,
    push_flat (a ++ b) st = (do s <- push_flat a st ; push_flat b s).
  Proof.
    induction a as [|x a IH]; intros b st; cbn [app push_flat bind]; [reflexivity|].
    destruct (push_op macros 0 st x); cbn [bind]; auto.
  Qed.

  (* a flat op does not look at the fuel nor at the counter *)
  Lemma push_op_flat_fuel : forall f st a, is_flat a = true -> push_op macros f st a = push_op macros 0 st a.
  Proof. intros [|f] st a H; destruct a; try reflexivity; discriminate. Qed.

  Lemma push_item_ctr : forall c st it operand,
    push_item macros (set_ctr c st) it operand = rmap (set_ctr c) (push_item macros st it operand).
  Proof.
    intros c st it operand. unfold push_item. destruct operand as [e|]; cbn [set_ctr a_ready a_declared a_undeclared a_ctr rmap]; [|reflexivity].
    destruct (elabels _ _ e); cbn [rmap]; try reflexivity.
    destruct (early_check macros it) as [[]|er|s]; cbn [bind rmap]; reflexivity.
  Qed.

  Lemma push_op_flat_ctr : forall c st a, is_flat a = true ->
    push_op macros 0 (set_ctr c st) a = rmap (set_ctr c) (push_op macros 0 st a).
  Proof.
    intros c st a H. destruct a as [code imm|l|e|n ps b|n ps b|n args]; cbn [push_op]; try discriminate.
    - apply push_item_ctr.
    - cbn [set_ctr a_declared]. destruct (mem l (a_declared st)); reflexivity.
    - apply push_item_ctr.
    - reflexivity.
    - reflexivity.
  Qed.

  Definition all_flat (ops : list aop) : Prop := Forall (fun a => is_flat a = true) ops.

  Lemma push_flat_ctr : forall ops c st, all_flat ops ->
    push_flat ops (set_ctr c st) = rmap (set_ctr c) (push_flat ops st).
  Proof.
    induction ops as [|a r IH]; intros c st H; cbn [push_flat]; [reflexivity|].
    inversion H as [|? ? Ha Hr]; subst. rewrite push_op_flat_ctr by exact Ha.
    destruct (push_op macros 0 st a); cbn [rmap bind]; auto.
  Qed.

  Lemma set_ctr_same : forall st, set_ctr (a_ctr st) st = st.
  Proof. intros []; reflexivity. Qed.

  Lemma set_ctr_twice : forall c c' st, set_ctr c (set_ctr c' st) = set_ctr c st.
  Proof. reflexivity. Qed.

  Lemma rmap_rmap : forall c c' (r : res astate), rmap (set_ctr c) (rmap (set_ctr c') r) = rmap (set_ctr c) r.
  Proof. intros c c' [s|e|p]; reflexivity. Qed.

  (* ---------- the expansion is macro-free, and pushing the invocation equals pushing it ---------- *)
  Lemma bind_ok_r : forall (r : res astate), (do s <- r ; Ok s) = r.
  Proof. intros [s|e|p]; reflexivity. Qed.

  (* flat ops: the expansion is the op itself (definitions contribute nothing) *)
  Lemma expand_push_flat : forall fuel st a ops ctr',
    is_flat a = true ->
    expand_op fuel (a_ctr st) a = Ok (ops, ctr') ->
    all_flat ops /\ push_op macros fuel st a = rmap (set_ctr ctr') (push_flat ops st).
  Proof.
    intros fuel st a ops ctr' Hf H.
    rewrite push_op_flat_fuel by exact Hf.
    assert (Hc : forall r : res astate, rmap (set_ctr (a_ctr st)) (push_op macros 0 st a) = push_op macros 0 st a).
    { intros _. rewrite <- push_op_flat_ctr by exact Hf. now rewrite set_ctr_same. }
    destruct a as [code imm|l|e|n ps b|n ps b|n args]; try discriminate;
      destruct fuel; cbn [expand_op] in H; inversion H; subst;
      (split; [repeat constructor|]); cbn [push_flat]; rewrite ?bind_ok_r; try (symmetry; apply Hc; exact (Ok st));
      cbn [push_op rmap]; now rewrite set_ctr_same.
  Qed.

  Theorem expand_push : forall fuel st a ops ctr',
    expand_op fuel (a_ctr st) a = Ok (ops, ctr') ->
    all_flat ops /\
    push_op macros fuel st a = rmap (set_ctr ctr') (push_flat ops st).
  Proof.
    induction fuel as [|f IH]; intros st a ops ctr' H.
    - destruct (is_flat a) eqn:Ef; [now apply expand_push_flat|].
      destruct a as [code imm|l|e|n ps b|n ps b|n args]; try discriminate.
      cbn [expand_op] in H.
      destruct (mlookup macros n) as [[ps body|d]|]; try discriminate.
      destruct (negb _); discriminate.
    - destruct (is_flat a) eqn:Ef; [now apply expand_push_flat|].
      destruct a as [code imm|l|e|n ps b|n ps b|n args]; try discriminate.
      cbn [expand_op] in H.
      cbn [push_op].
      destruct (mlookup macros n) as [[ps body|d]|]; try discriminate.
      destruct (negb (Nat.eqb (length ps) (length args))); [discriminate|].
      destruct (rename_pass n body (a_ctr st) []) as [[[body1 c1] ren]|er|s]; cbn [bind] in *; try discriminate.
      set (body2 := map (rewrite_op ren (combine ps args)) body1) in *.
      change (mkast (a_ready st) (a_declared st) (a_undeclared st) c1) with (set_ctr c1 st).
      clearbody body2. clear body1 body ren.
      (* generalise over the state reached so far: it differs from a flat push only by the counter *)
      assert (G : forall l c s0 ops1 cfin,
                 (fix go (l : list aop) (c : N) : res (list aop * N) :=
                    match l with
                    | [] => Ok ([], c)
                    | b :: r => do y <- expand_op f c b ; do z <- go r (snd y) ; Ok (fst y ++ fst z, snd z)
                    end) l c = Ok (ops1, cfin) ->
                 all_flat ops1 /\
                 (fix go (l : list aop) (s : astate) : res astate :=
                    match l with
                    | [] => Ok s
                    | b :: r => do s' <- push_op macros f s b ; go r s'
                    end) l (set_ctr c s0) = rmap (set_ctr cfin) (push_flat ops1 s0)).
      { induction l as [|b r IHl]; intros c s0 ops1 cfin Hgo.
        - inversion Hgo; subst. split; [constructor|]. reflexivity.
        - destruct (expand_op f c b) as [[opsb cb]|er|s] eqn:Eb; cbn [bind] in Hgo; try discriminate.
          cbn [fst snd] in Hgo.
          match type of Hgo with bind ?g _ = _ => destruct g as [[opsr cr]|er|s] eqn:Er end; cbn [bind fst snd] in Hgo; try discriminate.
          inversion Hgo; subst.
          destruct (IH (set_ctr c s0) b opsb cb Eb) as [Fb Pb].
          destruct (IHl cb s0 opsr cfin Er) as [Fr _].
          split; [apply Forall_app; split; assumption|].
          rewrite Pb. rewrite push_flat_ctr by exact Fb. rewrite rmap_rmap.
          rewrite push_flat_app.
          destruct (push_flat opsb s0) as [s1|er|p]; cbn [rmap bind]; try reflexivity.
          exact (proj2 (IHl cb s1 opsr cfin Er)). }
      destruct (G body2 c1 st ops ctr' H) as [Fo Po]. split; [exact Fo|exact Po].
  Qed.
End Macros.

(* ---------- hygiene of the rewriting of one operand ---------- *)
From Verif Require Import Proofs.ExprEvalProofs.

Definition rename1 (old new x : string) : string := if String.eqb x old then new else x.

(* replace_label reaches every occurrence: bare, parenthesised, compound, invocation arguments *)
Lemma replace_label_everywhere : forall old new e,
  tree_labels (replace_label old new e) = map (rename1 old new) (tree_labels e).
Proof.
  intros old new e.
  induction e as [a IHa|n args IHargs|z|l|x|a b IHa IHb|a b IHa IHb|a b IHa IHb|a b IHa IHb] using expr_ind';
    cbn [replace_label tree_labels map]; try reflexivity;
    try (rewrite map_app, IHa, IHb; reflexivity); try exact IHa.
  - induction args as [|a az IH]; cbn [map concat]; [reflexivity|].
    inversion IHargs as [|? ? Ha Haz]; subst. rewrite map_app, Ha, (IH Haz). reflexivity.
  - unfold rename1. destruct (String.eqb l old); reflexivity.
Qed.

(* a parameter is replaced by the call-site argument VERBATIM: the argument is inserted after
   the renaming of local labels, so its labels keep the meaning they have at the call site *)
Lemma argument_not_renamed : forall ren params p arg,
  lookup_last params p = Some arg -> rewrite_expr ren params (EVar p) = arg.
Proof.
  intros ren params p arg H. unfold rewrite_expr.
  assert (E : fold_left (fun e q => replace_label (fst q) (snd q) e) ren (EVar p) = EVar p).
  { induction ren as [|q r IH]; cbn [fold_left replace_label]; auto. }
  rewrite E. cbn [fill_variables]. now rewrite H.
Qed.
