(* Proofs/PipelineProofs.v -- the analysis pipeline (Model/Pipeline.v) never panics: the
   disassembler's items are well formed, the separator's blocks have the shape the annotator
   needs, the annotated blocks have distinct offsets and exits that translate, so that
   ControlFlowGraph::new and refine_shallow run to completion. *)
From Coq Require Import Lia ZifyBool ZifyNat ZifyN Permutation.
From Verif Require Import Model.Base Model.Ops Model.Disasm Model.Blocks Model.Sym Model.SymTree
  Model.Annot Spec.SmtBv Model.Z3Tr Model.Cfg Model.Pipeline
  Proofs.DisasmProofs Proofs.BlocksProofs Proofs.SymProofs Proofs.Z3TrProofs Proofs.AnnotProofs
  Proofs.AnnotTotalProofs Proofs.CfgProofs.
Open Scope N_scope.

(* ---------- the disassembler's items ---------- *)
Definition items_of (code : list N) : list item := fst (decode_all code).

Lemma items_facts : forall code,
  exists rest, (flatten (items_of code) ++ rest = code)%list /\
    Forall wf_item (items_of code) /\ offsets_from 0 (items_of code).
Proof.
  intros code. unfold items_of, decode_all.
  destruct (decode_all_fuel_spec (length code) 0 code (le_n _)) as (A & B & C & _).
  eexists. split; [exact A|]. split; assumption.
Qed.

Definition bytes_ok (it : item) : Prop := i_code it < 256 /\ Forall (fun b => b < 256) (i_imm it).

Lemma flatten_bytes : forall its, Forall (fun b => b < 256) (flatten its) -> Forall bytes_ok its.
Proof.
  induction its as [|it r IH]; intros H; [constructor|].
  rewrite flatten_cons in H. apply Forall_app in H as [H1 H2].
  constructor; [|now apply IH]. unfold encode_item in H1. inversion H1; subst. split; assumption.
Qed.

Lemma items_bytes : forall code, Forall (fun b => b < 256) code -> Forall bytes_ok (items_of code).
Proof.
  intros code H. destruct (items_facts code) as (rest & A & _). apply flatten_bytes.
  rewrite <- A in H. now apply Forall_app in H as [H _].
Qed.

(* ---------- the separator's blocks ---------- *)
Definition bsf := block_size_flatten cancun_jt cancun_jmp cancun_jt_not_jmp.
Lemma blocks_facts : forall code,
  let bl := blocks_of code in
  all_ops bl = items_of code /\ Forall (block_ok cancun_jt cancun_jmp) bl /\ block_offsets_from 0 bl.
Proof.
  intros code bl.
  destruct (collect_spec cancun_jt cancun_jmp cancun_jt_not_jmp [SPushAll (items_of code)]) as (A & B & _).
  assert (Ei : sinput [SPushAll (items_of code)] = items_of code).
  { unfold sinput. cbn [map concat]. apply app_nil_r. }
  rewrite Ei in A.
  assert (Ebl : blocks_of code = scollect (srun cancun_jt cancun_jmp [SPushAll (items_of code)])) by reflexivity.
  rewrite <- Ebl in A, B. split; [exact A|]. split; [exact B|].
  apply (block_offsets cancun_jt cancun_jmp cancun_jt_not_jmp).
  - unfold bl. rewrite A. destruct (items_facts code) as (_ & _ & _ & C). exact C.
  - eapply Forall_impl; [|exact B]. intros b Hb. exact (proj1 Hb).
Qed.

Lemma all_ops_in : forall bl b it, In b bl -> In it (b_ops b) -> In it (all_ops bl).
Proof. intros bl b it Hb Hi. unfold all_ops. apply in_concat. exists (b_ops b). split; [now apply in_map|exact Hi]. Qed.

Definition total_size (bl : list block) : N := sumN (map block_size bl).

Lemma total_size_flatten : forall bl, total_size bl = N.of_nat (length (flatten (all_ops bl))).
Proof.
  induction bl as [|b r IH]; [reflexivity|].
  unfold total_size, all_ops in *. cbn [map concat sumN fold_right].
  fold (sumN (map block_size r)). rewrite IH, flatten_app, app_length, bsf. lia.
Qed.

Lemma block_end_bound : forall bl off b, block_offsets_from off bl -> In b bl ->
  off <= b_off b /\ b_off b + block_size b <= off + total_size bl.
Proof.
  induction bl as [|x r IH]; intros off b H Hin; [contradiction|].
  cbn [block_offsets_from] in H. destruct H as [Hx Hr].
  unfold total_size. cbn [map sumN fold_right]. fold (sumN (map block_size r)). fold (total_size r).
  destruct Hin as [<-|Hin]; [lia|].
  destruct (IH _ _ Hr Hin). lia.
Qed.

Lemma block_offsets_nodup : forall bl off, block_offsets_from off bl ->
  Forall (fun b => 0 < block_size b) bl -> NoDup (map b_off bl).
Proof.
  induction bl as [|x r IH]; intros off H Hp; [constructor|].
  cbn [block_offsets_from] in H. destruct H as [Hx Hr]. inversion Hp as [|? ? Px Pr]; subst.
  cbn [map]. constructor; [|eapply IH; eauto].
  intros Hin. apply in_map_iff in Hin as (b & E & Hb).
  destruct (block_end_bound _ _ _ Hr Hb). lia.
Qed.

Lemma block_size_pos : forall b, b_ops b <> [] -> 0 < block_size b.
Proof.
  intros b H. rewrite bsf. destruct (b_ops b) as [|x l]; [contradiction|].
  rewrite flatten_cons. unfold encode_item. cbn [length app]. lia.
Qed.

Lemma head_nonempty : forall b, head_off b -> b_ops b <> [].
Proof. intros b H E. unfold head_off in H. now rewrite E in H. Qed.

Definition short_blocks (code : list N) : Prop :=
  Forall (fun b => (length (b_ops b) <= 9359)%nat) (blocks_of code).

Definition block_basic (b : block) : Prop :=
  b_ops b <> [] /\ Forall wf_item (b_ops b) /\ Forall bytes_ok (b_ops b) /\
  jmp_only_last cancun_jmp (b_ops b) /\
  b_off b + block_size (mkblock (b_off b) (b_ops b)) <= 65536.

Lemma blocks_basic : forall code,
  Forall (fun b => b < 256) code -> N.of_nat (length code) <= 65536 ->
  Forall block_basic (blocks_of code).
Proof.
  intros code Hb Hl. destruct (blocks_facts code) as (A & B & C).
  destruct (items_facts code) as (rest & F & Wf & _). pose proof (items_bytes code Hb) as By.
  apply Forall_forall. intros b Hin.
  rewrite Forall_forall in B. destruct (B b Hin) as (H1 & _ & H3).
  assert (Sub : forall it, In it (b_ops b) -> In it (items_of code)).
  { intros it Hi. rewrite <- A. eapply all_ops_in; eauto. }
  unfold block_basic. split; [now apply head_nonempty|]. split.
  { apply Forall_forall. intros it Hi. rewrite Forall_forall in Wf. auto. } split.
  { apply Forall_forall. intros it Hi. rewrite Forall_forall in By. exact (By it (Sub it Hi)). } split.
  { exact H3. }
  destruct (block_end_bound _ _ _ C Hin) as [_ E]. rewrite total_size_flatten, A in E.
  assert (L : (length (flatten (items_of code)) <= length code)%nat).
  { rewrite <- F at 2. rewrite app_length. lia. }
  replace (mkblock (b_off b) (b_ops b)) with b by (destruct b; reflexivity). lia.
Qed.

Lemma blocks_shape : forall code,
  Forall (fun b => b < 256) code -> N.of_nat (length code) <= 65536 -> short_blocks code ->
  Forall (fun b => block_shape (b_off b) (b_ops b)) (blocks_of code).
Proof.
  intros code Hb Hl Hs. pose proof (blocks_basic code Hb Hl) as B.
  unfold short_blocks in Hs. rewrite Forall_forall in *. intros b Hin.
  destruct (B b Hin) as (H1 & H2 & H3 & H4 & H5). unfold block_shape.
  repeat split; auto.
  - eapply Forall_impl; [|exact H3]. intros it Hi. exact (proj1 Hi).
Qed.

(* ---------- annotated blocks: distinct offsets, translatable exits ---------- *)
Lemma tr_encoded : forall e n, (exists t, e = encode_tree t /\ arity_tree t = true) ->
  exists r, tr_sexpr_from n e = Ok r.
Proof. intros e n (t & -> & Ha). rewrite (tr_walk t n Ha). eauto. Qed.

Lemma facts_translate : forall off ops a, block_facts off ops a -> exit_translates (ablock_of a).
Proof.
  intros off ops a (_ & _ & Hx & _). unfold exit_translates, ablock_of. cbn [ab_exit].
  destruct (an_exit a) as [|f|d|c t f]; cbn [aexit_of exit_to_z3 exit_exprs] in *; eauto.
  - inversion Hx as [|? ? Hd _]; subst. destruct (tr_encoded _ 0%nat Hd) as [r E]. rewrite E. cbn [bind]. eauto.
  - inversion Hx as [|? ? Hc Ht]; subst. inversion Ht as [|? ? Ht' _]; subst.
    destruct (tr_encoded _ 0%nat Ht') as [r E]. rewrite E. cbn [bind].
    destruct (tr_encoded _ (snd r) Hc) as [r2 E2]. rewrite E2. cbn [bind]. eauto.
Qed.

Lemma forall2_offsets : forall bl anns,
  Forall2 (fun b a => block_facts (b_off b) (b_ops b) a) bl anns ->
  offsets (map ablock_of anns) = map Z.of_N (map b_off bl) /\ Forall exit_translates (map ablock_of anns).
Proof.
  induction 1 as [|b a bl anns H H2 IH]; [split; [reflexivity|constructor]|].
  destruct IH as [IH1 IH2]. unfold offsets in *. cbn [map]. split.
  - f_equal; [|exact IH1]. unfold ablock_of. cbn [ab_off]. now rewrite (proj1 H).
  - constructor; [eapply facts_translate; exact H|exact IH2].
Qed.

Lemma NoDup_map_inj : forall (A B : Type) (f : A -> B) l, (forall x y, f x = f y -> x = y) ->
  NoDup l -> NoDup (map f l).
Proof.
  intros A B f l Hf. induction 1 as [|x l Hx Hn IH]; [constructor|]. cbn [map]. constructor; [|exact IH].
  intros Hin. apply in_map_iff in Hin as (y & E & Hy). apply Hf in E. now subst.
Qed.

(* ---------- the pipeline ---------- *)
Theorem pipeline_never_panics : forall solver code,
  Forall (fun b => b < 256) code -> N.of_nat (length code) <= 65536 -> short_blocks code ->
  exists g, pipeline solver code = Ok g.
Proof.
  intros solver code Hb Hl Hs. unfold pipeline.
  destruct (annotate_all_never_panics _ (blocks_shape code Hb Hl Hs)) as (anns & Ea & F2).
  rewrite Ea. cbn [bind]. destruct (forall2_offsets _ _ F2) as [Eo Tr].
  destruct (blocks_facts code) as (_ & B & C).
  assert (Nd : NoDup (offsets (map ablock_of anns))).
  { rewrite Eo. apply NoDup_map_inj; [intros x y; lia|].
    eapply block_offsets_nodup; [exact C|].
    eapply Forall_impl; [|exact B]. intros b (H1 & _). apply block_size_pos. now apply head_nonempty. }
  destruct (cfg_new_total _ Nd) as [g Eg]. rewrite Eg. cbn [bind].
  exact (refine_total solver _ g Eg Tr).
Qed.

(* 9359 instructions need at least 9359 bytes *)
Lemma length_flatten_ge : forall its, (length its <= length (flatten its))%nat.
Proof.
  induction its as [|x r IH]; [apply le_n|]. rewrite flatten_cons, app_length. unfold encode_item. cbn [length]. lia.
Qed.

Corollary small_code_short_blocks : forall code, (length code <= 9359)%nat -> short_blocks code.
Proof.
  intros code Hl. destruct (blocks_facts code) as (A & _ & _). destruct (items_facts code) as (rest & F & _).
  apply Forall_forall. intros b Hin.
  assert (L1 : (length (b_ops b) <= length (all_ops (blocks_of code)))%nat).
  { unfold all_ops. clear -Hin. induction (blocks_of code) as [|x r IH]; [contradiction|].
    cbn [map concat]. rewrite app_length. destruct Hin as [<-|Hin]; [lia|]. specialize (IH Hin). lia. }
  rewrite A in L1. pose proof (length_flatten_ge (items_of code)) as L2.
  assert (L3 : (length (flatten (items_of code)) <= length code)%nat).
  { rewrite <- F at 2. rewrite app_length. lia. }
  lia.
Qed.
