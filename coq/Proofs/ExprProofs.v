(* Proofs/ExprProofs.v -- operand expressions are exact integer arithmetic (C08). *)
From Coq Require Import Lia ZifyBool ZifyNat ZifyN.
From Verif Require Import Model.Base Model.Expr Model.ExprSimple Model.Parse Spec.Keccak Spec.ExprSpec.

(* ====================== 1. literals ====================== *)

Lemma horner_positional : forall r ds acc,
  fold_left (fun a d => (a * r + d)%N) ds acc = (acc * r ^ N.of_nat (length ds) + positional r ds)%N.
Proof.
  intros r ds. induction ds as [|d ds IH]; intros acc.
  - cbn [fold_left length positional]. change (N.of_nat 0) with 0%N. rewrite N.pow_0_r. lia.
  - cbn [fold_left length positional]. rewrite IH, Nat2N.inj_succ, N.pow_succ_r'. ring.
Qed.

Lemma from_radix_be_positional : forall r ds,
  Forall (fun d => (d < r)%N) ds -> from_radix_be r ds = Some (positional r ds).
Proof.
  intros r ds H. unfold from_radix_be.
  assert (E : forallb (fun d => (d <? r)%N) ds = true).
  { apply forallb_forall. intros d Hd. rewrite Forall_forall in H. apply N.ltb_lt, H, Hd. }
  rewrite E, horner_positional. f_equal; lia.
Qed.

Lemma lt16_cases : forall d, (d < 16)%N ->
  In d [0;1;2;3;4;5;6;7;8;9;10;11;12;13;14;15]%N.
Proof. intros d H. cbn [In]. lia. Qed.

(* the character -> digit step, both cases of the letters *)
Lemma to_digit_char : forall r d c, (d < r)%N -> (r <= 16)%N -> digit_char d c -> to_digit r c = Some d.
Proof.
  intros r d c Hd Hr Hc. assert (H16 : (d < 16)%N) by lia.
  apply lt16_cases in H16. cbn [In] in H16.
  unfold digit_char in Hc.
  repeat (destruct H16 as [E|H16]; [subst d; destruct Hc as [Hc|Hc]; subst c;
    cbv -[N.ltb];
    match goal with |- context [(?a <? r)%N] => destruct (N.ltb_spec a r) as [_|Hge]; [reflexivity|lia] end |]).
  contradiction.
Qed.

Lemma spells_digits_lt : forall r cs ds, spells r cs ds -> Forall (fun d => (d < r)%N) ds.
Proof. intros r cs ds H. induction H as [|c d cs ds [Hd _] _ IH]; constructor; assumption. Qed.

Lemma spells_length : forall r cs ds, spells r cs ds -> length cs = length ds.
Proof. intros r cs ds H. induction H; cbn [length]; congruence. Qed.

Lemma digits_of_spells : forall r cs ds, (r <= 16)%N -> spells r cs ds ->
  digits_of r (string_of_list_ascii cs) = Ok ds.
Proof.
  intros r cs ds Hr H. induction H as [|c d cs ds [Hd Hc] _ IH].
  - reflexivity.
  - cbn [string_of_list_ascii digits_of]. rewrite (to_digit_char r d c Hd Hr Hc), IH. reflexivity.
Qed.

(* (1) the conversion of `parse_radix_str`: a digit string denotes its positional value *)
Lemma digits_value_gen : forall r cs ds, (r <= 16)%N -> spells r cs ds ->
  parse_radix_str (string_of_list_ascii cs) r = Ok (Z.of_N (positional r ds)).
Proof.
  intros r cs ds Hr H. unfold parse_radix_str.
  rewrite (digits_of_spells r cs ds Hr H). cbn [bind].
  rewrite (from_radix_be_positional r ds (spells_digits_lt _ _ _ H)). reflexivity.
Qed.

Lemma digits_value : forall r, In r [2; 8; 10; 16]%N -> forall cs ds, spells r cs ds ->
  parse_radix_str (string_of_list_ascii cs) r = Ok (Z.of_N (positional r ds)).
Proof.
  intros r Hr cs ds H. apply digits_value_gen; [|exact H].
  cbn [In] in Hr. lia.
Qed.

(* ---------- lexing the whole literal text ---------- *)

Lemma span_all : forall p cs, Forall (fun c => p c = true) cs ->
  span p (string_of_list_ascii cs) = (string_of_list_ascii cs, EmptyString).
Proof.
  intros p cs H. induction H as [|c cs Hc _ IH]; [reflexivity|].
  cbn [string_of_list_ascii span]. rewrite Hc, IH. reflexivity.
Qed.

Lemma string_length_of_list : forall cs, String.length (string_of_list_ascii cs) = length cs.
Proof. induction cs as [|c cs IH]; [reflexivity|]. cbn [string_of_list_ascii String.length length]. congruence. Qed.

(* the characters of the digits below r are accepted by the character class of the rule *)
Lemma digit_char_class : forall r p d c,
  (forallb (fun d => p (hex_lower_digit d) && p (hex_upper_digit d)) (N_range 0 (N.to_nat r)) = true) ->
  (r <= 16)%N -> (d < r)%N -> digit_char d c -> p c = true.
Proof.
  intros r p d c Hall Hr Hd Hc. rewrite forallb_forall in Hall.
  assert (Hin : In d (N_range 0 (N.to_nat r))).
  { clear - Hd. assert (G : forall n s, (s <= d)%N -> (d < s + N.of_nat n)%N -> In d (N_range s n)).
    { induction n as [|n IH]; intros s H1 H2; [lia|]. cbn [N_range In].
      destruct (N.eq_dec s d) as [->|Hne]; [left; reflexivity|right]. apply IH; lia. }
    apply G; lia. }
  specialize (Hall d Hin). apply andb_prop in Hall. destruct Hall as [Hl Hu].
  destruct Hc as [->| ->]; assumption.
Qed.

Definition class_of (k : numkind) : ascii -> bool :=
  match k with KBin => is_bin_digit | KOct => is_oct_digit | KHex => is_hex_digit | KDec => is_dec_digit end.

Lemma spells_class : forall k cs ds, spells (radix_of k) cs ds -> Forall (fun c => class_of k c = true) cs.
Proof.
  intros k cs ds H. induction H as [|c d cs ds [Hd Hc] _ IH]; constructor; [|exact IH].
  destruct k; cbn [class_of radix_of] in *.
  - apply (digit_char_class 2 is_bin_digit d c); [vm_compute; reflexivity|lia|exact Hd|exact Hc].
  - apply (digit_char_class 8 is_oct_digit d c); [vm_compute; reflexivity|lia|exact Hd|exact Hc].
  - apply (digit_char_class 16 is_hex_digit d c); [vm_compute; reflexivity|lia|exact Hd|exact Hc].
  - apply (digit_char_class 10 is_dec_digit d c); [vm_compute; reflexivity|lia|exact Hd|exact Hc].
Qed.

Lemma radix_le_16 : forall k, (radix_of k <= 16)%N.
Proof. destruct k; cbn [radix_of]; lia. Qed.

Lemma lex_prefixed_hit : forall m p n cs,
  Forall (fun c => p c = true) cs -> (n <= length cs)%nat ->
  lex_prefixed m p n (String "0" (String m (string_of_list_ascii cs))) =
  Some (string_of_list_ascii cs, EmptyString).
Proof.
  intros m p n cs Hall Hn. unfold lex_prefixed. rewrite Ascii.eqb_refl, (span_all p cs Hall).
  rewrite string_length_of_list. destruct (Nat.leb_spec n (length cs)); [reflexivity|lia].
Qed.

(* a decimal digit is none of the markers b, o, x *)
Lemma lex_prefixed_decimal : forall m p n cs,
  is_dec_digit m = false -> Forall (fun c => is_dec_digit c = true) cs ->
  lex_prefixed m p n (string_of_list_ascii cs) = None.
Proof.
  intros m p n cs Hm Hall. unfold lex_prefixed.
  destruct cs as [|c1 [|c2 cs]]; cbn [string_of_list_ascii]; try reflexivity.
  - destruct c1 as [[] [] [] [] [] [] [] []]; reflexivity.
  - assert (E : Ascii.eqb c2 m = false).
    { destruct (Ascii.eqb_spec c2 m) as [->|]; [|reflexivity].
      inversion Hall as [|? ? _ H2]. inversion H2 as [|? ? H3 _]. congruence. }
    rewrite E. destruct c1 as [[] [] [] [] [] [] [] []]; reflexivity.
Qed.

Theorem lit_value_spec : forall k cs ds,
  spells (radix_of k) cs ds -> (min_digits k <= length cs)%nat ->
  lit_value (prefix_of k +++ string_of_list_ascii cs) = Ok (Z.of_N (positional (radix_of k) ds)).
Proof.
  intros k cs ds H Hlen. pose proof (spells_class k cs ds H) as Hc.
  pose proof (digits_value_gen (radix_of k) cs ds (radix_le_16 k) H) as Hv.
  unfold lit_value, lex_number.
  destruct k; cbn [prefix_of String.append min_digits class_of radix_of] in *.
  - rewrite (lex_prefixed_hit "b" is_bin_digit 1 cs Hc Hlen). exact Hv.
  - change (lex_prefixed "b" is_bin_digit 1 (String "0" (String "o" (string_of_list_ascii cs)))) with (@None (string * string)).
    rewrite (lex_prefixed_hit "o" is_oct_digit 1 cs Hc Hlen). exact Hv.
  - change (lex_prefixed "b" is_bin_digit 1 (String "0" (String "x" (string_of_list_ascii cs)))) with (@None (string * string)).
    change (lex_prefixed "o" is_oct_digit 1 (String "0" (String "x" (string_of_list_ascii cs)))) with (@None (string * string)).
    rewrite (lex_prefixed_hit "x" is_hex_digit 2 cs Hc Hlen). exact Hv.
  - rewrite (lex_prefixed_decimal "b" is_bin_digit 1 cs eq_refl Hc).
    rewrite (lex_prefixed_decimal "o" is_oct_digit 1 cs eq_refl Hc).
    rewrite (lex_prefixed_decimal "x" is_hex_digit 2 cs eq_refl Hc).
    rewrite (span_all is_dec_digit cs Hc), string_length_of_list.
    destruct (Nat.leb_spec 1 (length cs)); [exact Hv|lia].
Qed.

(* (2) negative decimal literals *)
Theorem neg_literal : forall cs ds, spells 10 cs ds -> (1 <= length cs)%nat ->
  neg_value (String "-" (string_of_list_ascii cs)) = Ok (- Z.of_N (positional 10 ds))%Z.
Proof.
  intros cs ds H Hlen. pose proof (spells_class KDec cs ds H) as Hc. cbn [class_of] in Hc.
  unfold neg_value. rewrite (span_all is_dec_digit cs Hc).
  destruct cs as [|c cs]; [cbn [length] in Hlen; lia|].
  cbn [string_of_list_ascii]. unfold parse_negative_decimal.
  change (String c (string_of_list_ascii cs)) with (string_of_list_ascii (c :: cs)).
  rewrite (digits_of_spells 10 (c :: cs) ds ltac:(lia) H). cbn [bind].
  rewrite (from_radix_be_positional 10 ds (spells_digits_lt _ _ _ H)). reflexivity.
Qed.

(* ====================== 2. precedence climbing = the textbook reading ====================== *)

(* nested induction principle for tokens *)
Section TokInd.
  Variable P : tok -> Prop.
  Hypothesis HNum : forall z, P (TNum z).
  Hypothesis HLabel : forall l, P (TLabel l).
  Hypothesis HParen : forall ts, Forall P ts -> P (TParen ts).
  Hypothesis HOp : forall o, P (TOp o).
  Fixpoint tok_ind' (t : tok) : P t :=
    match t with
    | TNum z => HNum z
    | TLabel l => HLabel l
    | TParen ts => HParen ts ((fix go (l : list tok) : Forall P l :=
                                 match l with
                                 | [] => Forall_nil P
                                 | x :: r => Forall_cons x (tok_ind' x) (go r)
                                 end) ts)
    | TOp o => HOp o
    end.
End TokInd.

(* unfolding equations of the two loops *)
Lemma climb_rec_S : forall f lhs mp its,
  climb_rec (S f) lhs mp its =
  match its with
  | [] => Ok (lhs, [])
  | IPrim _ :: _ => Ok (lhs, its)
  | IOp o :: rest =>
      if (mp <=? op_prec o)%N then
        match rest with
        | [] => Panic "infix operator must be followed by a primary expression"
        | p :: rest' =>
            do rhs <- primary p ;
            do rr <- climb_inner f rhs (op_prec o) rest' ;
            climb_rec f (mk_binop o lhs (fst rr)) mp (snd rr)
        end
      else Ok (lhs, its)
  end.
Proof. reflexivity. Qed.

Lemma climb_inner_S : forall f rhs prec its,
  climb_inner (S f) rhs prec its =
  match its with
  | IOp o :: _ =>
      if ((prec <? op_prec o)%N || (is_right (op_assoc o) && (op_prec o =? prec)%N))%bool then
        do rr <- climb_rec f rhs (op_prec o) its ;
        climb_inner f (fst rr) prec (snd rr)
      else Ok (rhs, its)
  | _ => Ok (rhs, its)
  end.
Proof. reflexivity. Qed.

(* (op term)* written out as items *)
Fixpoint flat {A} (ps : list (binop * A)) : list (item A) :=
  match ps with
  | [] => []
  | p :: r => IOp (fst p) :: IPrim (snd p) :: flat r
  end.

Lemma flat_app : forall A (a b : list (binop * A)), flat (a ++ b) = flat a ++ flat b.
Proof. intros A a b. induction a as [|p a IH]; [reflexivity|]. cbn [flat app]. rewrite IH. reflexivity. Qed.

Lemma flat_length : forall A (a : list (binop * A)), length (flat a) = (2 * length a)%nat.
Proof. intros A a. induction a as [|p a IH]; [reflexivity|]. cbn [flat length]. lia. Qed.

Lemma pairs_of_flat : forall A (ps : list (binop * A)) l, pairs_of l = Some ps -> l = flat ps.
Proof.
  intros A ps. induction ps as [|p ps IH]; intros l H.
  - destruct l as [|[a|o] [|[a'|o'] r]]; cbn [pairs_of] in H; try discriminate; [reflexivity|].
    destruct (pairs_of r); discriminate.
  - destruct l as [|[a|o] [|[a'|o'] r]]; cbn [pairs_of] in H; try discriminate.
    destruct (pairs_of r) as [ps'|] eqn:E; cbn [option_map] in H; [|discriminate].
    injection H as <- <-. cbn [flat fst snd]. rewrite (IH r E). reflexivity.
Qed.

Lemma pairs_of_flat_id : forall A (ps : list (binop * A)), pairs_of (flat ps) = Some ps.
Proof.
  intros A ps. induction ps as [|[o a] ps IH]; [reflexivity|].
  cbn [flat fst snd pairs_of]. rewrite IH. reflexivity.
Qed.

Definition all_mul {A} (m : list (binop * A)) : Prop := Forall (fun p => is_mul (fst p) = true) m.
Definition group_ok {A} (g : binop * (A * list (binop * A))) : Prop :=
  is_mul (fst g) = false /\ all_mul (snd (snd g)).
Definition ungroup {A} (groups : list (binop * (A * list (binop * A)))) : list (binop * A) :=
  flat_map (fun g => (fst g, fst (snd g)) :: snd (snd g)) groups.

Lemma split_sum_spec : forall A (ps : list (binop * A)),
  ps = fst (split_sum ps) ++ ungroup (snd (split_sum ps)) /\
  all_mul (fst (split_sum ps)) /\ Forall group_ok (snd (split_sum ps)).
Proof.
  intros A ps. induction ps as [|[o a] ps (IH1 & IH2 & IH3)].
  - cbn. repeat split; constructor.
  - cbn [split_sum]. destruct (split_sum ps) as [m groups]. cbn [fst snd] in *.
    destruct (is_mul o) eqn:Eo; cbn [fst snd].
    + repeat split.
      * cbn [app]. f_equal. exact IH1.
      * constructor; [exact Eo|exact IH2].
      * exact IH3.
    + repeat split.
      * cbn [app ungroup flat_map fst snd]. f_equal. exact IH1.
      * constructor.
      * constructor; [split; [exact Eo|exact IH2]|exact IH3].
Qed.

Definition no_mul_head (rest : list (item expr)) : Prop :=
  match rest with IOp o :: _ => is_mul o = false | _ => True end.

Lemma is_mul_prec : forall o, op_prec o = if is_mul o then 2%N else 1%N.
Proof. destruct o; reflexivity. Qed.

(* the inner loop stops at once when nothing binds tighter *)
Lemma climb_inner_stop2 : forall f rhs its, climb_inner (S f) rhs 2 its = Ok (rhs, its).
Proof.
  intros f rhs its. rewrite climb_inner_S. destruct its as [|[a|o] r]; try reflexivity.
  rewrite is_mul_prec. destruct (is_mul o); reflexivity.
Qed.

Lemma climb_inner_stop1 : forall f rhs its, no_mul_head its -> climb_inner (S f) rhs 1 its = Ok (rhs, its).
Proof.
  intros f rhs its H. rewrite climb_inner_S. destruct its as [|[a|o] r]; try reflexivity.
  cbn [no_mul_head] in H. rewrite is_mul_prec, H. reflexivity.
Qed.

(* a chain of * and / at min_prec 2: left fold, stops before the next + or - *)
Lemma climb_rec_product : forall m fuel lhs rest,
  all_mul m -> no_mul_head rest -> (length m < fuel)%nat ->
  climb_rec fuel lhs 2 (flat m ++ rest) = Ok (fold_product mk_binop lhs m, rest).
Proof.
  induction m as [|[o a] m IH]; intros fuel lhs rest Hm Hrest Hfuel.
  - destruct fuel as [|f]; [cbn [length] in Hfuel; lia|]. rewrite climb_rec_S. cbn [flat app].
    destruct rest as [|[a|o] r]; try reflexivity.
    cbn [no_mul_head] in Hrest. rewrite is_mul_prec, Hrest. reflexivity.
  - destruct fuel as [|f]; [lia|]. cbn [length] in Hfuel.
    inversion Hm as [|? ? Ho Hm']; subst. cbn [fst] in Ho.
    rewrite climb_rec_S. cbn [flat app fst snd]. rewrite is_mul_prec, Ho.
    change (2 <=? 2)%N with true. cbn [primary bind].
    destruct f as [|f']; [lia|]. rewrite climb_inner_stop2. cbn [bind fst snd].
    rewrite (IH (S f') (mk_binop o lhs a) rest Hm' Hrest ltac:(lia)). reflexivity.
Qed.

(* the top-level loop (min_prec 0): leading factors, then one product per additive operator *)
Lemma no_mul_head_groups : forall groups rest,
  Forall group_ok groups -> no_mul_head rest -> no_mul_head (flat (ungroup groups) ++ rest).
Proof.
  intros groups rest H Hr. destruct groups as [|g groups]; [exact Hr|].
  inversion H as [|? ? [Hg _] _]; subst. cbn [ungroup flat_map app flat fst snd no_mul_head]. exact Hg.
Qed.

Lemma climb_rec_sum : forall groups fuel lhs,
  Forall group_ok groups -> (length (flat (ungroup groups)) < fuel)%nat ->
  climb_rec fuel lhs 0 (flat (ungroup groups)) = Ok (fold_sum mk_binop lhs groups, []).
Proof.
  induction groups as [|[o [a m]] groups IH]; intros fuel lhs Hg Hfuel.
  - destruct fuel as [|f]; [cbn in Hfuel; lia|]. reflexivity.
  - inversion Hg as [|? ? [Ho Hm] Hg']; subst. cbn [fst snd] in Ho, Hm.
    cbn [ungroup flat_map fst snd] in *. fold (ungroup groups) in *.
    rewrite <- app_comm_cons in *. cbn [flat fst snd] in *. rewrite flat_app in *.
    cbn [length] in Hfuel. rewrite app_length, flat_length in Hfuel.
    destruct fuel as [|f]; [lia|]. rewrite climb_rec_S.
    rewrite is_mul_prec, Ho. change (0 <=? 1)%N with true. cbn [primary bind].
    assert (Hrest : no_mul_head (flat (ungroup groups) ++ [])) by (apply no_mul_head_groups; [exact Hg'|exact I]).
    rewrite app_nil_r in Hrest.
    destruct f as [|f1]; [lia|].
    assert (Hinner : climb_inner (S f1) a 1 (flat m ++ flat (ungroup groups)) =
                     Ok (fold_product mk_binop a m, flat (ungroup groups))).
    { destruct m as [|[o1 a1] m1].
      - cbn [flat app]. apply climb_inner_stop1. exact Hrest.
      - rewrite climb_inner_S. cbn [flat app fst snd].
        inversion Hm as [|? ? Ho1 _]; subst. cbn [fst] in Ho1.
        rewrite is_mul_prec, Ho1. change ((1 <? 2)%N || _)%bool with true. cbv iota.
        change (IOp o1 :: IPrim a1 :: flat m1 ++ flat (ungroup groups))
          with (flat ((o1, a1) :: m1) ++ flat (ungroup groups)).
        cbn [length] in Hfuel.
        rewrite (climb_rec_product ((o1, a1) :: m1) f1 a (flat (ungroup groups)) Hm Hrest ltac:(cbn [length]; lia)).
        cbn [bind fst snd]. destruct f1 as [|f2]; [lia|].
        apply climb_inner_stop1. exact Hrest. }
    rewrite Hinner. cbn [bind fst snd].
    rewrite (IH (S f1) _ Hg' ltac:(lia)).
    cbn [fold_sum fold_left fst snd]. reflexivity.
Qed.

Lemma climb_rec_top : forall m0 groups fuel lhs,
  all_mul m0 -> Forall group_ok groups ->
  (length (flat (m0 ++ ungroup groups)) < fuel)%nat ->
  climb_rec fuel lhs 0 (flat (m0 ++ ungroup groups)) =
  Ok (fold_sum mk_binop (fold_product mk_binop lhs m0) groups, []).
Proof.
  induction m0 as [|[o a] m0 IH]; intros groups fuel lhs Hm Hg Hfuel.
  - cbn [app] in *. apply climb_rec_sum; assumption.
  - inversion Hm as [|? ? Ho Hm']; subst. cbn [fst] in Ho.
    cbn [app flat fst snd length] in *.
    destruct fuel as [|f]; [lia|]. rewrite climb_rec_S.
    rewrite is_mul_prec, Ho. change (0 <=? 2)%N with true. cbn [primary bind].
    destruct f as [|f1]; [lia|].
    rewrite climb_inner_stop2. cbn [bind fst snd].
    rewrite (IH groups (S f1) _ Hm' Hg ltac:(lia)). reflexivity.
Qed.

(* flat item lists: climb builds exactly the two-level tree *)
Lemma climb_two_level : forall its e, two_level mk_binop its = Some e -> climb its = Ok e.
Proof.
  intros its e H. unfold two_level, split_first in H.
  destruct its as [|[t|o] rest]; try discriminate.
  destruct (pairs_of rest) as [ps|] eqn:Eps; cbn [option_map] in H; [|discriminate].
  apply pairs_of_flat in Eps. subst rest.
  destruct (split_sum_spec _ ps) as (Hps & Hm & Hg).
  destruct (split_sum ps) as [m0 groups]. cbn [fst snd] in *. injection H as <-.
  unfold climb. cbn [primary bind].
  rewrite Hps at 2.
  rewrite (climb_rec_top m0 groups (length (IPrim t :: flat ps)) t Hm Hg).
  - reflexivity.
  - cbn [length]. rewrite <- Hps. lia.
Qed.

(* ---------- tokens with nested parentheses ---------- *)

Lemma sequence_map_reference : forall (ts : list tok) its,
  Forall (fun t => forall it, reference_tok t = Some it -> consume t = Ok it) ts ->
  sequence_opt (map reference_tok ts) = Some its -> sequence (map consume ts) = Ok its.
Proof.
  induction ts as [|t ts IH]; intros its HF H.
  - cbn in H. injection H as <-. reflexivity.
  - inversion HF as [|? ? Ht HF']; subst. cbn [map sequence_opt] in H.
    destruct (reference_tok t) as [it|] eqn:Et; [|discriminate].
    destruct (sequence_opt (map reference_tok ts)) as [its'|] eqn:Es; [|discriminate].
    injection H as <-. cbn [map sequence]. rewrite (Ht it eq_refl), (IH its' HF' eq_refl). reflexivity.
Qed.

Lemma consume_reference : forall t it, reference_tok t = Some it -> consume t = Ok it.
Proof.
  induction t as [z|l|ts IH|o] using tok_ind'; intros it H; cbn [reference_tok consume] in *;
    try (injection H as <-; reflexivity).
  destruct (sequence_opt (map reference_tok ts)) as [its|] eqn:Es; [|discriminate].
  rewrite (sequence_map_reference ts its IH Es). cbn [bind].
  destruct (two_level mk_binop its) as [e|] eqn:Ee; cbn [option_map] in H; [|discriminate].
  injection H as <-. rewrite (climb_two_level its e Ee). reflexivity.
Qed.

(* (3) structural form: pest's climb builds the textbook tree *)
Theorem climb_reference : forall ts e, reference_parse ts = Some e -> parse_toks ts = Ok e.
Proof.
  intros ts e H. unfold reference_parse in H. unfold parse_toks.
  destruct (sequence_opt (map reference_tok ts)) as [its|] eqn:Es; [|discriminate].
  rewrite (sequence_map_reference ts its); [|apply Forall_forall; intros t _; apply consume_reference|exact Es].
  cbn [bind]. apply climb_two_level. exact H.
Qed.

(* every token list admitted by the grammar has a textbook reading *)
Definition is_op_item {A} (i : item A) : bool := match i with IOp _ => true | IPrim _ => false end.

Lemma shape_flat : forall A n (its : list (item A)), (length its <= n)%nat ->
  shape_ok (map is_op_item its) = true -> exists t ps, its = IPrim t :: flat ps.
Proof.
  intros A n. induction n as [|n IH]; intros its Hlen H.
  - destruct its; [discriminate|cbn [length] in Hlen; lia].
  - destruct its as [|[t|o] r]; try discriminate.
    destruct r as [|[t'|o'] r']; cbn [map is_op_item shape_ok] in H; try discriminate.
    + exists t, []. reflexivity.
    + cbn [length] in Hlen. destruct (IH r' ltac:(lia) H) as (t1 & ps & ->).
      exists t, ((o', t1) :: ps). reflexivity.
Qed.

Lemma shape_two_level : forall A (combine : binop -> A -> A -> A) (its : list (item A)),
  shape_ok (map is_op_item its) = true -> exists a, two_level combine its = Some a.
Proof.
  intros A combine its H. destruct (shape_flat A (length its) its (le_n _) H) as (t & ps & ->).
  unfold two_level, split_first. rewrite pairs_of_flat_id. cbn [option_map].
  destruct (split_sum ps) as [m0 groups]. eexists. reflexivity.
Qed.

Lemma sequence_map_ok : forall (ts : list tok),
  Forall (fun t => tok_ok t = true -> exists it, reference_tok t = Some it /\ is_op_item it = is_op t) ts ->
  forallb tok_ok ts = true ->
  exists its, sequence_opt (map reference_tok ts) = Some its /\ map is_op_item its = map is_op ts.
Proof.
  induction ts as [|t ts IH]; intros HF H.
  - exists []. split; reflexivity.
  - inversion HF as [|? ? Ht HF']; subst. cbn [forallb] in H. apply andb_prop in H. destruct H as [H1 H2].
    destruct (Ht H1) as (it & Eit & Eop). destruct (IH HF' H2) as (its & Eits & Eops).
    exists (it :: its). cbn [map sequence_opt]. rewrite Eit, Eits, Eop, Eops. split; reflexivity.
Qed.

Lemma reference_tok_ok : forall t, tok_ok t = true ->
  exists it, reference_tok t = Some it /\ is_op_item it = is_op t.
Proof.
  induction t as [z|l|ts IH|o] using tok_ind'; intros H; cbn [reference_tok];
    try (eexists; split; reflexivity).
  cbn [tok_ok] in H. apply andb_prop in H. destruct H as [Hs Hf].
  destruct (sequence_map_ok ts IH Hf) as (its & Eits & Eops). rewrite Eits.
  rewrite <- Eops in Hs. destruct (shape_two_level expr mk_binop its Hs) as (e & Ee).
  rewrite Ee. eexists. split; reflexivity.
Qed.

Theorem grammar_has_reading : forall ts, grammar_ok ts = true -> exists e, reference_parse ts = Some e.
Proof.
  intros ts H. unfold grammar_ok in H. apply andb_prop in H. destruct H as [Hs Hf].
  destruct (sequence_map_ok ts) as (its & Eits & Eops); [|exact Hf|].
  - apply Forall_forall. intros t _. apply reference_tok_ok.
  - unfold reference_parse. rewrite Eits. rewrite <- Eops in Hs. apply shape_two_level. exact Hs.
Qed.

(* ---------- the value of the tree is the textbook value ---------- *)

Definition map_item {A B} (f : A -> B) (i : item A) : item B :=
  match i with IPrim a => IPrim (f a) | IOp o => IOp o end.

Section MapTwoLevel.
  Context {A B : Type}.
  Variable f : A -> B.
  Variable ca : binop -> A -> A -> A.
  Variable cb : binop -> B -> B -> B.
  Hypothesis Hf : forall o x y, f (ca o x y) = cb o (f x) (f y).

  Definition mapp (ps : list (binop * A)) : list (binop * B) := map (fun p => (fst p, f (snd p))) ps.
  Definition mapg (gs : list (binop * (A * list (binop * A)))) : list (binop * (B * list (binop * B))) :=
    map (fun g => (fst g, (f (fst (snd g)), mapp (snd (snd g))))) gs.

  Lemma flat_mapp : forall ps, map (map_item f) (flat ps) = flat (mapp ps).
  Proof. induction ps as [|p ps IH]; [reflexivity|]. cbn [flat map map_item mapp fst snd]. f_equal. f_equal. exact IH. Qed.

  Lemma split_sum_mapp : forall ps,
    split_sum (mapp ps) = (mapp (fst (split_sum ps)), mapg (snd (split_sum ps))).
  Proof.
    induction ps as [|[o a] ps IH]; [reflexivity|].
    cbn [mapp map fst snd split_sum]. fold (mapp ps). rewrite IH.
    destruct (split_sum ps) as [m groups]. cbn [fst snd]. destruct (is_mul o); reflexivity.
  Qed.

  Lemma fold_product_mapp : forall m t, fold_product cb (f t) (mapp m) = f (fold_product ca t m).
  Proof.
    induction m as [|[o a] m IH]; intros t; [reflexivity|].
    cbn [mapp map fst snd]. fold (mapp m). unfold fold_product in *. cbn [fold_left fst snd].
    rewrite <- Hf. apply IH.
  Qed.

  Lemma fold_sum_mapg : forall gs t, fold_sum cb (f t) (mapg gs) = f (fold_sum ca t gs).
  Proof.
    induction gs as [|[o [a m]] gs IH]; intros t; [reflexivity|].
    cbn [mapg map fst snd]. fold (mapg gs). unfold fold_sum in *. cbn [fold_left fst snd].
    rewrite fold_product_mapp, <- Hf. apply IH.
  Qed.

  Lemma two_level_map : forall its a, two_level ca its = Some a ->
    two_level cb (map (map_item f) its) = Some (f a).
  Proof.
    intros its a H. unfold two_level, split_first in H.
    destruct its as [|[t|o] rest]; try discriminate.
    destruct (pairs_of rest) as [ps|] eqn:Eps; cbn [option_map] in H; [|discriminate].
    apply pairs_of_flat in Eps. subst rest.
    unfold two_level, split_first. cbn [map map_item]. rewrite flat_mapp, pairs_of_flat_id. cbn [option_map].
    rewrite split_sum_mapp. destruct (split_sum ps) as [m0 groups]. cbn [fst snd].
    injection H as <-. rewrite fold_product_mapp, fold_sum_mapg. reflexivity.
  Qed.
End MapTwoLevel.

Lemma eval_mk_binop : forall env o x y,
  eval_simple env (mk_binop o x y) = combine_values o (eval_simple env x) (eval_simple env y).
Proof. intros env o x y. destruct o; reflexivity. Qed.

Lemma sequence_map_value : forall env (ts : list tok) its,
  Forall (fun t => forall it, reference_tok t = Some it ->
                   value_tok env t = Some (map_item (eval_simple env) it)) ts ->
  sequence_opt (map reference_tok ts) = Some its ->
  sequence_opt (map (value_tok env) ts) = Some (map (map_item (eval_simple env)) its).
Proof.
  intros env. induction ts as [|t ts IH]; intros its HF H.
  - cbn in H. injection H as <-. reflexivity.
  - inversion HF as [|? ? Ht HF']; subst. cbn [map sequence_opt] in H.
    destruct (reference_tok t) as [it|] eqn:Et; [|discriminate].
    destruct (sequence_opt (map reference_tok ts)) as [its'|] eqn:Es; [|discriminate].
    injection H as <-. cbn [map sequence_opt]. rewrite (Ht it eq_refl), (IH its' HF' eq_refl). reflexivity.
Qed.

Lemma value_reference_tok : forall env t it, reference_tok t = Some it ->
  value_tok env t = Some (map_item (eval_simple env) it).
Proof.
  intros env. induction t as [z|l|ts IH|o] using tok_ind'; intros it H; cbn [reference_tok value_tok] in *;
    try (injection H as <-; reflexivity).
  destruct (sequence_opt (map reference_tok ts)) as [its|] eqn:Es; [|discriminate].
  rewrite (sequence_map_value env ts its IH Es).
  destruct (two_level mk_binop its) as [e|] eqn:Ee; cbn [option_map] in H; [|discriminate].
  injection H as <-.
  rewrite (two_level_map (eval_simple env) mk_binop combine_values (eval_mk_binop env) its e Ee). reflexivity.
Qed.

(* (3) semantic form: evaluating the tree = the two-level evaluation of the token list,
   including which error is reported *)
Theorem climb_value : forall env ts e, reference_parse ts = Some e ->
  reference_value env ts = Some (eval_simple env e).
Proof.
  intros env ts e H. unfold reference_parse in H. unfold reference_value.
  destruct (sequence_opt (map reference_tok ts)) as [its|] eqn:Es; [|discriminate].
  rewrite (sequence_map_value env ts its); [|apply Forall_forall; intros t _; apply value_reference_tok|exact Es].
  apply (two_level_map (eval_simple env) mk_binop combine_values (eval_mk_binop env)). exact H.
Qed.

Theorem climb_spec : forall ts, grammar_ok ts = true ->
  exists e, parse_expression ts = Ok e /\ reference_parse ts = Some e /\
            forall env, reference_value env ts = Some (eval_simple env e).
Proof.
  intros ts H. destruct (grammar_has_reading ts H) as (e & He). exists e.
  unfold parse_expression. rewrite H. repeat split.
  - apply climb_reference. exact He.
  - exact He.
  - intros env. apply climb_value. exact He.
Qed.

(* ---------- eval_simple is the shared evaluator on a context without macros and variables ---------- *)
Lemma eval_simple_is_eval : forall env fuel e,
  Expr.eval env (fun _ => None) fuel None e = eval_simple env e.
Proof.
  intros env fuel e.
  assert (G : forall deeper, ev env (fun _ => None) deeper None e = eval_simple env e).
  { intros deeper.
    induction e as [e IH|name args|z|l|x|a IHa b IHb|a IHa b IHb|a IHa b IHb|a IHa b IHb];
      cbn [ev eval_simple]; try reflexivity; try exact IH;
      rewrite IHa, IHb; destruct (eval_simple env a) as [x| |]; try reflexivity;
      destruct (eval_simple env b) as [y| |]; reflexivity. }
  destruct fuel; cbn [Expr.eval]; apply G.
Qed.

(* ====================== 3. `/` truncates toward zero ====================== *)

Theorem quot_truncates : forall a b : Z, b <> 0%Z ->
  (* the magnitude is the integer part of |a| / |b| ... *)
  (Z.abs (Z.quot a b) * Z.abs b <= Z.abs a < (Z.abs (Z.quot a b) + 1) * Z.abs b)%Z /\
  (* ... and the sign is the product of the signs *)
  (0 <= a * b -> 0 <= Z.quot a b)%Z /\ (a * b <= 0 -> Z.quot a b <= 0)%Z /\
  (* the remainder has the sign of the dividend *)
  (a = b * Z.quot a b + Z.rem a b /\ 0 <= Z.rem a b * a /\ Z.abs (Z.rem a b) < Z.abs b)%Z.
Proof.
  intros a b Hb.
  pose proof (Z.rem_bound_abs a b Hb) as Hrb.
  assert (Habs : (Z.abs a = Z.abs b * Z.abs (Z.quot a b) + Z.abs (Z.rem a b))%Z).
  { rewrite <- (Z.quot_abs a b Hb), <- (Z.rem_abs a b Hb). apply Z.quot_rem'. }
  assert (Hr0 : (0 <= Z.abs (Z.rem a b))%Z) by apply Z.abs_nonneg.
  assert (Hd : (0 <= Z.abs a / Z.abs b)%Z) by (apply Z.div_pos; [apply Z.abs_nonneg|apply Z.abs_pos; exact Hb]).
  pose proof (Z.quot_div a b Hb) as Hq.
  pose proof (Z.sgn_mul a b) as Hs.
  split; [|split; [|split; [|split; [|split]]]].
  - replace (Z.abs (Z.quot a b) * Z.abs b)%Z with (Z.abs b * Z.abs (Z.quot a b))%Z by ring.
    replace ((Z.abs (Z.quot a b) + 1) * Z.abs b)%Z with (Z.abs b * Z.abs (Z.quot a b) + Z.abs b)%Z by ring.
    clear Hd Hq Hs Hb.
    generalize dependent (Z.abs (Z.rem a b)). generalize (Z.abs b * Z.abs (Z.quot a b))%Z.
    generalize (Z.abs a). generalize (Z.abs b). clear. intros. lia.
  - intros Hab. rewrite Hq, <- Hs. apply Z.mul_nonneg_nonneg; [apply Z.sgn_nonneg; exact Hab|exact Hd].
  - intros Hab. rewrite Hq, <- Hs. apply Z.mul_nonpos_nonneg; [apply Z.sgn_nonpos; exact Hab|exact Hd].
  - apply Z.quot_rem'.
  - apply Z.rem_sign_mul. exact Hb.
  - exact Hrb.
Qed.

(* ====================== 4. the immediate of push32 ====================== *)

Lemma be_value_app : forall a b acc, be_value (a ++ b) acc = be_value b (be_value a acc).
Proof. induction a as [|x a IH]; intros b acc; [reflexivity|]. cbn [app be_value]. apply IH. Qed.

Lemma be_value_acc : forall bs acc,
  be_value bs acc = (acc * 256 ^ N.of_nat (length bs) + be_value bs 0)%N.
Proof.
  induction bs as [|b bs IH]; intros acc.
  - cbn [be_value length]. change (N.of_nat 0) with 0%N. rewrite N.pow_0_r. lia.
  - cbn [be_value length]. rewrite IH, (IH (0 * 256 + b)%N), Nat2N.inj_succ, N.pow_succ_r'. ring.
Qed.

Lemma be_value_zeros : forall k, be_value (repeat 0%N k) 0 = 0%N.
Proof. induction k as [|k IH]; [reflexivity|]. cbn [repeat be_value]. exact IH. Qed.

Lemma N_of_be_pad_left : forall k bs, N_of_be (pad_left k bs) = N_of_be bs.
Proof. intros k bs. unfold N_of_be, pad_left. rewrite be_value_app, be_value_zeros. reflexivity. Qed.

Lemma be_bytes_fuel_value : forall fuel n acc, (n < 256 ^ N.of_nat fuel)%N ->
  N_of_be (be_bytes_fuel fuel n acc) = (n * 256 ^ N.of_nat (length acc) + N_of_be acc)%N.
Proof.
  induction fuel as [|f IH]; intros n acc Hn.
  - change (N.of_nat 0) with 0%N in Hn. rewrite N.pow_0_r in Hn. assert (n = 0%N) by lia. subst n.
    cbn [be_bytes_fuel]. lia.
  - cbn [be_bytes_fuel]. destruct (N.eqb_spec n 0) as [->|Hne]; [lia|].
    rewrite Nat2N.inj_succ, N.pow_succ_r' in Hn.
    rewrite IH by (apply N.div_lt_upper_bound; lia).
    cbn [length]. rewrite Nat2N.inj_succ, N.pow_succ_r'.
    unfold N_of_be. cbn [be_value]. rewrite (be_value_acc acc).
    pose proof (N.div_mod n 256 ltac:(lia)) as Hdm.
    replace (n * 256 ^ N.of_nat (length acc))%N
      with ((256 * (n / 256) + n mod 256) * 256 ^ N.of_nat (length acc))%N by (rewrite <- Hdm; reflexivity).
    ring.
Qed.

Lemma be_bytes_fuel_length : forall fuel n acc k, (n < 256 ^ N.of_nat k)%N ->
  (length (be_bytes_fuel fuel n acc) <= k + length acc)%nat.
Proof.
  induction fuel as [|f IH]; intros n acc k Hn; cbn [be_bytes_fuel]; [lia|].
  destruct (N.eqb_spec n 0) as [->|Hne]; [lia|].
  destruct k as [|k].
  - change (N.of_nat 0) with 0%N in Hn. rewrite N.pow_0_r in Hn. lia.
  - rewrite Nat2N.inj_succ, N.pow_succ_r' in Hn.
    pose proof (IH (n / 256)%N ((n mod 256)%N :: acc) k ltac:(apply N.div_lt_upper_bound; lia)) as H.
    cbn [length] in H. lia.
Qed.

Lemma size_fuel_enough : forall n, (n < 256 ^ N.of_nat (S (N.to_nat (N.size n))))%N.
Proof.
  intros n. pose proof (N.size_gt n) as H.
  assert (E : N.of_nat (S (N.to_nat (N.size n))) = N.succ (N.size n)) by lia. rewrite E.
  eapply N.lt_le_trans; [exact H|].
  transitivity (2 ^ N.succ (N.size n))%N.
  - apply N.pow_le_mono_r; lia.
  - apply N.pow_le_mono_l. lia.
Qed.

Lemma N_of_be_be_bytes : forall n, N_of_be (be_bytes n) = n.
Proof.
  intros n. unfold be_bytes. rewrite be_bytes_fuel_value by apply size_fuel_enough.
  cbn [length N_of_be be_value]. change (N.of_nat 0) with 0%N. rewrite N.pow_0_r. unfold N_of_be. cbn [be_value]. lia.
Qed.

Lemma be_bytes_length : forall n k, (n < 256 ^ N.of_nat k)%N -> (length (be_bytes n) <= k)%nat.
Proof. intros n k H. unfold be_bytes. pose proof (be_bytes_fuel_length (S (N.to_nat (N.size n))) n [] k H) as L. cbn [length] in L. lia. Qed.

Lemma pad_left_length : forall k bs, (length bs <= k)%nat -> length (pad_left k bs) = k.
Proof. intros k bs H. unfold pad_left. rewrite app_length, repeat_length. lia. Qed.

(* (5) a value in range is assembled as 32 big-endian, left-padded bytes of exactly that value *)
Theorem concretize32_in_range : forall env e v, eval_simple env e = Ok v -> (0 <= v < two256)%Z ->
  concretize32 env e = Ok (pad_left 32 (be_bytes (Z.to_N v))) /\
  length (pad_left 32 (be_bytes (Z.to_N v))) = 32%nat /\
  Z.of_N (N_of_be (pad_left 32 (be_bytes (Z.to_N v)))) = v.
Proof.
  intros env e v He [H0 H1]. unfold concretize32. rewrite He. cbn [bind].
  destruct (Z.ltb_spec v 0) as [|_]; [lia|].
  assert (Hn : (Z.to_N v < 256 ^ N.of_nat 32)%N).
  { change (256 ^ N.of_nat 32)%N with (Z.to_N two256). unfold two256 in *. lia. }
  pose proof (be_bytes_length (Z.to_N v) 32 Hn) as Hlen.
  destruct (Nat.ltb_spec 32 (length (be_bytes (Z.to_N v)))) as [|_]; [lia|].
  repeat split.
  - apply pad_left_length. exact Hlen.
  - rewrite N_of_be_pad_left, N_of_be_be_bytes. lia.
Qed.

Theorem concretize32_negative : forall env e v, eval_simple env e = Ok v -> (v < 0)%Z ->
  concretize32 env e = Err (mkErr "ExpressionNegative" [dec_of_Z v]).
Proof.
  intros env e v He Hv. unfold concretize32. rewrite He. cbn [bind].
  destruct (Z.ltb_spec v 0) as [_|]; [reflexivity|lia].
Qed.

(* a constant operand: evaluation does not depend on the label environment *)
Lemma eval_constant : forall e v, eval_simple no_labels e = Ok v ->
  expr_labels e = [] /\ forall env, eval_simple env e = Ok v.
Proof.
  induction e as [e IH|name args|z|l|x|a IHa b IHb|a IHa b IHb|a IHa b IHb|a IHa b IHb]; intros v H;
    cbn [eval_simple expr_labels] in *; try discriminate.
  - apply IH. exact H.
  - split; [reflexivity|intros env; exact H].
  - destruct (eval_simple no_labels a) as [x| |] eqn:Ea; try discriminate. cbn [bind] in H.
    destruct (eval_simple no_labels b) as [y| |] eqn:Eb; try discriminate. cbn [bind] in H.
    destruct (IHa x eq_refl) as [La Va]. destruct (IHb y eq_refl) as [Lb Vb].
    split; [rewrite La, Lb; reflexivity|]. intros env. rewrite Va, Vb. exact H.
  - destruct (eval_simple no_labels a) as [x| |] eqn:Ea; try discriminate. cbn [bind] in H.
    destruct (eval_simple no_labels b) as [y| |] eqn:Eb; try discriminate. cbn [bind] in H.
    destruct (IHa x eq_refl) as [La Va]. destruct (IHb y eq_refl) as [Lb Vb].
    split; [rewrite La, Lb; reflexivity|]. intros env. rewrite Va, Vb. exact H.
  - destruct (eval_simple no_labels a) as [x| |] eqn:Ea; try discriminate. cbn [bind] in H.
    destruct (eval_simple no_labels b) as [y| |] eqn:Eb; try discriminate. cbn [bind] in H.
    destruct (IHa x eq_refl) as [La Va]. destruct (IHb y eq_refl) as [Lb Vb].
    split; [rewrite La, Lb; reflexivity|]. intros env. rewrite Va, Vb. exact H.
  - destruct (eval_simple no_labels a) as [x| |] eqn:Ea; try discriminate. cbn [bind] in H.
    destruct (eval_simple no_labels b) as [y| |] eqn:Eb; try discriminate. cbn [bind] in H.
    destruct (IHa x eq_refl) as [La Va]. destruct (IHb y eq_refl) as [Lb Vb].
    split; [rewrite La, Lb; reflexivity|]. intros env. rewrite Va, Vb. exact H.
Qed.

(* source `push32 <operand>` alone, constant operand with value v in range:
   the assembler's output is 0x7f followed by the 32-byte big-endian v *)
Theorem push32_immediate : forall operand ts e v,
  lex_toks operand = Ok ts -> parse_expression ts = Ok e ->
  eval_simple no_labels e = Ok v -> (0 <= v < two256)%Z ->
  (do e' <- parse_push32 operand ; assemble_push32 [] e' []) =
    Ok (0x7f%N :: pad_left 32 (be_bytes (Z.to_N v))) /\
  length (pad_left 32 (be_bytes (Z.to_N v))) = 32%nat /\
  Z.of_N (N_of_be (pad_left 32 (be_bytes (Z.to_N v)))) = v.
Proof.
  intros operand ts e v Hl Hp Hv Hr.
  destruct (eval_constant e v Hv) as [Hlab Henv].
  destruct (concretize32_in_range no_labels e v Hv Hr) as (Hc & Hlen & Hval).
  destruct (concretize32_in_range (lookup []) e v (Henv _) Hr) as (Hc' & _ & _).
  split; [|split; assumption].
  unfold parse_push32. rewrite Hl. cbn [bind]. rewrite Hp. cbn [bind]. rewrite Hv.
  destruct (Z.leb_spec two256 v) as [|_]; [lia|]. cbn [bind].
  unfold assemble_push32. cbn [declare_items bind fst snd]. rewrite Hlab. cbn [filter].
  rewrite Hc. cbn [bind fst snd]. rewrite Hc'. cbn [pc_bytes flat_map app]. rewrite app_nil_r. reflexivity.
Qed.

(* a constant operand that is too large is rejected by the parser, a negative one by the assembler *)
Theorem push32_out_of_range : forall operand ts e v,
  lex_toks operand = Ok ts -> parse_expression ts = Ok e -> eval_simple no_labels e = Ok v ->
  ((two256 <= v)%Z -> parse_push32 operand = err0 "Parse.ImmediateTooLarge") /\
  ((v < 0)%Z -> forall before after, exists er,
     (do e' <- parse_push32 operand ; assemble_push32 before e' after) = Err er /\
     (e_kind er = "ExpressionNegative" \/ e_kind er = "DuplicateLabel")).
Proof.
  intros operand ts e v Hl Hp Hv. split.
  - intros Hbig. unfold parse_push32. rewrite Hl. cbn [bind]. rewrite Hp. cbn [bind]. rewrite Hv.
    destruct (Z.leb_spec two256 v) as [_|]; [reflexivity|lia].
  - intros Hneg before after. unfold parse_push32. rewrite Hl. cbn [bind]. rewrite Hp. cbn [bind]. rewrite Hv.
    destruct (Z.leb_spec two256 v) as [Hge|_]; [unfold two256 in Hge; lia|]. cbn [bind].
    unfold assemble_push32.
    destruct (declare_items before 0%Z []) as [st1|er|s] eqn:E1; cbn [bind].
    + rewrite (concretize32_negative no_labels e v Hv Hneg). cbn [e_kind String.eqb bind].
      eexists. split; [reflexivity|]. left. reflexivity.
    + eexists. split; [reflexivity|]. right.
      clear - E1. revert E1. generalize 0%Z, (@nil (string * Z)).
      induction before as [|[|l] r IH]; intros z env E; cbn [declare_items] in E; [discriminate|eauto|].
      destruct (lookup env l); [injection E as <-; reflexivity|eauto].
    + exfalso. clear - E1. revert E1. generalize 0%Z, (@nil (string * Z)).
      induction before as [|[|l] r IH]; intros z env E; cbn [declare_items] in E; [discriminate|eauto|].
      destruct (lookup env l); [discriminate|eauto].
Qed.

(* ====================== 5. selector / topic ====================== *)
(* Definitional: the model computes them with the Keccak-256 specification of Spec/Keccak.v; the
   assurance that this is the function the `sha3` crate computes comes from the test vectors of
   Spec/Keccak.v and from the differential run of checks/c08.py. *)
Theorem selector_topic_spec : forall sig,
  selector sig = Z.of_N (N_of_be (firstn 4 (keccak256 (bytes_of_string sig)))) /\
  topic sig = Z.of_N (N_of_be (keccak256 (bytes_of_string sig))) /\
  (sig_ok sig = true ->
   lex_tok (SSelector sig) = Ok (TNum (selector sig)) /\ lex_tok (STopic sig) = Ok (TNum (topic sig))).
Proof.
  intros sig. split; [reflexivity|]. split.
  - unfold topic, selector_value. rewrite firstn_all2; [reflexivity|].
    unfold keccak256. rewrite flat_map_concat_map.
    assert (L : forall l : list N, length (concat (map (le_bytes 8) l)) = (8 * length l)%nat).
    { induction l as [|x l IH]; [reflexivity|]. cbn [map concat]. rewrite app_length, IH. cbn [le_bytes length]. lia. }
    rewrite L, firstn_length. lia.
  - intros H. cbn [lex_tok]. rewrite H. split; reflexivity.
Qed.
