(* Proofs/BlocksProofs.v -- basic blocks partition the instruction stream (C16). *)
From Coq Require Import Lia ZifyBool ZifyNat ZifyN.
From Verif Require Import Model.Base Model.Ops Model.Disasm Model.Blocks Proofs.OpsProofs Proofs.DisasmProofs.
Open Scope N_scope.

Section Generic.
  Variable is_jt : item -> bool.
  Variable is_jmp : item -> bool.
  (* no instruction both starts and ends a block (true of the EVM tables: checked below) *)
  Hypothesis jt_not_jmp : forall it, is_jt it = true -> is_jmp it = false.

  Notation spush := (spush is_jt is_jmp).
  Notation spush_all := (spush_all is_jt is_jmp).
  Notation sstep := (sstep is_jt is_jmp).
  Notation srun := (srun is_jt is_jmp).

  Definition jt_only_head (ops : list item) : Prop :=
    Forall (fun it => is_jt it = false) (tl ops).
  Definition jmp_only_last (ops : list item) : Prop :=
    Forall (fun it => is_jmp it = false) (removelast ops).
  Definition no_jmp (ops : list item) : Prop := Forall (fun it => is_jmp it = false) ops.

  Definition head_off (b : block) : Prop :=
    match b_ops b with [] => False | it :: _ => b_off b = i_off it end.

  (* a delivered block *)
  Definition block_ok (b : block) : Prop :=
    head_off b /\ jt_only_head (b_ops b) /\ jmp_only_last (b_ops b).
  (* the block still being built *)
  Definition open_ok (b : block) : Prop :=
    head_off b /\ jt_only_head (b_ops b) /\ no_jmp (b_ops b).

  Definition optlist (o : option block) : list block := match o with Some b => [b] | None => [] end.
  Definition all_ops (bl : list block) : list item := concat (map b_ops bl).

  Record SInv (input : list item) (acc : list block * sstate) : Prop := {
    si_ops : all_ops (fst acc ++ s_complete (snd acc) ++ optlist (s_inprog (snd acc))) = input;
    si_closed : Forall block_ok (fst acc ++ s_complete (snd acc));
    si_open : match s_inprog (snd acc) with Some b => open_ok b | None => True end }.

  Lemma all_ops_app : forall a b, all_ops (a ++ b) = all_ops a ++ all_ops b.
  Proof. intros. unfold all_ops. now rewrite map_app, concat_app. Qed.

  Lemma all_ops_one : forall b, all_ops [b] = b_ops b.
  Proof. intros. unfold all_ops. cbn [map concat]. apply app_nil_r. Qed.
  Lemma all_ops_nil : all_ops [] = [].
  Proof. reflexivity. Qed.
  Ltac norm_ops := repeat (rewrite all_ops_app || rewrite all_ops_one || rewrite all_ops_nil
                           || rewrite app_nil_r || rewrite <- app_assoc).

  Lemma removelast_snoc : forall (A : Type) (l : list A) x, removelast (l ++ [x]) = l.
  Proof. intros. apply removelast_last. Qed.

  Lemma open_to_closed : forall b, open_ok b -> block_ok b.
  Proof.
    intros b (H1 & H2 & H3). repeat split; auto. unfold jmp_only_last, no_jmp in *.
    clear - H3. induction (b_ops b) as [|x [|y l] IH]; cbn; auto.
    inversion H3; subst. constructor; auto.
  Qed.

  Lemma open_snoc_closed : forall b it, open_ok b ->
    block_ok (mkblock (b_off b) (b_ops b ++ [it])) \/ True.
  Proof. auto. Qed.

  Lemma tl_snoc : forall (A : Type) (l : list A) x, l <> [] -> tl (l ++ [x]) = tl l ++ [x].
  Proof. intros A [|a l] x H; [congruence|reflexivity]. Qed.

  (* one push preserves the invariant *)
  Lemma sinv_push : forall input acc it,
    SInv input acc -> SInv (input ++ [it]) (fst acc, fst (spush (snd acc) it)).
  Proof.
    intros input [dl [cp ip]] it [Ho Hc Hp]. cbn [fst snd s_complete s_inprog] in *.
    unfold Blocks.spush. cbn [s_complete s_inprog].
    destruct (is_jt it) eqn:Ejt.
    - (* a jump target starts a new block *)
      pose proof (jt_not_jmp it Ejt) as Enj.
      destruct ip as [b|]; cbn [fst snd s_complete s_inprog optlist] in *.
      + constructor; cbn [fst snd s_complete s_inprog optlist].
        * rewrite <- Ho. norm_ops. cbn [b_ops]. reflexivity.
        * rewrite app_assoc. apply Forall_app. split; [exact Hc|].
          constructor; [|constructor]. now apply open_to_closed.
        * unfold open_ok, head_off, jt_only_head, no_jmp; cbn [b_ops b_off tl].
          split; [reflexivity|]. split; [constructor|]. constructor; [exact Enj|constructor].
      + constructor; cbn [fst snd s_complete s_inprog optlist].
        * rewrite <- Ho. norm_ops. cbn [b_ops]. reflexivity.
        * exact Hc.
        * unfold open_ok, head_off, jt_only_head, no_jmp; cbn [b_ops b_off tl].
          split; [reflexivity|]. split; [constructor|]. constructor; [exact Enj|constructor].
    - (* not a jump target: append to the block in progress, or start one *)
      set (nb := match ip with
                 | Some b => mkblock (b_off b) (b_ops b ++ [it])
                 | None => mkblock (i_off it) [it] end).
      assert (Hops : all_ops (dl ++ cp ++ [nb]) = input ++ [it]).
      { rewrite <- Ho. unfold nb. destruct ip as [b|]; cbn [optlist].
        - norm_ops. cbn [b_ops]. norm_ops. reflexivity.
        - norm_ops. cbn [b_ops]. reflexivity. }
      assert (Hhead : head_off nb /\ jt_only_head (b_ops nb)).
      { unfold nb. destruct ip as [b|].
        - destruct Hp as (H1 & H2 & H3). unfold head_off, jt_only_head in *. cbn [b_off b_ops].
          destruct (b_ops b) as [|x l] eqn:Eb; [contradiction|]. cbn [app tl] in *. split; [exact H1|].
          apply Forall_app. split; [exact H2|]. constructor; [exact Ejt|constructor].
        - unfold head_off, jt_only_head. cbn. split; [reflexivity|constructor]. }
      assert (Hnj : no_jmp (removelast (b_ops nb))).
      { unfold nb. destruct ip as [b|]; cbn [b_ops].
        - rewrite removelast_snoc. now destruct Hp as (_ & _ & H3).
        - cbn. constructor. }
      destruct (is_jmp it) eqn:Ejmp; cbn [fst snd s_complete s_inprog optlist].
      + constructor; cbn [fst snd s_complete s_inprog optlist].
        * rewrite <- Hops. norm_ops. reflexivity.
        * rewrite app_assoc. apply Forall_app. split; [exact Hc|].
          constructor; [|constructor]. destruct Hhead. repeat split; auto.
        * exact I.
      + constructor; cbn [fst snd s_complete s_inprog optlist].
        * exact Hops.
        * exact Hc.
        * destruct Hhead. repeat split; auto. unfold no_jmp in *.
          unfold nb in *. destruct ip as [b|]; cbn [b_ops] in *.
          -- rewrite removelast_snoc in Hnj. apply Forall_app. split; [exact Hnj|].
             constructor; [exact Ejmp|constructor].
          -- constructor; [exact Ejmp|constructor].
  Qed.

  Lemma spush_all_fold : forall its st a,
    fst (spush_all st its a) = fold_left (fun s it => fst (spush s it)) its st.
  Proof.
    induction its as [|it r IH]; intros st a; cbn [Blocks.spush_all fold_left]; [reflexivity|].
    destruct (spush st it) as [st' a'] eqn:E. rewrite IH. cbn. reflexivity.
  Qed.

  Lemma sinv_push_all : forall its input acc,
    SInv input acc -> SInv (input ++ its) (fst acc, fst (spush_all (snd acc) its false)).
  Proof.
    intros its input acc H. rewrite spush_all_fold.
    revert input acc H. induction its as [|it r IH]; intros input acc H; cbn [fold_left].
    - rewrite app_nil_r. destruct acc; exact H.
    - pose proof (sinv_push input acc it H) as H1.
      specialize (IH (input ++ [it]) _ H1). cbn [fst snd] in IH.
      rewrite <- app_assoc in IH. exact IH.
  Qed.

  Lemma sinv_take : forall input acc, SInv input acc -> SInv input (sstep acc STake).
  Proof.
    intros input [dl [cp ip]] [Ho Hc Hp]. cbn in *. constructor; cbn.
    - rewrite <- Ho. norm_ops. reflexivity.
    - rewrite app_nil_r. exact Hc.
    - exact Hp.
  Qed.

  Lemma srun_app : forall h1 h2, srun (h1 ++ h2) = fold_left sstep h2 (srun h1).
  Proof. intros. unfold Blocks.srun. now rewrite fold_left_app. Qed.

  Lemma sinput_app : forall h1 h2, sinput (h1 ++ h2) = sinput h1 ++ sinput h2.
  Proof. intros. unfold sinput. now rewrite map_app, concat_app. Qed.

  Theorem sep_invariant : forall h, SInv (sinput h) (srun h).
  Proof.
    induction h as [|o h IH] using rev_ind.
    - constructor; cbn; auto.
    - rewrite srun_app, sinput_app. cbn [fold_left]. unfold sinput at 2. cbn [map concat].
      rewrite app_nil_r. destruct o as [it|its|].
      + exact (sinv_push _ _ it IH).
      + exact (sinv_push_all its _ _ IH).
      + rewrite app_nil_r. exact (sinv_take _ _ IH).
  Qed.

  (* batching is irrelevant: push_all is a fold of push *)
  Theorem push_all_is_pushes : forall acc its,
    sstep acc (SPushAll its) = fold_left sstep (map SPush its) acc.
  Proof.
    intros acc its. cbn [Blocks.sstep]. rewrite spush_all_fold.
    revert acc. induction its as [|it r IH]; intros [dl st]; cbn [fold_left map fst snd]; [reflexivity|].
    rewrite <- IH. reflexivity.
  Qed.

  (* take then finish never panics and delivers everything *)
  Theorem collect_spec : forall h,
    let bl := scollect (srun h) in
    all_ops bl = sinput h /\ Forall block_ok bl /\
    (exists o, fst (sfinish (snd (stake (snd (srun h))))) = Ok o).
  Proof.
    intros h. destruct (sep_invariant h) as [Ho Hc Hp].
    destruct (srun h) as [dl [cp ip]]. cbn [fst snd s_complete s_inprog] in *.
    unfold Blocks.scollect, stake, sfinish. cbn [fst snd s_complete s_inprog].
    split; [|split].
    - destruct ip as [b|]; cbn [optlist] in Ho; [exact Ho|]. now rewrite app_nil_r in Ho.
    - destruct ip as [b|].
      + rewrite app_assoc. apply Forall_app. split; [exact Hc|]. constructor; [|constructor].
        now apply open_to_closed.
      + exact Hc.
    - eexists. reflexivity.
  Qed.

  (* block offsets chain when the instruction offsets do *)
  Fixpoint block_offsets_from (off : N) (bl : list block) : Prop :=
    match bl with
    | [] => True
    | b :: r => b_off b = off /\ block_offsets_from (off + block_size b) r
    end.

  Lemma block_size_flatten : forall b, block_size b = N.of_nat (length (flatten (b_ops b))).
  Proof.
    intros b. unfold block_size. induction (b_ops b) as [|x l IH]; [reflexivity|].
    cbn [map sumN fold_right]. fold (sumN (map (fun it => N.of_nat (length (encode_item it))) l)).
    rewrite IH, flatten_cons, app_length. lia.
  Qed.

  Lemma block_offsets : forall bl off,
    offsets_from off (all_ops bl) -> Forall head_off bl -> block_offsets_from off bl.
  Proof.
    induction bl as [|b r IH]; intros off Hoff Hh; cbn [block_offsets_from]; [exact I|].
    inversion Hh as [|? ? Hb Hr]; subst.
    unfold all_ops in Hoff. cbn [map concat] in Hoff. fold (all_ops r) in Hoff.
    apply offsets_from_app in Hoff as [H1 H2]. split.
    - unfold head_off in Hb. destruct (b_ops b) as [|x l]; [contradiction|].
      cbn [offsets_from] in H1. destruct H1 as [H1 _]. congruence.
    - apply IH; [|exact Hr]. rewrite block_size_flatten. exact H2.
  Qed.
End Generic.

(* ---------- instantiation with the generated table ---------- *)
Lemma cancun_jt_not_jmp : forall it, cancun_jt it = true -> cancun_jmp it = false.
Proof.
  assert (H : bytes_all (fun c => negb (r_jt (from_u8 cancun c)) ||
              negb (r_jump (from_u8 cancun c) || r_exits (from_u8 cancun c))) = true) by (vm_compute; reflexivity).
  intros it. unfold cancun_jt, cancun_jmp. intros Hj.
  destruct (N.lt_ge_cases (i_code it) 256) as [Hc|Hc].
  - pose proof (bytes_all_spec _ H _ Hc) as P. cbv beta in P. rewrite Hj in P. cbn in P.
    now apply negb_true_iff in P.
  - exfalso. unfold from_u8 in Hj. rewrite nth_overflow in Hj; [cbn in Hj; discriminate|].
    destruct (chk_fork_parts _ _ _ cancun_ok) as (Hl & _). rewrite (table_length cancun Hl). lia.
Qed.
