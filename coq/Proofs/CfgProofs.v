(* Proofs/CfgProofs.v -- the control-flow graph is structurally well formed (C20). *)
From Coq Require Import Lia Permutation.
From Verif Require Import Model.Base Model.Sym Spec.SmtBv Model.Z3Tr Model.Cfg.
Open Scope Z_scope.

Definition offsets (bs : list ablock) : list Z := map ab_off bs.

(* ---------- by_offset: the same blocks, distinct offsets ---------- *)
Lemma insert_sorted_perm : forall b s, Permutation (b :: s) (insert_sorted_block b s).
Proof.
  induction s as [|x s IH]; cbn [insert_sorted_block]; [apply Permutation_refl|].
  destruct (ab_off b <? ab_off x); [apply Permutation_refl|].
  eapply Permutation_trans; [apply perm_swap|]. now apply perm_skip.
Qed.

Lemma existsb_off_false : forall s o, existsb (fun x => ab_off x =? o) s = false -> ~ In o (offsets s).
Proof.
  induction s as [|x s IH]; intros o H; cbn in *; [tauto|].
  apply Bool.orb_false_iff in H as [H1 H2]. intros [E|Hin]; [lia|]. now apply (IH o).
Qed.

Lemma by_offset_spec : forall blocks acc sorted,
  by_offset blocks acc = Ok sorted -> NoDup (offsets acc) ->
  Permutation (rev blocks ++ acc) sorted /\ NoDup (offsets sorted).
Proof.
  induction blocks as [|b r IH]; intros acc sorted H Hnd; cbn [by_offset] in H.
  - inversion H; subst. split; [apply Permutation_refl|exact Hnd].
  - unfold insert_block in H. destruct (existsb _ acc) eqn:E; cbn [bind] in H; [discriminate|].
    apply existsb_off_false in E.
    assert (Hnd' : NoDup (offsets (insert_sorted_block b acc))).
    { unfold offsets. eapply Permutation_NoDup; [apply Permutation_map; apply insert_sorted_perm|].
      cbn [map]. constructor; assumption. }
    destruct (IH _ _ H Hnd') as [P N]. split; [|exact N].
    cbn [rev]. rewrite <- app_assoc. cbn [app].
    eapply Permutation_trans; [|exact P]. apply Permutation_app_head. apply insert_sorted_perm.
Qed.

Lemma find_block_In : forall bs off b, find_block bs off = Some b -> In b bs /\ ab_off b = off.
Proof.
  induction bs as [|x r IH]; intros off b H; cbn [find_block] in H; [discriminate|].
  destruct (Z.eqb_spec (ab_off x) off) as [E|NE].
  - inversion H; subst. split; [now left|reflexivity].
  - destruct (IH _ _ H) as [Hin Ho]. split; [now right|exact Ho].
Qed.

Lemma find_block_some : forall bs b, In b bs -> exists b', find_block bs (ab_off b) = Some b'.
Proof.
  induction bs as [|x r IH]; intros b Hin; [destruct Hin|]. cbn [find_block].
  destruct (Z.eqb_spec (ab_off x) (ab_off b)); [eauto|].
  destruct Hin as [->|Hin]; [congruence|]. now apply IH.
Qed.

(* ---------- shape of the edges leaving one block ---------- *)
Definition edge_ok (sorted : list ablock) (jts : list Z) (b : ablock) (e : node * node) : Prop :=
  fst e = NBlock (ab_off b) /\
  (snd e = NTerm \/ snd e = NBad \/
   (exists t, snd e = NBlock t /\ In t jts) \/
   (exists f, snd e = NBlock f /\ fall_through (ab_exit b) = Some f /\ In f (offsets sorted))).

Lemma ft_edges_ok : forall sorted jts b ft e,
  fall_through (ab_exit b) = ft ->
  In e (match ft with
        | Some f => match (match find_block sorted f with Some _ => Some f | None => None end) with
                    | Some f' => [(NBlock (ab_off b), NBlock f')]
                    | None => [(NBlock (ab_off b), NTerm)] end
        | None => [] end) -> edge_ok sorted jts b e.
Proof.
  intros sorted jts b ft e Eft H0. destruct ft as [f|]; [|destruct H0].
  destruct (find_block sorted f) as [bf|] eqn:Efb; destruct H0 as [<-|[]]; split; cbn; auto.
  right. right. right. exists f. split; [reflexivity|]. split; [exact Eft|].
  apply find_block_In in Efb as [Hb Ho]. unfold offsets. rewrite <- Ho. now apply in_map.
Qed.

Lemma block_edges_ok : forall sorted jts b e,
  In e (block_edges sorted jts b) -> edge_ok sorted jts b e.
Proof.
  intros sorted jts b e Hin. unfold block_edges in Hin.
  pose proof (ft_edges_ok sorted jts b (fall_through (ab_exit b)) e eq_refl) as Hft.
  destruct (ab_exit b) eqn:Ex; cbn [fall_through] in *.
  - destruct Hin as [<-|[]]. split; cbn; auto.
  - now apply Hft.
  - cbn [app In] in Hin.
    destruct Hin as [<-|H]; [split; cbn; auto|].
    apply in_map_iff in H as (t & <- & Ht). apply filter_In in Ht as [Ht _].
    split; cbn; auto. right. right. left. eauto.
  - apply in_app_or in Hin as [H|H]; [now apply Hft|]. cbn [app In] in H.
    destruct H as [<-|H]; [split; cbn; auto|].
    apply in_map_iff in H as (t & <- & Ht). apply filter_In in Ht as [Ht _].
    split; cbn; auto. right. right. left. eauto.
Qed.

(* no two edges leaving a block are equal *)
Lemma block_edges_nodup : forall sorted jts b, NoDup jts -> NoDup (block_edges sorted jts b).
Proof.
  intros sorted jts b Hj. unfold block_edges.
  set (from := NBlock (ab_off b)).
  set (ft := fall_through (ab_exit b)).
  set (fti := match ft with
              | Some f => match find_block sorted f with Some _ => Some f | None => None end
              | None => None end).
  assert (Hmap : forall (p : Z -> bool), NoDup (map (fun t => (from, NBlock t)) (filter p jts))).
  { intros p. apply FinFun.Injective_map_NoDup; [intros x y E; now inversion E|].
    now apply NoDup_filter. }
  assert (Hjt : NoDup ((from, NBad) ::
                map (fun t => (from, NBlock t))
                    (filter (fun t => match fti with Some f => negb (t =? f) | None => true end) jts))).
  { constructor; [|apply Hmap]. intros H. apply in_map_iff in H as (t & E & _). discriminate. }
  destruct (ab_exit b) eqn:Ex; subst ft; cbn [fall_through] in *.
  - cbn. constructor; [intros []|constructor].
  - destruct fti; cbn; (constructor; [intros []|constructor]).
  - cbn [app]. exact Hjt.
  - destruct fti as [f|] eqn:Efi; cbn [app].
    + constructor; [|exact Hjt]. intros [E|H]; [discriminate|].
      apply in_map_iff in H as (t & E & Ht). inversion E; subst.
      apply filter_In in Ht as [_ Ht]. rewrite Z.eqb_refl in Ht. discriminate.
    + constructor; [|exact Hjt]. intros [E|H]; [discriminate|].
      apply in_map_iff in H as (t & E & _). discriminate.
Qed.

(* a direct proof of NoDup for the concatenation, by the source node of the edges *)
Lemma edges_nodup : forall sorted jts (l : list ablock),
  NoDup (offsets l) -> NoDup jts -> NoDup (concat (map (block_edges sorted jts) l)).
Proof.
  intros sorted jts. induction l as [|b r IH]; intros Hnd Hj; cbn [map concat]; [constructor|].
  unfold offsets in Hnd. cbn [map] in Hnd. inversion Hnd as [|? ? Hn Hr]; subst.
  assert (Hb : NoDup (block_edges sorted jts b)) by (now apply block_edges_nodup).
  assert (Hr' : NoDup (concat (map (block_edges sorted jts) r))) by (apply IH; assumption).
  clear IH. revert Hb. generalize (block_edges_ok sorted jts b).
  generalize (block_edges sorted jts b) as eb. induction eb as [|e eb IHe]; intros Hok Hb; cbn [app]; [exact Hr'|].
  inversion Hb as [|? ? He Heb]; subst. constructor.
  - intros Hin. apply in_app_or in Hin as [Hin|Hin]; [contradiction|].
    apply in_concat in Hin as (es & Hes & Hine). apply in_map_iff in Hes as (b' & <- & Hb').
    apply block_edges_ok in Hine as [Hsrc _]. destruct (Hok e (or_introl eq_refl)) as [Hsrc' _].
    rewrite Hsrc in Hsrc'. inversion Hsrc'. apply Hn. rewrite <- H0. now apply in_map.
  - apply IHe; [|exact Heb]. intros e' H'. apply Hok. now right.
Qed.

(* ---------- ControlFlowGraph::new ---------- *)
Definition jts_of (blocks : list ablock) : list Z := map ab_off (filter ab_jt blocks).

Theorem cfg_new_wf : forall blocks g,
  cfg_new blocks = Ok g ->
  Permutation (rev blocks) (g_blocks g) /\
  NoDup (offsets (g_blocks g)) /\
  NoDup (g_edges g) /\
  (forall e, In e (g_edges g) ->
     exists b, In b (g_blocks g) /\ edge_ok (g_blocks g) (jts_of blocks) b e) /\
  (forall t, In t (jts_of blocks) -> exists b, In b (g_blocks g) /\ ab_jt b = true /\ ab_off b = t).
Proof.
  intros blocks g H. unfold cfg_new in H.
  destruct (by_offset blocks []) as [sorted|e|p] eqn:Eb; cbn [bind] in H; try discriminate.
  inversion H; subst; clear H. cbn [g_blocks g_edges].
  destruct (by_offset_spec _ _ _ Eb (NoDup_nil _)) as [P Nd]. rewrite app_nil_r in P.
  assert (Nb : NoDup (offsets blocks)).
  { unfold offsets in *. eapply Permutation_NoDup; [|exact Nd].
    apply Permutation_map. eapply Permutation_trans; [apply Permutation_sym; exact P|].
    apply Permutation_sym, Permutation_rev. }
  assert (Nj : NoDup (jts_of blocks)).
  { unfold jts_of. clear - Nb. induction blocks as [|b r IH]; cbn [filter map]; [constructor|].
    unfold offsets in Nb. cbn [map] in Nb. inversion Nb as [|? ? Hn Hr]; subst.
    destruct (ab_jt b); cbn [map]; [|now apply IH].
    constructor; [|now apply IH]. intros Hin. apply Hn. apply in_map_iff in Hin as (x & E & Hx).
    apply filter_In in Hx as [Hx _]. rewrite <- E. now apply in_map. }
  split; [exact P|]. split; [exact Nd|]. split; [now apply edges_nodup|]. split.
  - intros e Hin. apply in_concat in Hin as (es & Hes & Hine).
    apply in_map_iff in Hes as (b & <- & Hb). exists b. split; [exact Hb|now apply block_edges_ok].
  - intros t Ht. unfold jts_of in Ht. apply in_map_iff in Ht as (b & E & Hb).
    apply filter_In in Hb as [Hb Hj]. exists b. repeat split; auto.
    eapply Permutation_in; [exact P|]. now apply in_rev in Hb.
Qed.

(* the two special nodes have no successors *)
Corollary special_nodes_no_successors : forall blocks g e,
  cfg_new blocks = Ok g -> In e (g_edges g) -> fst e <> NTerm /\ fst e <> NBad.
Proof.
  intros blocks g e H Hin. destruct (cfg_new_wf _ _ H) as (_ & _ & _ & He & _).
  destruct (He e Hin) as (b & _ & Hsrc & _). rewrite Hsrc. split; discriminate.
Qed.

(* ---------- refinement only removes edges ---------- *)
Section Refine.
  Variable solver_unsat : list bvform -> bool.

  Lemma refine_edges_sub : forall sorted es es',
    refine_edges solver_unsat sorted es = Ok es' ->
    (forall e, In e es' -> In e es) /\ (NoDup es -> NoDup es').
  Proof.
    induction es as [|e r IH]; intros es' H; cbn [refine_edges] in H.
    - inversion H; subst. auto.
    - destruct (edge_query sorted e) as [q|er|p]; cbn [bind] in H; try discriminate.
      destruct (refine_edges solver_unsat sorted r) as [r'|er|p]; cbn [bind] in H; try discriminate.
      destruct (IH r' eq_refl) as [Hs Hn]. inversion H; subst. split.
      + intros x Hx. destruct (keep_of solver_unsat q); [destruct Hx as [<-|Hx]; [now left|right; auto]|right; auto].
      + intros Hnd. inversion Hnd as [|? ? Hne Hr]; subst.
        destruct (keep_of solver_unsat q); [constructor; auto|auto].
  Qed.

  Theorem refine_subgraph : forall g g',
    refine solver_unsat g = Ok g' ->
    g_blocks g' = g_blocks g /\ (forall e, In e (g_edges g') -> In e (g_edges g)) /\
    (NoDup (g_edges g) -> NoDup (g_edges g')).
  Proof.
    intros g g' H. unfold refine in H.
    destruct (refine_edges solver_unsat (g_blocks g) (g_edges g)) as [es|er|p] eqn:E; cbn [bind] in H; try discriminate.
    inversion H; subst. cbn [g_blocks g_edges]. destruct (refine_edges_sub _ _ _ E). auto.
  Qed.

  (* an edge whose query is not answered Unsat survives *)
  Lemma refine_edges_keeps : forall sorted es es' e q,
    refine_edges solver_unsat sorted es = Ok es' -> In e es ->
    edge_query sorted e = Ok q -> keep_of solver_unsat q = true -> In e es'.
  Proof.
    induction es as [|x r IH]; intros es' e q H Hin Hq Hk; [destruct Hin|].
    cbn [refine_edges] in H.
    destruct (edge_query sorted x) as [qx|er|p] eqn:Ex; cbn [bind] in H; try discriminate.
    destruct (refine_edges solver_unsat sorted r) as [r'|er|p] eqn:Er; cbn [bind] in H; try discriminate.
    inversion H; subst. destruct Hin as [->|Hin].
    - rewrite Hq in Ex. inversion Ex; subst. rewrite Hk. now left.
    - pose proof (IH r' e q eq_refl Hin Hq Hk) as Hr. destruct (keep_of solver_unsat qx); [now right|exact Hr].
  Qed.
End Refine.

(* ---------- every block keeps a successor under a sound solver ---------- *)
Definition sound (solver_unsat : list bvform -> bool) : Prop :=
  forall fs, solver_unsat fs = true -> forall M, exists f, In f fs /\ form_eval M f = false.

Definition M0 : interp := mkInterp (fun _ => 0) (fun _ => 0) (fun _ _ => 0).

Lemma find_block_unique : forall bs b, NoDup (offsets bs) -> In b bs -> find_block bs (ab_off b) = Some b.
Proof.
  induction bs as [|x r IH]; intros b Hnd Hin; [destruct Hin|]. cbn [find_block].
  unfold offsets in Hnd. cbn [map] in Hnd. inversion Hnd as [|? ? Hn Hr]; subst.
  destruct Hin as [->|Hin]; [now rewrite Z.eqb_refl|].
  destruct (Z.eqb_spec (ab_off x) (ab_off b)) as [E|NE]; [|now apply IH].
  exfalso. apply Hn. rewrite E. now apply in_map.
Qed.

Lemma offset_const_eval : forall M off, 0 <= off < 2 ^ 256 -> bv_eval M (offset_const off) = off.
Proof. intros M off H. cbn [offset_const bv_eval]. apply Z.mod_small. exact H. Qed.

Section Successors.
  Variable solver_unsat : list bvform -> bool.
  Hypothesis Hsound : sound solver_unsat.

  Lemma keep_if_satisfied : forall fs M, (forall f, In f fs -> form_eval M f = true) ->
    keep_of solver_unsat (QSolve fs) = true.
  Proof.
    intros fs M H. cbn [keep_of]. destruct (solver_unsat fs) eqn:E; [|reflexivity].
    destruct (Hsound fs E M) as (f & Hin & Hf). rewrite (H f Hin) in Hf. discriminate.
  Qed.

  Variable blocks : list ablock.
  Variable g g' : cfg.
  Hypothesis Hnew : cfg_new blocks = Ok g.
  Hypothesis Href : refine solver_unsat g = Ok g'.
  (* offsets are code offsets: they fit a 256-bit word *)
  Hypothesis Hoff : forall b, In b (g_blocks g) -> 0 <= ab_off b < 2 ^ 256.
  Hypothesis Hft : forall b c t f, In b (g_blocks g) -> ab_exit b = ABranch c t f -> 0 <= f < 2 ^ 256.

  Let sorted := g_blocks g.

  Lemma edges_of_block : forall b, In b sorted ->
    forall e, In e (block_edges sorted (jts_of blocks) b) -> In e (g_edges g).
  Proof.
    intros b Hb e He. unfold cfg_new in Hnew.
    destruct (by_offset blocks []) as [s|er|p] eqn:Eb; cbn [bind] in Hnew; try discriminate.
    inversion Hnew; subst. cbn [g_blocks g_edges] in *. apply in_concat.
    exists (block_edges s (jts_of blocks) b). split; [|exact He]. apply in_map_iff. eauto.
  Qed.

  Lemma kept : forall e q, In e (g_edges g) -> edge_query sorted e = Ok q ->
    keep_of solver_unsat q = true -> In e (g_edges g').
  Proof.
    intros e q Hin Hq Hk. unfold refine in Href.
    destruct (refine_edges solver_unsat (g_blocks g) (g_edges g)) as [es|er|p] eqn:E; cbn [bind] in Href; try discriminate.
    inversion Href; subst. cbn [g_edges]. eapply refine_edges_keeps; eauto.
  Qed.

  Lemma query_ok : forall e, In e (g_edges g) -> exists q, edge_query sorted e = Ok q.
  Proof.
    intros e Hin. unfold refine in Href.
    destruct (refine_edges solver_unsat (g_blocks g) (g_edges g)) as [es|er|p] eqn:E; cbn [bind] in Href; try discriminate.
    clear Href. revert es E Hin. generalize (g_edges g) as l.
    induction l as [|x r IH]; intros es E Hin; [destruct Hin|]. cbn [refine_edges] in E.
    destruct (edge_query (g_blocks g) x) as [q|er|p] eqn:Ex; cbn [bind] in E; try discriminate.
    destruct (refine_edges solver_unsat (g_blocks g) r) as [r'|er|p] eqn:Er; cbn [bind] in E; try discriminate.
    destruct Hin as [->|Hin]; [eauto|]. eapply IH; eauto.
  Qed.

  Lemma jt_offsets_jts : forall off, In off (jt_offsets sorted) <-> In off (jts_of blocks).
  Proof.
    destruct (cfg_new_wf _ _ Hnew) as (P & _). fold sorted in P.
    intros off. unfold jt_offsets, jts_of. rewrite !in_map_iff. split; intros (b & E & Hb);
      apply filter_In in Hb as [Hb Hj]; exists b; (split; [exact E|]); apply filter_In; (split; [|exact Hj]).
    - apply in_rev. eapply Permutation_in; [apply Permutation_sym; exact P|exact Hb].
    - eapply Permutation_in; [exact P|]. now apply in_rev in Hb.
  Qed.

  Theorem every_block_keeps_a_successor : forall b, In b sorted ->
    exists e, In e (g_edges g') /\ fst e = NBlock (ab_off b).
  Proof.
    intros b Hb.
    destruct (cfg_new_wf _ _ Hnew) as (P & Nd & _ & _ & Hjt). fold sorted in P, Nd, Hjt.
    pose proof (find_block_unique _ _ Nd Hb) as Hfb.
    pose proof (edges_of_block b Hb) as Hedges. unfold block_edges in Hedges.
    assert (Heq : forall e, fst e = NBlock (ab_off b) -> edge_query sorted e =
              match snd e with
              | NBlock t => match find_block sorted t with
                            | Some to => shallow_block b to
                            | None => Panic "unwrap_block: not a block" end
              | NBad => shallow_bad_jump sorted b
              | NTerm => shallow_terminate b end).
    { intros e He. unfold edge_query. rewrite He, Hfb. reflexivity. }
    destruct (ab_exit b) as [|f|u|c t f] eqn:Ex; cbn [fall_through] in Hedges.
    - (* Terminate: the edge to <terminate> *)
      exists (NBlock (ab_off b), NTerm). split; [|reflexivity].
      eapply kept; [apply Hedges; now left| |].
      + rewrite Heq by reflexivity. cbn [snd]. unfold shallow_terminate. rewrite Ex. cbn. reflexivity.
      + reflexivity.
    - (* FallThrough *)
      destruct (find_block sorted f) as [to|] eqn:Ef.
      + exists (NBlock (ab_off b), NBlock f). split; [|reflexivity].
        eapply kept; [apply Hedges; now left| |].
        * rewrite Heq by reflexivity. cbn [snd]. rewrite Ef. unfold shallow_block. rewrite Ex. cbn. reflexivity.
        * apply find_block_In in Ef as [_ Eo]. cbn. rewrite Eo. apply Z.eqb_refl.
      + exists (NBlock (ab_off b), NTerm). split; [|reflexivity].
        eapply kept; [apply Hedges; now left| |].
        * rewrite Heq by reflexivity. cbn [snd]. unfold shallow_terminate. rewrite Ex. cbn. reflexivity.
        * reflexivity.
    - (* Unconditional *)
      assert (Hbad : In (NBlock (ab_off b), NBad) (g_edges g)) by (apply Hedges; cbn; auto).
      destruct (query_ok _ Hbad) as [qb Hqb]. rewrite Heq in Hqb by reflexivity. cbn [snd] in Hqb.
      unfold shallow_bad_jump in Hqb. rewrite Ex in Hqb. cbn [exit_to_z3] in Hqb.
      destruct (tr_sexpr_from 0 u) as [[zt n]|er|p] eqn:Et; cbn [bind fst] in Hqb; try discriminate.
      set (v := bv_eval M0 zt).
      destruct (in_dec Z.eq_dec v (jt_offsets sorted)) as [Hin|Hnin].
      + (* the value is a jump target: the edge to that block survives *)
        pose proof (proj1 (jt_offsets_jts v) Hin) as Hj.
        destruct (Hjt v Hj) as (to & Hto & Hjto & Eo).
        exists (NBlock (ab_off b), NBlock v). split; [|reflexivity].
        eapply kept.
        * apply Hedges. cbn [app]. right. apply in_map_iff. exists v. split; [reflexivity|].
          apply filter_In. split; [exact Hj|reflexivity].
        * rewrite Heq by reflexivity. cbn [snd]. rewrite <- Eo, (find_block_unique _ _ Nd Hto).
          unfold shallow_block. rewrite Ex. cbn [exit_to_z3]. rewrite Et. cbn [bind fst]. reflexivity.
        * apply keep_if_satisfied with (M := M0). intros f0 [<-|[]]. cbn [form_eval cmp_sem].
          rewrite offset_const_eval by (apply Hoff; exact Hto). fold v. rewrite Eo. apply Z.eqb_refl.
      + exists (NBlock (ab_off b), NBad). split; [|reflexivity].
        eapply kept; [exact Hbad| |].
        * rewrite Heq by reflexivity. cbn [snd]. unfold shallow_bad_jump. rewrite Ex. cbn [exit_to_z3].
          rewrite Et. cbn [bind fst]. reflexivity.
        * apply keep_if_satisfied with (M := M0). intros f0 Hf0. apply in_map_iff in Hf0 as (off & <- & Ho).
          cbn [form_eval cmp_sem]. fold v.
          assert (Hb' : exists to, In to sorted /\ ab_off to = off).
          { unfold jt_offsets in Ho. apply in_map_iff in Ho as (to & E & Hto). apply filter_In in Hto as [Hto _]. eauto. }
          destruct Hb' as (to & Hto & <-). rewrite offset_const_eval by (apply Hoff; exact Hto).
          apply Bool.negb_true_iff. apply Z.eqb_neq. intros E. apply Hnin. rewrite <- E. exact Ho.
    - (* Branch *)
      assert (Hbad : In (NBlock (ab_off b), NBad) (g_edges g)).
      { apply Hedges. apply in_or_app. right. cbn; auto. }
      destruct (query_ok _ Hbad) as [qb Hqb]. rewrite Heq in Hqb by reflexivity. cbn [snd] in Hqb.
      unfold shallow_bad_jump in Hqb. rewrite Ex in Hqb. cbn [exit_to_z3] in Hqb.
      destruct (tr_sexpr_from 0 t) as [[zt n]|er|p] eqn:Et; cbn [bind fst snd] in Hqb; try discriminate.
      destruct (tr_sexpr_from n c) as [[zc n']|er|p] eqn:Ec; cbn [bind fst snd] in Hqb; try discriminate.
      assert (Hz : exit_to_z3 (ABranch c t f) = Ok (ZBranch zc zt f)).
      { cbn [exit_to_z3]. rewrite Et. cbn [bind fst snd]. rewrite Ec. reflexivity. }
      pose proof (Hft b c t f Hb Ex) as Hf.
      set (vc := bv_eval M0 zc). set (vt := bv_eval M0 zt).
      destruct (Z.eq_dec vc 0) as [Hc0|Hc0].
      + (* condition is zero in M0: the fall-through edge survives *)
        destruct (find_block sorted f) as [to|] eqn:Ef.
        * exists (NBlock (ab_off b), NBlock f). split; [|reflexivity].
          eapply kept; [apply Hedges; apply in_or_app; left; now left| |].
          -- rewrite Heq by reflexivity. cbn [snd]. rewrite Ef. unfold shallow_block. rewrite Ex, Hz. cbn [bind]. reflexivity.
          -- apply keep_if_satisfied with (M := M0). intros f0 [<-|[]].
             apply find_block_In in Ef as [Hto Eo].
             cbn [form_eval cmp_sem bv_eval]. fold vc.
             change (bv_eval M0 zero256) with (0 mod 2 ^ 256). rewrite Z.mod_0_l by lia.
             rewrite Hc0. cbn [Z.eqb]. rewrite Eo. apply Z.eqb_refl.
        * exists (NBlock (ab_off b), NTerm). split; [|reflexivity].
          eapply kept; [apply Hedges; apply in_or_app; left; now left| |].
          -- rewrite Heq by reflexivity. cbn [snd]. unfold shallow_terminate. rewrite Ex, Hz. cbn [bind]. reflexivity.
          -- apply keep_if_satisfied with (M := M0). intros f0 [<-|[]].
             cbn [form_eval cmp_sem]. change (bv_eval M0 zero256) with (0 mod 2 ^ 256). rewrite Z.mod_0_l by lia.
             fold vc. rewrite Hc0. reflexivity.
      + destruct (in_dec Z.eq_dec vt (jt_offsets sorted)) as [Hin|Hnin].
        * pose proof (proj1 (jt_offsets_jts vt) Hin) as Hj.
          destruct (Hjt vt Hj) as (to & Hto & Hjto & Eo).
          exists (NBlock (ab_off b), NBlock vt). split; [|reflexivity].
          assert (Hedge : In (NBlock (ab_off b), NBlock vt) (g_edges g)).
          { apply Hedges. destruct (find_block sorted f) as [tf|] eqn:Ef.
            - destruct (Z.eq_dec vt f) as [->|Hne]; [apply in_or_app; left; now left|].
              apply in_or_app. right. cbn [app]. right. apply in_map_iff. exists vt. split; [reflexivity|].
              apply filter_In. split; [exact Hj|]. apply Bool.negb_true_iff. now apply Z.eqb_neq.
            - apply in_or_app. right. cbn [app]. right. apply in_map_iff. exists vt. split; [reflexivity|].
              apply filter_In. split; [exact Hj|reflexivity]. }
          eapply kept; [exact Hedge| |].
          -- rewrite Heq by reflexivity. cbn [snd]. rewrite <- Eo, (find_block_unique _ _ Nd Hto).
             unfold shallow_block. rewrite Ex, Hz. cbn [bind]. reflexivity.
          -- apply keep_if_satisfied with (M := M0). intros f0 [<-|[]].
             cbn [form_eval cmp_sem bv_eval]. fold vc vt.
             change (bv_eval M0 zero256) with (0 mod 2 ^ 256). rewrite Z.mod_0_l by lia.
             destruct (Z.eqb_spec vc 0); [contradiction|].
             rewrite offset_const_eval by (apply Hoff; exact Hto). rewrite Eo. apply Z.eqb_refl.
        * exists (NBlock (ab_off b), NBad). split; [|reflexivity].
          eapply kept; [exact Hbad| |].
          -- rewrite Heq by reflexivity. cbn [snd]. unfold shallow_bad_jump. rewrite Ex, Hz. cbn [bind]. reflexivity.
          -- apply keep_if_satisfied with (M := M0). intros f0 [<-|Hf0].
             ++ cbn [form_eval cmp_sem]. change (bv_eval M0 zero256) with (0 mod 2 ^ 256). rewrite Z.mod_0_l by lia.
                fold vc. apply Bool.negb_true_iff. apply Z.eqb_neq. lia.
             ++ apply in_map_iff in Hf0 as (off & <- & Ho). cbn [form_eval cmp_sem]. fold vt.
                assert (Hb' : exists to, In to sorted /\ ab_off to = off).
                { unfold jt_offsets in Ho. apply in_map_iff in Ho as (to & E & Hto). apply filter_In in Hto as [Hto _]. eauto. }
                destruct Hb' as (to & Hto & <-). rewrite offset_const_eval by (apply Hoff; exact Hto).
                apply Bool.negb_true_iff. apply Z.eqb_neq. intros E. apply Hnin. rewrite <- E. exact Ho.
  Qed.
End Successors.

(* ---------- fall-through and halting blocks have exactly one, mandatory, successor ---------- *)
Lemma edges_from_block : forall blocks g b e,
  cfg_new blocks = Ok g -> In b (g_blocks g) -> In e (g_edges g) -> fst e = NBlock (ab_off b) ->
  In e (block_edges (g_blocks g) (jts_of blocks) b).
Proof.
  intros blocks g b e H Hb He Hsrc.
  destruct (cfg_new_wf _ _ H) as (_ & Nd & _ & _ & _).
  unfold cfg_new in H. destruct (by_offset blocks []) as [s|er|p] eqn:Eb; cbn [bind] in H; try discriminate.
  inversion H; subst. cbn [g_blocks g_edges] in *.
  apply in_concat in He as (es & Hes & Hine). apply in_map_iff in Hes as (b' & <- & Hb').
  pose proof (block_edges_ok _ _ _ _ Hine) as [Hs _]. rewrite Hsrc in Hs. inversion Hs as [Eo].
  assert (b = b').
  { pose proof (find_block_unique _ _ Nd Hb) as F1. pose proof (find_block_unique _ _ Nd Hb') as F2.
    rewrite Eo in F1. congruence. }
  now subst.
Qed.

Lemma mandatory_edge : forall sorted jts b,
  (ab_exit b = ATerminate -> block_edges sorted jts b = [(NBlock (ab_off b), NTerm)]) /\
  (forall f, ab_exit b = AFallThrough f ->
     block_edges sorted jts b = [(NBlock (ab_off b), match find_block sorted f with Some _ => NBlock f | None => NTerm end)]).
Proof.
  intros sorted jts b. split.
  - intros E. unfold block_edges. rewrite E. reflexivity.
  - intros f E. unfold block_edges. rewrite E. cbn [fall_through]. destruct (find_block sorted f); reflexivity.
Qed.

(* ---------- ControlFlowGraph::new and refine_shallow never panic (for C15) ---------- *)
Lemma insert_sorted_offsets : forall b s x, In x (offsets (insert_sorted_block b s)) <-> x = ab_off b \/ In x (offsets s).
Proof.
  intros b s x. unfold offsets. split; intros H.
  - apply in_map_iff in H as (y & E & Hy).
    eapply Permutation_in in Hy; [|apply Permutation_sym; apply insert_sorted_perm].
    destruct Hy as [<-|Hy]; [now left|right; rewrite <- E; now apply in_map].
  - assert (P : Permutation (b :: s) (insert_sorted_block b s)) by apply insert_sorted_perm.
    destruct H as [->|H].
    + apply in_map. eapply Permutation_in; [exact P|now left].
    + apply in_map_iff in H as (y & E & Hy). rewrite <- E. apply in_map.
      eapply Permutation_in; [exact P|now right].
Qed.

Lemma by_offset_total : forall blocks acc,
  NoDup (offsets blocks) -> (forall x, In x (offsets blocks) -> ~ In x (offsets acc)) ->
  exists sorted, by_offset blocks acc = Ok sorted.
Proof.
  induction blocks as [|b r IH]; intros acc Hnd Hdis; cbn [by_offset]; [eauto|].
  unfold offsets in Hnd. cbn [map] in Hnd. inversion Hnd as [|? ? Hn Hr]; subst.
  unfold insert_block.
  destruct (existsb (fun x => ab_off x =? ab_off b) acc) eqn:E.
  - exfalso. apply existsb_exists in E as (x & Hx & Ex). apply Z.eqb_eq in Ex.
    apply (Hdis (ab_off b)); [cbn; now left|]. unfold offsets. rewrite <- Ex. now apply in_map.
  - cbn [bind]. apply IH; [exact Hr|].
    intros x Hx Hin. apply insert_sorted_offsets in Hin as [->|Hin].
    + apply Hn. exact Hx.
    + apply (Hdis x); [cbn; now right|exact Hin].
Qed.

Theorem cfg_new_total : forall blocks, NoDup (offsets blocks) -> exists g, cfg_new blocks = Ok g.
Proof.
  intros blocks Hnd. unfold cfg_new.
  destruct (by_offset_total blocks [] Hnd) as [sorted E]; [intros x _ []|].
  rewrite E. cbn [bind]. eauto.
Qed.

Definition exit_translates (b : ablock) : Prop := exists z, exit_to_z3 (ab_exit b) = Ok z.

Lemma edge_query_total : forall sorted jts b e,
  NoDup (offsets sorted) -> In b sorted -> exit_translates b ->
  (forall t, In t jts -> In t (offsets sorted)) ->
  In e (block_edges sorted jts b) -> exists q, edge_query sorted e = Ok q.
Proof.
  intros sorted jts b e Nd Hb [z Hz] Hj He.
  pose proof (find_block_unique _ _ Nd Hb) as Hfb.
  assert (Hfind : forall t, In t (offsets sorted) -> exists to, find_block sorted t = Some to).
  { intros t Ht. unfold offsets in Ht. apply in_map_iff in Ht as (to & <- & Hto). now apply find_block_some. }
  unfold block_edges in He. unfold edge_query.
  destruct (ab_exit b) as [|f|u|c t f] eqn:Ex; cbn [fall_through] in He.
  - (* Terminate *) destruct He as [<-|[]]. cbn [fst snd]. rewrite Hfb.
    unfold shallow_terminate. rewrite Ex. cbn. eauto.
  - (* FallThrough *)
    destruct (find_block sorted f) as [to|] eqn:Ef; destruct He as [<-|[]]; cbn [fst snd]; rewrite Hfb.
    + rewrite Ef. unfold shallow_block. rewrite Ex. cbn. eauto.
    + unfold shallow_terminate. rewrite Ex. cbn. eauto.
  - (* Unconditional *)
    cbn [exit_to_z3] in Hz.
    destruct (tr_sexpr_from 0 u) as [[zt n]|er|p] eqn:Et; cbn [bind] in Hz; try discriminate.
    cbn [app In] in He. destruct He as [<-|He]; cbn [fst snd]; rewrite ?Hfb.
    + unfold shallow_bad_jump. rewrite Ex. cbn [exit_to_z3]. rewrite Et. cbn. eauto.
    + apply in_map_iff in He as (t & <- & Ht). apply filter_In in Ht as [Ht _]. cbn [fst snd]. rewrite Hfb.
      destruct (Hfind t (Hj t Ht)) as [to Eto]. rewrite Eto.
      unfold shallow_block. rewrite Ex. cbn [exit_to_z3]. rewrite Et. cbn. eauto.
  - (* Branch *)
    cbn [exit_to_z3] in Hz.
    destruct (tr_sexpr_from 0 t) as [[zt n]|er|p] eqn:Et; cbn [bind fst snd] in Hz; try discriminate.
    destruct (tr_sexpr_from n c) as [[zc n']|er|p] eqn:Ec; cbn [bind fst snd] in Hz; try discriminate.
    assert (Hzz : exit_to_z3 (ABranch c t f) = Ok (ZBranch zc zt f)).
    { cbn [exit_to_z3]. rewrite Et. cbn [bind fst snd]. rewrite Ec. reflexivity. }
    apply in_app_or in He as [He|He].
    + destruct (find_block sorted f) as [to|] eqn:Ef; destruct He as [<-|[]]; cbn [fst snd]; rewrite Hfb.
      * rewrite Ef. unfold shallow_block. rewrite Ex, Hzz. cbn. eauto.
      * unfold shallow_terminate. rewrite Ex, Hzz. cbn. eauto.
    + cbn [app In] in He. destruct He as [<-|He]; cbn [fst snd]; rewrite ?Hfb.
      * unfold shallow_bad_jump. rewrite Ex, Hzz. cbn. eauto.
      * apply in_map_iff in He as (t' & <- & Ht). apply filter_In in Ht as [Ht _]. cbn [fst snd]. rewrite Hfb.
        destruct (Hfind t' (Hj t' Ht)) as [to Eto]. rewrite Eto.
        unfold shallow_block. rewrite Ex, Hzz. cbn. eauto.
Qed.

Theorem refine_total : forall solver blocks g,
  cfg_new blocks = Ok g -> Forall exit_translates blocks ->
  exists g', refine solver g = Ok g'.
Proof.
  intros solver blocks g H Htr.
  destruct (cfg_new_wf _ _ H) as (P & Nd & _ & _ & Hjt).
  assert (Hall : forall e, In e (g_edges g) -> exists q, edge_query (g_blocks g) e = Ok q).
  { intros e He. unfold cfg_new in H.
    destruct (by_offset blocks []) as [s|er|p] eqn:Eb; cbn [bind] in H; try discriminate.
    inversion H; subst. cbn [g_blocks g_edges] in *.
    apply in_concat in He as (es & Hes & Hine). apply in_map_iff in Hes as (b & <- & Hb).
    apply (edge_query_total s (map ab_off (filter ab_jt blocks)) b e); [exact Nd|exact Hb| | |exact Hine].
    - rewrite Forall_forall in Htr. apply Htr. apply in_rev. eapply Permutation_in; [apply Permutation_sym; exact P|exact Hb].
    - intros t Ht. destruct (Hjt t Ht) as (to & Hto & _ & <-). unfold offsets. now apply in_map. }
  unfold refine.
  assert (Hre : exists es, refine_edges solver (g_blocks g) (g_edges g) = Ok es).
  { revert Hall. generalize (g_edges g) as l. induction l as [|e r IH]; intros Hall; cbn [refine_edges]; [eauto|].
    destruct (Hall e (or_introl eq_refl)) as [q Eq]. rewrite Eq. cbn [bind].
    destruct IH as [es Ees]; [intros x Hx; apply Hall; now right|]. rewrite Ees. cbn [bind]. eauto. }
  destruct Hre as [es Ees]. rewrite Ees. cbn [bind]. eauto.
Qed.
