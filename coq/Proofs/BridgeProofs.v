(* Proofs/BridgeProofs.v -- from the annotator's meaning of an expression (Model/Annot.v: ghost
   tags, oracle rho indexed by instruction) to the meaning the solver translation is proved
   against (Spec/SymEval.v: one observed word per state-read node in post-order, environment
   words, calldataload/blockhash as functions). *)
From Verif Require Import Model.Base Model.Ops Model.Disasm Model.Sym Model.SymTree Model.Annot
  Spec.EvmSem Spec.EvmExec Spec.SymEval Spec.CfgSpec Proofs.AnnotProofs Proofs.AnnotTotalProofs.
From Coq Require Import Lia.
Open Scope Z_scope.

(* the words observed at the unconstrained nodes of t, in post-order: state reads, and EXP with
   a non-literal exponent (the solver sees a fresh constant; its value in the execution is a ** b) *)
Fixpoint read_vals (s : list Z) (rho : nat -> Z) (t : ttree) : list Z :=
  match t with
  | TNode (sy, tag) args =>
      flat_map (read_vals s rho) args
      ++ match sy with
         | SExp => if exp_is_literal (map erase_tree args) then []
                   else [eval_sym s SExp (map (Annot.eval_tree s rho) args)]
         | _ => if read_sym sy then [match tag with Some k => rho k | None => 0 end] else []
         end
  end.

Definition senv_of (Wd : world) (s : list Z) (reads : list Z) : senv :=
  mkSenv (fun n => nth (Z.to_nat (n - 1)) s 0)
         (fun sy => match read_code sy with Some c => wd_env Wd c | None => 0 end)
         (wd_calldataload Wd) (wd_blockhash Wd) (fun k => nth k reads 0).

Definition senv_matches (Wd : world) (s : list Z) (E : senv) : Prop :=
  (forall n, se_var E n = nth (Z.to_nat (n - 1)) s 0) /\
  (forall sy, se_env E sy = match read_code sy with Some c => wd_env Wd c | None => 0 end) /\
  (forall x, se_calldataload E x = wd_calldataload Wd x) /\
  (forall x, se_blockhash E x = wd_blockhash Wd x).

Lemma wrap_small : forall v, is_word v -> wrap v = v.
Proof. intros v Hv. unfold wrap. apply Z.mod_small. exact Hv. Qed.

Lemma pure_apply_evm_pure : forall sy p args, sym_pure sy = Some p -> length args = children sy ->
  pure_apply p args = evm_pure sy args.
Proof.
  intros sy p args Hp Hl.
  destruct sy; try discriminate Hp; injection Hp as <-; cbn [children] in Hl;
    repeat (destruct args as [|? args]; try discriminate Hl); reflexivity.
Qed.

Lemma eval_trees_eq : forall E l n, SymEval.eval_trees E l n =
  match l with
  | [] => ([], n)
  | x :: r => let '(vx, n1) := SymEval.eval_tree E x n in
              let '(vr, n2) := SymEval.eval_trees E r n1 in (vx :: vr, n2)
  end.
Proof. intros E [|x r] n; reflexivity. Qed.

Lemma sym_eval_node : forall E s args n,
  SymEval.eval_tree E (SNode s args) n =
  let '(vs, n') := SymEval.eval_trees E args n in eval_node E s (exp_is_literal args) vs n'.
Proof. reflexivity. Qed.

Lemma nth_word : forall (s : list Z) i, Forall is_word s -> is_word (nth i s 0).
Proof.
  intros s i H. destruct (Nat.lt_ge_cases i (length s)) as [L|L].
  - rewrite Forall_forall in H. apply H. now apply nth_In.
  - rewrite nth_overflow by exact L. unfold is_word, W. lia.
Qed.

Lemma sym_eq_exp : forall sy : sym, sy = SExp \/ sy <> SExp.
Proof. intros sy. destruct sy; (left; reflexivity) || (right; discriminate). Qed.

Theorem bridge : forall Wd s rho tr,
  consistent Wd rho tr -> words s rho ->
  forall t, reads_ok s rho tr t -> wf_tree (erase_tree t) = true ->
  forall E n, senv_matches Wd s E ->
    (forall i, (i < length (read_vals s rho t))%nat -> se_read E (n + i) = nth i (read_vals s rho t) 0) ->
    SymEval.eval_tree E (erase_tree t) n
    = (Annot.eval_tree s rho t, (n + length (read_vals s rho t))%nat).
Proof.
  intros Wd s rho tr Hc [Hs Hrho].
  induction t as [[sy tag] args IH] using ttree_ind'.
  intros Hr Hwf E n HE Hread.
  apply reads_ok_node in Hr as (Har & Hargs & Htag).
  cbn [erase_tree fst wf_tree] in Hwf |- *.
  apply andb_prop in Hwf as [Hwf Hwfa]. apply andb_prop in Hwf as [Hsy _].
  rewrite sym_eval_node.
  cbn [read_vals] in Hread. rewrite app_length in Hread.
  (* the arguments *)
  assert (A : forall n0,
             (forall i, (i < length (flat_map (read_vals s rho) args))%nat ->
                        se_read E (n0 + i) = nth i (flat_map (read_vals s rho) args) 0) ->
             SymEval.eval_trees E (map erase_tree args) n0
             = (map (Annot.eval_tree s rho) args, (n0 + length (flat_map (read_vals s rho) args))%nat)).
  { clear Hread Htag Har. induction args as [|x xs IHxs]; intros n0 Hrd.
    - cbn. f_equal. lia.
    - inversion IH as [|? ? Hx Hxs]; subst. inversion Hargs as [|? ? Rx Rxs]; subst.
      cbn [map forallb] in Hwfa. apply andb_prop in Hwfa as [Wx Wxs].
      cbn [map flat_map] in *. rewrite eval_trees_eq. rewrite app_length in Hrd.
      rewrite (Hx Rx Wx E n0 HE).
      2:{ intros i Hi. rewrite (Hrd i) by lia. now rewrite app_nth1. }
      rewrite (IHxs Hxs Rxs Wxs (n0 + length (read_vals s rho x))%nat).
      2:{ intros i Hi. replace (n0 + length (read_vals s rho x) + i)%nat with (n0 + (length (read_vals s rho x) + i))%nat by lia.
          rewrite (Hrd (length (read_vals s rho x) + i)%nat) by lia.
          rewrite app_nth2 by lia. f_equal. lia. }
      rewrite app_length. f_equal. lia. }
  rewrite A.
  2:{ intros i Hi. rewrite (Hread i) by lia. now rewrite app_nth1. }
  clear A IH.
  set (m := length (flat_map (read_vals s rho) args)) in *.
  destruct HE as (Ev & Ee & Ecd & Ebh).
  destruct tag as [k|].
  - (* a node created by a state-reading instruction *)
    destruct Htag as (c & Hcode & Hin). destruct (Hc _ _ _ Hin) as (Cenv & Ccd & Cbh).
    cbn [Annot.eval_tree].
    assert (Hw : wrap (rho k) = rho k) by (apply wrap_small; apply Hrho).
    destruct sy; try discriminate Hcode; injection Hcode as <-;
      cbn [eval_node read_sym env_sym read_vals app length] in *;
      rewrite ?Ee, ?Ecd, ?Ebh; cbn [read_code]; rewrite ?app_length; cbn [length];
      try (rewrite <- (Cenv eq_refl), Hw; f_equal; lia);
      try (rewrite (Hread m) by lia; rewrite app_nth2 by lia; rewrite Nat.sub_diag; cbn [nth];
           rewrite Hw; f_equal; lia).
    + (* calldataload *) rewrite <- (Ccd eq_refl), Hw. f_equal. lia.
    + (* blockhash *) rewrite <- (Cbh eq_refl), Hw. f_equal. lia.
  - (* computed *)
    cbn [Annot.eval_tree].
    destruct (sym_eq_exp sy) as [->|Hne].
    { (* exp *)
      cbn [children] in Har.
      destruct args as [|a0 [|a1 [|? ?]]]; try discriminate Har.
      cbn [eval_node read_vals] in *. fold m in Hread |- *.
      destruct (exp_is_literal (map erase_tree [a0; a1])).
      - rewrite app_nil_r. cbn [map nth eval_sym sym_pure pure_apply op2]. fold m. reflexivity.
      - rewrite app_length. cbn [length]. rewrite (Hread m) by (cbn [length]; lia).
        rewrite app_nth2 by (fold m; lia). fold m. rewrite Nat.sub_diag. cbn [nth map eval_sym sym_pure pure_apply op2].
        f_equal; [|lia]. unfold evm_exp, wrap. apply Z.mod_mod. unfold W. lia. }
    destruct sy; try congruence; try discriminate Htag; cbn [eval_node read_sym env_sym eval_sym read_vals sym_pure];
      rewrite app_length; cbn [length]; fold m; rewrite !Nat.add_0_r;
      try (f_equal; symmetry; apply pure_apply_evm_pure; [reflexivity|rewrite map_length; symmetry; exact Har]).
    + (* const *) cbn [wf_sym] in Hsy. apply andb_prop in Hsy as [L H]. f_equal.
      apply wrap_small. unfold is_word, W. lia.
    + (* var *) rewrite Ev. f_equal. apply wrap_small. now apply nth_word.
    + (* pc *) cbn [wf_sym] in Hsy. apply andb_prop in Hsy as [L H]. f_equal.
      apply wrap_small. unfold is_word, W. lia.
Qed.
