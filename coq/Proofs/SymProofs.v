(* Proofs/SymProofs.v -- trees and their prefix encodings: induction principle, and decoding an
   encoding gives the tree back (what Expr::walk traverses is the tree that was built). *)
From Coq Require Import Lia.
From Verif Require Import Model.Base Model.Sym Model.SymTree.

(* induction over trees with the hypothesis for all children *)
Fixpoint stree_ind' (P : stree -> Prop)
  (H : forall s args, Forall P args -> P (SNode s args)) (t : stree) : P t :=
  match t with
  | SNode s args =>
      H s args ((fix go (l : list stree) : Forall P l :=
                   match l with
                   | [] => Forall_nil P
                   | x :: r => Forall_cons x (stree_ind' P H x) (go r)
                   end) args)
  end.

(* the local fixpoint of decode_tree, named *)
Definition decode_args (f : nat) : nat -> sexpr -> option (list stree * sexpr) :=
  fix args (k : nat) (r : sexpr) : option (list stree * sexpr) :=
    match k with
    | O => Some ([], r)
    | S k' =>
        match decode_tree f r with
        | Some (t, r') =>
            match args k' r' with
            | Some (ts, r'') => Some (t :: ts, r'')
            | None => None
            end
        | None => None
        end
    end.

Lemma decode_tree_S : forall f s rest,
  decode_tree (S f) (s :: rest) =
  match decode_args f (children s) rest with
  | Some (ts, r) => Some (SNode s ts, r)
  | None => None
  end.
Proof. reflexivity. Qed.

Definition max_depth (l : list stree) : nat :=
  fold_right (fun x m => Nat.max (tree_depth x) m) O l.

Lemma tree_depth_node : forall s args, tree_depth (SNode s args) = S (max_depth args).
Proof. reflexivity. Qed.

Lemma encode_tree_node : forall s args,
  encode_tree (SNode s args) = s :: concat (map encode_tree args).
Proof. reflexivity. Qed.

Lemma arity_tree_node : forall s args,
  arity_tree (SNode s args) = Nat.eqb (length args) (children s) && forallb arity_tree args.
Proof. reflexivity. Qed.

(* decode (encode t ++ r) = (t, r) as soon as the fuel exceeds the depth *)
Theorem decode_encode : forall t, arity_tree t = true ->
  forall fuel r, (tree_depth t <= fuel)%nat ->
  decode_tree fuel (encode_tree t ++ r) = Some (t, r).
Proof.
  induction t as [s args IH] using stree_ind'.
  intros Ha fuel r Hf. rewrite arity_tree_node in Ha. apply andb_prop in Ha. destruct Ha as [Hn Hall].
  apply Nat.eqb_eq in Hn. rewrite tree_depth_node in Hf.
  destruct fuel as [|f]; [lia|].
  rewrite encode_tree_node. cbn [app]. rewrite decode_tree_S. rewrite <- Hn.
  assert (Hd : (max_depth args <= f)%nat) by lia. clear Hf Hn.
  assert (E : decode_args f (length args) (concat (map encode_tree args) ++ r) = Some (args, r)).
  { induction args as [|x xs IHxs]; [reflexivity|].
    inversion IH as [|? ? Hx Hxs]; subst.
    cbn [forallb] in Hall. apply andb_prop in Hall. destruct Hall as [Ax Axs].
    cbn [max_depth fold_right] in Hd. fold (max_depth xs) in Hd.
    cbn [length map concat]. rewrite <- app_assoc.
    cbn [decode_args]. rewrite (Hx Ax f _ ltac:(lia)).
    fold (decode_args f). rewrite (IHxs Hxs Axs ltac:(lia)). reflexivity. }
  rewrite E. reflexivity.
Qed.

Lemma max_depth_le_length : forall args,
  Forall (fun t => (tree_depth t <= length (encode_tree t))%nat) args ->
  (max_depth args <= length (concat (map encode_tree args)))%nat.
Proof.
  induction args as [|x xs IH]; intros H; [cbn; lia|].
  inversion H; subst. cbn [max_depth fold_right map concat]. fold (max_depth xs).
  rewrite app_length. specialize (IH ltac:(assumption)). lia.
Qed.

Lemma tree_depth_le_length : forall t, (tree_depth t <= length (encode_tree t))%nat.
Proof.
  induction t as [s args IH] using stree_ind'.
  rewrite tree_depth_node, encode_tree_node. cbn [length].
  pose proof (max_depth_le_length args IH). lia.
Qed.

(* the fuel that tree_of uses suffices *)
Theorem tree_of_encode : forall t, arity_tree t = true -> tree_of (encode_tree t) = Some t.
Proof.
  intros t Ha. unfold tree_of.
  pose proof (decode_encode t Ha (S (length (encode_tree t))) [] ) as H.
  rewrite app_nil_r in H. rewrite H; [reflexivity|].
  pose proof (tree_depth_le_length t). lia.
Qed.

Lemma wf_tree_arity : forall t, wf_tree t = true -> arity_tree t = true.
Proof.
  induction t as [s args IH] using stree_ind'. intros H.
  cbn [wf_tree] in H. apply andb_prop in H. destruct H as [H Hall]. apply andb_prop in H. destruct H as [_ Hn].
  rewrite arity_tree_node, Hn. cbn [andb]. clear Hn.
  induction args as [|x xs IHxs]; [reflexivity|].
  inversion IH; subst. cbn [forallb] in *. apply andb_prop in Hall. destruct Hall as [Hx Hxs].
  rewrite (H1 Hx). cbn [andb]. apply IHxs; assumption.
Qed.
