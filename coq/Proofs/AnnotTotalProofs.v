(* Proofs/AnnotTotalProofs.v -- the annotator is total on every block the Separator can produce
   (used by C15), including blocks containing the Cancun opcodes etk's table lacks. *)
From Coq Require Import Lia ZifyBool ZifyNat ZifyN.
From Verif Require Import Model.Base Model.Ops Model.Disasm Model.Blocks Model.Sym Model.SymTree
  Model.Annot Model.Pipeline Spec.EvmSem Spec.EvmExec Proofs.OpsProofs Proofs.DisasmProofs
  Proofs.BlocksProofs Proofs.SymProofs Proofs.AnnotProofs.

(* ====================================================================== *)
(* 1. on a deep enough stack the reference execution never underflows *)

Definition kind_small (k : kind) : bool :=
  match k with
  | KPure p => Nat.leb (pure_arity p) 3
  | KRead k | KDrop k | KHalt k => Nat.leb k 7
  | KDup n | KSwap n => Nat.leb 1 n && Nat.leb n 16
  | _ => true
  end.

Lemma kinds_small : bytes_all (fun c => kind_small (kind_of c)) = true.
Proof. vm_compute. reflexivity. Qed.

Lemma take_ok : forall k (s : list Z), (k <= length s)%nat ->
  take k s = Some (firstn k s, skipn k s).
Proof. intros k s H. unfold take. destruct (Nat.leb_spec k (length s)); [reflexivity|lia]. Qed.

Lemma exec_deep : forall ins rho idx pc s tr,
  Forall (fun i => (opcode i < 256)%N) ins ->
  (17 + 7 * length ins <= length s)%nat ->
  exists st t tr', exec rho idx pc ins s tr = Done st t tr'.
Proof.
  induction ins as [|i rest IH]; intros rho idx pc s tr Hc Hl.
  - cbn [exec]. eauto.
  - inversion Hc as [|? ? Hi Hrest]; subst. cbn [length] in Hl.
    pose proof (bytes_all_spec _ kinds_small (opcode i) Hi) as Hk. cbv beta in Hk.
    cbn [exec]. destruct (kind_of (opcode i)) as [p|k|k| | |n|n|k| |]; cbn [kind_small] in Hk.
    + apply Nat.leb_le in Hk. rewrite take_ok by lia. apply IH; [exact Hrest|].
      cbn [length]. rewrite skipn_length. lia.
    + apply Nat.leb_le in Hk. rewrite take_ok by lia. apply IH; [exact Hrest|].
      cbn [length]. rewrite skipn_length. lia.
    + apply Nat.leb_le in Hk. rewrite take_ok by lia. apply IH; [exact Hrest|].
      rewrite skipn_length. lia.
    + apply IH; [exact Hrest|]. cbn [length]. lia.
    + apply IH; [exact Hrest|]. cbn [length]. lia.
    + apply andb_true_iff in Hk as [H1 H2]. apply Nat.leb_le in H1, H2.
      destruct (nth_error s (n - 1)) as [v|] eqn:E; [|apply nth_error_None in E; lia].
      apply IH; [exact Hrest|]. cbn [length]. lia.
    + apply andb_true_iff in Hk as [H1 H2]. apply Nat.leb_le in H1, H2.
      unfold swap_top. destruct s as [|top s']; [cbn [length] in Hl; lia|].
      destruct (nth_error (top :: s') n) as [deep|] eqn:E; [|apply nth_error_None in E; cbn [length] in *; lia].
      apply IH; [exact Hrest|]. cbn [length tl] in *.
      rewrite app_length, firstn_length. cbn [length]. rewrite skipn_length. cbn [length]. lia.
    + apply Nat.leb_le in Hk. rewrite take_ok by lia. eauto.
    + destruct s as [|a s']; [cbn [length] in Hl; lia|]. eauto.
    + destruct s as [|a [|b s']]; cbn [length] in Hl; try lia. eauto.
Qed.

(* ====================================================================== *)
(* 2. the annotator sees an instruction only through its arm, its table row and its immediate;
      a Cancun-gap byte looks exactly like 0xfe (invalid) *)

Definition degap (op : item) : item :=
  if cancun_only (i_code op) then mkitem (i_off op) 0xfe (i_imm op) else op.

Definition op_equiv (a b : item) : Prop :=
  shape_of (i_code a) = shape_of (i_code b) /\
  r_pops (row_of a) = r_pops (row_of b) /\ r_pushes (row_of a) = r_pushes (row_of b) /\
  r_exits (row_of a) = r_exits (row_of b) /\ r_jump (row_of a) = r_jump (row_of b) /\
  r_jt (row_of a) = r_jt (row_of b) /\ r_extra (row_of a) = r_extra (row_of b) /\
  i_imm a = i_imm b.

Lemma op_equiv_refl : forall a, op_equiv a a.
Proof. intros a. repeat split. Qed.

Lemma gap_cases : forall c, cancun_only c = true -> c = 0x49%N \/ c = 0x4a%N \/ c = 0x5c%N \/ c = 0x5d%N.
Proof.
  intros c H. unfold cancun_only in H. rewrite !orb_true_iff, !N.eqb_eq in H. tauto.
Qed.

Lemma gap_like_fe : forall c, cancun_only c = true ->
  shape_of c = shape_of 0xfe /\
  r_pops (from_u8 cancun c) = r_pops (from_u8 cancun 0xfe) /\
  r_pushes (from_u8 cancun c) = r_pushes (from_u8 cancun 0xfe) /\
  r_exits (from_u8 cancun c) = r_exits (from_u8 cancun 0xfe) /\
  r_jump (from_u8 cancun c) = r_jump (from_u8 cancun 0xfe) /\
  r_jt (from_u8 cancun c) = r_jt (from_u8 cancun 0xfe) /\
  r_extra (from_u8 cancun c) = r_extra (from_u8 cancun 0xfe).
Proof.
  intros c H. destruct (gap_cases c H) as [ -> | [ -> | [ -> | -> ] ] ]; vm_compute; repeat split; reflexivity.
Qed.

Lemma degap_equiv : forall op, op_equiv op (degap op).
Proof.
  intros op. unfold degap. destruct (cancun_only (i_code op)) eqn:E; [|apply op_equiv_refl].
  destruct (gap_like_fe _ E) as (A & B & C & D & F & G & H).
  unfold op_equiv, row_of. cbn [i_code i_imm]. repeat split; assumption.
Qed.

Lemma annotate_one_ext : forall idx pc w a b, op_equiv a b ->
  annotate_one idx pc w a = annotate_one idx pc w b.
Proof.
  intros idx pc w a b (Hs & _ & _ & _ & _ & _ & _ & Hi). unfold annotate_one. now rewrite Hs, Hi.
Qed.

Lemma annotate_loop_ext : forall l1 l2, Forall2 op_equiv l1 l2 ->
  forall idx pc st, annotate_loop idx pc l1 st = annotate_loop idx pc l2 st.
Proof.
  induction 1 as [|a b r1 r2 Hab Hr IH]; intros idx pc st; [reflexivity|].
  cbn [annotate_loop]. rewrite (annotate_one_ext _ _ _ a b Hab).
  destruct Hab as (_ & Hp & Hq & He & Hj & _ & Hx & _).
  rewrite Hp, Hq. destruct (annotate_one idx pc _ b) as [[ox w']| |]; cbn [bind]; try reflexivity.
  unfold size. rewrite He, Hj, Hx. destruct ox as [x|].
  - inversion Hr; subst; reflexivity.
  - destruct (r_exits (row_of b)); [reflexivity|].
    destruct (usize_max <? pc + (1 + r_extra (row_of b)))%N; [reflexivity|].
    destruct (wdrop w'); cbn [bind]; try reflexivity. apply IH.
Qed.

Lemma Forall2_map_r : forall (A : Type) (R : A -> A -> Prop) (f : A -> A) l,
  (forall x, R x (f x)) -> Forall2 R l (map f l).
Proof. intros A R f l H. induction l; cbn [map]; constructor; auto. Qed.

Lemma annotate_degap : forall off ops, annotate off ops = annotate off (map degap ops).
Proof.
  intros off ops. unfold annotate.
  rewrite (annotate_loop_ext ops (map degap ops)) by (apply Forall2_map_r, degap_equiv).
  destruct (annotate_loop 0 off (map degap ops) _) as [[x st]| |]; cbn [bind]; try reflexivity.
  destruct ops as [|op rest]; [reflexivity|]. cbn [map].
  destruct (degap_equiv op) as (_ & _ & _ & _ & _ & Hjt & _). rewrite Hjt.
  f_equal. f_equal. f_equal. rewrite map_map. f_equal; [|].
  - unfold size. destruct (degap_equiv op) as (_ & _ & _ & _ & _ & _ & Hx & _). now rewrite Hx.
  - apply map_ext. intros o. unfold size.
    destruct (degap_equiv o) as (_ & _ & _ & _ & _ & _ & Hx & _). now rewrite Hx.
Qed.

(* ====================================================================== *)
(* 3. the exit of the annotator is decided by the last instruction *)

Ltac step_bind :=
  match goal with
  | |- context [bind ?r _] =>
      let v := fresh "v" in
      destruct r as [v| |]; cbn [bind]; try discriminate; try (destruct v)
  end.

Lemma annotate_one_exit : forall idx pc w op ox w',
  annotate_one idx pc w op = Ok (ox, w') ->
  match ox with
  | None => is_exit_shape (shape_of (i_code op)) = false
  | Some XTerm => exists k, shape_of (i_code op) = ShTerm k
  | Some (XJump _) => shape_of (i_code op) = ShJump
  | Some (XBranch _ _ f) => shape_of (i_code op) = ShJumpI /\ f = (pc + 1)%N
  | Some (XFall _) => False
  end.
Proof.
  intros idx pc w op ox w'. unfold annotate_one, push_none.
  destruct (shape_of (i_code op)) as [s k|s|k| | | |n|n|k| | |]; cbn [is_exit_shape];
    repeat step_bind;
    try (destruct (Nat.ltb 32 (length (i_imm op))); try discriminate; repeat step_bind);
    try (destruct (usize_max <? pc + 1)%N; try discriminate; repeat step_bind);
    intros H; inversion H; subst; eauto.
Qed.

Lemma sizes_app : forall a b, sizes (a ++ b) = (sizes a + sizes b)%N.
Proof.
  intros a b. unfold sizes. rewrite map_app. induction (map _ a) as [|x l IH]; cbn [app sumN fold_right].
  - reflexivity.
  - unfold sumN in *. rewrite IH. lia.
Qed.

Lemma loop_exit : forall ops idx pc st x st',
  annotate_loop idx pc ops st = Ok (x, st') ->
  match x with
  | XFall n => n = (pc + sizes ops)%N /\
      Forall (fun op => is_exit_shape (shape_of (i_code op)) = false /\ r_exits (row_of op) = false) ops
  | XTerm => exists pre op k, ops = pre ++ [op] /\ shape_of (i_code op) = ShTerm k /\ r_exits (row_of op) = true
  | XJump _ => exists pre op, ops = pre ++ [op] /\ shape_of (i_code op) = ShJump /\ r_jump (row_of op) = true
  | XBranch _ _ f => exists pre op, ops = pre ++ [op] /\ shape_of (i_code op) = ShJumpI /\
      r_jump (row_of op) = true /\ f = (pc + sizes pre + 1)%N
  end.
Proof.
  induction ops as [|op rest IH]; intros idx pc st x st' H.
  - cbn [annotate_loop] in H. inversion H; subst. split; [unfold sizes; cbn; lia|constructor].
  - cbn [annotate_loop] in H.
    destruct (annotate_one idx pc _ op) as [[ox w']| |] eqn:E1; cbn [bind] in H; try discriminate.
    apply annotate_one_exit in E1. destruct ox as [x0|].
    + destruct rest as [|? ?]; [|discriminate].
      destruct (negb _) eqn:Em in H; [discriminate|]. apply negb_false_iff in Em.
      destruct (wdrop w'); cbn [bind] in H; try discriminate. inversion H; subst x0 st'.
      destruct x as [|n|d|c t f].
      * destruct E1 as [k Hk]. exists [], op, k. auto.
      * destruct E1.
      * exists [], op. auto.
      * destruct E1 as [Hs ->]. exists [], op. repeat split; auto. unfold sizes. cbn. lia.
    + destruct (r_exits (row_of op)) eqn:Ee; [discriminate|].
      destruct (usize_max <? pc + size (row_of op))%N; [discriminate|].
      destruct (wdrop w'); cbn [bind] in H; try discriminate.
      apply IH in H. destruct x as [|n|d|c t f].
      * destruct H as (pre & o & k & -> & Hk & He). exists (op :: pre), o, k. auto.
      * destruct H as [-> HF]. split; [rewrite sizes_cons; lia|]. constructor; auto.
      * destruct H as (pre & o & -> & Hk & He). exists (op :: pre), o. auto.
      * destruct H as (pre & o & -> & Hk & He & ->). exists (op :: pre), o. repeat split; auto.
        rewrite sizes_cons. lia.
Qed.

(* table facts about the arms (all 256 bytes, the gap bytes included) *)
Lemma arm_flags : bytes_all (fun c =>
  match shape_of c with
  | ShJump => (c =? 0x56)%N
  | ShJumpI => (c =? 0x57)%N && (r_extra (from_u8 cancun c) =? 0)%N
  | _ => negb (r_jump (from_u8 cancun c))
  end) = true.
Proof. vm_compute. reflexivity. Qed.

Lemma arm_fact : forall c, (c < 256)%N ->
  match shape_of c with
  | ShJump => (c =? 0x56)%N
  | ShJumpI => (c =? 0x57)%N && (r_extra (from_u8 cancun c) =? 0)%N
  | _ => negb (r_jump (from_u8 cancun c))
  end = true.
Proof. intros c Hc. exact (bytes_all_spec _ arm_flags c Hc). Qed.

(* ====================================================================== *)
(* 4. erasure of trees; arity *)

Fixpoint erase_tree (t : ttree) : stree :=
  match t with TNode s args => SNode (fst s) (map erase_tree args) end.

Lemma erase_tencode : forall t, erase (tencode t) = encode_tree (erase_tree t).
Proof.
  induction t as [s args IH] using ttree_ind'.
  cbn [tencode erase_tree encode_tree]. unfold erase in *. cbn [map]. f_equal.
  rewrite concat_map, !map_map. f_equal. apply map_ext_in. intros a Ha.
  rewrite Forall_forall in IH. now apply IH.
Qed.

Lemma arity_erase : forall t, arity_ok t -> arity_tree (erase_tree t) = true.
Proof.
  induction t as [s args IH] using ttree_ind'. intros H.
  apply arity_ok_node in H as [Hc Ha]. cbn [erase_tree]. rewrite arity_tree_node, map_length.
  apply andb_true_iff. split; [apply Nat.eqb_eq; lia|].
  apply forallb_forall. intros x Hx. apply in_map_iff in Hx as (t & <- & Hin).
  rewrite Forall_forall in IH, Ha. auto.
Qed.

Lemma reads_ok_erased : forall s rho tr e, expr_reads_ok s rho tr e ->
  exists t, erase e = encode_tree t /\ arity_tree t = true.
Proof.
  intros s rho tr e H. unfold expr_reads_ok in H. destruct (ttree_of e) as [t|]; [|destruct H].
  destruct H as [-> Hr]. exists (erase_tree t). split; [apply erase_tencode|].
  apply arity_erase. eapply reads_ok_arity; exact Hr.
Qed.

(* ====================================================================== *)
(* 5. the hypotheses of the simulation theorem survive the replacement of gap bytes by 0xfe *)

Lemma degap_wf : forall op, wf_item op -> wf_item (degap op).
Proof.
  intros op H. unfold degap. destruct (cancun_only (i_code op)) eqn:E; [|exact H].
  destruct (gap_like_fe _ E) as (_ & _ & _ & _ & _ & _ & Hx).
  unfold wf_item, ilen, size in *. cbn [i_code i_imm]. rewrite <- Hx. exact H.
Qed.

Lemma degap_code : forall op, (i_code op < 256)%N -> (i_code (degap op) < 256)%N.
Proof. intros op H. unfold degap. destruct (cancun_only (i_code op)); [cbn; lia|exact H]. Qed.

Lemma degap_nogap : forall op, cancun_only (i_code (degap op)) = false.
Proof. intros op. unfold degap. destruct (cancun_only (i_code op)) eqn:E; [reflexivity|exact E]. Qed.

Lemma degap_jmp : forall op, cancun_jmp (degap op) = cancun_jmp op.
Proof.
  intros op. destruct (degap_equiv op) as (_ & _ & _ & He & Hj & _).
  unfold cancun_jmp. unfold row_of in *. now rewrite He, Hj.
Qed.

Lemma degap_5b : forall op, (i_code (degap op) =? 0x5b)%N = (i_code op =? 0x5b)%N.
Proof.
  intros op. unfold degap. destruct (cancun_only (i_code op)) eqn:E; [|reflexivity].
  destruct (gap_cases _ E) as [ H | [ H | [ H | H ] ] ]; rewrite H; reflexivity.
Qed.

Lemma removelast_map : forall (A B : Type) (f : A -> B) l, removelast (map f l) = map f (removelast l).
Proof.
  induction l as [|a [|b l] IH]; try reflexivity. cbn [map removelast] in *. now rewrite IH.
Qed.

Lemma block_size_degap : forall off ops,
  block_size (mkblock off (map degap ops)) = block_size (mkblock off ops).
Proof.
  intros off ops. unfold block_size. cbn [b_ops]. rewrite map_map. f_equal. apply map_ext.
  intros op. unfold degap. destruct (cancun_only (i_code op)); reflexivity.
Qed.

Lemma degap_hyps : forall off ops,
  ops <> [] -> Forall wf_item ops -> Forall (fun it => (i_code it < 256)%N) ops ->
  jmp_only_last cancun_jmp ops -> (off + block_size (mkblock off ops) <= 65536)%N ->
  block_hyps off (map degap ops).
Proof.
  intros off ops Hne Hw Hc Hj Hs. unfold block_hyps. repeat split.
  - destruct ops; [congruence|discriminate].
  - apply Forall_forall. intros x Hx. apply in_map_iff in Hx as (op & <- & Hin).
    rewrite Forall_forall in Hw. auto using degap_wf.
  - apply Forall_forall. intros x Hx. apply in_map_iff in Hx as (op & <- & Hin).
    rewrite Forall_forall in Hc. auto using degap_code.
  - unfold jmp_only_last in *. rewrite removelast_map. apply Forall_forall.
    intros x Hx. apply in_map_iff in Hx as (op & <- & Hin). rewrite degap_jmp.
    rewrite Forall_forall in Hj. auto.
  - unfold KnownClass_C06_cancun_gap. intros H. apply existsb_exists in H as (i & Hin & Hg).
    apply in_map_iff in Hin as (x & <- & Hin). apply in_map_iff in Hin as (op & <- & Hin).
    cbn [instr_of opcode] in Hg. now rewrite degap_nogap in Hg.
  - now rewrite block_size_degap.
Qed.

(* ====================================================================== *)
(* 6. totality *)

Definition last_op (ops : list item) : item := last ops (mkitem 0 0 []).

(* what is known about the annotation of a block *)
Definition block_facts (off : N) (ops : list item) (a : annotated) : Prop :=
  an_offset a = off /\
  an_jt a = match ops with it :: _ => (i_code it =? 0x5b)%N | [] => false end /\
  Forall (fun e => exists t, erase e = encode_tree t /\ arity_tree t = true) (exit_exprs (an_exit a)) /\
  match an_exit a with
  | XTerm => cancun_jmp (last_op ops) = true /\ r_jump (row_of (last_op ops)) = false
  | XFall n => n = (off + block_size (mkblock off ops))%N /\ cancun_jmp (last_op ops) = false
  | XJump _ => i_code (last_op ops) = 0x56%N
  | XBranch _ _ f => i_code (last_op ops) = 0x57%N /\ f = (off + block_size (mkblock off ops))%N
  end.

(* the shape of the blocks the Separator delivers (C04 + C16), within the first 2^16 code bytes *)
Definition block_shape (off : N) (ops : list item) : Prop :=
  ops <> [] /\ Forall wf_item ops /\ Forall (fun it => (i_code it < 256)%N) ops /\
  jmp_only_last cancun_jmp ops /\ (length ops <= 9359)%nat /\
  (off + block_size (mkblock off ops) <= 65536)%N.

Lemma annotate_inv : forall off ops a, annotate off ops = Ok a ->
  exists st, annotate_loop 0 off ops (mkast [] 0%Z []) = Ok (an_exit a, st).
Proof.
  intros off ops a H. unfold annotate in H.
  destruct (annotate_loop 0 off ops _) as [[x st]| |]; cbn [bind] in H; try discriminate.
  destruct ops; [discriminate|]. inversion H; subst. cbn [an_exit]. eauto.
Qed.

Theorem annotate_never_panics : forall off ops,
  ops <> [] -> Forall wf_item ops -> Forall (fun it => (i_code it < 256)%N) ops ->
  jmp_only_last cancun_jmp ops -> (length ops <= 9359)%nat ->
  (off + block_size (mkblock off ops) <= 65536)%N ->
  exists a, annotate off ops = Ok a /\ an_offset a = off /\
    an_jt a = match ops with it :: _ => (i_code it =? 0x5b)%N | [] => false end /\
    Forall (fun e => exists t, erase e = encode_tree t /\ arity_tree t = true) (exit_exprs (an_exit a)) /\
    match an_exit a with
    | XTerm => cancun_jmp (last ops (mkitem 0 0 [])) = true /\
               r_jump (row_of (last ops (mkitem 0 0 []))) = false
    | XFall n => n = (off + block_size (mkblock off ops))%N /\
                 cancun_jmp (last ops (mkitem 0 0 [])) = false
    | XJump _ => i_code (last ops (mkitem 0 0 [])) = 0x56%N
    | XBranch _ _ f => i_code (last ops (mkitem 0 0 [])) = 0x57%N /\
                       f = (off + block_size (mkblock off ops))%N
    end.
Proof.
  intros off ops Hne Hw Hc Hj Hlen Hs.
  pose proof (degap_hyps off ops Hne Hw Hc Hj Hs) as Hh.
  set (s := repeat 0%Z (17 + 7 * length ops)).
  set (rho := fun _ : nat => 0%Z).
  assert (E9 : Z.of_nat 9359 = 9359%Z) by (vm_compute; reflexivity).
  apply Nat2Z.inj_le in Hlen. rewrite E9 in Hlen.
  destruct (exec_deep (map instr_of (map degap ops)) rho 0 (Z.of_N off) s []) as (st & t & tr & Hex).
  { apply Forall_forall. intros i Hi. apply in_map_iff in Hi as (x & <- & Hi).
    apply in_map_iff in Hi as (op & <- & Hi). cbn [instr_of opcode]. apply degap_code.
    rewrite Forall_forall in Hc. auto. }
  { unfold s. rewrite !map_length, repeat_length. lia. }
  destruct (annotate_agrees off (map degap ops) s rho st t tr Hh) as (a & Ha & _ & _ & _ & _ & Hr & Ho & _ & Hjt).
  { unfold s. rewrite repeat_length. lia. }
  { exact Hex. }
  rewrite <- annotate_degap in Ha. exists a. split; [exact Ha|]. split; [exact Ho|]. split.
  { rewrite Hjt. destruct ops as [|op0 rest]; [reflexivity|]. cbn [map]. apply degap_5b. }
  split.
  { apply Forall_app in Hr as [_ Hr]. eapply Forall_impl; [|exact Hr].
    intros e He. eapply reads_ok_erased; exact He. }
  destruct (annotate_inv off ops a Ha) as (st' & Hl). apply loop_exit in Hl.
  destruct (an_exit a) as [|n|d|c tt f].
  - destruct Hl as (pre & op & k & -> & Hk & He). rewrite last_last.
    assert (H256 : (i_code op < 256)%N) by (rewrite Forall_forall in Hc; apply Hc, in_or_app; right; now left).
    pose proof (arm_fact _ H256) as Hf. rewrite Hk in Hf. apply negb_true_iff in Hf.
    unfold cancun_jmp. unfold row_of in *. rewrite He, Hf. auto.
  - destruct Hl as [-> HF]. rewrite (sizes_block_size off ops Hw). split; [reflexivity|].
    destruct (exists_last Hne) as (pre & op & ->). rewrite last_last.
    apply Forall_app in HF as [_ HF]. inversion HF as [|? ? [Hx He] _]; subst.
    assert (H256 : (i_code op < 256)%N) by (rewrite Forall_forall in Hc; apply Hc, in_or_app; right; now left).
    pose proof (arm_fact _ H256) as Hf.
    unfold cancun_jmp. unfold row_of in *. rewrite He.
    destruct (shape_of (i_code op)); try discriminate Hx; apply negb_true_iff in Hf; now rewrite Hf.
  - destruct Hl as (pre & op & -> & Hk & He). rewrite last_last.
    assert (H256 : (i_code op < 256)%N) by (rewrite Forall_forall in Hc; apply Hc, in_or_app; right; now left).
    pose proof (arm_fact _ H256) as Hf. rewrite Hk in Hf. now apply N.eqb_eq in Hf.
  - destruct Hl as (pre & op & -> & Hk & He & ->). rewrite last_last.
    assert (H256 : (i_code op < 256)%N) by (rewrite Forall_forall in Hc; apply Hc, in_or_app; right; now left).
    pose proof (arm_fact _ H256) as Hf. rewrite Hk in Hf. apply andb_true_iff in Hf as [Hf1 Hf2].
    apply N.eqb_eq in Hf1, Hf2. split; [exact Hf1|].
    assert (E1 : sizes [op] = 1%N).
    { unfold sizes, size, row_of. cbn [map sumN fold_right]. rewrite Hf2. lia. }
    rewrite <- (sizes_block_size off _ Hw), sizes_app, E1. lia.
Qed.

Corollary annotate_block_total : forall off ops, block_shape off ops ->
  exists a, annotate off ops = Ok a /\ block_facts off ops a.
Proof.
  intros off ops (H1 & H2 & H3 & H4 & H5 & H6).
  destruct (annotate_never_panics off ops H1 H2 H3 H4 H5 H6) as (a & Ha & A & B & C & D).
  exists a. split; [exact Ha|]. unfold block_facts, last_op. auto.
Qed.

(* (B) every block of a list *)
Theorem annotate_all_never_panics : forall bs,
  Forall (fun b => block_shape (b_off b) (b_ops b)) bs ->
  exists anns, annotate_all bs = Ok anns /\
    Forall2 (fun b a => block_facts (b_off b) (b_ops b) a) bs anns.
Proof.
  induction bs as [|b r IH]; intros H.
  - exists []. split; [reflexivity|constructor].
  - inversion H as [|? ? Hb Hr]; subst.
    destruct (annotate_block_total _ _ Hb) as (a & Ha & Hf).
    destruct (IH Hr) as (anns & Hall & HF).
    exists (a :: anns). cbn [annotate_all]. rewrite Ha. cbn [bind]. rewrite Hall. cbn [bind].
    split; [reflexivity|]. constructor; assumption.
Qed.

(* ====================================================================== *)
(* 7. every symbol the annotator emits has a payload in the range of its Rust type *)

Definition wfe (e : texpr) : Prop := Forall (fun ts => wf_sym (fst ts) = true) e.
Definition WFw (w : win) : Prop := Forall wfe (w_cur w) /\ (0 <= w_vars w)%Z.

Lemma count_pops_inv : forall k w w', count_pops k w = Ok w' ->
  w_cur w' = w_cur w /\ w_vars w' = w_vars w.
Proof.
  intros k w w' H. unfold count_pops in H. destruct (Nat.leb k (w_pops w)); [|discriminate].
  inversion H; subst. auto.
Qed.

Lemma count_pushes_inv : forall k w w', count_pushes k w = Ok w' ->
  w_cur w' = w_cur w /\ w_vars w' = w_vars w.
Proof.
  intros k w w' H. unfold count_pushes in H. destruct (negb _); [discriminate|].
  destruct (Nat.leb k (w_pushes w)); [|discriminate]. inversion H; subst. auto.
Qed.

Lemma WFw_same : forall w w', w_cur w' = w_cur w -> w_vars w' = w_vars w -> WFw w -> WFw w'.
Proof. intros w w' Hc Hv [A B]. unfold WFw. rewrite Hc, Hv. auto. Qed.

Lemma expand_wf : forall m w w', expand_stack m w = Ok w' -> WFw w -> WFw w'.
Proof.
  induction m as [|m IH]; intros w w' H Hw; cbn [expand_stack] in H.
  - inversion H; subst. exact Hw.
  - destruct (65535 <=? w_vars w)%Z eqn:E; [discriminate|]. apply IH in H; [exact H|].
    destruct Hw as [A B]. split; cbn [w_cur w_vars]; [|lia].
    apply Forall_app. split; [exact A|]. constructor; [|constructor].
    unfold wfe, tvar. constructor; [|constructor]. cbn [fst wf_sym]. lia.
Qed.

Lemma wpop_wf : forall w e w', wpop w = Ok (e, w') -> WFw w -> wfe e /\ WFw w'.
Proof.
  intros w e w' H Hw. unfold wpop in H.
  destruct (count_pops 1 w) as [w1| |] eqn:E1; cbn [bind] in H; try discriminate.
  apply count_pops_inv in E1 as [Ec Ev].
  assert (Hw1 : WFw w1) by (apply (WFw_same w); assumption).
  destruct (match w_cur w1 with [] => expand_stack 1 w1 | _ :: _ => Ok w1 end) as [w2| |] eqn:E2;
    cbn [bind] in H; try discriminate.
  assert (Hw2 : WFw w2).
  { destruct (w_cur w1); [now apply (expand_wf 1 w1)|]. inversion E2; subst. exact Hw1. }
  destruct (w_cur w2) as [|e0 c] eqn:Ec2; [discriminate|]. inversion H; subst.
  destruct Hw2 as [A B]. rewrite Ec2 in A. inversion A; subst. split; [assumption|].
  split; cbn [set_cur w_cur w_vars]; assumption.
Qed.

Lemma wpop_n_wf : forall k w es w', wpop_n k w = Ok (es, w') -> WFw w -> Forall wfe es /\ WFw w'.
Proof.
  induction k as [|k IH]; intros w es w' H Hw; cbn [wpop_n] in H.
  - inversion H; subst. auto.
  - destruct (wpop w) as [[e w1]| |] eqn:E1; cbn [bind] in H; try discriminate.
    destruct (wpop_n k w1) as [[es' w2]| |] eqn:E2; cbn [bind] in H; try discriminate.
    inversion H; subst. apply wpop_wf in E1 as [He Hw1]; [|exact Hw].
    apply IH in E2 as [Hes Hw2]; [|exact Hw1]. auto.
Qed.

Lemma window_wf : forall d w w', window d w = Ok w' -> WFw w -> WFw w'.
Proof.
  intros d w w' H Hw. unfold window in H.
  destruct (count_pops (d + 1) w) as [w1| |] eqn:E1; cbn [bind] in H; try discriminate.
  destruct (count_pushes (d + 1) w1) as [w2| |] eqn:E2; cbn [bind] in H; try discriminate.
  apply count_pops_inv in E1 as [Ec1 Ev1]. apply count_pushes_inv in E2 as [Ec2 Ev2].
  assert (Hw2 : WFw w2) by (apply (WFw_same w); congruence).
  destruct (Nat.ltb _ _); [now apply expand_wf in H|]. inversion H; subst. exact Hw2.
Qed.

Lemma wpush_wf : forall e w w', wpush e w = Ok w' -> wfe e -> WFw w -> WFw w'.
Proof.
  intros e w w' H He Hw. unfold wpush in H.
  destruct (count_pushes 1 w) as [w1| |] eqn:E1; cbn [bind] in H; try discriminate.
  apply count_pushes_inv in E1 as [Ec Ev]. inversion H; subst.
  destruct Hw as [A B]. split; cbn [set_cur w_cur w_vars]; [|lia].
  constructor; [exact He|]. now rewrite Ec.
Qed.

Lemma wpeek_wf : forall d w e w', wpeek d w = Ok (e, w') -> WFw w -> wfe e /\ WFw w'.
Proof.
  intros d w e w' H Hw. unfold wpeek in H.
  destruct (window d w) as [w1| |] eqn:E1; cbn [bind] in H; try discriminate.
  apply window_wf in E1; [|exact Hw].
  destruct (nth_error (w_cur w1) d) as [e0|] eqn:E2; [|discriminate]. inversion H; subst.
  split; [|exact E1]. destruct E1 as [A _]. rewrite Forall_forall in A.
  eapply A, nth_error_In; exact E2.
Qed.

Lemma Forall_set_nth : forall (A : Type) (P : A -> Prop) n x l, Forall P l -> P x -> Forall P (set_nth n x l).
Proof.
  intros A P n x l. revert n. induction l as [|a l IH]; intros [|n] Hl Hx; cbn [set_nth]; auto;
    inversion Hl; subst; constructor; auto.
Qed.

Lemma Forall_tl : forall (A : Type) (P : A -> Prop) l, Forall P l -> Forall P (tl l).
Proof. intros A P [|a l] H; [exact H|]. now inversion H. Qed.

Lemma wswap_wf : forall d w w', wswap d w = Ok w' -> WFw w -> WFw w'.
Proof.
  intros d w w' H Hw. unfold wswap in H.
  destruct (window d w) as [w1| |] eqn:E1; cbn [bind] in H; try discriminate.
  apply window_wf in E1; [|exact Hw]. destruct E1 as [A B].
  destruct (w_cur w1) as [|front c] eqn:Ec; [discriminate|].
  destruct (nth_error (front :: c) d) as [deep|] eqn:E2; [|discriminate]. inversion H; subst.
  assert (Hd : wfe deep) by (rewrite Forall_forall in A; eapply A, nth_error_In; exact E2).
  split; cbn [set_cur w_cur w_vars]; [|exact B].
  constructor; [exact Hd|]. apply Forall_tl.
  destruct d; [exact A|]. apply Forall_set_nth; [exact A|]. now inversion A.
Qed.

Lemma Forall_concat' : forall (A : Type) (P : A -> Prop) (ls : list (list A)),
  Forall (Forall P) ls -> Forall P (concat ls).
Proof.
  intros A P ls H. induction H as [|l ls Hl _ IH]; cbn [concat]; [constructor|].
  apply Forall_app. auto.
Qed.

Lemma tconcat_wf : forall op args e, tconcat op args = Ok e ->
  wf_sym (fst op) = true -> Forall wfe args -> wfe e.
Proof.
  intros op args e H Ho Ha. unfold tconcat in H. destruct (Nat.eqb _ _); [|discriminate].
  inversion H; subst. constructor; [exact Ho|]. now apply Forall_concat'.
Qed.

Lemma be_value_bound : forall l acc, Forall (fun b => (b < 256)%N) l ->
  (be_value l acc < (acc + 1) * 256 ^ N.of_nat (length l))%N.
Proof.
  induction l as [|b l IH]; intros acc H; cbn [be_value length].
  - cbn. lia.
  - inversion H as [|? ? Hb Hl]; subst. specialize (IH (acc * 256 + b)%N Hl).
    rewrite Nat2N.inj_succ, N.pow_succ_r'.
    eapply N.lt_le_trans; [exact IH|].
    replace ((acc + 1) * (256 * 256 ^ N.of_nat (length l)))%N
      with (((acc + 1) * 256) * 256 ^ N.of_nat (length l))%N by lia.
    apply N.mul_le_mono_r. lia.
Qed.

Lemma const_wf : forall l, (length l <= 32)%nat -> Forall (fun b => (b < 256)%N) l ->
  wf_sym (SConst (Z.of_N (N_of_be l))) = true.
Proof.
  intros l Hl Hb. pose proof (be_value_bound l 0 Hb) as H. unfold N_of_be.
  assert (H2 : (256 ^ N.of_nat (length l) <= 256 ^ 32)%N) by (apply N.pow_le_mono_r; lia).
  assert (E : (256 ^ 32 = 2 ^ 256)%N) by (vm_compute; reflexivity).
  assert (Hz : (Z.of_N (be_value l 0) < 2 ^ 256)%Z).
  { change (2 ^ 256)%Z with (Z.of_N (2 ^ 256)). apply N2Z.inj_lt. lia. }
  cbn [wf_sym]. apply andb_true_iff. split; [apply Z.leb_le; lia|apply Z.ltb_lt; exact Hz].
Qed.

(* the symbols of the arms carry no payload out of range *)
Lemma arm_syms : bytes_all (fun c =>
  match shape_of c with ShOp s _ | ShEnv s => wf_sym s | _ => true end) = true.
Proof. vm_compute. reflexivity. Qed.

Lemma annotate_one_wf : forall idx pc w op ox w',
  annotate_one idx pc w op = Ok (ox, w') -> WFw w ->
  (i_code op < 256)%N -> Forall (fun b => (b < 256)%N) (i_imm op) ->
  WFw w' /\ match ox with Some x => Forall wfe (exit_exprs x) | None => True end.
Proof.
  intros idx pc w op ox w' H Hw Hc Hb.
  pose proof (bytes_all_spec _ arm_syms _ Hc) as Hs. cbv beta in Hs.
  unfold annotate_one, push_none in H.
  destruct (shape_of (i_code op)) as [s k|s|k| | | |n|n|k| | |].
  - destruct (wpop_n k w) as [[args w1]| |] eqn:E1; cbn [bind] in H; try discriminate.
    destruct (tconcat _ args) as [e| |] eqn:E2; cbn [bind] in H; try discriminate.
    destruct (wpush e w1) as [w2| |] eqn:E3; cbn [bind] in H; try discriminate. inversion H; subst.
    apply wpop_n_wf in E1 as [Ha Hw1]; [|exact Hw]. apply tconcat_wf in E2; [|exact Hs|exact Ha].
    split; [|exact I]. eapply wpush_wf; eassumption.
  - destruct (wpush _ w) as [w2| |] eqn:E3; cbn [bind] in H; try discriminate. inversion H; subst.
    split; [|exact I]. eapply wpush_wf; [exact E3| |exact Hw]. constructor; [exact Hs|constructor].
  - destruct (wpop_n k w) as [[args w1]| |] eqn:E1; cbn [bind] in H; try discriminate. inversion H; subst.
    apply wpop_n_wf in E1 as [_ Hw1]; [|exact Hw]. auto.
  - destruct (wpush _ w) as [w2| |] eqn:E3; cbn [bind] in H; try discriminate. inversion H; subst.
    split; [|exact I]. eapply wpush_wf; [exact E3| |exact Hw]. constructor; [|constructor].
    cbn [fst wf_sym]. pose proof (N.mod_lt pc 65536 ltac:(lia)). lia.
  - destruct (wpush _ w) as [w2| |] eqn:E3; cbn [bind] in H; try discriminate. inversion H; subst.
    split; [|exact I]. eapply wpush_wf; [exact E3| |exact Hw]. constructor; [reflexivity|constructor].
  - destruct (Nat.ltb_spec 32 (length (i_imm op))) as [|Hl]; [discriminate|].
    destruct (wpush _ w) as [w2| |] eqn:E3; cbn [bind] in H; try discriminate. inversion H; subst.
    split; [|exact I]. eapply wpush_wf; [exact E3| |exact Hw]. constructor; [|constructor].
    cbn [fst]. now apply const_wf.
  - destruct (wpeek (n - 1) w) as [[e w1]| |] eqn:E1; cbn [bind] in H; try discriminate.
    destruct (wpush e w1) as [w2| |] eqn:E3; cbn [bind] in H; try discriminate. inversion H; subst.
    apply wpeek_wf in E1 as [He Hw1]; [|exact Hw]. split; [|exact I]. eapply wpush_wf; eassumption.
  - destruct (wswap n w) as [w1| |] eqn:E1; cbn [bind] in H; try discriminate. inversion H; subst.
    split; [|exact I]. eapply wswap_wf; eassumption.
  - destruct (wpop_n k w) as [[args w1]| |] eqn:E1; cbn [bind] in H; try discriminate. inversion H; subst.
    apply wpop_n_wf in E1 as [_ Hw1]; [|exact Hw]. split; [exact Hw1|constructor].
  - destruct (wpop w) as [[d w1]| |] eqn:E1; cbn [bind] in H; try discriminate. inversion H; subst.
    apply wpop_wf in E1 as [Hd Hw1]; [|exact Hw]. split; [exact Hw1|]. cbn [exit_exprs]. auto.
  - destruct (usize_max <? pc + 1)%N; [discriminate|].
    destruct (wpop w) as [[t w1]| |] eqn:E1; cbn [bind] in H; try discriminate.
    destruct (wpop w1) as [[c w2]| |] eqn:E2; cbn [bind] in H; try discriminate. inversion H; subst.
    apply wpop_wf in E1 as [Ht Hw1]; [|exact Hw]. apply wpop_wf in E2 as [Hcc Hw2]; [|exact Hw1].
    split; [exact Hw2|]. cbn [exit_exprs]. auto.
  - discriminate.
Qed.

Lemma annotate_loop_wf : forall ops idx pc st x st',
  annotate_loop idx pc ops st = Ok (x, st') ->
  Forall wfe (a_cur st) -> (0 <= a_vars st)%Z ->
  Forall (fun it => (i_code it < 256)%N) ops ->
  Forall (fun it => Forall (fun b => (b < 256)%N) (i_imm it)) ops ->
  Forall wfe (a_cur st') /\ Forall wfe (exit_exprs x).
Proof.
  induction ops as [|op rest IH]; intros idx pc st x st' H Hc Hv H256 Himm.
  - cbn [annotate_loop] in H. inversion H; subst. split; [exact Hc|constructor].
  - cbn [annotate_loop] in H. inversion H256; subst. inversion Himm; subst.
    destruct (annotate_one idx pc _ op) as [[ox w']| |] eqn:E1; cbn [bind] in H; try discriminate.
    apply annotate_one_wf in E1 as [[A B] Hx]; [|split; assumption|assumption|assumption].
    destruct ox as [x0|].
    + destruct rest; [|discriminate]. destruct (negb _); [discriminate|].
      destruct (wdrop w'); cbn [bind] in H; try discriminate. inversion H; subst. auto.
    + destruct (r_exits (row_of op)); [discriminate|].
      destruct (usize_max <? pc + size (row_of op))%N; [discriminate|].
      destruct (wdrop w'); cbn [bind] in H; try discriminate.
      eapply IH; eauto.
Qed.

(* the immediates are bytes (true of everything the disassembler emits; wf_item only fixes
   their number) *)
Theorem annotate_wf_syms : forall off ops a,
  Forall wf_item ops -> Forall (fun it => (i_code it < 256)%N) ops ->
  Forall (fun it => Forall (fun b => (b < 256)%N) (i_imm it)) ops ->
  annotate off ops = Ok a ->
  Forall (fun e => Forall (fun ts => wf_sym (fst ts) = true) e) (an_outputs a ++ exit_exprs (an_exit a)).
Proof.
  intros off ops a _ H256 Himm H. unfold annotate in H.
  destruct (annotate_loop 0 off ops _) as [[x st]| |] eqn:E; cbn [bind] in H; try discriminate.
  destruct ops as [|op0 rest]; [discriminate|]. inversion H; subst. cbn [an_outputs an_exit].
  apply annotate_loop_wf in E as [A B]; auto; [|constructor|cbn; lia].
  apply Forall_app. split; assumption.
Qed.
