(* Proofs/IngestProofs.v -- includes are isolated and verbatim, imports are textual (C12);
   directives cannot read outside the root (C18).  About Model/Asm.v, Model/Path.v, Model/Ingest.v. *)
From Coq Require Import Lia ZifyBool ZifyNat ZifyN.
From Verif Require Import Model.Base Model.Ops Model.Expr Model.Asm Model.Hex Model.Path Model.Ingest
                          Proofs.AsmLayoutProofs Proofs.HexProofs.

(* ====================================================================== *)
(* Part A -- the assembler on scopes and raw blobs                          *)
(* ====================================================================== *)

(* the state after `IRaw bs` has been queued (both for RawOp::Raw and for an assembled scope) *)
Definition add_raw (st : astate) (bs : list N) : astate :=
  mkast (a_ready st ++ [IRaw bs]) (a_declared st) (a_undeclared st) (a_ctr st).

(* the push loop of Assembler::assemble (the anonymous `fix go` of Model/Asm.v assemble_with) *)
Definition push_all (macros : mtable) (rec : rawop -> res (list N)) : list rawop -> astate -> res astate :=
  fix go (l : list rawop) (st : astate) : res astate :=
    match l with
    | [] => Ok st
    | ROp a :: r => do st' <- push_op macros EXPANSION_FUEL st a ; go r st'
    | RRaw bs :: r => go r (add_raw st bs)
    | (RScope _ as sc) :: r => do bs <- rec sc ; go r (add_raw st bs)
    end.

Lemma assemble_with_eq : forall rec ops,
  assemble_with rec ops =
  (do macros <- declare_macros ops [] ;
   do st <- push_all macros rec ops ainit ;
   finish_scope macros st).
Proof. reflexivity. Qed.

(* RawOp::Scope is assembled by a FRESH assembler: literally `assemble s` *)
Lemma assemble_scope_scope : forall s, assemble_scope (RScope s) = assemble s.
Proof. reflexivity. Qed.

Lemma bind_assoc : forall {A B C} (m : res A) (f : A -> res B) (g : B -> res C),
  bind (bind m f) g = bind m (fun x => bind (f x) g).
Proof. intros. destruct m; reflexivity. Qed.

Lemma declare_macros_app : forall a b t,
  declare_macros (a ++ b) t = (do t' <- declare_macros a t ; declare_macros b t').
Proof.
  induction a as [|x a IH]; intros b t; cbn [app declare_macros bind]; [reflexivity|].
  destruct x as [o|s|bs]; [|apply IH|apply IH].
  destruct o as [c imm|l|e|n ps body|n ps body|n args]; try apply IH.
  - destruct (mlookup t n); [reflexivity|apply IH].
  - destruct (mlookup t n); [reflexivity|apply IH].
Qed.

(* macros declared inside an included file never reach the including scope's table *)
Lemma declare_macros_skip_scope : forall pre s post t,
  declare_macros (pre ++ [RScope s] ++ post) t = declare_macros (pre ++ post) t.
Proof. intros. rewrite !declare_macros_app. reflexivity. Qed.

Lemma declare_macros_skip_raw : forall pre bs post t,
  declare_macros (pre ++ [RRaw bs] ++ post) t = declare_macros (pre ++ post) t.
Proof. intros. rewrite !declare_macros_app. reflexivity. Qed.

Lemma push_all_app : forall macros rec a b st,
  push_all macros rec (a ++ b) st = (do st' <- push_all macros rec a st ; push_all macros rec b st').
Proof.
  intros macros rec. induction a as [|x a IH]; intros b st; cbn [app push_all bind]; [reflexivity|].
  destruct x as [o|s|bs].
  - destruct (push_op macros EXPANSION_FUEL st o); cbn [bind]; [apply IH|reflexivity|reflexivity].
  - destruct (rec (RScope s)); cbn [bind]; [apply IH|reflexivity|reflexivity].
  - apply IH.
Qed.

(* one included scope inside a program: everything the outer assembler does with it *)
Theorem scope_in_context : forall pre s post,
  assemble (pre ++ [RScope s] ++ post) =
  (do macros <- declare_macros (pre ++ post) [] ;
   do st <- push_all macros assemble_scope pre ainit ;
   do bs <- assemble s ;
   do st' <- push_all macros assemble_scope post (add_raw st bs) ;
   finish_scope macros st').
Proof.
  intros pre s post. unfold assemble at 1. rewrite assemble_with_eq, declare_macros_skip_scope.
  destruct (declare_macros (pre ++ post) []) as [m|e|p]; cbn [bind]; try reflexivity.
  rewrite push_all_app. rewrite bind_assoc.
  destruct (push_all m assemble_scope pre ainit) as [st|e|p]; cbn [bind]; try reflexivity.
  cbn [app push_all]. rewrite assemble_scope_scope.
  destruct (assemble s) as [bs|e|p]; cbn [bind]; reflexivity.
Qed.

Theorem raw_in_context : forall pre bs post,
  assemble (pre ++ [RRaw bs] ++ post) =
  (do macros <- declare_macros (pre ++ post) [] ;
   do st <- push_all macros assemble_scope pre ainit ;
   do st' <- push_all macros assemble_scope post (add_raw st bs) ;
   finish_scope macros st').
Proof.
  intros pre bs post. unfold assemble at 1. rewrite assemble_with_eq, declare_macros_skip_raw.
  destruct (declare_macros (pre ++ post) []) as [m|e|p]; cbn [bind]; try reflexivity.
  rewrite push_all_app. rewrite bind_assoc.
  destruct (push_all m assemble_scope pre ainit) as [st|e|p]; cbn [bind]; reflexivity.
Qed.

(* C12 (1): an included file contributes exactly the bytes it assembles to on its own *)
Theorem include_standalone : forall pre s post bs,
  assemble s = Ok bs ->
  assemble (pre ++ [RScope s] ++ post) = assemble (pre ++ [RRaw bs] ++ post).
Proof.
  intros pre s post bs H. rewrite scope_in_context, raw_in_context, H. reflexivity.
Qed.

(* ... and if it does not assemble on its own, the whole fails in the same way, unless the
   including file already failed before reaching the directive (macro declarations of the
   whole file, then the ops in front of the directive) *)
Theorem include_standalone_err : forall pre s post e macros st,
  assemble s = Err e ->
  declare_macros (pre ++ post) [] = Ok macros ->
  push_all macros assemble_scope pre ainit = Ok st ->
  assemble (pre ++ [RScope s] ++ post) = Err e.
Proof.
  intros pre s post e macros st H Hm Hp. rewrite scope_in_context, Hm. cbn [bind].
  rewrite Hp. cbn [bind]. rewrite H. reflexivity.
Qed.

Theorem include_standalone_panic : forall pre s post p macros st,
  assemble s = Panic p ->
  declare_macros (pre ++ post) [] = Ok macros ->
  push_all macros assemble_scope pre ainit = Ok st ->
  assemble (pre ++ [RScope s] ++ post) = Panic p.
Proof.
  intros pre s post e macros st H Hm Hp. rewrite scope_in_context, Hm. cbn [bind].
  rewrite Hp. cbn [bind]. rewrite H. reflexivity.
Qed.

(* isolation, both directions, at the level of one push step: for ANY outer macro table and ANY
   outer assembler state, the scope yields `assemble s` (it sees neither), and the outer label
   tables and the fresh-label counter are what they were (they see nothing of the scope) *)
Theorem scope_isolated : forall macros st s r,
  push_all macros assemble_scope (RScope s :: r) st =
  (do bs <- assemble s ; push_all macros assemble_scope r (add_raw st bs))
  /\ forall bs, a_declared (add_raw st bs) = a_declared st /\
                a_undeclared (add_raw st bs) = a_undeclared st /\
                a_ctr (add_raw st bs) = a_ctr st /\
                a_ready (add_raw st bs) = a_ready st ++ [IRaw bs].
Proof. intros. split; [reflexivity|]. intros bs. cbn. auto. Qed.

(* ---------- C12 (3): a label after an inserted blob accounts for its full length ---------- *)
Open Scope Z_scope.

Lemma count_push_snoc_raw : forall pre bs, count_push (pre ++ [IRaw bs]) = count_push pre.
Proof. intros. rewrite count_push_app. unfold count_push. cbn. lia. Qed.

(* C01's layout theorem instantiated with an IRaw item directly in front of the label *)
Theorem label_after_blob : forall macros items w pos bytes,
  layout macros items = Ok (w, pos) ->
  emit macros (lenv pos) items w = Ok bytes ->
  NoDup (labels_of items) ->
  forall pre bs l post, items = pre ++ IRaw bs :: ILabel l :: post ->
  exists b1 b2,
    bytes = b1 ++ bs ++ b2 /\
    emit macros (lenv pos) pre w = Ok b1 /\
    emit macros (lenv pos) post (skipn (count_push pre) w) = Ok b2 /\
    lenv pos l = Some (Z.of_nat (length b1) + Z.of_nat (length bs)).
Proof.
  intros macros items w pos bytes HL HE Hnd pre bs l post Hit.
  assert (Hit' : items = (pre ++ [IRaw bs]) ++ ILabel l :: post).
  { rewrite Hit, <- app_assoc. reflexivity. }
  destruct (layout_consistent macros items w pos bytes HL HE Hnd _ _ _ Hit')
    as (b1' & b2 & E1 & E2 & E3 & E4).
  destruct (emit_split _ _ _ _ _ _ E2) as (b1 & x & F1 & F2 & F3).
  cbn [emit emit_item bind] in F3. inversion F3; subst x. rewrite app_nil_r in F1.
  exists b1, b2. rewrite count_push_snoc_raw in E3. subst b1'.
  repeat split; auto.
  - rewrite E1, <- app_assoc. reflexivity.
  - rewrite E4, app_length. f_equal. lia.
Qed.

(* phase 1 only ever appends to the item list *)
Lemma push_item_ready : forall macros st it operand st',
  push_item macros st it operand = Ok st' -> a_ready st' = a_ready st ++ [it].
Proof.
  intros macros st it operand st' H. unfold push_item in H. destruct operand as [e|].
  - destruct (elabels _ _ e) as [ls|er|s]; try discriminate.
    destruct (early_check macros it) as [[]|er|s]; cbn [bind] in H; try discriminate.
    inversion H; subst. reflexivity.
  - inversion H; subst. reflexivity.
Qed.

Lemma push_op_ready : forall macros fuel st a st',
  push_op macros fuel st a = Ok st' -> exists ext, a_ready st' = a_ready st ++ ext.
Proof.
  intros macros. induction fuel as [|f IH]; intros st a st' H.
  - destruct a as [c imm|l|e|n ps b|n ps b|n args]; cbn [push_op] in H.
    + eexists. eapply push_item_ready. exact H.
    + destruct (mem l (a_declared st)); [discriminate|]. inversion H; subst. eexists. reflexivity.
    + eexists. eapply push_item_ready. exact H.
    + inversion H; subst. exists []. now rewrite app_nil_r.
    + inversion H; subst. exists []. now rewrite app_nil_r.
    + destruct (mlookup macros n) as [[ps body|d]|]; try discriminate.
      destruct (negb _); discriminate.
  - destruct a as [c imm|l|e|n ps b|n ps b|n args]; cbn [push_op] in H.
    + eexists. eapply push_item_ready. exact H.
    + destruct (mem l (a_declared st)); [discriminate|]. inversion H; subst. eexists. reflexivity.
    + eexists. eapply push_item_ready. exact H.
    + inversion H; subst. exists []. now rewrite app_nil_r.
    + inversion H; subst. exists []. now rewrite app_nil_r.
    + destruct (mlookup macros n) as [[ps body|d]|]; try discriminate.
      destruct (negb _); [discriminate|].
      destruct (rename_pass n body (a_ctr st) []) as [[[body1 ctr'] ren]|er|s]; cbn [bind] in H; try discriminate.
      set (st1 := mkast (a_ready st) (a_declared st) (a_undeclared st) ctr') in H.
      change (a_ready st) with (a_ready st1). clearbody st1. revert st1 H.
      generalize (map (rewrite_op ren (combine ps args)) body1) as l.
      induction l as [|b r IHl]; intros s H.
      * inversion H; subst. exists []. now rewrite app_nil_r.
      * destruct (push_op macros f s b) as [s'|er|sx] eqn:Eb; cbn [bind] in H; try discriminate.
        destruct (IH _ _ _ Eb) as [e1 H1]. destruct (IHl _ H) as [e2 H2].
        exists (e1 ++ e2). rewrite H2, H1, app_assoc. reflexivity.
Qed.

Lemma push_all_ready : forall macros rec l st st',
  push_all macros rec l st = Ok st' -> exists ext, a_ready st' = a_ready st ++ ext.
Proof.
  intros macros rec. induction l as [|x l IH]; intros st st' H; cbn [push_all] in H.
  - inversion H; subst. exists []. now rewrite app_nil_r.
  - destruct x as [o|s|bs].
    + destruct (push_op macros EXPANSION_FUEL st o) as [s1|er|sx] eqn:Ep; cbn [bind] in H; try discriminate.
      destruct (push_op_ready _ _ _ _ _ Ep) as [e1 H1]. destruct (IH _ _ H) as [e2 H2].
      exists (e1 ++ e2). rewrite H2, H1, app_assoc. reflexivity.
    + destruct (rec (RScope s)) as [bs|er|sx]; cbn [bind] in H; try discriminate.
      destruct (IH _ _ H) as [e2 H2]. exists ([IRaw bs] ++ e2). rewrite H2. cbn [add_raw a_ready].
      rewrite <- app_assoc. reflexivity.
    + destruct (IH _ _ H) as [e2 H2]. exists ([IRaw bs] ++ e2). rewrite H2. cbn [add_raw a_ready].
      rewrite <- app_assoc. reflexivity.
Qed.

Lemma push_all_inv : forall macros l st st',
  push_inv st -> push_all macros assemble_scope l st = Ok st' -> push_inv st'.
Proof.
  intros macros. induction l as [|x l IH]; intros st st' Hi H; cbn [push_all] in H.
  - inversion H; subst. exact Hi.
  - destruct x as [o|s|bs].
    + destruct (push_op macros EXPANSION_FUEL st o) as [s1|er|sx] eqn:Ep; cbn [bind] in H; try discriminate.
      eapply IH; [|exact H]. eapply push_op_inv; [exact Hi|exact Ep].
    + destruct (assemble_scope (RScope s)) as [bs|er|sx]; cbn [bind] in H; try discriminate.
      eapply IH; [|exact H]. destruct Hi as [H1 H2]. split; cbn [add_raw a_ready a_declared]; [|exact H2].
      rewrite labels_of_app, H1. cbn. now rewrite app_nil_r.
    + eapply IH; [|exact H]. destruct Hi as [H1 H2]. split; cbn [add_raw a_ready a_declared]; [|exact H2].
      rewrite labels_of_app, H1. cbn. now rewrite app_nil_r.
Qed.

Lemma push_op_label : forall macros fuel st l,
  push_op macros fuel st (ALabel l) =
  if mem l (a_declared st) then err1 "DuplicateLabel" l
  else Ok (mkast (a_ready st ++ [ILabel l]) (a_declared st ++ [l])
                 (remove_str l (a_undeclared st)) (a_ctr st)).
Proof. intros. destruct fuel; reflexivity. Qed.

(* at the level of Assembler::assemble: whatever is inserted in front of a label -- the bytes of
   %include_hex, or an %include'd file that assembles to bs -- the label's value is the number of
   bytes emitted for everything before the directive plus the FULL length of bs *)
Theorem assemble_label_after_raw : forall pre bs l post bytes,
  assemble (pre ++ [RRaw bs] ++ ROp (ALabel l) :: post) = Ok bytes ->
  exists macros ipre ipost w pos b1 b2,
    layout macros (ipre ++ IRaw bs :: ILabel l :: ipost) = Ok (w, pos) /\
    emit macros (lenv pos) (ipre ++ IRaw bs :: ILabel l :: ipost) w = Ok bytes /\
    bytes = b1 ++ bs ++ b2 /\
    emit macros (lenv pos) ipre w = Ok b1 /\
    emit macros (lenv pos) ipost (skipn (count_push ipre) w) = Ok b2 /\
    lenv pos l = Some (Z.of_nat (length b1) + Z.of_nat (length bs)).
Proof.
  intros pre bs l post bytes H. rewrite raw_in_context in H.
  destruct (declare_macros _ []) as [m|e|p]; cbn [bind] in H; try discriminate.
  destruct (push_all m assemble_scope pre ainit) as [st|e|p] eqn:Epre; cbn [bind] in H; try discriminate.
  cbn [push_all] in H. rewrite push_op_label in H.
  destruct (mem l (a_declared (add_raw st bs))) eqn:Em; cbn [bind] in H; try discriminate.
  match type of H with bind (push_all _ _ _ ?s0) _ = _ => set (st0 := s0) in H end.
  destruct (push_all m assemble_scope post st0) as [st2|e|p] eqn:Epost; cbn [bind] in H; try discriminate.
  assert (Hinit : push_inv ainit) by (split; [reflexivity|constructor]).
  assert (Hi1 : push_inv st) by exact (push_all_inv m pre ainit st Hinit Epre).
  assert (Hi0 : push_inv st0).
  { destruct Hi1 as [H1 H2]. unfold st0. split; cbn [add_raw a_ready a_declared].
    - rewrite !labels_of_app, H1. cbn. now rewrite app_nil_r.
    - apply NoDup_app_snoc; [exact H2|]. intros Hin. apply mem_In in Hin. cbn [add_raw a_declared] in Em. congruence. }
  assert (Hi2 : push_inv st2) by exact (push_all_inv m post st0 st2 Hi0 Epost).
  destruct (push_all_ready _ _ _ _ _ Epost) as [ipost Hr].
  unfold st0 in Hr. cbn [add_raw a_ready] in Hr. rewrite <- !app_assoc in Hr. cbn [app] in Hr.
  unfold finish_scope in H. destruct (a_undeclared st2); [|discriminate].
  destruct (layout m (a_ready st2)) as [[w pos]|er|s] eqn:El; cbn [bind fst snd] in H; try discriminate.
  destruct Hi2 as [Hl Hnd].
  assert (Hnd' : NoDup (labels_of (a_ready st2))) by now rewrite Hl.
  destruct (label_after_blob m _ w pos bytes El H Hnd' _ _ _ _ Hr) as (b1 & b2 & E1 & E2 & E3 & E4).
  exists m, (a_ready st), ipost, w, pos, b1, b2. rewrite <- Hr. auto 10.
Qed.

Corollary assemble_label_after_include : forall pre s bs l post bytes,
  assemble s = Ok bs ->
  assemble (pre ++ [RScope s] ++ ROp (ALabel l) :: post) = Ok bytes ->
  exists macros ipre ipost w pos b1 b2,
    layout macros (ipre ++ IRaw bs :: ILabel l :: ipost) = Ok (w, pos) /\
    emit macros (lenv pos) (ipre ++ IRaw bs :: ILabel l :: ipost) w = Ok bytes /\
    bytes = b1 ++ bs ++ b2 /\
    emit macros (lenv pos) ipre w = Ok b1 /\
    emit macros (lenv pos) ipost (skipn (count_push ipre) w) = Ok b2 /\
    lenv pos l = Some (Z.of_nat (length b1) + Z.of_nat (length bs)).
Proof.
  intros pre s bs l post bytes Hs H. rewrite (include_standalone pre s (ROp (ALabel l) :: post) bs Hs) in H.
  exact (assemble_label_after_raw pre bs l post bytes H).
Qed.
Close Scope Z_scope.

(* ====================================================================== *)
(* Part B -- preprocessing: imports splice, paths are relative to the file  *)
(* ====================================================================== *)

Lemma lbind_ret_l : forall {A B} (a : A) (k : A -> logged B), lbind (lret a) k = k a.
Proof. intros. unfold lbind, lret. cbn. now destruct (k a). Qed.

Lemma lbind_ret_r : forall {A} (m : logged A), lbind m lret = m.
Proof.
  intros A [l r]. unfold lbind, lret. cbn. destruct r; cbn; try reflexivity. now rewrite app_nil_r.
Qed.

Lemma lbind_assoc : forall {A B C} (m : logged A) (f : A -> logged B) (g : B -> logged C),
  lbind (lbind m f) g = lbind m (fun x => lbind (f x) g).
Proof.
  intros A B C [l r] f g. unfold lbind. cbn [fst snd]. destruct r as [a|e|p]; cbn [fst snd]; try reflexivity.
  destruct (f a) as [l2 r2]. cbn [fst snd]. destruct r2 as [b|e|p]; cbn [fst snd]; try reflexivity.
  now rewrite app_assoc.
Qed.

Lemma lbind_ok : forall {A B} l (a : A) (k : A -> logged B),
  lbind (l, Ok a) k = (l ++ fst (k a), snd (k a)).
Proof. reflexivity. Qed.

Lemma lbind_err : forall {A B} l e (k : A -> logged B), lbind (l, Err e) k = (l, Err e).
Proof. reflexivity. Qed.

Lemma lbind_ext : forall {A B} (m : logged A) (f g : A -> logged B),
  (forall a, f a = g a) -> lbind m f = lbind m g.
Proof. intros A B [l r] f g H. unfold lbind. cbn. destruct r; try reflexivity. now rewrite H. Qed.

(* reads of a composite are the reads of its parts *)
Lemma lbind_reads : forall {A B} (P : loc -> Prop) (m : logged A) (k : A -> logged B),
  Forall P (fst m) -> (forall a, Forall P (fst (k a))) -> Forall P (fst (lbind m k)).
Proof.
  intros A B P [l r] k Hm Hk. unfold lbind. cbn [fst snd] in *. destruct r; cbn [fst]; auto.
  apply Forall_app. auto.
Qed.

Open Scope nat_scope.
Section IngestFacts.
  Variable fs : fs_t.
  Variable root : res loc.

  (* what one node contributes *)
  Definition node_step (rai : string -> logged (list rawop)) (cur : lpath) (n : node) : logged (list rawop) :=
    match n with
    | NOp a => lret [ROp a]
    | NImport p => rai p
    | NInclude p => ldo x <- rai p ; lret [RScope x]
    | NIncludeHex p => ldo x <- include_hex fs root cur p ; lret [RRaw x]
    end.

  Lemma preprocess_with_cons : forall rai cur n r,
    preprocess_with fs root rai cur (n :: r) =
    (ldo a <- node_step rai cur n ; ldo b <- preprocess_with fs root rai cur r ; lret (a ++ b)).
  Proof.
    intros rai cur n r. destruct n as [a|p|p|p]; cbn [preprocess_with node_step].
    - rewrite lbind_ret_l. reflexivity.
    - reflexivity.
    - rewrite lbind_assoc. apply lbind_ext. intros x. rewrite lbind_ret_l. reflexivity.
    - rewrite lbind_assoc. apply lbind_ext. intros x. rewrite lbind_ret_l. reflexivity.
  Qed.

  Lemma preprocess_with_nil : forall rai cur, preprocess_with fs root rai cur [] = lret [].
  Proof. reflexivity. Qed.

  Lemma preprocess_with_app : forall rai cur a b,
    preprocess_with fs root rai cur (a ++ b) =
    (ldo x <- preprocess_with fs root rai cur a ;
     ldo y <- preprocess_with fs root rai cur b ; lret (x ++ y)).
  Proof.
    intros rai cur. induction a as [|n a IH]; intros b.
    - cbn [app]. rewrite preprocess_with_nil, lbind_ret_l. cbn [app]. now rewrite lbind_ret_r.
    - cbn [app]. rewrite !preprocess_with_cons, IH. rewrite !lbind_assoc.
      apply lbind_ext. intros x. rewrite !lbind_assoc. apply lbind_ext. intros y.
      rewrite lbind_ret_l, !lbind_assoc. apply lbind_ext. intros z.
      rewrite lbind_ret_l, app_assoc. reflexivity.
  Qed.

  Lemma preprocess_with_ext : forall rai1 rai2 cur ns,
    (forall p, rai1 p = rai2 p) ->
    preprocess_with fs root rai1 cur ns = preprocess_with fs root rai2 cur ns.
  Proof.
    intros rai1 rai2 cur ns H. induction ns as [|n r IH]; [reflexivity|].
    rewrite !preprocess_with_cons, IH. f_equal.
    destruct n; cbn [node_step]; try reflexivity; now rewrite H.
  Qed.

  (* a file without directives preprocesses to its own ops *)
  Lemma preprocess_with_ops : forall rai cur ops,
    preprocess_with fs root rai cur (map NOp ops) = lret (map ROp ops).
  Proof.
    intros rai cur. induction ops as [|a r IH]; [reflexivity|].
    cbn [map]. rewrite preprocess_with_cons, IH. cbn [node_step]. now rewrite !lbind_ret_l.
  Qed.

  (* unfolding of the two mutually recursive functions *)
  Lemma preprocess_unfold : forall fuel depth cur ns,
    preprocess fs root fuel depth cur ns =
    preprocess_with fs root (resolve_and_ingest fs root fuel depth cur) cur ns.
  Proof. intros. destruct fuel; reflexivity. Qed.

  Lemma resolve_and_ingest_S : forall fuel depth cur p,
    resolve_and_ingest fs root (S fuel) depth cur p =
    (ldo cf <- open_source fs root depth cur p ;
     ldo nodes <- llift (f_src (snd cf)) ;
     preprocess fs root fuel (S depth) (fst cf) nodes).
  Proof.
    intros. unfold resolve_and_ingest, resolve_and_ingest_with. apply lbind_ext. intros [cand f]. reflexivity.
  Qed.

  (* ---------- the recursion limit ---------- *)
  Lemma open_source_limit : forall depth cur p,
    255 < depth -> open_source fs root depth cur p = lfail (mkErr "RecursionLimit" []).
  Proof.
    intros depth cur p H. unfold open_source, RECURSION_LIMIT.
    destruct (Nat.leb_spec depth 255); [lia|reflexivity].
  Qed.

  Lemma resolve_limit : forall rec depth cur p,
    255 < depth -> resolve_and_ingest_with fs root rec depth cur p = ([], Err (mkErr "RecursionLimit" [])).
  Proof.
    intros rec depth cur p H. unfold resolve_and_ingest_with. now rewrite open_source_limit.
  Qed.

  (* the fuel is never what stops the recursion: with fuel = 256 - depth any extra fuel gives the
     same answer, i.e. the Panic of resolve_and_ingest_with is unreachable *)
  Lemma preprocess_fuel_irrelevant : forall fuel depth extra cur ns,
    fuel + depth = 256 ->
    preprocess fs root (fuel + extra) depth cur ns = preprocess fs root fuel depth cur ns.
  Proof.
    induction fuel as [|f IH]; intros depth extra cur ns H.
    - rewrite !preprocess_unfold. apply preprocess_with_ext. intros p.
      unfold resolve_and_ingest. rewrite !resolve_limit by lia. reflexivity.
    - rewrite !preprocess_unfold. apply preprocess_with_ext. intros p.
      cbn [Nat.add]. rewrite !resolve_and_ingest_S. apply lbind_ext. intros cf. apply lbind_ext. intros nodes.
      apply IH. lia.
  Qed.

  (* ---------- C12 (4): where a directive looks ---------- *)
  (* the path a directive names is joined to the directory of the file containing the directive *)
  Lemma open_source_spec : forall depth cur p lg cand f,
    open_source fs root depth cur p = (lg, Ok (cand, f)) ->
    depth <= 255 /\ cand = join_path (dir_of cur) (parse_path p) /\
    exists r l, root = Ok r /\ canon fs cand = Ok l /\ under r l = true /\
                lookup fs l = Some (File f) /\ lg = [l].
  Proof.
    intros depth cur p lg cand f H. unfold open_source, RECURSION_LIMIT in H.
    destruct (Nat.leb_spec depth 255) as [Hd|Hd]; cbn [negb] in H; [|discriminate].
    split; [exact Hd|]. unfold candidate in H. set (c := join_path (dir_of cur) (parse_path p)) in *.
    unfold llift, checked in H. destruct root as [r|e|s]; cbn [bind] in H; try discriminate.
    unfold root_check in H. destruct (canon fs c) as [l|e|s] eqn:Ec; cbn [with_io bind] in H; try discriminate.
    destruct (under r l) eqn:Eu; [|discriminate].
    rewrite lbind_ok in H. cbn [fst snd app] in H.
    unfold read_logged, read_at in H. rewrite Ec in H. cbn [bind] in H.
    destruct (lookup fs l) as [[|f0|t]|] eqn:El; try discriminate.
    rewrite lbind_ok in H. cbn [lret fst snd app] in H. inversion H; subst.
    split; [reflexivity|]. exists r, l. auto.
  Qed.

  Theorem resolve_relative : forall fuel depth cur p,
    depth <= 255 ->
    resolve_and_ingest fs root (S fuel) depth cur p =
    (ldo cf <- open_source fs root depth cur p ;
     ldo nodes <- llift (f_src (snd cf)) ;
     preprocess fs root fuel (S depth) (fst cf) nodes)
    /\ (forall lg cand f, open_source fs root depth cur p = (lg, Ok (cand, f)) ->
          cand = join_path (dir_of cur) (parse_path p) /\
          exists l, canon fs cand = Ok l /\ lookup fs l = Some (File f) /\ lg = [l]).
  Proof.
    intros fuel depth cur p Hd. split; [apply resolve_and_ingest_S|].
    intros lg cand f H. destruct (open_source_spec _ _ _ _ _ _ H) as (_ & Hc & r & l & _ & H1 & _ & H2 & H3).
    split; [exact Hc|]. exists l. auto.
  Qed.

  Theorem recursion_limit : forall fuel depth cur p,
    255 < depth -> resolve_and_ingest fs root fuel depth cur p = ([], Err (mkErr "RecursionLimit" [])).
  Proof. intros. unfold resolve_and_ingest. now apply resolve_limit. Qed.

  (* ---------- C12 (2): %import splices ---------- *)
  Theorem import_splice : forall fuel depth cur pre p post,
    preprocess fs root fuel depth cur (pre ++ NImport p :: post) =
    (ldo a <- preprocess fs root fuel depth cur pre ;
     ldo b <- resolve_and_ingest fs root fuel depth cur p ;
     ldo c <- preprocess fs root fuel depth cur post ;
     lret (a ++ b ++ c)).
  Proof.
    intros. rewrite !preprocess_unfold, preprocess_with_app, preprocess_with_cons. cbn [node_step].
    apply lbind_ext. intros a. rewrite !lbind_assoc. apply lbind_ext. intros b.
    rewrite !lbind_assoc. apply lbind_ext. intros c. now rewrite lbind_ret_l.
  Qed.

  (* the imported file's ops, pasted in place, give the same raw ops (the log differs by the one read) *)
  Theorem import_paste : forall fuel depth cur pre p post lg cand f ops,
    open_source fs root depth cur p = (lg, Ok (cand, f)) ->
    f_src f = Ok (map NOp ops) ->
    snd (preprocess fs root (S fuel) depth cur (pre ++ NImport p :: post)) =
    snd (preprocess fs root (S fuel) depth cur (pre ++ map NOp ops ++ post)).
  Proof.
    intros fuel depth cur pre p post lg cand f ops Ho Hs.
    rewrite import_splice, !preprocess_unfold, !preprocess_with_app.
    rewrite resolve_and_ingest_S, Ho. rewrite lbind_ok. cbn [fst snd]. rewrite Hs.
    unfold llift. rewrite lbind_ok. cbn [fst snd app].
    rewrite preprocess_unfold, !preprocess_with_ops.
    destruct (preprocess_with fs root _ cur pre) as [l1 [a|e|s]]; unfold lbind; cbn [fst snd]; try reflexivity.
    destruct (preprocess_with fs root _ cur post) as [l3 [c|e|s]]; cbn [fst snd lret]; reflexivity.
  Qed.
End IngestFacts.

(* ====================================================================== *)
(* Part C -- nothing outside the root is read (C18)                         *)
(* ====================================================================== *)

(* Path::starts_with is COMPONENT-wise: exactly "root followed by more components" *)
Lemma under_spec : forall root p, under root p = true <-> exists rest, p = root ++ rest.
Proof.
  induction root as [|r root IH]; intros p; cbn [under].
  - split; [intros _; now exists p|reflexivity].
  - destruct p as [|x p'].
    + split; [discriminate|]. intros [rest H]. discriminate.
    + rewrite andb_true_iff, IH. split.
      * intros [E [rest H]]. apply String.eqb_eq in E. subst. now exists rest.
      * intros [rest H]. cbn [app] in H. inversion H; subst. split; [apply String.eqb_refl|now exists rest].
Qed.

Lemma under_refl : forall r, under r r = true.
Proof. intros. apply under_spec. exists []. now rewrite app_nil_r. Qed.

(* Root::new gives the canonical location of the directory of the top-level path *)
Lemma root_new_spec : forall (fs : fs_t) mp r,
  root_new fs mp = Ok r ->
  exists d, pop mp = (true, d) /\ canon fs (join_path (mkp true (fs_cwd fs)) d) = Ok r /\ is_dir fs r = true.
Proof.
  intros fs mp r H. unfold root_new in H. destruct (pop mp) as [popped d].
  destruct popped; cbn [negb] in H; [|discriminate]. exists d. split; [reflexivity|].
  destruct (canon fs (join_path (mkp true (fs_cwd fs)) d)) as [l|e|s]; cbn [with_io bind] in H; try discriminate.
  destruct (is_dir fs l) eqn:Ed; cbn [negb] in H; [|discriminate]. inversion H; subst. auto.
Qed.

Section Traversal.
  Variable fs : fs_t.
  Variable root : res loc.

  (* what is allowed to be read: locations under the root when there is one, nothing otherwise *)
  Definition allowed (l : loc) : Prop :=
    match root with Ok r => under r l = true | _ => False end.

  (* every directive kind calls `check` on the very path it then reads *)
  Lemma checked_ok : forall cand,
    checked fs root cand = Ok tt -> exists r c, root = Ok r /\ canon fs cand = Ok c /\ under r c = true.
  Proof.
    intros cand H. unfold checked in H. destruct root as [r|e|s]; cbn [bind] in H; try discriminate.
    unfold root_check in H. destruct (canon fs cand) as [c|e|s]; cbn [with_io bind] in H; try discriminate.
    destruct (under r c) eqn:E; [|discriminate]. exists r, c. auto.
  Qed.

  Lemma read_logged_loc : forall msg cand,
    fst (read_logged fs msg cand) = [] \/
    exists l f, canon fs cand = Ok l /\ read_logged fs msg cand = ([l], Ok f).
  Proof.
    intros msg cand. unfold read_logged, read_at.
    destruct (canon fs cand) as [l|e|s]; cbn [bind]; auto.
    destruct (lookup fs l) as [[|f|t]|]; cbn; auto. right. exists l, f. auto.
  Qed.

  Lemma check_then_read : forall msg cand,
    Forall allowed (fst (ldo _ <- llift (checked fs root cand) ; read_logged fs msg cand)).
  Proof.
    intros msg cand. unfold llift. destruct (checked fs root cand) as [[]|e|s] eqn:Ec; try (constructor).
    rewrite lbind_ok. cbn [fst app].
    destruct (read_logged_loc msg cand) as [H|(l & f & Hc & H)]; rewrite H; [constructor|].
    destruct (checked_ok _ Ec) as (r & c & Hr & Hc' & Hu). rewrite Hc in Hc'. inversion Hc'; subst c.
    constructor; [|constructor]. unfold allowed. now rewrite Hr.
  Qed.

  Lemma open_source_reads : forall depth cur p, Forall allowed (fst (open_source fs root depth cur p)).
  Proof.
    intros depth cur p. unfold open_source. destruct (negb _); [constructor|].
    rewrite <- lbind_assoc. apply lbind_reads; [apply check_then_read|]. intros f. constructor.
  Qed.

  Lemma include_hex_reads : forall cur p, Forall allowed (fst (include_hex fs root cur p)).
  Proof.
    intros cur p. unfold include_hex. rewrite <- lbind_assoc.
    apply lbind_reads; [apply check_then_read|]. intros f. constructor.
  Qed.

  Lemma preprocess_with_reads : forall rai cur ns,
    (forall p, Forall allowed (fst (rai p))) ->
    Forall allowed (fst (preprocess_with fs root rai cur ns)).
  Proof.
    intros rai cur ns Hr. induction ns as [|n r IH]; [constructor|].
    rewrite preprocess_with_cons. apply lbind_reads.
    - destruct n as [a|p|p|p]; cbn [node_step].
      + constructor.
      + apply Hr.
      + apply lbind_reads; [apply Hr|]. intros. constructor.
      + apply lbind_reads; [apply include_hex_reads|]. intros. constructor.
    - intros a. apply lbind_reads; [exact IH|]. intros. constructor.
  Qed.

  Theorem preprocess_reads : forall fuel depth cur ns,
    Forall allowed (fst (preprocess fs root fuel depth cur ns)).
  Proof.
    induction fuel as [|f IH]; intros depth cur ns; rewrite preprocess_unfold;
      apply preprocess_with_reads; intros p.
    - unfold resolve_and_ingest, resolve_and_ingest_with.
      apply lbind_reads; [apply open_source_reads|]. intros [cand fl]. constructor.
    - rewrite resolve_and_ingest_S. apply lbind_reads; [apply open_source_reads|]. intros cf.
      apply lbind_reads; [constructor|]. intros nodes. apply IH.
  Qed.

  (* ---------- a target that exists outside the root: DirectoryTraversal, nothing read ---------- *)
  Definition traversal : err := mkErr "DirectoryTraversal" [].

  Lemma checked_outside : forall r cand l,
    root = Ok r -> canon fs cand = Ok l -> under r l = false -> checked fs root cand = Err traversal.
  Proof.
    intros r cand l Hr Hc Hu. unfold checked. rewrite Hr. cbn [bind]. unfold root_check.
    rewrite Hc. cbn [with_io bind]. now rewrite Hu.
  Qed.

  Lemma import_outside : forall rec depth cur p r l,
    root = Ok r -> depth <= 255 ->
    canon fs (candidate cur p) = Ok l -> under r l = false ->
    resolve_and_ingest_with fs root rec depth cur p = ([], Err traversal).
  Proof.
    intros rec depth cur p r l Hr Hd Hc Hu. unfold resolve_and_ingest_with, open_source, RECURSION_LIMIT.
    destruct (Nat.leb_spec depth 255); [|lia]. cbn [negb].
    rewrite (checked_outside _ _ _ Hr Hc Hu). reflexivity.
  Qed.

  Lemma include_hex_outside : forall cur p r l,
    root = Ok r -> canon fs (candidate cur p) = Ok l -> under r l = false ->
    include_hex fs root cur p = ([], Err traversal).
  Proof.
    intros cur p r l Hr Hc Hu. unfold include_hex. rewrite (checked_outside _ _ _ Hr Hc Hu). reflexivity.
  Qed.

  Definition directive_path (n : node) : option string :=
    match n with NOp _ => None | NImport p | NInclude p | NIncludeHex p => Some p end.
  Definition opens_source (n : node) : bool :=
    match n with NImport _ | NInclude _ => true | _ => false end.

  Lemma node_step_outside : forall rec depth cur n p r l,
    root = Ok r -> directive_path n = Some p -> (opens_source n = true -> depth <= 255) ->
    canon fs (candidate cur p) = Ok l -> under r l = false ->
    node_step fs root (resolve_and_ingest_with fs root rec depth cur) cur n = ([], Err traversal).
  Proof.
    intros rec depth cur n p r l Hr Hp Hd Hc Hu.
    destruct n as [a|q|q|q]; cbn [directive_path] in Hp; inversion Hp; subst q; cbn [node_step].
    - apply (import_outside rec depth cur p r l); auto.
    - rewrite (import_outside rec depth cur p r l); auto.
    - rewrite (include_hex_outside cur p r l); auto.
  Qed.

  (* errors of one node are the error of the whole file when everything before it succeeded *)
  Lemma preprocess_with_fails_at : forall rai cur pre n post lg x lg' e,
    preprocess_with fs root rai cur pre = (lg, Ok x) ->
    node_step fs root rai cur n = (lg', Err e) ->
    preprocess_with fs root rai cur (pre ++ n :: post) = (lg ++ lg', Err e).
  Proof.
    intros rai cur pre n post lg x lg' e Hpre Hn.
    rewrite preprocess_with_app, Hpre, lbind_ok, preprocess_with_cons, Hn. reflexivity.
  Qed.

  (* a run reaches a directive whose target exists outside the root: directly in the file being
     preprocessed, or in a file that one of its %import / %include directives opens -- any depth *)
  Inductive escapes (r : loc) : nat -> lpath -> list node -> Prop :=
  | esc_here : forall depth cur pre n post p l lg x,
      preprocess fs root (256 - depth) depth cur pre = (lg, Ok x) ->
      directive_path n = Some p -> (opens_source n = true -> depth <= 255) ->
      canon fs (candidate cur p) = Ok l -> under r l = false ->
      escapes r depth cur (pre ++ n :: post)
  | esc_nested : forall depth cur pre n post p lg x lg' cand f ns,
      preprocess fs root (256 - depth) depth cur pre = (lg, Ok x) ->
      directive_path n = Some p -> opens_source n = true ->
      open_source fs root depth cur p = (lg', Ok (cand, f)) ->
      f_src f = Ok ns ->
      escapes r (S depth) cand ns ->
      escapes r depth cur (pre ++ n :: post).

  Theorem escapes_fail : forall r depth cur ns,
    root = Ok r -> escapes r depth cur ns ->
    snd (preprocess fs root (256 - depth) depth cur ns) = Err traversal.
  Proof.
    intros r depth cur ns Hr H. induction H as
      [depth cur pre n post p l lg x Hpre Hp Hd Hc Hu
      |depth cur pre n post p lg x lg' cand f ns Hpre Hp Ho Hopen Hsrc Hesc IH].
    - rewrite preprocess_unfold in *. unfold resolve_and_ingest in *.
      erewrite preprocess_with_fails_at; [reflexivity|exact Hpre|].
      eapply node_step_outside; eauto.
    - destruct (open_source_spec _ _ _ _ _ _ _ _ Hopen) as (Hd & _).
      replace (256 - depth) with (S (256 - S depth)) in * by lia.
      rewrite preprocess_unfold in Hpre. rewrite preprocess_unfold.
      assert (Hrai : resolve_and_ingest fs root (S (256 - S depth)) depth cur p =
                     (lg' ++ fst (preprocess fs root (256 - S depth) (S depth) cand ns), Err traversal)).
      { rewrite resolve_and_ingest_S, Hopen, lbind_ok. cbn [fst snd]. rewrite Hsrc. unfold llift.
        rewrite lbind_ok. cbn [fst snd app]. rewrite IH. reflexivity. }
      destruct n as [a|q|q|q]; cbn [directive_path opens_source] in *; try discriminate;
        inversion Hp; subst q.
      + erewrite preprocess_with_fails_at; [reflexivity|exact Hpre|]. cbn [node_step]. exact Hrai.
      + erewrite preprocess_with_fails_at; [reflexivity|exact Hpre|]. cbn [node_step]. rewrite Hrai. reflexivity.
  Qed.
End Traversal.

(* ---------- the whole run ---------- *)
Lemma llift_reads : forall {A} (r : res A), fst (llift r) = [].
Proof. reflexivity. Qed.

Theorem ingest_nodes_reads : forall fs root mp ns,
  Forall (allowed root) (reads (ingest_nodes fs root mp ns)).
Proof.
  intros. unfold reads, ingest_nodes. apply lbind_reads; [apply preprocess_reads|]. intros. constructor.
Qed.

Theorem ingest_reads : forall fs main src,
  Forall (allowed (root_new fs (parse_path main))) (reads (ingest fs main src)).
Proof.
  intros. unfold reads, ingest. apply lbind_reads; [constructor|]. intros ns. apply ingest_nodes_reads.
Qed.

Theorem ingest_file_reads : forall fs main,
  Forall (allowed (root_new fs (parse_path main))) (reads (ingest_file fs main)).
Proof.
  intros. unfold ingest_file. destruct (canon fs (parse_path main)) as [l|e|s]; try constructor.
  destruct (lookup fs l) as [[|f|t]|]; try constructor. apply ingest_reads.
Qed.

(* the output: bytes only when the whole run succeeded *)
Lemma output_none : forall (r : logged (list N)) e, snd r = Err e -> output r = None.
Proof. intros r e H. unfold output. now rewrite H. Qed.

Theorem ingest_nodes_traversal : forall fs root r mp ns,
  root = Ok r -> escapes fs root r 1 mp ns ->
  snd (ingest_nodes fs root mp ns) = Err traversal /\ output (ingest_nodes fs root mp ns) = None.
Proof.
  intros fs root r mp ns Hr He. assert (H : snd (ingest_nodes fs root mp ns) = Err traversal).
  { unfold ingest_nodes. pose proof (escapes_fail fs root r 1 mp ns Hr He) as H.
    change (256 - 1) with RECURSION_LIMIT in H.
    destruct (preprocess fs root RECURSION_LIMIT 1 mp ns) as [lg [x|e|s]]; cbn [snd] in H; try discriminate.
    inversion H; subst. reflexivity. }
  split; [exact H|]. eapply output_none. exact H.
Qed.

(* ====================================================================== *)
(* Part D -- %include_hex contributes exactly the bytes written in the file *)
(* ====================================================================== *)
Definition non_ws (c : N) : Prop := is_ascii_ws c = false.

Lemma trim_start_ws : forall w x, Forall (fun c => is_ascii_ws c = true) w -> trim_start (w ++ x) = trim_start x.
Proof. induction 1 as [|c w Hc Hw IH]; [reflexivity|]. cbn [app trim_start]. now rewrite Hc. Qed.

Lemma trim_start_keep : forall x y, x <> [] -> Forall non_ws x -> trim_start (x ++ y) = x ++ y.
Proof.
  intros [|c x] y Hne H; [congruence|]. inversion H; subst. cbn [app trim_start]. unfold non_ws in *.
  now match goal with E : is_ascii_ws c = false |- _ => rewrite E end.
Qed.

Lemma trim_end_ws : forall w, Forall (fun c => is_ascii_ws c = true) w -> trim_end w = [].
Proof. induction 1 as [|c w Hc Hw IH]; [reflexivity|]. cbn [trim_end]. now rewrite IH, Hc. Qed.

Lemma trim_end_keep : forall x w, Forall non_ws x -> Forall (fun c => is_ascii_ws c = true) w ->
  trim_end (x ++ w) = x.
Proof.
  intros x w Hx Hw. induction Hx as [|c x Hc Hx IH]; [now apply trim_end_ws|].
  cbn [app trim_end]. rewrite IH. unfold non_ws in Hc. destruct x; [now rewrite Hc|reflexivity].
Qed.

Lemma trim_spec : forall w1 x w2,
  Forall (fun c => is_ascii_ws c = true) w1 -> Forall (fun c => is_ascii_ws c = true) w2 ->
  Forall non_ws x -> trim (w1 ++ x ++ w2) = x.
Proof.
  intros w1 x w2 H1 H2 Hx. unfold trim. rewrite trim_start_ws by exact H1.
  destruct x as [|c x'].
  - cbn [app]. replace w2 with (w2 ++ []) by apply app_nil_r. rewrite trim_start_ws by exact H2. reflexivity.
  - rewrite trim_start_keep; [|discriminate|exact Hx]. now apply trim_end_keep.
Qed.

Lemma hexdigit_non_ws : forall v, (v < 16)%N -> non_ws (hexdigit v).
Proof.
  intros v H. unfold non_ws, hexdigit, is_ascii_ws. destruct (N.ltb_spec v 10); lia.
Qed.

Lemma hex_encode_non_ws : forall bs, Forall (fun b => b < 256)%N bs -> Forall non_ws (hex_encode bs).
Proof.
  induction 1 as [|b bs Hb Hbs IH]; cbn [hex_encode]; [constructor|].
  constructor; [|constructor; [|exact IH]]; apply hexdigit_non_ws.
  - apply N.div_lt_upper_bound; lia.
  - apply N.mod_lt. lia.
Qed.

Lemma decode_at_encode : forall bs i, Forall (fun b => b < 256)%N bs -> decode_at i (hex_encode bs) = Ok bs.
Proof.
  intros bs i H. revert i. induction H as [|b bs Hb Hbs IH]; intros i; [reflexivity|].
  cbn [hex_encode decode_at].
  rewrite !hexval_hexdigit by (try (apply N.div_lt_upper_bound; lia); apply N.mod_lt; lia).
  rewrite IH. f_equal. f_equal. rewrite N.mul_comm. symmetry. apply N.div_mod. lia.
Qed.

(* a file holding the lower-case hex of bs, with any ASCII white space around it (a trailing
   newline or none), decodes to exactly bs -- every byte, any length *)
Theorem include_hex_verbatim : forall text bs w1 w2,
  Forall (fun b => b < 256)%N bs ->
  Forall (fun c => is_ascii_ws c = true) w1 -> Forall (fun c => is_ascii_ws c = true) w2 ->
  bytes_of_string text = w1 ++ hex_encode bs ++ w2 ->
  hex_decode_text text = Ok bs.
Proof.
  intros text bs w1 w2 Hb H1 H2 Ht. unfold hex_decode_text. rewrite Ht.
  rewrite trim_spec by (auto using hex_encode_non_ws).
  unfold decode_to_slice. rewrite hex_encode_length, even_double, decode_at_encode by exact Hb. reflexivity.
Qed.

(* what a successful %include_hex hands to the assembler *)
Lemma include_hex_spec : forall fs root cur p lg bs,
  include_hex fs root cur p = (lg, Ok bs) ->
  exists r l f, root = Ok r /\ canon fs (join_path (dir_of cur) (parse_path p)) = Ok l /\ under r l = true /\
                lookup fs l = Some (File f) /\ lg = [l] /\ hex_decode_text (f_text f) = Ok bs.
Proof.
  intros fs root cur p lg bs H. unfold include_hex, candidate in H.
  set (c := join_path (dir_of cur) (parse_path p)) in *.
  unfold llift in H. destruct (checked fs root c) as [[]|e|s] eqn:Ec; try discriminate.
  destruct (checked_ok _ _ _ Ec) as (r & l & Hr & Hc & Hu).
  rewrite lbind_ok in H. cbn [fst snd app] in H. unfold read_logged, read_at in H. rewrite Hc in H. cbn [bind] in H.
  destruct (lookup fs l) as [[|f|t]|] eqn:El; try discriminate.
  rewrite lbind_ok in H. cbn [fst snd] in H. inversion H; subst.
  exists r, l, f. auto 10.
Qed.

(* the reads of a run, spelled out: each one lies, component-wise, under the canonical location
   of the directory of the top-level path *)
Theorem ingest_file_reads_explicit : forall fs main l,
  In l (reads (ingest_file fs main)) ->
  exists d r rest,
    pop (parse_path main) = (true, d) /\
    canon fs (join_path (mkp true (fs_cwd fs)) d) = Ok r /\ is_dir fs r = true /\
    l = r ++ rest.
Proof.
  intros fs main l Hin. pose proof (ingest_file_reads fs main) as H.
  rewrite Forall_forall in H. specialize (H l Hin). unfold allowed in H.
  destruct (root_new fs (parse_path main)) as [r|e|s] eqn:Er; try contradiction.
  destruct (root_new_spec _ _ _ Er) as (d & Hp & Hc & Hd). apply under_spec in H as [rest Hl].
  exists d, r, rest. auto.
Qed.

Theorem ingest_traversal : forall fs main r ns,
  root_new fs (parse_path main) = Ok r ->
  escapes fs (Ok r) r 1 (parse_path main) ns ->
  snd (ingest fs main (Ok ns)) = Err traversal /\ output (ingest fs main (Ok ns)) = None.
Proof.
  intros fs main r ns Hr He. unfold ingest. unfold llift. rewrite lbind_ok. cbn [fst snd app].
  rewrite Hr. unfold output. cbn [snd].
  destruct (ingest_nodes_traversal fs (Ok r) r (parse_path main) ns eq_refl He) as [H1 H2].
  unfold output in H2. split; assumption.
Qed.
