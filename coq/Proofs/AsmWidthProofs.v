(* Proofs/AsmWidthProofs.v -- a label-independent %push gets the minimal width (C07). *)
From Coq Require Import Lia ZifyBool ZifyNat ZifyN.
From Verif Require Import Model.Base Model.Ops Model.Expr Model.Asm Proofs.AsmLayoutProofs Proofs.AsmRangeProofs.
Open Scope Z_scope.
Ltac Zify.zify_post_hook ::= Z.div_mod_to_equations.

(* ---------- push_width is the least number of bytes (at least one) ---------- *)
Lemma pow256 : forall k, 0 <= k -> 256 ^ k = 2 ^ (8 * k).
Proof. intros k Hk. change 256 with (2 ^ 8). rewrite <- Z.pow_mul_r by lia. reflexivity. Qed.

Lemma push_width_spec : forall v, 0 <= v ->
  (1 <= push_width v)%nat /\
  v < 256 ^ Z.of_nat (push_width v) /\
  (push_width v = 1%nat \/ 256 ^ (Z.of_nat (push_width v) - 1) <= v).
Proof.
  intros v Hv. unfold push_width.
  destruct (Z.eqb_spec v 0) as [->|Hnz].
  - cbn. split; [lia|]. split; [reflexivity|now left].
  - assert (Hpos : 0 < v) by lia.
    pose proof (Z.log2_spec v Hpos) as [Hlo Hhi].
    pose proof (Z.log2_nonneg v) as Hl0.
    rewrite Z.abs_eq by lia.
    set (L := Z.log2 v) in *.
    rewrite Z.max_l by lia.
    replace (L + 1 - 1) with L by lia.
    set (q := L / 8).
    assert (Hq : 8 * q <= L < 8 * q + 8) by (unfold q; lia).
    assert (Hq0 : 0 <= q) by lia.
    rewrite Z2Nat.id by lia.
    split; [lia|]. split.
    + rewrite pow256 by lia. apply Z.lt_le_trans with (2 ^ Z.succ L); [exact Hhi|].
      apply Z.pow_le_mono_r; lia.
    + destruct (Z.eqb_spec q 0) as [Hq00|Hqn].
      * left. rewrite Hq00. reflexivity.
      * right. replace (1 + q - 1) with q by lia. rewrite pow256 by lia.
        apply Z.le_trans with (2 ^ L); [|exact Hlo]. apply Z.pow_le_mono_r; lia.
Qed.

Section Width.
  Variable macros : mtable.

  (* the value of e does not depend on the label environment *)
  Definition label_independent (e : expr) (v : Z) : Prop :=
    forall labels, eval_op macros labels e = Ok v.

  Definition target (v : Z) : nat := Nat.min (push_width v) 32.

  (* upper bound kept by every sweep; lower bound reached at the fixed point *)
  Fixpoint upper_ok (items : list ritem) (ws : list nat) : Prop :=
    match items with
    | [] => True
    | IPush e :: r =>
        match ws with
        | w :: ws' => (forall v, label_independent e v -> (w <= target v)%nat) /\ upper_ok r ws'
        | [] => True
        end
    | _ :: r => upper_ok r ws
    end.

  Fixpoint lower_ok (items : list ritem) (ws : list nat) : Prop :=
    match items with
    | [] => True
    | IPush e :: r =>
        match ws with
        | w :: ws' => (forall v, label_independent e v -> (target v <= w)%nat) /\ lower_ok r ws'
        | [] => True
        end
    | _ :: r => lower_ok r ws
    end.

  Lemma widen_upper : forall items labels ws, upper_ok items ws -> upper_ok items (widen macros items labels ws).
  Proof.
    induction items as [|it r IH]; intros labels ws H; cbn [widen upper_ok] in *; [exact I|].
    destruct it as [l|c imm|e|raw]; try (apply IH; exact H).
    destruct ws as [|w ws']; [exact I|]. destruct H as [Hw Hr]. split; [|apply IH; exact Hr].
    intros v Hv. specialize (Hw v Hv). rewrite (Hv labels). unfold target in *. lia.
  Qed.

  Lemma fixed_lower : forall items labels ws,
    widen macros items labels ws = ws -> lower_ok items ws.
  Proof.
    induction items as [|it r IH]; intros labels ws H; cbn [widen lower_ok] in *; [exact I|].
    destruct it as [l|c imm|e|raw]; try (eapply IH; exact H).
    destruct ws as [|w ws']; [exact I|]. injection H as Hw Hr. split; [|eapply IH; exact Hr].
    intros v Hv. rewrite (Hv labels) in Hw. unfold target. lia.
  Qed.

  Lemma upper_init : forall items n, upper_ok items (repeat 1%nat n).
  Proof.
    induction items as [|it r IH]; intros n; cbn [upper_ok]; [exact I|].
    destruct it as [l|c imm|e|raw]; try apply IH.
    destruct n as [|n]; cbn [repeat]; [exact I|]. split; [|apply IH].
    intros v Hv. unfold target. unfold push_width.
    destruct (v =? 0); [cbn; lia|].
    assert (0 <= (Z.max (Z.log2 (Z.abs v) + 1) 1 - 1) / 8) by (apply Z.div_pos; lia). lia.
  Qed.

  Lemma layout_loop_bounds : forall fuel items ws w pos,
    upper_ok items ws -> layout_loop macros fuel items ws = Ok (w, pos) ->
    upper_ok items w /\ lower_ok items w.
  Proof.
    induction fuel as [|f IH]; intros items ws w pos Hu H; cbn [layout_loop] in H; [discriminate|].
    destruct (list_nat_eqb ws _) eqn:E.
    - inversion H; subst. split; [exact Hu|]. apply list_nat_eqb_eq in E. eapply fixed_lower. symmetry. exact E.
    - eapply IH; [|exact H]. now apply widen_upper.
  Qed.

  Lemma widen_length : forall items labels ws,
    length ws = count_push items -> length (widen macros items labels ws) = count_push items.
  Proof.
    unfold count_push. induction items as [|it r IH]; intros labels ws H; cbn [widen filter length] in *.
    - reflexivity.
    - destruct it as [l|c imm|e|raw]; cbn [filter] in *; try (apply IH; exact H).
      destruct ws as [|w0 ws']; [discriminate|]. cbn [length] in *. f_equal. apply IH. lia.
  Qed.

  Lemma layout_loop_length : forall fuel items ws w pos,
    length ws = count_push items -> layout_loop macros fuel items ws = Ok (w, pos) ->
    length w = count_push items.
  Proof.
    induction fuel as [|f IH]; intros items ws w pos Hws H; cbn [layout_loop] in H; [discriminate|].
    destruct (list_nat_eqb ws _) eqn:E.
    - inversion H; subst. exact Hws.
    - eapply IH; [|exact H]. now apply widen_length.
  Qed.

  (* the k-th %push of the item list gets exactly min(push_width v, 32) *)
  Theorem layout_constant_width : forall items w pos,
    layout macros items = Ok (w, pos) ->
    Forall (fun p => match fst p with
                     | IPush e => forall v, label_independent e v -> snd p = target v
                     | _ => True end) (with_widths items w).
  Proof.
    intros items w pos H. unfold layout in H.
    assert (Hlen : length w = count_push items).
    { eapply layout_loop_length; [|exact H]. apply repeat_length. }
    destruct (layout_loop_bounds _ _ _ _ _ (upper_init items _) H) as [Hu Hl].
    clear H. revert w Hlen Hu Hl. unfold count_push.
    induction items as [|it r IH]; intros w Hlen Hu Hl; cbn [with_widths]; [constructor|].
    destruct it as [l|c imm|e|raw]; cbn [upper_ok lower_ok filter] in *;
      try (constructor; [exact I|apply IH; assumption]).
    destruct w as [|w0 w']; [cbn in Hlen; discriminate|].
    destruct Hu as [Hu1 Hu2], Hl as [Hl1 Hl2]. constructor.
    - cbn [fst snd]. intros v Hv. specialize (Hu1 v Hv). specialize (Hl1 v Hv). lia.
    - apply IH; auto; cbn [length] in Hlen; lia.
  Qed.
End Width.
