(* Proofs/AsmTotalProofs.v -- the assembler core returns in bounded time and never panics (C14):
   the relaxation loop terminates within its fuel, emission never runs out of widths,
   evaluation never panics. *)
From Coq Require Import Lia ZifyBool ZifyNat ZifyN.
From Verif Require Import Model.Base Model.Ops Model.Expr Model.Asm
  Proofs.ExprEvalProofs Proofs.AsmLayoutProofs Proofs.AsmRangeProofs Proofs.AsmWidthProofs.
Open Scope Z_scope.

Section Total.
  Variable macros : mtable.

  Definition wsum (ws : list nat) : nat := fold_right Nat.add 0%nat ws.

  Lemma widen_ge : forall items labels ws, length ws = count_push items ->
    Forall2 le ws (widen macros items labels ws).
  Proof.
    unfold count_push. induction items as [|it r IH]; intros labels ws H; cbn [widen filter length] in *.
    - destruct ws; [constructor|discriminate].
    - destruct it as [l|c imm|e|raw]; cbn [filter] in *; try (apply IH; exact H).
      destruct ws as [|w ws']; [discriminate|]. cbn [length] in H. constructor; [|apply IH; lia].
      destruct (eval_op macros labels e); lia.
  Qed.

  Lemma forall2_le_sum : forall a b, Forall2 le a b -> (wsum a <= wsum b)%nat /\ (wsum a = wsum b -> a = b).
  Proof.
    induction 1 as [|x y a b Hxy Hab IH]; cbn [wsum fold_right]; [auto|].
    fold (wsum a) (wsum b). destruct IH as [IH1 IH2]. split; [lia|].
    intros E. assert (x = y) by lia. assert (wsum a = wsum b) by lia. subst. f_equal. auto.
  Qed.

  Lemma list_nat_eqb_refl : forall a, list_nat_eqb a a = true.
  Proof. induction a as [|x a IH]; cbn; [reflexivity|]. now rewrite PeanoNat.Nat.eqb_refl, IH. Qed.

  Lemma widths_ok_sum : forall ws, widths_ok ws -> (wsum ws <= 32 * length ws)%nat.
  Proof.
    induction ws as [|w ws IH]; intros H; cbn [wsum fold_right length]; [lia|].
    inversion H; subst. fold (wsum ws). specialize (IH ltac:(assumption)). lia.
  Qed.

  (* the loop stops before its fuel runs out: each non-final sweep strictly increases the sum
     of the widths, which is bounded by 32 per push *)
  Lemma layout_loop_terminates : forall fuel items ws,
    length ws = count_push items -> widths_ok ws ->
    (32 * count_push items - wsum ws < fuel)%nat ->
    exists w pos, layout_loop macros fuel items ws = Ok (w, pos).
  Proof.
    induction fuel as [|f IH]; intros items ws Hlen Hok Hf; [lia|].
    cbn [layout_loop].
    set (ws' := widen macros items (lenv (positions items ws 0)) ws).
    destruct (list_nat_eqb ws ws') eqn:E; [eauto|].
    assert (Hge : Forall2 le ws ws') by (apply widen_ge; exact Hlen).
    destruct (forall2_le_sum _ _ Hge) as [Hs1 Hs2].
    assert (Hne : wsum ws <> wsum ws').
    { intros Eq. apply Hs2 in Eq. rewrite <- Eq, list_nat_eqb_refl in E. discriminate. }
    assert (Hok' : widths_ok ws') by (apply widen_ok; exact Hok).
    assert (Hlen' : length ws' = count_push items) by (apply widen_length; exact Hlen).
    pose proof (widths_ok_sum ws' Hok') as Hb. rewrite Hlen' in Hb.
    apply IH; auto. lia.
  Qed.

  Theorem layout_total : forall items, exists w pos, layout macros items = Ok (w, pos).
  Proof.
    intros items. unfold layout. apply layout_loop_terminates.
    - apply repeat_length.
    - unfold widths_ok. apply Forall_forall. intros x Hx. apply repeat_spec in Hx. lia.
    - assert (wsum (repeat 1%nat (count_push items)) = count_push items).
      { induction (count_push items) as [|n IHn]; cbn [repeat wsum fold_right]; [reflexivity|].
        fold (wsum (repeat 1%nat n)). lia. }
      lia.
  Qed.

  (* emission: a value or an error value, never a panic, once the widths match the pushes *)
  Lemma concretize_no_panic : forall n spec v s, concretize_imm n spec v <> Panic s.
  Proof. intros. unfold concretize_imm. destruct (v <? 0); [discriminate|]. destruct (Nat.leb _ _); discriminate. Qed.

  Lemma emit_item_no_panic : forall labels it w s, emit_item macros labels it w <> Panic s.
  Proof.
    intros labels it w s. destruct it as [l|c [e|]|e|raw]; cbn [emit_item]; try discriminate.
    - destruct (eval_op macros labels e) as [v|er|sx] eqn:E; try discriminate.
      + destruct (concretize_imm _ _ v) as [b|er|sx] eqn:Ec; cbn [bind]; try discriminate.
        exfalso. exact (concretize_no_panic _ _ _ _ Ec).
      + exfalso. exact (eval_no_panic _ _ _ _ _ _ E).
    - destruct (eval_op macros labels e) as [v|er|sx] eqn:E; try discriminate.
      + destruct (concretize_imm _ _ v) as [b|er|sx] eqn:Ec; cbn [bind]; try discriminate.
        exfalso. exact (concretize_no_panic _ _ _ _ Ec).
      + exfalso. exact (eval_no_panic _ _ _ _ _ _ E).
  Qed.

  Lemma bind2_no_panic : forall (r1 r2 : res (list N)) s,
    (forall s, r1 <> Panic s) -> (forall s, r2 <> Panic s) ->
    (do a <- r1 ; do b <- r2 ; Ok (a ++ b)) <> Panic s.
  Proof.
    intros r1 r2 s H1 H2. destruct r1 as [a|e|p]; cbn [bind]; try discriminate.
    - destruct r2 as [b|e|p]; cbn [bind]; try discriminate. apply H2.
    - apply H1.
  Qed.

  Lemma emit_no_panic : forall labels items ws s,
    length ws = count_push items -> emit macros labels items ws <> Panic s.
  Proof.
    unfold count_push. intros labels. induction items as [|it r IH]; intros ws s H; cbn [emit filter length] in *; [discriminate|].
    destruct it as [l|c imm|e|raw]; cbn [filter] in *.
    - apply bind2_no_panic; [intros s0; apply emit_item_no_panic|intros s0; apply IH; exact H].
    - apply bind2_no_panic; [intros s0; apply emit_item_no_panic|intros s0; apply IH; exact H].
    - destruct ws as [|w ws']; [discriminate|]. cbn [length] in H.
      apply bind2_no_panic; [intros s0; apply emit_item_no_panic|intros s0; apply IH; lia].
    - apply bind2_no_panic; [intros s0; apply emit_item_no_panic|intros s0; apply IH; exact H].
  Qed.

  (* backpatch_and_emit as a whole *)
  Theorem finish_scope_no_panic : forall st s, finish_scope macros st <> Panic s.
  Proof.
    intros st s. unfold finish_scope. destruct (a_undeclared st); [|discriminate].
    destruct (layout_total (a_ready st)) as (w & pos & El). rewrite El. cbn [bind fst snd].
    apply emit_no_panic. unfold layout in El. eapply layout_loop_length; [|exact El]. apply repeat_length.
  Qed.
End Total.

(* ---------- phase 1 never panics; hence Assembler::assemble as a whole ---------- *)
Section PushTotal.
  Variable macros : mtable.

  Lemma check_unsized_no_panic : forall v s, check_unsized v <> Panic s.
  Proof. intros. unfold check_unsized. destruct (v <? 0); [discriminate|]. destruct (Nat.ltb _ _); discriminate. Qed.

  Lemma early_check_no_panic : forall it s, early_check macros it <> Panic s.
  Proof.
    intros it s. destruct it as [l|c [e|]|e|raw]; cbn [early_check]; try discriminate.
    - destruct (eval_op macros no_labels e) as [v|er|sx] eqn:E.
      + destruct (concretize_imm _ _ v) as [b|er|sx] eqn:Ec; cbn [bind]; try discriminate.
        intros _. exact (concretize_no_panic _ _ _ _ Ec).
      + destruct (String.eqb _ _); discriminate.
      + intros _. exact (eval_no_panic _ _ _ _ _ _ E).
    - destruct (eval_op macros no_labels e) as [v|er|sx] eqn:E.
      + apply check_unsized_no_panic.
      + destruct (String.eqb _ _); discriminate.
      + intros _. exact (eval_no_panic _ _ _ _ _ _ E).
  Qed.

  Lemma push_item_no_panic : forall st it operand s, push_item macros st it operand <> Panic s.
  Proof.
    intros st it operand s. unfold push_item. destruct operand as [e|]; [|discriminate].
    destruct (elabels _ _ e) as [ls|er|sx] eqn:El; try discriminate.
    - destruct (early_check macros it) as [[]|er|sx] eqn:Ec; cbn [bind]; try discriminate.
      intros _. exact (early_check_no_panic _ _ Ec).
    - intros _. exact (elabels_no_panic _ _ _ _ El).
  Qed.

  Lemma rename_pass_no_panic : forall n body ctr ren s, rename_pass n body ctr ren <> Panic s.
  Proof.
    intros n. induction body as [|a r IH]; intros ctr ren s; cbn [rename_pass]; [discriminate|].
    destruct a as [c imm|l|e|m ps b|m ps b|m args];
      try (destruct (rename_pass n r ctr ren) as [[[r' c'] ren']|er|sx] eqn:E; cbn [bind]; try discriminate;
           intros _; exact (IH _ _ _ E)).
    destruct (existsb _ ren); [discriminate|].
    destruct (rename_pass n r (ctr + 1)%N (ren ++ [(l, mangle n l ctr)])) as [[[r' c'] ren']|er|sx] eqn:E; cbn [bind]; try discriminate.
    intros _. exact (IH _ _ _ E).
  Qed.

  Lemma push_op_no_panic : forall fuel st a s, push_op macros fuel st a <> Panic s.
  Proof.
    induction fuel as [|f IH]; intros st a s; destruct a as [c imm|l|e|n ps b|n ps b|n args]; cbn [push_op];
      try apply push_item_no_panic; try discriminate;
      try (destruct (mem l (a_declared st)); discriminate).
    - destruct (mlookup macros n) as [[ps body|d]|]; try discriminate. destruct (negb _); discriminate.
    - destruct (mlookup macros n) as [[ps body|d]|]; try discriminate. destruct (negb _); [discriminate|].
      destruct (rename_pass n body (a_ctr st) []) as [[[body1 ctr'] ren]|er|sx] eqn:Er; cbn [bind]; try discriminate.
      + generalize (mkast (a_ready st) (a_declared st) (a_undeclared st) ctr') as s0.
        generalize (map (rewrite_op ren (combine ps args)) body1) as l.
        induction l as [|b r IHl]; intros s0; [discriminate|].
        destruct (push_op macros f s0 b) as [s1|er|sx] eqn:Eb; cbn [bind]; try discriminate.
        * apply IHl.
        * intros _. exact (IH _ _ _ Eb).
      + intros _. exact (rename_pass_no_panic _ _ _ _ _ Er).
  Qed.
End PushTotal.

Lemma declare_macros_no_panic : forall ops t s, declare_macros ops t <> Panic s.
Proof.
  induction ops as [|o r IH]; intros t s; cbn [declare_macros]; [discriminate|].
  destruct o as [a|l|bs]; try apply IH.
  destruct a as [c imm|l|e|n ps b|n ps b|n args]; try apply IH;
    (destruct (mlookup t n); [discriminate|apply IH]).
Qed.

(* one scope never panics if assembling nested scopes never does *)
Lemma assemble_with_no_panic : forall rec ops,
  (forall inner s, In (RScope inner) ops -> rec (RScope inner) <> Panic s) ->
  forall s, assemble_with rec ops <> Panic s.
Proof.
  intros rec ops Hrec s. unfold assemble_with.
  destruct (declare_macros ops []) as [macros|er|sx] eqn:Ed; cbn [bind]; try discriminate.
  - match goal with |- bind ?g _ <> _ => destruct g as [st|er|sx] eqn:Eg end; cbn [bind]; try discriminate.
    + apply finish_scope_no_panic.
    + intros _. revert Eg Hrec. generalize ainit as s0. generalize ops as l.
      induction l as [|r l IH]; intros s0 Eg Hrec; [discriminate|].
      destruct r as [a|inner|bs].
      * destruct (push_op macros EXPANSION_FUEL s0 a) as [s1|er|sy] eqn:Ep; cbn [bind] in Eg; try discriminate.
        -- apply (IH s1 Eg). intros i s' Hi. apply Hrec. now right.
        -- inversion Eg; subst. exact (push_op_no_panic _ _ _ _ _ Ep).
      * destruct (rec (RScope inner)) as [bs|er|sy] eqn:Er; cbn [bind] in Eg; try discriminate.
        -- apply (IH _ Eg). intros i s' Hi. apply Hrec. now right.
        -- inversion Eg; subst. exact (Hrec inner sx (or_introl eq_refl) Er).
      * apply (IH _ Eg). intros i s' Hi. apply Hrec. now right.
  - intros _. exact (declare_macros_no_panic _ _ _ Ed).
Qed.

(* induction on the nesting of scopes *)
Fixpoint scope_depth (r : rawop) : nat :=
  match r with
  | RScope l => S (fold_right (fun x acc => Nat.max (scope_depth x) acc) 0%nat l)
  | _ => 0%nat
  end.

Lemma scope_depth_in : forall l x, In x l -> (scope_depth x <= fold_right (fun x acc => Nat.max (scope_depth x) acc) 0%nat l)%nat.
Proof.
  induction l as [|y l IH]; intros x Hin; [destruct Hin|]. cbn [fold_right].
  destruct Hin as [->|Hin]; [lia|]. specialize (IH x Hin). lia.
Qed.

Theorem assemble_scope_no_panic : forall n l s, (scope_depth (RScope l) <= n)%nat -> assemble_scope (RScope l) <> Panic s.
Proof.
  induction n as [|n IH]; intros l s Hd; [cbn in Hd; lia|].
  cbn [assemble_scope]. apply assemble_with_no_panic. intros inner s' Hin.
  apply IH. cbn [scope_depth] in Hd. pose proof (scope_depth_in l (RScope inner) Hin) as H. lia.
Qed.

Theorem assemble_no_panic : forall ops s, assemble ops <> Panic s.
Proof.
  intros ops s. unfold assemble. apply assemble_with_no_panic. intros inner s' Hin.
  apply (assemble_scope_no_panic (scope_depth (RScope inner))). lia.
Qed.

(* the parser's constant check and Ingest::ingest on a syntax tree *)
Lemma parse_push_check_no_panic : forall c e s, parse_push_check c e <> Panic s.
Proof.
  intros c e s. unfold parse_push_check.
  destruct (eval no_labels (fun _ => None) 0 None e); try discriminate. destruct (_ <=? _); discriminate.
Qed.

Lemma parse_check_aop_no_panic : forall a s, parse_check_aop a <> Panic s.
Proof.
  fix IH 1. intros a s. destruct a as [c [e|]|l|e|n ps b|n ps b|n args]; cbn [parse_check_aop]; try discriminate.
  - apply parse_push_check_no_panic.
  - induction b as [|x r IHr]; [discriminate|].
    destruct (parse_check_aop x) as [[]|er|sx] eqn:E; cbn [bind]; try discriminate; [exact IHr|].
    intros _. exact (IH x sx E).
Qed.

Lemma parse_check_no_panic : forall ops s, parse_check ops <> Panic s.
Proof.
  induction ops as [|o r IH]; intros s; cbn [parse_check]; [discriminate|].
  destruct o as [a|l|bs]; try apply IH.
  destruct (parse_check_aop a) as [[]|er|sx] eqn:E; cbn [bind]; try discriminate; [apply IH|].
  intros _. exact (parse_check_aop_no_panic _ _ E).
Qed.

Theorem ingest_ast_no_panic : forall ops s, ingest_ast ops <> Panic s.
Proof.
  intros ops s. unfold ingest_ast.
  destruct (parse_check ops) as [[]|er|sx] eqn:E; cbn [bind]; try discriminate; [apply assemble_no_panic|].
  intros _. exact (parse_check_no_panic _ _ E).
Qed.

(* ---------- completeness of emission: operands in range => bytes ---------- *)
Section EmitComplete.
  Variable macros : mtable.

  Lemma emit_item_complete : forall labels p,
    operand_in_range macros labels p -> exists b, emit_item macros labels (fst p) (snd p) = Ok b.
  Proof.
    intros labels [it w] H. unfold operand_in_range in H. cbn [fst snd] in *.
    destruct it as [l|c [e|]|e|raw]; cbn [emit_item]; eauto.
    - destruct H as (v & Ev & Hr). rewrite Ev. rewrite concretize_imm_accepts by exact Hr. cbn [bind]. eauto.
    - destruct H as (v & Ev & Hr). rewrite Ev. rewrite concretize_imm_accepts by exact Hr. cbn [bind]. eauto.
  Qed.

  Lemma emit_complete : forall labels items ws,
    length ws = count_push items ->
    Forall (operand_in_range macros labels) (with_widths items ws) ->
    exists bs, emit macros labels items ws = Ok bs.
  Proof.
    unfold count_push. intros labels. induction items as [|it r IH]; intros ws Hl H; cbn [emit]; [eauto|].
    destruct it as [l|c imm|e|raw]; cbn [with_widths filter length] in *.
    - inversion H as [|? ? Hp Hr]; subst. destruct (emit_item_complete _ _ Hp) as [a Ea]. cbn [fst snd] in Ea. rewrite Ea.
      destruct (IH ws Hl Hr) as [b Eb]. rewrite Eb. cbn [bind]. eauto.
    - inversion H as [|? ? Hp Hr]; subst. destruct (emit_item_complete _ _ Hp) as [a Ea]. cbn [fst snd] in Ea. rewrite Ea.
      destruct (IH ws Hl Hr) as [b Eb]. rewrite Eb. cbn [bind]. eauto.
    - destruct ws as [|w ws']; [discriminate|]. cbn [length] in Hl.
      inversion H as [|? ? Hp Hr]; subst. destruct (emit_item_complete _ _ Hp) as [a Ea]. cbn [fst snd] in Ea. rewrite Ea.
      destruct (IH ws' ltac:(lia) Hr) as [b Eb]. rewrite Eb. cbn [bind]. eauto.
    - inversion H as [|? ? Hp Hr]; subst. destruct (emit_item_complete _ _ Hp) as [a Ea]. cbn [fst snd] in Ea. rewrite Ea.
      destruct (IH ws Hl Hr) as [b Eb]. rewrite Eb. cbn [bind]. eauto.
  Qed.

  (* backpatch_and_emit succeeds EXACTLY when no used label is undeclared and every operand
     evaluates to a value in range under the labels the layout decides *)
  Theorem finish_scope_ok_iff : forall st,
    (exists bytes, finish_scope macros st = Ok bytes) <->
    (a_undeclared st = [] /\
     exists w pos, layout macros (a_ready st) = Ok (w, pos) /\
       Forall (operand_in_range macros (lenv pos)) (with_widths (a_ready st) w)).
  Proof.
    intros st. unfold finish_scope. split.
    - intros [bytes H]. destruct (a_undeclared st); [|discriminate]. split; [reflexivity|].
      destruct (layout macros (a_ready st)) as [[w pos]|er|s] eqn:El; cbn [bind fst snd] in H; try discriminate.
      exists w, pos. split; [reflexivity|].
      pose proof (emit_each macros _ _ _ _ H) as Hall.
      eapply Forall_impl; [|exact Hall]. intros p [b Hb]. eapply emitted_in_range; exact Hb.
    - intros (Hu & w & pos & El & Hall). rewrite Hu, El. cbn [bind fst snd].
      apply emit_complete; [|exact Hall].
      unfold layout in El. eapply layout_loop_length; [|exact El]. apply repeat_length.
  Qed.
End EmitComplete.
