(* Proofs/AsmTotalProofs.v -- the assembler core returns in bounded time and never panics (C14):
   the relaxation loop terminates within its fuel, emission never runs out of widths,
   evaluation never panics. *)
From Coq Require Import Lia ZifyBool ZifyNat ZifyN.
From Verif Require Import Model.Base Model.Ops Model.Expr Model.Asm
  Proofs.ExprEvalProofs Proofs.AsmLayoutProofs Proofs.AsmRangeProofs Proofs.AsmWidthProofs.
Open Scope Z_scope.

Section Total.
  Variable macros : mtable.

  Definition wsum (ws : list nat) : nat := fold_right Nat.add 0%nat ws.

  Lemma widen_ge : forall items labels ws, length ws = count_push items ->
    Forall2 le ws (widen macros items labels ws).
  Proof.
    unfold count_push. induction items as [|it r IH]; intros labels ws H; cbn [widen filter length] in *.
    - destruct ws; [constructor|discriminate].
    - destruct it as [l|c imm|e|raw]; cbn [filter] in *; try (apply IH; exact H).
      destruct ws as [|w ws']; [discriminate|]. cbn [length] in H. constructor; [|apply IH; lia].
      destruct (eval_op macros labels e); lia.
  Qed.

  Lemma forall2_le_sum : forall a b, Forall2 le a b -> (wsum a <= wsum b)%nat /\ (wsum a = wsum b -> a = b).
  Proof.
    induction 1 as [|x y a b Hxy Hab IH]; cbn [wsum fold_right]; [auto|].
    fold (wsum a) (wsum b). destruct IH as [IH1 IH2]. split; [lia|].
    intros E. assert (x = y) by lia. assert (wsum a = wsum b) by lia. subst. f_equal. auto.
  Qed.

  Lemma list_nat_eqb_refl : forall a, list_nat_eqb a a = true.
  Proof. induction a as [|x a IH]; cbn; [reflexivity|]. now rewrite PeanoNat.Nat.eqb_refl, IH. Qed.

  Lemma widths_ok_sum : forall ws, widths_ok ws -> (wsum ws <= 32 * length ws)%nat.
  Proof.
    induction ws as [|w ws IH]; intros H; cbn [wsum fold_right length]; [lia|].
    inversion H; subst. fold (wsum ws). specialize (IH ltac:(assumption)). lia.
  Qed.

  (* the loop stops before its fuel runs out: each non-final sweep strictly increases the sum
     of the widths, which is bounded by 32 per push *)
  Lemma layout_loop_terminates : forall fuel items ws,
    length ws = count_push items -> widths_ok ws ->
    (32 * count_push items - wsum ws < fuel)%nat ->
    exists w pos, layout_loop macros fuel items ws = Ok (w, pos).
  Proof.
    induction fuel as [|f IH]; intros items ws Hlen Hok Hf; [lia|].
    cbn [layout_loop].
    set (ws' := widen macros items (lenv (positions items ws 0)) ws).
    destruct (list_nat_eqb ws ws') eqn:E; [eauto|].
    assert (Hge : Forall2 le ws ws') by (apply widen_ge; exact Hlen).
    destruct (forall2_le_sum _ _ Hge) as [Hs1 Hs2].
    assert (Hne : wsum ws <> wsum ws').
    { intros Eq. apply Hs2 in Eq. rewrite <- Eq, list_nat_eqb_refl in E. discriminate. }
    assert (Hok' : widths_ok ws') by (apply widen_ok; exact Hok).
    assert (Hlen' : length ws' = count_push items) by (apply widen_length; exact Hlen).
    pose proof (widths_ok_sum ws' Hok') as Hb. rewrite Hlen' in Hb.
    apply IH; auto. lia.
  Qed.

  Theorem layout_total : forall items, exists w pos, layout macros items = Ok (w, pos).
  Proof.
    intros items. unfold layout. apply layout_loop_terminates.
    - apply repeat_length.
    - unfold widths_ok. apply Forall_forall. intros x Hx. apply repeat_spec in Hx. lia.
    - assert (wsum (repeat 1%nat (count_push items)) = count_push items).
      { induction (count_push items) as [|n IHn]; cbn [repeat wsum fold_right]; [reflexivity|].
        fold (wsum (repeat 1%nat n)). lia. }
      lia.
  Qed.

  (* emission: a value or an error value, never a panic, once the widths match the pushes *)
  Lemma concretize_no_panic : forall n spec v s, concretize_imm n spec v <> Panic s.
  Proof. intros. unfold concretize_imm. destruct (v <? 0); [discriminate|]. destruct (Nat.leb _ _); discriminate. Qed.

  Lemma emit_item_no_panic : forall labels it w s, emit_item macros labels it w <> Panic s.
  Proof.
    intros labels it w s. destruct it as [l|c [e|]|e|raw]; cbn [emit_item]; try discriminate.
    - destruct (eval_op macros labels e) as [v|er|sx] eqn:E; try discriminate.
      + destruct (concretize_imm _ _ v) as [b|er|sx] eqn:Ec; cbn [bind]; try discriminate.
        exfalso. exact (concretize_no_panic _ _ _ _ Ec).
      + exfalso. exact (eval_no_panic _ _ _ _ _ _ E).
    - destruct (eval_op macros labels e) as [v|er|sx] eqn:E; try discriminate.
      + destruct (concretize_imm _ _ v) as [b|er|sx] eqn:Ec; cbn [bind]; try discriminate.
        exfalso. exact (concretize_no_panic _ _ _ _ Ec).
      + exfalso. exact (eval_no_panic _ _ _ _ _ _ E).
  Qed.

  Lemma bind2_no_panic : forall (r1 r2 : res (list N)) s,
    (forall s, r1 <> Panic s) -> (forall s, r2 <> Panic s) ->
    (do a <- r1 ; do b <- r2 ; Ok (a ++ b)) <> Panic s.
  Proof.
    intros r1 r2 s H1 H2. destruct r1 as [a|e|p]; cbn [bind]; try discriminate.
    - destruct r2 as [b|e|p]; cbn [bind]; try discriminate. apply H2.
    - apply H1.
  Qed.

  Lemma emit_no_panic : forall labels items ws s,
    length ws = count_push items -> emit macros labels items ws <> Panic s.
  Proof.
    unfold count_push. intros labels. induction items as [|it r IH]; intros ws s H; cbn [emit filter length] in *; [discriminate|].
    destruct it as [l|c imm|e|raw]; cbn [filter] in *.
    - apply bind2_no_panic; [intros s0; apply emit_item_no_panic|intros s0; apply IH; exact H].
    - apply bind2_no_panic; [intros s0; apply emit_item_no_panic|intros s0; apply IH; exact H].
    - destruct ws as [|w ws']; [discriminate|]. cbn [length] in H.
      apply bind2_no_panic; [intros s0; apply emit_item_no_panic|intros s0; apply IH; lia].
    - apply bind2_no_panic; [intros s0; apply emit_item_no_panic|intros s0; apply IH; exact H].
  Qed.

  (* backpatch_and_emit as a whole *)
  Theorem finish_scope_no_panic : forall st s, finish_scope macros st <> Panic s.
  Proof.
    intros st s. unfold finish_scope. destruct (a_undeclared st); [|discriminate].
    destruct (layout_total (a_ready st)) as (w & pos & El). rewrite El. cbn [bind fst snd].
    apply emit_no_panic. unfold layout in El. eapply layout_loop_length; [|exact El]. apply repeat_length.
  Qed.
End Total.
