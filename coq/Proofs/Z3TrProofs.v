(* Proofs/Z3TrProofs.v -- the z3 term built for each EVM operation denotes the EVM's result
   (for all 256-bit operands); the stack-based traversal equals structural recursion on trees;
   soundness of the translation under concrete interpretations. *)
From Coq Require Import Lia ZifyBool ZifyNat ZifyN Zpow_facts.
From Verif Require Import Model.Base Model.Sym Model.SymTree Spec.EvmSem Spec.SmtBv Spec.SymEval Model.Z3Tr Proofs.SymProofs.
Open Scope Z_scope.

(* ====================================================================================== *)
(* 1. arithmetic over Z                                                                    *)
(* ====================================================================================== *)
Ltac Zify.zify_post_hook ::= Z.div_mod_to_equations.

Lemma W_eq : W = 2 ^ 256. Proof. reflexivity. Qed.
Lemma W_pos : 0 < 2 ^ 256. Proof. reflexivity. Qed.
Lemma half_W : 2 ^ 256 = 2 * 2 ^ 255. Proof. reflexivity. Qed.

Definition word (a : Z) : Prop := 0 <= a < 2 ^ 256.

Lemma is_word_word : forall a, is_word a <-> word a.
Proof. intros a. unfold is_word, word, W. tauto. Qed.

(* --- add, sub, mul --- *)
Lemma add_ok : forall a b, bin_sem Badd 256 a b = evm_add a b.
Proof. reflexivity. Qed.
Lemma sub_ok : forall a b, bin_sem Bsub 256 a b = evm_sub a b.
Proof. reflexivity. Qed.
Lemma mul_ok : forall a b, bin_sem Bmul 256 a b = evm_mul a b.
Proof. reflexivity. Qed.

(* --- div, mod --- *)
Lemma div_ok : forall a b,
  (if b =? 0 then 0 else bvudiv 256 a b) = evm_div a b.
Proof. intros a b. unfold bvudiv, evm_div. destruct (b =? 0); reflexivity. Qed.

Lemma mod_ok : forall a b,
  (if b =? 0 then 0 else bvurem a b) = evm_mod a b.
Proof. intros a b. unfold bvurem, evm_mod. destruct (b =? 0); reflexivity. Qed.

(* --- two's complement helpers --- *)
Lemma msb_spec : forall a, msb 256 a = negb (a <? 2 ^ 255).
Proof. intros a. unfold msb. change (256 - 1) with 255. lia. Qed.

Lemma to_signed_pos : forall a, a <? 2 ^ 255 = true -> to_signed a = a.
Proof. intros a H. unfold to_signed. rewrite H. reflexivity. Qed.
Lemma to_signed_neg : forall a, a <? 2 ^ 255 = false -> to_signed a = a - 2 ^ 256.
Proof. intros a H. unfold to_signed. rewrite H. reflexivity. Qed.

Lemma bvneg_neg : forall a, word a -> a <? 2 ^ 255 = false -> bvneg 256 a = 2 ^ 256 - a.
Proof. intros a Ha H. unfold bvneg, word in *. rewrite half_W in *. lia. Qed.

Lemma wrap_opp : forall q, 0 <= q < 2 ^ 256 -> wrap (- q) = bvneg 256 q.
Proof. intros q Hq. unfold wrap, bvneg, W. lia. Qed.

Lemma div_bounds : forall x y, 0 <= x -> 0 < y -> 0 <= x / y <= x.
Proof.
  intros x y Hx Hy. split.
  - apply Z.div_pos; lia.
  - apply Z.div_le_upper_bound; nia.
Qed.

(* --- sdiv --- *)
Lemma sdiv_ok : forall a b, word a -> word b ->
  (if b =? 0 then 0 else bvsdiv 256 a b) = evm_sdiv a b.
Proof.
  intros a b Ha Hb. unfold evm_sdiv. destruct (Z.eqb_spec b 0) as [E|E]; [reflexivity|].
  unfold bvsdiv, of_signed. rewrite !msb_spec.
  destruct (a <? 2 ^ 255) eqn:Sa; destruct (b <? 2 ^ 255) eqn:Sb; cbn [negb].
  - rewrite (to_signed_pos a Sa), (to_signed_pos b Sb).
    unfold bvudiv. destruct (Z.eqb_spec b 0); [lia|].
    rewrite Z.quot_div_nonneg by (unfold word in *; lia).
    pose proof (div_bounds a b ltac:(unfold word in *; lia) ltac:(unfold word in *; lia)).
    unfold wrap, W. rewrite Z.mod_small; [reflexivity|unfold word in *; lia].
  - rewrite (to_signed_pos a Sa), (to_signed_neg b Sb).
    rewrite (bvneg_neg b Hb Sb).
    unfold bvudiv. destruct (Z.eqb_spec (2 ^ 256 - b) 0); [unfold word in *; lia|].
    replace (b - 2 ^ 256) with (- (2 ^ 256 - b)) by lia.
    rewrite Z.quot_opp_r by lia.
    rewrite Z.quot_div_nonneg by (unfold word in *; lia).
    pose proof (div_bounds a (2 ^ 256 - b) ltac:(unfold word in *; lia) ltac:(unfold word in *; lia)).
    rewrite wrap_opp; [reflexivity|unfold word in *; lia].
  - rewrite (to_signed_neg a Sa), (to_signed_pos b Sb).
    rewrite (bvneg_neg a Ha Sa).
    unfold bvudiv. destruct (Z.eqb_spec b 0); [lia|].
    replace (a - 2 ^ 256) with (- (2 ^ 256 - a)) by lia.
    rewrite Z.quot_opp_l by lia.
    rewrite Z.quot_div_nonneg by (unfold word in *; lia).
    pose proof (div_bounds (2 ^ 256 - a) b ltac:(unfold word in *; lia) ltac:(unfold word in *; lia)).
    rewrite wrap_opp; [reflexivity|unfold word in *; lia].
  - rewrite (to_signed_neg a Sa), (to_signed_neg b Sb).
    rewrite (bvneg_neg a Ha Sa), (bvneg_neg b Hb Sb).
    unfold bvudiv. destruct (Z.eqb_spec (2 ^ 256 - b) 0); [unfold word in *; lia|].
    replace (a - 2 ^ 256) with (- (2 ^ 256 - a)) by lia.
    replace (b - 2 ^ 256) with (- (2 ^ 256 - b)) by lia.
    rewrite Z.quot_opp_l, Z.quot_opp_r by lia. rewrite Z.opp_involutive.
    rewrite Z.quot_div_nonneg by (unfold word in *; lia).
    pose proof (div_bounds (2 ^ 256 - a) (2 ^ 256 - b) ltac:(unfold word in *; lia) ltac:(unfold word in *; lia)).
    unfold wrap, W. rewrite Z.mod_small; [reflexivity|unfold word in *; lia].
Qed.

(* --- smod (the Rust uses bvsrem: sign of the dividend) --- *)
Lemma smod_ok : forall a b, word a -> word b ->
  (if b =? 0 then 0 else bvsrem 256 a b) = evm_smod a b.
Proof.
  intros a b Ha Hb. unfold evm_smod. destruct (Z.eqb_spec b 0) as [E|E]; [reflexivity|].
  unfold bvsrem, of_signed. rewrite !msb_spec.
  destruct (a <? 2 ^ 255) eqn:Sa; destruct (b <? 2 ^ 255) eqn:Sb; cbn [negb].
  - rewrite (to_signed_pos a Sa), (to_signed_pos b Sb).
    unfold bvurem. destruct (Z.eqb_spec b 0); [lia|].
    rewrite Z.rem_mod_nonneg by (unfold word in *; lia).
    pose proof (Z.mod_pos_bound a b ltac:(unfold word in *; lia)).
    unfold wrap, W. symmetry. apply Z.mod_small. unfold word in *; lia.
  - rewrite (to_signed_pos a Sa), (to_signed_neg b Sb).
    rewrite (bvneg_neg b Hb Sb).
    unfold bvurem. destruct (Z.eqb_spec (2 ^ 256 - b) 0); [unfold word in *; lia|].
    replace (b - 2 ^ 256) with (- (2 ^ 256 - b)) by lia.
    rewrite Z.rem_opp_r by lia.
    rewrite Z.rem_mod_nonneg by (unfold word in *; lia).
    pose proof (Z.mod_pos_bound a (2 ^ 256 - b) ltac:(unfold word in *; lia)).
    unfold wrap, W. symmetry. apply Z.mod_small. unfold word in *; lia.
  - rewrite (to_signed_neg a Sa), (to_signed_pos b Sb).
    rewrite (bvneg_neg a Ha Sa).
    unfold bvurem. destruct (Z.eqb_spec b 0); [lia|].
    replace (a - 2 ^ 256) with (- (2 ^ 256 - a)) by lia.
    rewrite Z.rem_opp_l by lia.
    rewrite Z.rem_mod_nonneg by (unfold word in *; lia).
    pose proof (Z.mod_pos_bound (2 ^ 256 - a) b ltac:(unfold word in *; lia)).
    rewrite wrap_opp; [reflexivity|unfold word in *; lia].
  - rewrite (to_signed_neg a Sa), (to_signed_neg b Sb).
    rewrite (bvneg_neg a Ha Sa), (bvneg_neg b Hb Sb).
    unfold bvurem. destruct (Z.eqb_spec (2 ^ 256 - b) 0); [unfold word in *; lia|].
    replace (a - 2 ^ 256) with (- (2 ^ 256 - a)) by lia.
    replace (b - 2 ^ 256) with (- (2 ^ 256 - b)) by lia.
    rewrite Z.rem_opp_l, Z.rem_opp_r by lia.
    rewrite Z.rem_mod_nonneg by (unfold word in *; lia).
    pose proof (Z.mod_pos_bound (2 ^ 256 - a) (2 ^ 256 - b) ltac:(unfold word in *; lia)).
    rewrite wrap_opp; [reflexivity|unfold word in *; lia].
Qed.

(* --- addmod / mulmod: the 257- and 512-bit widening --- *)
Lemma addmod_ok : forall a b n, word a -> word b -> word n ->
  (if n =? 0 then 0
   else (bvurem ((b + a) mod 2 ^ (256 + 1)) n / 2 ^ 0) mod 2 ^ (255 - 0 + 1)) = evm_addmod a b n.
Proof.
  intros a b n Ha Hb Hn. unfold evm_addmod. destruct (Z.eqb_spec n 0) as [E|E]; [reflexivity|].
  unfold bvurem. destruct (Z.eqb_spec n 0); [lia|].
  change (2 ^ 0) with 1. rewrite Z.div_1_r. change (255 - 0 + 1) with 256. change (256 + 1) with 257.
  assert (H257 : 2 ^ 257 = 2 * 2 ^ 256) by reflexivity.
  rewrite (Z.mod_small (b + a)) by (unfold word in *; lia).
  pose proof (Z.mod_pos_bound (b + a) n ltac:(unfold word in *; lia)).
  rewrite Z.mod_small by (unfold word in *; lia).
  rewrite (Z.add_comm b a). reflexivity.
Qed.

Lemma mulmod_ok : forall a b n, word a -> word b -> word n ->
  (if n =? 0 then 0
   else (bvurem ((b * a) mod 2 ^ (256 + 256)) n / 2 ^ 0) mod 2 ^ (255 - 0 + 1)) = evm_mulmod a b n.
Proof.
  intros a b n Ha Hb Hn. unfold evm_mulmod. destruct (Z.eqb_spec n 0) as [E|E]; [reflexivity|].
  unfold bvurem. destruct (Z.eqb_spec n 0); [lia|].
  change (2 ^ 0) with 1. rewrite Z.div_1_r. change (255 - 0 + 1) with 256. change (256 + 256) with 512.
  assert (H512 : 2 ^ 512 = 2 ^ 256 * 2 ^ 256) by reflexivity.
  assert (Hp : 0 <= b * a < 2 ^ 512).
  { unfold word in *. split; [apply Z.mul_nonneg_nonneg; lia|].
    rewrite H512. apply Z.mul_lt_mono_nonneg; lia. }
  rewrite (Z.mod_small (b * a)) by exact Hp.
  pose proof (Z.mod_pos_bound (b * a) n ltac:(unfold word in *; lia)).
  rewrite Z.mod_small by (unfold word in *; lia).
  rewrite (Z.mul_comm b a). reflexivity.
Qed.

(* --- comparisons --- *)
Lemma slt_ok : forall a b, word a -> word b -> bvslt 256 a b = (to_signed a <? to_signed b).
Proof.
  intros a b Ha Hb. unfold bvslt. rewrite !msb_spec.
  destruct (a <? 2 ^ 255) eqn:Sa; destruct (b <? 2 ^ 255) eqn:Sb; cbn [negb andb orb Bool.eqb].
  - rewrite (to_signed_pos a Sa), (to_signed_pos b Sb). reflexivity.
  - rewrite (to_signed_pos a Sa), (to_signed_neg b Sb). unfold word in *. lia.
  - rewrite (to_signed_neg a Sa), (to_signed_pos b Sb). unfold word in *. lia.
  - rewrite (to_signed_neg a Sa), (to_signed_neg b Sb). unfold word in *. lia.
Qed.

(* --- bitwise --- *)
Lemma log2_lt : forall w a, 0 < w -> 0 <= a < 2 ^ w -> Z.log2 a < w.
Proof.
  intros w a Hw Ha. destruct (Z.eq_dec a 0) as [E|E]; [subst a; cbn; lia|].
  apply Z.log2_lt_pow2; lia.
Qed.
Lemma bit_word : forall f w a b,
  f 0 0 = 0 ->
  (forall a b, 0 <= a -> 0 <= b -> 0 <= f a b) ->
  (forall a b, 0 <= a -> 0 <= b -> Z.log2 (f a b) <= Z.max (Z.log2 a) (Z.log2 b)) ->
  0 <= w -> 0 <= a < 2 ^ w -> 0 <= b < 2 ^ w -> 0 <= f a b < 2 ^ w.
Proof.
  intros f w a b H00 Hnn Hlog Hw Ha Hb. split; [apply Hnn; lia|].
  destruct (Z.eq_dec w 0) as [Ew|Ew].
  - subst w. change (2 ^ 0) with 1 in *. assert (a = 0) by lia. assert (b = 0) by lia. subst a b.
    rewrite H00. lia.
  - destruct (Z.eq_dec (f a b) 0) as [E|E]; [rewrite E; lia|].
    apply Z.log2_lt_pow2; [specialize (Hnn a b ltac:(lia) ltac:(lia)); lia|].
    eapply Z.le_lt_trans; [apply Hlog; lia|].
    apply Z.max_lub_lt; apply log2_lt; lia.
Qed.
Lemma land_word : forall w a b, 0 <= w -> 0 <= a < 2 ^ w -> 0 <= b < 2 ^ w -> 0 <= Z.land a b < 2 ^ w.
Proof.
  intros w a b. apply (bit_word Z.land); [reflexivity| |].
  - intros x y Hx Hy. apply Z.land_nonneg. lia.
  - intros x y Hx Hy. pose proof (Z.log2_land x y Hx Hy). lia.
Qed.
Lemma lor_word : forall w a b, 0 <= w -> 0 <= a < 2 ^ w -> 0 <= b < 2 ^ w -> 0 <= Z.lor a b < 2 ^ w.
Proof.
  intros w a b. apply (bit_word Z.lor); [reflexivity| |].
  - intros x y Hx Hy. apply Z.lor_nonneg. lia.
  - intros x y Hx Hy. rewrite (Z.log2_lor x y Hx Hy). lia.
Qed.
Lemma lxor_word : forall w a b, 0 <= w -> 0 <= a < 2 ^ w -> 0 <= b < 2 ^ w -> 0 <= Z.lxor a b < 2 ^ w.
Proof.
  intros w a b. apply (bit_word Z.lxor); [reflexivity| |].
  - intros x y Hx Hy. apply Z.lxor_nonneg. lia.
  - intros x y Hx Hy. apply Z.log2_lxor; lia.
Qed.

(* --- byte: every index, including >= 32 and those for which index*8 wraps --- *)
Lemma byte_ok : forall i x, word i -> word x ->
  (if i <? 32 then Z.land (bvlshr 256 x ((248 - (i * 8) mod 2 ^ 256) mod 2 ^ 256)) 255 else 0)
  = evm_byte i x.
Proof.
  intros i x Hi Hx. unfold evm_byte. destruct (Z.ltb_spec i 32) as [L|L]; [|reflexivity].
  unfold word in *.
  rewrite (Z.mod_small (i * 8)) by lia.
  rewrite (Z.mod_small (248 - i * 8)) by lia.
  unfold bvlshr. destruct (Z.ltb_spec (248 - i * 8) 256); [|lia].
  change 255 with (Z.ones 8). rewrite Z.land_ones by lia.
  replace (8 * (31 - i)) with (248 - i * 8) by lia. reflexivity.
Qed.

(* --- shifts, including amounts >= 256 --- *)
Lemma shl_ok : forall s x, bvshl 256 x s = evm_shl s x.
Proof. reflexivity. Qed.
Lemma shr_ok : forall s x, bvlshr 256 x s = evm_shr s x.
Proof. reflexivity. Qed.

Lemma div_opp_succ : forall y p, 0 < p -> (- (y + 1)) / p = - (y / p) - 1.
Proof.
  intros y p Hp. symmetry. apply Z.div_unique with (r := p - 1 - y mod p).
  - left. pose proof (Z.mod_pos_bound y p Hp). lia.
  - pose proof (Z.div_mod y p ltac:(lia)). nia.
Qed.

Lemma pow2_pos : forall s, 0 <= s -> 0 < 2 ^ s.
Proof. intros s Hs. apply Z.pow_pos_nonneg; lia. Qed.

Lemma sar_ok : forall s x, word s -> word x -> bvashr 256 x s = evm_sar s x.
Proof.
  intros s x Hs Hx. unfold bvashr, evm_sar, of_signed. rewrite msb_spec.
  destruct (x <? 2 ^ 255) eqn:Sx; cbn [negb].
  - rewrite (to_signed_pos x Sx). unfold bvlshr. destruct (Z.ltb_spec s 256) as [L|L].
    + pose proof (pow2_pos s ltac:(unfold word in *; lia)).
      pose proof (div_bounds x (2 ^ s) ltac:(unfold word in *; lia) ltac:(lia)).
      unfold wrap, W. symmetry. apply Z.mod_small. unfold word in *. lia.
    + destruct (Z.ltb_spec x 0); [unfold word in *; lia|reflexivity].
  - rewrite (to_signed_neg x Sx). unfold bvlshr, bvnot. destruct (Z.ltb_spec s 256) as [L|L].
    + pose proof (pow2_pos s ltac:(unfold word in *; lia)) as Hp.
      replace (x - 2 ^ 256) with (- ((2 ^ 256 - 1 - x) + 1)) by lia.
      rewrite (div_opp_succ _ _ Hp).
      pose proof (div_bounds (2 ^ 256 - 1 - x) (2 ^ s) ltac:(unfold word in *; lia) ltac:(lia)).
      unfold wrap, W. unfold word in *. lia.
    + destruct (Z.ltb_spec (x - 2 ^ 256) 0); [unfold W; lia|unfold word in *; lia].
Qed.

(* --- not --- *)
Lemma not_ok : forall a, bvnot 256 a = evm_not a.
Proof. reflexivity. Qed.

(* --- signextend, every size --- *)
Lemma testbit_mod : forall x t, 0 <= t -> Z.testbit x t = (2 ^ t <=? x mod 2 ^ (t + 1)).
Proof.
  intros x t Ht.
  pose proof (Z.testbit_spec' x t Ht) as Hb.
  pose proof (pow2_pos t Ht) as Hp.
  rewrite Z.pow_add_r by lia. change (2 ^ 1) with 2.
  rewrite Z.rem_mul_r by lia.
  pose proof (Z.mod_pos_bound x (2 ^ t) Hp).
  destruct (Z.testbit x t); cbn [Z.b2z] in Hb; rewrite <- Hb; lia.
Qed.

Lemma signextend_ok : forall b x, word b -> word x ->
  (let k := (((31 - b) mod 2 ^ 256) * 8) mod 2 ^ 256 in
   if b <? 31 then bvashr 256 (bvshl 256 x k) k else x) = evm_signextend b x.
Proof.
  intros b x Hb Hx. cbv zeta. unfold evm_signextend.
  destruct (Z.ltb_spec b 31) as [L|L]; [|reflexivity].
  unfold word in *.
  rewrite (Z.mod_small (31 - b)) by lia.
  rewrite (Z.mod_small ((31 - b) * 8)) by lia.
  set (k := (31 - b) * 8). set (t := 8 * b + 7).
  assert (Hk : 0 <= k < 256) by (unfold k; lia).
  assert (Ht : 0 <= t) by (unfold t; lia).
  assert (Hkt : t + 1 + k = 256) by (unfold k, t; lia).
  pose proof (pow2_pos k ltac:(lia)) as Hp. pose proof (pow2_pos (t + 1) ltac:(lia)) as Hq.
  pose proof (pow2_pos t Ht) as Hh.
  assert (HW : 2 ^ 256 = 2 ^ (t + 1) * 2 ^ k) by (rewrite <- Z.pow_add_r by lia; f_equal; lia).
  assert (HH : 2 ^ 255 = 2 ^ t * 2 ^ k) by (rewrite <- Z.pow_add_r by lia; f_equal; lia).
  assert (Hq2 : 2 ^ (t + 1) = 2 * 2 ^ t) by (rewrite Z.pow_add_r by lia; change (2 ^ 1) with 2; lia).
  rewrite (testbit_mod x t Ht).
  unfold bvshl. destruct (Z.ltb_spec k 256); [|lia].
  rewrite HW at 1. rewrite Z.mul_mod_distr_r by lia.
  set (low := x mod 2 ^ (t + 1)).
  assert (Hlow : 0 <= low < 2 ^ (t + 1)) by (apply Z.mod_pos_bound; lia).
  unfold bvashr. rewrite msb_spec. rewrite HH.
  unfold bvlshr, bvnot. destruct (Z.ltb_spec k 256); [|lia].
  destruct (Z.leb_spec (2 ^ t) low) as [B|B].
  - (* sign bit set *)
    destruct (Z.ltb_spec (low * 2 ^ k) (2 ^ t * 2 ^ k)) as [C|C]; [nia|]. cbn [negb].
    assert (E : (2 ^ 256 - 1 - low * 2 ^ k) / 2 ^ k = 2 ^ (t + 1) - 1 - low).
    { symmetry. apply Z.div_unique with (r := 2 ^ k - 1); [left; lia|]. rewrite HW. ring. }
    rewrite E. unfold W. lia.
  - destruct (Z.ltb_spec (low * 2 ^ k) (2 ^ t * 2 ^ k)) as [C|C]; [|nia]. cbn [negb].
    rewrite Z.div_mul by lia. reflexivity.
Qed.

(* the guards in bvshl / bvlshr agree with the literal SMT-LIB formulas *)
Lemma bvshl_literal : forall w a b, 0 <= w -> 0 <= b -> bvshl w a b = (a * 2 ^ b) mod 2 ^ w.
Proof.
  intros w a b Hw Hb. unfold bvshl. destruct (Z.ltb_spec b w) as [L|L]; [reflexivity|].
  replace b with (w + (b - w)) by lia. rewrite Z.pow_add_r by lia.
  rewrite (Z.mul_comm (2 ^ w)), Z.mul_assoc, Z.mod_mul; [reflexivity|].
  pose proof (pow2_pos w Hw). lia.
Qed.
Lemma bvlshr_literal : forall w a b, 0 <= w -> 0 <= b -> 0 <= a < 2 ^ w -> bvlshr w a b = a / 2 ^ b.
Proof.
  intros w a b Hw Hb Ha. unfold bvlshr. destruct (Z.ltb_spec b w) as [L|L]; [reflexivity|].
  symmetry. apply Z.div_small. split; [lia|].
  eapply Z.lt_le_trans; [apply Ha|]. apply Z.pow_le_mono_r; lia.
Qed.

(* ====================================================================================== *)
(* 2. well-sorted terms denote values of their width                                       *)
(* ====================================================================================== *)
Scheme bvterm_mind := Induction for bvterm Sort Prop
  with bvform_mind := Induction for bvform Sort Prop.

Definition inw (w a : Z) : Prop := 0 <= a < 2 ^ w.

Lemma bvneg_inw : forall w a, 0 <= w -> inw w (bvneg w a).
Proof. intros w a Hw. unfold inw, bvneg. apply Z.mod_pos_bound. apply pow2_pos; lia. Qed.
Lemma bvnot_inw : forall w a, inw w a -> inw w (bvnot w a).
Proof. intros w a Ha. unfold inw, bvnot in *. lia. Qed.
Lemma mod_inw : forall w a, 0 <= w -> inw w (a mod 2 ^ w).
Proof. intros w a Hw. unfold inw. apply Z.mod_pos_bound. apply pow2_pos; lia. Qed.
Lemma bvudiv_inw : forall w a b, 0 <= w -> inw w a -> inw w b -> inw w (bvudiv w a b).
Proof.
  intros w a b Hw Ha Hb. unfold inw, bvudiv in *. pose proof (pow2_pos w Hw).
  destruct (Z.eqb_spec b 0); [lia|].
  pose proof (div_bounds a b ltac:(lia) ltac:(lia)). lia.
Qed.
Lemma bvurem_inw : forall w a b, inw w a -> inw w b -> inw w (bvurem a b).
Proof.
  intros w a b Ha Hb. unfold inw, bvurem in *.
  destruct (Z.eqb_spec b 0); [lia|].
  pose proof (Z.mod_pos_bound a b ltac:(lia)). lia.
Qed.
Lemma bvlshr_inw : forall w a b, inw w a -> 0 <= b -> inw w (bvlshr w a b).
Proof.
  intros w a b Ha Hb. unfold inw, bvlshr in *. destruct (Z.ltb_spec b w); [|lia].
  pose proof (div_bounds a (2 ^ b) ltac:(lia) (pow2_pos b Hb)). lia.
Qed.

Lemma bin_sem_inw : forall op w a b, 0 < w -> inw w a -> inw w b -> inw w (bin_sem op w a b).
Proof.
  intros op w a b Hw Ha Hb. assert (Hw0 : 0 <= w) by lia.
  destruct op; cbn [bin_sem].
  - apply mod_inw; lia.
  - apply mod_inw; lia.
  - apply mod_inw; lia.
  - apply bvudiv_inw; assumption.
  - unfold bvsdiv. destruct (msb w a), (msb w b);
      repeat first [apply bvneg_inw; assumption | apply bvudiv_inw; try assumption].
  - apply bvurem_inw; assumption.
  - unfold bvsrem. destruct (msb w a), (msb w b);
      repeat first [apply bvneg_inw; assumption | apply bvurem_inw; try assumption].
  - unfold bvsmod.
    set (u := bvurem _ _).
    assert (Hu : inw w u).
    { unfold u. destruct (msb w a), (msb w b);
        repeat first [apply bvneg_inw; assumption | apply bvurem_inw; try assumption]. }
    destruct (u =? 0); [assumption|].
    destruct (msb w a), (msb w b);
      first [apply bvneg_inw; assumption | apply mod_inw; assumption | assumption].
  - apply land_word; assumption.
  - apply lor_word; assumption.
  - apply lxor_word; assumption.
  - unfold bvshl. destruct (b <? w); [apply mod_inw; assumption|]. unfold inw. pose proof (pow2_pos w Hw0). lia.
  - apply bvlshr_inw; [assumption|unfold inw in Hb; lia].
  - unfold bvashr. assert (0 <= b) by (unfold inw in Hb; lia).
    destruct (msb w a).
    + apply bvnot_inw, bvlshr_inw; [apply bvnot_inw; assumption|assumption].
    + apply bvlshr_inw; assumption.
Qed.

Ltac split_andb :=
  repeat match goal with
         | H : _ && _ = true |- _ => apply andb_prop in H; destruct H
         end.

Lemma wf_range : forall M t, wf_term t = true -> 0 < width t /\ inw (width t) (bv_eval M t).
Proof.
  intros M.
  apply (bvterm_mind
    (fun t => wf_term t = true -> 0 < width t /\ inw (width t) (bv_eval M t))
    (fun f => True)); try (intros; exact I).
  - (* BVal *) intros v w H. cbn [wf_term width bv_eval] in *; split_andb. split; [lia|]. apply mod_inw. lia.
  - intros name _. cbn [width bv_eval]. split; [lia|]. apply mod_inw. lia.
  - intros p id _. cbn [width bv_eval]. split; [lia|]. apply mod_inw. lia.
  - intros f a _ _. cbn [width bv_eval]. split; [lia|]. apply mod_inw. lia.
  - (* BBin *) intros op a IHa b IHb H. cbn [wf_term width bv_eval] in *; split_andb.
    destruct IHa as [Wa Ra]; [assumption|]. destruct IHb as [Wb Rb]; [assumption|].
    assert (E : width a = width b) by lia.
    split; [assumption|]. apply bin_sem_inw; [assumption|assumption|rewrite E; assumption].
  - (* BNot *) intros a IHa H. cbn [wf_term width bv_eval] in *; split_andb. destruct (IHa H) as [Wa Ra].
    split; [assumption|]. apply bvnot_inw; assumption.
  - (* BZext *) intros k a IHa H. cbn [wf_term width bv_eval] in *; split_andb. destruct IHa as [Wa Ra]; [assumption|].
    split; [lia|]. unfold inw in *. split; [lia|].
    eapply Z.lt_le_trans; [apply Ra|]. apply Z.pow_le_mono_r; lia.
  - (* BExtract *) intros hi lo a IHa H. cbn [wf_term width bv_eval] in *; split_andb.
    split; [lia|]. apply mod_inw. lia.
  - (* BConcat *) intros a IHa b IHb H. cbn [wf_term width bv_eval] in *; split_andb.
    destruct IHa as [Wa Ra]; [assumption|]. destruct IHb as [Wb Rb]; [assumption|].
    split; [lia|]. unfold inw in *. rewrite Z.pow_add_r by lia.
    pose proof (pow2_pos (width b) ltac:(lia)). nia.
  - (* BIte *) intros c _ a IHa b IHb H. cbn [wf_term width bv_eval] in *; split_andb.
    destruct IHa as [Wa Ra]; [assumption|]. destruct IHb as [Wb Rb]; [assumption|].
    assert (E : width a = width b) by lia.
    split; [assumption|]. destruct (form_eval M c); [assumption|rewrite E; assumption].
Qed.

(* a well-sorted 256-bit term *)
Definition bv256 (t : bvterm) : Prop := wf_term t = true /\ width t = 256.

Lemma bv256_word : forall M t, bv256 t -> word (bv_eval M t).
Proof. intros M t [Hw Ew]. destruct (wf_range M t Hw) as [_ R]. rewrite Ew in R. exact R. Qed.

(* ====================================================================================== *)
(* 3. per-operation correctness: the term built by Z3Visit::exit denotes the EVM's result   *)
(* ====================================================================================== *)
Ltac ev :=
  unfold t_add, t_sub, t_mul, t_div, t_sdiv, t_mod, t_smod, t_lt, t_gt, t_slt, t_sgt, t_eq,
    t_and, t_or, t_xor, t_shl, t_shr, t_sar, t_not, t_iszero, t_signextend, t_byte, t_addmod,
    t_mulmod, guard0, ite01, c256;
  cbn [bv_eval form_eval cmp_sem bin_sem width];
  repeat match goal with H : bv256 _ |- _ => destruct H as [? ?] end;
  repeat match goal with H : width _ = 256 |- _ => rewrite ?H; clear H end;
  change (0 mod 2 ^ 256) with 0; change (1 mod 2 ^ 256) with 1.

Lemma tr_add_correct : forall M ta tb, bv256 ta -> bv256 tb ->
  bv_eval M (t_add ta tb) = evm_add (bv_eval M ta) (bv_eval M tb).
Proof.
  intros M ta tb Ha Hb. pose proof (bv256_word M ta Ha). pose proof (bv256_word M tb Hb).
  ev. reflexivity.
Qed.

Lemma tr_sub_correct : forall M ta tb, bv256 ta -> bv256 tb ->
  bv_eval M (t_sub ta tb) = evm_sub (bv_eval M ta) (bv_eval M tb).
Proof.
  intros M ta tb Ha Hb. pose proof (bv256_word M ta Ha). pose proof (bv256_word M tb Hb).
  ev. reflexivity.
Qed.

Lemma tr_mul_correct : forall M ta tb, bv256 ta -> bv256 tb ->
  bv_eval M (t_mul ta tb) = evm_mul (bv_eval M ta) (bv_eval M tb).
Proof.
  intros M ta tb Ha Hb. pose proof (bv256_word M ta Ha). pose proof (bv256_word M tb Hb).
  ev. reflexivity.
Qed.

Lemma tr_div_correct : forall M ta tb, bv256 ta -> bv256 tb ->
  bv_eval M (t_div ta tb) = evm_div (bv_eval M ta) (bv_eval M tb).
Proof.
  intros M ta tb Ha Hb. pose proof (bv256_word M ta Ha). pose proof (bv256_word M tb Hb).
  ev. apply div_ok.
Qed.

Lemma tr_sdiv_correct : forall M ta tb, bv256 ta -> bv256 tb ->
  bv_eval M (t_sdiv ta tb) = evm_sdiv (bv_eval M ta) (bv_eval M tb).
Proof.
  intros M ta tb Ha Hb. pose proof (bv256_word M ta Ha). pose proof (bv256_word M tb Hb).
  ev. apply sdiv_ok; assumption.
Qed.

Lemma tr_mod_correct : forall M ta tb, bv256 ta -> bv256 tb ->
  bv_eval M (t_mod ta tb) = evm_mod (bv_eval M ta) (bv_eval M tb).
Proof.
  intros M ta tb Ha Hb. pose proof (bv256_word M ta Ha). pose proof (bv256_word M tb Hb).
  ev. apply mod_ok.
Qed.

Lemma tr_smod_correct : forall M ta tb, bv256 ta -> bv256 tb ->
  bv_eval M (t_smod ta tb) = evm_smod (bv_eval M ta) (bv_eval M tb).
Proof.
  intros M ta tb Ha Hb. pose proof (bv256_word M ta Ha). pose proof (bv256_word M tb Hb).
  ev. apply smod_ok; assumption.
Qed.

Lemma tr_addmod_correct : forall M ta tb tc, bv256 ta -> bv256 tb -> bv256 tc ->
  bv_eval M (t_addmod ta tb tc) = evm_addmod (bv_eval M ta) (bv_eval M tb) (bv_eval M tc).
Proof.
  intros M ta tb tc Ha Hb Hc. pose proof (bv256_word M ta Ha). pose proof (bv256_word M tb Hb).
  pose proof (bv256_word M tc Hc).
  ev. apply addmod_ok; assumption.
Qed.

Lemma tr_mulmod_correct : forall M ta tb tc, bv256 ta -> bv256 tb -> bv256 tc ->
  bv_eval M (t_mulmod ta tb tc) = evm_mulmod (bv_eval M ta) (bv_eval M tb) (bv_eval M tc).
Proof.
  intros M ta tb tc Ha Hb Hc. pose proof (bv256_word M ta Ha). pose proof (bv256_word M tb Hb).
  pose proof (bv256_word M tc Hc).
  ev. apply mulmod_ok; assumption.
Qed.

Lemma tr_lt_correct : forall M ta tb, bv256 ta -> bv256 tb ->
  bv_eval M (t_lt ta tb) = evm_lt (bv_eval M ta) (bv_eval M tb).
Proof.
  intros M ta tb Ha Hb. pose proof (bv256_word M ta Ha). pose proof (bv256_word M tb Hb).
  ev. reflexivity.
Qed.

Lemma tr_gt_correct : forall M ta tb, bv256 ta -> bv256 tb ->
  bv_eval M (t_gt ta tb) = evm_gt (bv_eval M ta) (bv_eval M tb).
Proof.
  intros M ta tb Ha Hb. pose proof (bv256_word M ta Ha). pose proof (bv256_word M tb Hb).
  ev. reflexivity.
Qed.

Lemma tr_slt_correct : forall M ta tb, bv256 ta -> bv256 tb ->
  bv_eval M (t_slt ta tb) = evm_slt (bv_eval M ta) (bv_eval M tb).
Proof.
  intros M ta tb Ha Hb. pose proof (bv256_word M ta Ha). pose proof (bv256_word M tb Hb).
  ev. unfold evm_slt. rewrite slt_ok by assumption. reflexivity.
Qed.

Lemma tr_sgt_correct : forall M ta tb, bv256 ta -> bv256 tb ->
  bv_eval M (t_sgt ta tb) = evm_sgt (bv_eval M ta) (bv_eval M tb).
Proof.
  intros M ta tb Ha Hb. pose proof (bv256_word M ta Ha). pose proof (bv256_word M tb Hb).
  ev. unfold evm_sgt. rewrite slt_ok by assumption. reflexivity.
Qed.

Lemma tr_eq_correct : forall M ta tb, bv256 ta -> bv256 tb ->
  bv_eval M (t_eq ta tb) = evm_eq (bv_eval M ta) (bv_eval M tb).
Proof.
  intros M ta tb Ha Hb. pose proof (bv256_word M ta Ha). pose proof (bv256_word M tb Hb).
  ev. reflexivity.
Qed.

Lemma tr_iszero_correct : forall M ta, bv256 ta ->
  bv_eval M (t_iszero ta) = evm_iszero (bv_eval M ta).
Proof.
  intros M ta Ha. pose proof (bv256_word M ta Ha).
  ev. reflexivity.
Qed.

Lemma tr_and_correct : forall M ta tb, bv256 ta -> bv256 tb ->
  bv_eval M (t_and ta tb) = evm_and (bv_eval M ta) (bv_eval M tb).
Proof.
  intros M ta tb Ha Hb. pose proof (bv256_word M ta Ha). pose proof (bv256_word M tb Hb).
  ev. reflexivity.
Qed.

Lemma tr_or_correct : forall M ta tb, bv256 ta -> bv256 tb ->
  bv_eval M (t_or ta tb) = evm_or (bv_eval M ta) (bv_eval M tb).
Proof.
  intros M ta tb Ha Hb. pose proof (bv256_word M ta Ha). pose proof (bv256_word M tb Hb).
  ev. reflexivity.
Qed.

Lemma tr_xor_correct : forall M ta tb, bv256 ta -> bv256 tb ->
  bv_eval M (t_xor ta tb) = evm_xor (bv_eval M ta) (bv_eval M tb).
Proof.
  intros M ta tb Ha Hb. pose proof (bv256_word M ta Ha). pose proof (bv256_word M tb Hb).
  ev. reflexivity.
Qed.

Lemma tr_not_correct : forall M ta, bv256 ta ->
  bv_eval M (t_not ta) = evm_not (bv_eval M ta).
Proof.
  intros M ta Ha. pose proof (bv256_word M ta Ha).
  ev. reflexivity.
Qed.

(* first child = index, second child = value *)
Lemma tr_byte_correct : forall M ta tb, bv256 ta -> bv256 tb ->
  bv_eval M (t_byte ta tb) = evm_byte (bv_eval M ta) (bv_eval M tb).
Proof.
  intros M ta tb Ha Hb. pose proof (bv256_word M ta Ha). pose proof (bv256_word M tb Hb).
  ev. change (32 mod 2 ^ 256) with 32. change (248 mod 2 ^ 256) with 248.
  change (8 mod 2 ^ 256) with 8. change (255 mod 2 ^ 256) with 255.
  apply byte_ok; assumption.
Qed.

(* first child = shift amount, second child = value *)
Lemma tr_shl_correct : forall M ta tb, bv256 ta -> bv256 tb ->
  bv_eval M (t_shl ta tb) = evm_shl (bv_eval M ta) (bv_eval M tb).
Proof.
  intros M ta tb Ha Hb. pose proof (bv256_word M ta Ha). pose proof (bv256_word M tb Hb).
  ev. reflexivity.
Qed.

Lemma tr_shr_correct : forall M ta tb, bv256 ta -> bv256 tb ->
  bv_eval M (t_shr ta tb) = evm_shr (bv_eval M ta) (bv_eval M tb).
Proof.
  intros M ta tb Ha Hb. pose proof (bv256_word M ta Ha). pose proof (bv256_word M tb Hb).
  ev. reflexivity.
Qed.

Lemma tr_sar_correct : forall M ta tb, bv256 ta -> bv256 tb ->
  bv_eval M (t_sar ta tb) = evm_sar (bv_eval M ta) (bv_eval M tb).
Proof.
  intros M ta tb Ha Hb. pose proof (bv256_word M ta Ha). pose proof (bv256_word M tb Hb).
  ev. apply sar_ok; assumption.
Qed.

(* first child = size, second child = value *)
Lemma tr_signextend_correct : forall M ta tb, bv256 ta -> bv256 tb ->
  bv_eval M (t_signextend ta tb) = evm_signextend (bv_eval M ta) (bv_eval M tb).
Proof.
  intros M ta tb Ha Hb. pose proof (bv256_word M ta Ha). pose proof (bv256_word M tb Hb).
  ev. change (31 mod 2 ^ 256) with 31. change (8 mod 2 ^ 256) with 8.
  apply (signextend_ok (bv_eval M ta) (bv_eval M tb)); assumption.
Qed.

(* --- constants --- *)
Lemma const_chunks_value : forall v, 0 <= v < 2 ^ 256 ->
  ((const_chunk v 3 * 2 ^ 64 + const_chunk v 2) * 2 ^ 64 + const_chunk v 1) * 2 ^ 64 + const_chunk v 0 = v.
Proof.
  intros v Hv. unfold const_chunk.
  change (64 * 3) with 192. change (64 * 2) with 128. change (64 * 1) with 64. change (64 * 0) with 0.
  change (2 ^ 0) with 1. rewrite Z.div_1_r.
  assert (P : 0 < 2 ^ 64) by reflexivity.
  assert (NZ : 2 ^ 64 <> 0) by (clear; lia).
  change (2 ^ 192) with (2 ^ 64 * 2 ^ 64 * 2 ^ 64) in *. change (2 ^ 128) with (2 ^ 64 * 2 ^ 64) in *.
  rewrite <- !Z.div_div by (clear; lia).
  assert (Hs : 0 <= v / 2 ^ 64 / 2 ^ 64 / 2 ^ 64 < 2 ^ 64).
  { split; [repeat apply Z.div_pos; solve [exact P | exact (proj1 Hv)]|].
    repeat (apply Z.div_lt_upper_bound; [exact P|]). exact (proj2 Hv). }
  rewrite (Z.mod_small (v / 2 ^ 64 / 2 ^ 64 / 2 ^ 64)) by exact Hs.
  pose proof (Z.div_mod v (2 ^ 64) NZ) as E0.
  pose proof (Z.div_mod (v / 2 ^ 64) (2 ^ 64) NZ) as E1.
  pose proof (Z.div_mod (v / 2 ^ 64 / 2 ^ 64) (2 ^ 64) NZ) as E2.
  clear - E0 E1 E2.
  set (d1 := v / 2 ^ 64) in *. set (d2 := d1 / 2 ^ 64) in *. set (d3 := d2 / 2 ^ 64) in *.
  set (r0 := v mod 2 ^ 64) in *. set (r1 := d1 mod 2 ^ 64) in *. set (r2 := d2 mod 2 ^ 64) in *.
  clearbody d1 d2 d3 r0 r1 r2. lia.
Qed.

(* the literal that make_const builds is the constant itself *)
Lemma make_const_val : forall v, 0 <= v < 2 ^ 256 -> make_const v = BVal v 256.
Proof. intros v Hv. unfold make_const. rewrite (const_chunks_value v Hv). reflexivity. Qed.

Lemma make_const_correct : forall M v, 0 <= v < 2 ^ 256 ->
  bv256 (make_const v) /\ bv_eval M (make_const v) = v.
Proof.
  intros M v Hv. rewrite (make_const_val v Hv). unfold bv256. cbn [wf_term width bv_eval].
  split; [split; [|reflexivity]|apply Z.mod_small; exact Hv].
  repeat (apply andb_true_intro; split); first [reflexivity | apply Z.leb_le; lia | apply Z.ltb_lt; lia].
Qed.

(* --- exp with a literal exponent: square-and-multiply is exact --- *)
Lemma as_u64_spec : forall M t e, bv256 t -> as_u64 t = Some e ->
  0 <= e < 2 ^ 64 /\ bv_eval M t = e.
Proof.
  intros M t e [Hwf Hw] H. destruct t; try discriminate H.
  cbn [as_u64 width bv_eval] in *. subst w. cbv zeta in H.
  destruct (Z.ltb_spec (v mod 2 ^ 256) (2 ^ 64)) as [L|L]; [|discriminate H].
  injection H as <-. split; [|reflexivity].
  pose proof (Z.mod_pos_bound v (2 ^ 256) W_pos). lia.
Qed.

Lemma bv256_mul : forall r b, bv256 r -> bv256 b -> bv256 (BBin Bmul r b).
Proof.
  intros r b [Wr Er] [Wb Eb]. unfold bv256. cbn [wf_term width]. rewrite Wr, Wb, Er, Eb. split; reflexivity.
Qed.

Lemma exp_loop_bv256 : forall fuel e r b, bv256 r -> bv256 b -> bv256 (exp_loop fuel e r b).
Proof.
  induction fuel as [|f IH]; intros e r b Hr Hb; cbn [exp_loop]; [exact Hr|].
  destruct (0 <? e); [|exact Hr].
  apply IH; [destruct (Z.odd e); [apply bv256_mul|]; assumption|apply bv256_mul; assumption].
Qed.

Lemma pow_mod_l : forall x k n, 0 < n -> ((x mod n) ^ k) mod n = (x ^ k) mod n.
Proof. intros x k n Hn. symmetry. apply Zpower_mod. exact Hn. Qed.

Lemma exp_loop_correct : forall M fuel e r b,
  0 <= e < 2 ^ Z.of_nat fuel -> bv256 r -> bv256 b ->
  bv_eval M (exp_loop fuel e r b) = (bv_eval M r * bv_eval M b ^ e) mod 2 ^ 256.
Proof.
  intros M. induction fuel as [|f IH]; intros e r b He Hr Hb.
  - change (2 ^ Z.of_nat 0) with 1 in He. assert (e = 0) by lia. subst e.
    cbn [exp_loop]. rewrite Z.pow_0_r, Z.mul_1_r. symmetry. apply Z.mod_small. apply (bv256_word M r Hr).
  - cbn [exp_loop]. destruct (Z.ltb_spec 0 e) as [Pos|NPos].
    + rewrite Nat2Z.inj_succ, Z.pow_succ_r in He by lia.
      pose proof (Z.div2_odd e) as Ho. rewrite Z.div2_div in Ho.
      assert (Hh : 0 <= e / 2 < 2 ^ Z.of_nat f) by (clear Ho; lia).
      rewrite IH; [|exact Hh|destruct (Z.odd e); [apply bv256_mul|]; assumption|apply bv256_mul; assumption].
      destruct Hb as [Wb Eb]. cbn [bv_eval bin_sem]. rewrite Eb.
      set (vb := bv_eval M b). set (h := e / 2) in *.
      rewrite <- Z.mul_mod_idemp_r by lia. rewrite pow_mod_l by exact W_pos.
      rewrite Z.mul_mod_idemp_r by lia.
      assert (Hsq : (vb * vb) ^ h = vb ^ (2 * h)).
      { rewrite Z.pow_mul_r by lia. rewrite Z.pow_2_r. reflexivity. }
      rewrite Hsq.
      destruct (Z.odd e); cbn [Z.b2z] in Ho.
      * destruct Hr as [Wr Er]. cbn [bv_eval bin_sem]. rewrite Er.
        rewrite Z.mul_mod_idemp_l by lia.
        rewrite Ho. rewrite Z.pow_add_r by lia. rewrite Z.pow_1_r.
        f_equal. unfold vb. ring.
      * rewrite Ho. rewrite Z.add_0_r. reflexivity.
    + assert (e = 0) by lia. subst e.
      rewrite Z.pow_0_r, Z.mul_1_r. symmetry. apply Z.mod_small. apply (bv256_word M r Hr).
Qed.

(* for EVERY base and EVERY literal exponent below 2^64 (0^0 = 1 included) *)
Lemma tr_exp_lit_correct : forall M ta e, bv256 ta -> 0 <= e < 2 ^ 64 ->
  bv256 (t_exp_lit ta e) /\ bv_eval M (t_exp_lit ta e) = evm_exp (bv_eval M ta) e.
Proof.
  intros M ta e Ha He. assert (H1 : bv256 (c256 1)) by (split; reflexivity). unfold t_exp_lit. split.
  - apply exp_loop_bv256; assumption.
  - rewrite exp_loop_correct; [|exact He|exact H1|exact Ha].
    change (bv_eval M (c256 1)) with 1. rewrite Z.mul_1_l. reflexivity.
Qed.

(* when is the translation of an Exp a literal again: only for the exponent 0 *)
Lemma exp_loop_zero : forall fuel r b, exp_loop fuel 0 r b = r.
Proof. intros [|f] r b; reflexivity. Qed.
Lemma exp_loop_not_lit_r : forall fuel e r b, as_u64 r = None -> as_u64 (exp_loop fuel e r b) = None.
Proof.
  induction fuel as [|f IH]; intros e r b Hr; cbn [exp_loop]; [exact Hr|].
  destruct (0 <? e); [|exact Hr]. apply IH. destruct (Z.odd e); [reflexivity|exact Hr].
Qed.
Lemma exp_loop_not_lit : forall fuel e r b, 0 < e < 2 ^ Z.of_nat fuel ->
  as_u64 (exp_loop fuel e r b) = None.
Proof.
  induction fuel as [|f IH]; intros e r b He.
  - change (2 ^ Z.of_nat 0) with 1 in He. lia.
  - cbn [exp_loop]. destruct (Z.ltb_spec 0 e) as [_|N]; [|lia].
    rewrite Nat2Z.inj_succ, Z.pow_succ_r in He by lia.
    pose proof (Z.div2_odd e) as Ho. rewrite Z.div2_div in Ho.
    destruct (Z.odd e); cbn [Z.b2z] in Ho.
    + apply exp_loop_not_lit_r. reflexivity.
    + apply IH. clear IH. lia.
Qed.

(* --- every node built by Z3Visit::exit is a well-sorted 256-bit term --- *)
Ltac inv_forall :=
  repeat match goal with
         | H : Forall _ (_ :: _) |- _ => inversion H; subst; clear H
         end.
Ltac explode_args args Hlen :=
  cbn [children] in Hlen;
  destruct args as [|?x [|?y [|?z [|?u args]]]]; cbn [length] in Hlen; try discriminate Hlen.
Ltac bv256_node :=
  unfold t_add, t_sub, t_mul, t_div, t_sdiv, t_mod, t_smod, t_lt, t_gt, t_slt, t_sgt, t_eq,
    t_and, t_or, t_xor, t_shl, t_shr, t_sar, t_not, t_iszero, t_signextend, t_byte, t_addmod,
    t_mulmod, t_calldataload, t_blockhash, guard0, ite01, c256;
  repeat match goal with H : bv256 _ |- _ => destruct H as [? ?] end;
  split; cbn [wf_term wf_form width];
  repeat match goal with
         | H : wf_term _ = true |- _ => rewrite ?H; clear H
         | H : width _ = 256 |- _ => rewrite ?H; clear H
         end; reflexivity.

Definition dummy_interp : interp := mkInterp (fun _ => 0) (fun _ => 0) (fun _ _ => 0).

Lemma tr_node_bv256 : forall s args n,
  wf_sym s = true -> length args = children s -> Forall bv256 args ->
  bv256 (fst (tr_node s args n)).
Proof.
  intros s args n Hs Hlen Hargs.
  destruct s; cbn [tr_node fst]; try solve [split; reflexivity];
    try solve [explode_args args Hlen; inv_forall; cbn [nth]; bv256_node].
  - (* SConst *) cbn [wf_sym] in Hs. apply (make_const_correct dummy_interp). lia.
  - (* SExp *) explode_args args Hlen; inv_forall; cbn [nth].
    destruct (as_u64 y); cbn [fst]; [|split; reflexivity].
    apply exp_loop_bv256; [split; reflexivity|assumption].
  - (* SGetPc *) cbn [wf_sym] in Hs. unfold c256, bv256. cbn [wf_term width].
    split; [|reflexivity]. assert (65535 < 2 ^ 256) by reflexivity. lia.
Qed.

(* --- (a) bundled: for every pure symbol the node denotes the EVM's result --- *)
Theorem tr_op_correct : forall M s args n,
  pure_sym s = true -> length args = children s -> Forall bv256 args ->
  snd (tr_node s args n) = n /\
  bv_eval M (fst (tr_node s args n)) = evm_pure s (map (bv_eval M) args).
Proof.
  intros M s args n Hp Hlen Hargs.
  destruct s; try discriminate Hp; explode_args args Hlen; inv_forall;
    cbn [tr_node fst snd nth map evm_pure]; (split; [reflexivity|]).
  - apply tr_add_correct; assumption.
  - apply tr_mul_correct; assumption.
  - apply tr_sub_correct; assumption.
  - apply tr_div_correct; assumption.
  - apply tr_sdiv_correct; assumption.
  - apply tr_mod_correct; assumption.
  - apply tr_smod_correct; assumption.
  - apply tr_addmod_correct; assumption.
  - apply tr_mulmod_correct; assumption.
  - apply tr_lt_correct; assumption.
  - apply tr_gt_correct; assumption.
  - apply tr_slt_correct; assumption.
  - apply tr_sgt_correct; assumption.
  - apply tr_eq_correct; assumption.
  - apply tr_and_correct; assumption.
  - apply tr_or_correct; assumption.
  - apply tr_xor_correct; assumption.
  - apply tr_byte_correct; assumption.
  - apply tr_shl_correct; assumption.
  - apply tr_shr_correct; assumption.
  - apply tr_sar_correct; assumption.
  - apply tr_signextend_correct; assumption.
  - apply tr_iszero_correct; assumption.
  - apply tr_not_correct; assumption.
Qed.

(* --- Exp: exact for a literal exponent below 2^64, otherwise a fresh constant --- *)
Theorem tr_exp_node : forall M ta tb n, bv256 ta -> bv256 tb ->
  (forall e, as_u64 tb = Some e ->
     0 <= e < 2 ^ 64 /\ bv_eval M tb = e /\
     snd (tr_node SExp [ta; tb] n) = n /\
     bv_eval M (fst (tr_node SExp [ta; tb] n)) = evm_exp (bv_eval M ta) (bv_eval M tb)) /\
  (as_u64 tb = None -> tr_node SExp [ta; tb] n = (BFresh "exp" n, S n)).
Proof.
  intros M ta tb n Ha Hb. cbn [tr_node nth]. split.
  - intros e He. rewrite He. cbn [fst snd].
    destruct (as_u64_spec M tb e Hb He) as [R V]. rewrite V.
    split; [exact R|]. split; [reflexivity|]. split; [reflexivity|].
    apply tr_exp_lit_correct; assumption.
  - intros He. rewrite He. reflexivity.
Qed.

(* ====================================================================================== *)
(* 4. (b) the stack-based traversal of the prefix encoding = structural recursion           *)
(* ====================================================================================== *)
Definition walk_kids (f : nat) : nat -> sexpr -> vstate -> res (sexpr * vstate) :=
  fix kids (k : nat) (r : sexpr) (st : vstate) : res (sexpr * vstate) :=
    match k with
    | O => Ok (r, st)
    | S k' => do (r', st') <- walk f r st; kids k' r' st'
    end.

Lemma walk_S : forall f s rest st,
  walk (S f) (s :: rest) st =
  (do (r, st1) <- walk_kids f (children s) rest st;
   do st2 <- tr_exit s st1; Ok (r, st2)).
Proof. reflexivity. Qed.

Lemma tr_tree_node : forall s args n,
  tr_tree (SNode s args) n = let '(targs, n') := tr_trees args n in tr_node s targs n'.
Proof. reflexivity. Qed.

Lemma tr_trees_cons : forall x xs n,
  tr_trees (x :: xs) n =
  let '(tx, n1) := tr_tree x n in let '(tr, n2) := tr_trees xs n1 in (tx :: tr, n2).
Proof. reflexivity. Qed.

Lemma tr_trees_length : forall args n, length (fst (tr_trees args n)) = length args.
Proof.
  induction args as [|x xs IH]; intros n; [reflexivity|].
  rewrite tr_trees_cons. destruct (tr_tree x n) as [tx n1].
  specialize (IH n1). destruct (tr_trees xs n1) as [tr n2]. cbn [fst length] in *. lia.
Qed.

Ltac explode_all args Hlen :=
  cbn [children] in Hlen;
  repeat (destruct args as [|? args]; cbn [length] in Hlen; try discriminate Hlen).

(* popping the children's terms from the stack as the Rust does = taking them in child order *)
Lemma tr_exit_node : forall s targs a n, length targs = children s ->
  tr_exit s (rev targs ++ a, n) = Ok (fst (tr_node s targs n) :: a, snd (tr_node s targs n)).
Proof.
  intros s targs a n Hlen.
  destruct s; explode_all targs Hlen;
    try (match goal with
         | |- tr_exit SExp _ = _ =>
             cbn [rev app tr_exit pop bind tr_node nth]; destruct (as_u64 _); cbn [fst snd]; reflexivity
         end);
    reflexivity.
Qed.

Theorem tr_walk_gen : forall t, arity_tree t = true ->
  forall fuel r a n, (tree_depth t <= fuel)%nat ->
  walk fuel (encode_tree t ++ r) (a, n) = Ok (r, (fst (tr_tree t n) :: a, snd (tr_tree t n))).
Proof.
  induction t as [s args IH] using stree_ind'.
  intros Ha fuel r a n Hf. rewrite arity_tree_node in Ha. apply andb_prop in Ha. destruct Ha as [Hn Hall].
  apply Nat.eqb_eq in Hn. rewrite tree_depth_node in Hf.
  destruct fuel as [|f]; [lia|].
  rewrite encode_tree_node. cbn [app]. rewrite walk_S. rewrite <- Hn.
  assert (Hd : (max_depth args <= f)%nat) by lia. clear Hf.
  assert (E : forall a n, walk_kids f (length args) (concat (map encode_tree args) ++ r) (a, n)
              = Ok (r, (rev (fst (tr_trees args n)) ++ a, snd (tr_trees args n)))).
  { clear Hn. induction args as [|x xs IHxs]; intros a0 n0; [reflexivity|].
    inversion IH as [|? ? Hx Hxs]; subst.
    cbn [forallb] in Hall. apply andb_prop in Hall. destruct Hall as [Ax Axs].
    cbn [max_depth fold_right] in Hd. fold (max_depth xs) in Hd.
    cbn [length map concat]. rewrite <- app_assoc.
    cbn [walk_kids]. rewrite (Hx Ax f _ a0 n0 ltac:(lia)). cbn [bind].
    fold (walk_kids f). rewrite (IHxs Hxs Axs ltac:(lia)).
    rewrite tr_trees_cons. destruct (tr_tree x n0) as [tx n1]. cbn [fst snd].
    destruct (tr_trees xs n1) as [tr n2]. cbn [fst snd rev]. rewrite <- app_assoc. reflexivity. }
  rewrite E. cbn [bind].
  rewrite tr_exit_node by (rewrite tr_trees_length; exact Hn).
  cbn [bind]. rewrite tr_tree_node.
  destruct (tr_trees args n) as [targs n']. reflexivity.
Qed.

(* ExprExt::to_z3 on the encoding of a tree: no panic, and the term of the structural translation *)
Theorem tr_walk : forall t n, arity_tree t = true ->
  tr_sexpr_from n (encode_tree t) = Ok (tr_tree t n).
Proof.
  intros t n Ha. unfold tr_sexpr_from.
  pose proof (tr_walk_gen t Ha (S (length (encode_tree t))) [] [] n) as H.
  rewrite app_nil_r in H.
  destruct (encode_tree t) as [|s e] eqn:E; [destruct t; discriminate E|].
  rewrite H by (pose proof (tree_depth_le_length t); rewrite E in *; lia).
  cbn [bind]. destruct (tr_tree t n); reflexivity.
Qed.

Corollary tr_walk0 : forall t, arity_tree t = true ->
  tr_sexpr (encode_tree t) = Ok (fst (tr_tree t 0)).
Proof.
  intros t Ha. unfold tr_sexpr. rewrite (tr_walk t 0 Ha). cbn [bind].
  destruct (tr_tree t 0); reflexivity.
Qed.

(* ====================================================================================== *)
(* 5. (c) soundness: under an interpretation that agrees with a concrete execution, the     *)
(*    term denotes the value of the expression in that execution                            *)
(* ====================================================================================== *)
Lemma eval_tree_node : forall E s args n,
  eval_tree E (SNode s args) n =
  let '(vs, n') := eval_trees E args n in eval_node E s (exp_is_literal args) vs n'.
Proof. reflexivity. Qed.
Lemma eval_trees_cons : forall E x xs n,
  eval_trees E (x :: xs) n =
  let '(vx, n1) := eval_tree E x n in let '(vr, n2) := eval_trees E xs n1 in (vx :: vr, n2).
Proof. reflexivity. Qed.

Lemma wrap_word : forall v, 0 <= v < 2 ^ 256 -> wrap v = v.
Proof. intros v Hv. unfold wrap, W. apply Z.mod_small. exact Hv. Qed.

(* every translated tree is a well-sorted 256-bit term *)
Lemma tr_trees_bv256 : forall args,
  Forall (fun t => wf_tree t = true -> forall n, bv256 (fst (tr_tree t n))) args ->
  forallb wf_tree args = true -> forall n, Forall bv256 (fst (tr_trees args n)).
Proof.
  induction args as [|x xs IHxs]; intros IH Hall n; [constructor|].
  inversion IH as [|? ? Hx Hxs]; subst.
  cbn [forallb] in Hall. apply andb_prop in Hall. destruct Hall as [Wx Wxs].
  rewrite tr_trees_cons. pose proof (Hx Wx n) as B1.
  destruct (tr_tree x n) as [tx n1]. pose proof (IHxs Hxs Wxs n1) as B2.
  destruct (tr_trees xs n1) as [tr n2]. cbn [fst] in *. constructor; assumption.
Qed.

Theorem tr_tree_bv256 : forall t, wf_tree t = true -> forall n, bv256 (fst (tr_tree t n)).
Proof.
  induction t as [s args IH] using stree_ind'.
  intros Hwf n. cbn [wf_tree] in Hwf. apply andb_prop in Hwf. destruct Hwf as [Hwf Hall].
  apply andb_prop in Hwf. destruct Hwf as [Hs Hn]. apply Nat.eqb_eq in Hn.
  rewrite tr_tree_node. pose proof (tr_trees_bv256 args IH Hall n) as B.
  pose proof (tr_trees_length args n) as Hl.
  destruct (tr_trees args n) as [targs n']. cbn [fst] in *.
  apply tr_node_bv256; [assumption|lia|assumption].
Qed.

(* the numerals among the translated trees are those that Spec/SymEval.v calls literals *)
Theorem tr_tree_lit64 : forall t, wf_tree t = true -> forall n,
  as_u64 (fst (tr_tree t n)) = lit64 t.
Proof.
  induction t as [s args IH] using stree_ind'.
  intros Hwf n. pose proof Hwf as Hwf0.
  cbn [wf_tree] in Hwf. apply andb_prop in Hwf. destruct Hwf as [Hwf Hall].
  apply andb_prop in Hwf. destruct Hwf as [Hs Hn]. apply Nat.eqb_eq in Hn.
  destruct s; try (rewrite tr_tree_node; destruct (tr_trees args n) as [targs n']; reflexivity).
  - (* SConst *) cbn [wf_sym] in Hs. assert (Hv : 0 <= v < 2 ^ 256) by lia.
    rewrite tr_tree_node. destruct (tr_trees args n) as [targs n']. cbn [tr_node fst].
    rewrite (make_const_val v Hv). cbn [as_u64 lit64]. cbv zeta. rewrite (Z.mod_small v) by exact Hv.
    reflexivity.
  - (* SExp *) cbn [children] in Hn.
    destruct args as [|x [|e [|? ?]]]; cbn [length] in Hn; try discriminate Hn.
    inversion IH as [|? ? _ IH2]; subst. inversion IH2 as [|? ? He _]; subst.
    cbn [forallb] in Hall. apply andb_prop in Hall. destruct Hall as [Wx Wes].
    apply andb_prop in Wes. destruct Wes as [We _].
    rewrite tr_tree_node, tr_trees_cons.
    destruct (tr_tree x n) as [tx n1]. rewrite tr_trees_cons.
    pose proof (He We n1) as Le. pose proof (tr_tree_bv256 e We n1) as Be.
    destruct (tr_tree e n1) as [te n2]. cbn [tr_trees fst] in *.
    cbn [tr_node nth lit64]. rewrite <- Le.
    destruct (as_u64 te) as [k|] eqn:Ek; [|reflexivity].
    destruct (as_u64_spec dummy_interp te k Be Ek) as [Rk _].
    destruct (Z.eq_dec k 0) as [->|Nz].
    + cbn [fst]. unfold t_exp_lit. rewrite exp_loop_zero. reflexivity.
    + cbn [fst]. unfold t_exp_lit. rewrite exp_loop_not_lit by (change (Z.of_nat 64) with 64; lia).
      destruct k; [contradiction Nz; reflexivity|reflexivity|reflexivity].
  - (* SGetPc *) cbn [wf_sym] in Hs.
    rewrite tr_tree_node. destruct (tr_trees args n) as [targs n']. cbn [tr_node fst c256 as_u64 lit64].
    cbv zeta. assert (65535 < 2 ^ 64) by reflexivity. assert (2 ^ 64 < 2 ^ 256) by reflexivity.
    rewrite (Z.mod_small pc) by lia. reflexivity.
Qed.

Lemma exp_lit_flag : forall args n, forallb wf_tree args = true -> length args = 2%nat ->
  exp_is_literal args =
  match as_u64 (nth 1 (fst (tr_trees args n)) (c256 0)) with Some _ => true | None => false end.
Proof.
  intros args n Hall Hn.
  destruct args as [|x [|e [|? ?]]]; cbn [length] in Hn; try discriminate Hn.
  cbn [forallb] in Hall. apply andb_prop in Hall. destruct Hall as [_ Wes].
  apply andb_prop in Wes. destruct Wes as [We _].
  rewrite tr_trees_cons. destruct (tr_tree x n) as [tx n1]. rewrite tr_trees_cons.
  pose proof (tr_tree_lit64 e We n1) as Le. destruct (tr_tree e n1) as [te n2].
  cbn [tr_trees fst nth exp_is_literal] in *. rewrite Le. reflexivity.
Qed.

Lemma node_sound : forall M E s targs n lit,
  agrees M E -> wf_sym s = true -> length targs = children s -> Forall bv256 targs ->
  (s = SExp -> lit = match as_u64 (nth 1 targs (c256 0)) with Some _ => true | None => false end) ->
  bv_eval M (fst (tr_node s targs n)) = fst (eval_node E s lit (map (bv_eval M) targs) n) /\
  snd (tr_node s targs n) = snd (eval_node E s lit (map (bv_eval M) targs) n).
Proof.
  intros M E s targs n lit (Av & Ae & Af & Ac & Ab) Hs Hlen Hargs Hlit.
  destruct (pure_sym s) eqn:Hp.
  - destruct (tr_op_correct M s targs n Hp Hlen Hargs) as [Hn Hv].
    rewrite Hn, Hv. destruct s; try discriminate Hp; split; reflexivity.
  - destruct s; try discriminate Hp; cbn [tr_node eval_node fst snd read_sym env_sym];
      try (split; [|reflexivity]);
      try solve [cbn [bv_eval]; apply Af];
      try solve [cbn [bv_eval]; apply Ae; reflexivity].
    + (* SConst *) cbn [wf_sym] in Hs.
      assert (Hv : 0 <= v < 2 ^ 256) by lia.
      rewrite (proj2 (make_const_correct M v Hv)). symmetry. apply wrap_word. exact Hv.
    + (* SVar *) cbn [wf_sym] in Hs. cbn [bv_eval]. apply Av. lia.
    + (* SExp *) rewrite (Hlit eq_refl). explode_args targs Hlen. inv_forall. cbn [nth map].
      destruct (as_u64 y) as [e|] eqn:Ey; cbn [fst snd].
      * destruct (as_u64_spec M y e ltac:(assumption) Ey) as [Re Ve]. rewrite Ve.
        split; [|reflexivity]. apply tr_exp_lit_correct; assumption.
      * split; [|reflexivity]. cbn [bv_eval]. apply Af.
    + (* SCallDataLoad *) explode_args targs Hlen. cbn [nth map]. unfold t_calldataload. cbn [bv_eval]. apply Ac.
    + (* SBlockHash *) explode_args targs Hlen. cbn [nth map]. unfold t_blockhash. cbn [bv_eval]. apply Ab.
    + (* SGetPc *) reflexivity.
Qed.

Theorem tr_sound_gen : forall M E, agrees M E -> forall t, wf_tree t = true -> forall n,
  bv256 (fst (tr_tree t n)) /\
  bv_eval M (fst (tr_tree t n)) = fst (eval_tree E t n) /\
  snd (tr_tree t n) = snd (eval_tree E t n).
Proof.
  intros M E HA. induction t as [s args IH] using stree_ind'.
  intros Hwf n. pose proof (tr_tree_bv256 _ Hwf n) as Bt. split; [exact Bt|]. clear Bt.
  cbn [wf_tree] in Hwf. apply andb_prop in Hwf. destruct Hwf as [Hwf Hall].
  apply andb_prop in Hwf. destruct Hwf as [Hs Hn]. apply Nat.eqb_eq in Hn.
  assert (L : forall n,
            Forall bv256 (fst (tr_trees args n)) /\
            map (bv_eval M) (fst (tr_trees args n)) = fst (eval_trees E args n) /\
            snd (tr_trees args n) = snd (eval_trees E args n)).
  { clear Hn. induction args as [|x xs IHxs]; intros n0.
    - cbn. auto.
    - inversion IH as [|? ? Hx Hxs]; subst.
      cbn [forallb] in Hall. apply andb_prop in Hall. destruct Hall as [Wx Wxs].
      rewrite tr_trees_cons, eval_trees_cons.
      destruct (Hx Wx n0) as (B1 & V1 & N1).
      destruct (tr_tree x n0) as [tx n1]. destruct (eval_tree E x n0) as [vx m1].
      cbn [fst snd] in *. subst m1.
      destruct (IHxs Hxs Wxs n1) as (B2 & V2 & N2).
      destruct (tr_trees xs n1) as [tr n2]. destruct (eval_trees E xs n1) as [vr m2].
      cbn [fst snd map] in *. subst. auto. }
  rewrite tr_tree_node, eval_tree_node.
  assert (Hflag : s = SExp -> exp_is_literal args =
            match as_u64 (nth 1 (fst (tr_trees args n)) (c256 0)) with Some _ => true | None => false end).
  { intros ->. apply exp_lit_flag; [exact Hall|exact Hn]. }
  destruct (L n) as (B & V & N). pose proof (tr_trees_length args n) as Hl.
  destruct (tr_trees args n) as [targs n']. destruct (eval_trees E args n) as [vs m'].
  cbn [fst snd] in *. subst vs m'.
  assert (Hlen : length targs = children s) by lia.
  apply node_sound; assumption.
Qed.

(* --- the interpretation induced by a concrete execution agrees with it --- *)
Definition var_names_ok (n : Z) : bool :=
  match parse_var (var_name n) with Some m => m =? n | None => false end.

Fixpoint forall_from (f : Z -> bool) (start : Z) (count : nat) : bool :=
  match count with
  | O => true
  | S c => f start && forall_from f (start + 1) c
  end.
Lemma forall_from_spec : forall f count start, forall_from f start count = true ->
  forall n, start <= n < start + Z.of_nat count -> f n = true.
Proof.
  intros f count. induction count as [|c IH]; intros start H n Hn; [lia|].
  cbn [forall_from] in H. apply andb_prop in H. destruct H as [H0 H1].
  destruct (Z.eq_dec n start) as [->|Hne]; [exact H0|].
  apply (IH (start + 1) H1). lia.
Qed.

(* all 65535 variable names (Var is a NonZeroU16) are parsed back: a finite check *)
Lemma var_names_checked : forall_from var_names_ok 1 (Z.to_nat 65535) = true.
Proof. vm_compute. reflexivity. Qed.

Lemma parse_var_name : forall n, 1 <= n <= 65535 -> parse_var (var_name n) = Some n.
Proof.
  intros n Hn.
  pose proof (forall_from_spec _ _ _ var_names_checked n ltac:(lia)) as H.
  unfold var_names_ok in H.
  destruct (parse_var (var_name n)) as [m|]; [|discriminate H].
  f_equal. apply Z.eqb_eq. exact H.
Qed.

Lemma concrete_agrees : forall E, agrees (concrete_interp E) E.
Proof.
  intros E. unfold agrees. repeat split.
  - intros n Hn. cbn [concrete_interp i_named]. rewrite (parse_var_name n Hn). reflexivity.
  - intros s name Hs. destruct s; try discriminate Hs; injection Hs as <-; reflexivity.
Qed.

Theorem tr_sound : forall E t n, wf_tree t = true ->
  bv_eval (concrete_interp E) (fst (tr_tree t n)) = fst (eval_tree E t n) /\
  snd (tr_tree t n) = snd (eval_tree E t n).
Proof.
  intros E t n Hwf.
  destruct (tr_sound_gen (concrete_interp E) E (concrete_agrees E) t Hwf n) as (_ & H1 & H2).
  auto.
Qed.
