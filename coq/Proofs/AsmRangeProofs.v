(* Proofs/AsmRangeProofs.v -- operands are range checked under the final labels (C09),
   auto-sized pushes hold their value (C07), and big-endian byte facts. *)
From Coq Require Import Lia ZifyBool ZifyNat ZifyN.
From Verif Require Import Model.Base Model.Ops Model.Expr Model.Asm Proofs.AsmLayoutProofs.
Open Scope Z_scope.
Ltac Zify.zify_post_hook ::= Z.div_mod_to_equations.

(* ---------- be_bytes: the minimal big-endian representation ---------- *)
Lemma be_bytes_fuel_mono : forall f n acc, (length acc <= length (be_bytes_fuel f n acc))%nat.
Proof.
  induction f as [|f IH]; intros n acc; cbn [be_bytes_fuel]; [lia|].
  destruct (n =? 0)%N; [lia|]. specialize (IH (n / 256)%N ((n mod 256)%N :: acc)). cbn [length] in IH. lia.
Qed.

Lemma be_bytes_fuel_len : forall f n acc k, (n < 256 ^ N.of_nat f)%N ->
  ((length (be_bytes_fuel f n acc) <= k + length acc)%nat <-> (n < 256 ^ N.of_nat k)%N).
Proof.
  induction f as [|f IH]; intros n acc k Hn.
  - cbn [be_bytes_fuel]. change (256 ^ N.of_nat 0)%N with 1%N in Hn.
    assert (n = 0%N) by lia. subst. split; [intros _|lia].
    assert (256 ^ N.of_nat k <> 0)%N by (apply N.pow_nonzero; lia). lia.
  - cbn [be_bytes_fuel]. destruct (N.eqb_spec n 0) as [->|Hnz].
    + split; [intros _|lia]. assert (256 ^ N.of_nat k <> 0)%N by (apply N.pow_nonzero; lia). lia.
    + assert (Hd : (n / 256 < 256 ^ N.of_nat f)%N).
      { apply N.div_lt_upper_bound; [lia|]. rewrite Nnat.Nat2N.inj_succ, N.pow_succ_r' in Hn. lia. }
      destruct k as [|k'].
      * split.
        -- intros Hl. pose proof (be_bytes_fuel_mono f (n / 256)%N ((n mod 256)%N :: acc)) as Hm.
           cbn [length] in Hm. lia.
        -- change (256 ^ N.of_nat 0)%N with 1%N. lia.
      * pose proof (IH (n / 256)%N ((n mod 256)%N :: acc) k' Hd) as IH'. cbn [length] in IH'.
        rewrite Nnat.Nat2N.inj_succ, N.pow_succ_r'.
        split.
        -- intros H. assert (n / 256 < 256 ^ N.of_nat k')%N by (apply IH'; lia). lia.
        -- intros H. assert (n / 256 < 256 ^ N.of_nat k')%N by (apply N.div_lt_upper_bound; lia).
           apply IH' in H0. lia.
Qed.

(* bytes needed <= k  <->  n < 256^k *)
Lemma be_bytes_length_le : forall n k,
  (length (be_bytes n) <= k)%nat <-> (n < 256 ^ N.of_nat k)%N.
Proof.
  intros n k. unfold be_bytes.
  rewrite <- (be_bytes_fuel_len (S (N.to_nat (N.size n))) n [] k).
  - cbn [length]. lia.
  - apply N.lt_le_trans with (2 ^ N.size n)%N; [apply N.size_gt|].
    rewrite Nnat.Nat2N.inj_succ, Nnat.N2Nat.id.
    apply N.le_trans with (256 ^ N.size n)%N.
    + apply N.pow_le_mono_l. lia.
    + apply N.pow_le_mono_r; lia.
Qed.

Section Range.
  Variable macros : mtable.

  (* items paired with the width used for them (0 for everything but %push) *)
  Fixpoint with_widths (items : list ritem) (ws : list nat) : list (ritem * nat) :=
    match items with
    | [] => []
    | IPush e :: r =>
        match ws with
        | w :: ws' => (IPush e, w) :: with_widths r ws'
        | [] => (IPush e, 1%nat) :: with_widths r []
        end
    | it :: r => (it, 0%nat) :: with_widths r ws
    end.

  Lemma emit_each : forall labels items ws bs,
    emit macros labels items ws = Ok bs ->
    Forall (fun p => exists b, emit_item macros labels (fst p) (snd p) = Ok b) (with_widths items ws).
  Proof.
    intros labels. induction items as [|it r IH]; intros ws bs H; cbn [with_widths]; [constructor|].
    cbn [emit] in H. destruct it as [l|c imm|e|raw].
    - destruct (emit_item macros labels (ILabel l) 0) as [a|er|s] eqn:Ea; cbn [bind] in H; try discriminate.
      destruct (emit macros labels r ws) as [b|er|s] eqn:Eb; cbn [bind] in H; try discriminate.
      constructor; [exists a; exact Ea|exact (IH _ _ Eb)].
    - destruct (emit_item macros labels (IOp c imm) 0) as [a|er|s] eqn:Ea; cbn [bind] in H; try discriminate.
      destruct (emit macros labels r ws) as [b|er|s] eqn:Eb; cbn [bind] in H; try discriminate.
      constructor; [exists a; exact Ea|exact (IH _ _ Eb)].
    - destruct ws as [|w ws']; [discriminate|].
      destruct (emit_item macros labels (IPush e) w) as [a|er|s] eqn:Ea; cbn [bind] in H; try discriminate.
      destruct (emit macros labels r ws') as [b|er|s] eqn:Eb; cbn [bind] in H; try discriminate.
      constructor; [exists a; exact Ea|exact (IH _ _ Eb)].
    - destruct (emit_item macros labels (IRaw raw) 0) as [a|er|s] eqn:Ea; cbn [bind] in H; try discriminate.
      destruct (emit macros labels r ws) as [b|er|s] eqn:Eb; cbn [bind] in H; try discriminate.
      constructor; [exists a; exact Ea|exact (IH _ _ Eb)].
  Qed.

  (* what a successfully emitted item guarantees about its operand *)
  Definition operand_in_range (labels : label_env) (p : ritem * nat) : Prop :=
    match fst p with
    | IOp c (Some e) =>
        exists v, eval_op macros labels e = Ok v /\ 0 <= v < 256 ^ Z.of_nat (extra_of c)
    | IPush e =>
        exists v, eval_op macros labels e = Ok v /\ 0 <= v < 256 ^ Z.of_nat (snd p)
    | _ => True
    end.

  Lemma N_lt_pow_Z : forall v k, 0 <= v -> (Z.to_N v < 256 ^ N.of_nat k)%N -> v < 256 ^ Z.of_nat k.
  Proof.
    intros v k Hv H. apply N2Z.inj_lt in H. rewrite Z2N.id in H by exact Hv.
    rewrite N2Z.inj_pow in H. rewrite nat_N_Z in H. exact H.
  Qed.

  Lemma emitted_in_range : forall labels p b,
    emit_item macros labels (fst p) (snd p) = Ok b -> operand_in_range labels p.
  Proof.
    intros labels [it w] b H. unfold operand_in_range. cbn [fst snd] in *.
    destruct it as [l|c [e|]|e|raw]; try exact I.
    - destruct (emit_item_op_spec macros labels c e b) as (v & Ev & Hv & Hl & _).
      + destruct w; exact H.
      + exists v. split; [exact Ev|]. split; [exact Hv|].
        apply N_lt_pow_Z; [exact Hv|]. now apply be_bytes_length_le.
    - destruct (emit_item_push_spec macros labels e w b H) as (v & Ev & Hv & Hl & _).
      exists v. split; [exact Ev|]. split; [exact Hv|].
      apply N_lt_pow_Z; [exact Hv|]. now apply be_bytes_length_le.
  Qed.

  (* widths decided by the layout are between 1 and 32 *)
  Definition widths_ok (ws : list nat) : Prop := Forall (fun w => (1 <= w <= 32)%nat) ws.

  Lemma widen_ok : forall items labels ws, widths_ok ws -> widths_ok (widen macros items labels ws).
  Proof.
    induction items as [|it r IH]; intros labels ws H; cbn [widen]; [constructor|].
    destruct it as [l|c imm|e|raw]; try (apply IH; exact H).
    destruct ws as [|w ws']; [constructor|]. inversion H as [|? ? Hw Hr]; subst.
    constructor; [|apply IH; exact Hr].
    destruct (eval_op macros labels e) as [v|er|s]; lia.
  Qed.

  Lemma layout_loop_widths : forall fuel items ws w pos,
    widths_ok ws -> layout_loop macros fuel items ws = Ok (w, pos) -> widths_ok w.
  Proof.
    induction fuel as [|f IH]; intros items ws w pos Hok H; cbn [layout_loop] in H; [discriminate|].
    destruct (list_nat_eqb ws _).
    - inversion H; subst. exact Hok.
    - eapply IH; [|exact H]. now apply widen_ok.
  Qed.

  Lemma layout_widths : forall items w pos, layout macros items = Ok (w, pos) -> widths_ok w.
  Proof.
    intros items w pos H. unfold layout in H. eapply layout_loop_widths; [|exact H].
    unfold widths_ok. apply Forall_forall. intros x Hx. apply repeat_spec in Hx. lia.
  Qed.
End Range.

(* C09 at the level of Assembler::assemble *)
Theorem assemble_operands_in_range : forall ops bytes,
  assemble ops = Ok bytes ->
  exists macros items w pos,
    declare_macros ops [] = Ok macros /\
    layout macros items = Ok (w, pos) /\
    emit macros (lenv pos) items w = Ok bytes /\
    widths_ok w /\
    Forall (operand_in_range macros (lenv pos)) (with_widths items w).
Proof.
  intros ops bytes H.
  destruct (assemble_label_offsets ops bytes H) as (macros & items & w & pos & Hm & Hl & He & _).
  exists macros, items, w, pos. repeat split; auto.
  - eapply layout_widths; exact Hl.
  - pose proof (emit_each macros _ _ _ _ He) as Hall.
    eapply Forall_impl; [|exact Hall]. intros p [b Hb]. eapply emitted_in_range; exact Hb.
Qed.

(* ---------- rejection: an out-of-range operand is an error value, never Ok, never Panic ---------- *)
Lemma concretize_imm_rejects : forall n spec v,
  ~ (0 <= v < 256 ^ Z.of_nat n) -> exists er, concretize_imm n spec v = Err er.
Proof.
  intros n spec v H. unfold concretize_imm.
  destruct (Z.ltb_spec v 0) as [Hneg|Hpos]; [eexists; reflexivity|].
  destruct (Nat.leb_spec (length (be_bytes (Z.to_N v))) n) as [Hle|Hgt]; [|eexists; reflexivity].
  exfalso. apply H. split; [exact Hpos|]. apply N_lt_pow_Z; [exact Hpos|]. now apply be_bytes_length_le.
Qed.

Lemma concretize_imm_accepts : forall n spec v,
  0 <= v < 256 ^ Z.of_nat n -> concretize_imm n spec v = Ok (pad_left n (be_bytes (Z.to_N v))).
Proof.
  intros n spec v [H0 H1]. unfold concretize_imm.
  destruct (Z.ltb_spec v 0) as [Hneg|Hpos]; [lia|].
  assert (Hl : (length (be_bytes (Z.to_N v)) <= n)%nat).
  { apply be_bytes_length_le. apply N2Z.inj_lt. rewrite Z2N.id by lia.
    rewrite N2Z.inj_pow, nat_N_Z. exact H1. }
  destruct (Nat.leb_spec (length (be_bytes (Z.to_N v))) n); [reflexivity|lia].
Qed.

(* ---------- the immediate denotes the value ---------- *)
Lemma be_value_shift : forall l a, be_value l a = (a * 256 ^ N.of_nat (length l) + be_value l 0)%N.
Proof.
  induction l as [|x l IH]; intros a; cbn [be_value length].
  - change (256 ^ N.of_nat 0)%N with 1%N. lia.
  - rewrite IH. rewrite (IH (0 * 256 + x)%N). rewrite Nnat.Nat2N.inj_succ, N.pow_succ_r'. lia.
Qed.

Lemma N_of_be_cons : forall x l, N_of_be (x :: l) = (x * 256 ^ N.of_nat (length l) + N_of_be l)%N.
Proof. intros. unfold N_of_be. cbn [be_value]. rewrite be_value_shift. f_equal. Qed.

Lemma be_bytes_fuel_value : forall f n acc, (n < 256 ^ N.of_nat f)%N ->
  N_of_be (be_bytes_fuel f n acc) = (n * 256 ^ N.of_nat (length acc) + N_of_be acc)%N.
Proof.
  induction f as [|f IH]; intros n acc Hn; cbn [be_bytes_fuel].
  - change (256 ^ N.of_nat 0)%N with 1%N in Hn. assert (n = 0%N) by lia. subst. lia.
  - destruct (N.eqb_spec n 0) as [->|Hnz]; [lia|].
    rewrite IH.
    + rewrite N_of_be_cons. cbn [length]. rewrite Nnat.Nat2N.inj_succ, N.pow_succ_r'.
      pose proof (N.div_mod n 256 ltac:(lia)). nia.
    + apply N.div_lt_upper_bound; [lia|]. rewrite Nnat.Nat2N.inj_succ, N.pow_succ_r' in Hn. lia.
Qed.

Lemma N_of_be_be_bytes : forall n, N_of_be (be_bytes n) = n.
Proof.
  intros n. unfold be_bytes. rewrite be_bytes_fuel_value.
  - cbn [length]. change (256 ^ N.of_nat 0)%N with 1%N. unfold N_of_be. cbn. lia.
  - apply N.lt_le_trans with (2 ^ N.size n)%N; [apply N.size_gt|].
    rewrite Nnat.Nat2N.inj_succ, Nnat.N2Nat.id.
    apply N.le_trans with (256 ^ N.size n)%N.
    + apply N.pow_le_mono_l. lia.
    + apply N.pow_le_mono_r; lia.
Qed.

Lemma N_of_be_zeros : forall k l, N_of_be (repeat 0%N k ++ l) = N_of_be l.
Proof.
  induction k as [|k IH]; intros l; cbn [repeat app]; [reflexivity|].
  unfold N_of_be in *. cbn [be_value]. exact (IH l).
Qed.

Lemma N_of_be_pad_left : forall k n, N_of_be (pad_left k (be_bytes n)) = n.
Proof. intros. unfold pad_left. rewrite N_of_be_zeros. apply N_of_be_be_bytes. Qed.
