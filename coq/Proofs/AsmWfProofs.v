(* Proofs/AsmWfProofs.v -- a program assembles EXACTLY WHEN it is well formed (C13).
   Part A: evaluation does not depend on the label environment until the first label lookup.
   Part B: one scope as a flat item list: reading + layout + emission succeed iff [wf_items].
   Part C: instruction macros: a scope assembles iff its expansion exists and is well formed.
   Part D: nested scopes and whole programs. *)
From Coq Require Import Lia ZifyBool ZifyNat ZifyN.
From Verif Require Import Model.Base Model.Ops Model.Expr Model.Asm
  Proofs.ExprEvalProofs Proofs.AsmLayoutProofs Proofs.AsmRangeProofs Proofs.AsmWidthProofs
  Proofs.AsmMacroProofs Proofs.AsmTotalProofs.
Open Scope Z_scope.

(* ====================================================================================== *)
(* Part A: label independence of evaluation                                                *)
(* ====================================================================================== *)

(* the result is the complaint about a label that has no value *)
Definition unknown_label {A} (r : res A) : Prop := exists l, r = err1 "UnknownLabel" l.

Section LabelIndep.
  Variable labels : label_env.
  Variable menv : macro_env.

  (* evaluation under [labels] agrees with evaluation under NO labels, unless the latter
     stops at a label lookup *)
  Definition indep (f : nat) (vs : option var_env) (e : expr) : Prop :=
    eval labels menv f vs e = eval no_labels menv f vs e \/
    unknown_label (eval no_labels menv f vs e).

  Lemma indep_binop : forall f vs a b (mk : expr -> expr -> expr) (g : Z -> Z -> res Z),
    (forall L, eval L menv f vs (mk a b) = (do x <- eval L menv f vs a ; do y <- eval L menv f vs b ; g x y)) ->
    indep f vs a -> indep f vs b -> indep f vs (mk a b).
  Proof.
    intros f vs a b mk g Hmk Ha Hb. unfold indep. rewrite !Hmk.
    destruct Ha as [Ea|[l Ea]].
    - rewrite Ea. destruct (eval no_labels menv f vs a) as [x|er|s]; cbn [bind]; auto.
      destruct Hb as [Eb|[l Eb]].
      + rewrite Eb. auto.
      + right. exists l. rewrite Eb. reflexivity.
    - right. exists l. rewrite Ea. reflexivity.
  Qed.

  Lemma indep_bind_args : forall f vs az,
    Forall (fun a => indep f vs a) az ->
    forall ps acc,
      bind_args labels menv f vs ps az acc = bind_args no_labels menv f vs ps az acc \/
      unknown_label (bind_args no_labels menv f vs ps az acc).
  Proof.
    intros f vs az H. induction H as [|a az Ha Haz IH]; intros ps acc; destruct ps as [|p ps']; cbn [bind_args]; auto.
    destruct Ha as [Ea|[l Ea]].
    - rewrite Ea. destruct (eval no_labels menv f vs a) as [x|er|s]; cbn [bind]; auto.
    - right. exists l. rewrite Ea. reflexivity.
  Qed.

  Lemma indep_step : forall f,
    (forall f', f = S f' -> forall vs e, indep f' vs e) ->
    forall e vs, indep f vs e.
  Proof.
    intros f Hf e.
    induction e as [a IHa|n args IHargs|z|l|x|a b IHa IHb|a b IHa IHb|a b IHa IHb|a b IHa IHb] using expr_ind';
      intros vs.
    - unfold indep. rewrite !eval_paren. apply IHa.
    - unfold indep. rewrite !eval_macro. destruct (menv n) as [[d|]|]; auto.
      destruct f as [|f']; auto.
      assert (Hargs : Forall (fun a => indep (S f') vs a) args).
      { eapply Forall_impl; [|exact IHargs]. intros a Ha. apply Ha. }
      destruct (indep_bind_args (S f') vs args Hargs (em_params d) []) as [Eb|[l Eb]].
      + rewrite Eb. destruct (bind_args no_labels menv (S f') vs (em_params d) args []) as [bound|er|s]; cbn [bind]; auto.
        apply (Hf f' eq_refl).
      + right. exists l. rewrite Eb. reflexivity.
    - unfold indep. rewrite !eval_num. auto.
    - unfold indep. right. exists l. rewrite eval_label. reflexivity.
    - unfold indep. rewrite !eval_var. auto.
    - apply (indep_binop f vs a b EPlus (fun x y => Ok (x + y))); auto. intros L. apply eval_plus.
    - apply (indep_binop f vs a b EMinus (fun x y => Ok (x - y))); auto. intros L. apply eval_minus.
    - apply (indep_binop f vs a b ETimes (fun x y => Ok (x * y))); auto. intros L. apply eval_times.
    - apply (indep_binop f vs a b EDivide (fun x y => if y =? 0 then err0 "DivisionByZero" else Ok (Z.quot x y))); auto.
      intros L. apply eval_divide.
  Qed.

  Theorem eval_label_independent : forall f vs e, indep f vs e.
  Proof.
    induction f as [|f IH]; intros vs e; apply indep_step.
    - intros f' E. discriminate.
    - intros f' E. inversion E; subst. exact IH.
  Qed.
End LabelIndep.

(* ====================================================================================== *)
(* Part B: one scope as a flat item list                                                   *)
(* ====================================================================================== *)

Lemma bind_ok_r' : forall A (r : res A), (do s <- r ; Ok s) = r.
Proof. intros A [s|e|p]; reflexivity. Qed.

Lemma labels_of_cons : forall it r,
  labels_of (it :: r) = (match it with ILabel l => [l] | _ => [] end) ++ labels_of r.
Proof. reflexivity. Qed.

(* the operand an item carries *)
Definition item_operand (it : ritem) : option expr :=
  match it with
  | IOp _ imm => imm
  | IPush e => Some e
  | _ => None
  end.

Section Items.
  Variable macros : mtable.
  Notation menv := (menv_of macros).

  (* reading one item: what Assembler::push does for a label, an op, a %push, raw bytes *)
  Definition push_ritem (st : astate) (it : ritem) : res astate :=
    match it with
    | ILabel l =>
        if mem l (a_declared st) then err1 "DuplicateLabel" l
        else Ok (mkast (a_ready st ++ [ILabel l]) (a_declared st ++ [l])
                       (remove_str l (a_undeclared st)) (a_ctr st))
    | _ => push_item macros st it (item_operand it)
    end.

  Fixpoint push_items (items : list ritem) (st : astate) : res astate :=
    match items with
    | [] => Ok st
    | it :: r => do s <- push_ritem st it ; push_items r s
    end.

  Lemma push_items_app : forall a b st,
    push_items (a ++ b) st = (do s <- push_items a st ; push_items b s).
  Proof.
    induction a as [|x a IH]; intros b st; cbn [app push_items bind]; [reflexivity|].
    destruct (push_ritem st x); cbn [bind]; auto.
  Qed.

  (* ---------- the declarative predicate ---------- *)
  (* every expression macro the operand uses (also through macro bodies, also in surplus
     arguments) is declared as an expression macro, within the nesting limit, and every label
     it mentions -- directly, in arguments or in macro bodies -- is defined in the scope *)
  Definition labels_ok (items : list ritem) (it : ritem) : Prop :=
    forall e, item_operand it = Some e ->
      exists ls, elabels menv MACRO_DEPTH_LIMIT e = Ok ls /\ incl ls (labels_of items).

  Definition wf_items (items : list ritem) : Prop :=
    (* each label is defined exactly once *)
    NoDup (labels_of items) /\
    (* the labels and expression macros every operand uses are defined (before or after) *)
    Forall (labels_ok items) items /\
    (* under the positions the layout gives to the labels, every operand has a value
       (no division by zero, no missing argument, no unbound variable) that fits its push *)
    exists w pos, layout macros items = Ok (w, pos) /\
      Forall (operand_in_range macros (lenv pos)) (with_widths items w).

  (* ---------- the bookkeeping of undeclared labels ---------- *)
  Definition add_und (D : list string) (u : list string) (l : string) : list string :=
    if mem l D || mem l u then u else u ++ [l].

  Lemma fold_add_und : forall D ls U l,
    In l (fold_left (add_und D) ls U) <-> In l U \/ (In l ls /\ ~ In l D).
  Proof.
    intros D. induction ls as [|x ls IH]; intros U l; cbn [fold_left].
    - split; [auto|]. intros [H|[[] _]]; exact H.
    - rewrite IH. unfold add_und.
      destruct (mem x D) eqn:ED; cbn [orb].
      + apply mem_In in ED. split.
        * intros [H|[H1 H2]]; [auto|]. right. split; [now right|exact H2].
        * intros [H|[[->|H1] H2]]; [auto|contradiction|]. right. auto.
      + assert (ND : ~ In x D) by (intros H; apply mem_In in H; congruence).
        destruct (mem x U) eqn:EU.
        * apply mem_In in EU. split.
          -- intros [H|[H1 H2]]; [auto|]. right. split; [now right|exact H2].
          -- intros [H|[[->|H1] H2]]; [auto|auto|]. right. auto.
        * split.
          -- intros [H|[H1 H2]].
             ++ apply in_app_or in H as [H|[->|[]]]; [auto|]. right. split; [now left|exact ND].
             ++ right. split; [now right|exact H2].
          -- intros [H|[[->|H1] H2]].
             ++ left. apply in_or_app. now left.
             ++ left. apply in_or_app. right. now left.
             ++ right. auto.
  Qed.

  Lemma In_remove_str : forall x l y, In y (remove_str x l) <-> In y l /\ y <> x.
  Proof.
    intros x l y. unfold remove_str. rewrite filter_In. split.
    - intros [H1 H2]. split; [exact H1|]. intros ->. rewrite String.eqb_refl in H2. discriminate.
    - intros [H1 H2]. split; [exact H1|]. destruct (String.eqb_spec x y) as [->|]; [contradiction|reflexivity].
  Qed.

  (* ---------- what a successful reading establishes ---------- *)
  Definition mentioned (items : list ritem) (l : string) : Prop :=
    exists it e ls, In it items /\ item_operand it = Some e /\
                    elabels menv MACRO_DEPTH_LIMIT e = Ok ls /\ In l ls.

  Definition has_elabels (it : ritem) : Prop :=
    forall e, item_operand it = Some e -> exists ls, elabels menv MACRO_DEPTH_LIMIT e = Ok ls.

  Definition read_inv (st : astate) : Prop :=
    a_declared st = labels_of (a_ready st) /\
    NoDup (a_declared st) /\
    Forall has_elabels (a_ready st) /\
    forall l, In l (a_undeclared st) <-> mentioned (a_ready st) l /\ ~ In l (a_declared st).

  Lemma read_inv_init : read_inv ainit.
  Proof.
    unfold read_inv. cbn [ainit a_ready a_declared a_undeclared].
    split; [reflexivity|]. split; [constructor|]. split; [constructor|].
    intros l. split; [intros []|]. intros [(it & e & ls & [] & _) _].
  Qed.

  Lemma mentioned_app_nil : forall items it l,
    item_operand it = None -> (mentioned (items ++ [it]) l <-> mentioned items l).
  Proof.
    intros items it l Hn. split.
    - intros (it' & e & ls & Hin & Ho & He & Hl). apply in_app_or in Hin as [Hin|[<-|[]]].
      + exists it', e, ls. auto.
      + congruence.
    - intros (it' & e & ls & Hin & Ho & He & Hl). exists it', e, ls. split; [apply in_or_app; now left|auto].
  Qed.

  Lemma mentioned_app_some : forall items it e ls l,
    item_operand it = Some e -> elabels menv MACRO_DEPTH_LIMIT e = Ok ls ->
    (mentioned (items ++ [it]) l <-> mentioned items l \/ In l ls).
  Proof.
    intros items it e ls l Ho He. split.
    - intros (it' & e' & ls' & Hin & Ho' & He' & Hl). apply in_app_or in Hin as [Hin|[<-|[]]].
      + left. exists it', e', ls'. auto.
      + right. rewrite Ho in Ho'. inversion Ho'; subst e'. rewrite He in He'. inversion He'; subst ls'. exact Hl.
    - intros [(it' & e' & ls' & Hin & Ho' & He' & Hl)|Hl].
      + exists it', e', ls'. split; [apply in_or_app; now left|auto].
      + exists it, e, ls. split; [apply in_or_app; right; now left|auto].
  Qed.

  Lemma push_item_read_inv : forall st it st',
    (forall l, it <> ILabel l) ->
    read_inv st -> push_item macros st it (item_operand it) = Ok st' ->
    read_inv st' /\ a_ready st' = a_ready st ++ [it].
  Proof.
    intros st it st' Hnl (H1 & H2 & H3 & H4) H. unfold push_item in H.
    assert (Hl : labels_of [it] = []).
    { destruct it; cbn; try reflexivity. exfalso. now apply (Hnl l). }
    destruct (item_operand it) as [e|] eqn:Eo.
    - destruct (elabels menv MACRO_DEPTH_LIMIT e) as [ls|er|s] eqn:El; try discriminate.
      destruct (early_check macros it) as [[]|er|s]; cbn [bind] in H; try discriminate.
      inversion H; subst st'. cbn [a_ready a_declared a_undeclared]. split; [|reflexivity].
      unfold read_inv. cbn [a_ready a_declared a_undeclared].
      split; [rewrite labels_of_app, Hl, app_nil_r; exact H1|].
      split; [exact H2|]. split.
      + apply Forall_app. split; [exact H3|]. constructor; [|constructor].
        intros e' He'. rewrite Eo in He'. inversion He'; subst. eauto.
      + intros l. fold (add_und (a_declared st)). rewrite fold_add_und, H4.
        rewrite (mentioned_app_some _ _ _ _ l Eo El). tauto.
    - inversion H; subst st'. cbn [a_ready a_declared a_undeclared]. split; [|reflexivity].
      unfold read_inv. cbn [a_ready a_declared a_undeclared].
      split; [rewrite labels_of_app, Hl, app_nil_r; exact H1|].
      split; [exact H2|]. split.
      + apply Forall_app. split; [exact H3|]. constructor; [|constructor].
        intros e' He'. congruence.
      + intros l. rewrite H4. rewrite (mentioned_app_nil _ _ l Eo). tauto.
  Qed.

  Lemma push_ritem_read_inv : forall st it st',
    read_inv st -> push_ritem st it = Ok st' ->
    read_inv st' /\ a_ready st' = a_ready st ++ [it].
  Proof.
    intros st it st' Hi H.
    destruct it as [l|c imm|e|bs]; cbn [push_ritem] in H;
      try (apply push_item_read_inv; [discriminate|exact Hi|exact H]).
    destruct Hi as (H1 & H2 & H3 & H4).
    destruct (mem l (a_declared st)) eqn:Em; [discriminate|].
    assert (Hn : ~ In l (a_declared st)) by (intros Hin; apply mem_In in Hin; congruence).
    inversion H; subst st'. cbn [a_ready a_declared a_undeclared]. split; [|reflexivity].
    unfold read_inv. cbn [a_ready a_declared a_undeclared].
    split; [rewrite labels_of_app, H1; reflexivity|].
    split; [apply NoDup_app_snoc; assumption|]. split.
    - apply Forall_app. split; [exact H3|]. constructor; [|constructor]. intros e' He'. discriminate.
    - intros x. rewrite In_remove_str, H4. rewrite (mentioned_app_nil _ (ILabel l) x eq_refl).
      rewrite in_app_iff. cbn [In]. split.
      + intros [[Hm Hd] Hne]. split; [exact Hm|]. intros [Hd'|[E|[]]]; [contradiction|congruence].
      + intros [Hm Hd]. split; [split; [exact Hm|tauto]|]. intros ->. apply Hd. right. now left.
  Qed.

  Lemma push_items_read_inv : forall items st st',
    read_inv st -> push_items items st = Ok st' ->
    read_inv st' /\ a_ready st' = a_ready st ++ items.
  Proof.
    induction items as [|it r IH]; intros st st' Hi H; cbn [push_items] in H.
    - inversion H; subst. split; [exact Hi|now rewrite app_nil_r].
    - destruct (push_ritem st it) as [s|er|p] eqn:E; cbn [bind] in H; try discriminate.
      destruct (push_ritem_read_inv _ _ _ Hi E) as [Hs Hr].
      destruct (IH _ _ Hs H) as [Hs' Hr']. split; [exact Hs'|].
      rewrite Hr', Hr, <- app_assoc. reflexivity.
  Qed.

  (* ---------- the early check agrees with the final one ---------- *)
  Lemma early_ok_of_range : forall labels it w,
    (w <= 32)%nat -> operand_in_range macros labels (it, w) -> early_check macros it = Ok tt.
  Proof.
    intros labels it w Hw H. unfold operand_in_range in H. cbn [fst snd] in H.
    destruct it as [l|c [e|]|e|bs]; cbn [early_check]; try reflexivity.
    - destruct H as (v & Ev & Hr). unfold eval_op in *.
      destruct (eval_label_independent labels menv MACRO_DEPTH_LIMIT None e) as [E|[l E]].
      + rewrite <- E, Ev. rewrite concretize_imm_accepts by exact Hr. reflexivity.
      + rewrite E. reflexivity.
    - destruct H as (v & Ev & Hr). unfold eval_op in *.
      destruct (eval_label_independent labels menv MACRO_DEPTH_LIMIT None e) as [E|[l E]].
      + rewrite <- E, Ev. unfold check_unsized.
        destruct (Z.ltb_spec v 0) as [Hneg|Hpos]; [lia|].
        assert (Hl : (length (be_bytes (Z.to_N v)) <= w)%nat).
        { apply be_bytes_length_le. apply N2Z.inj_lt. rewrite Z2N.id by lia.
          rewrite N2Z.inj_pow, nat_N_Z. apply Hr. }
        destruct (Nat.ltb_spec 32 (length (be_bytes (Z.to_N v)))); [lia|reflexivity].
      + rewrite E. reflexivity.
  Qed.

  Lemma early_ok_all : forall labels items ws,
    widths_ok ws -> Forall (operand_in_range macros labels) (with_widths items ws) ->
    Forall (fun it => early_check macros it = Ok tt) items.
  Proof.
    intros labels. induction items as [|it r IH]; intros ws Hok H; [constructor|].
    destruct it as [l|c imm|e|bs]; cbn [with_widths] in H.
    - inversion H; subst. constructor; [reflexivity|eauto].
    - inversion H as [|? ? Hp Hr]; subst. constructor; [|eauto].
      apply (early_ok_of_range labels _ 0%nat); [lia|exact Hp].
    - destruct ws as [|w ws'].
      + inversion H as [|? ? Hp Hr]; subst. constructor; [|eauto].
        apply (early_ok_of_range labels _ 1%nat); [lia|exact Hp].
      + inversion H as [|? ? Hp Hr]; subst. inversion Hok as [|? ? Hw Hok']; subst. constructor; [|eauto].
        apply (early_ok_of_range labels _ w); [lia|exact Hp].
    - inversion H; subst. constructor; [reflexivity|eauto].
  Qed.

  (* ---------- reading succeeds on a well-formed list ---------- *)
  Lemma push_items_complete : forall items st,
    NoDup (a_declared st ++ labels_of items) ->
    Forall has_elabels items ->
    Forall (fun it => early_check macros it = Ok tt) items ->
    exists st', push_items items st = Ok st'.
  Proof.
    induction items as [|it r IH]; intros st Hnd Hel Hec; cbn [push_items]; [eauto|].
    inversion Hel as [|? ? Hel1 Helr]; subst. inversion Hec as [|? ? Hec1 Hecr]; subst.
    rewrite labels_of_cons in Hnd.
    assert (Hother : (forall l, it <> ILabel l) ->
              exists s, push_item macros st it (item_operand it) = Ok s /\ a_declared s = a_declared st).
    { intros Hnl. unfold push_item. destruct (item_operand it) as [e|] eqn:Eo.
      - destruct (Hel1 e Eo) as [ls Els]. rewrite Els, Hec1. cbn [bind]. eexists. split; reflexivity.
      - eexists. split; reflexivity. }
    destruct it as [l|c imm|e|bs]; cbn [push_ritem].
    - destruct (mem l (a_declared st)) eqn:Em.
      + exfalso. apply mem_In in Em. cbn [app] in Hnd. apply NoDup_remove_2 in Hnd.
        apply Hnd. apply in_or_app. now left.
      + cbn [bind]. apply IH; auto. cbn [a_declared]. rewrite <- app_assoc. exact Hnd.
    - destruct Hother as (s & Es & Ed); [discriminate|]. rewrite Es. cbn [bind]. apply IH; auto. now rewrite Ed.
    - destruct Hother as (s & Es & Ed); [discriminate|]. rewrite Es. cbn [bind]. apply IH; auto. now rewrite Ed.
    - destruct Hother as (s & Es & Ed); [discriminate|]. rewrite Es. cbn [bind]. apply IH; auto. now rewrite Ed.
  Qed.

  (* ---------- one scope, flat: success iff well formed ---------- *)
  Theorem items_ok_iff : forall items,
    (exists st bytes, push_items items ainit = Ok st /\ finish_scope macros st = Ok bytes) <-> wf_items items.
  Proof.
    intros items. split.
    - intros (st & bytes & Hp & Hf).
      destruct (push_items_read_inv _ _ _ read_inv_init Hp) as [(H1 & H2 & H3 & H4) Hr].
      cbn [a_ready ainit app] in Hr.
      destruct (proj1 (finish_scope_ok_iff macros st) (ex_intro _ bytes Hf)) as (Hu & w & pos & Hl & Hall).
      rewrite Hr in *. unfold wf_items. split; [rewrite <- H1; exact H2|]. split.
      + apply Forall_forall. intros it Hin e He.
        rewrite Forall_forall in H3. destruct (H3 it Hin e He) as [ls Els].
        exists ls. split; [exact Els|]. intros l Hl'.
        destruct (mem l (a_declared st)) eqn:Em.
        * apply mem_In in Em. now rewrite <- H1.
        * exfalso. assert (Hin' : In l (a_undeclared st)).
          { apply H4. split; [exists it, e, ls; auto|]. intros Hd. apply mem_In in Hd. congruence. }
          rewrite Hu in Hin'. destruct Hin'.
      + exists w, pos. auto.
    - intros (Hnd & Hlo & w & pos & Hl & Hall).
      assert (Hel : Forall has_elabels items).
      { eapply Forall_impl; [|exact Hlo]. intros it H e He. destruct (H e He) as (ls & Els & _). eauto. }
      assert (Hec : Forall (fun it => early_check macros it = Ok tt) items).
      { eapply early_ok_all; [|exact Hall]. eapply layout_widths; exact Hl. }
      destruct (push_items_complete items ainit Hnd Hel Hec) as [st Hp].
      destruct (push_items_read_inv _ _ _ read_inv_init Hp) as [(H1 & H2 & H3 & H4) Hr].
      cbn [a_ready ainit app] in Hr.
      assert (Hu : a_undeclared st = []).
      { destruct (a_undeclared st) as [|l u] eqn:Eu; [reflexivity|]. exfalso.
        destruct (proj1 (H4 l) (or_introl eq_refl)) as [(it & e & ls & Hin & Ho & Els & Hl') Hd].
        rewrite Forall_forall in Hlo. destruct (Hlo it ltac:(rewrite <- Hr; exact Hin) e Ho) as (ls' & Els' & Hincl).
        rewrite Els in Els'. inversion Els'; subst ls'.
        apply Hd. rewrite H1, Hr. apply Hincl. exact Hl'. }
      destruct (proj2 (finish_scope_ok_iff macros st)) as [bytes Hf].
      { split; [exact Hu|]. exists w, pos. rewrite Hr. auto. }
      exists st, bytes. auto.
  Qed.
End Items.

(* ====================================================================================== *)
(* Part C: instruction macros -- one scope with invocations, raw bytes and nested scopes    *)
(* ====================================================================================== *)

(* the item a macro-free op contributes (macro definitions contribute nothing) *)
Definition item_of (a : aop) : list ritem :=
  match a with
  | ALabel l => [ILabel l]
  | AOp c imm => [IOp c imm]
  | APush e => [IPush e]
  | _ => []
  end.

Definition add_raw (bs : list N) (st : astate) : astate :=
  mkast (a_ready st ++ [IRaw bs]) (a_declared st) (a_undeclared st) (a_ctr st).

Section ScopeWf.
  Variable macros : mtable.

  Lemma push_op_flat_items : forall st a, is_flat a = true ->
    push_op macros 0 st a = push_items macros (item_of a) st.
  Proof.
    intros st a H. destruct a as [c imm|l|e|n ps b|n ps b|n args]; try discriminate;
      cbn [push_op item_of push_items push_ritem item_operand]; try reflexivity.
    - now rewrite bind_ok_r'.
    - destruct (mem l (a_declared st)); reflexivity.
    - now rewrite bind_ok_r'.
  Qed.

  Lemma push_flat_items : forall ops st, all_flat ops ->
    push_flat macros ops st = push_items macros (flat_map item_of ops) st.
  Proof.
    induction ops as [|a r IH]; intros st H; cbn [push_flat flat_map]; [reflexivity|].
    inversion H as [|? ? Ha Hr]; subst. rewrite push_items_app, push_op_flat_items by exact Ha.
    destruct (push_items macros (item_of a) st); cbn [bind]; auto.
  Qed.

  Lemma push_ritem_ctr : forall c st it,
    push_ritem macros (set_ctr c st) it = rmap (set_ctr c) (push_ritem macros st it).
  Proof.
    intros c st it. destruct it as [l|cd imm|e|bs]; cbn [push_ritem]; try apply push_item_ctr.
    cbn [set_ctr a_declared]. destruct (mem l (a_declared st)); reflexivity.
  Qed.

  Lemma push_items_ctr : forall items c st,
    push_items macros items (set_ctr c st) = rmap (set_ctr c) (push_items macros items st).
  Proof.
    induction items as [|it r IH]; intros c st; cbn [push_items]; [reflexivity|].
    rewrite push_ritem_ctr. destruct (push_ritem macros st it); cbn [rmap bind]; auto.
  Qed.

  Lemma rmap_ctr_ok : forall c (r : res astate) s, rmap (set_ctr c) r = Ok s -> a_ctr s = c.
  Proof. intros c [s0|e|p] s H; cbn [rmap] in H; try discriminate. inversion H; subst. reflexivity. Qed.

  (* ---------- a successful push of an invocation has an expansion ---------- *)
  Lemma push_op_ok_expand : forall fuel st a st',
    push_op macros fuel st a = Ok st' ->
    exists ops c', expand_op macros fuel (a_ctr st) a = Ok (ops, c').
  Proof.
    induction fuel as [|f IH]; intros st a st' H.
    - destruct a as [c imm|l|e|n ps b|n ps b|n args]; cbn [expand_op]; eauto.
      cbn [push_op] in H. destruct (mlookup macros n) as [[ps body|d]|]; try discriminate.
      destruct (negb _); discriminate.
    - destruct a as [c imm|l|e|n ps b|n ps b|n args]; cbn [expand_op]; eauto.
      cbn [push_op] in H. destruct (mlookup macros n) as [[ps body|d]|]; try discriminate.
      destruct (negb (Nat.eqb (length ps) (length args))); [discriminate|].
      destruct (rename_pass n body (a_ctr st) []) as [[[body1 c1] ren]|er|s]; cbn [bind] in *; try discriminate.
      set (body2 := map (rewrite_op ren (combine ps args)) body1) in *.
      change (mkast (a_ready st) (a_declared st) (a_undeclared st) c1) with (set_ctr c1 st) in H.
      assert (Hc : a_ctr (set_ctr c1 st) = c1) by reflexivity.
      revert H Hc. generalize (set_ctr c1 st) as s0. generalize c1 as c. clearbody body2.
      induction body2 as [|b r IHl]; intros c s0 H Hc; [eauto|].
      destruct (push_op macros f s0 b) as [s1|er|p] eqn:Eb; cbn [bind] in H; try discriminate.
      destruct (IH _ _ _ Eb) as (opsb & cb & Xb). rewrite Hc in Xb. rewrite Xb. cbn [bind fst snd].
      assert (Hc1 : a_ctr s1 = cb).
      { rewrite <- Hc in Xb. destruct (expand_push macros _ _ _ _ _ Xb) as [_ P]. rewrite P in Eb.
        eapply rmap_ctr_ok; exact Eb. }
      destruct (IHl cb s1 H Hc1) as (opsr & cr & Xr). rewrite Xr. cbn [bind fst snd]. eauto.
  Qed.

  (* ---------- Assembler::assemble's loop over one scope ---------- *)
  Fixpoint push_raws (rec : rawop -> res (list N)) (l : list rawop) (st : astate) : res astate :=
    match l with
    | [] => Ok st
    | ROp a :: r => do st' <- push_op macros EXPANSION_FUEL st a ; push_raws rec r st'
    | RRaw bs :: r => push_raws rec r (mkast (a_ready st ++ [IRaw bs]) (a_declared st) (a_undeclared st) (a_ctr st))
    | (RScope _ as sc) :: r =>
        do bs <- rec sc ;
        push_raws rec r (mkast (a_ready st ++ [IRaw bs]) (a_declared st) (a_undeclared st) (a_ctr st))
    end.

  (* the expansion of one scope to a flat item list: every invocation replaced by its
     (recursive) textual expansion, every nested scope by the bytes [sub] says it stands for *)
  Fixpoint expand_raws (sub : rawop -> list N) (ctr : N) (l : list rawop) : res (list ritem * N) :=
    match l with
    | [] => Ok ([], ctr)
    | ROp a :: r =>
        do x <- expand_op macros EXPANSION_FUEL ctr a ;
        do y <- expand_raws sub (snd x) r ;
        Ok (flat_map item_of (fst x) ++ fst y, snd y)
    | RRaw bs :: r => do y <- expand_raws sub ctr r ; Ok (IRaw bs :: fst y, snd y)
    | (RScope _ as sc) :: r => do y <- expand_raws sub ctr r ; Ok (IRaw (sub sc) :: fst y, snd y)
    end.

  (* a scope is well formed: every invocation has an expansion (the macro is declared as an
     instruction macro, with exactly as many arguments as parameters, nesting within the
     limit, no label defined twice in one macro body) and the expanded scope is well formed *)
  Definition wf_scope (sub : rawop -> list N) (l : list rawop) : Prop :=
    exists items c, expand_raws sub 0 l = Ok (items, c) /\ wf_items macros items.

  Lemma push_raws_expand : forall rec sub l st items c',
    (forall inner, In (RScope inner) l -> rec (RScope inner) = Ok (sub (RScope inner))) ->
    expand_raws sub (a_ctr st) l = Ok (items, c') ->
    push_raws rec l st = rmap (set_ctr c') (push_items macros items st).
  Proof.
    intros rec sub. induction l as [|x l IH]; intros st items c' Hrec H; cbn [expand_raws] in H.
    - inversion H; subst. cbn [push_raws push_items rmap]. now rewrite set_ctr_same.
    - assert (Hrec' : forall inner, In (RScope inner) l -> rec (RScope inner) = Ok (sub (RScope inner))).
      { intros inner Hin. apply Hrec. now right. }
      destruct x as [a|inner|bs]; cbn [push_raws].
      + destruct (expand_op macros EXPANSION_FUEL (a_ctr st) a) as [[opsa ca]|er|s] eqn:Xa; cbn [bind fst snd] in H; try discriminate.
        destruct (expand_raws sub ca l) as [[itr cr]|er|s] eqn:Xr; cbn [bind fst snd] in H; try discriminate.
        inversion H; subst items c'.
        destruct (expand_push macros _ _ _ _ _ Xa) as [Fa Pa]. rewrite Pa, push_flat_items by exact Fa.
        rewrite push_items_app.
        destruct (push_items macros (flat_map item_of opsa) st) as [s1|er|p]; cbn [rmap bind]; try reflexivity.
        rewrite (IH (set_ctr ca s1) itr cr Hrec' Xr). rewrite push_items_ctr. apply rmap_rmap.
      + rewrite (Hrec inner (or_introl eq_refl)). cbn [bind].
        destruct (expand_raws sub (a_ctr st) l) as [[itr cr]|er|s] eqn:Xr; cbn [bind fst snd] in H; try discriminate.
        inversion H; subst items c'.
        cbn [push_items push_ritem item_operand push_item bind].
        apply (IH (add_raw (sub (RScope inner)) st) itr cr Hrec' Xr).
      + destruct (expand_raws sub (a_ctr st) l) as [[itr cr]|er|s] eqn:Xr; cbn [bind fst snd] in H; try discriminate.
        inversion H; subst items c'.
        cbn [push_items push_ritem item_operand push_item bind].
        apply (IH (add_raw bs st) itr cr Hrec' Xr).
  Qed.

  Lemma push_raws_ok_nested : forall rec l st st',
    push_raws rec l st = Ok st' ->
    forall inner, In (RScope inner) l -> exists bs, rec (RScope inner) = Ok bs.
  Proof.
    intros rec. induction l as [|x l IH]; intros st st' H inner Hin; [destruct Hin|].
    destruct x as [a|inner'|bs]; cbn [push_raws] in H.
    - destruct (push_op macros EXPANSION_FUEL st a) as [s1|er|p]; cbn [bind] in H; try discriminate.
      destruct Hin as [E|Hin]; [discriminate|]. eapply IH; eauto.
    - destruct (rec (RScope inner')) as [bs|er|p] eqn:Er; cbn [bind] in H; try discriminate.
      destruct Hin as [E|Hin]; [inversion E; subst; eauto|]. eapply IH; eauto.
    - destruct Hin as [E|Hin]; [discriminate|]. eapply IH; eauto.
  Qed.

  Lemma push_raws_ok_expand : forall rec sub l st st',
    push_raws rec l st = Ok st' ->
    exists items c', expand_raws sub (a_ctr st) l = Ok (items, c').
  Proof.
    intros rec sub. induction l as [|x l IH]; intros st st' H; cbn [expand_raws]; [eauto|].
    destruct x as [a|inner|bs]; cbn [push_raws] in H.
    - destruct (push_op macros EXPANSION_FUEL st a) as [s1|er|p] eqn:Ea; cbn [bind] in H; try discriminate.
      destruct (push_op_ok_expand _ _ _ _ Ea) as (opsa & ca & Xa). rewrite Xa. cbn [bind fst snd].
      assert (Hc1 : a_ctr s1 = ca).
      { destruct (expand_push macros _ _ _ _ _ Xa) as [_ P]. rewrite P in Ea. eapply rmap_ctr_ok; exact Ea. }
      destruct (IH _ _ H) as (itr & cr & Xr). rewrite Hc1 in Xr. rewrite Xr. cbn [bind fst snd]. eauto.
    - destruct (rec (RScope inner)) as [bs|er|p]; cbn [bind] in H; try discriminate.
      destruct (IH _ _ H) as (itr & cr & Xr). cbn [a_ctr] in Xr. rewrite Xr. cbn [bind fst snd]. eauto.
    - destruct (IH _ _ H) as (itr & cr & Xr). cbn [a_ctr] in Xr. rewrite Xr. cbn [bind fst snd]. eauto.
  Qed.

  Lemma finish_scope_set_ctr : forall c st, finish_scope macros (set_ctr c st) = finish_scope macros st.
  Proof. reflexivity. Qed.

  (* one scope assembles iff it is well formed, given what its nested scopes assemble to *)
  Theorem scope_ok_iff : forall rec sub l,
    (forall inner, In (RScope inner) l -> rec (RScope inner) = Ok (sub (RScope inner))) ->
    ((exists st bytes, push_raws rec l ainit = Ok st /\ finish_scope macros st = Ok bytes) <->
     wf_scope sub l).
  Proof.
    intros rec sub l Hrec. split.
    - intros (st & bytes & Hp & Hf).
      destruct (push_raws_ok_expand rec sub _ _ _ Hp) as (items & c' & X). cbn [a_ctr ainit] in X.
      exists items, c'. split; [exact X|].
      rewrite (push_raws_expand rec sub l ainit items c' Hrec X) in Hp.
      destruct (push_items macros items ainit) as [s0|er|p] eqn:E0; cbn [rmap] in Hp; try discriminate.
      inversion Hp; subst st. rewrite finish_scope_set_ctr in Hf.
      apply items_ok_iff. exists s0, bytes. auto.
    - intros (items & c' & X & Hwf).
      destruct (proj2 (items_ok_iff macros items) Hwf) as (s0 & bytes & E0 & Hf).
      exists (set_ctr c' s0), bytes. split; [|exact Hf].
      rewrite (push_raws_expand rec sub l ainit items c' Hrec X), E0. reflexivity.
  Qed.

  (* the special case of a macro-free op list (labels, ops, %push, macro definitions) *)
  Corollary flat_ok_iff : forall ops, all_flat ops ->
    ((exists st bytes, push_flat macros ops ainit = Ok st /\ finish_scope macros st = Ok bytes) <->
     wf_items macros (flat_map item_of ops)).
  Proof. intros ops H. rewrite push_flat_items by exact H. apply items_ok_iff. Qed.
End ScopeWf.

(* ====================================================================================== *)
(* Part D: nested scopes and whole programs                                                *)
(* ====================================================================================== *)

Lemma assemble_with_push_raws : forall rec ops,
  assemble_with rec ops =
    (do macros <- declare_macros ops [] ;
     do st <- push_raws macros rec ops ainit ;
     finish_scope macros st).
Proof.
  intros rec ops. unfold assemble_with.
  destruct (declare_macros ops []) as [macros|er|s]; cbn [bind]; try reflexivity.
  match goal with |- bind ?g _ = bind ?h _ => assert (E : g = h); [|rewrite E; reflexivity] end.
  generalize ainit as st. generalize ops as l.
  induction l as [|x l IH]; intros st; cbn [push_raws]; [reflexivity|].
  destruct x as [a|inner|bs].
  - destruct (push_op macros EXPANSION_FUEL st a); cbn [bind]; auto.
  - destruct (rec (RScope inner)); cbn [bind]; auto.
  - apply IH.
Qed.

Definition bytes_of (r : res (list N)) : list N := match r with Ok b => b | _ => [] end.

(* the bytes a nested scope stands for in its parent *)
Definition nested_bytes (sc : rawop) : list N := bytes_of (assemble_scope sc).

(* well-formedness of a scope (given as RScope l), by recursion on the nesting: every nested
   scope is well formed, no macro name is declared twice in the scope, and the scope's own ops
   are well formed with each nested scope standing for the bytes it assembles to *)
Fixpoint wf_raw (r : rawop) : Prop :=
  match r with
  | RScope l =>
      (fix nested (l : list rawop) : Prop :=
         match l with
         | [] => True
         | x :: r => wf_raw x /\ nested r
         end) l /\
      exists macros, declare_macros l [] = Ok macros /\ wf_scope macros nested_bytes l
  | _ => True
  end.

Definition wf_program (ops : list rawop) : Prop := wf_raw (RScope ops).

Lemma wf_raw_scope : forall l,
  wf_raw (RScope l) <->
  (Forall wf_raw l /\ exists macros, declare_macros l [] = Ok macros /\ wf_scope macros nested_bytes l).
Proof.
  intros l. cbn [wf_raw].
  assert (H : forall l, (fix nested (l : list rawop) : Prop :=
                           match l with [] => True | x :: r => wf_raw x /\ nested r end) l <-> Forall wf_raw l).
  { induction l0 as [|x r IH].
    - split; intros _; [constructor|exact I].
    - split; intros H.
      + constructor; [apply H|apply IH, H].
      + inversion H; subst. split; [assumption|]. apply IH. assumption. }
  rewrite H. tauto.
Qed.

(* the declarative reading of [wf_program]: by cases on the nesting *)
Lemma wf_program_unfold : forall ops,
  wf_program ops <->
  ((forall inner, In (RScope inner) ops -> wf_program inner) /\
   exists macros, declare_macros ops [] = Ok macros /\ wf_scope macros nested_bytes ops).
Proof.
  intros ops. unfold wf_program. rewrite wf_raw_scope, Forall_forall. split.
  - intros [H1 H2]. split; [|exact H2]. intros inner Hin. exact (H1 _ Hin).
  - intros [H1 H2]. split; [|exact H2]. intros x Hin. destruct x as [a|inner|bs]; try exact I. exact (H1 _ Hin).
Qed.

Theorem assemble_scope_ok_iff : forall n l, (scope_depth (RScope l) <= n)%nat ->
  ((exists bytes, assemble_scope (RScope l) = Ok bytes) <-> wf_raw (RScope l)).
Proof.
  induction n as [|n IH]; intros l Hd; [cbn in Hd; lia|].
  assert (Hsub : forall inner, In (RScope inner) l ->
            ((exists bytes, assemble_scope (RScope inner) = Ok bytes) <-> wf_raw (RScope inner))).
  { intros inner Hin. apply IH. cbn [scope_depth] in Hd.
    pose proof (scope_depth_in l (RScope inner) Hin) as H. lia. }
  rewrite wf_raw_scope. cbn [assemble_scope]. rewrite assemble_with_push_raws. split.
  - intros [bytes H].
    destruct (declare_macros l []) as [macros|er|s]; cbn [bind] in H; try discriminate.
    destruct (push_raws macros assemble_scope l ainit) as [st|er|s] eqn:Ep; cbn [bind] in H; try discriminate.
    pose proof (push_raws_ok_nested macros _ _ _ _ Ep) as Hn.
    split.
    + apply Forall_forall. intros x Hin. destruct x as [a|inner|bs]; try exact I.
      apply (Hsub inner Hin). exact (Hn inner Hin).
    + exists macros. split; [reflexivity|].
      apply (scope_ok_iff macros assemble_scope nested_bytes l).
      * intros inner Hin. destruct (Hn inner Hin) as [bs Eb]. unfold nested_bytes. rewrite Eb. reflexivity.
      * exists st, bytes. auto.
  - intros [Hall (macros & Hm & Hwf)]. rewrite Hm. cbn [bind].
    rewrite Forall_forall in Hall.
    destruct (proj2 (scope_ok_iff macros assemble_scope nested_bytes l
                       ltac:(intros inner Hin; destruct (proj2 (Hsub inner Hin) (Hall _ Hin)) as [bs Eb];
                             unfold nested_bytes; rewrite Eb; reflexivity)) Hwf) as (st & bytes & Ep & Hf).
    exists bytes. rewrite Ep. cbn [bind]. exact Hf.
Qed.

(* C13: a program assembles exactly when it is well formed *)
Theorem assemble_ok_iff_wf : forall ops,
  (exists bytes, assemble ops = Ok bytes) <-> wf_program ops.
Proof.
  intros ops. unfold wf_program.
  change (assemble ops) with (assemble_scope (RScope ops)).
  apply (assemble_scope_ok_iff (scope_depth (RScope ops))). lia.
Qed.

(* otherwise: an error value (never a panic), so no output bytes *)
Corollary not_wf_error : forall ops, ~ wf_program ops -> exists er, assemble ops = Err er.
Proof.
  intros ops H. destruct (assemble ops) as [bytes|er|s] eqn:E.
  - exfalso. apply H. apply assemble_ok_iff_wf. eauto.
  - eauto.
  - exfalso. exact (assemble_no_panic _ _ E).
Qed.

(* ---------- declare_macros: every macro name is declared at most once in the scope ---------- *)
Definition macro_def (r : rawop) : list (string * mdef) :=
  match r with
  | ROp (AMacroDefI n ps body) => [(n, MI ps body)]
  | ROp (AMacroDefE n ps body) => [(n, ME (mkemacro ps body))]
  | _ => []
  end.
Definition macro_defs (ops : list rawop) : mtable := flat_map macro_def ops.
Definition macro_names (ops : list rawop) : list string := map fst (macro_defs ops).

Lemma mlookup_app : forall t u n,
  mlookup (t ++ u) n = match mlookup t n with Some d => Some d | None => mlookup u n end.
Proof.
  induction t as [|[k d] t IH]; intros u n; cbn [app mlookup]; [reflexivity|].
  destruct (String.eqb k n); auto.
Qed.

Lemma declare_macros_cons : forall x r t,
  declare_macros (x :: r) t =
    match macro_def x with
    | [] => declare_macros r t
    | (n, d) :: _ =>
        match mlookup t n with
        | Some _ => err1 "DuplicateMacro" n
        | None => declare_macros r (t ++ [(n, d)])
        end
    end.
Proof. intros [[c imm|l|e|n ps b|n ps b|n args]|l|bs] r t; reflexivity. Qed.

Lemma macro_def_shape : forall x, macro_def x = [] \/ exists n d, macro_def x = [(n, d)].
Proof. intros [[c imm|l|e|n ps b|n ps b|n args]|l|bs]; cbn [macro_def]; eauto. Qed.

Lemma declare_macros_spec : forall ops t m,
  declare_macros ops t = Ok m <->
  (m = t ++ macro_defs ops /\ NoDup (macro_names ops) /\
   forall n, In n (macro_names ops) -> mlookup t n = None).
Proof.
  unfold macro_names, macro_defs.
  induction ops as [|x r IH]; intros t m.
  - cbn [declare_macros flat_map map]. rewrite app_nil_r. split.
    + intros H. inversion H; subst. split; [reflexivity|]. split; [constructor|]. intros n [].
    + intros [-> _]. reflexivity.
  - rewrite declare_macros_cons. cbn [flat_map].
    destruct (macro_def_shape x) as [E|(n & d & E)]; rewrite E; cbn [app map fst].
    + apply IH.
    + destruct (mlookup t n) as [d0|] eqn:El.
      * split; [discriminate|]. intros (_ & _ & H). specialize (H n (or_introl eq_refl)). congruence.
      * rewrite IH. split.
        -- intros (-> & Hnd & Hn). split; [now rewrite <- app_assoc|].
           assert (Hx : forall k, In k (map fst (flat_map macro_def r)) -> k <> n /\ mlookup t k = None).
           { intros k Hk. specialize (Hn k Hk). rewrite mlookup_app in Hn.
             destruct (mlookup t k); [discriminate|]. cbn [mlookup] in Hn.
             split; [|reflexivity]. intros ->. rewrite String.eqb_refl in Hn. discriminate. }
           split.
           ++ constructor; [|exact Hnd]. intros Hin. now apply (Hx n Hin).
           ++ intros k [<-|Hk]; [exact El|]. now apply Hx.
        -- intros (-> & Hnd & Hn). split; [now rewrite <- app_assoc|].
           inversion Hnd as [|? ? Hni Hnd']; subst. split; [exact Hnd'|].
           intros k Hk. rewrite mlookup_app, (Hn k (or_intror Hk)). cbn [mlookup].
           destruct (String.eqb_spec n k) as [->|]; [contradiction|reflexivity].
Qed.

Corollary declare_macros_ok_iff : forall ops m,
  declare_macros ops [] = Ok m <-> (NoDup (macro_names ops) /\ m = macro_defs ops).
Proof.
  intros ops m. rewrite declare_macros_spec. cbn [app]. split.
  - intros (H1 & H2 & _). auto.
  - intros (H1 & H2). split; [exact H2|]. split; [exact H1|]. reflexivity.
Qed.

(* [wf_program] once more, with the macro table spelled out *)
Lemma wf_program_unfold' : forall ops,
  wf_program ops <->
  ((forall inner, In (RScope inner) ops -> wf_program inner) /\
   NoDup (macro_names ops) /\
   wf_scope (macro_defs ops) nested_bytes ops).
Proof.
  intros ops. rewrite wf_program_unfold. split.
  - intros (H1 & m & Hm & Hw). apply declare_macros_ok_iff in Hm as [Hn ->]. auto.
  - intros (H1 & Hn & Hw). split; [exact H1|]. exists (macro_defs ops). split; [|exact Hw].
    apply declare_macros_ok_iff. auto.
Qed.

(* the same for Ingest::ingest on a syntax tree: the parser's own constant range check first *)
Corollary ingest_ok_iff_wf : forall ops,
  (exists bytes, ingest_ast ops = Ok bytes) <-> (parse_check ops = Ok tt /\ wf_program ops).
Proof.
  intros ops. unfold ingest_ast. rewrite <- assemble_ok_iff_wf. split.
  - intros [bytes H]. destruct (parse_check ops) as [[]|er|s]; cbn [bind] in H; try discriminate. eauto.
  - intros [Hp [bytes H]]. rewrite Hp. cbn [bind]. eauto.
Qed.

(* ====================================================================================== *)
(* Part E: when does the expansion of an invocation exist?                                 *)
(* ====================================================================================== *)

(* the labels a macro body defines itself *)
Definition body_labels (body : list aop) : list string :=
  flat_map (fun a => match a with ALabel l => [l] | _ => [] end) body.

(* what matters of an op for the existence of its expansion: which macro it invokes, with how
   many arguments *)
Definition inv_sig (a : aop) : option (string * nat) :=
  match a with AMacro n args => Some (n, length args) | _ => None end.

Lemma existsb_fst_In : forall (ren : list (string * string)) l,
  existsb (fun p => String.eqb (fst p) l) ren = true <-> In l (map fst ren).
Proof.
  intros ren l. rewrite existsb_exists, in_map_iff. split.
  - intros [p [Hp E]]. apply String.eqb_eq in E. eauto.
  - intros [p [E Hp]]. exists p. split; [exact Hp|]. apply String.eqb_eq. exact E.
Qed.

(* the renaming pass succeeds iff no label is defined twice in the body *)
Lemma rename_pass_ok_iff_gen : forall n body ctr ren,
  (exists x, rename_pass n body ctr ren = Ok x) <->
  (NoDup (body_labels body) /\ forall l, In l (body_labels body) -> ~ In l (map fst ren)).
Proof.
  intros n. induction body as [|a r IH]; intros ctr ren.
  - cbn. split; [intros _; split; [constructor|intros l []]|eauto].
  - assert (Hpass : forall (r0 : res (list aop * N * list (string * string))) (hd : aop),
               (exists x, (do x <- r0 ; let '(r', c', ren') := x in Ok (hd :: r', c', ren')) = Ok x) <->
               (exists x, r0 = Ok x)).
    { intros r0 hd. split.
      - intros [x H]. destruct r0 as [y|er|s]; cbn [bind] in H; try discriminate. eauto.
      - intros [[[r' c'] ren'] H]. rewrite H. cbn [bind]. eauto. }
    destruct a as [c imm|l|e|m ps b|m ps b|m args]; cbn [rename_pass body_labels flat_map app];
      try (rewrite Hpass; apply IH).
    fold (body_labels r).
    destruct (existsb (fun p => String.eqb (fst p) l) ren) eqn:Ex.
    + apply existsb_fst_In in Ex. split; [intros [x H]; discriminate|].
      intros [_ H]. exfalso. exact (H l (or_introl eq_refl) Ex).
    + assert (Hn : ~ In l (map fst ren)).
      { intros Hin. apply existsb_fst_In in Hin. congruence. }
      rewrite Hpass, IH. rewrite map_app. cbn [map fst]. split.
      * intros [Hnd Hf]. split.
        -- constructor; [|exact Hnd]. intros Hin. apply (Hf l Hin). apply in_or_app. right. now left.
        -- intros k [<-|Hk]; [exact Hn|]. intros Hin. apply (Hf k Hk). apply in_or_app. now left.
      * intros [Hnd Hf]. inversion Hnd as [|? ? Hni Hnd']; subst. split; [exact Hnd'|].
        intros k Hk Hin. apply in_app_or in Hin as [Hin|[<-|[]]].
        -- exact (Hf k (or_intror Hk) Hin).
        -- contradiction.
Qed.

Lemma rename_pass_ok_iff : forall n body ctr,
  (exists x, rename_pass n body ctr [] = Ok x) <-> NoDup (body_labels body).
Proof.
  intros n body ctr. rewrite rename_pass_ok_iff_gen. cbn [map]. split; [tauto|]. intros H. split; [exact H|]. intros l _ [].
Qed.

Lemma rename_pass_sig : forall n body ctr ren body1 c1 ren1,
  rename_pass n body ctr ren = Ok (body1, c1, ren1) -> map inv_sig body1 = map inv_sig body.
Proof.
  intros n. induction body as [|a r IH]; intros ctr ren body1 c1 ren1 H.
  - cbn in H. inversion H; subst. reflexivity.
  - destruct a as [c imm|l|e|m ps b|m ps b|m args]; cbn [rename_pass] in H;
      try (destruct (rename_pass n r ctr ren) as [[[r' c'] ren']|er|s] eqn:E; cbn [bind] in H; try discriminate;
           inversion H; subst; cbn [map inv_sig]; f_equal; eapply IH; exact E).
    destruct (existsb _ ren); [discriminate|].
    destruct (rename_pass n r _ _) as [[[r' c'] ren']|er|s] eqn:E; cbn [bind] in H; try discriminate.
    inversion H; subst. cbn [map inv_sig]. f_equal. eapply IH; exact E.
Qed.

Lemma rewrite_op_sig : forall ren params a, inv_sig (rewrite_op ren params a) = inv_sig a.
Proof.
  intros ren params [c [e|]|l|e|m ps b|m ps b|m args]; cbn [rewrite_op inv_sig]; try reflexivity.
  now rewrite map_length.
Qed.

Section Expandable.
  Variable macros : mtable.

  (* the invocation can be expanded with nesting budget [fuel]: the macro is declared as an
     INSTRUCTION macro, the invocation has exactly as many arguments as the macro has
     parameters, the body defines no label twice, and every op of the body can be expanded
     with one level less *)
  Inductive expandable : nat -> aop -> Prop :=
  | E_flat : forall f a, is_flat a = true -> expandable f a
  | E_macro : forall f n args ps body,
      mlookup macros n = Some (MI ps body) ->
      length ps = length args ->
      NoDup (body_labels body) ->
      Forall (expandable f) body ->
      expandable (S f) (AMacro n args).

  Lemma expandable_sig : forall f a b, inv_sig a = inv_sig b -> expandable f a -> expandable f b.
  Proof.
    intros f a b E H. destruct H as [f a Hf|f n args ps body Hm Hl Hnd Hb].
    - apply E_flat. destruct a; try discriminate; destruct b; try discriminate; reflexivity.
    - destruct b as [c imm|l|e|m qs b|m qs b|m args']; try discriminate.
      cbn [inv_sig] in E. inversion E; subst. eapply E_macro; eauto. congruence.
  Qed.

  Lemma expandable_sig_all : forall f l1 l2, map inv_sig l1 = map inv_sig l2 ->
    Forall (expandable f) l1 -> Forall (expandable f) l2.
  Proof.
    intros f. induction l1 as [|a l1 IH]; intros [|b l2] E H; try discriminate; [constructor|].
    cbn [map] in E. inversion E. inversion H; subst. constructor; [eapply expandable_sig; eauto|eauto].
  Qed.

  Theorem expand_op_ok_iff : forall fuel c a,
    (exists r, expand_op macros fuel c a = Ok r) <-> expandable fuel a.
  Proof.
    induction fuel as [|f IH]; intros c a.
    - destruct (is_flat a) eqn:Ef.
      + split; [intros _; now apply E_flat|]. intros _. destruct a; try discriminate; cbn [expand_op]; eauto.
      + destruct a as [cd imm|l|e|n ps b|n ps b|n args]; try discriminate. cbn [expand_op]. split.
        * intros [r H]. destruct (mlookup macros n) as [[ps body|d]|]; try discriminate.
          destruct (negb _); discriminate.
        * intros H. inversion H; subst. discriminate.
    - destruct (is_flat a) eqn:Ef.
      + split; [intros _; now apply E_flat|]. intros _. destruct a; try discriminate; cbn [expand_op]; eauto.
      + destruct a as [cd imm|l|e|n ps b|n ps b|n args]; try discriminate. cbn [expand_op].
        (* the loop over the rewritten body *)
        assert (G : forall l c0,
                  (exists r, (fix go (l : list aop) (c : N) : res (list aop * N) :=
                     match l with
                     | [] => Ok ([], c)
                     | b :: r => do y <- expand_op macros f c b ; do z <- go r (snd y) ; Ok (fst y ++ fst z, snd z)
                     end) l c0 = Ok r) <-> Forall (expandable f) l).
        { induction l as [|b r IHl]; intros c0.
          - split; [intros _; constructor|eauto].
          - split.
            + intros [x H]. destruct (expand_op macros f c0 b) as [y|er|s] eqn:Eb; cbn [bind] in H; try discriminate.
              match type of H with bind ?g _ = _ => destruct g as [z|er|s] eqn:Er end; cbn [bind] in H; try discriminate.
              constructor; [apply (IH c0); eauto|apply (IHl (snd y)); eauto].
            + intros H. inversion H as [|? ? Hb Hr]; subst.
              destruct (proj2 (IH c0 b) Hb) as [y Ey]. rewrite Ey. cbn [bind].
              destruct (proj2 (IHl (snd y)) Hr) as [z Ez]. rewrite Ez. cbn [bind]. eauto. }
        split.
        * intros [r H]. destruct (mlookup macros n) as [[ps body|d]|] eqn:Em; try discriminate.
          destruct (Nat.eqb (length ps) (length args)) eqn:El; cbn [negb] in H; [|discriminate].
          apply PeanoNat.Nat.eqb_eq in El.
          destruct (rename_pass n body c []) as [[[body1 c1] ren]|er|s] eqn:Er; cbn [bind] in H; try discriminate.
          eapply E_macro; eauto.
          -- apply (rename_pass_ok_iff n body c). eauto.
          -- apply (expandable_sig_all f (map (rewrite_op ren (combine ps args)) body1)).
             ++ rewrite map_map. rewrite <- (rename_pass_sig _ _ _ _ _ _ _ Er).
                apply map_ext. intros x. apply rewrite_op_sig.
             ++ apply (G _ c1). eauto.
        * intros H. inversion H as [|? ? ? ps body Hm Hl Hnd Hb]; subst; [discriminate|].
          rewrite Hm. rewrite (proj2 (PeanoNat.Nat.eqb_eq _ _) Hl). cbn [negb].
          destruct (proj2 (rename_pass_ok_iff n body c) Hnd) as [[[body1 c1] ren] Er]. rewrite Er. cbn [bind].
          apply G. apply (expandable_sig_all f body); [|exact Hb].
          rewrite map_map. rewrite <- (rename_pass_sig _ _ _ _ _ _ _ Er).
          symmetry. apply map_ext. intros x. apply rewrite_op_sig.
  Qed.

  Lemma expandable_macro_iff : forall fuel n args,
    expandable fuel (AMacro n args) <->
    exists f ps body, fuel = S f /\ mlookup macros n = Some (MI ps body) /\
      length ps = length args /\ NoDup (body_labels body) /\ Forall (expandable f) body.
  Proof.
    intros fuel n args. split.
    - intros H. inversion H as [? ? Hf|f ? ? ps body Hm Hl Hnd Hb]; subst; [discriminate|].
      exists f, ps, body. auto.
    - intros (f & ps & body & -> & Hm & Hl & Hnd & Hb). eapply E_macro; eauto.
  Qed.

  (* the expansion of a scope exists iff every invocation in it can be expanded *)
  Theorem expand_raws_ok_iff : forall sub l c,
    (exists r, expand_raws macros sub c l = Ok r) <->
    (forall a, In (ROp a) l -> expandable EXPANSION_FUEL a).
  Proof.
    intros sub. induction l as [|x l IH]; intros c.
    - split; [intros _ a []|]. intros _. cbn. eauto.
    - assert (Hskip : forall it, (exists r, (do y <- expand_raws macros sub c l ; Ok (it :: fst y, snd y)) = Ok r) <->
                                 (exists r, expand_raws macros sub c l = Ok r)).
      { intros it. split.
        - intros [r H]. destruct (expand_raws macros sub c l) as [y|er|s]; cbn [bind] in H; try discriminate. eauto.
        - intros [y H]. rewrite H. cbn [bind]. eauto. }
      destruct x as [a|inner|bs]; cbn [expand_raws].
      + split.
        * intros [r H]. destruct (expand_op macros EXPANSION_FUEL c a) as [y|er|s] eqn:Ea; cbn [bind] in H; try discriminate.
          destruct (expand_raws macros sub (snd y) l) as [z|er|s] eqn:Er; cbn [bind] in H; try discriminate.
          intros b [E|Hin].
          -- inversion E; subst. apply (expand_op_ok_iff _ c). eauto.
          -- apply (proj1 (IH (snd y))); eauto.
        * intros H. destruct (proj2 (expand_op_ok_iff EXPANSION_FUEL c a) (H a (or_introl eq_refl))) as [y Ey].
          rewrite Ey. cbn [bind].
          destruct (proj2 (IH (snd y))) as [z Ez]; [intros b Hb; apply H; now right|].
          rewrite Ez. cbn [bind]. eauto.
      + rewrite Hskip, IH. split; intros H a Hin; [destruct Hin as [E|Hin]; [discriminate|]|]; apply H; auto. now right.
      + rewrite Hskip, IH. split; intros H a Hin; [destruct Hin as [E|Hin]; [discriminate|]|]; apply H; auto. now right.
  Qed.
End Expandable.
