(* Proofs/ParseTreeProofs.v -- the text -> tree step (Model/ParseTree.v) never panics on the pairs
   that the PEG interpreter can return for asm.pest: every `unwrap()` / `unreachable!()` / slice index
   of parse/mod.rs, macros.rs, expression.rs, args.rs is justified by the grammar.
   Method: Proofs/PegSemProofs.v gives a derivation `sem` for every successful parse; by induction on
   it, every pair satisfies the invariant `Q` of its rule (its conversion returns a value or an error
   value).  The facts about the shape of the children of each rule and about the text of the atomic
   rules are obtained from the four computable analyses (names / single / chars / strs) by vm_compute
   on the generated grammar, plus inversion of the few sequences whose ORDER matters. *)
From Coq Require Import Lia ZifyBool ZifyNat ZifyN.
From Verif Require Import Model.Base Model.Ops Model.Expr Model.ExprSimple Model.Parse Model.Asm
  Model.PegAst Gen.AsmGrammar Model.Peg Model.Ingest Model.ParseTree
  Spec.ExprSpec Proofs.ExprProofs Proofs.AsmTotalProofs Proofs.PegProofs Proofs.PegSemProofs.
Local Open Scope nat_scope.

Lemma parsed_text_never_panics : forall input ops,
  parse_text input = Ok ops -> forall s, ingest_ast ops <> Panic s.
Proof. intros input ops _ s. apply ingest_ast_no_panic. Qed.

(* ---------- the compiled grammar ---------- *)
Definition cg : cgrammar := compile asm_grammar.
Definition FUEL : nat := 400.
Definition body (n : string) : rexpr := match find_rule cg n with Some (_, b) => b | None => RAny end.

(* ---------- alignment of offsets and text ---------- *)
Definition aligned (input : list N) (pos : N) (s : list N) : Prop :=
  exists rest, skipn (N.to_nat pos) input = s ++ rest.

Lemma aligned_l : forall input pos s1 s2, aligned input pos (s1 ++ s2) -> aligned input pos s1.
Proof. intros input pos s1 s2 (rest & H). exists (s2 ++ rest). rewrite H, app_assoc. reflexivity. Qed.

Lemma skipn_more : forall A n (l s1 x : list A), skipn n l = s1 ++ x -> skipn (n + length s1) l = x.
Proof.
  induction n as [|n IH]; intros l s1 x H.
  - cbn [skipn] in H. subst l. cbn [Nat.add]. rewrite skipn_app, skipn_all, Nat.sub_diag. reflexivity.
  - destruct l as [|a l].
    + cbn [skipn] in H. destruct s1; [|discriminate]. cbn [app] in H. subst x. apply skipn_nil.
    + cbn [skipn Nat.add] in *. apply IH; exact H.
Qed.

Lemma aligned_r : forall input pos s1 s2, aligned input pos (s1 ++ s2) ->
  aligned input (pos + nlen s1)%N s2.
Proof.
  intros input pos s1 s2 (rest & H). exists rest.
  replace (N.to_nat (pos + nlen s1)) with (N.to_nat pos + length s1) by (unfold nlen; lia).
  apply skipn_more. rewrite H, app_assoc. reflexivity.
Qed.

Lemma slice_aligned : forall input pos s, aligned input pos s -> slice input pos (pos + nlen s)%N = s.
Proof.
  intros input pos s (rest & H). unfold slice. rewrite H.
  replace (N.to_nat (pos + nlen s - pos)) with (length s) by (unfold nlen; lia).
  rewrite firstn_app, firstn_all, Nat.sub_diag. cbn [firstn]. apply app_nil_r.
Qed.

(* ---------- digits ---------- *)
Definition digit_ok (r : N) (b : N) : bool :=
  match to_digit r (ascii_of_N b) with Some _ => true | None => false end.

Lemma to_digit_lt : forall r c d, to_digit r c = Some d -> (d < r)%N.
Proof.
  intros r c d H. unfold to_digit in H.
  destruct (if ((48 <=? N_of_ascii c)%N && (N_of_ascii c <=? 57)%N)%bool then _ else _) as [v|]; [|discriminate].
  destruct (v <? r)%N eqn:E; [|discriminate]. inversion H; subst. apply N.ltb_lt. exact E.
Qed.

Lemma digits_of_ok : forall r s, forallb (digit_ok r) s = true ->
  exists ds, digits_of r (str_of s) = Ok ds /\ forallb (fun d => (d <? r)%N) ds = true.
Proof.
  intros r. induction s as [|b s IH]; intro H.
  - exists []. split; reflexivity.
  - cbn [forallb] in H. apply andb_true_iff in H. destruct H as [Hb Hs].
    destruct (IH Hs) as (ds & E & F). unfold digit_ok in Hb.
    change (str_of (b :: s)) with (String (ascii_of_N b) (str_of s)). cbn [digits_of].
    destruct (to_digit r (ascii_of_N b)) as [d|] eqn:D; [|discriminate].
    rewrite E. cbn [bind]. exists (d :: ds). split; [reflexivity|].
    cbn [forallb]. rewrite F, andb_true_r. apply N.ltb_lt. eapply to_digit_lt; exact D.
Qed.

Lemma parse_radix_ok : forall r s, forallb (digit_ok r) s = true ->
  exists z, parse_radix_str (str_of s) r = Ok z.
Proof.
  intros r s H. destruct (digits_of_ok r s H) as (ds & E & F).
  unfold parse_radix_str. rewrite E. cbn [bind]. unfold from_radix_be. rewrite F. eexists; reflexivity.
Qed.

Lemma parse_negative_ok : forall s, forallb (digit_ok 10) s = true ->
  exists z, parse_negative_decimal (str_of (45%N :: s)) = Ok z.
Proof.
  intros s H. destruct (digits_of_ok 10 s H) as (ds & E & F).
  change (str_of (45%N :: s)) with (String (ascii_of_N 45) (str_of s)).
  unfold parse_negative_decimal. rewrite E. cbn [bind]. unfold from_radix_be. rewrite F. eexists; reflexivity.
Qed.

(* ---------- the invariant of every pair ---------- *)
Inductive kind := KE | KS | KPushMacro | KBuiltin | KPath | KWordSize | KString | KDecl | KMacroKid.

Definition table : list (string * kind) := [
  ("expression", KE); ("binary", KE); ("octal", KE); ("hex", KE); ("decimal", KE);
  ("negative_decimal", KE); ("label", KE); ("selector", KE); ("topic", KE);
  ("expression_macro", KE); ("instruction_macro_variable", KE);
  ("label_definition", KS); ("local_macro", KS); ("push", KS); ("op", KS);
  ("push_macro", KPushMacro); ("builtin", KBuiltin);
  ("import", KPath); ("include", KPath); ("include_hex", KPath);
  ("word_size", KWordSize); ("string", KString); ("function_declaration", KDecl);
  ("instruction_macro_definition", KMacroKid); ("instruction_macro", KMacroKid);
  ("expression_macro_definition", KMacroKid)].

Fixpoint classify_in (t : list (string * kind)) (n : string) : option kind :=
  match t with
  | [] => None
  | (k, v) :: r => if String.eqb k n then Some v else classify_in r n
  end.
Definition classify (n : string) : option kind := classify_in table n.

Lemma classify_in_In : forall t n k, classify_in t n = Some k -> In (n, k) t.
Proof.
  induction t as [|[k' v] t IH]; intros n k H; cbn [classify_in] in H; [discriminate|].
  destruct (String.eqb_spec k' n) as [->|_].
  - inversion H; subst. left; reflexivity.
  - right. apply IH; exact H.
Qed.

Section WithInput.
Variable input : list N.

Definition QK (k : kind) (p : pair) : Prop :=
  match k with
  | KE => exists e, conv_expr input p = Ok e
  | KS => forall st, conv_aop input p <> Panic st
  | KPushMacro => forall st, conv_push_macro input p <> Panic st
  | KBuiltin => forall st, conv_builtin input p <> Panic st
  | KPath => forall st, conv_path_args input p <> Panic st
  | KWordSize => exists n row, parse_usize (ptext input p) = Ok n /\ Ops.push cancun n = Some row /\
                               is_push_variant row = true
  | KString => 2 <= length (ptext input p)
  | KDecl => exists np, conv_decl input p = Ok np
  | KMacroKid => forall s e rest st, conv_aop input (Pair "local_macro" s e (p :: rest)) <> Panic st
  end.

Definition Q (p : pair) : Prop :=
  match classify (pname p) with Some k => QK k p | None => True end.

Lemma Q_use : forall p k, classify (pname p) = Some k -> Q p -> QK k p.
Proof. intros p k H HQ. unfold Q in HQ. rewrite H in HQ. exact HQ. Qed.

(* ---------- unfolding equations of the conversion on each rule name ---------- *)
Lemma conv_expr_decimal : forall s e ch, conv_expr input (Pair "decimal" s e ch) =
  (do z <- parse_radix_str (str_of (slice input s e)) 10 ; Ok (ENum z)).
Proof. reflexivity. Qed.
Lemma conv_expr_binary : forall s e ch, conv_expr input (Pair "binary" s e ch) = radix_lit (slice input s e) 2.
Proof. reflexivity. Qed.
Lemma conv_expr_octal : forall s e ch, conv_expr input (Pair "octal" s e ch) = radix_lit (slice input s e) 8.
Proof. reflexivity. Qed.
Lemma conv_expr_hex : forall s e ch, conv_expr input (Pair "hex" s e ch) = radix_lit (slice input s e) 16.
Proof. reflexivity. Qed.
Lemma conv_expr_negdec : forall s e ch, conv_expr input (Pair "negative_decimal" s e ch) =
  (do z <- parse_negative_decimal (str_of (slice input s e)) ; Ok (ENum z)).
Proof. reflexivity. Qed.
Lemma conv_expr_label : forall s e ch, conv_expr input (Pair "label" s e ch) = Ok (ELabel (str_of (slice input s e))).
Proof. reflexivity. Qed.
Lemma conv_expr_var : forall s e ch, conv_expr input (Pair "instruction_macro_variable" s e ch) =
  match slice input s e with
  | 36%N :: v => Ok (EVar (str_of v))
  | _ => Panic "strip_prefix('$').unwrap()"
  end.
Proof. reflexivity. Qed.
Lemma conv_expr_selector : forall s e ch, conv_expr input (Pair "selector" s e ch) =
  match ch with
  | c :: _ => Ok (ENum (selector_of 4 (ptext input c)))
  | [] => Panic "parse_selector: next().unwrap()"
  end.
Proof. reflexivity. Qed.
Lemma conv_expr_topic : forall s e ch, conv_expr input (Pair "topic" s e ch) =
  match ch with
  | c :: _ => Ok (ENum (selector_of 32 (ptext input c)))
  | [] => Panic "parse_selector: next().unwrap()"
  end.
Proof. reflexivity. Qed.
Lemma conv_expr_emacro : forall s e ch, conv_expr input (Pair "expression_macro" s e ch) =
  match ch with
  | nm :: args => do az <- sequence (map (conv_expr input) args) ; Ok (EMacro (pstr input nm) az)
  | [] => Panic "parse_expression_macro: next().unwrap()"
  end.
Proof. reflexivity. Qed.
Definition item_of (c : pair) : res (Parse.item expr) :=
  match binop_of_rule (pname c) with
  | Some o => Ok (Parse.IOp o)
  | None => do x <- conv_expr input c ; Ok (Parse.IPrim x)
  end.
Lemma conv_expr_expression : forall s e ch, conv_expr input (Pair "expression" s e ch) =
  (do its <- sequence (map item_of ch) ; Parse.climb its).
Proof. reflexivity. Qed.

(* ---------- tactics over derivations of concrete expressions ---------- *)
Ltac unfold_body H n :=
  let b := eval vm_compute in (body n) in change (body n) with b in H.
Ltac seq_split H s1 t1 s2 t2 Ha Hb :=
  apply sem_seq_inv in H; destruct H as (s1 & t1 & s2 & t2 & -> & -> & Ha & Hb).
Ltac be_quiet H :=
  apply (fun e m pos s ts D => quiet_sound cg e m pos s ts FUEL D) in H; [subst|vm_compute; reflexivity].

(* ---------- atomic rules: facts about the text ---------- *)
Lemma fr_decimal : find_rule cg "decimal" = Some (MAtomic, body "decimal"). Proof. vm_compute; reflexivity. Qed.
Lemma fr_binary : find_rule cg "binary" = Some (MAtomic, body "binary"). Proof. vm_compute; reflexivity. Qed.
Lemma fr_octal : find_rule cg "octal" = Some (MAtomic, body "octal"). Proof. vm_compute; reflexivity. Qed.
Lemma fr_hex : find_rule cg "hex" = Some (MAtomic, body "hex"). Proof. vm_compute; reflexivity. Qed.
Lemma fr_negdec : find_rule cg "negative_decimal" = Some (MAtomic, body "negative_decimal"). Proof. vm_compute; reflexivity. Qed.

Lemma R_decimal : forall m pos s ch, sem cg (body "decimal") m pos s ch -> aligned input pos s ->
  QK KE (Pair "decimal" pos (pos + nlen s)%N ch).
Proof.
  intros m pos s ch H A. cbn [QK]. rewrite conv_expr_decimal, (slice_aligned _ _ _ A).
  apply (chars_sound cg (digit_ok 10)) with (fuel := FUEL) in H; [|vm_compute; reflexivity].
  destruct (parse_radix_ok 10 s H) as (z & ->). eexists; reflexivity.
Qed.

Lemma radix_lit_ok : forall r a b s, forallb (digit_ok r) s = true -> exists e, radix_lit (a :: b :: s) r = Ok e.
Proof. intros r a b s H. cbn [radix_lit]. destruct (parse_radix_ok r s H) as (z & ->). eexists; reflexivity. Qed.

Lemma R_binary : forall m pos s ch, sem cg (body "binary") m pos s ch -> aligned input pos s ->
  QK KE (Pair "binary" pos (pos + nlen s)%N ch).
Proof.
  intros m pos s ch H A. cbn [QK]. rewrite conv_expr_binary, (slice_aligned _ _ _ A).
  unfold_body H "binary". seq_split H s1 t1 s2 t2 Ha Hb. apply sem_str_inv in Ha. destruct Ha as [-> ->].
  apply (chars_sound cg (digit_ok 2)) with (fuel := FUEL) in Hb; [|vm_compute; reflexivity].
  apply radix_lit_ok; exact Hb.
Qed.

Lemma R_octal : forall m pos s ch, sem cg (body "octal") m pos s ch -> aligned input pos s ->
  QK KE (Pair "octal" pos (pos + nlen s)%N ch).
Proof.
  intros m pos s ch H A. cbn [QK]. rewrite conv_expr_octal, (slice_aligned _ _ _ A).
  unfold_body H "octal". seq_split H s1 t1 s2 t2 Ha Hb. apply sem_str_inv in Ha. destruct Ha as [-> ->].
  apply (chars_sound cg (digit_ok 8)) with (fuel := FUEL) in Hb; [|vm_compute; reflexivity].
  apply radix_lit_ok; exact Hb.
Qed.

Lemma R_hex : forall m pos s ch, sem cg (body "hex") m pos s ch -> aligned input pos s ->
  QK KE (Pair "hex" pos (pos + nlen s)%N ch).
Proof.
  intros m pos s ch H A. cbn [QK]. rewrite conv_expr_hex, (slice_aligned _ _ _ A).
  unfold_body H "hex". seq_split H s1 t1 s2 t2 Ha Hb. apply sem_str_inv in Ha. destruct Ha as [-> ->].
  apply (chars_sound cg (digit_ok 16)) with (fuel := FUEL) in Hb; [|vm_compute; reflexivity].
  apply radix_lit_ok; exact Hb.
Qed.

Lemma R_negdec : forall m pos s ch, sem cg (body "negative_decimal") m pos s ch -> aligned input pos s ->
  QK KE (Pair "negative_decimal" pos (pos + nlen s)%N ch).
Proof.
  intros m pos s ch H A. cbn [QK]. rewrite conv_expr_negdec, (slice_aligned _ _ _ A).
  unfold_body H "negative_decimal". seq_split H s1 t1 s2 t2 Ha Hb. apply sem_str_inv in Ha. destruct Ha as [-> ->].
  apply (chars_sound cg (digit_ok 10)) with (fuel := FUEL) in Hb; [|vm_compute; reflexivity].
  destruct (parse_negative_ok s2 Hb) as (z & E). cbn [app]. rewrite E. eexists; reflexivity.
Qed.

Lemma R_var : forall m pos s ch, sem cg (body "instruction_macro_variable") m pos s ch -> aligned input pos s ->
  QK KE (Pair "instruction_macro_variable" pos (pos + nlen s)%N ch).
Proof.
  intros m pos s ch H A. cbn [QK]. rewrite conv_expr_var, (slice_aligned _ _ _ A).
  unfold_body H "instruction_macro_variable". seq_split H s1 t1 s2 t2 Ha Hb.
  apply sem_str_inv in Ha. destruct Ha as [-> ->]. cbn [app]. eexists; reflexivity.
Qed.

Lemma R_label : forall s e ch, QK KE (Pair "label" s e ch).
Proof. intros. cbn [QK]. rewrite conv_expr_label. eexists; reflexivity. Qed.

(* finite languages: word_size and op *)
Definition chk_ws (s : list N) : bool :=
  match parse_usize s with
  | Ok n => match Ops.push cancun n with Some row => is_push_variant row | None => false end
  | _ => false
  end.
Definition chk_op (s : list N) : bool :=
  match conv_plain_op s with Panic _ => false | _ => true end.
Lemma ws_all : exists L, strs cg FUEL (body "word_size") = Some L /\ forallb chk_ws L = true.
Proof. eexists. split; vm_compute; reflexivity. Qed.
Lemma op_all : exists L, strs cg FUEL (body "op") = Some L /\ forallb chk_op L = true.
Proof. eexists. split; vm_compute; reflexivity. Qed.

Lemma all_strs_use : forall e chk m pos s ch, (exists L, strs cg FUEL e = Some L /\ forallb chk L = true) ->
  sem cg e m pos s ch -> chk s = true.
Proof.
  intros e chk m pos s ch (L & E & HA) H.
  rewrite forallb_forall in HA. apply HA. eapply strs_sound; [exact H|exact E].
Qed.

Lemma R_word_size : forall m pos s ch, sem cg (body "word_size") m pos s ch -> aligned input pos s ->
  QK KWordSize (Pair "word_size" pos (pos + nlen s)%N ch).
Proof.
  intros m pos s ch H A. cbn [QK ptext]. rewrite (slice_aligned _ _ _ A).
  pose proof (all_strs_use _ _ _ _ _ _ ws_all H) as C. unfold chk_ws in C.
  destruct (parse_usize s) as [n| |]; try discriminate.
  destruct (Ops.push cancun n) as [row|] eqn:E; try discriminate. exists n, row. repeat split; assumption.
Qed.

Lemma conv_aop_op : forall s e ch, conv_aop input (Pair "op" s e ch) = conv_plain_op (slice input s e).
Proof. reflexivity. Qed.

Lemma R_op : forall m pos s ch, sem cg (body "op") m pos s ch -> aligned input pos s ->
  QK KS (Pair "op" pos (pos + nlen s)%N ch).
Proof.
  intros m pos s ch H A. cbn [QK]. rewrite conv_aop_op, (slice_aligned _ _ _ A).
  pose proof (all_strs_use _ _ _ _ _ _ op_all H) as C. unfold chk_op in C.
  intros st E. rewrite E in C. discriminate.
Qed.

Lemma R_string : forall m pos s ch, sem cg (body "string") m pos s ch -> aligned input pos s ->
  QK KString (Pair "string" pos (pos + nlen s)%N ch).
Proof.
  intros m pos s ch H A. cbn [QK ptext]. rewrite (slice_aligned _ _ _ A).
  unfold_body H "string". seq_split H s1 t1 s2 t2 Ha Hb. seq_split Hb s3 t3 s4 t4 Hc Hd.
  apply sem_str_inv in Ha. destruct Ha as [-> ->]. apply sem_str_inv in Hd. destruct Hd as [-> ->].
  rewrite !app_length. cbn [length]. lia.
Qed.

(* ---------- shapes ---------- *)
Lemma one_named : forall e m pos s ts L, sem cg e m pos s ts ->
  single cg FUEL e m = true -> names cg FUEL e m = Some L -> exists p, ts = [p] /\ In (pname p) L.
Proof.
  intros e m pos s ts L H HS HN. destruct (single_sound cg _ _ _ _ _ H _ HS) as (p & ->).
  pose proof (names_sound cg _ _ _ _ _ H _ _ HN) as F. inversion F; subst. exists p. split; [reflexivity|].
  destruct p; assumption.
Qed.

Lemma all_named : forall e m pos s ts L, sem cg e m pos s ts ->
  names cg FUEL e m = Some L -> Forall (fun p => In (pname p) L) ts.
Proof.
  intros e m pos s ts L H HN. pose proof (names_sound cg _ _ _ _ _ H _ _ HN) as F.
  eapply Forall_impl; [|exact F]. intros [n a b c] Hp. exact Hp.
Qed.

Ltac be_one H p Hp :=
  eapply one_named in H; [|vm_compute; reflexivity|vm_compute; reflexivity];
  destruct H as (p & -> & Hp); cbn [In] in Hp.
Ltac be_named H :=
  eapply all_named in H; [|vm_compute; reflexivity].

Lemma sequence_ok : forall A B (f : A -> res B) l,
  Forall (fun x => exists v, f x = Ok v) l -> exists vs, sequence (map f l) = Ok vs.
Proof.
  intros A B f l H. induction H as [|x l (v & E) _ (vs & IH)]; cbn [map sequence].
  - eexists; reflexivity.
  - rewrite E, IH. cbn [bind]. eexists; reflexivity.
Qed.

(* arguments of an invocation: every pair named `expression` converts *)
Lemma args_ok : forall args L, Forall Q args -> Forall (fun p => In (pname p) L) args ->
  (forall n, In n L -> n = "expression") ->
  exists az, sequence (map (conv_expr input) args) = Ok az.
Proof.
  intros args L HQ HN HL. apply sequence_ok. rewrite Forall_forall in *. intros a Ha.
  pose proof (HL _ (HN a Ha)) as En. apply (Q_use a KE); [rewrite En; reflexivity|apply HQ; exact Ha].
Qed.

(* ---- unfolding equations of conv_aop / conv_builtin ---- *)
Lemma conv_aop_labeldef : forall s e ch, conv_aop input (Pair "label_definition" s e ch) =
  match ch with
  | l :: _ => Ok (ALabel (pstr input l))
  | [] => Panic "label_definition: next().unwrap()"
  end.
Proof. reflexivity. Qed.
Lemma conv_aop_push : forall s e ch, conv_aop input (Pair "push" s e ch) = conv_push input (Pair "push" s e ch).
Proof. reflexivity. Qed.
Lemma conv_aop_imacro : forall s e s0 e0 ch0 rest,
  conv_aop input (Pair "local_macro" s e (Pair "instruction_macro" s0 e0 ch0 :: rest)) =
  match ch0 with
  | [] => Panic "parse_instruction_macro: next().unwrap()"
  | nm :: args => do az <- sequence (map (conv_expr input) args) ; Ok (AMacro (pstr input nm) az)
  end.
Proof. reflexivity. Qed.
Lemma conv_aop_edef : forall s e s0 e0 ch0 rest,
  conv_aop input (Pair "local_macro" s e (Pair "expression_macro_definition" s0 e0 ch0 :: rest)) =
  match ch0 with
  | [] => Panic "parse_expression_macro_defn: next().unwrap()"
  | decl :: rest =>
      do np <- conv_decl input decl ;
      match rest with
      | [] => Panic "parse_expression_macro_defn: content unwrap()"
      | c :: _ => do b <- conv_expr input c ; Ok (AMacroDefE (fst np) (snd np) b)
      end
  end.
Proof. reflexivity. Qed.
Definition conv_contents : list pair -> res (list aop) :=
  fix go (l : list pair) : res (list aop) :=
    match l with
    | [] => Ok []
    | b :: r =>
        do a <- (if String.eqb (pname b) "push_macro" then conv_push_macro input b else conv_aop input b) ;
        do ar <- go r ; Ok (a :: ar)
    end.
Lemma conv_aop_idef : forall s e s0 e0 ch0 rest,
  conv_aop input (Pair "local_macro" s e (Pair "instruction_macro_definition" s0 e0 ch0 :: rest)) =
  match ch0 with
  | [] => Panic "parse_instruction_macro_defn: next().unwrap()"
  | decl :: body =>
      do np <- conv_decl input decl ;
      do contents <- conv_contents body ;
      Ok (AMacroDefI (fst np) (snd np) contents)
  end.
Proof. reflexivity. Qed.

Lemma in_names : forall (n : string) L, In n L -> existsb (String.eqb n) L = true.
Proof. intros n L H. apply existsb_exists. exists n. split; [exact H|apply String.eqb_refl]. Qed.

(* a member of a concrete list of names: one case per name *)
Ltac name_cases Hp :=
  cbn [In] in Hp; repeat (destruct Hp as [Hp|Hp]; [symmetry in Hp|]); try contradiction.

Lemma R_labeldef : forall m pos s ch, is_atomic m = false ->
  sem cg (body "label_definition") m pos s ch -> QK KS (Pair "label_definition" pos (pos + nlen s)%N ch).
Proof.
  intros m pos s ch Hm H. cbn [QK]. rewrite conv_aop_labeldef.
  unfold_body H "label_definition". seq_split H s1 t1 s2 t2 Ha Hb.
  destruct m; try discriminate; (be_one Ha p Hp; cbn [app]; intros st E; discriminate).
Qed.

Lemma R_selector : forall pos s ch,
  sem cg (body "selector") CompoundAtomic pos s ch -> QK KE (Pair "selector" pos (pos + nlen s)%N ch).
Proof.
  intros pos s ch H. cbn [QK]. rewrite conv_expr_selector.
  unfold_body H "selector". seq_split H s1 t1 s2 t2 Ha Hb. seq_split Hb s3 t3 s4 t4 Hc Hd.
  apply sem_str_inv in Ha. destruct Ha as [-> ->]. be_one Hc p Hp. cbn [app]. eexists; reflexivity.
Qed.

Lemma R_topic : forall pos s ch,
  sem cg (body "topic") CompoundAtomic pos s ch -> QK KE (Pair "topic" pos (pos + nlen s)%N ch).
Proof.
  intros pos s ch H. cbn [QK]. rewrite conv_expr_topic.
  unfold_body H "topic". seq_split H s1 t1 s2 t2 Ha Hb. seq_split Hb s3 t3 s4 t4 Hc Hd.
  apply sem_str_inv in Ha. destruct Ha as [-> ->]. be_one Hc p Hp. cbn [app]. eexists; reflexivity.
Qed.

(* function_invocation = function_name ~ "(" ~ expression* ~ ("," ~ expression)* ~ ")" *)
Lemma invocation_shape : forall m pos s ts, is_atomic m = false ->
  sem cg (body "function_invocation") m pos s ts ->
  exists nm args, ts = nm :: args /\ Forall (fun p => pname p = "expression") args.
Proof.
  intros m pos s ts Hm H. unfold_body H "function_invocation". seq_split H s1 t1 s2 t2 Ha Hb.
  destruct m; try discriminate.
  - be_one Ha p Hp. be_named Hb. exists p, t2. split; [reflexivity|].
    eapply Forall_impl; [|exact Hb]. intros a Hin. name_cases Hin; exact Hin.
  - be_one Ha p Hp. be_named Hb. exists p, t2. split; [reflexivity|].
    eapply Forall_impl; [|exact Hb]. intros a Hin. name_cases Hin; exact Hin.
Qed.

Lemma exprs_ok : forall args, Forall Q args -> Forall (fun p => pname p = "expression") args ->
  exists az, sequence (map (conv_expr input) args) = Ok az.
Proof.
  intros args HQ HN. apply sequence_ok. rewrite Forall_forall in *. intros a Ha.
  apply (Q_use a KE); [rewrite (HN a Ha); reflexivity|apply HQ; exact Ha].
Qed.

Lemma fr_finv : find_rule cg "function_invocation" = Some (MSilent, body "function_invocation").
Proof. vm_compute; reflexivity. Qed.

Lemma R_emacro : forall m pos s ch, is_atomic m = false ->
  sem cg (body "expression_macro") m pos s ch -> Forall Q ch ->
  QK KE (Pair "expression_macro" pos (pos + nlen s)%N ch).
Proof.
  intros m pos s ch Hm H HQ. cbn [QK]. rewrite conv_expr_emacro.
  unfold_body H "expression_macro". apply sem_ref_inv in H. destruct H as (md & b & ch' & F & D & ->).
  rewrite fr_finv in F. inversion F; subst md b. cbn [emits] in *.
  assert (Hm' : is_atomic (inner_mode "function_invocation" MSilent m) = false) by (destruct m; try discriminate; reflexivity).
  destruct (invocation_shape _ _ _ _ Hm' D) as (nm & args & -> & HA).
  inversion HQ; subst. destruct (exprs_ok args H2 HA) as (az & ->). eexists; reflexivity.
Qed.

Lemma R_imacro : forall pos s ch,
  sem cg (body "instruction_macro") NonAtomic pos s ch -> Forall Q ch ->
  QK KMacroKid (Pair "instruction_macro" pos (pos + nlen s)%N ch).
Proof.
  intros pos s ch H HQ. cbn [QK]. intros s0 e0 rest st. rewrite conv_aop_imacro.
  unfold_body H "instruction_macro". seq_split H s1 t1 s2 t2 Ha Hb. seq_split Hb s3 t3 s4 t4 Hc Hd.
  apply sem_str_inv in Ha. destruct Ha as [-> ->]. be_quiet Hc.
  apply sem_ref_inv in Hd. destruct Hd as (md & b & ch' & F & D & ->).
  rewrite fr_finv in F. inversion F; subst md b. cbn [emits app] in *.
  assert (Hm' : is_atomic (inner_mode "function_invocation" MSilent NonAtomic) = false) by reflexivity.
  destruct (invocation_shape _ _ _ _ Hm' D) as (nm & args & -> & HA).
  inversion HQ; subst. destruct (exprs_ok args H2 HA) as (az & ->). discriminate.
Qed.

Lemma R_decl : forall m pos s ch, is_atomic m = false ->
  sem cg (body "function_declaration") m pos s ch ->
  QK KDecl (Pair "function_declaration" pos (pos + nlen s)%N ch).
Proof.
  intros m pos s ch Hm H. cbn [QK]. unfold conv_decl. cbn [pkids].
  unfold_body H "function_declaration". seq_split H s1 t1 s2 t2 Ha Hb.
  destruct m; try discriminate; (be_one Ha p Hp; cbn [app]; eexists; reflexivity).
Qed.

Lemma bind_nopanic : forall A B (r : res A) (k : A -> res B),
  (forall st, r <> Panic st) -> (forall a st, k a <> Panic st) -> forall st, bind r k <> Panic st.
Proof. intros A B [a|e|p] k H1 H2 st; cbn [bind]; [apply H2|discriminate|exfalso; apply (H1 p); reflexivity]. Qed.

Lemma Forall_Q_cons : forall a l, Forall Q (a :: l) -> Q a /\ Forall Q l.
Proof. intros a l H. inversion H; subst. split; assumption. Qed.

(* %import / %include / %include_hex: the conversion itself looks at the kind of the argument *)
Lemma path_ok : forall p, Forall Q (pkids p) -> forall st, conv_path_args input p <> Panic st.
Proof.
  intros p HQ st. unfold conv_path_args. destruct (pkids p) as [|a rest]; [discriminate|].
  apply Forall_Q_cons in HQ. destruct HQ as [Qa _].
  destruct (String.eqb_spec (pname a) "string") as [E|NE]; cbn [negb]; [|discriminate].
  apply (Q_use a KString) in Qa; [|rewrite E; reflexivity]. cbn [QK] in Qa.
  destruct (existsb (N.eqb 92) (ptext input a)); [discriminate|].
  destruct (ptext input a) as [|x [|y r]]; cbn [length] in Qa; try lia.
  destruct rest; discriminate.
Qed.

Lemma push_macro_ok : forall p, Forall Q (pkids p) -> forall st, conv_push_macro input p <> Panic st.
Proof.
  intros p HQ st. unfold conv_push_macro. destruct (pkids p) as [|a rest]; [discriminate|].
  destruct rest; [|discriminate]. apply Forall_Q_cons in HQ. destruct HQ as [Qa _].
  destruct (String.eqb_spec (pname a) "expression") as [E|NE]; [|discriminate].
  apply (Q_use a KE) in Qa; [|rewrite E; reflexivity]. destruct Qa as (e & ->). discriminate.
Qed.

Lemma R_builtin : forall pos s ch, sem cg (body "builtin") CompoundAtomic pos s ch -> Forall Q ch ->
  QK KBuiltin (Pair "builtin" pos (pos + nlen s)%N ch).
Proof.
  intros pos s ch H HQ. cbn [QK]. unfold_body H "builtin". seq_split H s1 t1 s2 t2 Ha Hb.
  apply sem_str_inv in Ha. destruct Ha as [-> ->]. be_one Hb p Hp. cbn [app] in *.
  apply Forall_Q_cons in HQ. destruct HQ as [Qp _].
  unfold conv_builtin. cbn [pkids].
  destruct (String.eqb_spec (pname p) "import") as [E|N1].
  { apply (Q_use p KPath) in Qp; [|rewrite E; reflexivity]. apply bind_nopanic; [exact Qp|discriminate]. }
  destruct (String.eqb_spec (pname p) "include") as [E|N2].
  { apply (Q_use p KPath) in Qp; [|rewrite E; reflexivity]. apply bind_nopanic; [exact Qp|discriminate]. }
  destruct (String.eqb_spec (pname p) "include_hex") as [E|N3].
  { apply (Q_use p KPath) in Qp; [|rewrite E; reflexivity]. apply bind_nopanic; [exact Qp|discriminate]. }
  destruct (String.eqb_spec (pname p) "push_macro") as [E|N4].
  { apply (Q_use p KPushMacro) in Qp; [|rewrite E; reflexivity]. apply bind_nopanic; [exact Qp|discriminate]. }
  exfalso. name_cases Hp; congruence.
Qed.

Lemma R_local_macro : forall m pos s ch, is_atomic m = false ->
  sem cg (body "local_macro") m pos s ch -> Forall Q ch ->
  QK KS (Pair "local_macro" pos (pos + nlen s)%N ch).
Proof.
  intros m pos s ch Hm H HQ. cbn [QK]. unfold_body H "local_macro".
  seq_split H s1 t1 s2 t2 Ha Hb. seq_split Hb s3 t3 s4 t4 Hc Hd.
  apply sem_not_inv in Ha. destruct Ha as [-> ->].
  destruct m; try discriminate.
  - be_quiet Hc. be_one Hd p Hp. cbn [app] in *. apply Forall_Q_cons in HQ. destruct HQ as [Qp _].
    name_cases Hp; (apply (Q_use p KMacroKid) in Qp; [|rewrite Hp; reflexivity]); apply Qp.
  - be_quiet Hc. be_one Hd p Hp. cbn [app] in *. apply Forall_Q_cons in HQ. destruct HQ as [Qp _].
    name_cases Hp; (apply (Q_use p KMacroKid) in Qp; [|rewrite Hp; reflexivity]); apply Qp.
Qed.

Lemma push_check_nopanic : forall c e st, parse_push_check c e <> Panic st.
Proof.
  intros c e st. unfold parse_push_check.
  destruct (eval no_labels (fun _ => None) 0 None e); try discriminate.
  destruct (256 ^ Z.of_nat (extra_of c) <=? a)%Z; discriminate.
Qed.

Lemma R_push : forall pos s ch, sem cg (body "push") CompoundAtomic pos s ch -> Forall Q ch ->
  QK KS (Pair "push" pos (pos + nlen s)%N ch).
Proof.
  intros pos s ch H HQ. cbn [QK]. rewrite conv_aop_push. unfold_body H "push".
  seq_split H s1 t1 s2 t2 Ha Hb. seq_split Hb s3 t3 s4 t4 Hc Hd. seq_split Hd s5 t5 s6 t6 He Hf.
  apply sem_str_inv in Ha. destruct Ha as [-> ->]. be_one Hc ws Hws. be_quiet He. be_one Hf xp Hex.
  cbn [app] in *. apply Forall_Q_cons in HQ. destruct HQ as [Qws HQ]. apply Forall_Q_cons in HQ. destruct HQ as [Qex _].
  name_cases Hws. name_cases Hex.
  apply (Q_use ws KWordSize) in Qws; [|rewrite Hws; reflexivity].
  apply (Q_use xp KE) in Qex; [|rewrite Hex; reflexivity].
  destruct Qws as (n & row & E1 & E2 & E3). destruct Qex as (e & E4).
  unfold conv_push. cbn [pkids]. rewrite E1. cbn [bind]. rewrite E2, E4. cbn [bind].
  intros st. apply bind_nopanic; [apply push_check_nopanic|]. intros _ st'. rewrite E3. discriminate.
Qed.

Lemma contents_ok : forall l,
  Forall Q l -> Forall (fun p => In (pname p) ["label_definition"; "push_macro"; "local_macro"; "push"; "op"]) l ->
  forall st, conv_contents l <> Panic st.
Proof.
  induction l as [|b r IH]; intros HQ HN st; [discriminate|].
  apply Forall_Q_cons in HQ. destruct HQ as [Qb HQ]. inversion HN as [|? ? Hb HN']; subst.
  change (conv_contents (b :: r)) with
    (do a <- (if String.eqb (pname b) "push_macro" then conv_push_macro input b else conv_aop input b) ;
     do ar <- conv_contents r ; Ok (a :: ar)).
  apply bind_nopanic.
  - name_cases Hb; rewrite Hb; cbn [String.eqb Ascii.eqb Bool.eqb andb];
      first [apply (Q_use b KPushMacro); [rewrite Hb; reflexivity|exact Qb]
            |apply (Q_use b KS); [rewrite Hb; reflexivity|exact Qb]].
  - intros a st'. apply bind_nopanic; [apply IH; assumption|discriminate].
Qed.

Lemma R_idef : forall m pos s ch, is_atomic m = false ->
  sem cg (body "instruction_macro_definition") m pos s ch -> Forall Q ch ->
  QK KMacroKid (Pair "instruction_macro_definition" pos (pos + nlen s)%N ch).
Proof.
  intros m pos s ch Hm H HQ. cbn [QK]. intros s0 e0 rest st. rewrite conv_aop_idef.
  unfold_body H "instruction_macro_definition".
  seq_split H s1 t1 s2 t2 Ha Hb. seq_split Hb s3 t3 s4 t4 Hc Hd. seq_split Hd s5 t5 s6 t6 He Hf.
  apply sem_str_inv in Ha. destruct Ha as [-> ->].
  assert (exists d, t3 ++ t5 ++ t6 = d :: t6 /\ pname d = "function_declaration" /\
          Forall (fun p => In (pname p) ["label_definition"; "push_macro"; "local_macro"; "push"; "op"]) t6) as (d & E & Hd & Hn).
  { destruct m; try discriminate.
    - be_quiet Hc. be_one He d Hd. be_named Hf. exists d. split; [reflexivity|]. split; [name_cases Hd; exact Hd|].
      eapply Forall_impl; [|exact Hf]. intros a Hin. name_cases Hin; rewrite Hin; cbn [In]; tauto.
    - be_quiet Hc. be_one He d Hd. be_named Hf. exists d. split; [reflexivity|]. split; [name_cases Hd; exact Hd|].
      eapply Forall_impl; [|exact Hf]. intros a Hin. name_cases Hin; rewrite Hin; cbn [In]; tauto. }
  cbn [app] in *. rewrite E in *. apply Forall_Q_cons in HQ. destruct HQ as [Qd HQ].
  apply (Q_use d KDecl) in Qd; [|rewrite Hd; reflexivity]. destruct Qd as (np & ->). cbn [bind].
  revert st. apply bind_nopanic; [apply contents_ok; assumption|discriminate].
Qed.

Lemma R_edef : forall pos s ch,
  sem cg (body "expression_macro_definition") NonAtomic pos s ch -> Forall Q ch ->
  QK KMacroKid (Pair "expression_macro_definition" pos (pos + nlen s)%N ch).
Proof.
  intros pos s ch H HQ. cbn [QK]. intros s0 e0 rest st. rewrite conv_aop_edef.
  unfold_body H "expression_macro_definition".
  seq_split H s1 t1 s2 t2 Ha Hb. seq_split Hb s3 t3 s4 t4 Hc Hd. seq_split Hd s5 t5 s6 t6 He Hf.
  seq_split Hf s7 t7 s8 t8 Hg Hh. seq_split Hh s9 t9 s10 t10 Hi Hj. seq_split Hj s11 t11 s12 t12 Hk Hl.
  seq_split Hl s13 t13 s14 t14 Hm Hn.
  apply sem_str_inv in Ha. destruct Ha as [-> ->]. be_quiet Hc. be_one He d Hd. be_quiet Hg. be_quiet Hi.
  be_quiet Hk. be_one Hm xp Hx. cbn [app] in *.
  apply Forall_Q_cons in HQ. destruct HQ as [Qd HQ]. apply Forall_Q_cons in HQ. destruct HQ as [Qx _].
  name_cases Hd. name_cases Hx.
  apply (Q_use d KDecl) in Qd; [|rewrite Hd; reflexivity]. destruct Qd as (np & ->). cbn [bind].
  apply (Q_use xp KE) in Qx; [|rewrite Hx; reflexivity]. destruct Qx as (b & ->). discriminate.
Qed.

(* ---- expression = term ~ (operation ~ term)* : operands and operators alternate ---- *)
Definition isop (p : pair) : bool := match binop_of_rule (pname p) with Some _ => true | None => false end.
Definition TERMS : list string :=
  ["instruction_macro_variable"; "selector"; "topic"; "expression_macro"; "label"; "binary"; "octal";
   "hex"; "decimal"; "negative_decimal"; "expression"].
Definition block (ts : list pair) : Prop :=
  exists o t, ts = [o; t] /\ isop o = true /\ In (pname t) TERMS.

Lemma term_item : forall t, In (pname t) TERMS -> Q t -> exists x, item_of t = Ok (Parse.IPrim x).
Proof.
  intros t Ht Qt. unfold item_of.
  assert (binop_of_rule (pname t) = None /\ classify (pname t) = Some KE) as [E1 E2]
    by (unfold TERMS in Ht; name_cases Ht; rewrite Ht; split; reflexivity).
  rewrite E1. apply (Q_use t KE E2) in Qt. destruct Qt as (x & ->). eexists; reflexivity.
Qed.

Lemma op_item : forall o, isop o = true -> exists b, item_of o = Ok (Parse.IOp b).
Proof. intros o H. unfold item_of, isop in *. destruct (binop_of_rule (pname o)); [eexists; reflexivity|discriminate]. Qed.

Lemma blocks_items : forall blocks, Forall block blocks -> Forall Q (concat blocks) ->
  exists its, sequence (map item_of (concat blocks)) = Ok its /\
              map is_op_item its = flat_map (fun _ => [true; false]) blocks.
Proof.
  induction blocks as [|b r IH]; intros HB HQ.
  - exists []. split; reflexivity.
  - inversion HB as [|? ? (o & t & -> & Ho & Ht) HB']; subst. cbn [concat app] in *.
    apply Forall_Q_cons in HQ. destruct HQ as [_ HQ]. apply Forall_Q_cons in HQ. destruct HQ as [Qt HQ].
    destruct (IH HB' HQ) as (its & E & F). destruct (op_item o Ho) as (bo & Eo). destruct (term_item t Ht Qt) as (x & Et).
    cbn [map sequence]. rewrite Eo, Et, E. cbn [bind]. eexists. split; [reflexivity|].
    cbn [map is_op_item flat_map app]. rewrite F. reflexivity.
Qed.

Lemma shape_blocks : forall A (blocks : list A), shape_ok (false :: flat_map (fun _ => [true; false]) blocks) = true.
Proof. induction blocks as [|b r IH]; [reflexivity|]. cbn [flat_map app shape_ok]. exact IH. Qed.

Definition opterm : rexpr := RSeq (RRef "operation") (RSeq RSkip (RRef "term")).

Lemma opterm_block : forall pos s ts, sem cg opterm NonAtomic pos s ts -> block ts.
Proof.
  intros pos s ts H. unfold opterm in H. seq_split H s1 t1 s2 t2 Ha Hb. seq_split Hb s3 t3 s4 t4 Hc Hd.
  be_one Ha o Ho. be_quiet Hc. be_one Hd t Ht. cbn [app]. exists o, t. split; [reflexivity|]. split.
  - unfold isop. name_cases Ho; rewrite Ho; reflexivity.
  - unfold TERMS. name_cases Ht; rewrite Ht; cbn [In]; tauto.
Qed.

Lemma R_expression : forall pos s ch,
  sem cg (body "expression") NonAtomic pos s ch -> Forall Q ch ->
  QK KE (Pair "expression" pos (pos + nlen s)%N ch).
Proof.
  intros pos s ch H HQ. cbn [QK]. rewrite conv_expr_expression.
  unfold_body H "expression". fold opterm in H.
  seq_split H s1 t1 s2 t2 Ha Hb. seq_split Hb s3 t3 s4 t4 Hc Hd.
  be_one Ha t0 Ht0. be_quiet Hc. cbn [app] in *.
  assert (exists blocks, t4 = concat blocks /\ Forall block blocks) as (blocks & -> & HB).
  { apply sem_opt_inv in Hd. destruct Hd as [Hd|[_ ->]]; [|exists []; split; [reflexivity|constructor]].
    seq_split Hd s5 t5 s6 t6 He Hf. apply opterm_block in He.
    destruct (sem_star_rounds cg (RSeq RSkip opterm) NonAtomic (fun _ ts => block ts)) with (e := RStar (RSeq RSkip opterm)) (pos := (pos + nlen s1 + nlen s3 + nlen s5)%N) (s := s6) (ts := t6)
      as (rounds & _ & -> & HR); [|exact Hf|reflexivity|].
    - intros p0 s0 ts0 D. seq_split D s7 t7 s8 t8 Dg Dh. be_quiet Dg. cbn [app]. eapply opterm_block; exact Dh.
    - exists (t5 :: map snd rounds). split; [reflexivity|]. constructor; [exact He|].
      rewrite Forall_map. exact HR. }
  apply Forall_Q_cons in HQ. destruct HQ as [Q0 HQ].
  assert (Ht0' : In (pname t0) TERMS) by (unfold TERMS; name_cases Ht0; rewrite Ht0; cbn [In]; tauto).
  destruct (term_item t0 Ht0' Q0) as (x0 & E0). destruct (blocks_items blocks HB HQ) as (its & E & F).
  cbn [map sequence]. rewrite E0, E. cbn [bind].
  assert (S : shape_ok (map is_op_item (Parse.IPrim x0 :: its)) = true)
    by (cbn [map is_op_item]; rewrite F; apply shape_blocks).
  destruct (shape_two_level expr mk_binop _ S) as (e & E2). rewrite (climb_two_level _ _ E2). eexists; reflexivity.
Qed.

(* ---------- every pair of a derivation satisfies its invariant ---------- *)
Definition mdof (n : string) : modifier := match find_rule cg n with Some (md, _) => md | None => MSilent end.
Lemma fr_md : forall n md b, find_rule cg n = Some (md, b) -> md = mdof n /\ b = body n.
Proof. intros n md b H. unfold mdof, body. rewrite H. split; reflexivity. Qed.

Ltac norm_rule n H0 Em :=
  let v := eval vm_compute in (mdof n) in change (mdof n) with v in *;
  match type of H0 with sem _ _ ?im _ _ _ => let w := eval cbv in im in change im with w in H0 end;
  cbn [emits negb] in Em.

Lemma not_atomic : forall m, negb (is_atomic m) = true -> is_atomic m = false.
Proof. intros [] H; try reflexivity; discriminate. Qed.

Lemma sem_Q : forall e m pos s ts, sem cg e m pos s ts -> aligned input pos s -> Forall Q ts.
Proof.
  intros e m pos s ts H. induction H; intro A; try (constructor; fail).
  - destruct (emits md m) eqn:Em; [|apply IHsem; exact A].
    constructor; [|constructor]. specialize (IHsem A).
    unfold Q. cbn [pname]. destruct (classify n) as [k|] eqn:K; [|exact I].
    apply classify_in_In in K. destruct (fr_md _ _ _ H) as [-> ->]. clear H.
    cbn [table In] in K.
    repeat (destruct K as [K|K]; [inversion K; subst n k; clear K|]); try contradiction.
    + norm_rule "expression" H0 Em. apply R_expression; assumption.
    + norm_rule "binary" H0 Em. eapply R_binary; eassumption.
    + norm_rule "octal" H0 Em. eapply R_octal; eassumption.
    + norm_rule "hex" H0 Em. eapply R_hex; eassumption.
    + norm_rule "decimal" H0 Em. eapply R_decimal; eassumption.
    + norm_rule "negative_decimal" H0 Em. eapply R_negdec; eassumption.
    + apply R_label.
    + norm_rule "selector" H0 Em. apply R_selector; assumption.
    + norm_rule "topic" H0 Em. apply R_topic; assumption.
    + norm_rule "expression_macro" H0 Em. eapply R_emacro; [apply not_atomic; exact Em|eassumption|assumption].
    + norm_rule "instruction_macro_variable" H0 Em. eapply R_var; eassumption.
    + norm_rule "label_definition" H0 Em. eapply R_labeldef; [apply not_atomic; exact Em|eassumption].
    + norm_rule "local_macro" H0 Em. eapply R_local_macro; [apply not_atomic; exact Em|eassumption|assumption].
    + norm_rule "push" H0 Em. apply R_push; assumption.
    + norm_rule "op" H0 Em. eapply R_op; eassumption.
    + cbn [QK]. apply push_macro_ok. exact IHsem.
    + norm_rule "builtin" H0 Em. apply R_builtin; assumption.
    + cbn [QK]. apply path_ok. exact IHsem.
    + cbn [QK]. apply path_ok. exact IHsem.
    + cbn [QK]. apply path_ok. exact IHsem.
    + norm_rule "word_size" H0 Em. eapply R_word_size; eassumption.
    + norm_rule "string" H0 Em. eapply R_string; eassumption.
    + norm_rule "function_declaration" H0 Em. eapply R_decl; [apply not_atomic; exact Em|eassumption].
    + norm_rule "instruction_macro_definition" H0 Em. eapply R_idef; [apply not_atomic; exact Em|eassumption|assumption].
    + norm_rule "instruction_macro" H0 Em. apply R_imacro; assumption.
    + norm_rule "expression_macro_definition" H0 Em. apply R_edef; assumption.
  - apply IHsem; exact A.
  - apply Forall_app. split; [apply IHsem1; eapply aligned_l; exact A|apply IHsem2; eapply aligned_r; exact A].
  - apply IHsem; exact A.
  - apply IHsem; exact A.
  - apply IHsem; exact A.
  - apply Forall_app. split; [apply IHsem1; eapply aligned_l; exact A|apply IHsem2; eapply aligned_r; exact A].
Qed.

(* ---------- parse_asm ---------- *)
Lemma nodes_ok : forall ps, Forall Q ps ->
  Forall (fun p => In (pname p) ["label_definition"; "builtin"; "local_macro"; "push"; "op"; "EOI"]) ps ->
  forall st, conv_nodes input ps <> Panic st.
Proof.
  induction ps as [|p r IH]; intros HQ HN st; [discriminate|].
  apply Forall_Q_cons in HQ. destruct HQ as [Qp HQ]. inversion HN as [|? ? Hp HN']; subst.
  cbn [conv_nodes]. destruct (String.eqb_spec (pname p) "EOI") as [E|NE]; [apply IH; assumption|].
  revert st. apply bind_nopanic.
  - destruct (String.eqb_spec (pname p) "builtin") as [E|NB].
    + apply (Q_use p KBuiltin); [rewrite E; reflexivity|exact Qp].
    + apply bind_nopanic; [|discriminate].
      name_cases Hp; try congruence; (apply (Q_use p KS); [rewrite Hp; reflexivity|exact Qp]).
  - intros nd st. apply bind_nopanic; [apply IH; assumption|discriminate].
Qed.
End WithInput.

Ltac name_cases' Hp :=
  cbn [In] in Hp; repeat (destruct Hp as [Hp|Hp]; [symmetry in Hp|]); try contradiction.

Theorem conv_nodes_no_panic : forall input ps,
  parse_program input = Ok (Some ps) -> forall st, conv_nodes input ps <> Panic st.
Proof.
  intros input ps H. destruct (peg_parse_sem _ _ _ _ H) as (s & rest & E & D).
  fold cg in D. assert (A : aligned input 0%N s) by (exists rest; exact E).
  apply nodes_ok.
  - eapply sem_Q; eassumption.
  - pose proof (all_named _ _ _ _ _ _ D ltac:(vm_compute; reflexivity)) as F.
    eapply Forall_impl; [|exact F]. intros p Hp. name_cases' Hp; rewrite Hp; cbn [In]; tauto.
Qed.

Theorem parse_nodes_no_panic : forall input st, parse_nodes input <> Panic st.
Proof.
  intros input st. unfold parse_nodes. destruct (parse_program_total input) as (o & E). rewrite E.
  destruct o as [ps|]; [apply conv_nodes_no_panic; exact E|discriminate].
Qed.

Lemma ops_of_nodes_no_panic : forall nodes st, ops_of_nodes nodes <> Panic st.
Proof.
  induction nodes as [|[a|p|p|p] r IH]; intro st; cbn [ops_of_nodes]; try discriminate.
  apply bind_nopanic; [exact IH|discriminate].
Qed.

Theorem parse_text_no_panic : forall input st, parse_text input <> Panic st.
Proof.
  intros input. unfold parse_text. apply bind_nopanic; [apply parse_nodes_no_panic|].
  intros nodes. apply ops_of_nodes_no_panic.
Qed.

(* the assembler never crashes, whatever the source text *)
Theorem ingest_text_no_panic : forall input st, ingest_text input <> Panic st.
Proof.
  intros input. unfold ingest_text. apply bind_nopanic; [apply parse_text_no_panic|].
  intros ops st. apply ingest_ast_no_panic.
Qed.

Theorem conv_program_no_panic : forall input ps,
  parse_program input = Ok (Some ps) -> forall st, conv_program input ps <> Panic st.
Proof.
  intros input ps H. unfold conv_program. apply bind_nopanic; [apply conv_nodes_no_panic; exact H|].
  intros nodes. apply ops_of_nodes_no_panic.
Qed.

(* ---------- which error values the parser can return ---------- *)
Section PairInd.
  Variable P : pair -> Prop.
  Hypothesis HP : forall n s e ch, Forall P ch -> P (Pair n s e ch).
  Fixpoint pair_ind' (p : pair) : P p :=
    match p with
    | Pair n s e ch => HP n s e ch ((fix go (l : list pair) : Forall P l :=
                                      match l with
                                      | [] => Forall_nil P
                                      | x :: r => Forall_cons x (pair_ind' x) (go r)
                                      end) ch)
    end.
End PairInd.

Lemma bind_noerr : forall A B (r : res A) (k : A -> res B),
  (forall e, r <> Err e) -> (forall a e, k a <> Err e) -> forall e, bind r k <> Err e.
Proof. intros A B [a|e0|p] k H1 H2 e; cbn [bind]; [apply H2|exfalso; apply (H1 e0); reflexivity|discriminate]. Qed.

Lemma sequence_noerr : forall A (l : list (res A)), Forall (fun r => forall e, r <> Err e) l ->
  forall e, sequence l <> Err e.
Proof.
  intros A l H. induction H as [|r l Hr _ IH]; intro e; cbn [sequence]; [discriminate|].
  apply bind_noerr; [exact Hr|]. intros a e'. apply bind_noerr; [exact IH|discriminate].
Qed.

Lemma climb_loops_noerr : forall fuel,
  (forall lhs mp its e, climb_rec fuel lhs mp its <> Err e) /\
  (forall rhs prec its e, climb_inner fuel rhs prec its <> Err e).
Proof.
  induction fuel as [|f [IH1 IH2]]; split.
  - intros; discriminate.
  - intros; discriminate.
  - intros lhs mp its e. cbn [climb_rec].
    destruct its as [|[a|o] rest]; try discriminate.
    destruct (mp <=? op_prec o)%N; [|discriminate].
    destruct rest as [|p rest']; [discriminate|].
    apply bind_noerr; [destruct p; discriminate|]. intros rhs e'.
    apply bind_noerr; [apply IH2|]. intros rr e''. apply IH1.
  - intros rhs prec its e. cbn [climb_inner].
    destruct its as [|[a|o] rest]; try discriminate.
    destruct ((prec <? op_prec o)%N || (is_right (op_assoc o) && (op_prec o =? prec)%N))%bool; [|discriminate].
    apply bind_noerr; [apply IH1|]. intros rr e'. apply IH2.
Qed.

Lemma climb_noerr : forall its e, Parse.climb its <> Err e.
Proof.
  intros its e. unfold Parse.climb. destruct its as [|p rest]; [discriminate|].
  apply bind_noerr; [destruct p; discriminate|]. intros lhs e'.
  apply bind_noerr; [apply (proj1 (climb_loops_noerr _))|discriminate].
Qed.

Lemma digits_of_noerr : forall r s e, digits_of r s <> Err e.
Proof.
  intros r. induction s as [|c s IH]; intro e; cbn [digits_of]; [discriminate|].
  destruct (to_digit r c); [|discriminate]. apply bind_noerr; [exact IH|discriminate].
Qed.
Lemma parse_radix_noerr : forall s r e, parse_radix_str s r <> Err e.
Proof.
  intros s r e. unfold parse_radix_str. apply bind_noerr; [apply digits_of_noerr|].
  intros ds e'. destruct (from_radix_be r ds); discriminate.
Qed.
Lemma parse_neg_noerr : forall s e, parse_negative_decimal s <> Err e.
Proof.
  intros s e. unfold parse_negative_decimal. destruct s as [|c d]; [discriminate|].
  apply bind_noerr; [apply digits_of_noerr|]. intros ds e'. destruct (from_radix_be 10 ds); discriminate.
Qed.
Lemma radix_lit_noerr : forall txt r e, radix_lit txt r <> Err e.
Proof.
  intros txt r e. unfold radix_lit. destruct txt as [|a [|b d]]; try discriminate.
  apply bind_noerr; [apply parse_radix_noerr|discriminate].
Qed.

Section Errs.
Variable input : list N.

(* expression::parse never returns Err *)
Lemma conv_expr_noerr : forall p e, conv_expr input p <> Err e.
Proof.
  apply (pair_ind' (fun p => forall e, conv_expr input p <> Err e)).
  intros n s e ch IH e0. cbn [conv_expr].
  destruct (String.eqb n "expression").
  { apply bind_noerr; [|intros; apply climb_noerr]. apply sequence_noerr. rewrite Forall_map.
    eapply Forall_impl; [|exact IH]. intros c Hc e1. cbv beta.
    destruct (binop_of_rule (pname c)); [discriminate|]. apply bind_noerr; [exact Hc|discriminate]. }
  destruct (String.eqb n "binary"); [apply radix_lit_noerr|].
  destruct (String.eqb n "octal"); [apply radix_lit_noerr|].
  destruct (String.eqb n "hex"); [apply radix_lit_noerr|].
  destruct (String.eqb n "decimal"); [apply bind_noerr; [apply parse_radix_noerr|discriminate]|].
  destruct (String.eqb n "negative_decimal"); [apply bind_noerr; [apply parse_neg_noerr|discriminate]|].
  destruct (String.eqb n "label"); [discriminate|].
  destruct (String.eqb n "selector"); [destruct ch; discriminate|].
  destruct (String.eqb n "topic"); [destruct ch; discriminate|].
  destruct (String.eqb n "expression_macro").
  { destruct ch as [|nm args]; [discriminate|]. apply bind_noerr; [|discriminate].
    apply sequence_noerr. rewrite Forall_map. inversion IH; subst. assumption. }
  destruct (String.eqb n "instruction_macro_variable"); [|discriminate].
  destruct (slice input s e) as [|b v]; [discriminate|]. destruct (b =? 36)%N eqn:E.
  - apply N.eqb_eq in E. subst b. discriminate.
  - destruct b as [|q]; [discriminate|]. repeat (destruct q as [q|q|]; try discriminate).
Qed.

Definition parse_errors : list err :=
  [mkErr "Parse.Lexer" []; mkErr "Parse.ImmediateTooLarge" []; mkErr "Parse.MissingArgument" ["1"; "0"];
   mkErr "Parse.ExtraArgument" ["1"]; mkErr "Parse.ArgumentType" []].
Definition okerr {A} (r : res A) : Prop := forall e, r = Err e -> In e parse_errors.

Lemma bind_okerr : forall A B (r : res A) (k : A -> res B),
  okerr r -> (forall a, okerr (k a)) -> okerr (bind r k).
Proof.
  intros A B [a|e0|p] k H1 H2 e; cbn [bind]; intro E; [eapply H2; exact E| |discriminate].
  inversion E; subst. apply H1. reflexivity.
Qed.
Lemma noerr_okerr : forall A (r : res A), (forall e, r <> Err e) -> okerr r.
Proof. intros A r H e E. exfalso. exact (H e E). Qed.
Ltac in_errs := let x := fresh "x" in let E := fresh "E" in intros x E; inversion E; subst; cbn; tauto.
Ltac nd := let x := fresh "x" in let E := fresh "E" in intros x E; discriminate.

Lemma push_macro_okerr : forall p, okerr (conv_push_macro input p).
Proof.
  intros p. unfold conv_push_macro. destruct (pkids p) as [|a rest]; [in_errs|].
  destruct rest; [|in_errs]. destruct (String.eqb (pname a) "expression"); [|in_errs].
  apply bind_okerr; [apply noerr_okerr, conv_expr_noerr|]. intros x; nd.
Qed.

Lemma path_okerr : forall p, okerr (conv_path_args input p).
Proof.
  intros p. unfold conv_path_args. destruct (pkids p) as [|a rest]; [in_errs|].
  destruct (negb (String.eqb (pname a) "string")); [in_errs|].
  destruct (existsb (N.eqb 92) (ptext input a)); [in_errs|].
  destruct (ptext input a) as [|x [|y r]]; try (nd).
  destruct rest; [nd|in_errs].
Qed.

Lemma builtin_okerr : forall p, okerr (conv_builtin input p).
Proof.
  intros p. unfold conv_builtin. destruct (pkids p) as [|c rest]; [nd|].
  destruct rest; [|nd]. cbv zeta.
  destruct (String.eqb (pname c) "import"); [apply bind_okerr; [apply path_okerr|intros x; nd]|].
  destruct (String.eqb (pname c) "include"); [apply bind_okerr; [apply path_okerr|intros x; nd]|].
  destruct (String.eqb (pname c) "include_hex"); [apply bind_okerr; [apply path_okerr|intros x; nd]|].
  destruct (String.eqb (pname c) "push_macro"); [apply bind_okerr; [apply push_macro_okerr|intros x; nd]|].
  nd.
Qed.

Lemma push_okerr : forall p, okerr (conv_push input p).
Proof.
  intros p. unfold conv_push. destruct (pkids p) as [|sz rest]; [nd|].
  apply bind_okerr.
  { unfold parse_usize. destruct (ptext input sz); [nd|].
    destruct (digits_of 10 _); nd. }
  intros size. destruct rest as [|operand r]; [nd|].
  destruct (push cancun size) as [row|]; [|nd].
  apply bind_okerr; [apply noerr_okerr, conv_expr_noerr|]. intros x.
  apply bind_okerr.
  { unfold parse_push_check. destruct (eval _ _ _ _ _); try (nd).
    destruct (_ <=? _)%Z; [in_errs|nd]. }
  intros _. destruct (is_push_variant row); nd.
Qed.

Lemma decl_okerr : forall d, okerr (conv_decl input d).
Proof. intros d. unfold conv_decl. destruct (pkids d); nd. Qed.

(* P holds of a pair and of every pair below it *)
Inductive deep (P : pair -> Prop) : pair -> Prop :=
| deep_intro : forall n s e ch, P (Pair n s e ch) -> Forall (deep P) ch -> deep P (Pair n s e ch).

Lemma deep_all : forall (P : pair -> Prop),
  (forall n s e ch, Forall (deep P) ch -> P (Pair n s e ch)) -> forall p, deep P p.
Proof.
  intros P H. apply pair_ind'. intros n s e ch IH. constructor; [apply H; exact IH|exact IH].
Qed.

Lemma deep_here : forall P p, deep P p -> P p.
Proof. intros P p H. inversion H; subst. assumption. Qed.

Lemma contents_okerr : forall bd, Forall (fun b => okerr (conv_aop input b)) bd -> okerr (conv_contents input bd).
Proof.
  induction bd as [|b r IH]; intro H; [nd|].
  inversion H; subst.
  change (conv_contents input (b :: r)) with
    (do a <- (if String.eqb (pname b) "push_macro" then conv_push_macro input b else conv_aop input b) ;
     do ar <- conv_contents input r ; Ok (a :: ar)).
  apply bind_okerr.
  - destruct (String.eqb (pname b) "push_macro"); [apply push_macro_okerr|assumption].
  - intros a. apply bind_okerr; [apply IH; assumption|intros ar; nd].
Qed.

Lemma exprs_noerr : forall args e, sequence (map (conv_expr input) args) <> Err e.
Proof.
  intros args. apply sequence_noerr. rewrite Forall_map. rewrite Forall_forall. intros a _. apply conv_expr_noerr.
Qed.

Lemma conv_aop_okerr : forall p, okerr (conv_aop input p).
Proof.
  intro p. apply (deep_here (fun p => okerr (conv_aop input p))). revert p. apply deep_all.
  intros n s e ch IH.
  destruct (String.eqb n "local_macro") eqn:E1.
  { apply String.eqb_eq in E1. subst n.
    destruct ch as [|[n0 s0 e0 ch0] rest]; [nd|].
    inversion IH as [|? ? D0 _]; subst. inversion D0 as [? ? ? ? _ D1]; subst.
    destruct (String.eqb n0 "instruction_macro_definition") eqn:E2.
    { apply String.eqb_eq in E2. subst n0. rewrite conv_aop_idef.
      destruct ch0 as [|decl bd]; [nd|].
      apply bind_okerr; [apply decl_okerr|]. intros np. apply bind_okerr; [|intros c; nd].
      apply contents_okerr. inversion D1; subst. eapply Forall_impl; [|eassumption]. intros b Hb. apply deep_here in Hb. exact Hb. }
    destruct (String.eqb n0 "instruction_macro") eqn:E3.
    { apply String.eqb_eq in E3. subst n0. rewrite conv_aop_imacro.
      destruct ch0 as [|nm args]; [nd|].
      apply bind_okerr; [apply noerr_okerr, exprs_noerr|intros az; nd]. }
    destruct (String.eqb n0 "expression_macro_definition") eqn:E4.
    { apply String.eqb_eq in E4. subst n0. rewrite conv_aop_edef.
      destruct ch0 as [|decl r0]; [nd|].
      apply bind_okerr; [apply decl_okerr|]. intros np. destruct r0 as [|c r1]; [nd|].
      apply bind_okerr; [apply noerr_okerr, conv_expr_noerr|intros b; nd]. }
    cbn [conv_aop]. rewrite E2, E3, E4. nd. }
  cbn [conv_aop]. rewrite E1.
  destruct (String.eqb n "label_definition"); [destruct ch; nd|].
  destruct (String.eqb n "push"); [apply push_okerr|].
  destruct (String.eqb n "op"); [|nd].
  unfold conv_plain_op. destruct (from_str cancun _); [|nd].
  destruct (op_new o); nd.
Qed.

Lemma conv_nodes_okerr : forall ps, okerr (conv_nodes input ps).
Proof.
  induction ps as [|p r IH]; [nd|]. cbn [conv_nodes].
  destruct (String.eqb (pname p) "EOI"); [exact IH|].
  apply bind_okerr.
  - destruct (String.eqb (pname p) "builtin"); [apply builtin_okerr|].
    apply bind_okerr; [apply conv_aop_okerr|intros a; nd].
  - intros nd. apply bind_okerr; [exact IH|intros l; nd].
Qed.
End Errs.

(* parse_asm returns one of the five ParseError values the harness can print *)
Theorem parse_nodes_errors : forall input e, parse_nodes input = Err e -> In e parse_errors.
Proof.
  intros input e. unfold parse_nodes. destruct (parse_program_total input) as (o & ->).
  destruct o as [ps|]; [apply conv_nodes_okerr|]. intro E. inversion E; subst. cbn; tauto.
Qed.
