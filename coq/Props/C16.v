(* Props/C16.v -- Basic blocks partition the instruction stream at control-flow boundaries. *)
From Verif Require Import Model.Base Model.Ops Model.Disasm Model.Blocks Proofs.DisasmProofs Proofs.BlocksProofs.
Open Scope N_scope.

(* For every history of push / push_all / take, collected by take + finish: the delivered
   blocks are non-empty (head_off), concatenate to exactly the input, a jumpdest occurs only
   first and a jump/halting instruction only last; finish does not panic after a take. *)
Theorem C16_partition : forall h,
  let bl := scollect (srun cancun_jt cancun_jmp h) in
  all_ops bl = sinput h /\
  Forall (block_ok cancun_jt cancun_jmp) bl /\
  (exists o, fst (sfinish (snd (stake (snd (srun cancun_jt cancun_jmp h))))) = Ok o).
Proof. exact (collect_spec cancun_jt cancun_jmp cancun_jt_not_jmp). Qed.
Print Assumptions C16_partition.

(* offsets chain: each block's offset is the previous block's offset plus its size *)
Theorem C16_offsets : forall h off,
  offsets_from off (sinput h) ->
  block_offsets_from off (scollect (srun cancun_jt cancun_jmp h)).
Proof.
  intros h off H. destruct (C16_partition h) as (A & B & _).
  apply (block_offsets cancun_jt cancun_jmp cancun_jt_not_jmp); [rewrite A; exact H|].
  eapply Forall_impl; [|exact B]. intros b Hb. exact (proj1 Hb).
Qed.
Print Assumptions C16_offsets.

(* batching is irrelevant *)
Theorem C16_batching : forall acc its,
  sstep cancun_jt cancun_jmp acc (SPushAll its) =
  fold_left (sstep cancun_jt cancun_jmp) (map SPush its) acc.
Proof. exact (push_all_is_pushes cancun_jt cancun_jmp). Qed.
Print Assumptions C16_batching.

(* the same for ANY classification in which no instruction both opens and closes a block *)
Theorem C16_generic : forall (is_jt is_jmp : item -> bool),
  (forall it, is_jt it = true -> is_jmp it = false) ->
  forall h, let bl := scollect (srun is_jt is_jmp h) in
  all_ops bl = sinput h /\ Forall (block_ok is_jt is_jmp) bl.
Proof. intros j m H h. destruct (collect_spec j m H h) as (A & B & _). auto. Qed.
Print Assumptions C16_generic.

Example C16_example :
  let i := fun o c => mkitem o c [] in
  scollect (srun cancun_jt cancun_jmp
     [SPush (i 0 0x5b); SPushAll [i 1 0x01; i 2 0x56; i 3 0x01]; STake; SPush (i 4 0x5b); SPush (i 5 0x00)])
  = [mkblock 0 [i 0 0x5b; i 1 0x01; i 2 0x56]; mkblock 3 [i 3 0x01]; mkblock 4 [i 4 0x5b; i 5 0x00]].
Proof. vm_compute. reflexivity. Qed.

Check C16_partition : forall h,
  let bl := scollect (srun cancun_jt cancun_jmp h) in
  all_ops bl = sinput h /\ Forall (block_ok cancun_jt cancun_jmp) bl /\
  (exists o, fst (sfinish (snd (stake (snd (srun cancun_jt cancun_jmp h))))) = Ok o).
Check C16_offsets : forall h off, offsets_from off (sinput h) ->
  block_offsets_from off (scollect (srun cancun_jt cancun_jmp h)).
Check C16_batching : forall acc its,
  sstep cancun_jt cancun_jmp acc (SPushAll its) = fold_left (sstep cancun_jt cancun_jmp) (map SPush its) acc.
Check C16_generic : forall (is_jt is_jmp : item -> bool),
  (forall it, is_jt it = true -> is_jmp it = false) ->
  forall h, let bl := scollect (srun is_jt is_jmp h) in
  all_ops bl = sinput h /\ Forall (block_ok is_jt is_jmp) bl.
