(* Props/C07.v -- Auto-sized pushes hold their exact value; constants get the minimal width. *)
From Coq Require Import Lia.
From Verif Require Import Model.Base Model.Ops Model.Expr Model.Asm
  Proofs.AsmLayoutProofs Proofs.AsmRangeProofs Proofs.AsmWidthProofs.
Open Scope Z_scope.

(* (1) In every program that assembles, each %push(e) is ONE push instruction: opcode 0x5f+w,
   followed by exactly w bytes (1 <= w <= 32) whose big-endian value is the value of e under
   the final layout. *)
Theorem C07_push_value : forall ops bytes,
  assemble ops = Ok bytes ->
  exists macros items w pos,
    layout macros items = Ok (w, pos) /\
    emit macros (lenv pos) items w = Ok bytes /\
    Forall (fun p => match fst p with
                     | IPush e =>
                         exists v imm,
                           eval_op macros (lenv pos) e = Ok v /\
                           emit_item macros (lenv pos) (IPush e) (snd p) = Ok ((0x5f + N.of_nat (snd p))%N :: imm) /\
                           length imm = snd p /\ (1 <= snd p <= 32)%nat /\ Z.of_N (N_of_be imm) = v
                     | _ => True end) (with_widths items w).
Proof.
  intros ops bytes H.
  destruct (assemble_operands_in_range ops bytes H) as (macros & items & w & pos & _ & Hl & He & Hw & _).
  exists macros, items, w, pos. split; [exact Hl|]. split; [exact He|].
  pose proof (emit_each macros _ _ _ _ He) as Hall.
  assert (Hws : Forall (fun p => match fst p with IPush _ => (1 <= snd p <= 32)%nat | _ => True end)
                       (with_widths items w)).
  { clear - Hw. revert w Hw. induction items as [|it r IH]; intros w Hw; cbn [with_widths]; [constructor|].
    destruct it as [l|c imm|e|raw]; try (constructor; [exact I|apply IH; exact Hw]).
    destruct w as [|w0 w']; [|inversion Hw; subst; constructor; [assumption|apply IH; assumption]].
    constructor; [cbn; lia|apply IH; constructor]. }
  rewrite Forall_forall in *. intros [it wk] Hin. specialize (Hall _ Hin). specialize (Hws _ Hin).
  cbn [fst snd] in *. destruct it as [l|c imm|e|raw]; try exact I.
  destruct Hall as [b Hb]. destruct (emit_item_push_spec macros _ e wk b Hb) as (v & Ev & Hv & Hlen & ->).
  exists v, (pad_left wk (be_bytes (Z.to_N v))). repeat split; auto; try lia.
  - now apply pad_left_length.
  - rewrite N_of_be_pad_left. now apply Z2N.id.
Qed.
Print Assumptions C07_push_value.

(* (2) When e does not depend on labels, the width is the smallest that holds the value
   (one byte for zero): the layout gives it min(push_width v, 32), and push_width v is the least
   k >= 1 with v < 256^k. *)
Theorem C07_constant_minimal : forall macros items w pos,
  layout macros items = Ok (w, pos) ->
  Forall (fun p => match fst p with
                   | IPush e => forall v, label_independent macros e v -> snd p = target v
                   | _ => True end) (with_widths items w).
Proof. exact layout_constant_width. Qed.
Print Assumptions C07_constant_minimal.

Theorem C07_push_width_minimal : forall v, 0 <= v ->
  (1 <= push_width v)%nat /\ v < 256 ^ Z.of_nat (push_width v) /\
  (push_width v = 1%nat \/ 256 ^ (Z.of_nat (push_width v) - 1) <= v).
Proof. exact push_width_spec. Qed.
Print Assumptions C07_push_width_minimal.

(* (3) negative values and values needing more than 32 bytes are errors, for every width the
   layout can choose *)
Theorem C07_rejects : forall w spec v, (w <= 32)%nat ->
  (v < 0 \/ 2 ^ 256 <= v) -> exists er, concretize_imm w spec v = Err er.
Proof.
  intros w spec v Hw Hv. apply concretize_imm_rejects. intros [H0 H1]. destruct Hv as [Hv|Hv]; [lia|].
  assert (256 ^ Z.of_nat w <= 256 ^ 32) by (apply Z.pow_le_mono_r; lia).
  change (256 ^ 32) with (2 ^ 256) in H. lia.
Qed.
Print Assumptions C07_rejects.

(* the same constant spelled as a literal, an arithmetic expression or an expression-macro call *)
Example C07_example :
  let d := ROp (AMacroDefE "k" [] (ENum 65536)) in
  assemble [ROp (APush (ENum 65536))] = Ok [0x62; 1; 0; 0]%N /\
  assemble [ROp (APush (EPlus (ENum 65535) (ENum 1)))] = Ok [0x62; 1; 0; 0]%N /\
  assemble [d; ROp (APush (EMacro "k" []))] = Ok [0x62; 1; 0; 0]%N /\
  assemble [ROp (APush (ENum 0))] = Ok [0x60; 0]%N /\
  label_independent [] (EPlus (ENum 65535) (ENum 1)) 65536.
Proof. repeat split; try (vm_compute; reflexivity). Qed.

Check C07_push_value : forall ops bytes,
  assemble ops = Ok bytes ->
  exists macros items w pos,
    layout macros items = Ok (w, pos) /\ emit macros (lenv pos) items w = Ok bytes /\
    Forall (fun p => match fst p with
                     | IPush e =>
                         exists v imm,
                           eval_op macros (lenv pos) e = Ok v /\
                           emit_item macros (lenv pos) (IPush e) (snd p) = Ok ((0x5f + N.of_nat (snd p))%N :: imm) /\
                           length imm = snd p /\ (1 <= snd p <= 32)%nat /\ Z.of_N (N_of_be imm) = v
                     | _ => True end) (with_widths items w).
Check C07_constant_minimal : forall macros items w pos,
  layout macros items = Ok (w, pos) ->
  Forall (fun p => match fst p with
                   | IPush e => forall v, label_independent macros e v -> snd p = target v
                   | _ => True end) (with_widths items w).
Check C07_push_width_minimal : forall v, 0 <= v ->
  (1 <= push_width v)%nat /\ v < 256 ^ Z.of_nat (push_width v) /\
  (push_width v = 1%nat \/ 256 ^ (Z.of_nat (push_width v) - 1) <= v).
Check C07_rejects : forall w spec v, (w <= 32)%nat ->
  (v < 0 \/ 2 ^ 256 <= v) -> exists er, concretize_imm w spec v = Err er.
