(* Props/C04.v -- Disassembly is lossless and independent of how input is chunked. *)
From Verif Require Import Model.Base Model.Ops Model.Disasm Proofs.DisasmProofs.
Open Scope N_scope.

(* Every history of writes and polls, at every point: the instructions emitted so far
   re-encode to a prefix of the input, the rest is still buffered, offsets are true offsets. *)
Theorem C04_every_history : forall h,
  let em := fst (drun h) in let st := snd (drun h) in
  (flatten em ++ d_buf st)%list = hinput h /\
  d_off st = N.of_nat (length (flatten em)) /\
  Forall wf_item em /\ offsets_from 0 em.
Proof. intros h. destruct (history_invariant h) as [A B C D]. auto. Qed.
Print Assumptions C04_every_history.

(* Polled to exhaustion: exactly the longest prefix of whole instructions, leftover =
   the incomplete trailing push, and it equals the one-shot decoding of the whole input. *)
Theorem C04_complete : forall h,
  let r := dfinal h in
  (flatten (fst r) ++ d_buf (snd r))%list = hinput h /\
  Forall wf_item (fst r) /\ offsets_from 0 (fst r) /\ incomplete (d_buf (snd r)) /\
  d_off (snd r) = N.of_nat (length (flatten (fst r))) /\
  fst r = fst (decode_all (hinput h)) /\ d_buf (snd r) = snd (decode_all (hinput h)).
Proof.
  intros h r. destruct (dfinal_spec h) as (A & B & C & D & E).
  destruct (dfinal_decode_all h) as [F G]. unfold r. auto 10.
Qed.
Print Assumptions C04_complete.

(* "longest prefix of whole instructions" is unique, so the result cannot depend on chunking *)
Theorem C04_unique_decomposition : forall a1 l1 a2 l2,
  Forall wf_item a1 -> Forall wf_item a2 -> incomplete l1 -> incomplete l2 ->
  (flatten a1 ++ l1 = flatten a2 ++ l2)%list ->
  map encode_item a1 = map encode_item a2 /\ l1 = l2.
Proof. exact decomposition_unique. Qed.
Print Assumptions C04_unique_decomposition.

Theorem C04_chunking_independent : forall h1 h2, hinput h1 = hinput h2 ->
  fst (dfinal h1) = fst (dfinal h2) /\ d_buf (snd (dfinal h1)) = d_buf (snd (dfinal h2)) /\
  d_off (snd (dfinal h1)) = d_off (snd (dfinal h2)).
Proof. exact chunking_independent. Qed.
Print Assumptions C04_chunking_independent.

Theorem C04_emitted_is_prefix : forall h1 h2, exists ext,
  fst (decode_all (hinput (h1 ++ h2))) = (fst (drun h1) ++ ext)%list.
Proof. exact emitted_is_prefix. Qed.
Print Assumptions C04_emitted_is_prefix.

(* finish errs exactly when bytes remain, and reports their offset and content *)
Theorem C04_finish : forall st,
  (dfinish st = Ok tt <-> d_buf st = []) /\
  (d_buf st <> [] -> dfinish st = Err (mkErr "Truncated" [dec_of_N (d_off st); hex_bytes (d_buf st)])).
Proof. exact dfinish_spec. Qed.
Print Assumptions C04_finish.

(* non-vacuity: a history with a split inside an immediate and interleaved polls *)
Example C04_example :
  let h := [DWrite [0x60]; DNext; DWrite [0x01; 0x61; 0xaa]; DNext; DNext; DWrite [0xbb; 0x7f]] in
  fst (dfinal h) = [mkitem 0 0x60 [0x01]; mkitem 2 0x61 [0xaa; 0xbb]] /\ d_buf (snd (dfinal h)) = [0x7f]
  /\ d_off (snd (dfinal h)) = 5.
Proof. vm_compute. auto. Qed.

Check C04_every_history : forall h,
  let em := fst (drun h) in let st := snd (drun h) in
  (flatten em ++ d_buf st)%list = hinput h /\ d_off st = N.of_nat (length (flatten em)) /\
  Forall wf_item em /\ offsets_from 0 em.
Check C04_complete : forall h,
  let r := dfinal h in
  (flatten (fst r) ++ d_buf (snd r))%list = hinput h /\
  Forall wf_item (fst r) /\ offsets_from 0 (fst r) /\ incomplete (d_buf (snd r)) /\
  d_off (snd r) = N.of_nat (length (flatten (fst r))) /\
  fst r = fst (decode_all (hinput h)) /\ d_buf (snd r) = snd (decode_all (hinput h)).
Check C04_unique_decomposition : forall a1 l1 a2 l2,
  Forall wf_item a1 -> Forall wf_item a2 -> incomplete l1 -> incomplete l2 ->
  (flatten a1 ++ l1 = flatten a2 ++ l2)%list -> map encode_item a1 = map encode_item a2 /\ l1 = l2.
Check C04_chunking_independent : forall h1 h2, hinput h1 = hinput h2 ->
  fst (dfinal h1) = fst (dfinal h2) /\ d_buf (snd (dfinal h1)) = d_buf (snd (dfinal h2)) /\
  d_off (snd (dfinal h1)) = d_off (snd (dfinal h2)).
Check C04_emitted_is_prefix : forall h1 h2, exists ext,
  fst (decode_all (hinput (h1 ++ h2))) = (fst (drun h1) ++ ext)%list.
Check C04_finish : forall st,
  (dfinish st = Ok tt <-> d_buf st = []) /\
  (d_buf st <> [] -> dfinish st = Err (mkErr "Truncated" [dec_of_N (d_off st); hex_bytes (d_buf st)])).
